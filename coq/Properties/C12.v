(* C12 — printed data reads back as the same data.  Statements only; proofs in Proofs/PrinterProofs.v.

   Reading = Model/Lexer.v + Model/Reader.v (owner C13; regexes, EscapeChar and canStartSignedNumberAfter
   GENERATED from lexer.go) ; printing = Model/Printer.v.  [lexes_to a tks]: from any lexer state between
   tokens (normal mode, empty atom buffer, the previous rune p one after which a sign may start a
   number), the text a followed by a delimiter (blank, newline, closing paren or bracket) appends exactly
   the tokens tks (plus the delimiter's own token) and leaves the lexer between tokens again.

   Oracles: is_print (strconv.IsPrint, universally quantified); the DIGITS strconv.FormatFloat produces for a
   finite float (structured token ftok; contract ftok_ok: digits where digits belong, an exponent exactly in the
   e format) and the success of ParseFloat on the printed text (float_ok, Reader.v); everything else about
   floats (sign, point, the .0 rule, e+NN, +Inf -Inf NaN, how it lexes and parses) is modelled and proved.

   Hashes: [dat] contains hashes with symbol keys (k:) and string keys (printed by strconv.Quote), so
   read_print_data also says that a printed hash is read, through the colon states of the lexer and the
   look-ahead after the opening brace, as the list (hash k: v ...) ([to_sexp]); eval_read_print_jsonlike says that
   evaluating that list ([eval_json_like]: literals, array literals, the hash builder on literal arguments) gives
   the value back.  Excluded: records (Type k:v), keys that are neither symbols nor strings, a symbol key whose
   first value is the symbol for (parsed as an infix block), and the known findings (strings / keys needing Go-only escapes). *)
From Coq Require Import ZArith List Bool.
From ZV Require Import Model.Regex Generated.LexTables Model.Lexer Model.Reader Model.Printer Model.PrinterPretty Model.StrLit
  Proofs.PrinterLex Proofs.RegexSem Proofs.Classify Proofs.PrinterProofs Proofs.EvalJson Proofs.PrinterPretty Proofs.StrLitProofs Proofs.SymReadable.
Import ListNotations.
Open Scope Z_scope.

(* ---- read_print_atom: each printed atom re-lexes to exactly one token ... ---- *)
Theorem read_print_int : forall z, - 2 ^ 63 <= z < 2 ^ 63 ->
  lexes_to (itoa z) [mkTok TDecimal (itoa z)] /\ parse_int 10 (remove_z 95 (itoa z)) = Some z.
Proof. intros z H. split; [exact (int_lexes z H)|exact (parse_int_itoa z H)]. Qed.
Print Assumptions read_print_int.

Theorem read_print_uint : forall z, 0 <= z < 2 ^ 64 ->
  lexes_to (utoa z) [mkTok TUint64 (utoa z)] /\ conv_uint64 (utoa z) = Some z.
Proof. intros z H. split; [exact (uint_lexes z H)|exact (conv_uint64_utoa z H)]. Qed.
Print Assumptions read_print_uint.

Theorem read_print_bool : forall b : bool,
  lexes_to (if b then str_true else str_false) [mkTok TBool (if b then str_true else str_false)].
Proof. exact bool_lexes. Qed.
Print Assumptions read_print_bool.

Theorem read_print_nil : lexes_to str_nil [mkTok TSymbol str_nil].
Proof. exact nil_lexes. Qed.
Print Assumptions read_print_nil.

(* chars: every Unicode scalar value that QuoteRune writes raw or with an escape EscapeChar knows *)
Theorem read_print_char : forall is_print c, rune_ok is_print 39 c ->
  lexes_to (quote_rune is_print c) [mkTok TChar [c]].
Proof. exact char_lexes. Qed.
Print Assumptions read_print_char.

Theorem read_print_str : forall is_print its, Forall (item_ok is_print) its ->
  lexes_to (quote_str is_print its) [mkTok TString (map item_rune its)].
Proof. exact str_lexes. Qed.
Print Assumptions read_print_str.

Theorem read_print_sym : forall n, sym_ok n -> lexes_to n [mkTok TSymbol n].
Proof. exact sym_lexes. Qed.
Print Assumptions read_print_sym.

(* ... and the parser converts that token to the value (all atom kinds at once) *)
Theorem read_print_atom_value : forall is_print,
  (forall z, E is_print (VInt z)) /\ (forall z, E is_print (VUint z)) /\ (forall b, E is_print (VBool b)) /\
  E is_print VNil /\ (forall c, E is_print (VChar c)) /\ (forall s, E is_print (VStr s)) /\ (forall n, E is_print (VSym n)).
Proof. exact E_atoms. Qed.
Print Assumptions read_print_atom_value.

(* ---- read_print_data: lists (incl. dotted) and arrays nested to any depth ---- *)
Theorem read_print_tokens : forall is_print v, dat is_print false v -> lexes_to (print is_print v) (tk false v).
Proof. exact data_lexes. Qed.
Print Assumptions read_print_tokens.

Theorem read_print_data : forall is_print v fuel, dat is_print false v -> (vsize v + 3 <= fuel)%nat ->
  observe (parse_whole true false fuel (print is_print v)) = (StDone, [to_sexp v]).
Proof. exact PrinterProofs.read_print_data. Qed.
Print Assumptions read_print_data.

(* ---- floats: every text the printer can emit for a float re-lexes to one TFloat token (the sign of an
   exponent goes through the look-back ring) and is parsed back to the float node with the same text and flag ---- *)
Theorem read_print_float : forall t sci, ftok_ok t sci ->
  lexes_to (float_text (FFin t) sci) [mkTok TFloat (float_text (FFin t) sci)].
Proof. exact float_fin_lexes. Qed.
Print Assumptions read_print_float.

Theorem read_print_float_value : forall is_print b sci c, E is_print (VFloat b sci c).
Proof. exact E_float. Qed.
Print Assumptions read_print_float_value.

(* +Inf / -Inf lex as the operator symbol and the word Inf, which the parser glues back; NaN is one word *)
Theorem read_print_inf : forall neg : bool,
  lexes_to (if neg then str_mInf else str_pInf) [mkTok TSymbol [if neg then 45 else 43]; mkTok TFloat str_Inf].
Proof. exact inf_lexes. Qed.
Print Assumptions read_print_inf.

Theorem read_print_nan : lexes_to str_NaN [mkTok TFloat str_NaN].
Proof. exact nan_lexes. Qed.
Print Assumptions read_print_nan.

(* ---- DecodeAtom classifies every well-formed spelling (positive facts by the completeness of the derivative
   matcher w.r.t. a derivation system, negative facts by closed-state certificates) ---- *)
Theorem matcher_complete : forall w f r, D f true r w -> matches_from f r w = true.
Proof. exact D_complete. Qed.
Print Assumptions matcher_complete.

Theorem classify_float_A : forall sg c ip fp, sign_ok sg -> digit c -> Forall dig_ ip -> Forall dig_ fp ->
  decode_atom (formA sg c ip fp) = Some (mkTok TFloat (formA sg c ip fp)).
Proof. exact Classify.classify_float_A. Qed.
Print Assumptions classify_float_A.

Theorem classify_float_B : forall sg c fp, sign_ok sg -> digit c -> Forall dig_ fp ->
  decode_atom (formB sg c fp) = Some (mkTok TFloat (formB sg c fp)).
Proof. exact Classify.classify_float_B. Qed.
Print Assumptions classify_float_B.

Theorem classify_float_C : forall sg c ip fr e esg x xp, sign_ok sg -> digit c -> Forall dig_ ip -> frac_ok fr ->
  (e = 101 \/ e = 69) -> esign_ok esg -> digit x -> Forall dig_ xp ->
  decode_atom (formC sg c ip fr e esg x xp) = Some (mkTok TFloat (formC sg c ip fr e esg x xp)).
Proof. exact Classify.classify_float_C. Qed.
Print Assumptions classify_float_C.

Theorem float_exponent_lexes : forall sg c ip fr e esg x xp, sign_ok sg -> digit c -> Forall dig_ ip -> frac_ok fr ->
  (e = 101 \/ e = 69) -> esign_ok esg -> digit x -> Forall dig_ xp ->
  lexes_to (formC sg c ip fr e esg x xp) [mkTok TFloat (formC sg c ip fr e esg x xp)].
Proof. exact float_C_lexes. Qed.
Print Assumptions float_exponent_lexes.

Theorem float_spelling_denotes_A : forall pf sg c ip fp b sci, sign_ok sg -> digit c -> Forall dig_ ip -> Forall dig_ fp ->
  decode_atom (formA sg c ip fp) = Some (mkTok TFloat (formA sg c ip fp)) /\
  lexes_to (formA sg c ip fp) [mkTok TFloat (formA sg c ip fp)] /\
  (sg = [] -> atom_value pf (mkTok TFloat (formA sg c ip fp)) = Some (RFloat sci (Some b) (formA sg c ip fp)) ->
   pf (remove_z 95 (formA sg c ip fp)) = Some b).
Proof. exact PrinterProofs.float_spelling_denotes_A. Qed.
Print Assumptions float_spelling_denotes_A.

Theorem hex_spelling_denotes : forall pf h hs, hexd h -> Forall hexd hs ->
  decode_atom (48 :: 120 :: h :: hs) = Some (mkTok THex (h :: hs)) /\
  (forall v, atom_value pf (mkTok THex (h :: hs)) = Some (RInt v) ->
             v = pos_value 16 (map digit_of (h :: hs)) /\ 0 <= v < 2 ^ 63).
Proof. exact PrinterProofs.hex_spelling_denotes. Qed.
Print Assumptions hex_spelling_denotes.

Theorem oct_spelling_denotes : forall pf h hs, octd h -> Forall octd hs ->
  decode_atom (48 :: 111 :: h :: hs) = Some (mkTok TOct (h :: hs)) /\
  (forall v, atom_value pf (mkTok TOct (h :: hs)) = Some (RInt v) ->
             v = pos_value 8 (map digit_of (h :: hs)) /\ 0 <= v < 2 ^ 63).
Proof. exact PrinterProofs.oct_spelling_denotes. Qed.
Print Assumptions oct_spelling_denotes.

Theorem bin_spelling_denotes : forall pf h hs, bind h -> Forall bind hs ->
  decode_atom (48 :: 98 :: h :: hs) = Some (mkTok TBinary (h :: hs)) /\
  (forall v, atom_value pf (mkTok TBinary (h :: hs)) = Some (RInt v) ->
             v = pos_value 2 (map digit_of (h :: hs)) /\ 0 <= v < 2 ^ 63).
Proof. exact PrinterProofs.bin_spelling_denotes. Qed.
Print Assumptions bin_spelling_denotes.

Theorem dec_spelling_denotes : forall pf (neg : bool) c ip, digit c -> Forall dig_ ip ->
  decode_atom (spell NDec neg (c :: ip)) = Some (mkTok TDecimal (spell NDec neg (c :: ip))) /\
  (forall v, atom_value pf (mkTok TDecimal (spell NDec neg (c :: ip))) = Some (RInt v) ->
             v = math_value NDec neg (c :: ip) /\ - 2 ^ 63 <= v < 2 ^ 63).
Proof. exact PrinterProofs.dec_spelling_denotes. Qed.
Print Assumptions dec_spelling_denotes.

Theorem ull_spelling_denotes : forall pf n h hs, (n = NUDec \/ n = NUHex \/ n = NUOct) -> hexd h -> Forall hexd hs ->
  (n = NUDec -> starts_with [48; 111] (h :: hs) = false /\ starts_with [48; 120] (h :: hs) = false) ->
  decode_atom (spell n false (h :: hs)) = Some (mkTok TUint64 (spell n false (h :: hs))) /\
  (forall v, atom_value pf (mkTok TUint64 (spell n false (h :: hs))) = Some (RUint v) ->
             v = pos_value (notation_base n) (map digit_of (h :: hs)) /\ 0 <= v < 2 ^ 64).
Proof. exact PrinterProofs.ull_spelling_denotes. Qed.
Print Assumptions ull_spelling_denotes.

Theorem literal_denotes_float : forall pf text b sci,
  inf_word text = false -> no_sign text -> list_eqb text str_NaN = false ->
  atom_value pf (mkTok TFloat text) = Some (RFloat sci (Some b) text) ->
  underscore_ok text = true /\ pf (remove_z 95 text) = Some b /\ sci = contains_e text.
Proof. exact PrinterProofs.literal_denotes_float. Qed.
Print Assumptions literal_denotes_float.

(* ---- literal_denotes: the converted value is the positional value of the digits ---- *)
Theorem literal_denotes_dec : forall pf neg ds v, no_sign (remove_z 95 ds) ->
  atom_value pf (mkTok TDecimal (spell NDec neg ds)) = Some (RInt v) ->
  v = math_value NDec neg ds /\ - 2 ^ 63 <= v < 2 ^ 63.
Proof. exact PrinterProofs.literal_denotes_dec. Qed.
Print Assumptions literal_denotes_dec.

Theorem literal_denotes_radix : forall pf kind base ds v,
  ((kind = THex /\ base = 16) \/ (kind = TOct /\ base = 8) \/ (kind = TBinary /\ base = 2)) ->
  no_sign ds -> atom_value pf (mkTok kind ds) = Some (RInt v) ->
  v = pos_value base (map digit_of ds) /\ 0 <= v < 2 ^ 63.
Proof. exact PrinterProofs.literal_denotes_radix. Qed.
Print Assumptions literal_denotes_radix.

Theorem literal_denotes_uint : forall pf n ds v, (n = NUDec \/ n = NUHex \/ n = NUOct) -> ds <> [] ->
  (n = NUDec -> starts_with [48; 111] ds = false /\ starts_with [48; 120] ds = false) ->
  atom_value pf (mkTok TUint64 (spell n false ds)) = Some (RUint v) ->
  v = pos_value (notation_base n) (map digit_of ds) /\ 0 <= v < 2 ^ 64.
Proof. exact PrinterProofs.literal_denotes_uint. Qed.
Print Assumptions literal_denotes_uint.

(* ---- char_denotes / string_denotes ---- *)
Theorem char_denotes_raw : forall c, 0 <= c <= 1114111 -> c <> 39 -> c <> 92 -> lexes_to [39; c; 39] [mkTok TChar [c]].
Proof. exact PrinterProofs.char_denotes_raw. Qed.
Print Assumptions char_denotes_raw.

Theorem char_denotes_esc : forall x c, escape_char x = Some c -> 0 <= c <= 1114111 ->
  lexes_to [39; 92; x; 39] [mkTok TChar [c]].
Proof. exact PrinterProofs.char_denotes_esc. Qed.
Print Assumptions char_denotes_esc.

Theorem string_denotes : forall rs, Forall (fun c => 0 <= c <= 1114111) rs ->
  lexes_to (quote_str (fun _ => true) (map Rune rs)) [mkTok TString rs].
Proof. exact PrinterProofs.string_denotes. Qed.
Print Assumptions string_denotes.

Theorem string_denotes_esc : forall x c, escape_char x = Some c -> lexes_to [34; 92; x; 34] [mkTok TString [c]].
Proof. exact PrinterProofs.string_denotes_esc. Qed.
Print Assumptions string_denotes_esc.

(* ---- refuted on the code as it is (known findings quote-escapes-unreadable, neg-leading-dot) ---- *)
Theorem quote_escape_refuted : forall is_print, is_print 8 = false ->
  observe (parse_whole true false 50 (print is_print (VStr [Rune 8]))) = (StErr, []) /\
  observe (parse_whole true false 50 (print is_print (VChar 8))) = (StErr, []).
Proof. exact PrinterProofs.quote_escape_refuted. Qed.
Print Assumptions quote_escape_refuted.

Theorem quote_escape_refuted_u : forall is_print, is_print 133 = false -> is_print 917505 = false ->
  observe (parse_whole true false 50 (print is_print (VStr [Rune 133]))) = (StErr, []) /\
  observe (parse_whole true false 50 (print is_print (VStr [Rune 917505]))) = (StErr, []) /\
  observe (parse_whole true false 50 (print is_print (VStr [BadByte 255]))) = (StErr, []).
Proof. exact PrinterProofs.quote_escape_refuted_u. Qed.
Print Assumptions quote_escape_refuted_u.

Theorem neg_leading_dot_refuted :
  re_match re_FloatRegex [45; 46; 53] = true /\
  lex_text [45; 46; 53; 10] = ([mkTok TSymbol [45]; mkTok TFloat [46; 53]], true).
Proof. exact PrinterProofs.neg_leading_dot_refuted. Qed.
Print Assumptions neg_leading_dot_refuted.

Theorem symbol_split_refuted :
  re_match re_SymbolRegex [97; 43; 98] = true /\
  lex_text [97; 43; 98; 10] = ([mkTok TSymbol [97]; mkTok TSymbol [43]; mkTok TSymbol [98]], true).
Proof. exact PrinterProofs.symbol_split_refuted. Qed.
Print Assumptions symbol_split_refuted.

(* ---- hashes: the reader part is inside read_print_data; the pieces, and the evaluated route ---- *)
Theorem read_print_hash_key_sym : forall n x tx, symkey_ok n -> starts_ok x -> lexes_to x tx ->
  lexes_to (n ++ 58 :: x) (mkTok TSymbolColon n :: tx).
Proof. exact symkey_lexes. Qed.
Print Assumptions read_print_hash_key_sym.

Theorem read_print_hash_key_str : forall is_print its x tx, Forall (item_ok is_print) its -> starts_ok x -> lexes_to x tx ->
  lexes_to (quote_str is_print its ++ 58 :: x) (mkTok TString (map item_rune its) :: mkTok TColonOperator [58] :: tx).
Proof. exact strkey_lexes. Qed.
Print Assumptions read_print_hash_key_str.

(* the printed hash parses to the list (hash k: v ...): E for VHash, any nesting *)
Theorem read_print_hash_form : forall is_print kvs, Forall (fun kv => E is_print (snd kv)) kvs -> E is_print (VHash kvs).
Proof. exact E_hash. Qed.
Print Assumptions read_print_hash_form.

Theorem eval_to_sexp : forall pf v, jl pf v -> eval_json_like pf (to_sexp v) = Some (jv_of v).
Proof. exact eval_to_sexp_all. Qed.
Print Assumptions eval_to_sexp.

Theorem eval_read_print_jsonlike : forall pf is_print v fuel, dat is_print false v -> jl pf v -> (vsize v + 3 <= fuel)%nat ->
  match observe (parse_whole true false fuel (print is_print v)) with
  | (StDone, [e]) => eval_json_like pf e
  | _ => None
  end = Some (jv_of v).
Proof. exact EvalJson.eval_read_print_jsonlike. Qed.
Print Assumptions eval_read_print_jsonlike.

(* ---- strings that carry the backtick flag (read from a backtick literal) are printed verbatim between backticks:
   they read back when they contain no backtick; dat / read_print_data / eval_read_print_jsonlike cover them ---- *)
Theorem read_print_backtick_str : forall s, Forall bitem_ok s ->
  lexes_to (96 :: map raw_item s ++ [96]) [mkTok TBeginBacktickString []; mkTok TBacktickString (map item_rune s)].
Proof. exact bstr_lexes. Qed.
Print Assumptions read_print_backtick_str.

(* a flagged string that contains a backtick cannot be read back (it cannot arise on the unchanged code:
   the flag is only set by the reader of a backtick literal) *)
Example backtick_inside_unreadable :
  fst (observe (parse_whole true false 40 (print (fun _ => true) (VBStr [Rune 97; Rune 96; Rune 98])))) <> StDone
  \/ snd (observe (parse_whole true false 40 (print (fun _ => true) (VBStr [Rune 97; Rune 96; Rune 98])))) <> [SStr true [97; 96; 98]].
Proof. right. vm_compute. discriminate. Qed.

(* acceptance: a 0x / 0o prefixed ULL literal with valid digits and a value below 2^64 is converted to that value
   (also when all digits are zero: 0x0ULL, 0o000ULL) *)
Theorem ull_prefixed_accepted : forall pf n h hs, (n = NUHex \/ n = NUOct) ->
  Forall (fun c => hexd c /\ digit_of c < notation_base n) (h :: hs) ->
  pos_value (notation_base n) (map digit_of (h :: hs)) < 2 ^ 64 ->
  atom_value pf (mkTok TUint64 (spell n false (h :: hs))) = Some (RUint (pos_value (notation_base n) (map digit_of (h :: hs)))).
Proof. exact PrinterProofs.ull_prefixed_accepted. Qed.
Print Assumptions ull_prefixed_accepted.

(* ---- front ends that deliver the text in pieces: however the printed text is cut (the REPL reader: into its lines, each
   with its newline), the reader returns the value — by C13's pieces_is_whole composed with read_print_data ---- *)
Theorem read_print_data_pieces : forall is_print v fuel pieces, dat is_print false v -> (vsize v + 3 <= fuel)%nat ->
  concat pieces = print is_print v ->
  observe (parse_pieces true false fuel pieces) = (StDone, [to_sexp v]).
Proof. exact PrinterProofs.read_print_data_pieces. Qed.
Print Assumptions read_print_data_pieces.

Theorem read_print_repl : forall is_print v fuel, dat is_print false v -> (vsize v + 3 <= fuel)%nat ->
  observe (parse_pieces true false fuel (split_lines (print is_print v))) = (StDone, [to_sexp v]).
Proof. exact PrinterProofs.read_print_repl. Qed.
Print Assumptions read_print_repl.

(* the Go API for incremental input (ResetAddNewInput + NewInput): cuts at ANY rune offsets, also inside atoms *)
Theorem read_print_cut : forall is_print v fuel cuts, dat is_print false v -> (vsize v + 3 <= fuel)%nat ->
  observe (parse_pieces true false fuel (cut_pieces cuts 0 (print is_print v))) = (StDone, [to_sexp v]).
Proof. exact PrinterProofs.read_print_cut. Qed.
Print Assumptions read_print_cut.

Example cut_inside_atoms :
  observe (parse_pieces true false 40 (cut_pieces [4; 8; 11]%nat 0 (print (fun _ => true) (VArr [VInt 1234567; VSym [97; 98; 99; 100]]))))
  = (StDone, [SArr false [SInt 1234567; sym [97; 98; 99; 100]]]).
Proof. vm_compute. reflexivity. Qed.

(* a backtick string with an empty line and a line of blanks inside, typed line by line *)
Example repl_blank_lines :
  observe (parse_pieces true false 40 (split_lines (print (fun _ => true) (VArr [VBStr [Rune 97; Rune 10; Rune 10; Rune 32; Rune 10; Rune 98]; VInt (-2)]))))
  = (StDone, [SArr false [SStr true [97; 10; 10; 32; 10; 98]; SInt (-2)]]).
Proof. vm_compute. reflexivity. Qed.

(* ---- non-vacuity ---- *)
Definition ascii_print (c : Z) : bool := (32 <=? c) && (c <=? 126).

(* the list of MinInt64, a string with an embedded double quote, the char x, dotted with an array of MaxUint64, nil, true *)
Definition sample : value :=
  VPair (VInt (- 2 ^ 63)) (VPair (VStr [Rune 97; Rune 34; Rune 98]) (VPair (VChar 120)
    (VArr [VUint (2 ^ 64 - 1); VNil; VBool true]))).

Example sample_reads_back :
  observe (parse_whole true false 40 (print ascii_print sample)) = (StDone, [to_sexp sample]).
Proof. vm_compute. reflexivity. Qed.

Example sample_text : print ascii_print (VPair (VInt (-5)) (VArr [VChar 233; VStr [Rune 10]]))
  = [40; 45; 53; 32; 92; 32; 91; 39; 92; 117; 48; 48; 101; 57; 39; 32; 34; 92; 110; 34; 93; 41].
Proof. vm_compute. reflexivity. Qed.

(* floats inside data: -0.0 (the .0 rule), 1e+21 in the e format, -Inf, NaN *)
Definition fsample : value :=
  VArr [VFloat 9223372036854775808 false (FFin (mkF true [48] [] None));
        VFloat 4921056587992461136 true (FFin (mkF false [49] [] (Some (false, [50; 49]))));
        VFloat 18442240474082181120 false (FInf true); VFloat 0 false FNaN].

Example fsample_text : print ascii_print fsample =
  [91; 45; 48; 46; 48; 32; 49; 101; 43; 50; 49; 32; 45; 73; 110; 102; 32; 78; 97; 78; 93].
Proof. vm_compute. reflexivity. Qed.

Example fsample_reads_back :
  observe (parse_whole true false 40 (print ascii_print fsample)) = (StDone, [to_sexp fsample]).
Proof. vm_compute. reflexivity. Qed.

(* a hash read as data is the list of the hash builder applied to its keys and values *)
Example hash_reads_as_list :
  observe (parse_whole true false 40 (print ascii_print (VHash [(VSym [97], VInt 1); (VStr [Rune 98], VInt 2)]))) =
  (StDone, [SPair (sym str_hash) (SPair (SSym true false [97]) (SPair (SInt 1)
            (SPair (SStr false [98]) (SPair (sym [58]) (SPair (SInt 2) SNull)))))]).
Proof. vm_compute. reflexivity. Qed.

Example hash_evaluates_back :
  match observe (parse_whole true false 60 (print ascii_print
          (VHash [(VSym [97], VArr [VInt 1; VNil]); (VStr [Rune 98; Rune 34], VHash [(VSym [99], VBool true)])]))) with
  | (StDone, [e]) => eval_json_like (fun _ => None) e
  | _ => None
  end = Some (JHash [(JKSym [97], JArr [JInt 1; JNil]); (JKStr [98; 34], JHash [(JKSym [99], JBool true)])]).
Proof. vm_compute. reflexivity. Qed.

Example symkey_ok_a : symkey_ok [97; 98].
Proof. split; [discriminate|]. split; [repeat constructor|]. split; vm_compute; reflexivity. Qed.

Example sym_ok_foo : sym_ok [102; 111; 111; 36].
Proof.
  split; [discriminate|]. split; [repeat constructor|]. split; [vm_compute; reflexivity|discriminate].
Qed.

(* ---- the PRETTY mode of the printers ((pretty true) sets env.Pretty; SexpArray.SexpString / SexpHash.SexpString then
   write one element / pair per line with the indentation bookkeeping of PrintState): Model/PrinterPretty.v [ppr].
   [pv] = a value whose arrays say whether they carry an environment (only those obey the flag), [erase] forgets that.
   The token stream of the pretty text is the token stream of the plain text, for every indentation the printer starts
   with; hence the reader (whole text, any pieces: the REPL's lines, cuts anywhere) and the evaluated route return the value. ---- *)
Theorem pretty_off_is_plain : forall is_print p, pwf p = true -> forall ind tail,
  ppr is_print false ind tail p = pr is_print tail (erase p).
Proof. exact Proofs.PrinterPretty.pretty_off_is_plain. Qed.
Print Assumptions pretty_off_is_plain.

Theorem read_print_pretty_tokens : forall is_print pretty ind p, pwf p = true -> dat is_print false (erase p) ->
  lexes_to (ppr is_print pretty ind false p) (tk false (erase p)).
Proof. exact pretty_lexes. Qed.
Print Assumptions read_print_pretty_tokens.

Theorem read_print_pretty : forall is_print pretty ind p fuel, pwf p = true -> dat is_print false (erase p) ->
  (vsize (erase p) + 3 <= fuel)%nat ->
  observe (parse_whole true false fuel (ppr is_print pretty ind false p)) = (StDone, [to_sexp (erase p)]).
Proof. exact Proofs.PrinterPretty.read_print_pretty. Qed.
Print Assumptions read_print_pretty.

(* ... also when the (multi-line) text is delivered in pieces: any pieces; the REPL reader's lines; cuts anywhere *)
Theorem read_print_pretty_pieces : forall is_print pretty p fuel, pwf p = true -> dat is_print false (erase p) ->
  (vsize (erase p) + 3 <= fuel)%nat ->
  (forall ind pieces, concat pieces = ppr is_print pretty ind false p ->
     observe (parse_pieces true false fuel pieces) = (StDone, [to_sexp (erase p)])) /\
  observe (parse_pieces true false fuel (split_lines (pprint is_print pretty p))) = (StDone, [to_sexp (erase p)]) /\
  (forall cuts, observe (parse_pieces true false fuel (cut_pieces cuts 0 (pprint is_print pretty p))) = (StDone, [to_sexp (erase p)])).
Proof.
  intros ip pretty p fuel W D Hf. split; [|split].
  - intros ind pieces Hc. exact (Proofs.PrinterPretty.read_print_pretty_pieces ip pretty ind p fuel pieces W D Hf Hc).
  - exact (Proofs.PrinterPretty.read_print_pretty_repl ip pretty p fuel W D Hf).
  - intros cuts. exact (Proofs.PrinterPretty.read_print_pretty_cut ip pretty p fuel cuts W D Hf).
Qed.
Print Assumptions read_print_pretty_pieces.

Theorem eval_read_print_pretty : forall pf is_print pretty ind p fuel, pwf p = true -> dat is_print false (erase p) ->
  jl pf (erase p) -> (vsize (erase p) + 3 <= fuel)%nat ->
  match observe (parse_whole true false fuel (ppr is_print pretty ind false p)) with
  | (StDone, [e]) => eval_json_like pf e
  | _ => None
  end = Some (jv_of (erase p)).
Proof. exact Proofs.PrinterPretty.eval_read_print_pretty. Qed.
Print Assumptions eval_read_print_pretty.

(* for a plain value, all arrays with (e = true) or without (e = false) their environment *)
Theorem read_print_pretty_value : forall is_print pretty e v fuel, dat is_print false v -> (vsize v + 3 <= fuel)%nat ->
  observe (parse_whole true false fuel (pprint is_print pretty (decorate e v))) = (StDone, [to_sexp v]).
Proof. exact Proofs.PrinterPretty.read_print_pretty_value. Qed.
Print Assumptions read_print_pretty_value.

(* [1 2 [3 4] {a:1 b:[5 "x y"] "k":{c:2.0}} (hash) []] under (pretty true): byte for byte what the real (str v) returns
   (closing bracket behind the INNER indentation, a blank before every newline of a hash, "{ nl nl blanks }" and "[ nl ]") *)
Definition psample : value :=
  VArr [VInt 1; VInt 2; VArr [VInt 3; VInt 4];
        VHash [(VSym [97], VInt 1); (VSym [98], VArr [VInt 5; VStr [Rune 120; Rune 32; Rune 121]]);
               (VStr [Rune 107], VHash [(VSym [99], VFloat 4611686018427387904 false (FFin (mkF false [50] [] None)))])];
        VHash []; VArr []].

Example psample_text : pprint ascii_print true (decorate true psample) =
  [91; 10; 32; 32; 32; 32; 49; 10; 32; 32; 32; 32; 50; 10; 32; 32; 32; 32; 91; 10; 32; 32; 32; 32; 32; 32; 32; 32; 51; 10; 32; 32; 32; 32; 32; 32; 32; 32; 52; 10; 32; 32; 32; 32; 32; 32; 32; 32; 93; 10; 32; 32; 32; 32; 123; 10; 32; 32; 32; 32; 32; 32; 32; 32; 97; 58; 49; 32; 10; 32; 32; 32; 32; 32; 32; 32; 32; 98; 58; 91; 10; 32; 32; 32; 32; 32; 32; 32; 32; 32; 32; 32; 32; 53; 10; 32; 32; 32; 32; 32; 32; 32; 32; 32; 32; 32; 32; 34; 120; 32; 121; 34; 10; 32; 32; 32; 32; 32; 32; 32; 32; 32; 32; 32; 32; 93; 32; 10; 32; 32; 32; 32; 32; 32; 32; 32; 34; 107; 34; 58; 123; 10; 32; 32; 32; 32; 32; 32; 32; 32; 32; 32; 32; 32; 99; 58; 50; 46; 48; 32; 10; 32; 32; 32; 32; 32; 32; 32; 32; 125; 32; 10; 32; 32; 32; 32; 125; 10; 32; 32; 32; 32; 123; 10; 10; 32; 32; 32; 32; 125; 10; 32; 32; 32; 32; 91; 10; 93; 10; 32; 32; 32; 32; 93].
Proof. vm_compute. reflexivity. Qed.

Example psample_reads_back :
  observe (parse_whole true false 60 (pprint ascii_print true (decorate true psample))) = (StDone, [to_sexp psample]).
Proof. vm_compute. reflexivity. Qed.

(* an array without environment inside a pretty hash stays on one line; typed at the REPL line by line *)
Example psample_mixed :
  pprint ascii_print true (PHash [(VSym [97], PArr false [PLeaf (VInt 1); PArr true [PLeaf (VInt 2)]])]) =
  [123; 10; 32; 32; 32; 32; 97; 58; 91; 49; 32; 91; 10; 32; 32; 32; 32; 32; 32; 32; 32; 50; 10;
   32; 32; 32; 32; 32; 32; 32; 32; 93; 93; 32; 10; 125]
  /\ observe (parse_pieces true false 40 (split_lines (pprint ascii_print true
        (PHash [(VSym [97], PArr false [PLeaf (VInt 1); PArr true [PLeaf (VInt 2)]])])))) =
     (StDone, [to_sexp (VHash [(VSym [97], VArr [VInt 1; VArr [VInt 2]])])]).
Proof. split; vm_compute; reflexivity. Qed.

(* ---- string, backtick-string and character LITERALS denote exactly the runes written (Model/StrLit.v): any mixture of
   runes written as themselves (also a raw newline, carriage return, tab, NUL, any scalar value; not the closing quote, not
   the backslash) and backslash escapes; the meaning of the escapes is the hand-written specification table std_escape,
   and the table GENERATED from lexer.go EscapeChar is shown to be that table ---- *)
Theorem escape_table_is_std : forall x, escape_char x = std_escape x.
Proof. exact StrLitProofs.escape_table_is_std. Qed.
Print Assumptions escape_table_is_std.

Theorem literal_lexes :
  (forall its rs, forallb (litem_wf 34) its = true -> denote its = Some rs -> lexes_to (str_spelling its) [mkTok TString rs]) /\
  (forall rs, Forall (fun c => c <> 96) rs -> lexes_to (bt_spelling rs) [mkTok TBeginBacktickString []; mkTok TBacktickString rs]) /\
  (forall it c, litem_wf 39 it = true -> litem_rune it = Some c -> 0 <= c <= 1114111 -> lexes_to (chr_spelling it) [mkTok TChar [c]]).
Proof.
  split; [exact StrLitProofs.string_literal_lexes|]. split; [exact StrLitProofs.backtick_literal_lexes|exact StrLitProofs.char_literal_lexes].
Qed.
Print Assumptions literal_lexes.

(* string_literal_denotes / backtick_literal_denotes / char_literal_denotes *)
Theorem literal_denotes : forall fuel, (4 <= fuel)%nat ->
  (forall its rs, forallb (litem_wf 34) its = true -> denote its = Some rs -> Forall scalar rs ->
     observe (parse_whole true false fuel (str_spelling its)) = (StDone, [SStr false rs])) /\
  (forall rs, Forall (fun c => c <> 96) rs ->
     observe (parse_whole true false fuel (bt_spelling rs)) = (StDone, [SStr true rs])) /\
  (forall it c, litem_wf 39 it = true -> litem_rune it = Some c -> scalar c ->
     observe (parse_whole true false fuel (chr_spelling it)) = (StDone, [SChar c])).
Proof.
  intros fuel Hf. split; [|split].
  - intros its rs W Dn F. exact (StrLitProofs.string_literal_denotes its rs fuel W Dn F Hf).
  - intros rs F. exact (StrLitProofs.backtick_literal_denotes rs fuel F Hf).
  - intros it c W Hc Hs. exact (StrLitProofs.char_literal_denotes it c fuel W Hc Hs Hf).
Qed.
Print Assumptions literal_denotes.

(* a raw carriage return, a raw newline, an escaped tab, an escaped hash, a raw NUL between double quotes / backticks *)
Example literal_with_raw_controls :
  observe (parse_whole true false 10 (str_spelling [LRaw 97; LRaw 13; LRaw 10; LEsc 116; LEsc 35; LRaw 0; LRaw 98]))
    = (StDone, [SStr false [97; 13; 10; 9; 35; 0; 98]]) /\
  observe (parse_whole true false 10 (bt_spelling [97; 13; 10; 92; 110; 34])) = (StDone, [SStr true [97; 13; 10; 92; 110; 34]]) /\
  observe (parse_whole true false 10 (chr_spelling (LRaw 13))) = (StDone, [SChar 13]).
Proof. repeat split; vm_compute; reflexivity. Qed.

(* ---- which symbol NAMES have a printed syntax (Proofs/SymReadable.v).  SexpSymbol.SexpString prints the bare name;
   [reads_back n] := lex_text (n ++ [32]) = ([mkTok TSymbol n], true): a fresh lexer turns the name and a blank into exactly
   one TokenSymbol with that name, no error.  The known finding symbol-no-printed-syntax is the complement.
   FULL statement wanted: forall n, reads_back n <-> R n = true for one decidable R.  Proved: the exact biconditional on every
   name without special rune; that the biconditional with sym_ok is FALSE (operators and sign-absorbing atoms read back);
   and the exact biconditional on every name that begins with a plain rune (see the _partial comment below for what is missing). ---- *)
Theorem symbol_readable_plain_iff : forall n, Forall plain n ->
  (reads_back n <-> n <> [] /\ decode_atom n = Some (mkTok TSymbol n)).
Proof. exact SymReadable.plain_reads_back_iff. Qed.
Print Assumptions symbol_readable_plain_iff.

Theorem sym_ok_exact : forall n, sym_ok n <-> Forall plain n /\ reads_back n /\ n <> str_nil.
Proof. exact SymReadable.sym_ok_iff. Qed.
Print Assumptions sym_ok_exact.

(* the literal biconditional "reads back <-> sym_ok" does not hold: + reads back (so do <= , -5x , .5e+x , -5e+1e+x) *)
Theorem symbol_readable_iff_sym_ok_refuted : exists n, reads_back n /\ ~ sym_ok n.
Proof. exact SymReadable.symbol_readable_iff_sym_ok_refuted. Qed.
Print Assumptions symbol_readable_iff_sym_ok_refuted.

Example odd_names_read_back :
  Forall reads_back [[43]; [60; 61]; [45; 53; 120]; [46; 53; 101; 43; 120]; [45; 53; 101; 43; 49; 101; 43; 120]] /\
  Forall (fun n => ~ Forall plain n) [[43]; [60; 61]; [45; 53; 120]; [46; 53; 101; 43; 120]; [45; 53; 101; 43; 49; 101; 43; 120]].
Proof. split; [exact SymReadable.odd_names_read_back|exact SymReadable.odd_names_not_plain]. Qed.

(* EXACT, every name that begins with a plain rune (both directions, all rune lists): it reads back iff all its runes are
   absorbed into one atom ([absorbed]: each later rune is plain, or is a sign directly behind e / E while the buffer so far is
   the beginning of a number in scientific notation - lexer.go LexerNormal case + / -) and DecodeAtom calls that atom a symbol. *)
Theorem symbol_readable_plain_first_iff : forall c rest, plain c ->
  (reads_back (c :: rest) <->
   absorbed [c] rest = true /\ decode_atom (c :: rest) = Some (mkTok TSymbol (c :: rest))).
Proof. exact SymReadable.plain_first_reads_back_iff. Qed.
Print Assumptions symbol_readable_plain_first_iff.

(* non-vacuity, both sides: foo$ and .5e+x satisfy the right-hand side; a+b fails [absorbed]; 1e+5 is absorbed but a float *)
Example plain_first_instances :
  (absorbed [102] [111; 111; 36] = true /\ decode_atom [102; 111; 111; 36] = Some (mkTok TSymbol [102; 111; 111; 36])) /\
  (absorbed [46] [53; 101; 43; 120] = true /\ decode_atom [46; 53; 101; 43; 120] = Some (mkTok TSymbol [46; 53; 101; 43; 120])) /\
  absorbed [97] [43; 98] = false /\
  (absorbed [49] [101; 43; 53] = true /\ decode_atom [49; 101; 43; 53] = Some (mkTok TFloat [49; 101; 43; 53])).
Proof. vm_compute. repeat split; reflexivity. Qed.

(* the converse half in the form of the finding symbol-no-printed-syntax: a special rune behind a non-empty plain prefix makes
   the name unreadable unless it is an absorbed exponent sign.
   _partial (what is missing for ONE biconditional over all names): names that BEGIN with a special rune - the one- and
   two-rune operators and -digit... atoms, which read back (witnesses above), and leading blanks, quotes, comment starts,
   brackets, which do not - are characterised by witnesses and the tie only. *)
Theorem symbol_special_not_readable_partial : forall a c rest, Forall plain a -> a <> [] -> mem_z c special_runes = true ->
  ((c =? 43) || (c =? 45)) && ((last a 0 =? 101) || (last a 0 =? 69)) && sci_prefix_ok a = false ->
  ~ reads_back (a ++ c :: rest).
Proof. exact SymReadable.special_after_plain_not_readable. Qed.
Print Assumptions symbol_special_not_readable_partial.

(* non-vacuity: a+b , a b , a:b , a/b , "a(" are covered; 1e+5 is not (absorbed sign: it is a float) *)
Example symbol_special_instances :
  ~ reads_back [97; 43; 98] /\ ~ reads_back [97; 32; 98] /\ ~ reads_back [97; 58; 98] /\ ~ reads_back [97; 47; 98] /\
  ~ reads_back [97; 40] /\
  ((43 =? 43) || (43 =? 45)) && ((last [49; 101] 0 =? 101) || (last [49; 101] 0 =? 69)) && sci_prefix_ok [49; 101] = true.
Proof.
  repeat split;
    try (apply (SymReadable.special_after_plain_not_readable [97]);
         [repeat constructor|discriminate|vm_compute; reflexivity|vm_compute; reflexivity]).
Qed.

(* names that begin with a special rune, witnesses: the ten one-rune operators and the fourteen two-rune operators of BuiltinOpRegex
   read back (LexerBuiltinOperator emits TokenSymbol); && and || do not (rewritten to and / or), := is TokenFreshAssign,
   a leading blank, quote or bracket never reads back *)
Example operator_names_read_back :
  Forall reads_back [[43]; [45]; [42]; [60]; [62]; [61]; [33]; [38]; [124]; [47];
                     [43; 43]; [45; 45]; [43; 61]; [45; 61]; [61; 61]; [60; 61]; [62; 61]; [60; 45]; [45; 62]; [42; 61]; [47; 61];
                     [42; 42]; [33; 61]; [60; 33]] /\
  Forall (fun n => lex_text (n ++ [32]) <> ([mkTok TSymbol n], true))
         [[38; 38]; [124; 124]; [58; 61]; [32; 97]; [39; 97]; [34; 97; 34]; [40; 97]; [47; 47; 97]; [58; 97]; [97; 58]].
Proof. split; repeat constructor; vm_compute; try reflexivity; intro H; discriminate H. Qed.
