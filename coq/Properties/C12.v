(* C12 — printed data reads back as the same data.  Statements only; proofs in Proofs/PrinterProofs.v.

   Reading = Model/Lexer.v + Model/Reader.v (owner C13; regexes, EscapeChar and canStartSignedNumberAfter
   GENERATED from lexer.go) ; printing = Model/Printer.v.  [lexes_to a tks]: from any lexer state between
   tokens (normal mode, empty atom buffer, the previous rune p one after which a sign may start a
   number), the text a followed by a delimiter (blank, newline, closing paren or bracket) appends exactly
   the tokens tks (plus the delimiter's own token) and leaves the lexer between tokens again.

   Oracles: is_print (strconv.IsPrint, universally quantified), the float formatter / ParseFloat
   (floats are outside [dat]: see read_print_float_partial below).

   NOT proved here, established by the correspondence run only (bounded): that a printed FLOAT
   re-lexes to one TFloat token (the FloatRegex automaton), the classification of hex / octal / binary /
   ULL spellings by DecodeAtom (exhaustive to length 4/5 over the numeric alphabet), hashes (evaluated
   route: needs the evaluator). *)
From Coq Require Import ZArith List Bool.
From ZV Require Import Model.Regex Generated.LexTables Model.Lexer Model.Reader Model.Printer
  Proofs.PrinterLex Proofs.PrinterProofs.
Import ListNotations.
Open Scope Z_scope.

(* ---- read_print_atom: each printed atom re-lexes to exactly one token ... ---- *)
Theorem read_print_int : forall z, - 2 ^ 63 <= z < 2 ^ 63 ->
  lexes_to (itoa z) [mkTok TDecimal (itoa z)] /\ parse_int 10 (remove_z 95 (itoa z)) = Some z.
Proof. intros z H. split; [exact (int_lexes z H)|exact (parse_int_itoa z H)]. Qed.
Print Assumptions read_print_int.

Theorem read_print_uint : forall z, 0 <= z < 2 ^ 64 ->
  lexes_to (utoa z) [mkTok TUint64 (utoa z)] /\ conv_uint64 (utoa z) = Some z.
Proof. intros z H. split; [exact (uint_lexes z H)|exact (conv_uint64_utoa z H)]. Qed.
Print Assumptions read_print_uint.

Theorem read_print_bool : forall b : bool,
  lexes_to (if b then str_true else str_false) [mkTok TBool (if b then str_true else str_false)].
Proof. exact bool_lexes. Qed.
Print Assumptions read_print_bool.

Theorem read_print_nil : lexes_to str_nil [mkTok TSymbol str_nil].
Proof. exact nil_lexes. Qed.
Print Assumptions read_print_nil.

(* chars: every Unicode scalar value that QuoteRune writes raw or with an escape EscapeChar knows *)
Theorem read_print_char : forall is_print c, rune_ok is_print 39 c ->
  lexes_to (quote_rune is_print c) [mkTok TChar [c]].
Proof. exact char_lexes. Qed.
Print Assumptions read_print_char.

Theorem read_print_str : forall is_print its, Forall (item_ok is_print) its ->
  lexes_to (quote_str is_print its) [mkTok TString (map item_rune its)].
Proof. exact str_lexes. Qed.
Print Assumptions read_print_str.

Theorem read_print_sym : forall n, sym_ok n -> lexes_to n [mkTok TSymbol n].
Proof. exact sym_lexes. Qed.
Print Assumptions read_print_sym.

(* ... and the parser converts that token to the value (all atom kinds at once) *)
Theorem read_print_atom_value : forall is_print,
  (forall z, E is_print (VInt z)) /\ (forall z, E is_print (VUint z)) /\ (forall b, E is_print (VBool b)) /\
  E is_print VNil /\ (forall c, E is_print (VChar c)) /\ (forall s, E is_print (VStr s)) /\ (forall n, E is_print (VSym n)).
Proof. exact E_atoms. Qed.
Print Assumptions read_print_atom_value.

(* ---- read_print_data: lists (incl. dotted) and arrays nested to any depth ---- *)
Theorem read_print_tokens : forall is_print v, dat is_print false v -> lexes_to (print is_print v) (tk false v).
Proof. exact data_lexes. Qed.
Print Assumptions read_print_tokens.

Theorem read_print_data : forall is_print v fuel, dat is_print false v -> (vsize v + 3 <= fuel)%nat ->
  observe (parse_whole true false fuel (print is_print v)) = (StDone, [to_sexp v]).
Proof. exact PrinterProofs.read_print_data. Qed.
Print Assumptions read_print_data.

(* read_print_float_partial — full statement (NOT proved): for every finite float (bits, sci) whose
   formatter digits are t, [lexes_to (float_text (FFin t) sci) [mkTok TFloat (float_text (FFin t) sci)]]
   and, under the contract parse_float (float_text (FFin t) sci) = Some bits, the token converts to bits.
   Proved part: the conversion of a float token is ParseFloat of its text without underscores: *)
Theorem literal_denotes_float : forall pf text b sci,
  inf_word text = false -> no_sign text -> list_eqb text str_NaN = false ->
  atom_value pf (mkTok TFloat text) = Some (RFloat sci (Some b) text) ->
  underscore_ok text = true /\ pf (remove_z 95 text) = Some b /\ sci = contains_e text.
Proof. exact PrinterProofs.literal_denotes_float. Qed.
Print Assumptions literal_denotes_float.

(* ---- literal_denotes: the converted value is the positional value of the digits ---- *)
Theorem literal_denotes_dec : forall pf neg ds v, no_sign (remove_z 95 ds) ->
  atom_value pf (mkTok TDecimal (spell NDec neg ds)) = Some (RInt v) ->
  v = math_value NDec neg ds /\ - 2 ^ 63 <= v < 2 ^ 63.
Proof. exact PrinterProofs.literal_denotes_dec. Qed.
Print Assumptions literal_denotes_dec.

Theorem literal_denotes_radix : forall pf kind base ds v,
  ((kind = THex /\ base = 16) \/ (kind = TOct /\ base = 8) \/ (kind = TBinary /\ base = 2)) ->
  no_sign ds -> atom_value pf (mkTok kind ds) = Some (RInt v) ->
  v = pos_value base (map digit_of ds) /\ 0 <= v < 2 ^ 63.
Proof. exact PrinterProofs.literal_denotes_radix. Qed.
Print Assumptions literal_denotes_radix.

Theorem literal_denotes_uint : forall pf n ds v, (n = NUDec \/ n = NUHex \/ n = NUOct) -> ds <> [] ->
  (n = NUDec -> starts_with [48; 111] ds = false /\ starts_with [48; 120] ds = false) ->
  atom_value pf (mkTok TUint64 (spell n false ds)) = Some (RUint v) ->
  v = pos_value (notation_base n) (map digit_of ds) /\ 0 <= v < 2 ^ 64.
Proof. exact PrinterProofs.literal_denotes_uint. Qed.
Print Assumptions literal_denotes_uint.

(* ---- char_denotes / string_denotes ---- *)
Theorem char_denotes_raw : forall c, 0 <= c <= 1114111 -> c <> 39 -> c <> 92 -> lexes_to [39; c; 39] [mkTok TChar [c]].
Proof. exact PrinterProofs.char_denotes_raw. Qed.
Print Assumptions char_denotes_raw.

Theorem char_denotes_esc : forall x c, escape_char x = Some c -> 0 <= c <= 1114111 ->
  lexes_to [39; 92; x; 39] [mkTok TChar [c]].
Proof. exact PrinterProofs.char_denotes_esc. Qed.
Print Assumptions char_denotes_esc.

Theorem string_denotes : forall rs, Forall (fun c => 0 <= c <= 1114111) rs ->
  lexes_to (quote_str (fun _ => true) (map Rune rs)) [mkTok TString rs].
Proof. exact PrinterProofs.string_denotes. Qed.
Print Assumptions string_denotes.

Theorem string_denotes_esc : forall x c, escape_char x = Some c -> lexes_to [34; 92; x; 34] [mkTok TString [c]].
Proof. exact PrinterProofs.string_denotes_esc. Qed.
Print Assumptions string_denotes_esc.

(* ---- refuted on the code as it is (known findings quote-escapes-unreadable, neg-leading-dot) ---- *)
Theorem quote_escape_refuted : forall is_print, is_print 8 = false ->
  observe (parse_whole true false 50 (print is_print (VStr [Rune 8]))) = (StErr, []) /\
  observe (parse_whole true false 50 (print is_print (VChar 8))) = (StErr, []).
Proof. exact PrinterProofs.quote_escape_refuted. Qed.
Print Assumptions quote_escape_refuted.

Theorem quote_escape_refuted_u : forall is_print, is_print 133 = false -> is_print 917505 = false ->
  observe (parse_whole true false 50 (print is_print (VStr [Rune 133]))) = (StErr, []) /\
  observe (parse_whole true false 50 (print is_print (VStr [Rune 917505]))) = (StErr, []) /\
  observe (parse_whole true false 50 (print is_print (VStr [BadByte 255]))) = (StErr, []).
Proof. exact PrinterProofs.quote_escape_refuted_u. Qed.
Print Assumptions quote_escape_refuted_u.

Theorem neg_leading_dot_refuted :
  re_match re_FloatRegex [45; 46; 53] = true /\
  lex_text [45; 46; 53; 10] = ([mkTok TSymbol [45]; mkTok TFloat [46; 53]], true).
Proof. exact PrinterProofs.neg_leading_dot_refuted. Qed.
Print Assumptions neg_leading_dot_refuted.

Theorem symbol_split_refuted :
  re_match re_SymbolRegex [97; 43; 98] = true /\
  lex_text [97; 43; 98; 10] = ([mkTok TSymbol [97]; mkTok TSymbol [43]; mkTok TSymbol [98]], true).
Proof. exact PrinterProofs.symbol_split_refuted. Qed.
Print Assumptions symbol_split_refuted.

(* ---- non-vacuity ---- *)
Definition ascii_print (c : Z) : bool := (32 <=? c) && (c <=? 126).

(* the list of MinInt64, a string with an embedded double quote, the char x, dotted with an array of MaxUint64, nil, true *)
Definition sample : value :=
  VPair (VInt (- 2 ^ 63)) (VPair (VStr [Rune 97; Rune 34; Rune 98]) (VPair (VChar 120)
    (VArr [VUint (2 ^ 64 - 1); VNil; VBool true]))).

Example sample_reads_back :
  observe (parse_whole true false 40 (print ascii_print sample)) = (StDone, [to_sexp sample]).
Proof. vm_compute. reflexivity. Qed.

Example sample_text : print ascii_print (VPair (VInt (-5)) (VArr [VChar 233; VStr [Rune 10]]))
  = [40; 45; 53; 32; 92; 32; 91; 39; 92; 117; 48; 48; 101; 57; 39; 32; 34; 92; 110; 34; 93; 41].
Proof. vm_compute. reflexivity. Qed.

Example sym_ok_foo : sym_ok [102; 111; 111; 36].
Proof.
  split; [discriminate|]. split; [repeat constructor|]. split; [vm_compute; reflexivity|discriminate].
Qed.
