(* C13: parsing depends only on the text — not on chunking, not on history.
   Statements only; the proofs are in Proofs/LexerProofs.v and Proofs/ReaderProofs.v.
   Model: Model/Lexer.v (zygo/lexer.go), Model/Reader.v (zygo/parser.go; the coroutine is a
   continuation, [resume] = the next ParseTokens call), regexes generated from lexer.go. *)
From Coq Require Import ZArith List Bool.
From ZV Require Import Model.Regex Generated.LexTables Model.Lexer Model.Reader Model.TokScan Proofs.LexerProofs Proofs.ReaderProofs
  Proofs.RegexProofs Proofs.ReaderTotal Proofs.LexerWF Proofs.ReaderUnfinished Proofs.SugarTokens Proofs.ScanSim Proofs.LexerBC Proofs.Unfinished Proofs.OpSpacing Proofs.ReaderFinal Model.ReaderSession Proofs.ReaderSession Proofs.ReaderFuelAdequate Proofs.UnfinishedMore.
Import ListNotations.
Open Scope Z_scope.

(* ---- 1. the lexer is a fold over the runes: nothing is flushed or lost at a chunk end ---- *)
Theorem lex_chunks : forall a b s,
  lex_all s (a ++ b) = match lex_all s a with LOk s' => lex_all s' b | LErr s' => LErr s' end.
Proof. exact LexerProofs.lex_all_app. Qed.
Print Assumptions lex_chunks.

(* the token queue is write-only: what is lexed does not depend on what is still queued *)
Theorem lex_ignores_queue : forall text pre s,
  lex_all (pre_q pre s) text = lres_map (pre_q pre) (lex_all s text).
Proof. exact LexerProofs.lex_all_pre. Qed.
Print Assumptions lex_ignores_queue.

(* ---- 2. history independence: Lexer.Reset restores EVERY field of the lexer, so a text parsed
   after ResetAddNewInput on a parser in any state is parsed as by a new parser ---- *)
Theorem reset_is_init : forall s, reset s = init_lstate.
Proof. exact LexerProofs.reset_is_init. Qed.
Print Assumptions reset_is_init.

Theorem history_independent : forall strict cfix fuel p text,
  parse_after strict cfix fuel p text = parse_whole strict cfix fuel text.
Proof. exact ReaderProofs.parse_after_any. Qed.
Print Assumptions history_independent.

(* ---- 3. resuming the suspended parser with more tokens = running it on the longer token list.
   Unconditional for parser.go as it is now (strict = true: every look-ahead inside a form yields);
   for the parser before the fix "inside a form the parser waits for the next token" (strict =
   false: four look-aheads see End at the end of a piece) only when the tokens contain no
   quote-sugar / backslash token and the continuation has no lexer error ---- *)
Theorem resume_is_rerun : forall strict cfix f acc t1 i1 t2 e2 i2,
  (strict = true \/ (nosugar (t1 ++ t2) /\ e2 = false)) ->
  resume strict cfix (ptop strict cfix f acc (mkQ t1 false i1)) (mkQ t2 e2 i2) = ptop strict cfix f acc (mkQ (t1 ++ t2) e2 i2).
Proof. exact ReaderProofs.resume_is_rerun. Qed.
Print Assumptions resume_is_rerun.

(* ---- 4. chunk independence: ANY number of cuts at ANY positions.
   No side condition for the parser as it is (strict = true): when the lexer reports an error inside
   some piece the outcome is the hard error (error_is_final: with the lexer's error flag set the
   parse ends in a final outcome — ReaderFinal.ptop_fin, a mutual induction over the parser — and a
   final outcome absorbs every later delivery: the session is over, as for the REPL and the check's
   delivery protocol, which stop at the first hard error), and the whole text gives the same error.
   pieces_ok (used for strict = false only): every proper prefix of the marked pieces lexes without
   error, the text lexes without error and has no quote-sugar / backslash token.
   strict = true is the parser as it is now: chunk_independent is the property.
   chunk_independent_before_fix* : the same statement about the parser before the fix holds only
   without quote sugar / backslash, and is false otherwise (the witnesses were replayed on the real
   code before the fix and are kept in the harness as edge texts). ---- *)
Theorem chunk_independent : forall cfix fuel pieces,
  parse_pieces true cfix fuel pieces = parse_whole true cfix fuel (concat pieces).
Proof. exact ReaderFinal.pieces_is_whole_all. Qed.
Print Assumptions chunk_independent.

Theorem error_is_final : forall cfix fuel p t x,
  Good cfix fuel p t -> lres_ok (lex_all init_lstate t) = false ->
  ps_out (p_deliver true cfix p x) = ps_out p /\ fin (ps_out p) = true.
Proof. exact ReaderFinal.error_is_final. Qed.
Print Assumptions error_is_final.

Theorem chunk_independent_before_fix_partial : forall cfix fuel pieces,
  match mark_last pieces with [] => True | first :: rest => pieces_ok false first rest end ->
  parse_pieces false cfix fuel pieces = parse_whole false cfix fuel (concat pieces).
Proof. intros cfix fuel pieces; exact (ReaderProofs.pieces_is_whole false cfix fuel pieces). Qed.
Print Assumptions chunk_independent_before_fix_partial.

(* the parser before the fix: "(%" then "a)" is ((quote <End>) a), whole it is ((quote a)) *)
Theorem chunk_independent_before_fix_refuted : exists pieces,
  observe (parse_pieces false false 100 pieces) <> observe (parse_whole false false 100 (concat pieces)).
Proof. exists [[40; 37]; [97; 41]]. vm_compute. discriminate. Qed.
Print Assumptions chunk_independent_before_fix_refuted.

(* "(a " then "\ b)" is a hard error, whole it is the dotted pair *)
Theorem chunk_independent_before_fix_refuted_dotted : exists pieces,
  fst (observe (parse_pieces false false 100 pieces)) = StErr /\
  fst (observe (parse_whole false false 100 (concat pieces))) = StDone.
Proof. exists [[40; 97; 32]; [92; 32; 98; 41]]. vm_compute. split; reflexivity. Qed.
Print Assumptions chunk_independent_before_fix_refuted_dotted.

(* ---- 5. "more input is asked for exactly when the text is an unfinished prefix"
   (unfinished: the independent scanner of Model/Reader.v — open bracket, string, raw string, block
   comment, or a reader prefix % ^ ~ ~@ still waiting for its datum).  Full statement:
     forall text, fst (observe (parse_whole true fuel text)) <> StErr ->
       (fst (observe (parse_whole true fuel text)) = StMore <-> unfinished text = Some true)
   The direction -> is FALSE of the faithful model (finding sign-symbol-at-end): a complete text
   that ends in the symbol - or + asks for more input (the -Inf look-ahead).  Both directions, with
   that exception as an explicit disjunct, are 5b / 5c. ---- *)
Theorem needmore_iff_unfinished_refuted_sign : exists text,
  unfinished text = Some false /\ fst (observe (parse_whole true true 100 text)) = StMore.
Proof. exists [40; 43; 32; 49; 32; 50; 41; 32; 45]. vm_compute. split; reflexivity. Qed.
Print Assumptions needmore_iff_unfinished_refuted_sign.

(* instances of <- : open string at top level, open raw string, open block comment, open bracket *)
Example ex_unfinished_ask_more :
  map (fun t => (unfinished t, fst (observe (parse_whole true true 100 t))))
      [[34; 97; 98; 99]; [96; 97]; [47; 42; 32; 97]; [40; 97]; [37; 32]; [47; 42; 42; 42; 47; 32; 97]]
  = [(Some true, StMore); (Some true, StMore); (Some true, StMore); (Some true, StMore); (Some true, StMore); (Some false, StDone)].
Proof. vm_compute. reflexivity. Qed.

(* ---- 5b. the two directions at the level of TOKENS, for all texts, against an independent token
   scanner (Proofs/ReaderUnfinished.v: trun = bracket depth over all bracket kinds, inside block
   comment / raw string, reader prefix % ^ ~ ~@ pending, last token is the symbol - / +;
   tfinal = depth 0, not inside, nothing pending; sunf = depth > 0 or inside or pending or sign).
   The comment-skipping loop of the '{' look-ahead is covered (cfix = true, the code as it is:
   `lexer.tokens = lexer.tokens[extra:]`; before that fix the statement was false:
   done_implies_finished_before_fix_refuted_curly).  bc_ok: every BeginBlockComment token is directly
   followed by a Comment token — true of every token stream the lexer produces (lexer_bc_ok), so the
   rune-level theorems 5c carry no side condition.  text_tokens text = the tokens of text ++ newline.
   The link between this token scanner and the rune scanner [unfinished] is 5c below. ---- *)
Theorem lexer_bc_ok : forall text, bc_ok (l_tokens (lres_state (lex_all init_lstate text))) = true.
Proof. exact LexerBC.lexer_bc_ok. Qed.
Print Assumptions lexer_bc_ok.

Theorem done_implies_finished : forall fuel text acc f st,
  parse_whole true true fuel text = ODone acc f ->
  bc_ok (text_tokens text) = true ->
  trun st0 (text_tokens text) = Some st -> tfinal st = true.
Proof. exact ReaderUnfinished.done_implies_finished. Qed.
Print Assumptions done_implies_finished.

(* the parser suspended wanting more than n tokens with toks still queued: the scanner over ALL tokens
   is unfinished or right after a sign symbol (sunf st), and so was it over the tokens consumed so far *)
Theorem more_implies_unfinished : forall fuel text acc n toks k st,
  parse_whole true true fuel text = OSusp acc n toks k ->
  bc_ok (text_tokens text) = true ->
  trun st0 (text_tokens text) = Some st ->
  (length toks <= n)%nat /\ sunf st = true /\ exists sts, trun sts toks = Some st /\ sunf sts = true.
Proof. exact ReaderUnfinished.more_implies_unfinished. Qed.
Print Assumptions more_implies_unfinished.

(* before the fix of the '{' comments '}' case (cfix = false) (A) was false: `{ { // c<newline> }`
   (replayed on the real code before the fix; the witness is an edge text of the harness) *)
Theorem done_implies_finished_before_fix_refuted_curly : exists text st,
  fst (observe (parse_whole true false 100 text)) = StDone /\
  trun st0 (text_tokens text) = Some st /\ tfinal st = false.
Proof. exists [123; 32; 123; 32; 47; 47; 32; 99; 10; 32; 125]. eexists. vm_compute. repeat split; reflexivity. Qed.
Print Assumptions done_implies_finished_before_fix_refuted_curly.

(* ---- 5c. the same for ALL texts at the level of RUNES, against the independent rune scanner
   [unfinished] (Model/Reader.v scan: brackets, strings, raw strings, comments, char literals, reader
   prefix).  scan_simulates_lexer: a simulation between scan_step and lex_rune (all 13 lexer modes):
   on every lexically correct text the scanner's mode / depth / pending flag correspond to the lexer
   mode and to the token scanner's state over the tokens emitted so far.  Composition with 5b:
   (A) done_not_unfinished: lexically_ok text -> parse text = Done -> text is not an unfinished prefix
       (contrapositive of `lexically_ok -> unfinished -> not Done`; an unfinished text may still be a
       hard error, e.g. "(]" + "(", so `= NeedMore` holds exactly when the parse is not Err);
   (B) more_finished_is_sign: lexically_ok text -> parse text = NeedMore (every yield, including those of
       the '{' look-ahead) -> text NOT unfinished -> the last token is the symbol - or +
       (i.e. NeedMore -> unfinished \/ ends_in_sign_symbol).
   (B') more_top_unfinished: the other request for more input (OMoreTop: the text ends inside a string
       or char literal) is an unfinished prefix for the scanner too.
   No side condition besides lexical correctness. ---- *)
Theorem scan_simulates_lexer : forall text s', lex_all init_lstate text = LOk s' -> Rel (scan text) s'.
Proof. exact ScanSim.scan_simulates_lexer. Qed.
Print Assumptions scan_simulates_lexer.

Theorem done_not_unfinished : forall fuel text acc f s',
  lex_all init_lstate (text ++ nl) = LOk s' ->
  parse_whole true true fuel text = ODone acc f ->
  unfinished text <> Some true.
Proof. exact Unfinished.done_not_unfinished. Qed.
Print Assumptions done_not_unfinished.

Theorem more_finished_is_sign : forall fuel text acc n toks k s',
  lex_all init_lstate (text ++ nl) = LOk s' -> in_string_or_rune s' = false ->
  parse_whole true true fuel text = OSusp acc n toks k ->
  unfinished text = Some false ->
  exists d a p, trun st0 (text_tokens text) = Some (d, a, p, true).
Proof. exact Unfinished.more_finished_is_sign. Qed.
Print Assumptions more_finished_is_sign.

Theorem more_top_unfinished : forall fuel text acc f s',
  lex_all init_lstate (text ++ nl) = LOk s' ->
  parse_whole true true fuel text = OMoreTop acc f ->
  unfinished text = Some true.
Proof. exact Unfinished.more_top_unfinished. Qed.
Print Assumptions more_top_unfinished.

(* ---- 5d. the other direction, "unfinished -> more input", for ALL texts (Proofs/UnfinishedMore.v).
   Full statement:  lexically_ok text -> unfinished text = Some true -> parse text = NeedMore.
   It is FALSE of the faithful model (unfinished_needmore_refuted): a hard error of the PARSER wins over
   the request for more input, whether it precedes the open construct ("(](") or lies inside it (a number
   literal out of range "(99999999999999999999", a dotted pair with two tails "(a \ b c").  This is the
   intended behaviour of parser.go (no finding: the REPL must report `(]` at once), and the finding
   sign-symbol-at-end does not touch this direction.  The exact characterisation, all texts:
   (C) unfinished_more_or_err: lexically_ok -> unfinished -> NeedMore or Err (never Done, never a panic;
       StFuel is the model's own out-of-fuel outcome);
   (D) error_persists: a hard error is final — parse text = Err -> parse (text ++ newline ++ more) = Err
       for EVERY continuation (the whole outcome is kept: final_outcome_persists);
   (E) unfinished_prefix_asks_more: an unfinished text that is the beginning, up to a line end, of ANY text
       whose parse is not a hard error (and for which the fuel suffices) asks for more input — no fuel
       condition on the beginning itself.  By (D) the side condition excludes exactly the texts on which
       no continuation can ever be accepted: those whose token stream already holds a parser error
       (the OErr sites of Reader.v reachable with q_err = false: a closing bracket / backslash / stray
       token where an expression must start, a number literal that strconv rejects, a dotted pair not
       closed after its tail).
   (F) unfinished_more_iff_no_error: for unfinished texts, NeedMore <-> not Err. ---- *)
Theorem unfinished_more_or_err : forall fuel text s',
  lex_all init_lstate (text ++ nl) = LOk s' ->
  unfinished text = Some true ->
  status_of fuel text = StMore \/ status_of fuel text = StErr \/ status_of fuel text = StFuel.
Proof. exact UnfinishedMore.unfinished_more_or_err. Qed.
Print Assumptions unfinished_more_or_err.

Theorem final_outcome_persists : forall cfix fuel text more,
  fin (parse_whole true cfix fuel text) = true ->
  parse_whole true cfix fuel (text ++ nl ++ more) = parse_whole true cfix fuel text.
Proof. exact UnfinishedMore.final_outcome_persists. Qed.
Print Assumptions final_outcome_persists.

Theorem error_persists : forall cfix fuel text more,
  fst (observe (parse_whole true cfix fuel text)) = StErr ->
  fst (observe (parse_whole true cfix fuel (text ++ nl ++ more))) = StErr.
Proof. exact UnfinishedMore.error_persists. Qed.
Print Assumptions error_persists.

Theorem unfinished_prefix_asks_more : forall fuel text more s',
  lex_all init_lstate (text ++ nl) = LOk s' ->
  unfinished text = Some true ->
  status_of fuel (text ++ nl ++ more) <> StErr ->
  status_of fuel (text ++ nl ++ more) <> StFuel ->
  status_of fuel text = StMore.
Proof. exact UnfinishedMore.unfinished_prefix_asks_more. Qed.
Print Assumptions unfinished_prefix_asks_more.

Theorem unfinished_more_iff_no_error : forall fuel text s',
  lex_all init_lstate (text ++ nl) = LOk s' ->
  unfinished text = Some true ->
  status_of fuel text <> StFuel ->
  (status_of fuel text = StMore <-> status_of fuel text <> StErr).
Proof. exact UnfinishedMore.unfinished_more_iff_no_error. Qed.
Print Assumptions unfinished_more_iff_no_error.

(* (G) the model's fuel is adequate (Proofs/ReaderFuelAdequate.v, a fifth mutual induction over the reader
   with the measure "queued tokens, '{' counted twice"): with fuel >= 4 * (number of tokens) + 2 the
   out-of-fuel outcome does not occur — any text, any parser state before ResetAddNewInput, both model
   flags.  With it (C), (E), (F) lose the StFuel case. *)
Theorem enough_fuel : forall strict cfix fuel p text,
  (4 * length (text_tokens text) + 2 <= fuel)%nat ->
  fst (observe (parse_after strict cfix fuel p text)) <> StFuel.
Proof. intros. apply ReaderFuelAdequate.is_fuel_status. apply ReaderFuelAdequate.enough_fuel. assumption. Qed.
Print Assumptions enough_fuel.

Theorem unfinished_more_or_err_fueled : forall fuel text s',
  (4 * length (text_tokens text) + 2 <= fuel)%nat ->
  lex_all init_lstate (text ++ nl) = LOk s' ->
  unfinished text = Some true ->
  status_of fuel text = StMore \/ status_of fuel text = StErr.
Proof. exact UnfinishedMore.unfinished_more_or_err_fueled. Qed.
Print Assumptions unfinished_more_or_err_fueled.

Theorem unfinished_prefix_asks_more_fueled : forall fuel text more s',
  (4 * length (text_tokens (text ++ nl ++ more)) + 2 <= fuel)%nat ->
  lex_all init_lstate (text ++ nl) = LOk s' ->
  unfinished text = Some true ->
  status_of fuel (text ++ nl ++ more) <> StErr ->
  status_of fuel text = StMore.
Proof. exact UnfinishedMore.unfinished_prefix_asks_more_fueled. Qed.
Print Assumptions unfinished_prefix_asks_more_fueled.

Theorem unfinished_more_iff_no_error_fueled : forall fuel text s',
  (4 * length (text_tokens text) + 2 <= fuel)%nat ->
  lex_all init_lstate (text ++ nl) = LOk s' ->
  unfinished text = Some true ->
  (status_of fuel text = StMore <-> status_of fuel text <> StErr).
Proof. exact UnfinishedMore.unfinished_more_iff_no_error_fueled. Qed.
Print Assumptions unfinished_more_iff_no_error_fueled.

(* the fuel bound of (G) is met by the example below (ex_unfinished_prefix): at most 24 tokens for the
   long text, fuel 100 *)
Example ex_fuel_bound :
  Nat.leb (length (text_tokens ([40; 100; 101; 102; 32; 102; 32; 91; 97] ++ nl ++ [98; 93; 32; 49; 41]))) 24 = true.
Proof. vm_compute. reflexivity. Qed.

Theorem unfinished_needmore_refuted : exists text s',
  lex_all init_lstate (text ++ nl) = LOk s' /\ unfinished text = Some true /\ status_of 100 text = StErr.
Proof. exact UnfinishedMore.unfinished_needmore_refuted. Qed.
Print Assumptions unfinished_needmore_refuted.

Theorem unfinished_needmore_refuted_inside : forall text, In text [w_inside_num; w_inside_dot] ->
  lres_ok (lex_all init_lstate (text ++ nl)) = true /\ unfinished text = Some true /\ status_of 100 text = StErr.
Proof. exact UnfinishedMore.unfinished_needmore_refuted_inside. Qed.
Print Assumptions unfinished_needmore_refuted_inside.

(* non-vacuity of (C)-(F): "(def f [a" is lexically correct, unfinished, the beginning of
   "(def f [a<nl>b] 1)" (Done) and asks for more input; "(]" is an error and stays one whatever follows *)
Example ex_unfinished_prefix :
  lres_ok (lex_all init_lstate ([40; 100; 101; 102; 32; 102; 32; 91; 97] ++ nl)) = true /\
  unfinished [40; 100; 101; 102; 32; 102; 32; 91; 97] = Some true /\
  status_of 100 ([40; 100; 101; 102; 32; 102; 32; 91; 97] ++ nl ++ [98; 93; 32; 49; 41]) = StDone /\
  status_of 100 [40; 100; 101; 102; 32; 102; 32; 91; 97] = StMore /\
  status_of 100 [40; 93] = StErr /\ fin (parse_whole true true 100 [40; 93]) = true /\
  status_of 100 ([40; 93] ++ nl ++ [40; 41]) = StErr.
Proof. vm_compute. repeat split; reflexivity. Qed.

(* ---- 6. the last token is never lost: after the final newline that WholeText supplies, a lexer
   in normal mode has nothing pending in its atom buffer (every atom became a token) ---- *)
Theorem last_token_kept : forall text s',
  lex_all init_lstate (text ++ [10]) = LOk s' -> l_state s' = LNormal -> l_buffer s' = [].
Proof. exact LexerProofs.last_token_kept. Qed.
Print Assumptions last_token_kept.

(* ---- 7. read_total: the reader never reaches a panic site of parser.go.  The Go sites that would
   panic are explicit outcomes of Model/Reader.v: OCrash CBlockComment / CBacktick (the two
   `panic("internal error ...")`), CIndex (lexer.tokens[i] in the '{' look-ahead), CUintSlice
   (tok.str[:len(tok.str)-3]).  They are unreachable on every token stream the lexer can produce
   (lexer_tokens_wf: Comment* EndBlockComment after BeginBlockComment, BacktickString after
   BeginBacktickString, Uint64 tokens of >= 3 runes — the last from a minimum-match-length theorem
   about the generated regex), for every text, every parser state before ResetAddNewInput, both
   settings of the two model flags, and every delivery in pieces that follows the protocol. ---- *)
Theorem lexer_tokens_wf : forall text, wf_from WFree (l_tokens (lres_state (lex_all init_lstate text))).
Proof. exact LexerWF.lexer_tokens_wf. Qed.
Print Assumptions lexer_tokens_wf.

Theorem reader_no_crash_on_wf_tokens : forall strict cfix f acc q, wfq q -> is_crash (ptop strict cfix f acc q) = false.
Proof. exact ReaderTotal.ptop_nc. Qed.
Print Assumptions reader_no_crash_on_wf_tokens.

Theorem read_total : forall strict cfix fuel p text,
  fst (observe (parse_after strict cfix fuel p text)) <> StCrash.
Proof. intros. apply LexerWF.is_crash_status. apply LexerWF.whole_no_crash. Qed.
Print Assumptions read_total.

Theorem read_total_pieces : forall strict cfix fuel pieces,
  match mark_last pieces with [] => True | first :: rest => pieces_ok strict first rest end ->
  fst (observe (parse_pieces strict cfix fuel pieces)) <> StCrash.
Proof. intros. apply LexerWF.is_crash_status. apply LexerWF.pieces_no_crash. assumption. Qed.
Print Assumptions read_total_pieces.

(* the crash outcomes are not vacuous: on a token list the lexer cannot produce the reader does panic *)
Example ex_crash_site :
  fst (observe (ptop true true 10 [] (mkQ [mkTok TBeginBlockComment []; mkTok TSymbol [97]] false false))) = StCrash.
Proof. vm_compute. reflexivity. Qed.

(* ---- 8. reader sugar at the token level: a reader prefix in front of a form lexes to the prefix
   token followed by exactly the tokens of the form (same error flag).  The look-back ring makes
   this non-trivial: the rune before the form is the prefix rune instead of the start of the text;
   it holds because % ^ ~ @ are in canStartSignedNumberAfter (so %-2 keeps its sign). ---- *)
Theorem sugar_tokens : forall t,
  lex_text (37 :: t) = (mkTok TQuote [] :: fst (lex_text t), snd (lex_text t)) /\
  lex_text (94 :: t) = (mkTok TCaret [] :: fst (lex_text t), snd (lex_text t)) /\
  lex_text (126 :: 64 :: t) = (mkTok TTildeAt [] :: fst (lex_text t), snd (lex_text t)) /\
  (forall r, r <> 64 ->
     lex_text (126 :: r :: t) = (mkTok TTilde [] :: fst (lex_text (r :: t)), snd (lex_text (r :: t)))).
Proof. exact SugarTokens.sugar_tokens. Qed.
Print Assumptions sugar_tokens.

(* ---- 9. blanks around an operator do not change the tokens (for C06).  Complete texts
   (final newline); the context a must leave the lexer in normal mode (it does not end inside a
   string / comment / literal nor with an operator rune, ':' , '/' or '~': then the operator would
   merge with it); G = * < > = ! & | ; G2 = == <= >= <- *= ** != <! && || ; G2s = ++ -- += -= ->
   (g2_complete: with /= and := these are all the two-rune strings BuiltinOpRegex accepts).
   A one-rune operator must not merge with the first rune of b into a two-rune operator (stated with
   the generated regex itself); a two-rune operator needs no condition on b.
   Not covered: / /= := (they go through the first-slash and fresh-assign-or-colon modes). ---- *)
Theorem op_spacing : forall a b s,
  lex_all init_lstate a = LOk s -> l_state s = LNormal ->
  (forall c, In c G -> re_match re_BuiltinOpRegex [c; hd 10 (b ++ [10])] = false ->
     lex_text (a ++ [c] ++ b ++ [10]) = lex_text (a ++ [32; c; 32] ++ b ++ [10])) /\
  (forall c c2, In (c, c2) G2 ->
     lex_text (a ++ [c; c2] ++ b ++ [10]) = lex_text (a ++ [32; c; c2; 32] ++ b ++ [10])).
Proof.
  intros a b s Ha Hs. split.
  - intros c Hc Hn. exact (OpSpacing.op_spacing_single a b c s Ha Hs Hc Hn).
  - intros c c2 Hc. exact (OpSpacing.op_spacing_double a b c c2 s Ha Hs Hc).
Qed.
Print Assumptions op_spacing.

(* + and - : the exponent rule (a sign right after the e/E of a number continues the number) and the
   sign rule (a minus after a rune of canStartSignedNumberAfter and before a digit or '.' starts a
   negative literal) are part of the language; outside them blanks do not matter.
   twoback (ring_push c s) is the rune before the operator (0 at the start of the text). *)
Theorem op_spacing_sign : forall a b s,
  lex_all init_lstate a = LOk s -> l_state s = LNormal ->
  (forall c, c = 43 \/ c = 45 ->
     ((twoback (ring_push c s) =? 101) || (twoback (ring_push c s) =? 69)) && sci_prefix_ok (l_buffer s) = false ->
     (c =? 45) && can_start_signed_after (twoback (ring_push c s)) &&
       (re_match re_FloatRegex [c; hd 10 (b ++ [10])] || re_match re_DecimalRegex [c; hd 10 (b ++ [10])]) = false ->
     re_match re_BuiltinOpRegex [c; hd 10 (b ++ [10])] = false ->
     lex_text (a ++ [c] ++ b ++ [10]) = lex_text (a ++ [32; c; 32] ++ b ++ [10])) /\
  (forall c c2, In (c, c2) G2s ->
     ((twoback (ring_push c s) =? 101) || (twoback (ring_push c s) =? 69)) && sci_prefix_ok (l_buffer s) = false ->
     lex_text (a ++ [c; c2] ++ b ++ [10]) = lex_text (a ++ [32; c; c2; 32] ++ b ++ [10])).
Proof.
  intros a b s Ha Hs. split.
  - intros c Hc H1 H2 H3. exact (OpSpacing.op_spacing_sign_single a b c s Ha Hs Hc H1 H2 H3).
  - intros c c2 Hc H1. exact (OpSpacing.op_spacing_sign_double a b c c2 s Ha Hs Hc H1).
Qed.
Print Assumptions op_spacing_sign.

(* x*y and x * y; a<=b and a <= b; 1e-5 is one number but x-1 after a symbol is x - 1 *)
Example ex_op_spacing :
  lex_text [120; 42; 121; 10] = lex_text [120; 32; 42; 32; 121; 10] /\
  lex_text [97; 60; 61; 98; 10] = lex_text [97; 32; 60; 61; 32; 98; 10] /\
  lex_text [120; 45; 49; 10] = lex_text [120; 32; 45; 32; 49; 10] /\
  lex_text [40; 45; 49; 41; 10] <> lex_text [40; 32; 45; 32; 49; 41; 10].
Proof. vm_compute. repeat split; try reflexivity. discriminate. Qed.

(* ---- non-vacuity ---- *)
Example ex_tokens : map t_kind (fst (lex_text [40; 97; 32; 45; 49; 32; 49; 101; 45; 53; 41; 10]))
  = [TLParen; TSymbol; TDecimal; TFloat; TRParen].
Proof. vm_compute. reflexivity. Qed.

Example ex_three_cuts :
  observe (parse_pieces true true 100 [[40; 100]; [101; 102; 32; 34; 40]; [40; 34; 32]; [120; 41]])
  = observe (parse_whole true true 100 [40; 100; 101; 102; 32; 34; 40; 40; 34; 32; 120; 41]).
Proof. vm_compute. reflexivity. Qed.

Example ex_more_input : fst (observe (parse_whole true true 100 [40; 97; 32; 91; 49])) = StMore.
Proof. vm_compute. reflexivity. Qed.

(* the repaired look-aheads: "(%" then "a)" *)
Example ex_sugar_cut :
  observe (parse_pieces true true 100 [[40; 37]; [97; 41]]) = observe (parse_whole true true 100 [40; 37; 97; 41]).
Proof. vm_compute. reflexivity. Qed.

(* a comment between a reader prefix and its form is skipped (parsePrefixOperand); the prefix keeps
   waiting across the comment, also at the end of the text: "(a ~ /* c */ x)", "~ // c" *)
Example ex_prefix_comment :
  observe (parse_whole true true 100 [40; 97; 32; 126; 32; 47; 42; 32; 99; 32; 42; 47; 32; 120; 41])
  = observe (parse_whole true true 100 [40; 97; 32; 126; 120; 41]) /\
  fst (observe (parse_whole true true 100 [126; 32; 47; 47; 32; 99])) = StMore /\
  unfinished [126; 32; 47; 47; 32; 99] = Some true /\
  observe (parse_pieces true true 100 [[37; 32; 47; 42; 99]; [42; 47; 32]; [120]]) = observe (parse_whole true true 100 [37; 120]).
Proof. vm_compute. repeat split; reflexivity. Qed.

Example ex_pieces_ok : pieces_ok false [40; 97] [[32; 98; 41; 10]].
Proof. vm_compute. repeat split; auto. Qed.

(* ---- 9. sessions (Model/ReaderSession.v) ----
   (a) the REPL's line reader, repl.go:getExpressionWithLiner, for ALL line lists, ALL lines (blank and
   whitespace-only ones included) and ANY state p the interpreter's parser was left in: the lines it consumes
   are a prefix of the lines typed; what it returns is the whole-text parse of exactly the text it reports
   (strings.Join(lines, "\n")); it reads one more line exactly as long as the text so far asks for more input
   (every proper line prefix of the reported text is an unfinished text, the reported text is not); if the
   input ends first, the whole entry is an unfinished text. *)
Theorem repl_is_whole : forall cfix fuel p lines used o,
  repl_read true cfix fuel p lines = (used, Some o) ->
  (exists rest, lines = used ++ rest) /\ used <> nil /\
  o = parse_whole true cfix fuel (join_lines used) /\ fst (observe o) <> StMore /\
  (forall j, (0 < j < length used)%nat ->
     fst (observe (parse_whole true cfix fuel (join_lines (firstn j used)))) = StMore).
Proof. exact ReaderSession.repl_is_whole. Qed.
Print Assumptions repl_is_whole.

Theorem repl_eof_is_unfinished : forall cfix fuel p lines used,
  repl_read true cfix fuel p lines = (used, None) ->
  used = lines /\
  (lines <> nil -> fst (observe (parse_whole true cfix fuel (join_lines lines))) = StMore).
Proof. exact ReaderSession.repl_eof_is_unfinished. Qed.
Print Assumptions repl_eof_is_unfinished.

(* (b) history independence over CALL histories: after ANY sequence of ResetAddNewInput / NewInput /
   ParseTokens / Parser.Reset / Parser.Stop calls (sequences outside the delivery protocol included: streams
   queued and never parsed, Stop or Reset while the coroutine is suspended inside a form, whatever the
   unwinding coroutine leaves in the reply record it holds and in the lexer), a complete text read through either
   route (ResetAddNewInput; ParseTokens  /  Reset; NewInput; ParseTokens) is read as by a new parser. *)
Theorem call_history_independent : forall cfix fuel unwind strict via_reset history text,
  read_after strict cfix fuel unwind via_reset history text = parse_whole strict cfix fuel text.
Proof. exact ReaderSession.read_after_any. Qed.
Print Assumptions call_history_independent.

(* (c) chunk independence with queued pieces: the text in ANY pieces, ParseTokens called only after the pieces
   a schedule names (the others wait in the lexer's stream queue), after ANY call history = the text whole. *)
Theorem queued_pieces_independent : forall cfix fuel unwind history pieces sched,
  read_pieces_after true cfix fuel unwind history pieces sched = parse_whole true cfix fuel (concat pieces).
Proof. exact ReaderSession.read_pieces_after_any. Qed.
Print Assumptions queued_pieces_independent.

(* non-vacuity: the entry "(a", "", "  ", "b)", "c": four lines are consumed, the blank and the whitespace-only
   line are part of the text; "`x", "", "y`" keeps the blank line inside the raw string; EOF inside a form *)
Definition repl_obs (x : list (list Z) * option outcome) := (length (fst x), option_map observe (snd x)).
Example ex_repl :
  repl_obs (repl_read true true 100 (p_init 100) [[40; 97]; []; [32; 32]; [98; 41]; [99]]) =
    (4%nat, Some (observe (parse_whole true true 100 [40; 97; 10; 10; 32; 32; 10; 98; 41]))) /\
  repl_obs (repl_read true true 100 (p_init 100) [[96; 120]; []; [121; 96]; [122]]) =
    (3%nat, Some (StDone, [SStr true [120; 10; 10; 121]])) /\
  snd (repl_read true true 100 (p_init 100) [[40; 97]; [98]]) = None.
Proof. vm_compute. repeat split; reflexivity. Qed.

(* an earlier text abandoned inside "[1 {" (suspended in the brace look-ahead), then Stop, a stream queued and
   never parsed, then the text "(b)" in the pieces "(", "b", ")" with only the last one parsed *)
Definition ex_unwind (o : outcome) (l : lstate) : outcome * lstate := (OErr [SInt 7], l).
Definition ex_history : list call := [CResetAdd [91; 49; 32; 123]; CParse; CStop; CNewInput [40; 40]].
Example ex_calls :
  observe (read_after true true 100 ex_unwind false ex_history [40; 98; 41]) = (StDone, [SPair (sym [98]) SNull]) /\
  observe (read_after true true 100 ex_unwind true ex_history [40; 98; 41]) = (StDone, [SPair (sym [98]) SNull]) /\
  observe (read_pieces_after true true 100 ex_unwind ex_history [[40]; [98]; [41]] [false; false]) = (StDone, [SPair (sym [98]) SNull]) /\
  fst (observe (par_out (do_calls true true 100 ex_unwind (new_parser 100) [CResetAdd [91; 49; 32; 123]; CParse]))) = StMore.
Proof. vm_compute. repeat split; reflexivity. Qed.
