(* C14: hashes behave as insertion-ordered maps under every operation history.
   Statements only; the proofs are in Proofs/HashTblProofs.v, the model (of zygo/hashutils.go,
   zygo/functions.go, zygo/jsonmsgp.go) and the specification in Model/HashTbl.v.

   ah : list atom -> Z is the hash code of array keys (Blake2b of the printed form in the
   code) and is ARBITRARY in every theorem; atoms are hashed as the code does (int/char by
   value, symbol by number, string by FNV-1/32), so colliding codes are covered.
   zop_ok o    : the key of o is an atom or an array holding no char (for those Compare = 0
                 implies the same printed form, hence the same code);
   zop_plain o : o is not "hdel of a one-element array". *)
From Coq Require Import List ZArith Bool.
From ZV Require Import Model.HashTbl Proofs.HashTblProofs.
Import ListNotations.
Open Scope Z_scope.

(* ---- 1. the property, over ALL histories ---- *)

Theorem hash_is_ordered_map : forall ah ops, Forall (zop_ok) ops -> Forall zop_plain ops ->
  let t := zrun ah ops in let s := zs_run ops in
  ZInv ah t /\ zabs ah t = s /\
  zlen t = s_len key Z s /\ zkeys t = s_keys key Z s /\
  (forall k, key_ok k = true -> zget ah t k = zs_lookup s k) /\
  (forall k, key_ok k = true -> unwrap k = k -> zgetd ah t k = zs_lookup s k) /\
  (forall pos, zhpair ah t pos = s_pair key Z s pos) /\
  (forall pos, zrange_pair ah t pos = s_pair key Z s pos) /\
  (forall pos, zrange_key ah t pos = s_range_key key Z s pos) /\
  zjson ah t = s_json key Z s /\ zloop_macro ah t = s_loop key Z s /\ zloop_infix ah t = s_loop key Z s /\
  (s <> [] -> zstr ah t = s_str key Z s).
Proof. exact z_hash_is_ordered_map. Qed.
Print Assumptions hash_is_ordered_map.

(* ---- 2. the invariant (buckets / KeyOrder / NumKeys in step) and its preservation ---- *)

Theorem inv_init : forall ah, ZInv ah (empty key Z).
Proof. exact z_inv_init. Qed.
Print Assumptions inv_init.

Theorem inv_step : forall ah t o, ZInv ah t -> zop_ok o -> ZInv ah (zstep ah t o).
Proof. exact z_inv_step. Qed.
Print Assumptions inv_step.

Theorem reachable_inv : forall ah ops, Forall zop_ok ops -> ZInv ah (zrun ah ops).
Proof. exact z_reachable_inv. Qed.
Print Assumptions reachable_inv.

(* ---- 3. refinement of the state ---- *)

Theorem step_refines : forall ah t o, ZInv ah t -> zop_ok o -> zop_plain o ->
  zabs ah (zstep ah t o) = zs_step (zabs ah t) o.
Proof. exact z_step_refines. Qed.
Print Assumptions step_refines.

Theorem history_refines : forall ah ops, Forall zop_ok ops -> Forall zop_plain ops ->
  zabs ah (zrun ah ops) = zs_run ops.
Proof. exact z_history_refines. Qed.
Print Assumptions history_refines.

(* ---- 4. corollaries ---- *)

Theorem len_keys_agree : forall ah t, ZInv ah t ->
  zlen t = Ok (Z.of_nat (length (zkeys t))) /\ length (zkeys t) = length (zabs ah t) /\
  nkeys t = Z.of_nat (length (zkeys t)).
Proof. exact z_len_keys_agree. Qed.
Print Assumptions len_keys_agree.

Theorem hpair_total : forall ah t pos, ZInv ah t -> 0 <= pos < Z.of_nat (length (zkeys t)) ->
  exists kv, zhpair ah t pos = Ok kv /\ nth_error (zabs ah t) (Z.to_nat pos) = Some kv.
Proof. exact z_hpair_total. Qed.
Print Assumptions hpair_total.

(* neither the HashCountKeys panic nor the hpair / json internal panics are reachable *)
Theorem no_internal_panic : forall ah t, ZInv ah t ->
  zlen t <> Crash /\ zjson ah t <> Crash /\ (forall pos, zhpair ah t pos <> Crash) /\
  (forall pos, zrange_pair ah t pos <> Crash) /\ (forall pos, zrange_key ah t pos <> Crash).
Proof. exact z_no_internal_panic. Qed.
Print Assumptions no_internal_panic.

(* deleting a missing key changes nothing (lookups are functions of the state: they cannot) *)
Theorem missing_delete_noop : forall ah t k, zgetd ah t k = None -> zstep ah t (ODel k) = t.
Proof. exact z_missing_delete_noop. Qed.
Print Assumptions missing_delete_noop.

Theorem atom_hash_compat : forall a b, aeq a b = true -> ahash a = ahash b.
Proof. exact HashTblProofs.atom_hash_compat. Qed.
Print Assumptions atom_hash_compat.

Theorem key_identity_is_equivalence :
  (forall a, keq a a = true) /\ (forall a b, keq a b = keq b a) /\
  (forall a b c, keq a b = true -> keq b c = true -> keq a c = true).
Proof. exact (conj keq_refl (conj keq_sym keq_trans)). Qed.
Print Assumptions key_identity_is_equivalence.

(* ---- 5. the same for ANY key type, key identity and hash function ---- *)

Theorem generic_reachable_inv : forall (K V : Type) (keq : K -> K -> bool) (hcode : K -> Z) (unwrap : K -> K) (ok : K -> bool),
  (forall a, keq a a = true) -> (forall a b, keq a b = keq b a) ->
  (forall a b c, keq a b = true -> keq b c = true -> keq a c = true) ->
  (forall a b, ok a = true -> ok b = true -> keq a b = true -> hcode a = hcode b) ->
  (forall a, unwrap (unwrap a) = unwrap a) -> (forall a, ok a = true -> ok (unwrap a) = true) ->
  (forall a b, keq a b = true -> unwrap a = a -> unwrap b = b) ->
  forall ops, Forall (op_ok K V ok) ops -> Inv K V keq hcode unwrap ok (run K V keq hcode unwrap ops).
Proof. exact HashTblProofs.reachable_inv. Qed.
Print Assumptions generic_reachable_inv.

Theorem generic_history_refines : forall (K V : Type) (keq : K -> K -> bool) (hcode : K -> Z) (unwrap : K -> K) (ok : K -> bool),
  (forall a, keq a a = true) -> (forall a b, keq a b = keq b a) ->
  (forall a b c, keq a b = true -> keq b c = true -> keq a c = true) ->
  (forall a b, ok a = true -> ok b = true -> keq a b = true -> hcode a = hcode b) ->
  (forall a, unwrap (unwrap a) = unwrap a) -> (forall a, ok a = true -> ok (unwrap a) = true) ->
  (forall a b, keq a b = true -> unwrap a = a -> unwrap b = b) ->
  forall ops, Forall (op_ok K V ok) ops -> Forall (op_plain K V unwrap) ops ->
  abs K V keq hcode unwrap (run K V keq hcode unwrap ops) = s_run K V keq unwrap ops.
Proof. exact HashTblProofs.history_refines. Qed.
Print Assumptions generic_history_refines.

(* ---- 6. where the code deviates from the property (findings; replayed on the real code) ---- *)

(* FULL statement wanted:  forall t, ZInv ah t -> zstr ah t = s_str key Z (zabs ah t).
   It is false (next theorem); proved for every state that is non-empty or never held a bucket. *)
Theorem str_refines_partial : forall ah t, ZInv ah t -> zabs ah t <> [] \/ buckets t = [] ->
  zstr ah t = s_str key Z (zabs ah t).
Proof. exact z_str_refines_partial. Qed.
Print Assumptions str_refines_partial.

(* (hset h 1 5) (hdel h 1): empty content, but the printed form loses its opening brace *)
Theorem str_after_emptying_refuted : forall ah,
  let ops := [OSet k1 5; ODel k1] in
  Forall zop_ok ops /\ Forall zop_plain ops /\ zs_run ops = [] /\
  zstr ah (zrun ah ops) = ([], true) /\ s_str key Z (zs_run ops) = ([], false).
Proof. exact HashTblProofs.str_after_emptying_refuted. Qed.
Print Assumptions str_after_emptying_refuted.

(* FULL statement wanted: history_refines without the premise Forall zop_plain ops, and
   zgetd = zs_lookup without the premise unwrap k = k.  False: HashDelete and HashGetDefault do
   not unwrap a one-element array key, HashSet and HashGet do. *)
Theorem hdel_wrapped_noop : forall ah t k, ZInv ah t -> key_ok k = true -> unwrap k <> k -> zstep ah t (ODel k) = t.
Proof. exact z_hdel_wrapped_noop. Qed.
Print Assumptions hdel_wrapped_noop.

Theorem getd_wrapped_none : forall ah t k, ZInv ah t -> key_ok k = true -> unwrap k <> k -> zgetd ah t k = None.
Proof. exact z_getd_wrapped_none. Qed.
Print Assumptions getd_wrapped_none.

Theorem wrapped_key_refuted : forall ah,
  let ops := [OSet k1w 5; ODel k1w] in
  Forall zop_ok ops /\ zs_run ops = [] /\ zabs ah (zrun ah ops) = [(k1, 5)] /\
  zget ah (zrun ah [OSet k1w 5]) k1w = Some 5 /\ zgetd ah (zrun ah [OSet k1w 5]) k1w = None.
Proof. exact HashTblProofs.wrapped_key_refuted. Qed.
Print Assumptions wrapped_key_refuted.

(* FULL statement wanted: reachable_inv without the premise zop_ok (keys: arrays holding chars).
   False as soon as two arrays that compare equal get different codes, e.g. [1 97] and [1 'a']. *)
Theorem incompatible_array_hash_refuted : forall ah : list atom -> Z,
  ah [AInt 1; AInt 97] <> ah [AInt 1; AChar 97] ->
  let t := zrun ah [OSet kA 1; OSet kB 2; ODel kB] in
  keq kA kB = true /\ zkeys t = [kB] /\ zget ah t kA = Some 1 /\
  zhpair ah t 0 = Crash /\ zjson ah t = Crash.
Proof. exact HashTblProofs.incompatible_array_hash_refuted. Qed.
Print Assumptions incompatible_array_hash_refuted.

(* ---- 7. non-vacuity: histories with colliding codes, run inside Coq ---- *)

(* symbol number 5 and int 5 share a code and are different keys; 97 and 'a' are one key;
   every array gets code 5 too *)
Example collide_run :
  let ops := [OSet (KAtom (ASym 5)) 1; OSet (KAtom (AInt 5)) 2; OSet (KArr [AInt 2; AInt 3]) 3;
              OSet (KAtom (AInt 97)) 4; OSet (KAtom (AChar 97)) 5; ODel (KAtom (ASym 5));
              OSet (KArr [AInt 9]) 6; OSet (KAtom (ASym 5)) 7] in
  zabs (fun _ => 5) (zrun (fun _ => 5) ops) =
    [(KAtom (AInt 5), 2); (KArr [AInt 2; AInt 3], 3); (KAtom (AInt 97), 5); (KAtom (AInt 9), 6); (KAtom (ASym 5), 7)]
  /\ zs_run ops = zabs (fun _ => 5) (zrun (fun _ => 5) ops)
  /\ zlen (zrun (fun _ => 5) ops) = Ok 5
  /\ zhpair (fun _ => 5) (zrun (fun _ => 5) ops) 4 = Ok (KAtom (ASym 5), 7)
  /\ Forall zop_ok ops /\ Forall zop_plain ops.
Proof. cbv zeta. repeat split; try (vm_compute; reflexivity); repeat constructor. Qed.

Example fnv32_s : fnv32 [115] = 84696428.
Proof. vm_compute. reflexivity. Qed.
