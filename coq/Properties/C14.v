(* C14: hashes behave as insertion-ordered maps under every operation history.
   Statements only; the proofs are in Proofs/HashTblProofs.v, the model (of zygo/hashutils.go,
   zygo/functions.go, zygo/jsonmsgp.go as they are after fix commits c6b7e51 3cb3bf8 fd09fed
   0d39455) and the specification in Model/HashTbl.v.

   ah : key -> Z is the hash code of non-atom keys (Blake2b of the printed form in the code) and
   is ARBITRARY in every theorem; atoms are hashed as the code does (int/char by value, symbol
   by number, string by FNV-1/32): colliding codes are covered, and NO relation between hash
   codes and Compare is assumed.  The key identity of the specification is the code's own:
   kid ah a b = (same hash code) && (Compare = 0); on atoms it is Compare = 0 (kid_atoms).
   zop_ok o : the key of o is not of the shape [[a]] (see nested_wrap_refuted). *)
From Coq Require Import List ZArith Bool.
From ZV Require Import Model.HashTbl Model.HashObj Proofs.HashTblProofs Proofs.HashObjProofs.
Import ListNotations.
Open Scope Z_scope.

(* ---- 1. the property, over ALL histories ---- *)

Theorem hash_is_ordered_map : forall ah ops, Forall zop_ok ops ->
  let t := zrun ah ops in let s := zs_run ah ops in
  ZInv ah t /\ zabs ah t = s /\
  zlen t = s_len key Z s /\ zkeys t = s_keys key Z s /\
  (forall k, key_ok k = true -> zget ah t k = zs_lookup ah s k) /\
  (forall k, key_ok k = true -> zgetd ah t k = zs_lookup ah s k) /\
  (forall pos, zhpair ah t pos = s_pair key Z s pos) /\
  (forall pos, zrange_pair ah t pos = s_pair key Z s pos) /\
  (forall pos, zrange_key ah t pos = s_range_key key Z s pos) /\
  zjson ah t = s_json key Z s /\ zloop_macro ah t = s_loop key Z s /\ zloop_infix ah t = s_loop key Z s /\
  zstr ah t = s_str key Z s.
Proof. exact z_hash_is_ordered_map. Qed.
Print Assumptions hash_is_ordered_map.

(* the constructor (hash k v ..) / {k:v ..} is a history of insertions (MakeHash = HashSet per pair),
   so hash_is_ordered_map covers every hash built by a constructor and changed afterwards *)
Theorem make_hash_is_history : forall ah pairs ops,
  fold_left (zstep ah) ops (zmake ah pairs) = zrun ah (sets_of pairs ++ ops).
Proof. exact HashTblProofs.make_hash_is_history. Qed.
Print Assumptions make_hash_is_history.

(* ---- 2. the invariant (buckets / KeyOrder / NumKeys in step) and its preservation ---- *)

Theorem inv_init : forall ah, ZInv ah (empty key Z).
Proof. exact z_inv_init. Qed.
Print Assumptions inv_init.

Theorem inv_step : forall ah t o, ZInv ah t -> zop_ok o -> ZInv ah (zstep ah t o).
Proof. exact z_inv_step. Qed.
Print Assumptions inv_step.

Theorem reachable_inv : forall ah ops, Forall zop_ok ops -> ZInv ah (zrun ah ops).
Proof. exact z_reachable_inv. Qed.
Print Assumptions reachable_inv.

(* ---- 3. refinement of the state ---- *)

Theorem step_refines : forall ah t o, ZInv ah t -> zop_ok o ->
  zabs ah (zstep ah t o) = zs_step ah (zabs ah t) o.
Proof. exact z_step_refines. Qed.
Print Assumptions step_refines.

Theorem history_refines : forall ah ops, Forall zop_ok ops -> zabs ah (zrun ah ops) = zs_run ah ops.
Proof. exact z_history_refines. Qed.
Print Assumptions history_refines.

(* the printed form agrees with the content in EVERY state (no side condition any more) *)
Theorem str_refines : forall ah t, zstr ah t = s_str key Z (zabs ah t).
Proof. exact z_str_refines. Qed.
Print Assumptions str_refines.

(* ---- 4. corollaries ---- *)

Theorem len_keys_agree : forall ah t, ZInv ah t ->
  zlen t = Ok (Z.of_nat (length (zkeys t))) /\ length (zkeys t) = length (zabs ah t) /\
  nkeys t = Z.of_nat (length (zkeys t)).
Proof. exact z_len_keys_agree. Qed.
Print Assumptions len_keys_agree.

Theorem hpair_total : forall ah t pos, ZInv ah t -> 0 <= pos < Z.of_nat (length (zkeys t)) ->
  exists kv, zhpair ah t pos = Ok kv /\ nth_error (zabs ah t) (Z.to_nat pos) = Some kv.
Proof. exact z_hpair_total. Qed.
Print Assumptions hpair_total.

(* neither the HashCountKeys panic nor the hpair / json internal panics are reachable *)
Theorem no_internal_panic : forall ah t, ZInv ah t ->
  zlen t <> Crash /\ zjson ah t <> Crash /\ (forall pos, zhpair ah t pos <> Crash) /\
  (forall pos, zrange_pair ah t pos <> Crash) /\ (forall pos, zrange_key ah t pos <> Crash).
Proof. exact z_no_internal_panic. Qed.
Print Assumptions no_internal_panic.

(* deleting a missing key changes nothing, in ANY state (lookups are functions of the state: they cannot) *)
Theorem missing_delete_noop : forall ah t k, zgetd ah t k = None -> zstep ah t (ODel k) = t.
Proof. exact z_missing_delete_noop. Qed.
Print Assumptions missing_delete_noop.

Theorem atom_hash_compat : forall a b, aeq a b = true -> ahash a = ahash b.
Proof. exact HashTblProofs.atom_hash_compat. Qed.
Print Assumptions atom_hash_compat.

(* on atoms the identity "same code and Compare = 0" is Compare = 0 (97 and 'a' are one key) *)
Theorem kid_atoms : forall ah a b, kid ah (KAtom a) (KAtom b) = aeq a b.
Proof. exact HashTblProofs.kid_atoms. Qed.
Print Assumptions kid_atoms.

Theorem compare_is_equivalence :
  (forall a, ceq a a = true) /\ (forall a b, ceq a b = ceq b a) /\
  (forall a b c, ceq a b = true -> ceq b c = true -> ceq a c = true).
Proof. exact (conj ceq_refl (conj ceq_sym ceq_trans)). Qed.
Print Assumptions compare_is_equivalence.

(* ---- 5. the same for ANY key type, comparison and hash function ---- *)

(* the code's table (Compare inside buckets, code-and-Compare on KeyOrder) for arbitrary hcode *)
Theorem generic_hash_is_ordered_map : forall (K V : Type) (ceq : K -> K -> bool) (hcode : K -> Z) (unwrap : K -> K) (ok : K -> bool),
  (forall a, ceq a a = true) -> (forall a b, ceq a b = ceq b a) ->
  (forall a b c, ceq a b = true -> ceq b c = true -> ceq a c = true) ->
  (forall a, ok a = true -> unwrap (unwrap a) = unwrap a) -> (forall a, ok a = true -> ok (unwrap a) = true) ->
  (forall a b, ceq a b = true -> unwrap a = a -> unwrap b = b) ->
  forall ops, Forall (op_ok K V ok) ops ->
  let id := kidg K ceq hcode in
  let t := run K V ceq id hcode unwrap ops in let s := s_run K V id unwrap ops in
  KInv K V ceq hcode unwrap ok t /\ abs K V ceq hcode unwrap t = s /\
  len K V t = s_len K V s /\ keys K V t = s_keys K V s /\
  (forall k, ok k = true -> hash_get K V ceq hcode unwrap t k = s_lookup K V id unwrap s k) /\
  (forall k, ok k = true -> hash_get_default K V ceq hcode unwrap t k = s_lookup K V id unwrap s k) /\
  (forall pos, hpair K V ceq hcode unwrap t pos = s_pair K V s pos) /\
  (forall pos, range_pair K V ceq hcode unwrap t pos = s_pair K V s pos) /\
  (forall pos, range_key K V ceq hcode unwrap t pos = s_range_key K V s pos) /\
  json_obs K V ceq hcode unwrap t = s_json K V s /\
  loop_macro K V ceq hcode unwrap t = s_loop K V s /\ loop_infix K V ceq hcode unwrap t = s_loop K V s /\
  str_obs K V ceq hcode unwrap t = s_str K V s.
Proof. exact b_hash_is_ordered_map. Qed.
Print Assumptions generic_hash_is_ordered_map.

(* one identity everywhere, hash function respecting it on ok keys *)
Theorem generic_history_refines : forall (K V : Type) (keq : K -> K -> bool) (hcode : K -> Z) (unwrap : K -> K) (ok : K -> bool),
  (forall a, keq a a = true) -> (forall a b, keq a b = keq b a) ->
  (forall a b c, keq a b = true -> keq b c = true -> keq a c = true) ->
  (forall a b, ok a = true -> ok b = true -> keq a b = true -> hcode a = hcode b) ->
  (forall a, ok a = true -> unwrap (unwrap a) = unwrap a) -> (forall a, ok a = true -> ok (unwrap a) = true) ->
  (forall a b, keq a b = true -> unwrap a = a -> unwrap b = b) ->
  forall ops, Forall (op_ok K V ok) ops ->
  Inv K V keq hcode unwrap ok (run K V keq keq hcode unwrap ops) /\
  abs K V keq hcode unwrap (run K V keq keq hcode unwrap ops) = s_run K V keq unwrap ops.
Proof.
  intros K V keq hcode unwrap ok H1 H2 H3 H4 H5 H6 H7 ops Hok. split.
  - exact (HashTblProofs.reachable_inv K V keq hcode unwrap ok H1 H2 H3 H4 H5 H6 H7 ops Hok).
  - exact (HashTblProofs.history_refines K V keq hcode unwrap ok H1 H2 H3 H4 H5 H6 H7 ops Hok).
Qed.
Print Assumptions generic_history_refines.

(* ---- 5b. key OBJECTS (Model/HashObj.v): every call passes its own object, of ANY identity ---- *)

(* the hash over key objects is the insertion-ordered map over key objects: keys, hpair, the range
   walks hand out the object of the first insertion since the key was last absent; the identities
   are arbitrary integers (not even assumed different), the hash of non-atom keys is arbitrary *)
Theorem objects_hash_is_ordered_map : forall ah ops, Forall oop_ok ops ->
  let t := orun ah ops in let s := os_run ah ops in
  OInv ah t /\ oabs ah t = s /\
  olen t = s_len okey Z s /\ okeys t = s_keys okey Z s /\
  (forall k, okey_ok k = true -> oget ah t k = os_lookup ah s k) /\
  (forall k, okey_ok k = true -> ogetd ah t k = os_lookup ah s k) /\
  (forall pos, ohpair ah t pos = s_pair okey Z s pos) /\
  (forall pos, orange_pair ah t pos = s_pair okey Z s pos) /\
  (forall pos, orange_key ah t pos = s_range_key okey Z s pos) /\
  ojson ah t = s_json okey Z s /\ oloop_macro ah t = s_loop okey Z s /\ oloop_infix ah t = s_loop okey Z s /\
  ostr ah t = s_str okey Z s.
Proof. exact o_hash_is_ordered_map. Qed.
Print Assumptions objects_hash_is_ordered_map.

(* WHICH object carries a key influences nothing: the content (and len, keys, both lookups) of the hash
   driven with key objects is that of the hash driven with the bare keys *)
Theorem objects_irrelevant : forall ah ops, Forall oop_ok ops ->
  map erase_kv (oabs ah (orun ah ops)) = zabs ah (zrun ah (map erase_op ops)) /\
  olen (orun ah ops) = zlen (zrun ah (map erase_op ops)) /\
  map erase (okeys (orun ah ops)) = zkeys (zrun ah (map erase_op ops)) /\
  (forall k, okey_ok k = true -> oget ah (orun ah ops) k = zget ah (zrun ah (map erase_op ops)) (erase k)) /\
  (forall k, okey_ok k = true -> ogetd ah (orun ah ops) k = zgetd ah (zrun ah (map erase_op ops)) (erase k)).
Proof. exact HashObjProofs.objects_irrelevant. Qed.
Print Assumptions objects_irrelevant.

Theorem objects_irrelevant_obs : forall ah ops, Forall oop_ok ops ->
  let t := orun ah ops in let z := zrun ah (map erase_op ops) in
  (forall pos, zhpair ah z pos = omap erase_kv (ohpair ah t pos)) /\
  (forall pos, zrange_pair ah z pos = omap erase_kv (orange_pair ah t pos)) /\
  (forall pos, zrange_key ah z pos = omap erase (orange_key ah t pos)) /\
  zjson ah z = omap (fun r => (map erase_kv (fst r), map erase (snd r))) (ojson ah t) /\
  zloop_macro ah z = omap (map erase_kv) (oloop_macro ah t) /\
  zloop_infix ah z = omap (map erase_kv) (oloop_infix ah t) /\
  zstr ah z = (map erase_kv (fst (ostr ah t)), snd (ostr ah t)).
Proof. exact HashObjProofs.objects_irrelevant_obs. Qed.
Print Assumptions objects_irrelevant_obs.

Theorem identity_oblivious : forall ah ops1 ops2, Forall oop_ok ops1 ->
  map erase_op ops1 = map erase_op ops2 ->
  map erase_kv (oabs ah (orun ah ops1)) = map erase_kv (oabs ah (orun ah ops2)).
Proof. exact HashObjProofs.identity_oblivious. Qed.
Print Assumptions identity_oblivious.

Theorem spec_erase : forall ah ops, map erase_kv (os_run ah ops) = zs_run ah (map erase_op ops).
Proof. exact HashObjProofs.spec_erase. Qed.
Print Assumptions spec_erase.

(* what sits where: every KeyOrder object was passed (up to the unwrapping of [k], which yields the
   ELEMENT object) by an hset of the history; HashSet leaves the PASSED object in the bucket; for any
   key type and comparison KeyOrder changes only by appending the passed object or dropping one entry *)
Theorem keys_are_passed_objects : forall ah ops x, In x (okeys (orun ah ops)) ->
  exists k v, In (OSet k v) ops /\ x = ounwrap k.
Proof. exact o_keys_are_passed_objects. Qed.
Print Assumptions keys_are_passed_objects.

Theorem hset_stores_passed_object : forall ah t k v,
  exists b, b_find okey Z (buckets (ostep ah t (OSet k v))) (ohash ah (ounwrap k)) = Some b /\ In (ounwrap k, v) b.
Proof. exact o_hset_stores_passed_object. Qed.
Print Assumptions hset_stores_passed_object.

Theorem korder_step : forall (K V : Type) (beq keq : K -> K -> bool) (hcode : K -> Z) (unwrap : K -> K) (t : tbl K V) o,
  let t' := step K V beq keq hcode unwrap t o in
  korder t' = korder t \/
  (exists k v, o = OSet k v /\ korder t' = korder t ++ [unwrap k]) \/
  (exists k, o = ODel k /\ korder t' = remove_first (fun x => keq x (unwrap k)) (korder t)).
Proof. exact HashObjProofs.korder_step. Qed.
Print Assumptions korder_step.

(* ---- 6. the side condition that remains, and why (finding; replayed on the real code) ---- *)

(* FULL statement wanted: hash_is_ordered_map without the premise Forall zop_ok ops.
   False for the key [[a]]: HashSet unwraps it once and stores [a]; SexpString, HashPairi and
   jsonHashHelper look every stored key up through HashGet, which unwraps the stored [a] again
   (twice, since HashGetDefault now unwraps too) and searches for a. *)
Theorem nested_wrap_refuted : forall ah,
  let ops := [OSet (KWrap [AInt 1]) 4] in let t := zrun ah ops in
  zs_run ah ops = [(KArr [AInt 1], 4)] /\ zkeys t = [KArr [AInt 1]] /\ zlen t = Ok 1 /\
  zstr ah t = ([], false) /\ zhpair ah t 0 = Crash /\ zjson ah t = Crash.
Proof. exact HashTblProofs.nested_wrap_refuted. Qed.
Print Assumptions nested_wrap_refuted.

(* ---- 7. non-vacuity: histories with colliding codes and the former deviations, run inside Coq ---- *)

(* symbol number 5 and int 5 share a code and are different keys; 97 and 'a' are one key;
   every non-atom key gets code 5 too; [9] names the key 9 in hset and in hdel *)
Example collide_run :
  let ah := fun _ : key => 5 in
  let ops := [OSet (KAtom (ASym 5)) 1; OSet (KAtom (AInt 5)) 2; OSet (KArr [AInt 2; AInt 3]) 3;
              OSet (KAtom (AInt 97)) 4; OSet (KAtom (AChar 97)) 5; ODel (KAtom (ASym 5));
              OSet (KArr [AInt 9]) 6; OSet (KAtom (ASym 5)) 7; OSet (KAtom (AInt 8)) 8; ODel (KArr [AInt 8])] in
  zabs ah (zrun ah ops) =
    [(KAtom (AInt 5), 2); (KArr [AInt 2; AInt 3], 3); (KAtom (AInt 97), 5); (KAtom (AInt 9), 6); (KAtom (ASym 5), 7)]
  /\ zs_run ah ops = zabs ah (zrun ah ops)
  /\ zlen (zrun ah ops) = Ok 5
  /\ zhpair ah (zrun ah ops) 4 = Ok (KAtom (ASym 5), 7)
  /\ zgetd ah (zrun ah ops) (KArr [AInt 9]) = Some 6
  /\ Forall zop_ok ops.
Proof. cbv zeta. repeat split; try (vm_compute; reflexivity); repeat constructor. Qed.

(* the three repaired deviations: emptied hash prints with both braces; [1 97] and [1 'a'] hashed
   apart are two keys and deleting one leaves the other intact *)
Example repaired_run :
  let ah := fun k : key => match k with KArr [AInt 1; AChar 97] => 7 | _ => 5 end in
  zstr ah (zrun ah [OSet (KAtom (AInt 1)) 5; ODel (KAtom (AInt 1))]) = ([], false)
  /\ zabs ah (zrun ah [OSet (KArr [AInt 1]) 5; ODel (KArr [AInt 1])]) = []
  /\ let t := zrun ah [OSet (KArr [AInt 1; AInt 97]) 1; OSet (KArr [AInt 1; AChar 97]) 2; ODel (KArr [AInt 1; AChar 97])] in
     zkeys t = [KArr [AInt 1; AInt 97]] /\ zhpair ah t 0 = Ok (KArr [AInt 1; AInt 97], 1) /\ zlen t = Ok 1.
Proof. cbv zeta. repeat split; vm_compute; reflexivity. Qed.

(* key objects: 97 set through object 100, updated through the char object 200 (the bucket now holds
   200, KeyOrder still 100), deleted through the array form [97] (objects 300/302), set again through
   ['a'] (objects 400/402): the key list hands out the ELEMENT object 402; the int with the same code
   in another spelling and a colliding symbol stay apart *)
Example objects_run :
  let ah := fun _ : key => 5 in
  let ops1 := [OSet (OAtom 100 (AInt 97)) 1; OSet (OAtom 200 (AChar 97)) 2] in
  let ops2 := ops1 ++ [ODel (OArr 300 [(302, AInt 97)]); OSet (OAtom 400 (ASym 97)) 4; OSet (OArr 500 [(502, AChar 97)]) 5] in
  okeys (orun ah ops1) = [OAtom 100 (AInt 97)]
  /\ buckets (orun ah ops1) = [(97, [(OAtom 200 (AChar 97), 2)])]
  /\ oabs ah (orun ah ops1) = [(OAtom 100 (AInt 97), 2)]
  /\ okeys (orun ah ops2) = [OAtom 400 (ASym 97); OAtom 502 (AChar 97)]
  /\ oabs ah (orun ah ops2) = os_run ah ops2
  /\ olen (orun ah ops2) = Ok 2
  /\ ogetd ah (orun ah ops2) (OArr 0 [(0, AInt 97)]) = Some 5
  /\ Forall oop_ok ops2.
Proof. cbv zeta. repeat split; try (vm_compute; reflexivity); repeat constructor. Qed.

Example fnv32_s : fnv32 [115] = 84696428.
Proof. vm_compute. reflexivity. Qed.
