(* C15 — Macro templates expand by exact substitution.
   Model: Model/Templ.v (gen_sq mirrors generator.go GenerateSyntaxQuote + generateSyntaxQuoteList/
   Array/Hash; exec mirrors vm.go Push/Explode/Squash/Vectorize/Hashize; subst/elems is the
   independent specification over abstract template syntax).  Proofs: Proofs/TemplProofs.v.

   FULL statement (all templates t that are not a bare splice, all rho, all stacks S):
       run rho (gen_sq (reify t)) S = expected rho t S
   i.e. Done (subst t :: S) or Fail exactly when subst fails.
   It is PROVED for all templates of any depth and width over lists and arrays
   (template_subst_lists_arrays), and for templates with hashes provided no hash slot holds a
   splice (template_subst) or such splices yield at most one element (template_subst_partial).
   It is FALSE of the faithful model for a splice of >= 2 elements in a hash slot:
   hash_splice_refuted (witness replayed on the real interpreter: KNOWN_FINDINGS
   hash-splice-reversed). *)
From Coq Require Import ZArith List Bool.
Require Import ZV.Model.Templ ZV.Proofs.TemplProofs.
Import ListNotations.
Open Scope Z_scope.

(* the generalisation the induction runs on: a template standing inside a container contributes
   exactly the values [elems] says, on top of an untouched stack; a failure exactly when the
   specification fails *)
Theorem template_elems : forall rho t,
    wf t = true -> hshort rho t = true ->
    forall S, run rho (gen_sq (reify t)) S = post (elems rho t) S.
Proof. exact gen_elems. Qed.
Print Assumptions template_elems.

Theorem template_subst_lists_arrays : forall rho t S,
    wf t = true -> is_splice t = false -> no_hash t = true ->
    run rho (gen_sq (reify t)) S = expected rho t S.
Proof. exact TemplProofs.template_subst_lists_arrays. Qed.
Print Assumptions template_subst_lists_arrays.

Theorem template_subst : forall rho t S,
    wf t = true -> is_splice t = false -> slots_unspliced t = true ->
    run rho (gen_sq (reify t)) S = expected rho t S.
Proof. exact TemplProofs.template_subst. Qed.
Print Assumptions template_subst.

Theorem template_subst_partial : forall rho t S,
    wf t = true -> is_splice t = false -> hshort rho t = true ->
    run rho (gen_sq (reify t)) S = expected rho t S.
Proof. exact template_subst_short. Qed.
Print Assumptions template_subst_partial.

(* what is missing from template_subst_partial is false: *)
Theorem hash_splice_refuted :
  wf refute_t = true /\ is_splice refute_t = false /\
  subst refute_rho refute_t = Ok (VHash 9 [(VSym 5, VInt 1); (VInt 2, VInt 3)]) /\
  run refute_rho (gen_sq (reify refute_t)) [] = Done [IVal (VHash 9 [(VSym 5, VInt 3); (VInt 2, VInt 1)])].
Proof. exact TemplProofs.hash_splice_refuted. Qed.
Print Assumptions hash_splice_refuted.

(* every form the reader can hand to syntaxQuote is the representation of a well-formed
   template, so the theorem speaks about all of them *)
Theorem every_form_is_a_template : forall v, reify (view v) = v /\ wf (view v) = true.
Proof. exact view_reify. Qed.
Print Assumptions every_form_is_a_template.

Theorem syntax_quote_exact : forall rho v S,
    is_splice (view v) = false -> hshort rho (view v) = true ->
    run rho (gen_sq v) S = expected rho (view v) S.
Proof. exact TemplProofs.syntax_quote_exact. Qed.
Print Assumptions syntax_quote_exact.

(* stack discipline: the code of a template neither reads nor changes what lies below *)
Theorem template_frame : forall rho t S,
    wf t = true -> is_splice t = false -> hshort rho t = true ->
    run rho (gen_sq (reify t)) S =
    match run rho (gen_sq (reify t)) [] with Done R => Done (R ++ S) | Fail => Fail end.
Proof. exact TemplProofs.template_frame. Qed.
Print Assumptions template_frame.

(* freshness (the value model has no identities, so it is stated on the code): the generated
   code pushes no literal list, array or hash -- every container of the result is rebuilt by
   Squash / Vectorize / Hashize on every evaluation, or is the value of an unquoted expression *)
Theorem template_fresh : forall t,
    wf t = true -> forallb push_plain (gen_sq (reify t)) = true.
Proof. exact TemplProofs.template_fresh. Qed.
Print Assumptions template_fresh.

(* whatever the tail flag of the enclosing code, every unquoted expression of a template (directly
   in a list, an array or a hash, at any depth, or bare) is compiled with the tail flag off --
   the precondition of the abstraction "its code pushes exactly one value" *)
Theorem unquotes_not_tail : forall v tail b, In b (unq_tails tail v) -> b = false.
Proof. exact TemplProofs.unquotes_not_tail. Qed.
Print Assumptions unquotes_not_tail.

Example ex_tails : unq_tails true (VArr [VList [VSym sym_unquote; VSym 10]; VList [VSym sym_splice; VSym 11]]) = [false; false].
Proof. vm_compute. reflexivity. Qed.

(* the loader's comment filter (comment.go FilterAny/FilterList, run over every loaded form):
   after it no list or array, at any depth and whatever its head (syntaxQuote included), has a
   comment element; a form without comments is unchanged.  So the template the generator sees
   is the template as written, minus comments -- the runner applies [strip] to the reader's raw
   output before gen_sq and before the comparison with [reify] *)
Theorem loader_strips_comments : forall v, clean (strip v) = true.
Proof. exact strip_clean. Qed.
Print Assumptions loader_strips_comments.

Theorem loader_keeps_comment_free_forms : forall v, clean v = true -> strip v = v.
Proof. exact strip_id. Qed.
Print Assumptions loader_keeps_comment_free_forms.

Example ex_strip :
  strip (VList [VSym 40; VList [VSym 41; VOpq comment_code; VSym 20]; VOpq comment_code; VArr [VOpq comment_code]])
  = VList [VSym 40; VList [VSym 41; VSym 20]; VArr []].
Proof. vm_compute. reflexivity. Qed.

(* outside the property (a splice that is not inside a container): all elements are left *)
Theorem bare_splice_pushes_all : forall rho e S,
    run rho (gen_sq (reify (TSpl e))) S =
    match rho e with Some (VList l) => Done (push l S) | _ => Fail end.
Proof. exact TemplProofs.bare_splice_pushes_all. Qed.
Print Assumptions bare_splice_pushes_all.

(* ---- macros (modelled: GenerateCallBySymbol's macro branch with Duplicate/Apply for macros
   whose body is a template; the rest of the generator is the section variable [generate]) *)
Theorem expansion_is_substitution : forall eval_in mt dup m args,
    length args = length (m_params m) ->
    wf (m_body m) = true -> is_splice (m_body m) = false ->
    hshort (macro_rho eval_in mt dup m args) (m_body m) = true ->
    expand_in eval_in mt dup m args =
    match subst (macro_rho eval_in mt dup m args) (m_body m) with Ok v => Some v | Err => None end.
Proof. exact TemplProofs.expansion_is_substitution. Qed.
Print Assumptions expansion_is_substitution.

Theorem param_is_argument_form : forall eval_in,
    (forall mt sc s, eval_in mt sc (VSym s) = lookup s sc) ->
    forall mt dup m args p a,
    lookup p (combine (m_params m) args ++ global_of dup) = Some a ->
    elems (macro_rho eval_in mt dup m args) (TUnq (VSym p)) = Ok [a].
Proof. exact TemplProofs.param_is_argument_form. Qed.
Print Assumptions param_is_argument_form.

Theorem macro_call_is_expansion : forall eval_in gctx generate other_call macros (ctx : gctx) st s args m e,
    macros s = Some m ->
    expand_in eval_in macros (duplicate st) m args = Some e ->
    gen_call eval_in gctx generate other_call macros ctx st s args = (st, generate ctx e).
Proof. exact TemplProofs.macro_call_is_expansion. Qed.
Print Assumptions macro_call_is_expansion.

(* [eval_in macros sc e]: the duplicate evaluates the unquoted expressions with the CALLER's macro
   table (shared, not copied and not empty): macros used in argument position inside a macro
   body, macros defined later, macros defined by a body, are the caller's *)
(* the code of a macro call is the code -- in the SAME generator context ctx (scopes to leave for
   break/continue/tail jumps, Tail, funcname ..) -- of the body's template substituted with the
   argument forms and the caller's CURRENT global scope: recomputed at every call *)
Theorem macro_call_is_substitution : forall eval_in gctx generate other_call macros (ctx : gctx) st s args m,
    macros s = Some m ->
    length args = length (m_params m) ->
    wf (m_body m) = true -> is_splice (m_body m) = false ->
    hshort (macro_rho eval_in macros (duplicate st) m args) (m_body m) = true ->
    gen_call eval_in gctx generate other_call macros ctx st s args =
    (st, match subst (macro_rho eval_in macros (duplicate st) m args) (m_body m) with
         | Ok e => generate ctx e
         | Err => None
         end).
Proof. exact TemplProofs.macro_call_is_substitution. Qed.
Print Assumptions macro_call_is_substitution.

Theorem expansion_isolated : forall eval_in gctx generate other_call macros (ctx : gctx) st s args,
    fst (gen_call eval_in gctx generate other_call macros ctx st s args) = st.
Proof. exact TemplProofs.expansion_isolated. Qed.
Print Assumptions expansion_isolated.

Theorem expansion_sees_global_scope_only : forall eval_in gctx generate other_call macros (ctx : gctx) st1 st2 s args m,
    macros s = Some m -> global_of st1 = global_of st2 ->
    snd (gen_call eval_in gctx generate other_call macros ctx st1 s args) =
    snd (gen_call eval_in gctx generate other_call macros ctx st2 s args).
Proof. exact TemplProofs.expansion_sees_global_scope_only. Qed.
Print Assumptions expansion_sees_global_scope_only.

(* ---- non-vacuity *)
Definition ex_rho (e : value) : option value :=
  match e with
  | VSym 10 => Some (VInt 5)                                (* x  *)
  | VSym 11 => Some (VList [VInt 1; VInt 2; VInt 3])        (* ys *)
  | VSym 12 => Some (VList [])                              (* e  *)
  | VSym 13 => Some (VArr [VInt 1])                         (* an array: not a list *)
  | _ => None
  end.

(* ^(a ~x ~@ys b) = (a 5 1 2 3 b) below an existing operand *)
Example ex_list :
  run ex_rho (gen_sq (reify (TList [TLit (VSym 20); TUnq (VSym 10); TSpl (VSym 11); TLit (VSym 21)])))
      [IVal (VInt 77)]
  = Done [IVal (VList [VSym 20; VInt 5; VInt 1; VInt 2; VInt 3; VSym 21]); IVal (VInt 77)].
Proof. vm_compute. reflexivity. Qed.

(* ^[~@e ~@ys ~@e [~x]] : adjacent and empty splices, nesting *)
Example ex_array :
  subst ex_rho (TArr [TSpl (VSym 12); TSpl (VSym 11); TSpl (VSym 12); TArr [TUnq (VSym 10)]])
  = Ok (VArr [VInt 1; VInt 2; VInt 3; VArr [VInt 5]])
  /\ wf (TArr [TSpl (VSym 12); TSpl (VSym 11); TSpl (VSym 12); TArr [TUnq (VSym 10)]]) = true.
Proof. vm_compute. split; reflexivity. Qed.

(* splicing an array is an error, in the model and in the specification *)
Example ex_not_a_list :
  run ex_rho (gen_sq (reify (TList [TLit (VSym 20); TSpl (VSym 13)]))) [] = Fail
  /\ subst ex_rho (TList [TLit (VSym 20); TSpl (VSym 13)]) = Err.
Proof. vm_compute. split; reflexivity. Qed.

(* a hash template keeps key order and type name: {k1: ~x  k2: [~@ys]} *)
Example ex_hash :
  run ex_rho (gen_sq (reify (THash 3 [(TLit (VSym 30), TUnq (VSym 10)); (TLit (VSym 31), TArr [TSpl (VSym 11)])]))) []
  = Done [IVal (VHash 3 [(VSym 30, VInt 5); (VSym 31, VArr [VInt 1; VInt 2; VInt 3])])].
Proof. vm_compute. reflexivity. Qed.

(* (unquote a b) and (unquote) are ordinary lists *)
Example ex_near_miss :
  wf (TList [TLit (VSym sym_unquote); TLit (VSym 10); TLit (VSym 10)]) = true
  /\ wf (TList [TLit (VSym sym_unquote); TLit (VSym 10)]) = false.
Proof. vm_compute. split; reflexivity. Qed.

(* ---------------------------------------------------------------- the code generator and macro calls
   Model/MacroGen.v mirrors Generate / GenerateCallBySymbol (macro branch, self tail call, call),
   GenerateBegin, GenerateLet, GenerateNewScope, GenerateForLoop, GenerateBreak, GenerateContinue,
   GenerateCond, GenerateDef, projected onto the scope and control instructions. *)
Require Import ZV.Model.MacroGen ZV.Proofs.MacroGenProofs.

(* the code of a macro call is the code of its expansion compiled in the CALLER's generator
   context c (scope count, enclosing loops, Tail flag, function name) *)
Theorem macro_call_in_context : forall expander special n c s args ex e,
    Z.eqb s sym_begin = false -> (Z.eqb s sym_let || Z.eqb s sym_letseq) = false ->
    Z.eqb s sym_newscope = false -> Z.eqb s sym_for = false -> Z.eqb s sym_break = false ->
    Z.eqb s sym_continue = false -> Z.eqb s sym_cond = false ->
    (Z.eqb s sym_def || Z.eqb s sym_set) = false -> special s = false ->
    expander s = Some ex -> ex args = Some e ->
    gen expander special (S n) c (VList (VSym s :: args)) = gen expander special n c e.
Proof. exact MacroGenProofs.macro_call_in_context. Qed.
Print Assumptions macro_call_in_context.

(* ALL forms of the fragment, macro calls nested to any depth, any macro table, any context whose
   loops lie below its scope depth: the code restores scope depth and loop context, and every
   Break / Continue / self tail call in it -- whether written by hand or emitted from an expansion --
   pops exactly the scopes opened above its target *)
Theorem compiled_scopes_exact : forall expander special n c f code,
    ctx_ok c = true -> gen expander special n c f = Some code ->
    chk (g_scopes c, g_loops c) code = Some (g_scopes c, g_loops c).
Proof. exact gen_exact. Qed.
Print Assumptions compiled_scopes_exact.

Theorem fn_body_scopes_exact : forall expander special n fn nargs body code,
    gen_begin (gen expander special n) (fn_ctx fn nargs) body = Some code ->
    chk (0%nat, []) code = Some (0%nat, []).
Proof. exact fn_body_exact. Qed.
Print Assumptions fn_body_scopes_exact.

Theorem expansion_break_pops : forall expander special n c s args ex d L,
    Z.eqb s sym_begin = false -> (Z.eqb s sym_let || Z.eqb s sym_letseq) = false ->
    Z.eqb s sym_newscope = false -> Z.eqb s sym_for = false -> Z.eqb s sym_break = false ->
    Z.eqb s sym_continue = false -> Z.eqb s sym_cond = false ->
    (Z.eqb s sym_def || Z.eqb s sym_set) = false -> special s = false ->
    expander s = Some ex -> ex args = Some (VList [VSym sym_break]) ->
    g_loops c = d :: L ->
    gen expander special (S (S n)) c (VList (VSym s :: args)) = Some [PBreak (g_scopes c - S d)].
Proof. exact MacroGenProofs.expansion_break_pops. Qed.
Print Assumptions expansion_break_pops.

(* non-vacuity: (defmac brk0 [] ^(break)) (defmac wrap1 [x] ^(let [t 1] ~x));
   (defn f [a b] (for [i t u] (wrap1 (wrap1 (brk0)))) (f a b))
   -> LoopStart AddScope AddScope AddScope Break{2} RemoveScope RemoveScope ClearStackmark RemoveScope, tail call *)
Example ex_macro_break :
  gen_fn 50
    [(100, ([], VList [VSym sym_break]));
     (101, ([102], VList [VSym sym_let; VArr [VSym 103; VInt 1]; VList [VSym sym_unquote; VSym 102]]))]
    (fun _ => false) 200 2
    [VList [VSym sym_for; VArr [VInt 0; VInt 1; VInt 2];
            VList [VSym 101; VList [VSym 101; VList [VSym 100]]]];
     VList [VSym 200; VSym 104; VSym 105]]
  = Some [PLoop; PAdd; PAdd; PAdd; PBreak 2; PRemove; PRemove; PLoopEnd; PRemove; PTail 1 2].
Proof. vm_compute. reflexivity. Qed.

(* the checker is not trivially satisfied: a Break that pops one scope too few is rejected *)
Example ex_chk_rejects :
  chk (0%nat, []) [PLoop; PAdd; PAdd; PBreak 0; PRemove; PLoopEnd; PRemove] = None
  /\ chk (0%nat, []) [PLoop; PAdd; PAdd; PBreak 1; PRemove; PLoopEnd; PRemove] = Some (0%nat, []).
Proof. vm_compute. split; reflexivity. Qed.

(* ---------------------------------------------------------------- code with macro calls = code of the hand-expanded program
   Proofs/MacroGenExpand.v.  expand_all expander special fuel c f = the hand expansion of f: every
   macro call in a position the generator compiles is replaced by its expansion, recursively, in
   exactly the sub-forms gen recurses into (same dispatch order: a special-form name wins over a
   macro of the same name; the argument forms of a call are expanded only where they are compiled
   into this code, i.e. in a self tail call -- which is why the context c is threaded). *)
Require Import ZV.Proofs.MacroGenExpand.

(* more fuel never changes a result of the generator *)
Theorem gen_fuel_mono : forall expander special n m c f code,
    gen expander special n c f = Some code -> (n <= m)%nat ->
    gen expander special m c f = Some code.
Proof. exact MacroGenExpand.gen_fuel_mono. Qed.
Print Assumptions gen_fuel_mono.

Theorem gen_begin_fuel_mono : forall expander special n m c l code,
    gen_begin (gen expander special n) c l = Some code -> (n <= m)%nat ->
    gen_begin (gen expander special m) c l = Some code.
Proof. exact MacroGenExpand.gen_begin_fuel_mono. Qed.
Print Assumptions gen_begin_fuel_mono.

Theorem gen_all_fuel_mono : forall expander special n m c l code,
    gen_all (gen expander special n) c l = Some code -> (n <= m)%nat ->
    gen_all (gen expander special m) c l = Some code.
Proof. exact MacroGenExpand.gen_all_fuel_mono. Qed.
Print Assumptions gen_all_fuel_mono.

Theorem gen_cond_fuel_mono : forall expander special n m c l code,
    gen_cond (gen expander special n) c l = Some code -> (n <= m)%nat ->
    gen_cond (gen expander special m) c l = Some code.
Proof. exact MacroGenExpand.gen_cond_fuel_mono. Qed.
Print Assumptions gen_cond_fuel_mono.

(* single level: if the expansion of a macro call compiles to code, so does the call (any larger fuel) *)
Theorem macro_call_code : forall expander special n c s args ex e code,
    Z.eqb s sym_begin = false -> (Z.eqb s sym_let || Z.eqb s sym_letseq) = false ->
    Z.eqb s sym_newscope = false -> Z.eqb s sym_for = false -> Z.eqb s sym_break = false ->
    Z.eqb s sym_continue = false -> Z.eqb s sym_cond = false ->
    (Z.eqb s sym_def || Z.eqb s sym_set) = false -> special s = false ->
    expander s = Some ex -> ex args = Some e ->
    gen expander special n c e = Some code ->
    forall m, (n < m)%nat -> gen expander special m c (VList (VSym s :: args)) = Some code.
Proof. exact MacroGenExpand.macro_call_code. Qed.
Print Assumptions macro_call_code.

(* THE THEOREM, for every generator context c, any macro table, macro calls nested to any depth and
   expansions that call further macros: the code of a form with macro calls is the code of its hand
   expansion compiled with NO macro defined.  No side condition (a name that is both a special form
   and a macro is a special form for gen and for expand_all alike; expanders are pure functions of
   the argument forms in this model, so an expansion cannot define a macro). *)
Theorem macro_program_is_expanded_program : forall expander special k n c f f' code,
    expand_all expander special k c f = Some f' ->
    gen expander special n c f = Some code ->
    exists m, gen (fun _ => None) special m c f' = Some code.
Proof. exact MacroGenExpand.macro_program_is_expanded_program. Qed.
Print Assumptions macro_program_is_expanded_program.

(* sharper: the same fuel suffices *)
Theorem macro_program_is_expanded_program_same_fuel : forall expander special k n c f f' code,
    expand_all expander special k c f = Some f' ->
    gen expander special n c f = Some code ->
    gen (fun _ => None) special n c f' = Some code.
Proof. exact MacroGenExpand.macro_program_is_expanded_program_same_fuel. Qed.
Print Assumptions macro_program_is_expanded_program_same_fuel.

(* the premise is never the obstacle: every form the generator compiles HAS a hand expansion *)
Theorem macro_program_has_expanded_program : forall expander special n c f code,
    gen expander special n c f = Some code ->
    exists f', expand_all expander special n c f = Some f' /\
               gen (fun _ => None) special n c f' = Some code.
Proof. exact MacroGenExpand.macro_program_has_expanded_program. Qed.
Print Assumptions macro_program_has_expanded_program.

(* function bodies (GenerateFn compiles the body forms with GenerateBegin) *)
Theorem fn_body_has_expanded_body : forall expander special n c body code,
    gen_begin (gen expander special n) c body = Some code ->
    exists body', exp_begin (expand_all expander special n) c body = Some body' /\
                  gen_begin (gen (fun _ => None) special n) c body' = Some code.
Proof. exact MacroGenExpand.fn_body_has_expanded_body. Qed.
Print Assumptions fn_body_has_expanded_body.

(* non-vacuity: (defmac brk0 [] ^(break)) (defmac wrap1 [x] ^(let [t 1] ~x));
   (defn f [a b] (let [q 0] (for [0 1 2] (wrap1 (wrap1 (brk0))))) (f a b)) -- a macro call nested two
   deep inside a for inside a let.  Its hand expansion is
   (let [q 0] (for [0 1 2] (let [t 1] (let [t 1] (break))))) (f a b); both compile to
   A L A A A Break{2} R R E R R, tail call -- the second with the EMPTY macro table; the unexpanded
   body with the empty table compiles to something else (a CallExpr of wrap1). *)
Definition ex_ms : list tmacro :=
  [(100, ([], VList [VSym sym_break]));
   (101, ([102], VList [VSym sym_let; VArr [VSym 103; VInt 1]; VList [VSym sym_unquote; VSym 102]]))].
Definition ex_body : list value :=
  [VList [VSym sym_let; VArr [VSym 106; VInt 0];
          VList [VSym sym_for; VArr [VInt 0; VInt 1; VInt 2];
                 VList [VSym 101; VList [VSym 101; VList [VSym 100]]]]];
   VList [VSym 200; VSym 104; VSym 105]].
Definition ex_body_expanded : list value :=
  [VList [VSym sym_let; VArr [VSym 106; VInt 0];
          VList [VSym sym_for; VArr [VInt 0; VInt 1; VInt 2];
                 VList [VSym sym_let; VArr [VSym 103; VInt 1];
                        VList [VSym sym_let; VArr [VSym 103; VInt 1]; VList [VSym sym_break]]]]];
   VList [VSym 200; VSym 104; VSym 105]].
Definition ex_code : list pinstr :=
  [PAdd; PLoop; PAdd; PAdd; PAdd; PBreak 2; PRemove; PRemove; PLoopEnd; PRemove; PRemove; PTail 1 2].

Example ex_expanded_program :
  exp_begin (expand_all (expander_of ex_ms) (fun _ => false) 50) (fn_ctx 200 2) ex_body
    = Some ex_body_expanded
  /\ gen_fn 50 ex_ms (fun _ => false) 200 2 ex_body = Some ex_code
  /\ gen_fn 50 [] (fun _ => false) 200 2 ex_body_expanded = Some ex_code
  /\ gen_fn 50 [] (fun _ => false) 200 2 ex_body
     = Some [PAdd; PLoop; PAdd; PCall 101 1; PLoopEnd; PRemove; PRemove; PTail 1 2].
Proof. vm_compute. repeat split; reflexivity. Qed.
