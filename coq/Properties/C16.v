(* C16: lazy (#) parameters delay, memoise and stay lexical; strict ones do not.
   Statements only; proofs in Proofs/RefSemLazyProofs.v; the model is Model/RefSemLazy.v (the
   reference evaluator RefSem.v extended with lazy formals, thunk cells, force, substitute and
   the apply/map wrapping).  Every theorem is about that evaluator for ALL programs, stores
   and fuels; that the real compiler + VM compute the same observables is what the
   correspondence run of checks/c16.py establishes on generated programs (docs/C16.md).

   Store: core (frames, arrays, trace, failure counter: RefSem's store), thunks (cell table),
   touched (ghost log of the cells force/substitute were applied to).
     touch c s      = s with c logged;   add_cell s t = s with the new cell t appended
     started c s    = touch c s with c marked (ghost) as being evaluated
     finished c v s = s with the memo of cell c set to v and c no longer being evaluated
     rel c s s'     = s and s' agree on everything except the SOURCE of cell c
     clean c s      = c is not in the log of s
     kept s s'      = no cell removed, no source changed, no memo cleared, log only extended
     run_prep       = PrepareCallExprArgs as a relation (one step per position, left to right)

   Two statements asked for in the plan are FALSE of the faithful model and of the real code:
     * force_at_most_once in its unrestricted form (an argument whose own evaluation forces
       the same thunk again is evaluated twice): force_at_most_once_reentrant_refuted, a finding
       (KNOWN_FINDINGS.txt id=reentrant-force); the theorem proved instead, force_at_most_once,
       starts from a force that COMPLETED;
     * "no binding of a strict formal ever holds a thunk" as an invariant of reachable stores:
       thunks are first-class values (lazy_test.go passes #x to the strict builtin type?), so
       (h #x) binds h's strict formal to the thunk: strict_formal_may_hold_passed_thunk (intended
       behaviour, not a finding).  What is proved instead: a strict position receives exactly
       the value of its own argument expression evaluated once in the caller's environment
       (strict_position_value), apply/map hand a strict position the value they were given
       (apply_route_positions), and only lazy positions ever allocate a cell. *)
From Coq Require Import ZArith Bool List.
From ZV Require Import Model.Num Model.RefSemLazy Proofs.RefSemLazyProofs.
Import ListNotations.
Open Scope Z_scope.

(* ---- 1. a lazy argument that is never forced has no effect ---- *)

Theorem lazy_position_only_allocates : forall ev env e s,
  prep_arg ev env true e s =
  (Done (VThunk (length (thunks s))), add_cell s (mkThunk (TSrc e env) None)).
Proof. exact RefSemLazyProofs.lazy_position_only_allocates. Qed.
Print Assumptions lazy_position_only_allocates.

Theorem lazy_not_forced_no_effect : forall c n env e s s' r s1,
  rel c s s' -> eval n env e s = (r, s1) -> clean c s1 ->
  exists s1', eval n env e s' = (r, s1') /\ rel c s1 s1'.
Proof. exact RefSemLazyProofs.lazy_not_forced_no_effect. Qed.
Print Assumptions lazy_not_forced_no_effect.

Theorem lazy_not_forced_no_effect_apply : forall c n f args s s' r s1,
  rel c s s' -> apply n f args s = (r, s1) -> clean c s1 ->
  exists s1', apply n f args s' = (r, s1') /\ rel c s1 s1'.
Proof. exact RefSemLazyProofs.lazy_not_forced_no_effect_apply. Qed.
Print Assumptions lazy_not_forced_no_effect_apply.

(* every computation of the evaluator qualifies as the continuation K below *)
Theorem evaluator_is_lockstep : forall c n,
  (forall env e, sim c _ (eval n env e)) /\ (forall f args, sim c _ (apply n f args)).
Proof. intros c n. split; [apply RefSemLazyProofs.eval_sim|apply RefSemLazyProofs.apply_sim]. Qed.
Print Assumptions evaluator_is_lockstep.

Theorem lazy_arg_expression_irrelevant : forall ev env a a' s A (K : value -> M A),
  (forall v, sim (length (thunks s)) A (K v)) ->
  forall r s1, (v <- prep_arg ev env true a ;; K v) s = (r, s1) ->
  clean (length (thunks s)) s1 ->
  exists s1', (v <- prep_arg ev env true a' ;; K v) s = (r, s1') /\
              rel (length (thunks s)) s1 s1'.
Proof. exact RefSemLazyProofs.lazy_arg_expression_irrelevant. Qed.
Print Assumptions lazy_arg_expression_irrelevant.

(* ---- 2. force memoises ---- *)

Theorem force_memo_hit : forall n c s t v,
  nth_error (thunks s) c = Some t -> t_memo t = Some v ->
  apply (S n) (VPrim PForce) [VThunk c] s = (Done v, touch c s).
Proof. exact RefSemLazyProofs.force_memo_hit. Qed.
Print Assumptions force_memo_hit.

Theorem force_twice : forall n k c s v s1,
  apply (S n) (VPrim PForce) [VThunk c] s = (Done v, s1) ->
  apply (S k) (VPrim PForce) [VThunk c] s1 = (Done v, touch c s1).
Proof. exact RefSemLazyProofs.force_twice. Qed.
Print Assumptions force_twice.

Theorem evaluation_keeps_cells : forall n env e s r s1, eval n env e s = (r, s1) -> kept s s1.
Proof. exact RefSemLazyProofs.eval_keeps. Qed.
Print Assumptions evaluation_keeps_cells.

Theorem force_at_most_once : forall n c s v s1,
  apply (S n) (VPrim PForce) [VThunk c] s = (Done v, s1) ->
  forall s2, kept s1 s2 ->
  forall k, exists v', apply (S k) (VPrim PForce) [VThunk c] s2 = (Done v', touch c s2).
Proof. exact RefSemLazyProofs.force_at_most_once. Qed.
Print Assumptions force_at_most_once.

Theorem force_again_after_evaluation : forall n c s v s1 m env e r s2 k,
  apply (S n) (VPrim PForce) [VThunk c] s = (Done v, s1) ->
  eval m env e s1 = (r, s2) ->
  exists v', apply (S k) (VPrim PForce) [VThunk c] s2 = (Done v', touch c s2).
Proof. exact RefSemLazyProofs.force_again_after_evaluation. Qed.
Print Assumptions force_again_after_evaluation.

(* REFUTED in the unrestricted form "the effects of the argument occur at most once however
   often force is applied": the single lazy argument of reentrant_prog contains the only call
   of trace, and the trace has two entries (witness replayed on the real interpreter: finding
   reentrant-force) *)
Theorem force_at_most_once_reentrant_refuted :
  exists forms n, eval_program n forms = mkOutcome (Done (SvInt 107)) [[SvInt 77]; [SvInt 77]].
Proof. exists reentrant_prog, 40%nat. exact RefSemLazyProofs.reentrant_force_evaluates_twice. Qed.
Print Assumptions force_at_most_once_reentrant_refuted.

(* the unrestricted statement holds exactly up to the finding: ghost bookkeeping (gh: forcing =
   cells being evaluated, evals = one entry per started evaluation of a cell's source, reent = an
   evaluation of a cell was started while that cell was being evaluated).  In every run that is
   not re-entrant, the source of EVERY cell is evaluated at most once, however often and whenever
   it is forced, whether evaluations succeed or fail *)
Theorem force_at_most_once_unrestricted : forall n env e s r s1,
  eval n env e s = (r, s1) -> ginv s -> no_reentrant_force s1 ->
  forall c, (count_occ Nat.eq_dec (evals (gh s1)) c <= 1)%nat.
Proof. exact RefSemLazyProofs.force_at_most_once_unrestricted. Qed.
Print Assumptions force_at_most_once_unrestricted.

Theorem program_evaluates_each_argument_at_most_once : forall n failat forms r s1,
  ev_begin (eval n) [O] forms (init_store failat) = (r, s1) ->
  no_reentrant_force s1 ->
  forall c, (count_occ Nat.eq_dec (evals (gh s1)) c <= 1)%nat.
Proof. exact RefSemLazyProofs.program_evaluates_each_argument_at_most_once. Qed.
Print Assumptions program_evaluates_each_argument_at_most_once.

(* the flag is set at one place only, by exactly the re-entrant start *)
Theorem reentrant_flag_set_iff : forall c s,
  memo_of s c = None ->
  reent (gh (snd (begin_force c s))) = (reent (gh s) || existsb (Nat.eqb c) (forcing (gh s))).
Proof. exact RefSemLazyProofs.reentrant_flag_set_iff. Qed.
Print Assumptions reentrant_flag_set_iff.

(* and the side condition is necessary: the witness of the finding starts cell 0 twice, flagged *)
Example reentrant_witness_is_flagged : final_ghost 40 reentrant_prog = mkGhost [] [O; O] true.
Proof. exact RefSemLazyProofs.reentrant_prog_ghost. Qed.

(* ---- 3. force evaluates in the environment captured at the call ---- *)

Theorem force_in_caller_env : forall n c s e env r s1,
  nth_error (thunks s) c = Some (mkThunk (TSrc e env) None) -> cc [] e = true ->
  eval n env e (started c s) = (r, s1) ->
  apply (S n) (VPrim PForce) [VThunk c] s =
  match r with Done v => (Done v, finished c v s1) | _ => (r, s1) end.
Proof. exact RefSemLazyProofs.force_in_caller_env. Qed.
Print Assumptions force_in_caller_env.

(* started c s differs from s only in the ghost and the log *)
Theorem force_starts_in_the_store_at_force_time : forall c s,
  core (started c s) = core s /\ thunks (started c s) = thunks s /\ touched (started c s) = c :: touched s.
Proof. exact RefSemLazyProofs.started_same. Qed.
Print Assumptions force_starts_in_the_store_at_force_time.

(* a lazy argument that is a plain variable: forcing it is the LEXICAL look-up along the static
   chain captured at the call, never a look-up along the chain of callers *)
Theorem force_variable_is_lexical_lookup : forall n c s x env,
  nth_error (thunks s) c = Some (mkThunk (TSrc (EVar x) env) None) ->
  apply (S (S n)) (VPrim PForce) [VThunk c] s =
  match lookup_chain (frames (core s)) env x with
  | Some (_, v) => (Done v, finished c v (started c s))
  | None => (Sig (SErr EUnbound), started c s)
  end.
Proof. exact RefSemLazyProofs.force_variable_is_lexical_lookup. Qed.
Print Assumptions force_variable_is_lexical_lookup.

Theorem force_uncompilable : forall n c s e env,
  nth_error (thunks s) c = Some (mkThunk (TSrc e env) None) -> cc [] e = false ->
  apply (S n) (VPrim PForce) [VThunk c] s = (Sig (SErr ELoop), touch c s).
Proof. exact RefSemLazyProofs.force_uncompilable. Qed.
Print Assumptions force_uncompilable.

Theorem force_non_thunk : forall n v s, (forall c, v <> VThunk c) ->
  apply (S n) (VPrim PForce) [v] s = (Done v, s).
Proof. exact RefSemLazyProofs.force_non_thunk. Qed.
Print Assumptions force_non_thunk.

(* ---- 4. substitute ---- *)

Theorem substitute_returns_source : forall n c s t e env d,
  nth_error (thunks s) c = Some t -> t_src t = TSrc e env -> expr_datum e = Some d ->
  apply (S n) (VPrim PSubst) [VThunk c] s = (Done d, touch c s).
Proof. exact RefSemLazyProofs.substitute_returns_source. Qed.
Print Assumptions substitute_returns_source.

Theorem substitute_value_thunk : forall n c s t v,
  nth_error (thunks s) c = Some t -> t_src t = TVal v ->
  apply (S n) (VPrim PSubst) [VThunk c] s = (Done v, touch c s).
Proof. exact RefSemLazyProofs.substitute_value_thunk. Qed.
Print Assumptions substitute_value_thunk.

(* ---- 5. strict positions ---- *)

Theorem prep_args_iff_run_prep : forall ev env es flags s vs s',
  prep_args ev env flags es s = (Done vs, s') <-> run_prep ev env flags es s vs s'.
Proof. exact RefSemLazyProofs.prep_args_iff_run_prep. Qed.
Print Assumptions prep_args_iff_run_prep.

Theorem strict_args_once_ltr : forall n env f args s fv s1 vs s2 r s3,
  (match f with EVar _ => true | _ => cc [] f end) = true ->
  eval n env f s = (Done fv, s1) -> is_fn fv = true ->
  run_prep (eval n) env (lazy_flags fv) args s1 vs s2 ->
  apply n fv vs s2 = (r, s3) ->
  eval (S n) env (ECall f args) s = (r, s3) /\
  exists tc ta tb, trace (core s1) = tc ++ trace (core s) /\
                   trace (core s2) = ta ++ tc ++ trace (core s) /\
                   trace (core s3) = tb ++ ta ++ tc ++ trace (core s).
Proof. exact RefSemLazyProofs.strict_args_once_ltr. Qed.
Print Assumptions strict_args_once_ltr.

Theorem strict_position_value : forall ev env flags es s vs s',
  run_prep ev env flags es s vs s' ->
  forall i e, nth_error es i = Some e -> nth i flags false = false ->
  exists si v si', cc [] e = true /\ ev env e si = (Done v, si') /\ nth_error vs i = Some v.
Proof. exact RefSemLazyProofs.strict_position_value. Qed.
Print Assumptions strict_position_value.

Theorem lazy_position_value : forall ev env flags es s vs s',
  run_prep ev env flags es s vs s' ->
  forall i e, nth_error es i = Some e -> nth i flags false = true ->
  exists c, nth_error vs i = Some (VThunk c).
Proof. exact RefSemLazyProofs.lazy_position_value. Qed.
Print Assumptions lazy_position_value.

(* the call expression, any argument position, any way of naming the callee: the argument standing
   in a lazy position whose cell is never forced / substituted is irrelevant *)
Theorem call_lazy_arg_irrelevant : forall n env f args1 a a' args2 s fv s1 vs1 sa r s3,
  (match f with EVar _ => true | _ => cc [] f end) = true ->
  eval n env f s = (Done fv, s1) ->
  nth (length args1) (lazy_flags fv) false = true ->
  prep_args (eval n) env (lazy_flags fv) args1 s1 = (Done vs1, sa) ->
  eval (S n) env (ECall f (args1 ++ a :: args2)) s = (r, s3) ->
  clean (length (thunks sa)) s3 ->
  exists s3', eval (S n) env (ECall f (args1 ++ a' :: args2)) s = (r, s3') /\
              rel (length (thunks sa)) s3 s3'.
Proof. exact RefSemLazyProofs.call_lazy_arg_irrelevant. Qed.
Print Assumptions call_lazy_arg_irrelevant.

(* ... and the effects of every strict argument occur exactly once, in order, after the callee's
   and before the body's: the trace of the call is  body ++ segments(last..first) ++ callee ++ before,
   one segment per position: the extension made by the single evaluation of that argument (strict)
   or nothing (lazy) *)
Theorem call_strict_args_exactly_once_before_body : forall n env f args s fv s1 vs s2 r s3,
  (match f with EVar _ => true | _ => cc [] f end) = true ->
  eval n env f s = (Done fv, s1) -> is_fn fv = true ->
  run_prep (eval n) env (lazy_flags fv) args s1 vs s2 ->
  apply n fv vs s2 = (r, s3) ->
  eval (S n) env (ECall f args) s = (r, s3) /\
  exists tc segs tb,
    length segs = length args /\
    trace (core s1) = tc ++ trace (core s) /\
    trace (core s3) = tb ++ concat (rev segs) ++ tc ++ trace (core s) /\
    forall i e, nth_error args i = Some e ->
      (nth i (lazy_flags fv) false = true -> nth i segs [] = []) /\
      (nth i (lazy_flags fv) false = false ->
         exists si v si', eval n env e si = (Done v, si') /\ nth_error vs i = Some v /\
                          trace (core si') = nth i segs [] ++ trace (core si)).
Proof. exact RefSemLazyProofs.call_strict_args_exactly_once_before_body. Qed.
Print Assumptions call_strict_args_exactly_once_before_body.

(* apply / map routes: the route evaluates nothing between the arrival of the values and the body;
   the values themselves (elements of an array literal) are evaluated once each, left to right *)
Theorem apply_map_route_sequence : forall ap f vs s ws s1 r s2,
  wrap_args (lazy_flags f) vs s = (Done ws, s1) ->
  ap f ws s1 = (r, s2) ->
  ap_values ap f vs s = (r, s2) /\ core s1 = core s /\ touched s1 = touched s /\
  (forall i, nth i (lazy_flags f) false = false -> nth_error ws i = nth_error vs i).
Proof. exact RefSemLazyProofs.apply_map_route_sequence. Qed.
Print Assumptions apply_map_route_sequence.

Theorem ev_list_iff_run_list : forall ev env es s vs s',
  ev_list ev env es s = (Done vs, s') <-> run_list ev env es s vs s'.
Proof. exact RefSemLazyProofs.ev_list_iff_run_list. Qed.
Print Assumptions ev_list_iff_run_list.

(* apply / map (environment.go:Apply): nothing is evaluated; a strict position keeps the value
   it was given, a lazy one gets a fresh, already forced cell *)
Theorem apply_route_positions : forall vs flags s ws s',
  wrap_args flags vs s = (Done ws, s') ->
  core s' = core s /\ touched s' = touched s /\ length ws = length vs /\
  (forall i, nth i flags false = false -> nth_error ws i = nth_error vs i) /\
  (forall i v, nth i flags false = true -> nth_error vs i = Some v ->
     exists c, nth_error ws i = Some (VThunk c) /\ (length (thunks s) <= c)%nat).
Proof. exact RefSemLazyProofs.wrap_args_spec. Qed.
Print Assumptions apply_route_positions.

Theorem apply_route_cell_is_forced : forall v s,
  wrap_arg true v s =
  (Done (VThunk (length (thunks s))), add_cell s (mkThunk (TVal v) (Some v))).
Proof. exact RefSemLazyProofs.wrap_arg_forced. Qed.
Print Assumptions apply_route_cell_is_forced.

Theorem formals_bound_positionally : forall ps args acc binds,
  zip_params ps None args acc = Some binds ->
  length ps = length args /\ binds = rev (combine ps args) ++ acc.
Proof. exact RefSemLazyProofs.zip_params_spec. Qed.
Print Assumptions formals_bound_positionally.

Theorem variadic_tail_is_strict : forall ps r args acc binds,
  zip_params ps (Some r) args acc = Some binds ->
  (length ps <= length args)%nat /\
  binds = (r, list_val (skipn (length ps) args)) :: rev (combine ps (firstn (length ps) args)) ++ acc.
Proof. exact RefSemLazyProofs.zip_params_rest_spec. Qed.
Print Assumptions variadic_tail_is_strict.

(* the naive invariant is false by design: a thunk handed on explicitly is a value *)
Example strict_formal_may_hold_passed_thunk :
  eval_program 40 passed_thunk_prog = mkOutcome (Done SvThunk) [].
Proof. exact RefSemLazyProofs.passed_thunk_reaches_strict_formal. Qed.

(* ---- non-vacuity: lazy_test.go on the model ---- *)

Example memo_once : eval_program 40 memo_prog = mkOutcome (Done (SvPair (SvInt 2) (SvPair (SvInt 1) SvNil))) [].
Proof. exact RefSemLazyProofs.memo_prog_outcome. Qed.
Example forced_in_caller_env : eval_program 40 caller_env_prog = mkOutcome (Done (SvInt 8)) [].
Proof. exact RefSemLazyProofs.caller_env_prog_outcome. Qed.
Example mixed_strict_lazy : eval_program 40 mixed_prog = mkOutcome (Done (SvInt 4)) [[SvInt 1]; [SvInt 3]].
Proof. exact RefSemLazyProofs.mixed_prog_outcome. Qed.

(* ---- 9. the self tail call route (generator.go:GenerateCallBySymbol, GenerateCallArgsForFunction,
        vm.go:PushLazyArgInstr), modelled apart from the evaluator: tail_prep_args / self_tail_call /
        call_by_symbol.  When the function known under the name is the function being run, the
        compile-time route hands the body exactly what the ordinary call route
        (CallExprInstr -> PrepareCallExprArgs) would: same values, same cells, same store.
        strict_cc = the strict arguments compiled as part of the enclosing unit. ---- *)

Theorem self_tail_args_eq_call_args : forall ev env es flags s,
  strict_cc flags es = true ->
  tail_prep_args ev env flags es s = prep_args ev env flags es s.
Proof. exact RefSemLazyProofs.tail_prep_args_eq. Qed.
Print Assumptions self_tail_args_eq_call_args.

Theorem self_tail_route_is_call_route : forall ev ap env x fv args s,
  ev env (EVar x) s = (Done fv, s) ->
  (exists nm ps rest body cenv, fv = VClos nm ps rest body cenv) ->
  strict_cc (lazy_flags fv) args = true ->
  call_by_symbol ev ap env x fv fv args s = call_expr ev ap env (EVar x) args s.
Proof. exact RefSemLazyProofs.call_by_symbol_is_call_route. Qed.
Print Assumptions self_tail_route_is_call_route.

(* the finding tail-known-fn in the model of the route: known <> self hands a strict formal a thunk *)
Example self_tail_known_mismatch_hands_strict_formal_a_thunk :
  let known := VClos (Some 1001) [(1002, true)] None [EInt 0] [O] in
  let self := VClos (Some 1001) [(1003, false)] None [EVar 1003] [O] in
  fst (self_tail_call (eval 10) (apply 10) [O] known self [pcall PTrace [EInt 1]] (init_store 0))
  = Done (VThunk 0).
Proof. exact RefSemLazyProofs.self_tail_known_mismatch. Qed.

(* ---- 10. a lazy formal passed on, (g #x) or the self tail call (f #x ..): the symbol is wrapped
        again.  rewrap_chain s [ck; ..; c1] v0: cell ci holds (a variable xi, a chain envi), not yet
        forced, and the lexical look-up of xi gives the thunk c(i-1) (v0 for c1), cells distinct.
        For ANY number k of re-wrappings: k nested forces give back v0, the core store (frames,
        arrays, TRACE, failure counter) is unchanged -- nothing of the original argument was
        evaluated -- and every cell outside the chain is as it was; the original argument is
        then evaluated by its own force, in ITS captured chain (force_in_caller_env). ---- *)

Theorem force_through_rewrapped : forall n cs s v0,
  rewrap_chain s cs v0 ->
  exists s', force_n (S (S n)) (length cs) (chain_head cs v0) s = (Done v0, s') /\
             core s' = core s /\
             (forall c, ~ In c cs -> nth_error (thunks s') c = nth_error (thunks s) c).
Proof. exact RefSemLazyProofs.force_through_rewrapped. Qed.
Print Assumptions force_through_rewrapped.

Theorem passed_on_argument_forced_in_original_env : forall n m cs s c0 e env0,
  rewrap_chain s cs (VThunk c0) -> ~ In c0 cs ->
  nth_error (thunks s) c0 = Some (mkThunk (TSrc e env0) None) -> cc [] e = true ->
  exists s', force_n (S (S n)) (length cs) (chain_head cs (VThunk c0)) s = (Done (VThunk c0), s') /\
             core s' = core s /\
             forall r s1, eval m env0 e (started c0 s') = (r, s1) ->
               apply (S m) (VPrim PForce) [VThunk c0] s' =
               match r with Done v => (Done v, finished c0 v s1) | _ => (r, s1) end.
Proof. exact RefSemLazyProofs.passed_on_argument_forced_in_original_env. Qed.
Print Assumptions passed_on_argument_forced_in_original_env.

Example formal_passed_on_twice_three_forces :
  eval_program 60 (pass_on_prog 3) = mkOutcome (Done (SvPair (SvSym 1002) (SvPair (SvInt 6) SvNil))) [[SvInt 6]].
Proof. exact RefSemLazyProofs.pass_on_prog_three_forces. Qed.
Example formal_passed_on_twice_one_force_is_a_thunk :
  eval_program 60 (pass_on_prog 1) = mkOutcome (Done (SvPair (SvSym 1002) (SvPair SvThunk SvNil))) [].
Proof. exact RefSemLazyProofs.pass_on_prog_one_force. Qed.

(* ---- 11. a bare variable: only the frames of the captured chain matter (whoever forces, from
        whatever call chain, with whatever other frames), and the innermost binding of the chain
        wins over an outer / global one of the same name ---- *)

Theorem force_variable_ignores_dynamic_context : forall n c s s' x env,
  nth_error (thunks s) c = Some (mkThunk (TSrc (EVar x) env) None) ->
  nth_error (thunks s') c = Some (mkThunk (TSrc (EVar x) env) None) ->
  (forall f, In f env -> nth_error (frames (core s)) f = nth_error (frames (core s')) f) ->
  fst (apply (S (S n)) (VPrim PForce) [VThunk c] s) = fst (apply (S (S n)) (VPrim PForce) [VThunk c] s').
Proof. exact RefSemLazyProofs.force_variable_ignores_dynamic_context. Qed.
Print Assumptions force_variable_ignores_dynamic_context.

Theorem force_variable_innermost_binding : forall n c s x f env fr v,
  nth_error (thunks s) c = Some (mkThunk (TSrc (EVar x) (f :: env)) None) ->
  nth_error (frames (core s)) f = Some fr -> assoc x fr = Some v ->
  fst (apply (S (S n)) (VPrim PForce) [VThunk c] s) = Done v.
Proof. exact RefSemLazyProofs.force_variable_innermost_binding. Qed.
Print Assumptions force_variable_innermost_binding.

Example global_not_the_formal_of_the_callers_caller :
  eval_program 40 lexical_var_prog = mkOutcome (Done (SvInt 7)) [].
Proof. exact RefSemLazyProofs.lexical_var_prog_outcome. Qed.

(* ---- 12. the source survives: substitute after ANY evaluation, in particular after forces of
        the same cell (successful or failed), still returns the source expression as data ---- *)

Theorem substitute_after_evaluation : forall n k c s t e env d env0 e0 r s1,
  nth_error (thunks s) c = Some t -> t_src t = TSrc e env -> expr_datum e = Some d ->
  eval n env0 e0 s = (r, s1) ->
  apply (S k) (VPrim PSubst) [VThunk c] s1 = (Done d, touch c s1).
Proof. exact RefSemLazyProofs.substitute_after_evaluation. Qed.
Print Assumptions substitute_after_evaluation.

Theorem substitute_after_force : forall n k c s t e env d r s1,
  nth_error (thunks s) c = Some t -> t_src t = TSrc e env -> expr_datum e = Some d ->
  apply n (VPrim PForce) [VThunk c] s = (r, s1) ->
  apply (S k) (VPrim PSubst) [VThunk c] s1 = (Done d, touch c s1).
Proof. exact RefSemLazyProofs.substitute_after_force. Qed.
Print Assumptions substitute_after_force.

(* ---- 13. conservativity at the call mechanism: the evaluator with lazy formals differs from the
        evaluator without (RefSem.v) in prep_args, wrap_args and the builtins force / substitute only.
        For a function WITHOUT lazy formals these are the plain mechanism: every argument is a
        compile unit of its own evaluated left to right (strict_unit ev = cc check + ev), apply / map
        hand the values over as they are, and the call mechanism allocates no cell. ---- *)

Theorem strict_function_call_is_plain : forall ev env es flags s,
  forallb negb flags = true ->
  prep_args ev env flags es s = ev_list (strict_unit ev) env es s.
Proof. exact RefSemLazyProofs.strict_function_call_is_plain. Qed.
Print Assumptions strict_function_call_is_plain.

Theorem strict_function_apply_is_plain : forall ap f vs s,
  forallb negb (lazy_flags f) = true -> ap_values ap f vs s = ap f vs s.
Proof. exact RefSemLazyProofs.strict_function_apply_is_plain. Qed.
Print Assumptions strict_function_apply_is_plain.

Theorem strict_function_call_allocates_nothing : forall ev env es flags s,
  forallb negb flags = true ->
  (forall env e s r s1, ev env e s = (r, s1) -> thunks s1 = thunks s) ->
  forall r s1, prep_args ev env flags es s = (r, s1) -> thunks s1 = thunks s.
Proof. exact RefSemLazyProofs.strict_function_call_allocates_nothing. Qed.
Print Assumptions strict_function_call_allocates_nothing.
