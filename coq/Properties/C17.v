(* C17 - declared struct types are enforced on every write: final statements.
   invb st: every instance holding a definition has only symbol keys declared in THAT definition (the one
   it was created with) and every value conforms to the declared type (spec_conforms: nil always, the
   empty slice exactly for slice types, otherwise the type equals the declared one; an instance value is
   typed by the definition it was created with, slices and pointers by element name).
   clean st o excludes exactly the situations of the listed findings: an instance value created under another definition than its name has now / derefSet
   between two definitions (instance-type-by-name), a target without definition (late-adoption), and
   re-binding an existing variable.  Each exclusion is shown necessary by a refuted statement below. *)
From Coq Require Import List ZArith Bool.
Import ListNotations.
Require Import ZV.Model.Struct ZV.Model.StructExact ZV.Proofs.StructProofs ZV.Proofs.StructRefine.
Require Import ZV.Proofs.StructConverse ZV.Generated.WriteRoutes ZV.Proofs.StructRoutes.

(* the invariant holds initially and is preserved by EVERY operation (declaration and redeclaration,
   construction, every write route, deletion, derefSet, decode) *)
Theorem C17_initial : invb init_state = true.
Proof. reflexivity. Qed.
Print Assumptions C17_initial.

Theorem C17_step_preserves_inv : forall st o,
  invb st = true -> clean st o = true -> invb (snd (step st o)) = true.
Proof. exact step_preserves_inv. Qed.
Print Assumptions C17_step_preserves_inv.

(* hence for every history, redeclarations in between included *)
Theorem C17_reachable_inv : forall h,
  clean_run init_state h = true -> invb (run init_state h) = true.
Proof. exact reachable_inv_init. Qed.
Print Assumptions C17_reachable_inv.

(* instances keep the definition that was in force when they were created *)
Theorem C17_keeps_creation_defn : forall st o,
  invb st = true -> clean st o = true ->
  forall id i, alookup id (st_store st) = Some i ->
  exists i', alookup id (st_store (snd (step st o))) = Some i' /\ i_tname i' = i_tname i /\
             re_gen (i_fac i') = re_gen (i_fac i).
Proof. exact keeps_creation_defn. Qed.
Print Assumptions C17_keeps_creation_defn.

(* a rejected operation leaves every instance unchanged *)
Theorem C17_rejected_write_unchanged : forall st o,
  clean st o = true -> fst (step st o) <> OK -> st_store (snd (step st o)) = st_store st.
Proof. exact rejected_write_unchanged. Qed.
Print Assumptions C17_rejected_write_unchanged.

(* an accepted write, through any route, sets exactly that field of exactly that instance *)
Theorem C17_accepted_write_sets : forall st r id k v st',
  step st (Write r id k v) = (OK, st') ->
  exists i i', alookup id (st_store st) = Some i /\ alookup id (st_store st') = Some i' /\
    flookup k (i_fields i') = Some v /\
    (forall k', key_eqb k' k = false -> flookup k' (i_fields i') = flookup k' (i_fields i)) /\
    i_tname i' = i_tname i /\
    (forall id', id' <> id -> alookup id' (st_store st') = alookup id' (st_store st)) /\
    st_reg st' = st_reg st.
Proof. exact accepted_write_sets. Qed.
Print Assumptions C17_accepted_write_sets.

(* an accepted check of a clean value means conformance to the declared type (TypeCheckField vs the rule);
   wf_ty: declared types never mention the generic slice type, which no type expression denotes -
   invb carries that for every registry entry and every instance's definition *)
Theorem C17_check_value_conforms : forall st dt v,
  value_clean st v = true -> wf_ty dt = true -> check_value st dt v = VOk -> spec_conforms st v dt = true.
Proof. exact check_value_conforms. Qed.
Print Assumptions C17_check_value_conforms.

(* the model of the code refines the specification: whatever the code accepts, spec_step accepts, with
   the same resulting state (what the code rejects leaves the store unchanged, above) *)
Theorem C17_model_refines_spec : forall st o,
  invb st = true -> clean st o = true ->
  fst (step st o) = OK -> spec_step st o = (SOk, snd (step st o)).
Proof. exact model_refines_spec. Qed.
Print Assumptions C17_model_refines_spec.

(* for every clean history: following the specification whenever the code accepts ends in the code's state *)
Theorem C17_history_refines : forall h st,
  invb st = true -> clean_run st h = true -> fold_left spec_follow h st = run st h.
Proof. exact history_refines. Qed.
Print Assumptions C17_history_refines.

(* value expressions that are not literals (concat onto the empty prefix of a stored, typed array): the value
   is the plain array of the new elements - it carries nothing of the array it was derived from -, and a failing
   expression makes the step an error *)
Theorem C17_derived_array_is_plain : forall st j f l v,
  eval_vexpr st (EConcatEmpty j f l) = Some v -> v = VArr l.
Proof. exact resolve_concat_is_plain_array. Qed.
Print Assumptions C17_derived_array_is_plain.
Theorem C17_failed_expression_is_error : forall st e,
  eval_vexpr st e = None -> value_ok st (resolve st e) = false.
Proof. exact resolve_failure_is_error. Qed.
Print Assumptions C17_failed_expression_is_error.

(* ---------- the unrestricted statement is FALSE of the code: witnesses (replayed on the real
   interpreter by the harness's fixed scenarios; KNOWN_FINDINGS.txt) ---------- *)
Definition int64_t := TEBase BInt64.
Definition string_t := TEBase BString.

(* old instance accepted in a field declared with the new definition of the same name *)
Theorem C17_stale_instance_refuted : exists h, invb (run init_state h) = false.
Proof.
  exists [Declare 0 [(0, int64_t)]; Construct 0 0 [(KSym 0, VInt 1)]; Declare 0 [(0, string_t)];
          Declare 1 [(0, TEStruct 0)]; Construct 1 1 [(KSym 0, VInst 0)]].
  vm_compute. reflexivity.
Qed.
Print Assumptions C17_stale_instance_refuted.

(* derefSet replaces an instance of the old definition by one of the new definition *)
Theorem C17_derefset_changes_defn_refuted : exists h i i',
  alookup 0 (st_store (run init_state h)) = Some i /\
  alookup 0 (st_store (run init_state (h ++ [DerefSet 0 (VInst 1)]))) = Some i' /\
  re_gen (i_fac i') <> re_gen (i_fac i).
Proof.
  exists [Declare 0 [(0, int64_t)]; Construct 0 0 [(KSym 0, VInt 1)]; Declare 0 [(0, string_t)];
          Construct 1 0 [(KSym 0, VStr 1)]].
  eexists. eexists. split; [vm_compute; reflexivity|]. split; [vm_compute; reflexivity|].
  simpl. discriminate.
Qed.
Print Assumptions C17_derefset_changes_defn_refuted.

(* a record decoded before the declaration adopts the later definition and keeps its unchecked field *)
Theorem C17_late_adoption_refuted : exists h, invb (run init_state h) = false.
Proof.
  exists [Decode false 0 0 [(0, VStr 1)]; Declare 0 [(0, int64_t); (1, string_t)];
          Write RHset 0 (KSym 1) (VStr 2)].
  vm_compute. reflexivity.
Qed.
Print Assumptions C17_late_adoption_refuted.

(* ---------- non-vacuity: a clean history with redeclaration in between, every route, nil, the empty
   slice, arrays, pointers, another struct's instance; rejected and accepted writes ---------- *)
Definition demo : list op :=
  [ Declare 0 [(0, int64_t); (1, string_t); (2, TESlice int64_t); (3, TEPtr (TEStruct 0))];
    Construct 0 0 [(KSym 0, VInt 4); (KSym 1, VStr 1)];
    Write RHset 0 (KSym 0) (VInt 5);
    Write RHset 0 (KSym 0) (VStr 2);                (* rejected *)
    Write RDot 0 (KSym 2) (VArr []);
    Write RInfix 0 (KSym 2) (VArr [VInt 1; VStr 2]); (* typed by its first element *)
    Write RSel 0 (KSym 3) (VPtr 0);
    Write RHset 0 (KSym 1) VNil;
    Write RDot 0 (KSym 5) (VInt 1);                  (* undeclared: rejected *)
    Declare 0 [(0, string_t)];                      (* redeclaration *)
    Write RHset 0 (KSym 0) (VInt 6);                 (* still the old definition *)
    Write RHset 0 (KSym 0) (VStr 6);                 (* rejected *)
    Construct 1 0 [(KSym 0, VStr 7)];
    Declare 1 [(0, TEStruct 0); (1, TESlice (TEStruct 0))];
    Construct 2 1 [(KSym 0, VInst 1); (KSym 1, VArr [VInst 1])];
    Nested 2 0 0 (VStr 8);
    Nested 2 0 0 (VInt 8);                          (* rejected *)
    Delete 0 (KSym 1);
    Decode true 3 0 [(0, VStr 1)];
    Decode true 4 0 [(0, VInt 1)];                  (* rejected *)
    DerefSet 1 (VInst 3) ].

Example demo_clean : clean_run init_state demo = true.
Proof. vm_compute. reflexivity. Qed.
Example demo_inv : invb (run init_state demo) = true.
Proof. vm_compute. reflexivity. Qed.
Example demo_outcomes :
  map (fun k => fst (step (run init_state (firstn k demo)) (nth k demo (Delete 0 (KSym 0)))))
      [2; 3; 5; 8; 10; 11; 15; 16; 18; 19; 20]
  = [OK; ERR; OK; ERR; OK; ERR; OK; ERR; OK; ERR; OK].
Proof. vm_compute. reflexivity. Qed.
(* the old instance really keeps the int64 field after the redeclaration, the new one has a string *)
Example demo_fields :
  match alookup 0 (st_store (run init_state demo)), alookup 1 (st_store (run init_state demo)) with
  | Some a, Some b => (flookup (KSym 0) (i_fields a), flookup (KSym 0) (i_fields b))
  | _, _ => (None, None)
  end = (Some (VInt 6), Some (VStr 1)).
Proof. vm_compute. reflexivity. Qed.

(* a key that is not a symbol is rejected for an instance of a declared struct (since 01960ee), on every route *)
Example nonsymbol_key_rejected :
  let h := [Declare 0 [(0, int64_t)]; Construct 0 0 [(KSym 0, VInt 1)]] in
  fst (step (run init_state h) (Write RHset 0 (KInt 5) (VInt 6))) = ERR /\
  fst (step (run init_state h) (Write RIdx 0 (KStr 1) (VInt 6))) = ERR /\
  fst (step (run init_state h) (Construct 1 0 [(KInt 5, VInt 6)])) = ERR /\
  clean (run init_state h) (Write RHset 0 (KInt 5) (VInt 6)) = true.
Proof. vm_compute. repeat split; reflexivity. Qed.

(* derefSet through a pointer made BEFORE a redeclaration is rejected (the pointed-to type is the old object),
   and index-style writes (key wrapped in a one-element array) are checked like plain symbol keys *)
Example old_pointer_rejected :
  let h := [Declare 0 [(0, int64_t)]; Construct 0 0 [(KSym 0, VInt 1)]; TakePtr 0 0;
            Declare 0 [(1, string_t)]; Construct 1 0 [(KSym 1, VStr 1)]] in
  fst (step (run init_state h) (DerefSetP 0 (VInst 1))) = ERR /\
  fst (step (run init_state h) (Write RIdx 0 (KSym 0) (VStr 2))) = ERR /\
  fst (step (run init_state h) (Write RIdx 0 (KSym 3) (VInt 2))) = ERR /\
  fst (step (run init_state h) (Write RIdx 0 (KSym 0) (VInt 2))) = OK.
Proof. vm_compute. repeat split; reflexivity. Qed.

(* ====================================================================================== *)
(* Round 6: the CONVERSE direction, and the census of write routes.                        *)
(* ====================================================================================== *)
(* exact_dom st o (Model/StructExact.v): every value written is typeful (no array whose first-element spine
   reaches a plain hash / a record of a never-declared name - SexpArray.Type gives those the generic type "[]" -
   and no instance whose type name is unregistered), and a derefSet through a kept pointer uses a pointer whose
   captured type object is still the current one.  On this domain TypeCheckField accepts EXACTLY what the
   written rule accepts, and code and specification accept exactly the same operations with the same result. *)
Theorem C17_check_value_exact : forall st dt v,
  value_clean st v = true -> typeful st v = true -> wf_ty dt = true ->
  (check_value st dt v = VOk <-> spec_conforms st v dt = true).
Proof. exact check_value_exact. Qed.
Print Assumptions C17_check_value_exact.

Theorem C17_spec_refines_model : forall st o,
  invb st = true -> clean st o = true -> exact_dom st o = true ->
  fst (spec_step st o) = SOk -> step st o = (OK, snd (spec_step st o)).
Proof. exact spec_refines_model. Qed.
Print Assumptions C17_spec_refines_model.

Theorem C17_accept_iff : forall st o,
  invb st = true -> clean st o = true -> exact_dom st o = true ->
  (fst (step st o) = OK <-> fst (spec_step st o) = SOk).
Proof. exact accept_iff. Qed.
Print Assumptions C17_accept_iff.

(* outside exact_dom the code is STRICTER than the specification (never laxer: C17_model_refines_spec):
   a pointer taken before a redeclaration no longer accepts an instance of the very definition its target has *)
Example C17_code_stricter_stale_pointer :
  let h := [Declare 0 [(0, TEBase BInt64)]; Construct 0 0 [(KSym 0, VInt 1)]; Construct 1 0 [(KSym 0, VInt 2)];
            TakePtr 0 0; Declare 0 [(1, TEBase BString)]] in
  let st := run init_state h in
  invb st = true /\ clean st (DerefSetP 0 (VInst 1)) = true /\ exact_dom st (DerefSetP 0 (VInst 1)) = false /\
  fst (spec_step st (DerefSetP 0 (VInst 1))) = SOk /\ fst (step st (DerefSetP 0 (VInst 1))) = ERR.
Proof. vm_compute. repeat split; reflexivity. Qed.
(* ... and an array of plain hashes is typed "[]" by the code, "[]hash" by the specification *)
Example C17_code_stricter_typeless_array :
  let h := [Declare 0 [(0, TESlice (TEBase BHash))]; Construct 0 0 []] in
  let st := run init_state h in
  let o := Write RHset 0 (KSym 0) (VArr [VHash]) in
  invb st = true /\ clean st o = true /\ exact_dom st o = false /\
  fst (spec_step st o) = SOk /\ fst (step st o) = ERR.
Proof. vm_compute. repeat split; reflexivity. Qed.
(* non-vacuity: the demo history lies in the exact domain at every step *)
Example demo_exact :
  forallb (fun k => exact_dom (run init_state (firstn k demo)) (nth k demo (Delete 0 (KSym 0)))) (seq 0 (length demo)) = true.
Proof. vm_compute. reflexivity. Qed.

(* HashSet's store discipline in the model: a field is stored only after TypeCheckField accepted it (or, for a
   record WITHOUT definition, answered KeyNotSymbol); a refused HashSet leaves the fields alone; and every write
   route of the model stores through hash_set *)
Theorem C17_store_only_after_check : forall st i k v i',
  hash_set st i k v = (VOk, i') ->
  i_fields i' = fset k v (i_fields i) /\
  (fst (type_check_field st i k v) = VOk \/
   (fst (type_check_field st i k v) = VNotSym /\ re_defn (i_fac i') = None)).
Proof. exact hash_set_store_checked. Qed.
Print Assumptions C17_store_only_after_check.

Theorem C17_refused_hash_set_keeps_fields : forall st i k v vd i',
  hash_set st i k v = (vd, i') -> vd <> VOk -> i_fields i' = i_fields i.
Proof. exact hash_set_rejected_keeps_fields. Qed.
Print Assumptions C17_refused_hash_set_keeps_fields.

Theorem C17_write_routes_go_through_hash_set : forall st r id k v i,
  alookup id (st_store st) = Some i ->
  fst (step_op st (Write r id k v)) = OK ->
  exists i', hash_set st i k v = (VOk, i') /\ snd (step_op st (Write r id k v)) = put st id i'.
Proof. exact write_routes_go_through_hash_set. Qed.
Print Assumptions C17_write_routes_go_through_hash_set.

(* the census of /repo (Generated/WriteRoutes.v, regenerated from the source on every run): every site that can
   change what a record holds is a call of HashSet, or a direct write inside a function the model mirrors
   (HashSet itself, TypeCheckField's adoption, HashDelete, CloneFrom/CopyMap, MakeHash and its helpers);
   and HashSet calls TypeCheckField as a top-level statement before its first write, returns on every error
   but KeyNotSymbol, and returns on KeyNotSymbol for a record whose factory holds a definition *)
Theorem C17_every_write_site_covered : forall f fn k, In (f, fn, k) write_sites ->
  k = SCallHashSet \/ (class_of writer_tbl fn <> WOther /\ kind_allowed (class_of writer_tbl fn) k = true).
Proof. exact write_sites_covered. Qed.
Print Assumptions C17_every_write_site_covered.

Theorem C17_hashset_checks_first : shape_ok hashset_measured = true.
Proof. exact hashset_shape_measured_ok. Qed.
Print Assumptions C17_hashset_checks_first.

Theorem C17_bypassing_site_breaks_census : forall tbl (l : list site) f fn k,
  In (f, fn, k) l -> k <> SCallHashSet -> class_of tbl fn = WOther -> forallb (site_covered tbl) l = false.
Proof. exact uncovered_site_breaks_census. Qed.
Print Assumptions C17_bypassing_site_breaks_census.

From Coq Require Import String.
Local Open Scope string_scope.
Example census_nonvacuous :
  (3 <=? List.length (filter (fun s => site_kind_eqb (snd s) SCallHashSet) write_sites))%nat = true /\
  site_covered writer_tbl (zs "x.go", zs "SneakyStore", SWriteMap) = false /\
  site_covered writer_tbl (zs "x.go", zs "SexpHash.HashDelete", SWritePair) = false.
Proof. vm_compute. repeat split; reflexivity. Qed.
