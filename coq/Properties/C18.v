(* C18: package members are private unless capitalised.
   Statements only; proofs in Proofs/PkgProofs.v.  is_upper stands for unicode.IsUpper. *)
From Coq Require Import ZArith List Bool.
Import ListNotations.
From ZV Require Import Model.Pkg Model.PkgSpec Proofs.PkgProofs Generated.PkgRoutes Model.PkgRoutes Proofs.PkgRoutesProofs.
Open Scope Z_scope.

(* ---- 1. the path walk of the code is the visibility specification: every heap (any nesting,
        aliasing, cyclic scope chains, any mix of package and hash hops), every path length,
        read and write, no depth bound ---- *)
Theorem path_walk_is_visible : forall is_upper fuel h pn sc path ret setv,
  path <> [] -> names_ok path ->
  stack_walk is_upper fuel h true pn sc path 0 ret setv <> Err EFuel ->
  verdict_of (stack_walk is_upper fuel h true pn sc path 0 ret setv)
    = visible is_upper h (CPkg pn sc) path setv.
Proof. exact PkgProofs.path_walk_is_visible. Qed.
Print Assumptions path_walk_is_visible.

Theorem hash_walk_is_visible : forall is_upper fuel h id path ret setv,
  path <> [] -> names_ok path ->
  hash_walk is_upper fuel h id path 0 ret setv <> Err EFuel ->
  verdict_of (hash_walk is_upper fuel h id path 0 ret setv)
    = visible is_upper h (CHash id) path setv.
Proof. exact PkgProofs.hash_walk_is_visible. Qed.
Print Assumptions hash_walk_is_visible.

(* the fuel dotGetSetHelper's model passes is always sufficient *)
Theorem walk_fuel_enough : forall is_upper h b pn sc path ret setv id,
  path <> [] ->
  stack_walk is_upper (walk_fuel path) h b pn sc path 0 ret setv <> Err EFuel /\
  hash_walk is_upper (walk_fuel path) h id path 0 ret setv <> Err EFuel.
Proof. exact PkgProofs.walk_fuel_enough. Qed.
Print Assumptions walk_fuel_enough.

(* whole dot paths (first part an ordinary variable), any lexical context, no fuel side condition *)
Theorem dot_path_is_visible : forall is_upper h frame stack path setv,
  names_ok path ->
  verdict_of (dot_get_set is_upper h frame stack path setv) = spec_path is_upper h frame stack path setv.
Proof. exact PkgProofs.dot_path_is_visible. Qed.
Print Assumptions dot_path_is_visible.

(* ---- 2. aliases: a variable bound to the same value gives the same answers (and effects) ---- *)
Theorem alias_same : forall is_upper h frame stack a b rest setv,
  rest <> [] ->
  lexical_lookup h frame stack a = lexical_lookup h frame stack b ->
  dot_get_set is_upper h frame stack (a :: rest) setv = dot_get_set is_upper h frame stack (b :: rest) setv.
Proof. exact PkgProofs.alias_same. Qed.
Print Assumptions alias_same.

Theorem read_does_not_change_world : forall is_upper h frame stack path h' v,
  dot_get_set is_upper h frame stack path None = Ok (h', v) -> h' = h.
Proof. exact PkgProofs.read_does_not_change_world. Qed.
Print Assumptions read_does_not_change_world.

(* ---- 3. code defined inside the package keeps full access (model of the inside route:
        parameters, then the scope stack captured when the function was defined) ---- *)
Theorem closure_is_package_stack : forall is_upper h stack self params body,
  build_val is_upper h stack self (DFun params body) = Ok (h, VFun self params body stack).
Proof. exact PkgProofs.closure_is_package_stack. Qed.
Print Assumptions closure_is_package_stack.

Theorem inside_full_access : forall is_upper fuel h params args own outer m n v,
  scope_map h own = Some m -> assoc m n = Some v ->
  assoc (zip_params params args) n = None ->
  run_body is_upper fuel h params (BGet n) (own :: outer) args = Ok (h, v).
Proof. exact PkgProofs.inside_full_access. Qed.
Print Assumptions inside_full_access.

Theorem inside_full_access_set : forall is_upper fuel h params a args own outer m n old,
  scope_map h own = Some m -> assoc m n = Some old ->
  assoc (zip_params params (a :: args)) n = None ->
  run_body is_upper fuel h params (BSet n) (own :: outer) (a :: args) = Ok (scope_set h own n a, a).
Proof. exact PkgProofs.inside_full_access_set. Qed.
Print Assumptions inside_full_access_set.

Theorem inside_sees_enclosing : forall is_upper fuel h params args clos n v s,
  assoc (zip_params params args) n = None ->
  stack_lookup h clos n = Some (v, s) ->
  run_body is_upper fuel h params (BGet n) clos args = Ok (h, v).
Proof. exact PkgProofs.inside_sees_enclosing. Qed.
Print Assumptions inside_sees_enclosing.

(* dot paths written INSIDE a package (cfg.a, inner.Level, (inner.Bump)): the head resolves in the
   function's own lexical context -- parameters, then the scopes captured at definition -- and the
   rest of the walk obeys [visible]; the caller's bindings (globals defined later are shadowed by the
   package's own member, parameters/locals of a calling function) never reach the callee *)
Theorem inside_dot_read_is_visible : forall is_upper fuel h params clos args p,
  names_ok p ->
  verdict_of (run_body is_upper fuel h params (BDot p) clos args)
    = spec_path is_upper h (zip_params params args) clos p None.
Proof. exact PkgProofs.inside_dot_read_is_visible. Qed.
Print Assumptions inside_dot_read_is_visible.

Theorem inside_dot_write_is_visible : forall is_upper fuel h params clos a args p,
  names_ok p ->
  verdict_of (run_body is_upper fuel h params (BDotSet p) clos (a :: args))
    = spec_path is_upper h (zip_params params (a :: args)) clos p (Some a).
Proof. exact PkgProofs.inside_dot_write_is_visible. Qed.
Print Assumptions inside_dot_write_is_visible.

Theorem inside_dot_head_is_own_member : forall h params args own outer m key v,
  scope_map h own = Some m -> assoc m key = Some v ->
  assoc (zip_params params args) key = None ->
  lexical_lookup h (zip_params params args) (own :: outer) key = Some (v, Some own).
Proof. exact PkgProofs.inside_dot_head_is_own_member. Qed.
Print Assumptions inside_dot_head_is_own_member.

Theorem caller_bindings_do_not_leak : forall is_upper h frame stack key rest args,
  assoc frame key = None ->
  call_path is_upper h frame stack (key :: rest) args = call_path is_upper h [] stack (key :: rest) args.
Proof. exact PkgProofs.caller_bindings_do_not_leak. Qed.
Print Assumptions caller_bindings_do_not_leak.

(* a call through a dot path made INSIDE a function (facade) reaches the member the path yields under
   the rule, to any nesting depth; the calling function's own name plays no role *)
Theorem inside_call_is_spec : forall is_upper fuel h params body clos args,
  funs_ok is_upper h -> body_ok body ->
  verdict_of (run_body is_upper fuel h params body clos args)
    = spec_body is_upper fuel h params body clos args.
Proof. exact PkgProofs.inside_call_is_spec. Qed.
Print Assumptions inside_call_is_spec.

(* assignment whose right-hand side is a dot path: the source must be readable, then the value is assigned *)
Theorem assign_from_path_is_visible : forall is_upper h target source,
  names_ok target -> names_ok source ->
  verdict_of (run_op is_upper h (OpSetFrom target source)) = spec_op is_upper h (OpSetFrom target source).
Proof. exact PkgProofs.assign_from_path_is_visible. Qed.
Print Assumptions assign_from_path_is_visible.

Theorem assign_from_private_source_stores_nothing : forall is_upper h target source e,
  dot_get_set is_upper h [] [0%nat] source None = Err e ->
  run_op is_upper h (OpSetFrom target source) = Err e.
Proof. exact PkgProofs.assign_from_private_source_stores_nothing. Qed.
Print Assumptions assign_from_private_source_stores_nothing.

(* ---- 4. non-vacuity ---- *)
Example ex_package_in_nested_hash :
  run_op ascii_upper demo_heap (OpGet [n_h2; n_N; n_P; n_Pub]) = Ok (demo_heap, VInt 1) /\
  run_op ascii_upper demo_heap (OpGet [n_h2; n_N; n_P; n_priv]) = Err (EPriv n_priv n_pk).
Proof. exact PkgProofs.ex_package_in_nested_hash. Qed.

Example ex_read_public :
  run_op ascii_upper demo_heap (OpGet [n_pk; n_Pub]) = Ok (demo_heap, VInt 1).
Proof. exact PkgProofs.ex_read_public. Qed.

Example ex_read_private_denied :
  run_op ascii_upper demo_heap (OpGet [n_pk; n_priv]) = Err (EPriv n_priv n_pk) /\
  run_op ascii_upper demo_heap (OpGet [n_al; n_priv]) = Err (EPriv n_priv n_pk) /\
  run_op ascii_upper demo_heap (OpGet [n_pk; n_inner; n_b]) = Err (EPriv n_b n_inner) /\
  run_op ascii_upper demo_heap (OpGet [n_h2; n_N; n_P]) <> Err ENotRec.
Proof. exact PkgProofs.ex_read_private_denied. Qed.

Example ex_nested_traversable_any_case :
  run_op ascii_upper demo_heap (OpGet [n_pk; n_inner; n_P]) = Ok (demo_heap, VInt 3).
Proof. exact PkgProofs.ex_nested_traversable_any_case. Qed.

Example ex_write_private_denied_public_allowed :
  run_op ascii_upper demo_heap (OpSet [n_pk; n_priv] 9) = Err (EPriv n_priv n_pk) /\
  match run_op ascii_upper demo_heap (OpSet [n_pk; n_Pub] 9) with
  | Ok (h', VInt 9) => run_op ascii_upper h' (OpGet [n_al; n_Pub]) = Ok (h', VInt 9)
  | _ => False
  end.
Proof. exact PkgProofs.ex_write_private_denied_public_allowed. Qed.

Example ex_inside_reads_private :
  run_op ascii_upper demo_heap (OpCall [n_pk; n_Get] []) = Ok (demo_heap, VInt 2).
Proof. exact PkgProofs.ex_inside_reads_private. Qed.

Example ex_nil_member_obeys_the_rule :
  run_op ascii_upper demo2_heap (OpGet [n_pk; n_nn]) = Err (EPriv n_nn n_pk) /\
  run_op ascii_upper demo2_heap (OpSet [n_pk; n_nn] 5) = Err (EPriv n_nn n_pk) /\
  run_op ascii_upper demo2_heap (OpGet [n_pk; n_Nn]) = Ok (demo2_heap, VNull) /\
  match run_op ascii_upper demo2_heap (OpSet [n_pk; n_Nn] 5) with
  | Ok (h', _) => run_op ascii_upper h' (OpGet [n_pk; n_Nn]) = Ok (h', VInt 5)
  | _ => False
  end.
Proof. exact PkgProofs.ex_nil_member_obeys_the_rule. Qed.

Example ex_assign_from_path :
  run_op ascii_upper demo2_heap (OpSetFrom [n_pk; n_Pub] [n_pk; n_priv]) = Err (EPriv n_priv n_pk) /\
  match run_op ascii_upper demo2_heap (OpSetFrom [n_pk; n_Nn] [n_pk; n_Pub]) with
  | Ok (h', VInt 1) => run_op ascii_upper h' (OpGet [n_pk; n_Nn]) = Ok (h', VInt 1)
  | _ => False
  end.
Proof. exact PkgProofs.ex_assign_from_path. Qed.

Example ex_facade_with_the_callees_name :
  run_op ascii_upper demo2_heap (OpCall [n_pk; n_Scale] [3]) = Ok (demo2_heap, VInt 7) /\
  match run_op ascii_upper demo2_heap (OpCallVia n_Scale n_x n_pk [n_pk; n_Scale] [3]) with
  | Ok (_, VInt 7) => True
  | _ => False
  end.
Proof. exact PkgProofs.ex_facade_with_the_callees_name. Qed.

(* ---- 5. every ROUTE into the dot-path code (census generated from the source on every run) ---- *)
(* tie: the calls of dotGetSetHelper / nestedPathGetSet / errIfPrivate found in zygo/*.go are exactly the
   modelled ones, with the modelled access (read / write), path slice and hop *)
Theorem census_is_modelled : census_ok helper_sites = true.
Proof. exact PkgRoutesProofs.census_is_modelled. Qed.
Print Assumptions census_is_modelled.

Theorem walkers_as_modelled : shape_eqb (walker_shape walker_sites) expected_walkers = true.
Proof. exact PkgRoutesProofs.walkers_as_modelled. Qed.
Print Assumptions walkers_as_modelled.

Theorem privacy_checked_only_in_package_walker : private_ok private_sites = true.
Proof. exact PkgRoutesProofs.privacy_checked_only_in_package_walker. Qed.
Print Assumptions privacy_checked_only_in_package_walker.

(* every call site of the helper, in any lexical context, any heap, any path: the one specification *)
Theorem all_sites_check_the_same_hop : forall is_upper s h frame stack path v,
  names_ok path ->
  verdict_of (site_run is_upper s h frame stack path v)
    = spec_path is_upper h frame stack path (match site_access s with AGet => None | _ => Some v end).
Proof. exact PkgRoutesProofs.all_sites_check_the_same_hop. Qed.
Print Assumptions all_sites_check_the_same_hop.

Theorem read_sites_agree : forall is_upper s1 s2 h frame stack path v1 v2,
  site_access s1 = AGet -> site_access s2 = AGet ->
  site_run is_upper s1 h frame stack path v1 = site_run is_upper s2 h frame stack path v2.
Proof. exact PkgRoutesProofs.read_sites_agree. Qed.
Print Assumptions read_sites_agree.

Theorem write_sites_agree : forall is_upper s1 s2 h frame stack path v,
  site_access s1 = ASet -> site_access s2 = ASet ->
  site_run is_upper s1 h frame stack path v = site_run is_upper s2 h frame stack path v.
Proof. exact PkgRoutesProofs.write_sites_agree. Qed.
Print Assumptions write_sites_agree.

(* every route a program can take (operand of a builtin, argument of a function, dereference, call through a
   path / a call expression / a symbol bound to a dot symbol, hget with a dot key, assignment forms, compound
   assignment, def of a dotted name) computes the verdict of the specification *)
Theorem every_route_is_visible : forall is_upper h r,
  route_ok is_upper h r -> verdict_of (route_run is_upper h r) = route_spec is_upper h r.
Proof. exact PkgRoutesProofs.every_route_is_visible. Qed.
Print Assumptions every_route_is_visible.

(* a path the rule denies is denied on EVERY reading route, naming the same member and package *)
Theorem every_read_route_denies_private : forall is_upper h r p m pk,
  route_reads r = Some p -> names_ok p ->
  spec_path is_upper h [] top p None = Denied m pk ->
  route_run is_upper h r = Err (EPriv m pk).
Proof. exact PkgRoutesProofs.every_read_route_denies_private. Qed.
Print Assumptions every_read_route_denies_private.

Theorem every_write_site_denies_private : forall is_upper s h frame stack p v m pk,
  site_access s = ASet -> names_ok p ->
  spec_path is_upper h frame stack p (Some v) = Denied m pk ->
  site_run is_upper s h frame stack p v = Err (EPriv m pk).
Proof. exact PkgRoutesProofs.every_write_site_denies_private. Qed.
Print Assumptions every_write_site_denies_private.

Theorem every_write_route_denies_private : forall is_upper h r p v m pk,
  route_writes r = Some (p, v) -> names_ok p ->
  spec_path is_upper h [] top p (Some v) = Denied m pk ->
  route_run is_upper h r = Err (EPriv m pk) /\ route_spec is_upper h r = Denied m pk.
Proof. exact PkgRoutesProofs.every_write_route_denies_private. Qed.
Print Assumptions every_write_route_denies_private.

(* a top-level call through a path = the specification of calls (any frame) *)
Theorem call_path_is_spec_call : forall is_upper h frame p args,
  funs_ok is_upper h -> names_ok p ->
  verdict_of (call_path is_upper h frame [0%nat] p (map VInt args)) = spec_call is_upper h frame p args.
Proof. exact PkgRoutesProofs.call_path_is_spec_call. Qed.
Print Assumptions call_path_is_spec_call.

(* (hget root (quote .rest)) is the dot path root.rest: entering through the hash API skips no check *)
Theorem hget_route_is_the_dot_path : forall is_upper h root rest h' id,
  rest <> [] ->
  spec_path is_upper h [] top root None = Allowed h' (VHash id) ->
  route_spec is_upper h (RHget root rest) = spec_path is_upper h [] top (root ++ rest) None.
Proof. exact PkgRoutesProofs.hget_route_is_the_dot_path. Qed.
Print Assumptions hget_route_is_the_dot_path.

Example ex_routes_deny_private :
  route_run ascii_upper demo_heap (RDeref [n_pk; n_priv]) = Err (EPriv n_priv n_pk) /\
  route_run ascii_upper demo_heap (RArg [n_pk; n_priv]) = Err (EPriv n_priv n_pk) /\
  route_run ascii_upper demo_heap (RCallExpr [n_pk; n_priv] []) = Err (EPriv n_priv n_pk) /\
  route_run ascii_upper demo_heap (RIndirect [n_pk; n_priv] []) = Err (EPriv n_priv n_pk) /\
  route_run ascii_upper demo_heap (RCompound [n_pk; n_priv]) = Err (EPriv n_priv n_pk) /\
  route_run ascii_upper demo_heap (RHget [n_h2] [n_N; n_P; n_priv]) = Err (EPriv n_priv n_pk).
Proof. exact PkgRoutesProofs.ex_routes_deny_private. Qed.

Example ex_routes_allow_public :
  route_run ascii_upper demo_heap (RDeref [n_pk; n_Pub]) = Ok (demo_heap, VInt 1) /\
  route_run ascii_upper demo_heap (RCallExpr [n_pk; n_Get] []) = Ok (demo_heap, VInt 2) /\
  route_run ascii_upper demo_heap (RHget [n_h2] [n_N; n_P; n_Pub]) = Ok (demo_heap, VInt 1) /\
  route_run ascii_upper demo_heap (RCompound [n_pk; n_Pub]) = Err ENotFun /\
  route_run ascii_upper demo_heap (RDefDot [n_pk; n_priv] 5) = Ok (demo_heap, VInt 5).
Proof. exact PkgRoutesProofs.ex_routes_allow_public. Qed.
