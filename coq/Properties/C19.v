(* C19: symbols are interned consistently across interpreters sharing a table.
   Statements only; the proofs are in Proofs/SymtabProofs.v. *)
From Coq Require Import ZArith Bool List.
From ZV Require Import Model.Symtab Proofs.SymtabProofs.
Import ListNotations.
Open Scope Z_scope.

Example ex_itoa : itoa 0 = [48] /\ itoa 12 = [49; 50] /\ itoa 1090 = [49; 48; 57; 48] /\ itoa (-5) = [45; 53].
Proof. exact SymtabProofs.ex_itoa. Qed.
