(* C19: symbols are interned consistently across interpreters sharing a table.
   Statements only; the proofs are in Proofs/SymtabProofs.v.
   Model: Model/Symtab.v (environment.go MakeSymbol / GenSymbol / Duplicate / Clone over a family of
   members sharing symtable and revsymtable, each with its own nextsymbol counter). *)
From Coq Require Import ZArith Bool List.
From ZV Require Import Model.Symtab Generated.GensymSites Model.SymtabScript Proofs.SymtabProofs Proofs.SymtabScriptProofs.
Import ListNotations.
Open Scope Z_scope.

(* ---- 1. the invariant: symtable and revsymtable are inverse partial bijections,
        preserved by every operation of every member in every interleaving ---- *)

Theorem tables_inverse_step : forall st o st' r,
  step st o = (st', r) -> tables_inverse st -> tables_inverse st'.
Proof. exact SymtabProofs.step_inverse. Qed.
Print Assumptions tables_inverse_step.

Theorem tables_inverse_preserved : forall ops st,
  tables_inverse st -> tables_inverse (fst (run st ops)).
Proof. exact SymtabProofs.run_inverse. Qed.
Print Assumptions tables_inverse_preserved.

(* the table only grows: a symbol never changes its number *)
Theorem symbols_are_stable : forall ops st nm k,
  lookup_name nm (symtable st) = Some k -> lookup_name nm (symtable (fst (run st ops))) = Some k.
Proof. exact (fun ops st => SymtabProofs.run_extends ops st). Qed.
Print Assumptions symbols_are_stable.

(* ---- 2. equal symbols (same number) exactly when equal names, for any two symbols returned
        anywhere in a history by any member, or present in the table before it ---- *)

Theorem equal_iff_same_name : forall st ops n1 k1 n2 k2, tables_inverse st ->
  symbol_of st ops n1 k1 -> symbol_of st ops n2 k2 -> (k1 = k2 <-> n1 = n2).
Proof. exact SymtabProofs.equal_iff_same_name. Qed.
Print Assumptions equal_iff_same_name.

(* comparisons.go compareSymbol and hashutils.go hashHelper work on the numbers *)
Theorem compare_zero_iff_same_name : forall st ops n1 k1 n2 k2, tables_inverse st ->
  symbol_of st ops n1 k1 -> symbol_of st ops n2 k2 ->
  (compare_symbol k1 k2 = 0 <-> n1 = n2) /\ (n1 = n2 -> hash_symbol k1 = hash_symbol k2).
Proof. exact SymtabProofs.compare_zero_iff_same_name. Qed.
Print Assumptions compare_zero_iff_same_name.

(* comparisons.go compareArray / comparePair over symbols: (== [a b] [c d]), (== (list a) (list b)) *)
Theorem compare_symbols_zero_iff_same_names : forall st ops (l1 l2 : list (name * Z)), tables_inverse st ->
  (forall n k, In (n, k) l1 -> symbol_of st ops n k) -> (forall n k, In (n, k) l2 -> symbol_of st ops n k) ->
  (compare_symbols (map snd l1) (map snd l2) = 0 <-> map fst l1 = map fst l2).
Proof. exact SymtabProofs.compare_symbols_zero_iff_same_names. Qed.
Print Assumptions compare_symbols_zero_iff_same_names.

(* ---- 3. a generated symbol is new ---- *)

(* in ANY state (no invariant needed): the name was not interned and the number was not used *)
Theorem gensym_fresh : forall st i p st' nm k, gen_symbol st i p = (st', OSym nm k) ->
  lookup_name nm (symtable st) = None /\ lookup_num k (revsymtable st) = None /\
  is_prefix p nm = true /\ lookup_name nm (symtable st') = Some k.
Proof. exact SymtabProofs.gensym_fresh. Qed.
Print Assumptions gensym_fresh.

Theorem gensym_differs_from_existing : forall st i p st' nm k, tables_inverse st ->
  gen_symbol st i p = (st', OSym nm k) ->
  forall n' k', lookup_name n' (symtable st) = Some k' -> n' <> nm /\ k' <> k.
Proof. exact SymtabProofs.gensym_differs_from_existing. Qed.
Print Assumptions gensym_differs_from_existing.

(* in any history, whatever names were interned before by whichever member *)
Theorem gensym_differs_from_earlier : forall st ops i p nm k, tables_inverse st ->
  snd (run st (ops ++ [GenSym i p])) = snd (run st ops) ++ [OSym nm k] ->
  forall n' k', symbol_of st ops n' k' -> n' <> nm /\ k' <> k.
Proof. exact SymtabProofs.gensym_differs_from_earlier. Qed.
Print Assumptions gensym_differs_from_earlier.

Theorem two_gensyms_differ : forall st ops1 i p ops2 j q outs1 n1 k1 outs2 n2 k2, tables_inverse st ->
  snd (run st (ops1 ++ GenSym i p :: ops2 ++ [GenSym j q])) = outs1 ++ OSym n1 k1 :: outs2 ++ [OSym n2 k2] ->
  length outs1 = length ops1 -> n1 <> n2 /\ k1 <> k2.
Proof. exact SymtabProofs.two_gensyms_differ. Qed.
Print Assumptions two_gensyms_differ.

(* ---- 4. the search loops terminate within their fuel: the out-of-fuel outcome is unreachable ---- *)

Theorem itoa_injective : forall a b, itoa a = itoa b -> a = b.
Proof. exact SymtabProofs.itoa_inj. Qed.
Print Assumptions itoa_injective.

Theorem skip_used_terminates : forall rev c, skip_used (S (length rev)) rev c <> None.
Proof. exact SymtabProofs.skip_used_enough. Qed.
Print Assumptions skip_used_terminates.

Theorem gen_search_terminates : forall tab p n, gen_search (S (length tab)) tab p n <> None.
Proof. exact SymtabProofs.gen_search_enough. Qed.
Print Assumptions gen_search_terminates.

Theorem run_never_out_of_fuel : forall st ops, ~ In OFuel (snd (run st ops)).
Proof. exact SymtabProofs.run_never_out_of_fuel. Qed.
Print Assumptions run_never_out_of_fuel.

(* ---- 5. refinement: every history of the model is accepted by the injective-table
        specification (Symtab.spec_check: no counters, no search) ---- *)

Theorem model_refines_spec : forall ops st, wf_tables st -> ~ In OBadMember (snd (run st ops)) ->
  spec_accepts (symtable st) (combine ops (snd (run st ops))) = true.
Proof. exact SymtabProofs.model_accepted. Qed.
Print Assumptions model_refines_spec.

(* what acceptance means, independently of the model (this is what the harness applies to the
   answers of the real interpreters) *)
Theorem spec_sound_equal_iff_same_name : forall known obs n1 k1 n2 k2, table_injective known ->
  spec_accepts known obs = true ->
  ((exists o, In (o, OSym n1 k1) obs) \/ In (n1, k1) known) ->
  ((exists o, In (o, OSym n2 k2) obs) \/ In (n2, k2) known) ->
  (k1 = k2 <-> n1 = n2).
Proof. exact SymtabProofs.spec_sound_equal_iff_same_name. Qed.
Print Assumptions spec_sound_equal_iff_same_name.

Theorem spec_sound_gensym_fresh : forall known obs1 i p n k obs2 n' k', table_injective known ->
  spec_accepts known (obs1 ++ (GenSym i p, OSym n k) :: obs2) = true ->
  ((exists o, In (o, OSym n' k') obs1) \/ In (n', k') known) -> n' <> n /\ k' <> k.
Proof. exact SymtabProofs.spec_sound_gensym_fresh. Qed.
Print Assumptions spec_sound_gensym_fresh.

(* the invariant check run on the model state after each history is sound *)
Theorem inv_check_sound : forall st, inv_check st = true -> tables_inverse st.
Proof. exact SymtabProofs.inv_check_sound. Qed.
Print Assumptions inv_check_sound.

Theorem empty_tables_wf : forall cs, wf_tables (mkState [] [] cs).
Proof. exact SymtabProofs.empty_wf. Qed.
Print Assumptions empty_tables_wf.

(* ---- 6. non-vacuity ---- *)

Example ex_itoa : itoa 0 = [48] /\ itoa 12 = [49; 50] /\ itoa 1090 = [49; 48; 57; 48] /\ itoa (-5) = [45; 53].
Proof. exact SymtabProofs.ex_itoa. Qed.

Example ex_family_gensym :
  snd (run (mkState [] [] [5]) [Dup 0; GenSym 0 nm_g; GenSym 1 nm_g; MkSym 1 nm_a; MkSym 0 nm_a]) =
  [ONone; OSym [103; 53] 5; OSym [103; 54] 6; OSym nm_a 7; OSym nm_a 7].
Proof. exact SymtabProofs.ex_family_gensym. Qed.

Example ex_preinterned_shape :
  snd (run (mkState [] [] [5]) [MkSym 0 [103; 54]; MkSym 0 [103; 55]; GenSym 0 nm_g; GenSym 0 nm_g]) =
  [OSym [103; 54] 5; OSym [103; 55] 6; OSym [103; 56] 7; OSym [103; 57] 8].
Proof. exact SymtabProofs.ex_preinterned_shape. Qed.

Example ex_lagging_counter :
  run (mkState [] [] [5]) [Clone 0; MkSym 0 nm_a; MkSym 0 nm_g; MkSym 1 [98]] =
  (mkState [([98], 7); (nm_g, 6); (nm_a, 5)] [(7, [98]); (6, nm_g); (5, nm_a)] [7; 8],
   [ONone; OSym nm_a 5; OSym nm_g 6; OSym [98] 7]).
Proof. exact SymtabProofs.ex_lagging_counter. Qed.

Example ex_spec_rejects_reuse :
  spec_accepts [] [(GenSym 0 nm_g, OSym [103; 53] 5); (GenSym 1 nm_g, OSym [103; 53] 5)] = false /\
  spec_accepts [] [(MkSym 0 nm_a, OSym nm_a 5); (MkSym 1 nm_g, OSym nm_g 5)] = false /\
  spec_accepts [] [(MkSym 0 nm_a, OSym nm_a 5); (MkSym 1 nm_a, OSym nm_a 6)] = false /\
  spec_accepts [] [(MkSym 0 nm_a, OSym nm_a 5); (Dup 0, ONone); (GenSym 1 nm_g, OSym [103; 54] 6)] = true.
Proof. exact SymtabProofs.ex_spec_rejects_reuse. Qed.

(* ---- 7. script level (Model/SymtabScript.v): the routes by which PROGRAMS intern and generate symbols —
        (str2sym), reading a text through the family's shared parser (which interns through the root),
        (gensym), (gensym "p"), anonymous functions, loops, labelled loops, packages, range loops, forms run
        in an internal Duplicate (macro call, macexpand, expectError, source), top-level def / lookup in the
        shared global scope, Duplicate, Clone — by any member, in any order.  A script history compiles
        to a table history (script_ops); every statement below holds for ALL script histories. ---- *)

(* tie T: every call of GenSymbol / Duplicate() in zygo/*.go (Generated/GensymSites.v, regenerated on every
   run) is one of the modelled constructs, and every modelled prefix / function occurs in the source *)
Theorem gensym_sites_modelled : sites_modelled = true.
Proof. exact SymtabScriptProofs.sites_modelled_ok. Qed.
Print Assumptions gensym_sites_modelled.

Theorem script_tables_inverse_preserved : forall ks lay st,
  tables_inverse st -> tables_inverse (fst (script_run st lay ks)).
Proof. exact SymtabScriptProofs.script_tables_inverse_preserved. Qed.
Print Assumptions script_tables_inverse_preserved.

(* the search loops of every construct terminate, whatever names scripts interned before
   (a for loop / anonymous function after a def of __loopN / __anonN does not hang) *)
Theorem script_never_out_of_fuel : forall ks lay st, ~ In OFuel (snd (script_run st lay ks)).
Proof. exact SymtabScriptProofs.script_never_out_of_fuel. Qed.
Print Assumptions script_never_out_of_fuel.

(* members that exist when they act, parser owners that exist: no bad-member outcome *)
Theorem script_no_bad_member : forall ks lay st, length lay = length (nexts st) ->
  layout_ok lay = true -> members_valid lay ks = true ->
  ~ In OBadMember (snd (script_run st lay ks)).
Proof. exact SymtabScriptProofs.script_no_bad_member. Qed.
Print Assumptions script_no_bad_member.

Theorem script_equal_iff_same_name : forall st lay ks n1 k1 n2 k2, tables_inverse st ->
  symbol_of st (script_ops lay ks) n1 k1 -> symbol_of st (script_ops lay ks) n2 k2 -> (k1 = k2 <-> n1 = n2).
Proof. exact SymtabScriptProofs.script_equal_iff_same_name. Qed.
Print Assumptions script_equal_iff_same_name.

Theorem script_refines_spec : forall ks lay st, wf_tables st -> length lay = length (nexts st) ->
  layout_ok lay = true -> members_valid lay ks = true ->
  spec_accepts (symtable st) (combine (script_ops lay ks) (snd (script_run st lay ks))) = true.
Proof. exact SymtabScriptProofs.script_refines_spec. Qed.
Print Assumptions script_refines_spec.

(* any symbol generated anywhere in a script history differs (name and number) from every symbol that
   existed or was returned before it *)
Theorem script_generated_fresh : forall st lay ks ops1 j p ops2 nm k, tables_inverse st ->
  script_ops lay ks = ops1 ++ GenSym j p :: ops2 ->
  nth_error (snd (script_run st lay ks)) (length ops1) = Some (OSym nm k) ->
  forall n' k', symbol_of st ops1 n' k' -> n' <> nm /\ k' <> k.
Proof. exact SymtabScriptProofs.script_generated_fresh. Qed.
Print Assumptions script_generated_fresh.

(* the m-th temporary of ONE construct (for every generator prefix of the code: __gensym, __anon, __loop,
   __loop_<label>_, __range_src/_len/_i/_pair, a package name, a script's own prefix), compiled by any member
   after any script history, differs from every symbol existing then and from the construct's earlier temporaries *)
Theorem construct_temporaries_fresh : forall st lay ks1 i reads s ks2 m nm k, tables_inverse st ->
  let lay1 := script_layout lay ks1 in
  let pre := script_ops lay ks1 ++ map (MkSym (nth i lay1 i)) reads
             ++ firstn m (map (GenSym i) (site_prefixes s)) in
  (m < length (site_prefixes s))%nat ->
  nth_error (snd (script_run st lay (ks1 ++ (i, KForm reads s) :: ks2))) (length pre) = Some (OSym nm k) ->
  forall n' k', symbol_of st pre n' k' -> n' <> nm /\ k' <> k.
Proof. exact SymtabScriptProofs.construct_temporaries_fresh. Qed.
Print Assumptions construct_temporaries_fresh.

(* the variable map: the family's shared global scope, a Go map keyed by symbol NUMBERS, behaves in every
   script history exactly like a map keyed by NAMES (nscope_run: no tables, no numbers, no members) *)
Theorem global_scope_by_name : forall ks st lay g ng, tables_inverse st -> scope_rel st g ng ->
  length lay = length (nexts st) -> layout_ok lay = true -> members_valid lay ks = true ->
  snd (scope_run st lay g ks) = nscope_run ng ks.
Proof. exact SymtabScriptProofs.global_scope_by_name. Qed.
Print Assumptions global_scope_by_name.

Theorem empty_scope_related : forall st, scope_rel st [] [].
Proof. exact SymtabScriptProofs.scope_rel_empty. Qed.
Print Assumptions empty_scope_related.

Example ex_loop_after_colliding_names :
  snd (script_run (mkState [] [] [5]) [0%nat]
        [(0%nat, KStr2sym (p_loop ++ itoa 7)); (0%nat, KStr2sym (p_loop ++ itoa 8)); (0%nat, KForm [nm_x] GsLoop)]) =
  [OSym (p_loop ++ itoa 7) 5; OSym (p_loop ++ itoa 8) 6; OSym nm_x 7; OSym (p_loop ++ itoa 9) 8].
Proof. exact SymtabScriptProofs.ex_loop_after_colliding_names. Qed.

Example ex_parser_shared :
  script_run (mkState [] [] [5]) [0%nat]
    [(0%nat, KDup); (0%nat, KForm [] GsGensym); (1%nat, KForm [nm_rk] GsAnonFn); (1%nat, KInDup [] GsGensym)] =
  (mkState [(p_gensym ++ itoa 8, 8); (p_anon ++ itoa 5, 7); (nm_rk, 6); (p_gensym ++ itoa 5, 5)]
           [(8, p_gensym ++ itoa 8); (7, p_anon ++ itoa 5); (6, nm_rk); (5, p_gensym ++ itoa 5)] [7; 8; 9],
   [ONone; OSym (p_gensym ++ itoa 5) 5; OSym nm_rk 6; OSym (p_anon ++ itoa 5) 7; ONone; OSym (p_gensym ++ itoa 8) 8]).
Proof. exact SymtabScriptProofs.ex_parser_shared. Qed.

Example ex_empty_name :
  snd (run (mkState [] [] [5]) [Clone 0; MkSym 0 []; MkSym 1 []; MkSym 1 nm_x; GenSym 0 []; MkSym 1 (itoa 6)]) =
  [ONone; OSym [] 5; OSym [] 5; OSym nm_x 6; OSym (itoa 6) 7; OSym (itoa 6) 7].
Proof. exact SymtabScriptProofs.ex_empty_name. Qed.

Example ex_global_scope :
  snd (scope_run (mkState [] [] [5]) [0%nat] [] [(0%nat, KClone); (0%nat, KDef nm_x 42); (1%nat, KGet nm_x); (1%nat, KGet nm_rk)]) =
  [GNone; GVal (Some 42); GVal (Some 42); GVal None].
Proof. exact SymtabScriptProofs.ex_global_scope. Qed.
