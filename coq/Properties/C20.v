(* C20 -- Evaluation is deterministic.

   Go's map iteration order and process-global state are runtime behaviour that no model
   exhibits by itself.  The decision is split:
     (T) Generated/Census.v lists every `for .. range <map>` of package zygo with a class
         computed from the loop body, and every package-level variable written outside init();
     (P) for each order-independent class, a theorem over ALL maps and ALL iteration orders
         (an order is a list of (key, value) pairs, a permutation of the map's elements);
         for the order-dependent classes, a refutation with a concrete witness (each is
         replayed on the real code by harness/cmd/c20);
         census_covered: every generated site is in a proved class, or listed as benign
         (with a reason), or listed as a known finding;
     (S) harness/cmd/c20 runs each program repeatedly in fresh interpreters and fresh
         processes and compares value, stdout and error text.

   The FULL property ("the same program always gives the same value, output and error text")
   is FALSE of the code as it is: see the _refuted theorems, each tied to a known finding. *)
From Coq Require Import String List Bool ZArith Permutation Sorted.
Require Import ZV.Model.MapWalk ZV.Model.MapWalkKeys.
Require Import ZV.Generated.Census.
Require Import ZV.Proofs.MapWalkProofs ZV.Proofs.MapWalkKeysProofs.
Import ListNotations.

(* ---- class SortedAfter ---- *)
Theorem sorted_walk_indep :
  forall (K V A : Type) (le : A -> A -> Prop) (sort : list A -> list A) (item : K * V -> A),
    (forall l, Permutation (sort l) l) -> (forall l, StronglySorted le (sort l)) ->
    forall order1 order2 : list (K * V),
      Permutation order1 order2 ->
      (forall e1 e2, In e1 order1 -> In e2 order1 -> le (item e1) (item e2) -> le (item e2) (item e1) -> item e1 = item e2) ->
      sorted_walk K V item sort order1 = sorted_walk K V item sort order2.
Proof. exact sorted_walk_indep_lemma. Qed.
Print Assumptions sorted_walk_indep.

Theorem sorted_by_map_key_indep :
  forall (V : Type) (order1 order2 : list (Z * V)),
    Permutation order1 order2 -> NoDup (map fst order1) ->
    sorted_walk Z V (fun kv => kv) (zsort fst) order1 = sorted_walk Z V (fun kv => kv) (zsort fst) order2.
Proof. exact sorted_by_map_key_indep_lemma. Qed.
Print Assumptions sorted_by_map_key_indep.

Theorem intern_sorted_indep :
  forall next (order1 order2 : list (Z * Z)), Permutation order1 order2 ->
    intern_sorted next order1 = intern_sorted next order2.
Proof. exact intern_sorted_indep_lemma. Qed.
Print Assumptions intern_sorted_indep.

Theorem sorted_walk_collision_refuted :
  exists order1 order2 : list (Z * Z),
    Permutation order1 order2 /\ NoDup (map fst order1) /\
    sorted_walk Z Z (fun kv => kv) (zsort (fun kv : Z * Z => snd kv)) order1 <>
    sorted_walk Z Z (fun kv => kv) (zsort (fun kv : Z * Z => snd kv)) order2.
Proof. exact sorted_walk_collision_refuted_lemma. Qed.
Print Assumptions sorted_walk_collision_refuted.

(* ---- class SortedCustomComparator ---- *)
Theorem folded_comparator_refuted :
  exists (fold : Z -> Z) (order1 order2 : list (Z * Z)),
    Permutation order1 order2 /\ NoDup (map fst order1) /\
    folded_sort_walk fold order1 <> folded_sort_walk fold order2.
Proof. exact folded_comparator_refuted_lemma. Qed.
Print Assumptions folded_comparator_refuted.

Theorem injective_fold_indep :
  forall (fold : Z -> Z), (forall a b, fold a = fold b -> a = b) ->
  forall order1 order2 : list (Z * Z), Permutation order1 order2 -> NoDup (map fst order1) ->
    folded_sort_walk fold order1 = folded_sort_walk fold order2.
Proof. exact injective_fold_indep_lemma. Qed.
Print Assumptions injective_fold_indep.

(* ---- class CommutativeFill ---- *)
Theorem commutative_fill_indep :
  forall (K V K2 V2 : Type) (k2_eqb : K2 -> K2 -> bool),
    (forall a b, k2_eqb a b = true <-> a = b) ->
    forall (keyf : K * V -> K2) (valf : K * V -> V2) (order1 order2 : list (K * V)),
      Permutation order1 order2 -> NoDup (map keyf order1) ->
      forall m0 k, fill_walk K V K2 V2 k2_eqb keyf valf order1 m0 k = fill_walk K V K2 V2 k2_eqb keyf valf order2 m0 k.
Proof. exact fill_indep. Qed.
Print Assumptions commutative_fill_indep.

Theorem copy_walk_indep :
  forall (K V : Type) (eqb : K -> K -> bool), (forall a b, eqb a b = true <-> a = b) ->
  forall o1 o2 : list (K * V), Permutation o1 o2 -> NoDup (map fst o1) ->
  forall m0 k, fill_walk K V K V eqb fst snd o1 m0 k = fill_walk K V K V eqb fst snd o2 m0 k.
Proof. exact copy_walk_indep_lemma. Qed.
Print Assumptions copy_walk_indep.

Theorem delete_walk_indep :
  forall (K V K2 V2 : Type) (k2_eqb : K2 -> K2 -> bool) (keyf : K * V -> K2) (o1 o2 : list (K * V)),
    Permutation o1 o2 ->
    forall m0 k, delete_walk K V K2 V2 k2_eqb keyf o1 m0 k = delete_walk K V K2 V2 k2_eqb keyf o2 m0 k.
Proof. exact delete_indep. Qed.
Print Assumptions delete_walk_indep.

Theorem fold_comm_indep : forall (A B : Type) (f : A -> B -> A),
  (forall a x y, f (f a x) y = f (f a y) x) ->
  forall l1 l2, Permutation l1 l2 -> forall a, fold_left f l1 a = fold_left f l2 a.
Proof. exact fold_comm_indep_lemma. Qed.
Print Assumptions fold_comm_indep.

Theorem sum_walk_indep : forall K V (g : K * V -> Z) o1 o2, Permutation o1 o2 -> sum_walk K V g o1 = sum_walk K V g o2.
Proof. exact sum_walk_indep_lemma. Qed.
Print Assumptions sum_walk_indep.

Theorem count_walk_indep : forall K V (p : K * V -> bool) o1 o2, Permutation o1 o2 -> count_walk K V p o1 = count_walk K V p o2.
Proof. exact count_walk_indep_lemma. Qed.
Print Assumptions count_walk_indep.

Theorem max_walk_indep : forall K V (g : K * V -> Z) o1 o2 s, Permutation o1 o2 -> max_walk K V g o1 s = max_walk K V g o2 s.
Proof. exact max_walk_indep_lemma. Qed.
Print Assumptions max_walk_indep.

Theorem fill_colliding_keys_refuted :
  exists (togo : Z -> Z) (o1 o2 : list (Z * Z)),
    Permutation o1 o2 /\ NoDup (map fst o1) /\ goname_fill togo o1 10%Z <> goname_fill togo o2 10%Z.
Proof. exact fill_colliding_keys_refuted_lemma. Qed.
Print Assumptions fill_colliding_keys_refuted.

(* ---- class ExistsQuery ---- *)
Theorem exists_query_indep : forall K V (p : K * V -> bool) o1 o2,
  Permutation o1 o2 -> exists_walk K V p o1 = exists_walk K V p o2.
Proof. exact exists_walk_indep_lemma. Qed.
Print Assumptions exists_query_indep.

(* ---- class EarlyExitFirstMatch ---- *)
Theorem unique_match_indep : forall K V (p : K * V -> bool) o1 o2,
  Permutation o1 o2 ->
  (forall a b, In a o1 -> In b o1 -> p a = true -> p b = true -> a = b) ->
  first_match K V p o1 = first_match K V p o2.
Proof. exact unique_match_indep_lemma. Qed.
Print Assumptions unique_match_indep.

Theorem first_match_order_dependent_refuted :
  exists (registry1 registry2 : list (Z * Z)) (ty : Z),
    Permutation registry1 registry2 /\ NoDup (map fst registry1) /\
    registry_scan registry1 ty <> registry_scan registry2 ty.
Proof. exact first_match_order_dependent_refuted_lemma. Qed.
Print Assumptions first_match_order_dependent_refuted.

Theorem registry_scan_one_name_indep :
  forall (r1 r2 : list (Z * Z)) ty, Permutation r1 r2 -> NoDup (map snd r1) ->
    registry_scan r1 ty = registry_scan r2 ty.
Proof. exact registry_scan_one_name_indep_lemma. Qed.
Print Assumptions registry_scan_one_name_indep.

Theorem first_unknown_field_refuted :
  exists (known : Z -> bool) (o1 o2 : list (Z * Z)),
    Permutation o1 o2 /\ NoDup (map fst o1) /\ first_unknown_field known o1 <> first_unknown_field known o2.
Proof. exact first_unknown_field_refuted_lemma. Qed.
Print Assumptions first_unknown_field_refuted.

(* ---- classes CallsOnly / stateful bodies ---- *)
Theorem intern_in_walk_order_refuted :
  exists (next : nat) (o1 o2 : list (Z * Z)) (name : Z),
    Permutation o1 o2 /\ NoDup (map fst o1) /\
    symnum_of name (intern_in_walk_order next o1) <> symnum_of name (intern_in_walk_order next o2).
Proof. exact intern_in_walk_order_refuted_lemma. Qed.
Print Assumptions intern_in_walk_order_refuted.

Theorem stateful_sorted_walk_refuted :
  exists o1 o2 : list (Z * Z), Permutation o1 o2 /\ NoDup (map fst o1) /\ show_walk o1 <> show_walk o2.
Proof. exact stateful_sorted_walk_refuted_lemma. Qed.
Print Assumptions stateful_sorted_walk_refuted.


(* ==================================================================================== *)
(* Model/MapWalkKeys.v: the comparators, sorts and interning of the real code, extracted and run
   against the real interpreter on every check (harness/cmd/c20 corr.go, ocaml/c20/run.ml).   *)

(* ---- Go's string order is a strict total order ---- *)
Theorem go_string_order_total :
  (forall a, str_ltb a a = false)
  /\ (forall a b c, str_ltb a b = true -> str_ltb b c = true -> str_ltb a c = true)
  /\ (forall a b, str_ltb a b = false -> str_ltb b a = false -> a = b).
Proof. exact (conj str_ltb_irrefl (conj str_ltb_trans str_ltb_tri)). Qed.
Print Assumptions go_string_order_total.

(* sort.Strings after a walk: NO side condition, all lists (duplicates included) *)
Theorem sort_strings_indep :
  forall l1 l2 : list gostr, Permutation l1 l2 -> sort_strings l1 = sort_strings l2.
Proof. exact sort_strings_indep_lemma. Qed.
Print Assumptions sort_strings_indep.

(* the model's insertion sort stands for ANY correct sort (sort.Sort is an unstable pdqsort) *)
Theorem any_string_sort_is_the_model :
  forall sort : list gostr -> list gostr,
    (forall l, Permutation (sort l) l) ->
    (forall l, StronglySorted (fun a b => str_ltb b a = false) (sort l)) ->
    forall l, sort l = sort_strings l.
Proof. exact any_string_sort_is_the_model_lemma. Qed.
Print Assumptions any_string_sort_is_the_model.

Theorem sort_strings_spec : forall l,
  Permutation (sort_strings l) l /\ StronglySorted (fun a b => str_ltb b a = false) (sort_strings l).
Proof. exact sort_strings_spec_lemma. Qed.
Print Assumptions sort_strings_spec.

(* jsonmsgp.go:makeSortedSlicesFromMap with KiSlice.Less *)
Theorem sorted_slices_indep :
  forall V (o1 o2 : list (gostr * V)), Permutation o1 o2 -> NoDup (map fst o1) -> sorted_slices o1 = sorted_slices o2.
Proof. exact sorted_slices_indep_lemma. Qed.
Print Assumptions sorted_slices_indep.

Theorem any_sort_gives_sorted_slices :
  forall V (sort : list (gostr * V) -> list (gostr * V)),
    (forall l, Permutation (sort l) l) ->
    (forall l, StronglySorted (fun a b => key_less b a = false) (sort l)) ->
    forall o, NoDup (map fst o) -> sort o = sorted_slices o.
Proof. exact any_sort_gives_sorted_slices_lemma. Qed.
Print Assumptions any_sort_gives_sorted_slices.

(* comparator census: a comparator that folds the key is order-independent exactly as far as the
   fold keeps the present keys apart; ASCII case folding does not *)
Theorem folded_slices_indep :
  forall V (fold : gostr -> gostr) (o1 o2 : list (gostr * V)),
    Permutation o1 o2 -> NoDup (map fst o1) ->
    (forall a b, In a o1 -> In b o1 -> fold (fst a) = fold (fst b) -> fst a = fst b) ->
    folded_slices fold o1 = folded_slices fold o2.
Proof. exact folded_slices_indep_lemma. Qed.
Print Assumptions folded_slices_indep.

Theorem case_folding_comparator_refuted :
  exists o1 o2 : list (gostr * Z), Permutation o1 o2 /\ NoDup (map fst o1) /\
    folded_slices ascii_lower o1 <> folded_slices ascii_lower o2.
Proof. exact case_folding_comparator_refuted_lemma. Qed.
Print Assumptions case_folding_comparator_refuted.

(* ---- environment.go:NewZlispWithFuncs: symbol numbers ---- *)
Theorem new_zlisp_symtab_indep :
  forall V (reserved : list gostr) (o1 o2 : list (gostr * V)),
    Permutation o1 o2 -> new_zlisp_symtab reserved o1 = new_zlisp_symtab reserved o2.
Proof. exact new_zlisp_symtab_indep_lemma. Qed.
Print Assumptions new_zlisp_symtab_indep.

(* the fuel of MakeSymbol's skip loop never runs out *)
Theorem new_zlisp_symtab_total :
  forall V (reserved : list gostr) (o : list (gostr * V)), exists t, new_zlisp_symtab reserved o = Some t.
Proof. exact new_zlisp_symtab_total_lemma. Qed.
Print Assumptions new_zlisp_symtab_total.

(* refinement to a specification that mentions no order: null = 1, nil = 2, builtin f = 3 + number
   of builtin names smaller than f (domain: no builtin is itself called null or nil) *)
Theorem builtin_symnum_refines_rank :
  forall V (reserved : list gostr) (o : list (gostr * V)),
    NoDup (map fst o) -> ~ In s_null (map fst o) -> ~ In s_nil (map fst o) ->
    forall f, In f (map fst o) ->
      symnums [f] (new_zlisp_symtab reserved o) = [Some (spec_builtin_symnum (map fst o) f)].
Proof. exact builtin_symnum_refines_rank_lemma. Qed.
Print Assumptions builtin_symnum_refines_rank.

Theorem new_zlisp_symtab_unsorted_refuted :
  exists (o1 o2 : list (gostr * Z)) (q : gostr), Permutation o1 o2 /\ NoDup (map fst o1) /\
    symnums [q] (new_zlisp_symtab_unsorted [] o1) <> symnums [q] (new_zlisp_symtab_unsorted [] o2).
Proof. exact new_zlisp_symtab_unsorted_refuted_lemma. Qed.
Print Assumptions new_zlisp_symtab_unsorted_refuted.

(* ---- maps that are only indexed (check.go:submittedByName) ---- *)
Theorem assoc_lookup_indep :
  forall V k (o1 o2 : list (gostr * V)), Permutation o1 o2 -> NoDup (map fst o1) -> assoc_lookup k o1 = assoc_lookup k o2.
Proof. exact assoc_lookup_indep_lemma. Qed.
Print Assumptions assoc_lookup_indep.

Theorem named_args_final_indep :
  forall V declared (s1 s2 : list (gostr * V)),
    Permutation s1 s2 -> NoDup (map fst s1) -> named_args_final declared s1 = named_args_final declared s2.
Proof. exact named_args_final_indep_lemma. Qed.
Print Assumptions named_args_final_indep.

(* check.go:FunctionCallNameTypeCheck by name: which parameter the type-mismatch error names *)
Theorem named_args_check_indep :
  forall V (tyof : V -> Z) declared (s1 s2 : list (gostr * V)),
    Permutation s1 s2 -> NoDup (map fst s1) -> named_args_check tyof declared s1 = named_args_check tyof declared s2.
Proof. exact named_args_check_indep_lemma. Qed.
Print Assumptions named_args_check_indep.

Theorem named_args_check_in_walk_order_refuted :
  exists (declared : list (gostr * Z)) (s1 s2 : list (gostr * Z)), Permutation s1 s2 /\ NoDup (map fst s1) /\
    named_args_check_in_walk_order (fun v => v) declared s1 <> named_args_check_in_walk_order (fun v => v) declared s2.
Proof. exact named_args_check_in_walk_order_refuted_lemma. Qed.
Print Assumptions named_args_check_in_walk_order_refuted.

(* ---- first offender: early exit from a walk ---- *)
Theorem first_offender_sorted_indep :
  forall V (bad : gostr * V -> bool) (o1 o2 : list (gostr * V)),
    Permutation o1 o2 -> NoDup (map fst o1) -> first_offender_sorted bad o1 = first_offender_sorted bad o2.
Proof. exact first_offender_sorted_indep_lemma. Qed.
Print Assumptions first_offender_sorted_indep.

Theorem first_offender_walk_unique_indep :
  forall V (bad : gostr * V -> bool) (o1 o2 : list (gostr * V)),
    Permutation o1 o2 -> (forall a b, In a o1 -> In b o1 -> bad a = true -> bad b = true -> a = b) ->
    first_offender_walk bad o1 = first_offender_walk bad o2.
Proof. exact first_offender_walk_unique_indep_lemma. Qed.
Print Assumptions first_offender_walk_unique_indep.

Theorem first_offender_walk_refuted :
  exists (bad : gostr * Z -> bool) (o1 o2 : list (gostr * Z)), Permutation o1 o2 /\ NoDup (map fst o1) /\
    first_offender_walk bad o1 <> first_offender_walk bad o2.
Proof. exact first_offender_walk_refuted_lemma. Qed.
Print Assumptions first_offender_walk_refuted.

(* ---- package-level variables written during construction: ALL process histories ---- *)
Theorem store_always_history_indep :
  forall K G (val : K -> G) (h : list K) (k : K), after_history (store_always val) h k = val k.
Proof. exact store_always_history_indep_lemma. Qed.
Print Assumptions store_always_history_indep.

Theorem store_if_unset_history :
  forall K G (val : K -> G) (h : list K) (k : K),
    after_history (store_if_unset val) h k = match h with [] => val k | k0 :: _ => val k0 end.
Proof. exact store_if_unset_history_lemma. Qed.
Print Assumptions store_if_unset_history.

Theorem store_if_unset_const_indep :
  forall K G (val : K -> G), (forall k1 k2, val k1 = val k2) ->
    forall h k, after_history (store_if_unset val) h k = val k.
Proof. exact store_if_unset_const_indep_lemma. Qed.
Print Assumptions store_if_unset_const_indep.

Theorem store_if_unset_refuted :
  exists (val : bool -> Z) (h : list bool) (k : bool),
    after_history (store_if_unset val) h k <> after_history (store_if_unset val) [] k.
Proof. exact store_if_unset_refuted_lemma. Qed.
Print Assumptions store_if_unset_refuted.

(* ---- the tie: every walk of the CURRENT source is covered ---- *)
Theorem census_covered : forallb site_ok generated_census = true.
Proof. exact census_covered_lemma. Qed.
Print Assumptions census_covered.

Theorem census_sites : forall s, In s generated_census ->
  class_proved s = true
  \/ (exists l, In l benign_sites /\ same_site l s = true)
  \/ (exists l, In l known_nondeterministic /\ same_site l s = true).
Proof. exact census_sites_lemma. Qed.
Print Assumptions census_sites.

Theorem globals_covered : forallb global_ok generated_globals = true.
Proof. exact globals_covered_lemma. Qed.
Print Assumptions globals_covered.

(* ---- non-vacuity ---- *)
Example census_not_empty : Nat.leb 20 (length generated_census) = true.
Proof. vm_compute. reflexivity. Qed.
Example some_sites_proved : Nat.leb 8 (length (filter class_proved generated_census)) = true.
Proof. vm_compute. reflexivity. Qed.
Example sorted_example :
  sorted_walk Z Z fst (zsort (fun n => n)) [(3, 0); (1, 0); (2, 0)]%Z = [1; 2; 3]%Z
  /\ sorted_walk Z Z fst (zsort (fun n => n)) [(2, 0); (3, 0); (1, 0)]%Z = [1; 2; 3]%Z.
Proof. vm_compute. split; reflexivity. Qed.
Example fill_example :
  fill_walk Z Z Z Z Z.eqb fst snd [(1, 10); (2, 20)]%Z (fun _ => None) 2%Z = Some 20%Z.
Proof. vm_compute. reflexivity. Qed.
Example a_new_unsorted_walk_is_rejected :
  site_ok (mkSite "hashutils.go" "SexpHash.SexpString" 0 "hash.Map" OrderObservable false []) = false.
Proof. vm_compute. reflexivity. Qed.
Example a_sorted_walk_with_a_custom_comparator_is_rejected :
  site_ok (mkSite "jsonmsgp.go" "makeSortedSlicesFromMap" 0 "m" SortedCustomComparator true []) = false.
Proof. vm_compute. reflexivity. Qed.
Example a_sorted_walk_with_stateful_body_is_rejected :
  site_ok (mkSite "scopes.go" "Scope.ShowNew" 0 "scop.Map" SortedAfter false ["SexpString"]) = false.
Proof. vm_compute. reflexivity. Qed.
Example go_string_order_examples :
  str_ltb [73; 68]%Z [105; 100]%Z = true (* "ID" < "id" *) /\ str_ltb [97]%Z [97; 0]%Z = true (* prefix *)
  /\ str_ltb [195; 169]%Z [122]%Z = false (* "é" (0xC3 0xA9) > "z": bytes, not code points folded *).
Proof. vm_compute. repeat split; reflexivity. Qed.
Example sort_strings_example :
  sort_strings [[105; 100]; [73; 68]; [73; 100]; []]%Z = [[]; [73; 68]; [73; 100]; [105; 100]]%Z.
Proof. vm_compute. reflexivity. Qed.
Example new_zlisp_symtab_example :
  symnums [[99; 97; 114]; [99; 100; 114]; s_null; s_nil; [113]]%Z
          (new_zlisp_symtab [[113]; [99; 97; 114]]%Z [([99; 100; 114], 0); ([99; 97; 114], 0)]%Z)
  = [Some 3; Some 4; Some 1; Some 2; Some 5].
Proof. vm_compute. reflexivity. Qed.
Example rank_example : spec_builtin_symnum [[99; 100; 114]; [99; 97; 114]]%Z [99; 100; 114]%Z = 4.
Proof. vm_compute. reflexivity. Qed.
Example a_lazily_filled_singleton_is_rejected :
  global_ok (mkGlobal "pratt.go" "arrayOp" "*InfixOp" ["Zlisp.InitInfixOps (store_conditional_or_dependent)"]) = false
  /\ global_ok (mkGlobal "pratt.go" "arrayOp" "*InfixOp" ["Zlisp.InitInfixOps (store_always)"]) = true.
Proof. vm_compute. split; reflexivity. Qed.
