From Coq Require Import String List.
Require Import ZV.Model.MapWalk ZV.Generated.Census.
Import ListNotations.
Eval vm_compute in (map (fun s => (s_file s, s_func s, s_idx s, s_map s, s_class s, s_calls s)) (uncovered generated_census)).
Eval vm_compute in (map (fun g => (g_name g, g_writers g)) (uncovered_globals generated_globals)).
