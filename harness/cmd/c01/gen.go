package main

import (
	"fmt"
	"sort"
	"strings"

	"github.com/glycerine/zygomys/v9/zygo"
)

// ---- special forms, builders, macros x 0..3 arguments ----------------------------------

// heads of GenerateCallBySymbol's switch
var switchHeads = []string{"and", "or", "cond", "quote", "def", "mdef", "fn", "defn", "begin", "let", "letseq",
	"assert", "defmac", "macexpand", "syntaxQuote", "include", "for", "set", "break", "continue", "newScope",
	"package", "return", "_ls"}

// other heads with compile-time or unevaluated-argument behaviour
var extraHeads = []string{"unquote", "unquote-splicing", "=", ":=", "hash", "array", "list", "raw", "field", "apply",
	"eval", "->", ".", "a", "a.b", "a:", "1", "\"s\"", "()", "[]", "(fn [x] x)", "defined?", "quotelist", "read",
	"str", "slice", "sliceOf", "ptr", "deref", "derefSet", "togo", "fromgo", "msgmap", "declare-msgpack-map"}

// builders and macros never run by the harness (shell, file system, blocking)
var headSkip = map[string]string{
	"sys":    "runs a shell command",
	"import": "reads files from the working directory tree",
	"req":    "reads files from the working directory tree",
}

// argument kinds (the ten of the plan) ...
var pool10 = []string{"a", "1", "\"s\"", "()", "(a 1)", "[a 1]", "{a:1}", "(begin (and))", "a.b", "a:"}

// ... and the wider pool used for up to two arguments
var poolWide = append(append([]string{}, pool10...),
	"[]", "[a]", "[a 1 b]", "[1 2 3]", "(quote a)", "(quote 1)", "(quote)", "(a \\ 1)", "([] \\ 1)", "(and)",
	"(1 a)", "((1) a)", "%a", "~a", "~@a", "^a", "=", "(a = 1)", "&", "[a & b]", "[& a]", "[a &]", "len", "range",
	"for", "'c'", "1.5", "nil", "true", "(range k v h 1)", "(++ a)", "{}", "{1}", "(break)", "(continue a)",
	"(for [1 2 3] (break))", "(for a: [1 2 3] (continue a:))", "(for a: [1 2 3] (continue b:))",
	"(for (quote a) [(def i 0) (< i 1) (set i 2)] (break (quote a)))", "(fn [x] x)", "(fn [1] x)", "(quote \\ a)",
	"(quote a b)", "[(a \\ 1)]", "^[~a ~@b]", "^(a ~(and))", "(let [a 1] a)", "(let [a] a)", "(mdef (a) b 1)",
	"(mdef (quote a) b 1)", "(include [])", "(defn a [a] (a (and)))", "(defn a [x] (a 1))", "/*c*/", "//c\n", "$", "#a", "?a", "a?", "[len 1]", "[(fn [x] x)]", "(hash k: len)")

func formHeads(env *zygo.Zlisp) (heads []string, skipped map[string]string) {
	seen := map[string]bool{}
	skipped = map[string]string{}
	add := func(h string) {
		if why, sk := headSkip[h]; sk {
			skipped[h] = why
			return
		}
		if !seen[h] {
			seen[h] = true
			heads = append(heads, h)
		}
	}
	for _, h := range switchHeads {
		add(h)
	}
	for _, b := range env.VerifBindings() {
		if b.Kind == "builder" {
			add(b.Name)
		}
	}
	for _, m := range env.VerifMacroNames() {
		add(m)
	}
	for _, h := range extraHeads {
		add(h)
	}
	return
}

func buildForms(env *zygo.Zlisp, tier string) (*listStream, map[string]string) {
	s := &listStream{name: "forms"}
	heads, skipped := formHeads(env)
	isExtra := map[string]bool{}
	for _, h := range extraHeads {
		isExtra[h] = true
	}
	pool2 := poolWide
	if tier != "thorough" {
		pool2 = poolWide[:24]
	}
	for _, h := range heads {
		tag := "forms:" + h
		s.add("("+h+")", "", tag)
		for _, a := range poolWide {
			s.add("("+h+" "+a+")", "", tag)
		}
		for _, a := range pool2 {
			for _, b := range pool2 {
				s.add("("+h+" "+a+" "+b+")", "", tag)
			}
		}
		if isExtra[h] && tier != "thorough" {
			continue
		}
		for _, a := range pool10 {
			for _, b := range pool10 {
				for _, c := range pool10 {
					s.add("("+h+" "+a+" "+b+" "+c+")", "", tag)
				}
			}
		}
	}
	// the same forms as an ARGUMENT of a call / element of an array (their value is consumed)
	for _, h := range heads {
		tag := "forms:nested"
		s.add("(list ("+h+"))", "", tag)
		for _, a := range poolWide {
			s.add("(list ("+h+" "+a+"))", "", tag)
			s.add("[("+h+" "+a+")]", "", tag)
		}
		for _, a := range pool10 {
			for _, b := range pool10 {
				s.add("(+ 1 ("+h+" "+a+" "+b+"))", "", tag)
			}
		}
		for _, a := range poolWide[10:32] {
			s.add("(+ 1 ("+h+" "+a+" 1))", "", tag)
		}
	}
	// value-less forms consumed as a value, with symbols no other input binds (a reused interpreter
	// that already binds the symbol takes another path)
	uniq := 0
	for _, h := range []string{"def", "set", "mdef", "defn", "defmac", "for", "newScope", "begin", "package", "return", "break", "assert", "let"} {
		for _, lhs := range []string{"(quote u%d)", "%%u%d", "u%d", "(quote u%d) 2", "%%u%d 2", "u%d 2", "[u%d] 2", "u%d [] 2", "[(def u%d 0) false 1]", "[u%d 1] u%d"} {
			for _, wrap := range []string{"(+ 1 %s)", "(list %s)", "[%s]", "(str %s)", "(cond true %s 2)", "(def w%d %s)", "(and %s 1)", "((fn [x] x) %s)"} {
				uniq++
				l := strings.ReplaceAll(lhs, "%d", fmt.Sprintf("%d", uniq))
				l = strings.ReplaceAll(l, "%%", "%")
				inner := "(" + h + " " + l + ")"
				w := strings.Replace(wrap, "%d", fmt.Sprintf("%d", uniq), 1)
				s.add(strings.Replace(w, "%s", inner, 1), "", "forms:consumed")
			}
		}
	}
	// re-binding an already bound symbol with a value of another kind (two forms in one text)
	for _, v := range valPool {
		s.add("(def a 1) (def a "+v+")", "", "forms:rebind")
		s.add("(def a "+v+") (def a 1)", "", "forms:rebind")
		s.add("(def a "+v+") (set a 1)", "", "forms:rebind")
		s.add("(def a 1) (set a "+v+")", "", "forms:rebind")
		s.add("(def a ["+v+"]) (def a [1])", "", "forms:rebind")
		s.add("(def a 1) (def a ["+v+"])", "", "forms:rebind")
		for _, w := range valPool {
			s.add("(def a "+v+") (def a "+w+")", "", "forms:rebind")
		}
	}
	// the same heads written with reader sugar and at the top level of a text
	for _, a := range poolWide {
		for _, pre := range []string{"%", "^", "~", "~@", "^~", "^~@", "^%", "%^"} {
			s.add(pre+a, "", "forms:sugar")
		}
		s.add(a, "", "forms:bare")
		s.add(a+" "+a, "", "forms:bare")
	}
	return s, skipped
}

// ---- ill-typed calls of every builtin and global --------------------------------------------

// names never called: they block, sleep, exit, run commands or touch the file system
var builtinSkip = map[string]string{
	"exit":              "ends the process by design",
	"system":            "runs a shell command",
	"sys":               "runs a shell command",
	"source":            "reads a file",
	"slurpf":            "reads a file",
	"writef":            "writes a file",
	"owritef":           "writes a file",
	"save":              "writes a file",
	"bsave":             "writes a file",
	"bload":             "reads a file",
	"setenv":            "changes the process environment",
	"import":            "reads files",
	"req":               "reads files",
	"<!":                "blocks on a channel (covered by the chan-recv probes)",
	"send":              "blocks on a channel (covered by the chan-send probe)",
	"timeit":            "runs its argument many times against the wall clock",
	"stop":              "returns the stop error by design",
	"infix":             "covered by the token and forms streams",
	"_ls":               "prints the scope stack",
	"dump":              "prints the stack",
	"_closdump":         "prints closures",
	"packageScopeStack": "prints",
}

var valPool = []string{"1", "-1", "0", "1000000000000", "1.5", "\"s\"", "\"\"", "'c'", "a:", "%a", "nil", "[]",
	"[1 2]", "(list 1 2)", "(hash a:1)", "(fn [x] x)", "(list)", "(hash)", "true", "(raw \"ab\")", "9223372036854775807",
	"(now)", "(makeChan)", "[[] []]", "-9223372036854775808", "NaN", "len", "int64"}

var valPoolSmall = []string{"1", "-1", "1000000000000", "[]", "\"s\"", "(hash)", "nil", "(list 1 2)"}

func builtinNames(env *zygo.Zlisp) (names []string, skipped map[string]string) {
	seen := map[string]bool{}
	skipped = map[string]string{}
	all := append(append([]string{}, env.VerifBuiltinNames()...), env.VerifGlobalNames()...)
	sort.Strings(all)
	for _, n := range all {
		if seen[n] {
			continue
		}
		seen[n] = true
		if why, sk := builtinSkip[n]; sk {
			skipped[n] = why
			continue
		}
		names = append(names, n)
	}
	return
}

func buildBuiltins(env *zygo.Zlisp, tier string) (*listStream, map[string]string) {
	s := &listStream{name: "builtins"}
	names, skipped := builtinNames(env)
	pool2, pool3 := valPool, valPoolSmall
	if tier != "thorough" {
		pool2, pool3 = valPool[:13], valPoolSmall[:4]
	}
	for _, n := range names {
		tag := "builtins:" + n
		s.add("("+n+")", "", tag)
		for _, a := range valPool {
			s.add("("+n+" "+a+")", "", tag)
		}
		for _, a := range pool2 {
			for _, b := range pool2 {
				s.add("("+n+" "+a+" "+b+")", "", tag)
			}
		}
		for _, a := range pool3 {
			for _, b := range pool3 {
				for _, c := range pool3 {
					s.add("("+n+" "+a+" "+b+" "+c+")", "", tag)
				}
			}
		}
		// the same builtin reached through apply and through a function value
		q := n
		if strings.ContainsAny(n, "[]") {
			continue
		}
		s.add("(apply "+q+" [])", "", tag+":apply")
		s.add("(apply "+q+" (list))", "", tag+":apply")
		for _, a := range valPool {
			s.add("(apply "+q+" ["+a+"])", "", tag+":apply")
			s.add("(apply "+q+" (list "+a+"))", "", tag+":apply")
			s.add("(map "+q+" ["+a+"])", "", tag+":apply")
		}
		for _, a := range valPoolSmall {
			for _, b := range valPoolSmall {
				s.add("(apply "+q+" ["+a+" "+b+"])", "", tag+":apply")
			}
		}
	}
	return s, skipped
}

// ---- infix statement forms of pratt.go, malformed at every token position ----------------------

var infixTemplates = []string{
	"for i := range a { ( println i ) }",
	"for k , v := range h { k }",
	"for i = range a { i }",
	"for _ , v := range [ 1 2 3 ] { v }",
	"for i := 0 ; i < 3 ; i ++ { i }",
	"for i = 0 ; i < 3 ; i = i + 1 { i }",
	"for ; ; { break }",
	"for i < 3 { i ++ }",
	"for { break }",
	"lbl: for i := 0 ; i < 3 ; i ++ { continue lbl: }",
	"lbl: for i := range a { break lbl: }",
	"lbl: for i = range a { }",
	"for i := range a { for j := range b { break } }",
	"if a < 1 { 1 } else { 2 }",
	"if a { 1 } else if b { 2 } else { 3 }",
	"if a { 1 }",
	"if a == 1 { break } else { continue }",
	"a := 1",
	"a , b := 1 , 2",
	"a , b = b , a",
	"a = 1",
	"a ++",
	"a --",
	"a += 1",
	"a -= 1",
	"a [ 1 ]",
	"a [ 1 : 2 ]",
	"a [ : 2 ]",
	"a [ 1 : ]",
	"a [ 0 ] = 1",
	"a [ i ] [ j ]",
	"a . b",
	"a.b ( 1 )",
	"a.b.c = 2",
	"f ( 1 , 2 )",
	"( f 1 2 )",
	"1 + 2 * 3",
	"- 1",
	"! a",
	"a && b || c",
	"a ** 2",
	"a -> b",
	"a == b",
	"a != b",
	"1 ; 2",
	"x := [ 1 2 3 ] ; x [ 0 ]",
	"h := { a: 1 } ; h . a",
	"return 1",
	"break",
	"continue lbl:",
	"( def a [ 1 2 3 ] ) for i := range a { i }",
	"( defn f [ x ] { x + 1 } ) f ( 2 )",
	"s := 0 ; for i := range [ 1 2 ] { s += i } ; s",
}

var infixReplacements = []string{":=", "=", ";", ",", "{", "}", "range", "for", "if", "else", "lbl:", "[", "]", ":", "(", ")", "++", "."}

func buildInfix(tier string) *listStream {
	s := &listStream{name: "infix"}
	seen := map[string]bool{}
	emit := func(toks []string, tag string) {
		body := strings.Join(toks, " ")
		if seen[body] {
			return
		}
		seen[body] = true
		s.add("{"+body+"}", "", "infix:"+tag)
		s.add(body, "", "infix:"+tag+":bare") // the REPL wraps a bare line in (infix [...]) itself
	}
	for _, t := range infixTemplates {
		toks := strings.Fields(t)
		n := len(toks)
		for k := 0; k <= n; k++ { // truncation at every token position
			emit(toks[:k], "truncate")
			// truncated, but with the braces of a body block closed
			emit(append(append([]string{}, toks[:k]...), "{", "}"), "truncate+body")
		}
		for k := 0; k < n; k++ {
			emit(append(append([]string{}, toks[:k]...), toks[k+1:]...), "delete")
			d := append(append([]string{}, toks[:k+1]...), toks[k:]...)
			emit(d, "duplicate")
			if tier == "thorough" {
				for _, r := range infixReplacements {
					x := append([]string{}, toks...)
					x[k] = r
					emit(x, "replace")
					y := append(append(append([]string{}, toks[:k]...), r), toks[k:]...)
					emit(y, "insert")
				}
			}
		}
	}
	return s
}

// ---- generated core-language programs (followed by the follow-up battery on the same interpreter) ----

// statements of a function body; N is the parameter, K a per-program suffix that keeps names apart
var progStmts = []string{
	"(newScope (def tK N) tK)",
	"(let [aK N] aK)",
	"(letseq [aK N bK aK] bK)",
	"(for [(def iK 0) (< iK 2) (set iK (+ iK 1))] (set N (+ N 0)))",
	"(for [(def iK 0) (< iK 3) (set iK (+ iK 1))] (cond (== iK 1) (break) (continue)))",
	"(begin (def uK N) uK)",
	"(def pK (package innerK (def a 1)))",
	"(def cK (fn [] N))",
	"(defn hK [x] (+ x N))",
	"(cond (> N 5) 1 2)",
	"(mdef qK rK (list 1 2))",
	"(str N)",
	"(def sK (str (list N [N] (hash a: N))))",
	"(assert (>= N 0))",
	"(newScope (let [aK 1] (newScope aK)))",
	"(let [zK 1] (def pK (package innK (def b zK))) (fn [] zK))",
}

var progTails = []string{
	"(cond (> N 0) (fK (- N 1)) 0)",                 // self tail call
	"(cond (> N 0) (+ 1 (fK (- N 1))) 0)",           // non-tail recursion
	"(fn [] N)",                                     // a closure made here is the value
	"(let [wK N] (cond (> wK 0) (fK (- wK 1)) wK))", // tail call from inside a let
	"N",
}

var progCalls = []string{"(fK 1)", "(fK 3)"}

// top-level programs (no function): packages, closures and printing in nested scopes
var progTop = []string{
	"(package outerK (def p (package innerK (def x 1))))",
	"(str (package outerK (def p (package innerK (def x 1)))))",
	"(let [z 1] (def p (package innerK (def a 1))) (fn [] 1))",
	"(let [z 1] (def p (package innerK (def a 1))) (str p))",
	"(newScope (def p (package innerK (def a 1))) (defn gK [] 1) (gK))",
	"(defn mkK [] (def p (package innerK (def a 1))) (fn [] 1)) (mkK)",
	"(defn mkK [] (def p (package innerK (def a 1))) p) (str (mkK))",
	"(def pK (package topK (def a 1) (defn g [] a))) (str pK) (pK.g)",
	"(package aK (package bK (package cK (def x 1))))",
	"(for [(def i 0) (< i 2) (set i (+ i 1))] (def p (package innerK (def a i))) (fn [] p))",
	"(def hK (hash a: (fn [] 1))) (str hK)",
	"(defn mkK [] (let [v [1 2]] (fn [] v))) (str (mkK)) ((mkK))",
}

func buildPrograms(tier string) *listStream {
	s := &listStream{name: "programs"}
	k := 0
	inst := func(t string, k int) string {
		t = strings.ReplaceAll(t, "K", fmt.Sprintf("%d", k))
		return strings.ReplaceAll(t, "N", "n")
	}
	add := func(stmts []string, tail, call, tag string) {
		k++
		body := strings.Join(stmts, " ")
		s.add(inst("(defn fK [n] "+body+" "+tail+") "+call, k), "", "programs:"+tag)
	}
	for _, tl := range progTails {
		for _, c := range progCalls {
			add(nil, tl, c, "0stmt")
			for _, a := range progStmts {
				add([]string{a}, tl, c, "1stmt")
			}
		}
	}
	// two statements: every ordered pair with the self-tail-call and the closure tails
	for _, a := range progStmts {
		for _, b := range progStmts {
			add([]string{a, b}, progTails[0], progCalls[0], "2stmt")
			if tier == "thorough" {
				for _, tl := range progTails[1:] {
					add([]string{a, b}, tl, progCalls[1], "2stmt")
				}
			} else {
				add([]string{a, b}, progTails[2], progCalls[0], "2stmt")
			}
		}
	}
	buildArity(s, &k, tier)
	buildGensym(s, &k, tier)
	for _, t := range progTop {
		k++
		s.add(inst(t, k), "", "programs:top")
		k++
		s.add(inst("(defn wrapK [] "+t+") (wrapK)", k), "", "programs:top-in-fn")
		k++
		s.add(inst("(let [q 1] "+t+")", k), "", "programs:top-in-let")
	}
	return s
}

// ---- every kind of formal list x every way to define x every call arity x every call route ----------

var formalLists = []struct {
	formals string
	n       int // number of declared formals (before & rest)
}{
	{"", 0}, {"x", 1}, {"#x", 1}, {"x y", 2}, {"x #y", 2}, {"#x y", 2}, {"#x #y", 2}, {"& r", 0}, {"x & r", 1}, {"#x & r", 1},
	{"x #y & r", 2}, {"?x", 1}, {"$x", 1}, {"x: y", 2}, {"#x #y #z", 3},
}

func buildArity(s *listStream, k *int, tier string) {
	argSets := [][]string{{"5", "6", "7", "8", "9"}, {"(+ 2 3)", "u", "[1]", "(hash a:1)", "(fn [] 1)"}}
	if tier != "thorough" {
		argSets = argSets[:2]
	}
	for _, fl := range formalLists {
		bodies := []string{"1"}
		if strings.Contains(fl.formals, "#x") {
			bodies = append(bodies, "(force #x)", "(str (substitute #x))")
		}
		for _, body := range bodies {
			for nargs := 0; nargs <= fl.n+2; nargs++ {
				for ai, as := range argSets {
					if ai > 0 && nargs == 0 {
						continue
					}
					args := strings.Join(as[:nargs], " ")
					*k++
					n := fmt.Sprintf("%d", *k)
					defs := []struct{ def, callee string }{
						{"(defn lz" + n + " [" + fl.formals + "] " + body + ")", "lz" + n},
						{"(def lz" + n + " (fn [" + fl.formals + "] " + body + "))", "lz" + n},
						{"", "(fn [" + fl.formals + "] " + body + ")"},
						{"(defmac lz" + n + " [" + fl.formals + "] " + body + ")", "lz" + n},
					}
					for di, d := range defs {
						s.add(d.def+" ("+d.callee+" "+args+")", "", "programs:arity")
						if di < 2 {
							s.add(d.def+" (apply "+d.callee+" ["+args+"])", "", "programs:arity")
							s.add(d.def+" (map "+d.callee+" ["+args+"])", "", "programs:arity")
							s.add(d.def+" (defn w"+n+" [] ("+d.callee+" "+args+")) (w"+n+")", "", "programs:arity")
						}
					}
				}
			}
		}
	}
}

// ---- generated names: macros that need fresh names while they expand, scripts that spell the
// next generated names themselves, followed by every consumer of GenSymbol ----------------------------

var gensymConsumers = []struct{ prefix, form string }{
	{"__gensym", "(gensym)"},
	{"tmp", "(gensym \"tmp\")"},
	{"", "(gensym \"\")"},
	{"__anon", "(fn [] 2)"},
	{"__anon", "(defn dK [] (fn [] 1))"},
	{"__loop", "(for [(def j 0) (< j 1) (set j (+ j 1))] j)"},
	{"__loop_lb_", "(for lb: [(def j 0) (< j 1) (set j (+ j 1))] j)"},
	{"pq", "(package pq (def b 2))"},
	{"__gensym", "(let [y (gensym)] y)"},
}

var gensymMacros = []string{
	"(defmac hygK [] (let [g (gensym)] ^(def ~g 1)))",
	"(defmac hygK [] (let [g (gensym \"tmp\")] ^(def ~g 1)))",
	"(defmac hygK [] (let [g (gensym \"\")] ^(quote ~g)))",
	"(defmac hygK [] (let [f (fn [] 1)] ^(quote ~(f))))",
	"(defmac hygK [] (let [s 0] (for [(def i 0) (< i 1) (set i (+ i 1))] (set s i)) ^(quote ~s)))",
	"(defmac hygK [] (let [s 0] (for lb: [(def i 0) (< i 1) (set i (+ i 1))] (set s i)) ^(quote ~s)))",
	"(defmac hygK [] (let [p (package pq (def a 1))] ^1))",
	"(defmac hygK [a] (let [g (gensym) h (gensym)] ^(let [~g ~a ~h ~g] ~h)))",
}

func buildGensym(s *listStream, k *int, tier string) {
	inst := func(t string) string { return strings.ReplaceAll(t, "K", fmt.Sprintf("%d", *k)) }
	for _, m := range gensymMacros {
		call := "(hygK)"
		if strings.Contains(m, "[a]") {
			call = "(hygK 1)"
		}
		for _, c := range gensymConsumers {
			for _, sep := range []string{" ", "\n"} { // one text, or one line each (REPL line protocol)
				*k++
				s.add(inst(m+sep+call+sep+c.form+sep+c.form), "", "programs:gensym-macro")
				*k++
				s.add(inst(m+sep+call+sep+call+sep+c.form), "", "programs:gensym-macro")
			}
		}
	}
	// the script spells the NEXT generated names itself: it reads the counter through symnum and interns
	// prefix+(n+2) .. prefix+(n+40); the consumer then meets names that are already interned
	for _, c := range gensymConsumers {
		*k++
		pre := inst("(def nK (symnum (gensym))) (for [(def iK 2) (< iK 40) (set iK (+ iK 1))] (str2sym (concat \"" + c.prefix + "\" (str (+ nK iK)))))")
		s.add(pre+"\n"+inst(c.form)+"\n"+inst(c.form), "", "programs:gensym-spelled")
		*k++
		s.add(inst("(def nK (symnum (gensym))) (for [(def iK 2) (< iK 40) (set iK (+ iK 1))] (str2sym (concat \""+c.prefix+"\" (str (+ nK iK)))))")+" (eval (quote "+inst(c.form)+"))", "", "programs:gensym-spelled")
	}
}

// ---- declarations with types: typed functions called in every way, structs printed in every way,
// selectors (index, slice, field) read and assigned in every way ---------------------------------------

var typedParams = []struct {
	decl  string
	names []string
}{
	{"", nil},
	{"a:int64", []string{"a"}},
	{"a:int64 b:string", []string{"a", "b"}},
	{"a:int64 b:string c:float64", []string{"a", "b", "c"}},
}

func buildTyped(tier string) *listStream {
	s := &listStream{name: "typed"}
	k := 0
	next := func() string { k++; return fmt.Sprintf("%d", k) }

	// (1) typed functions: positional and by-name calls of every shape
	vals := map[string][]string{"a": {"1", "\"x\""}, "b": {"\"hi\"", "2"}, "c": {"2.5", "nil"}, "z": {"5", "[1]"}}
	for _, tp := range typedParams {
		for _, ret := range []string{"", "n:int64", "n:int64 err:error"} {
			for _, body := range []string{"(return 1)", "1"} {
				if ret == "" && body == "(return 1)" {
					body = "(return)"
				}
				n := len(tp.names)
				var calls, shapes []string
				tyCode := map[string]string{"1": "I", "5": "I", "2": "I", "\"x\"": "S", "\"hi\"": "S", "2.5": "F", "nil": "O", "[1]": "O"}
				nameID := map[string]string{"a": "1", "b": "2", "c": "3", "z": "9"}
				// positional: 0 .. n+1 arguments, well typed and ill typed
				for cnt := 0; cnt <= n+1; cnt++ {
					for v := 0; v < 2; v++ {
						var as []string
						for i := 0; i < cnt; i++ {
							nm := "z"
							if i < n {
								nm = tp.names[i]
							}
							as = append(as, vals[nm][v])
						}
						calls = append(calls, strings.Join(as, " "))
						var sh []string
						for _, a := range as {
							sh = append(sh, "V"+tyCode[a])
						}
						shapes = append(shapes, strings.Join(sh, " "))
					}
				}
				// by name: every sequence of up to n+1 name/value pairs over the parameter names and an unknown name
				names := append(append([]string{}, tp.names...), "z")
				var seqs [][]string
				seqs = append(seqs, nil)
				frontier := [][]string{nil}
				for l := 1; l <= n+1 && l <= 3; l++ {
					var nf [][]string
					for _, pre := range frontier {
						for _, nm := range names {
							nf = append(nf, append(append([]string{}, pre...), nm))
						}
					}
					seqs = append(seqs, nf...)
					frontier = nf
				}
				for _, sq := range seqs {
					for v := 0; v < 2; v++ {
						var as, sh []string
						for _, nm := range sq {
							as = append(as, nm+":"+vals[nm][v])
							sh = append(sh, "N"+nameID[nm], "V"+tyCode[vals[nm][v]])
						}
						calls = append(calls, strings.Join(as, " "))
						shapes = append(shapes, strings.Join(sh, " "))
						if len(sq) > 0 && v == 0 { // positional first, then named
							calls = append(calls, "1 "+strings.Join(as, " "))
							shapes = append(shapes, "VI "+strings.Join(sh, " "))
						}
					}
				}
				if tier != "thorough" && (ret == "n:int64 err:error" || body == "1") {
					// quick: the full call set for one return list / body, a sample for the others
					calls = calls[:len(calls)/4+1]
				}
				var pcode []string
				for _, f := range strings.Fields(tp.decl) {
					q := strings.SplitN(f, ":", 2)
					pcode = append(pcode, nameID[q[0]]+map[string]string{"int64": "I", "string": "S", "float64": "F"}[q[1]])
				}
				seen := map[string]bool{}
				for ci, c := range calls {
					if seen[c] {
						continue
					}
					seen[c] = true
					id := next()
					decl := "(func t" + id + " [" + tp.decl + "] [" + ret + "] " + body + ")"
					shape := ""
					if body != "1" { // the model covers the call check; a body that returns through (return ..) adds no error of its own
						shape = strings.TrimSpace("F " + strings.Join(pcode, " ") + " ; " + shapes[ci])
					}
					s.add(decl+" (t"+id+" "+c+")", shape, "typed:func-call")
				}
			}
		}
	}

	// (2) structs with field names of every width in bytes and characters, printed in every way
	fieldNames := []string{"x", "Name", "LongFieldNameHere", "Größe", "Öl", "日本語", "😀x", "é"}
	structNames := []string{"S", "Maß", "型"}
	var decls [][2]string // struct name, declaration
	for si, sn := range structNames {
		for i, f1 := range fieldNames {
			id := next()
			name := sn + id
			decls = append(decls, [2]string{name, "(struct " + name + " [(field " + f1 + ": int64)])"})
			if si > 0 && tier != "thorough" {
				continue
			}
			for j, f2 := range fieldNames {
				if i == j {
					continue
				}
				id := next()
				name := sn + id
				decls = append(decls, [2]string{name, "(struct " + name + " [(field " + f1 + ": int64) (field " + f2 + ": string e:1)])"})
			}
		}
	}
	printers := []string{
		"",
		"(str NAME)",
		"(def v (NAME)) (str v)",
		"(def v (NAME)) v",
		"(defn mkID [] (let [t NAME] (fn [] 7))) ((mkID))",
		"(func wID [m:NAME] [n:int64] (return 1)) (wID 5)",
		"(func wID [m:NAME] [n:int64] (return 1)) (wID (NAME))",
		"(var pv (* NAME)) (str pv)",
		"(NAME nosuchfield:1)",
		"(def v (NAME)) (json v)",
		"(def v (NAME)) (togo v)",
		"(let [t NAME] (str t))",
		"(def h (hash k: NAME)) (str h)",
		"(def v (NAME)) (v = 12)",
		"[NAME (NAME)]",
	}
	for di, d := range decls {
		for pi, pr := range printers {
			if tier != "thorough" && di%3 != 0 && pi > 5 {
				continue
			}
			id := next()
			p := strings.ReplaceAll(strings.ReplaceAll(pr, "NAME", d[0]), "ID", id)
			s.add(d[1]+" "+p, "", "typed:struct-print")
			s.add(d[1]+"\n"+p, "", "typed:struct-print") // one line each: the REPL echoes the declaration's value
		}
	}

	// (3) selectors read and assigned
	setup := "(def a [3 4 5 6]) (def h (hash k: 1 m: [1 2])) (def s \"hello\") (def i 1) (def aa [[1 2] [3 4]])"
	targets := []string{"a[0]", "a[i]", "a[1:2]", "a[:2]", "a[2:]", "a[:]", "a[-1]", "a[9]", "a[0:9]", "a[\"x\"]", "a[1.5]", "a[i:]", "a[:i]",
		"aa[0][1]", "aa[0][:1]", "aa[:1][0]", "h.k", "h.m[0]", "h.m[:1]", "h.nokey", "s[0]", "s[1:2]", "s[:2]", "a[nil]", "a[]", "a[: :]", "a[1:2:3]", "h[k:]"}
	ops := []string{"", " = 9", " = [7 8]", " := 9", " += 1", " ++", " = s", " , i = 1 , 2", " == 1"}
	for _, t := range targets {
		for _, op := range ops {
			s.add(setup+" {"+t+op+"}", "", "typed:selector")
			if op == "" || op == " = 9" {
				s.add(setup+"\n"+t+op, "", "typed:selector") // a bare REPL line
				s.add(setup+" (def f"+next()+" (fn [] {"+t+op+"})) (f"+fmt.Sprintf("%d", k)+")", "", "typed:selector")
			}
		}
	}
	for _, sel := range []string{"[0]", "[: 1]", "[1 :]", "[:]", "[1 : 2]", "[9]", "[\"x\"]", "[]", "[: :]", "[nil]", "[0 1]"} {
		for _, v := range []string{"0", "[7 8]", "nil"} {
			s.add(setup+" (set (arrayidx a "+sel+") "+v+")", "", "typed:selector")
			s.add(setup+" (def (arrayidx a "+sel+") "+v+")", "", "typed:selector")
			s.add(setup+" ((arrayidx a "+sel+") = "+v+")", "", "typed:selector")
		}
		s.add(setup+" (arrayidx a "+sel+")", "", "typed:selector")
		s.add(setup+" (str (arrayidx a "+sel+"))", "", "typed:selector")
		s.add(setup+" (hashidx h "+sel+")", "", "typed:selector")
		s.add(setup+" (set (hashidx h "+sel+") 1)", "", "typed:selector")
	}
	// (3b) multiple / destructuring assignment: every number of targets against every number of values,
	// for every kind of value sequence and every front end that reaches AssignInstr / BindlistInstr
	for nl := 0; nl <= 4; nl++ {
		for nr := 0; nr <= 5; nr++ {
			id := next()
			var ts, vs []string
			for i := 0; i < nl; i++ {
				ts = append(ts, fmt.Sprintf("m%s_%d", id, i))
			}
			for i := 0; i < nr; i++ {
				vs = append(vs, fmt.Sprintf("%d", 10+i))
			}
			tComma, tArr := strings.Join(ts, ", "), "["+strings.Join(ts, " ")+"]"
			vComma, vArr := strings.Join(vs, ", "), "["+strings.Join(vs, " ")+"]"
			symT := strings.TrimSpace(strings.Repeat("S ", nl))
			shapeA := fmt.Sprintf("D A %s ; %d", symT, nr)
			shapeB := fmt.Sprintf("D B %s ; %d", symT, nr)
			fdef := "(defn g" + id + " [] " + vArr + ")"
			// s-expression front ends: the quoted target array reaches AssignInstr as lhs *SexpArray
			s.add("(set (quote "+tArr+") "+vArr+")", shapeA+" f1", "typed:multi-assign")
			s.add("(def (quote "+tArr+") "+vArr+")", shapeA+" f2", "typed:multi-assign")
			s.add("((quote "+tArr+") = "+vArr+")", "", "typed:multi-assign")
			s.add(fdef+" (set (quote "+tArr+") (g"+id+"))", shapeA+" f4", "typed:multi-assign")
			s.add("(defn w"+id+" [] (set (quote "+tArr+") "+vArr+")) (w"+id+")", shapeA+" f5", "typed:multi-assign")
			s.add("(set (quote "+tArr+") (list "+strings.Join(vs, " ")+"))", "", "typed:multi-assign")
			s.add("(set (quote "+tArr+") \"ab\")", "", "typed:multi-assign")
			s.add("(set (quote "+tArr+") (hash a: 1))", "", "typed:multi-assign")
			// mdef: BindlistInstr
			if nl >= 1 {
				s.add("(mdef "+strings.Join(ts, " ")+" (list "+strings.Join(vs, " ")+"))", shapeB+" f6", "typed:multi-assign")
				s.add("(mdef "+strings.Join(ts, " ")+" (quote ("+strings.Join(vs, " ")+")))", shapeB+" f7", "typed:multi-assign")
				s.add("(mdef "+strings.Join(ts, " ")+" "+vArr+")", "", "typed:multi-assign")
				s.add("(defn w"+id+" [] (mdef "+strings.Join(ts, " ")+" (list "+strings.Join(vs, " ")+"))) (w"+id+")", shapeB+" f8", "typed:multi-assign")
			}
			// infix front ends (comma lists), also as a bare REPL line and with := and from a call result
			if nl >= 1 {
				for _, op := range []string{"=", ":="} {
					if nr >= 1 {
						s.add("{"+tComma+" "+op+" "+vComma+"}", "", "typed:multi-assign")
						s.add(tComma+" "+op+" "+vComma, "", "typed:multi-assign")
					}
					s.add("{"+tComma+" "+op+" "+vArr+"}", "", "typed:multi-assign")
					s.add(fdef+" {"+tComma+" "+op+" (g"+id+")}", "", "typed:multi-assign")
					s.add(fdef+"\n"+tComma+" "+op+" (g"+id+")", "", "typed:multi-assign")
					s.add("(defn w"+id+" [] {"+tComma+" "+op+" "+vComma+"}) (w"+id+")", "", "typed:multi-assign")
				}
			}
			// a target that is no symbol
			if nl >= 2 {
				bad := append(append([]string{}, ts[:nl-1]...), "7")
				s.add("(set (quote ["+strings.Join(bad, " ")+"]) "+vArr+")", fmt.Sprintf("D A %sX ; %d f9", strings.Repeat("S ", nl-1), nr), "typed:multi-assign")
				s.add("{"+strings.Join(bad, ", ")+" = "+vComma+"}", "", "typed:multi-assign")
				bad2 := append(append([]string{}, ts[:nl-1]...), "h.k")
				s.add("(def h (hash k: 1)) {"+strings.Join(bad2, ", ")+" = "+vComma+"}", "", "typed:multi-assign")
			}
		}
	}
	// (4) typed variables assigned values of every kind
	for _, ty := range []string{"int64", "string", "float64", "bool", "(* int64)", "[]int64", "error"} {
		for _, v := range []string{"1", "\"s\"", "2.5", "true", "nil", "[1]", "(hash)", "(fn [] 1)"} {
			id := next()
			s.add("(var v"+id+" "+ty+") (v"+id+" = "+v+") v"+id, "", "typed:var")
		}
	}
	return s
}
