// c01: no input can crash the host.
//
// Parent mode (default): builds the input streams (token strings, special forms, ill-typed
// builtin calls, corpus mutants, special probes), runs them in CHILD PROCESSES in index ranges
// with a per-input watchdog, so that a hard crash (fatal stack overflow, runaway allocation,
// deadlock) kills only the child; the parent reads the child's progress file to find the
// culprit, re-queues the rest, confirms each culprit alone per entry point, shrinks failures by
// token deletion, replays them through cmd/zygo as a subprocess, and writes
//
//	--out   cases file  "ID<TAB>SHAPE<TAB>IMPL-CLASS"  (model tie of the code generator)
//	--stats JSON        counts, histograms, skip lists, failures with replay data
//
// Worker mode (--worker): see worker.go.
package main

import (
	"bufio"
	"bytes"
	"encoding/binary"
	"encoding/json"
	"fmt"
	"os"
	"os/exec"
	"path/filepath"
	"runtime"
	"sort"
	"strconv"
	"strings"
	"sync"
	"time"

	"verif/harness/lib"
)

type config struct {
	seed     uint64
	tier     string
	repo     string
	zygo     string
	tmp      string
	streams  map[string]bool
	noShrink bool
}

func buildStream(name string, cfg *config) (Stream, map[string]string, error) {
	thorough := cfg.tier == "thorough"
	switch {
	case name == "tokcore":
		l := 4
		if thorough {
			l = 5
		}
		return newTokStream("tokcore", coreAlphabet, l), nil, nil
	case name == "tokext":
		l := 2
		if thorough {
			l = 4
		}
		return newTokStream("tokext", extAlphabet, l), nil, nil
	case name == "forms":
		s, sk := buildForms(newEnv(), cfg.tier)
		return s, sk, nil
	case name == "builtins":
		s, sk := buildBuiltins(newEnv(), cfg.tier)
		return s, sk, nil
	case name == "typed":
		return buildTyped(cfg.tier), nil, nil
	case name == "programs":
		return buildPrograms(cfg.tier), nil, nil
	case name == "infix":
		return buildInfix(cfg.tier), nil, nil
	case name == "prattseq":
		return newPrattStream(cfg.tier, cfg.seed), nil, nil
	case name == "mutants":
		n := 2000
		if thorough {
			n = 200000
		}
		corpus, skipped := loadCorpus(cfg.repo)
		sk := map[string]string{}
		for _, f := range skipped {
			sk[f] = "test script uses the shell, files, channels or timing"
		}
		return &mutStream{n: n, seed: cfg.seed, corpus: corpus}, sk, nil
	case name == "specials":
		s := &listStream{name: "specials"}
		for _, p := range specialProbes(cfg.tier) {
			s.add(p.text, "", "specials:"+p.name)
		}
		return s, nil, nil
	case strings.HasPrefix(name, "file:"):
		s, err := newFileStream(name[5:])
		return s, nil, err
	}
	return nil, nil, fmt.Errorf("unknown stream %q", name)
}

func budgetFor(stream string) int64 {
	switch stream {
	case "mutants":
		return 300000
	case "specials":
		return 300000000
	}
	return 20000
}

// ---- jobs --------------------------------------------------------------------------------

type job struct {
	stream   string
	from, to int
	only     int // entry point or -1
	timeout  time.Duration
}

type culprit struct {
	Stream   string `json:"stream"`
	Idx      int    `json:"idx"`
	Entry    string `json:"entry"`
	Class    string `json:"class"` // KILLED or TIMEOUT
	Rc       int    `json:"rc"`
	Stderr   string `json:"stderr"`
	EnvStart int    `json:"env_start"`
}

type jobResult struct {
	anomalies []anomaly
	culprits  []culprit
	hist      map[string]int
	tags      map[string]int
	tie       []string // "idx\tshape\tclass"
	n         int
}

var self string
var jobSeq int64
var jobSeqMu sync.Mutex

func nextSeq() int64 {
	jobSeqMu.Lock()
	defer jobSeqMu.Unlock()
	jobSeq++
	return jobSeq
}

// fatalTop extracts the first lines of a Go fatal error / panic report and the first zygo frame.
func fatalTop(stderr string) string {
	lines := strings.Split(stderr, "\n")
	var out []string
	for i, l := range lines {
		if strings.HasPrefix(l, "fatal error:") || strings.HasPrefix(l, "panic:") || strings.HasPrefix(l, "runtime:") || strings.HasPrefix(l, "WATCHDOG") {
			out = append(out, strings.TrimSpace(l))
			if len(out) > 3 {
				break
			}
		}
		if strings.Contains(l, "/zygo.") && strings.Contains(l, "zygomys") && len(out) > 0 {
			fn := l[strings.LastIndex(l, "/zygo.")+6:]
			if j := strings.Index(fn, "("); j > 0 {
				fn = fn[:j]
			}
			loc := ""
			if i+1 < len(lines) {
				loc = strings.TrimSpace(lines[i+1])
				if j := strings.LastIndex(loc, "/"); j >= 0 {
					loc = loc[j+1:]
				}
				if j := strings.Index(loc, " "); j > 0 {
					loc = loc[:j]
				}
			}
			out = append(out, "at "+loc+":"+fn)
			break
		}
	}
	return strings.Join(out, " | ")
}

// Bounded time on a tree with MANY hanging inputs: after 2 timeouts with the same (stream, entry point)
// signature the remaining children of that stream run with a 1.2 s per-input limit, and after 6 timeouts
// of one entry point that entry point is switched off for the rest of the stream (the other entry points
// go on; reported in the statistics).
var hangMu sync.Mutex
var hangSig = map[string]int{}
var hangFast = map[string]bool{}
var hangOff = map[string]map[int]bool{} // stream -> entry points switched off
var hangAborted = map[string]int{}      // "stream|entry" -> number of timeouts when it was switched off

func noteHang(stream, entry string) {
	hangMu.Lock()
	defer hangMu.Unlock()
	k := stream + "|" + entry
	hangSig[k]++
	if hangSig[k] >= 2 {
		hangFast[stream] = true
	}
	if hangSig[k] >= 6 {
		if e := entryIndex(entry); e >= 0 {
			if hangOff[stream] == nil {
				hangOff[stream] = map[int]bool{}
			}
			hangOff[stream][e] = true
			hangAborted[k] = hangSig[k]
		}
	}
}

func hangState(stream string) (fast bool, off string) {
	hangMu.Lock()
	defer hangMu.Unlock()
	var l []string
	for e := range hangOff[stream] {
		l = append(l, strconv.Itoa(e))
	}
	sort.Strings(l)
	return hangFast[stream], strings.Join(l, ",")
}

// runJob runs one child over [from,to); on a hard crash it records the culprit and continues
// with the remaining indices in new children.
func runJob(cfg *config, j job) jobResult {
	res := jobResult{hist: map[string]int{}, tags: map[string]int{}}
	pending := []job{j}
	for len(pending) > 0 {
		cur := pending[0]
		pending = pending[1:]
		if cur.from >= cur.to {
			continue
		}
		skip := ""
		if fast, off := hangState(cur.stream); cur.only < 0 && !strings.HasPrefix(cur.stream, "file:") && cur.stream != "specials" {
			skip = off
			if fast && cur.timeout > 1200*time.Millisecond {
				cur.timeout = 1200 * time.Millisecond
			}
		}
		seq := nextSeq()
		prog := filepath.Join(cfg.tmp, fmt.Sprintf("p%d", seq))
		rf := filepath.Join(cfg.tmp, fmt.Sprintf("r%d", seq))
		os.Remove(prog)
		os.Remove(rf)
		args := []string{"--worker", "--stream", cur.stream, "--from", strconv.Itoa(cur.from), "--to", strconv.Itoa(cur.to),
			"--progress", prog, "--result", rf, "--seed", strconv.FormatUint(cfg.seed, 10), "--tier", cfg.tier,
			"--repo", cfg.repo, "--only", strconv.Itoa(cur.only), "--input-timeout", strconv.Itoa(int(cur.timeout / time.Millisecond))}
		if skip != "" {
			args = append(args, "--skip-entries", skip)
		}
		cmd := exec.Command(self, args...)
		cmd.Dir = cfg.tmp
		cmd.Env = append(os.Environ(), "GOMAXPROCS=2", "GOGC=200")
		if strings.HasSuffix(cur.stream, "specials") {
			if cfg.tier == "thorough" {
				cmd.Env = append(cmd.Env, "C01_MAXSTACK_MB=64")
			} else {
				cmd.Env = append(cmd.Env, "C01_MAXSTACK_MB=8")
			}
		}
		var stderr bytes.Buffer
		cmd.Stderr = &limitedWriter{buf: &stderr, max: 1 << 20}
		cmd.Stdout = nil
		done := make(chan error, 1)
		if err := cmd.Start(); err != nil {
			fmt.Fprintln(os.Stderr, "cannot start worker:", err)
			os.Exit(2)
		}
		go func() { done <- cmd.Wait() }()
		// batch watchdog: generous bound on the whole range (the child enforces the per-input limit)
		limit := cur.timeout*3 + time.Duration(cur.to-cur.from)*50*time.Millisecond + 60*time.Second
		var werr error
		timedOut := false
		select {
		case werr = <-done:
		case <-time.After(limit):
			cmd.Process.Kill()
			werr = <-done
			timedOut = true
		}
		rc := 0
		if werr != nil {
			rc = -1
			if ee, ok := werr.(*exec.ExitError); ok {
				rc = ee.ExitCode()
			}
		}
		ok := rc == 0 && !timedOut
		// read what the child wrote (complete checkpoints only)
		var tie, tieOpen []string
		hist, tags := map[string]int{}, map[string]int{}
		n := 0
		if b, err := os.ReadFile(rf); err == nil {
			for _, line := range strings.Split(string(b), "\n") {
				switch {
				case strings.HasPrefix(line, "A\t"):
					var a anomaly
					if json.Unmarshal([]byte(line[2:]), &a) == nil {
						res.anomalies = append(res.anomalies, a)
					}
				case strings.HasPrefix(line, "C\t"):
					tieOpen = append(tieOpen, line[2:])
				case strings.HasPrefix(line, "H\t"):
					var h struct {
						Hist map[string]int `json:"hist"`
						Tags map[string]int `json:"tags"`
						N    int            `json:"n"`
					}
					if json.Unmarshal([]byte(line[2:]), &h) == nil {
						for k, v := range h.Hist {
							hist[k] += v
						}
						for k, v := range h.Tags {
							tags[k] += v
						}
						n += h.N
						tie = append(tie, tieOpen...)
						tieOpen = nil
					}
				}
			}
		}
		{
			res.tie = append(res.tie, tie...)
			for k, v := range hist {
				res.hist[k] += v
			}
			for k, v := range tags {
				res.tags[k] += v
			}
			res.n += n
		}
		if !ok {
			idx, entry := -1, 0
			if b, err := os.ReadFile(prog); err == nil && len(b) >= 16 {
				idx = int(binary.LittleEndian.Uint64(b[:8]))
				entry = int(binary.LittleEndian.Uint64(b[8:16]))
			}
			if idx < cur.from || idx >= cur.to {
				// died before the first input or lost progress: treat the first index as culprit
				idx = cur.from
			}
			if rc == 5 && cur.only != EEval+100 {
				// a new interpreter could not be created any more: find the input that damaged the process
				k := findPoison(cfg, cur.stream, cur.from, idx+1)
				res.culprits = append(res.culprits, culprit{Stream: cur.stream, Idx: k, Entry: "EvalString, then NewZlisp+StandardSetup in the same process", Class: "POISONED", Rc: rc, Stderr: poisonMsg(res.anomalies)})
				pending = append(pending, job{cur.stream, k + 1, cur.to, cur.only, cur.timeout})
				os.Remove(prog)
				os.Remove(rf)
				continue
			}
			class := ObsKilled
			if rc == 3 || timedOut {
				class = ObsTimeout
			}
			en := "tie-compile"
			if entry >= 0 && entry < len(entryNames) {
				en = entryNames[entry]
			}
			res.culprits = append(res.culprits, culprit{Stream: cur.stream, Idx: idx, Entry: en, Class: class, Rc: rc, Stderr: fatalTop(stderr.String()),
				EnvStart: cur.from + ((idx-cur.from)/600)*600})
			if class == ObsTimeout && cur.only < 0 {
				noteHang(cur.stream, en)
			}
			// anomalies already reported for indices of this range stay; re-run the part before the
			// culprit (its statistics were lost) and the part after it
			// statistics up to the last checkpoint were kept; continue after the culprit
			pending = append(pending, job{cur.stream, idx + 1, cur.to, cur.only, cur.timeout})
		}
		os.Remove(prog)
		os.Remove(rf)
	}
	// anomalies can be reported twice when a range was re-run
	seen := map[string]bool{}
	var uniq []anomaly
	for _, a := range res.anomalies {
		k := fmt.Sprintf("%s/%d/%s", a.Stream, a.Idx, a.Entry)
		if !seen[k] {
			seen[k] = true
			uniq = append(uniq, a)
		}
	}
	res.anomalies = uniq
	return res
}

func poisonMsg(as []anomaly) string {
	for i := len(as) - 1; i >= 0; i-- {
		if as[i].Class == "POISONED" {
			return "NewZlisp+StandardSetup panics afterwards: " + as[i].Msg
		}
	}
	return "NewZlisp+StandardSetup panics afterwards"
}

// poisonedRange runs [from,to) through EvalString only in one child and reports whether a new
// interpreter can still be created at the end.
func poisonedRange(cfg *config, stream string, from, to int) bool {
	seq := nextSeq()
	prog := filepath.Join(cfg.tmp, fmt.Sprintf("p%d", seq))
	rf := filepath.Join(cfg.tmp, fmt.Sprintf("r%d", seq))
	cmd := exec.Command(self, "--worker", "--poison-check", "--stream", stream, "--from", strconv.Itoa(from), "--to", strconv.Itoa(to),
		"--progress", prog, "--result", rf, "--seed", strconv.FormatUint(cfg.seed, 10), "--tier", cfg.tier, "--repo", cfg.repo,
		"--only", "0", "--input-timeout", "10000")
	cmd.Dir = cfg.tmp
	cmd.Env = append(os.Environ(), "GOMAXPROCS=2")
	err := cmd.Run()
	os.Remove(prog)
	os.Remove(rf)
	if ee, ok := err.(*exec.ExitError); ok && ee.ExitCode() == 5 {
		return true
	}
	return false
}

// findPoison: smallest k in [from,to) such that evaluating [from..k] poisons the process.
func findPoison(cfg *config, stream string, from, to int) int {
	lo, hi := from, to-1 // invariant: [from..hi] poisons (or nothing does)
	if !poisonedRange(cfg, stream, from, to) {
		return to - 1
	}
	for lo < hi {
		mid := (lo + hi) / 2
		if poisonedRange(cfg, stream, from, mid+1) {
			hi = mid
		} else {
			lo = mid + 1
		}
	}
	return lo
}

type limitedWriter struct {
	buf *bytes.Buffer
	max int
}

func (w *limitedWriter) Write(p []byte) (int, error) {
	if w.buf.Len() < w.max {
		w.buf.Write(p)
	}
	return len(p), nil
}

func runJobs(cfg *config, jobs []job, par int) []jobResult {
	out := make([]jobResult, len(jobs))
	var wg sync.WaitGroup
	ch := make(chan int)
	for p := 0; p < par; p++ {
		wg.Add(1)
		go func() {
			defer wg.Done()
			for i := range ch {
				out[i] = runJob(cfg, jobs[i])
			}
		}()
	}
	for i := range jobs {
		ch <- i
	}
	close(ch)
	wg.Wait()
	return out
}

// ---- failures: confirm, shrink, replay through cmd/zygo -----------------------------------------

type failure struct {
	Class      string            `json:"class"` // PANIC, KILLED, TIMEOUT
	Entry      string            `json:"entry"`
	Site       string            `json:"site"`
	Msg        string            `json:"msg"`
	Stream     string            `json:"stream"`
	Idx        int               `json:"idx"`
	Input      string            `json:"input"`
	Minimal    string            `json:"minimal"`
	Standalone bool              `json:"standalone"`
	Count      int               `json:"count"`    // inputs of this run with the same class and site
	Entries    map[string]string `json:"entries"`  // observable of the minimal input per entry point
	Zygo       map[string]string `json:"cmd_zygo"` // exit status of cmd/zygo on the minimal input
	Tag        string            `json:"tag"`
	EnvStart   int               `json:"env_start"`
	History    []string          `json:"history,omitempty"` // inputs evaluated before it in the same interpreter
}

func entryIndex(name string) int {
	for i, n := range entryNames {
		if n == name {
			return i
		}
	}
	return -1
}

// probe runs the given texts through one entry point and returns class and site per text.
// alone=true: one child per text (needed when a text can kill its child); otherwise one child
// for all texts (the worker replaces its interpreter after every panic).
func probe(cfg *config, texts []string, entry int, timeout time.Duration, budgetStream string, alone bool) []failure {
	path := filepath.Join(cfg.tmp, fmt.Sprintf("probe%d.txt", nextSeq()))
	writeFileStream(path, texts)
	defer os.Remove(path)
	stream := "file:" + path
	if budgetStream != "" && !strings.HasPrefix(budgetStream, "file:") {
		stream = "file:" + path + "#" + budgetStream
	}
	out := make([]failure, len(texts))
	for i := range out {
		out[i] = failure{Input: texts[i]}
	}
	var rs []jobResult
	if alone {
		jobs := make([]job, len(texts))
		for i := range texts {
			jobs[i] = job{stream, i, i + 1, entry, timeout}
		}
		rs = runJobs(cfg, jobs, parallelism())
	} else {
		rs = []jobResult{runJob(cfg, job{stream, 0, len(texts), entry, timeout})}
	}
	for ri, r := range rs {
		for _, a := range r.anomalies {
			if a.Idx >= 0 && a.Idx < len(out) {
				f := &out[a.Idx]
				f.Class, f.Site, f.Msg, f.Entry, f.Standalone = a.Class, a.Site, a.Msg, a.Entry, a.Standalone
			}
		}
		for _, c := range r.culprits {
			if c.Idx >= 0 && c.Idx < len(out) {
				f := &out[c.Idx]
				f.Class, f.Site, f.Entry, f.Standalone, f.Msg = c.Class, c.Stderr, c.Entry, true, c.Stderr
			}
		}
		if alone && out[ri].Class == "" {
			for k := range r.hist {
				if i := strings.Index(k, ":"); i > 0 {
					out[ri].Class = k[i+1:]
				}
			}
		}
	}
	return out
}

func parallelism() int {
	p := runtime.NumCPU() - 2
	if p < 2 {
		p = 2
	}
	if p > 14 {
		p = 14
	}
	return p
}

func sameFailure(a failure, class, site string) bool {
	if a.Class != class {
		return false
	}
	if class == ObsPanic {
		return a.Site == site
	}
	return true
}

func siteKey(class, site string) string {
	if class == ObsPanic {
		return site
	}
	// KILLED/TIMEOUT: first line of the fatal report without addresses
	s := site
	if i := strings.Index(s, " | "); i > 0 {
		s = s[:i]
	}
	if i := strings.Index(s, "WATCHDOG"); i >= 0 {
		s = "WATCHDOG"
	}
	var b strings.Builder
	for _, r := range s {
		if r >= '0' && r <= '9' {
			continue
		}
		b.WriteRune(r)
	}
	return b.String()
}

// shrink: token deletion (ddmin over the coarse tokens), every candidate in its own child.
func shrink(cfg *config, f *failure, timeout time.Duration, maxRounds int) {
	entry := entryIndex(f.Entry)
	if entry < 0 {
		entry = EEval
	}
	toks := scanToks(f.Input)
	if len(toks) > 4000 {
		return
	}
	bstream := f.Stream
	chunk := len(toks) / 2
	rounds := 0
	for chunk >= 1 && rounds < maxRounds {
		var cands []string
		var cuts [][2]int
		for s := 0; s < len(toks); s += chunk {
			e := s + chunk
			if e > len(toks) {
				e = len(toks)
			}
			c := append(append([]string{}, toks[:s]...), toks[e:]...)
			cands = append(cands, strings.Join(c, ""))
			cuts = append(cuts, [2]int{s, e})
			if len(cands) >= 64 || (f.Class != ObsPanic && len(cands) >= 14) {
				break
			}
		}
		rs := probe(cfg, cands, entry, timeout, bstream, f.Class != ObsPanic)
		rounds++
		hit := -1
		for i, r := range rs {
			if sameFailure(r, f.Class, f.Site) || (f.Class != ObsPanic && r.Class == f.Class) {
				hit = i
				break
			}
		}
		if hit >= 0 {
			toks = append(append([]string{}, toks[:cuts[hit][0]]...), toks[cuts[hit][1]:]...)
			if chunk > len(toks)/2 && chunk > 1 {
				chunk = len(toks) / 2
			}
			if len(toks) <= 1 {
				break
			}
			continue
		}
		if chunk == 1 {
			break
		}
		chunk /= 2
	}
	f.Minimal = strings.Join(toks, "")
}

func runZygo(cfg *config, text string, timeout time.Duration) map[string]string {
	out := map[string]string{}
	if cfg.zygo == "" || strings.TrimSpace(text) == "" {
		return out
	}
	run := func(name string, args []string, stdin string) {
		cmd := exec.Command(cfg.zygo, args...)
		cmd.Dir = cfg.tmp
		var se bytes.Buffer
		cmd.Stderr = &limitedWriter{buf: &se, max: 1 << 20}
		cmd.Stdout = nil
		if stdin != "" {
			cmd.Stdin = strings.NewReader(stdin)
		}
		if err := cmd.Start(); err != nil {
			out[name] = "not-started"
			return
		}
		done := make(chan error, 1)
		go func() { done <- cmd.Wait() }()
		select {
		case err := <-done:
			rc := 0
			if err != nil {
				rc = -1
				if ee, ok := err.(*exec.ExitError); ok {
					rc = ee.ExitCode()
				}
			}
			top := fatalTop(se.String())
			cls := "exit"
			if strings.Contains(top, "panic:") {
				cls = "PANIC"
			} else if strings.Contains(top, "fatal error:") || rc == -1 {
				cls = "FATAL"
			}
			out[name] = fmt.Sprintf("%s rc=%d %s", cls, rc, top)
		case <-time.After(timeout):
			cmd.Process.Kill()
			<-done
			out[name] = "TIMEOUT"
		}
	}
	var mu sync.Mutex
	var wg sync.WaitGroup
	outer := out
	out = map[string]string{}
	par := func(name string, args []string, stdin string) {
		wg.Add(1)
		go func() {
			defer wg.Done()
			local := map[string]string{}
			saved := out
			_ = saved
			runOne(cfg, local, name, args, stdin, timeout)
			mu.Lock()
			for k, v := range local {
				outer[k] = v
			}
			mu.Unlock()
		}()
	}
	if len(text) < 100000 && !strings.ContainsRune(text, 0) {
		par("-c", []string{"-c", text}, "")
	}
	script := filepath.Join(cfg.tmp, fmt.Sprintf("script%d.zy", nextSeq()))
	os.WriteFile(script, []byte(text), 0644)
	par("script", []string{"-exitonfail", script}, "")
	par("repl-stdin", []string{"-no-liner", "-quiet"}, text+"\n")
	wg.Wait()
	os.Remove(script)
	_ = run
	return outer
}

func runOne(cfg *config, out map[string]string, name string, args []string, stdin string, timeout time.Duration) {
	cmd := exec.Command(cfg.zygo, args...)
	cmd.Dir = cfg.tmp
	var se bytes.Buffer
	cmd.Stderr = &limitedWriter{buf: &se, max: 1 << 20}
	cmd.Stdout = nil
	if stdin != "" {
		cmd.Stdin = strings.NewReader(stdin)
	}
	if err := cmd.Start(); err != nil {
		out[name] = "not-started"
		return
	}
	done := make(chan error, 1)
	go func() { done <- cmd.Wait() }()
	select {
	case err := <-done:
		rc := 0
		if err != nil {
			rc = -1
			if ee, ok := err.(*exec.ExitError); ok {
				rc = ee.ExitCode()
			}
		}
		top := fatalTop(se.String())
		cls := "exit"
		if strings.Contains(top, "panic:") {
			cls = "PANIC"
		} else if strings.Contains(top, "fatal error:") || rc == -1 {
			cls = "FATAL"
		}
		out[name] = fmt.Sprintf("%s rc=%d %s", cls, rc, top)
	case <-time.After(timeout):
		cmd.Process.Kill()
		<-done
		out[name] = "TIMEOUT"
	}
}

// ---- parent main -----------------------------------------------------------------------------------

func parentMain(a lib.Args, cfg *config) {
	t0 := time.Now()
	tmp, err := os.MkdirTemp("", "c01-")
	if err != nil {
		panic(err)
	}
	defer os.RemoveAll(tmp)
	cfg.tmp = tmp
	out := lib.NewOut(a.Out)
	out.Rule = "nontrivial = an input whose evaluation reached the generator (model-tie cases); evaluations counts every (input, entry point) run"

	order := []string{"builtins", "forms", "specials", "programs", "typed", "infix", "prattseq", "mutants", "tokext", "tokcore"}
	chunk := map[string]int{"specials": 1, "forms": 1500, "builtins": 800, "programs": 150, "typed": 150, "infix": 400, "prattseq": 2500, "mutants": 100, "tokext": 8000, "tokcore": 8000}
	inputTimeout := 10 * time.Second
	if cfg.tier == "thorough" {
		inputTimeout = 20 * time.Second
	}
	var jobs []job
	streams := map[string]Stream{}
	skips := map[string]map[string]string{}
	counts := map[string]int{}
	if a.Replay != "" {
		// replay file: {"input": "...", "entry": "..."} -> run that single text through every entry point
		var rp struct {
			Input string `json:"input"`
			Cases []struct {
				Input string `json:"input"`
			} `json:"cases"`
			History []string `json:"history"`
		}
		b, err := os.ReadFile(a.Replay)
		if err == nil {
			json.Unmarshal(b, &rp)
		}
		texts := []string{}
		if rp.Input != "" {
			texts = append(texts, rp.Input)
		}
		for _, c := range rp.Cases {
			texts = append(texts, c.Input)
		}
		path := filepath.Join(tmp, "replay.txt")
		order = []string{"file:" + path}
		chunk[order[0]] = 1
		if len(rp.History) > 0 {
			// a history-dependent failure: the whole history in ONE interpreter, in order
			texts = rp.History
			chunk[order[0]] = len(texts)
		}
		writeFileStream(path, texts)
	}
	for _, name := range order {
		if len(cfg.streams) > 0 && !cfg.streams[name] {
			continue
		}
		st, sk, err := buildStream(name, cfg)
		if err != nil {
			fmt.Fprintln(os.Stderr, err)
			os.Exit(2)
		}
		streams[name] = st
		if sk != nil {
			skips[name] = sk
		}
		counts[name] = st.Count()
		c := chunk[name]
		if c == 0 {
			c = 1
		}
		to := inputTimeout
		if name == "specials" {
			to = 8 * time.Second
			if cfg.tier == "thorough" {
				to = 120 * time.Second
			}
		}
		for f := 0; f < st.Count(); f += c {
			e := f + c
			if e > st.Count() {
				e = st.Count()
			}
			jobs = append(jobs, job{name, f, e, -1, to})
		}
	}
	results := runJobs(cfg, jobs, parallelism())
	tScan := time.Since(t0)
	fmt.Fprintf(os.Stderr, "c01: scan done %.1fs\n", tScan.Seconds())

	// aggregate
	hist := map[string]int{}
	tags := map[string]int{}
	var anomalies []anomaly
	var culprits []culprit
	evaluations := 0
	type tieLine struct {
		stream string
		idx    int
		rest   string
	}
	var ties []tieLine
	for i, r := range results {
		for k, v := range r.hist {
			hist[k] += v
			evaluations += v
		}
		for k, v := range r.tags {
			tags[k] += v
		}
		anomalies = append(anomalies, r.anomalies...)
		culprits = append(culprits, r.culprits...)
		for _, t := range r.tie {
			p := strings.SplitN(t, "\t", 2)
			idx, _ := strconv.Atoi(p[0])
			if len(p) == 2 {
				ties = append(ties, tieLine{jobs[i].stream, idx, p[1]})
			}
		}
	}
	// tie cases -> cases file (dedup by shape)
	sort.Slice(ties, func(i, j int) bool {
		if ties[i].stream != ties[j].stream {
			return ties[i].stream < ties[j].stream
		}
		return ties[i].idx < ties[j].idx
	})
	seenShape := map[string]bool{}
	tieInputs := map[int]string{}
	for _, t := range ties {
		p := strings.SplitN(t.rest, "\t", 2)
		if len(p) != 2 || seenShape[p[0]] {
			continue
		}
		seenShape[p[0]] = true
		id := out.Case(p[0], p[1], true, "tie:"+t.stream)
		tieInputs[id] = streams[t.stream].Input(t.idx)
	}
	// write the texts of the tie cases next to the cases file (for replay of a tie mismatch)
	if tf, err := os.Create(a.Out + ".texts"); err == nil {
		w := bufio.NewWriter(tf)
		ids := make([]int, 0, len(tieInputs))
		for id := range tieInputs {
			ids = append(ids, id)
		}
		sort.Ints(ids)
		for _, id := range ids {
			fmt.Fprintf(w, "%d\t%s\n", id, strconv.Quote(tieInputs[id]))
		}
		w.Flush()
		tf.Close()
	}

	// failures: group by class+site, confirm the hard ones per entry point, shrink, replay
	groups := map[string]*failure{}
	var keys []string
	addFailure := func(f failure) {
		k := f.Class + "|" + siteKey(f.Class, f.Site)
		if f.Stream == "specials" {
			k += "|" + f.Tag
		} else if f.Class == ObsTimeout {
			k += "|" + f.Entry + "|" + f.Tag
		} else if f.Class != ObsPanic && f.Stream == "builtins" {
			k += "|" + strings.TrimSuffix(f.Tag, ":apply")
		}
		if g, ok := groups[k]; ok {
			g.Count++
			if (f.Standalone && !g.Standalone) || (len(f.Input) < len(g.Input) && (f.Standalone || !g.Standalone)) {
				cnt := g.Count
				*g = f
				g.Count = cnt
			}
			return
		}
		f.Count = 1
		ff := f
		groups[k] = &ff
		keys = append(keys, k)
	}
	for _, an := range anomalies {
		if an.Class == "POISONED" {
			continue // represented by the culprit found by bisection
		}
		addFailure(failure{Class: an.Class, Entry: an.Entry, Site: an.Site, Msg: an.Msg, Stream: an.Stream, Idx: an.Idx,
			Input: an.Input, Standalone: an.Standalone, Tag: streams[an.Stream].Tag(an.Idx), EnvStart: an.EnvStart})
	}
	for _, c := range culprits {
		st := streams[c.Stream]
		addFailure(failure{Class: c.Class, Entry: c.Entry, Site: c.Stderr, Msg: c.Stderr, Stream: c.Stream, Idx: c.Idx,
			Input: st.Input(c.Idx), Standalone: false, Tag: st.Tag(c.Idx), EnvStart: c.EnvStart})
	}
	sort.Strings(keys)
	var failures []*failure
	maxShrink := 24
	{
		var fwg sync.WaitGroup
		fsem := make(chan bool, 6)
		for n, k := range keys {
			f := groups[k]
			f.Minimal = f.Input
			failures = append(failures, f)
			fwg.Add(1)
			fsem <- true
			go func(n int, f *failure) {
				defer func() { <-fsem; fwg.Done() }()
				f.Entries = map[string]string{}
				if f.Stream == "specials" {
					// already ran alone in its own child; cmd/zygo (default 1 GB Go stack) only in the thorough tier
					f.Standalone = true
					if f.Class == ObsTimeout && !strings.HasPrefix(f.Tag, "specials:chan-") {
						// a probe that is merely slow under machine load: once more, alone, with three times the limit
						r0 := probe(cfg, []string{f.Input}, EEval, 24*time.Second, "specials", true)
						if r0[0].Class != ObsTimeout && r0[0].Class != ObsKilled {
							f.Class = "UNCONFIRMED-" + f.Class
							return
						}
						f.Class = r0[0].Class
						f.Site, f.Msg = r0[0].Site, r0[0].Msg
					}
					if cfg.tier == "thorough" {
						f.Zygo = runZygo(cfg, f.Minimal, 120*time.Second)
					}
					return
				}
				if cfg.noShrink || n >= maxShrink {
					return
				}
				to := inputTimeout
				if f.Class == ObsPanic {
					shrink(cfg, f, to, 60)
					f.Standalone = false
					for _, e := range entriesFor(f.Stream) {
						r := probe(cfg, []string{f.Minimal}, e, to, f.Stream, true)
						f.Entries[entryNames[e]] = r[0].Class
						if r[0].Class == f.Class && r[0].Site == f.Site {
							f.Standalone = true
						}
					}
				} else {
					// a timeout or kill seen under load must repeat alone with a generous limit, else it is dropped
					e0 := entryIndex(f.Entry)
					if e0 < 0 {
						e0 = EEval
					}
					if f.Class != "POISONED" {
						r0 := probe(cfg, []string{f.Input}, e0, 3*inputTimeout, f.Stream, true)
						if r0[0].Class != f.Class {
							// not alone: does it repeat after the history of its interpreter (same child, same order)?
							f.Entries[entryNames[e0]] = r0[0].Class
							hr := jobResult{}
							if f.EnvStart >= 0 && f.EnvStart <= f.Idx && !strings.HasPrefix(f.Stream, "file:") {
								hr = runJob(cfg, job{f.Stream, f.EnvStart, f.Idx + 1, e0, 3 * inputTimeout})
							}
							if len(hr.culprits) == 0 {
								f.Class = "UNCONFIRMED-" + f.Class
								return
							}
							f.Standalone = false
							f.Idx = hr.culprits[0].Idx
							f.Input = streams[f.Stream].Input(f.Idx)
							f.Minimal = f.Input
							f.Msg = fmt.Sprintf("%s | repeats only after the history of its interpreter: stream %s inputs %d..%d through %s", f.Msg, f.Stream, f.EnvStart, f.Idx, entryNames[e0])
							n := 0
							for i := f.EnvStart; i <= f.Idx && n < 700; i++ {
								f.History = append(f.History, streams[f.Stream].Input(i))
								n++
							}
							f.Zygo = map[string]string{}
							return
						}
					}
					to = 3 * inputTimeout
					if f.Class == ObsKilled {
						shrink(cfg, f, to, 6)
					}
					e := entryIndex(f.Entry)
					if e < 0 {
						e = EEval
					}
					r := probe(cfg, []string{f.Minimal}, e, to, f.Stream, true)
					f.Entries[entryNames[e]] = r[0].Class
					if r[0].Class == f.Class {
						f.Standalone = true
					}
				}
				f.Zygo = runZygo(cfg, f.Minimal, 8*time.Second)
			}(n, f)
		}
		fwg.Wait()
	}
	fmt.Fprintf(os.Stderr, "c01: failure groups processed %.1fs\n", time.Since(t0).Seconds())
	// cmd/zygo on a sample of ordinary inputs (exit status only)
	zygoSample := map[string]int{}
	if cfg.zygo != "" && a.Replay == "" {
		r := lib.NewRng(cfg.seed + 99)
		var names []string
		for n := range streams {
			if n != "specials" && n != "builtins" {
				names = append(names, n)
			}
		}
		sort.Strings(names)
		ns := 24
		if cfg.tier == "thorough" {
			ns = 600
		}
		var mu sync.Mutex
		var wg sync.WaitGroup
		sem := make(chan bool, parallelism())
		for i := 0; i < ns && len(names) > 0; i++ {
			st := streams[names[r.Intn(len(names))]]
			text := st.Input(r.Intn(st.Count()))
			if pr := probe(cfg, []string{text}, ERepl, 10*time.Second, st.Name(), true); pr[0].Class == ObsBudget || pr[0].Class == ObsTimeout || pr[0].Class == ObsMore {
				// cmd/zygo has no step budget: a text that loops (or waits for more lines) is not sampled
				zygoSample["skipped-loops-in-process"]++
				continue
			}
			wg.Add(1)
			sem <- true
			go func() {
				defer wg.Done()
				z := runZygo(cfg, text, 8*time.Second)
				for _, v := range z {
					if strings.HasPrefix(v, "TIMEOUT") {
						// slow under machine load, or really hanging? once more with four times the limit
						z = runZygo(cfg, text, 32*time.Second)
						break
					}
				}
				mu.Lock()
				for k, v := range z {
					cls := strings.SplitN(v, " ", 2)[0]
					zygoSample[k+":"+cls]++
					if cls == "PANIC" || cls == "FATAL" || cls == "TIMEOUT" {
						failures = append(failures, &failure{Class: "ZYGO-" + cls, Entry: "cmd/zygo " + k, Site: v, Msg: v, Input: text, Minimal: text, Standalone: true, Count: 1, Zygo: z, Stream: st.Name()})
					}
				}
				mu.Unlock()
				<-sem
			}()
		}
		wg.Wait()
	}

	out.Extra["evaluations"] = evaluations
	out.Extra["inputs_per_stream"] = counts
	out.Extra["observables"] = hist
	out.Extra["skip_lists"] = skips
	out.Extra["failures"] = failures
	out.Extra["failure_groups"] = len(failures)
	out.Extra["anomalies_total"] = len(anomalies)
	out.Extra["hard_culprits_total"] = len(culprits)
	out.Extra["cmd_zygo_sample"] = zygoSample
	out.Extra["parallel_children"] = parallelism()
	out.Extra["streams_aborted_after_repeated_hangs"] = hangAborted
	out.Extra["scan_wall_s"] = tScan.Seconds()
	out.Extra["wall_s"] = time.Since(t0).Seconds()
	out.Extra["alphabets"] = map[string]int{"core": len(coreAlphabet), "extended": len(extAlphabet)}
	// compact distribution: per stream and token length, not per head
	for k, v := range tags {
		p := k
		if i := strings.Index(k, ":"); i > 0 && !strings.HasPrefix(k, "tok") && !strings.HasPrefix(k, "specials") {
			p = k[:i]
		}
		out.Dist[p] += v
	}
	out.Close(a.Stats)
	// Close overwrote evaluations with the number of tie cases; the stats file keeps Extra (written last)
	fmt.Printf("c01: %d evaluations over %d inputs, %d tie cases, %d failure group(s), scan %.1fs, total %.1fs\n",
		evaluations, sum(counts), out.N(), len(failures), tScan.Seconds(), time.Since(t0).Seconds())
	for _, f := range failures {
		fmt.Printf("  %s entry=%s site=%s count=%d minimal=%s\n", f.Class, f.Entry, trunc(siteKey(f.Class, f.Site), 90), f.Count, strconv.Quote(trunc(f.Minimal, 100)))
	}
}

func sum(m map[string]int) int {
	n := 0
	for _, v := range m {
		n += v
	}
	return n
}

func trunc(s string, n int) string {
	if len(s) > n {
		return s[:n] + "..."
	}
	return s
}

func main() {
	self, _ = os.Executable()
	a := lib.ParseArgs()
	cfg := &config{seed: a.Seed, tier: a.Tier, repo: "/repo", streams: map[string]bool{}}
	if r := os.Getenv("VERIF_REPO"); r != "" {
		cfg.repo = r
	}
	worker := false
	dump := false
	var wStream, wProg, wRes string
	wFrom, wTo, wOnly := 0, 0, -1
	wTimeout := 10 * time.Second
	for i := 0; i < len(a.Rest); i++ {
		next := func() string {
			i++
			if i < len(a.Rest) {
				return a.Rest[i]
			}
			return ""
		}
		switch a.Rest[i] {
		case "--worker":
			worker = true
		case "--dump":
			dump = true
		case "--stream":
			wStream = next()
		case "--streams":
			for _, s := range strings.Split(next(), ",") {
				cfg.streams[s] = true
			}
		case "--from":
			wFrom, _ = strconv.Atoi(next())
		case "--to":
			wTo, _ = strconv.Atoi(next())
		case "--only":
			wOnly, _ = strconv.Atoi(next())
		case "--progress":
			wProg = next()
		case "--result":
			wRes = next()
		case "--repo":
			cfg.repo = next()
		case "--skip-entries":
			for _, x := range strings.Split(next(), ",") {
				if e, err := strconv.Atoi(x); err == nil {
					skipEntries[e] = true
				}
			}
		case "--poison-check":
			poisonCheck = true
		case "--no-shrink":
			cfg.noShrink = true
		case "--zygo":
			cfg.zygo = next()
		case "--input-timeout":
			ms, _ := strconv.Atoi(next())
			if ms > 0 {
				wTimeout = time.Duration(ms) * time.Millisecond
			}
		}
	}
	if dump {
		st, _, err := buildStream(wStream, cfg)
		if err != nil {
			fmt.Fprintln(os.Stderr, err)
			os.Exit(9)
		}
		for i := wFrom; i < wTo && i < st.Count(); i++ {
			fmt.Printf("%d\t%s\t%s\n", i, st.Tag(i), strconv.Quote(st.Input(i)))
		}
		return
	}
	if worker {
		budgetName := wStream
		if i := strings.Index(wStream, "#"); i > 0 {
			budgetName = wStream[i+1:]
			wStream = wStream[:i]
		}
		st, _, err := buildStream(wStream, cfg)
		if err != nil {
			fmt.Fprintln(os.Stderr, err)
			os.Exit(9)
		}
		if wTo > st.Count() {
			wTo = st.Count()
		}
		workerMain(st, wFrom, wTo, wProg, wRes, budgetFor(budgetName), wOnly, wTimeout)
		return
	}
	parentMain(a, cfg)
}
