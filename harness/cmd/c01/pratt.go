package main

// Tie of the crash-level Pratt model (coq/Model/PrattShape.v, theorem pratt_total) to zygo/pratt.go:
// for every (infix [...]) block the real reader builds from an input, the token array is dumped and
// the real InfixExpandArray is run on it (nothing is evaluated): outcome ok:<statements> | err | crash.
// The stream prattseq enumerates every statement over the Pratt token alphabet up to a length bound
// plus seeded longer random ones.

import (
	"bytes"
	"fmt"
	"strings"

	"github.com/glycerine/zygomys/v9/zygo"

	"verif/harness/lib"
)

// prattAlphabet: one text per token class pratt.go distinguishes (operators with every kind of
// nud / led, the words of the go-style for header, body blocks, selectors, separators, operands).
var prattAlphabet = []string{
	"for", "range", ":=", "=", "a", "lbl:", "{ }", "{ a }", ";", ",", "1", "[ 0 ]", "[ 1 : ]",
	"if", "else", "break", "+", "++", "a.b", "( f )", "not", "-",
}

// longer statements draw from a wider alphabet
var prattWide = append(append([]string{}, prattAlphabet...),
	"continue", "*", "**", "and", "==", "+=", "--", ".", ":", "[ ]", "[ : ]", "[ a: 2 ]", "[ 1 : 2 : 3 ]", "[ 1 2 ]", "[ [ 0 ] : ]",
	"\"s\"", "'c'", "1.5", "true", "nil", "{ a: 1 }", "( )", "/* c */", "x:", "i", "_", "mod", "comma", "infix", "(infix)", "( infix [ 1 ] )", "<", "return")

type prattStream struct {
	ex    *tokStream
	nRand int
	seed  uint64
}

func newPrattStream(tier string, seed uint64) *prattStream {
	l, n := 3, 3000
	if tier == "thorough" {
		l, n = 4, 60000
	}
	return &prattStream{ex: newTokStream("prattseq", prattAlphabet, l), nRand: n, seed: seed}
}
func (s *prattStream) Name() string       { return "prattseq" }
func (s *prattStream) Count() int         { return s.ex.Count() + s.nRand }
func (s *prattStream) Shape(i int) string { return "" }
func (s *prattStream) Input(i int) string {
	if i < s.ex.Count() {
		return "{" + strings.Join(s.ex.tokens(i), " ") + "}"
	}
	r := lib.NewRng(s.seed*1000003 + uint64(i)*104729 + 5)
	n := 4 + r.Intn(8)
	toks := make([]string, n)
	for k := range toks {
		if r.Intn(3) == 0 {
			toks[k] = prattWide[r.Intn(len(prattWide))]
		} else {
			toks[k] = prattAlphabet[r.Intn(len(prattAlphabet))]
		}
	}
	return "{" + strings.Join(toks, " ") + "}"
}
func (s *prattStream) Tag(i int) string {
	if i < s.ex.Count() {
		return "prattseq:" + strings.TrimPrefix(s.ex.Tag(i), "prattseq:")
	}
	return "prattseq:random"
}

func prattEnc(s string) string {
	var b strings.Builder
	for i := 0; i < len(s); i++ {
		switch s[i] {
		case ' ':
			b.WriteString("\\s")
		case '\t':
			b.WriteString("\\t")
		case '\n':
			b.WriteString("\\n")
		case '\\':
			b.WriteString("\\\\")
		default:
			b.WriteByte(s[i])
		}
	}
	return b.String()
}

func isInfixPair(p *zygo.SexpPair) bool {
	h, ok := p.Head.(*zygo.SexpSymbol)
	return ok && h.Name() == "infix"
}

// prattTok writes one token of an infix array in the format of ocaml/c01/run.ml ("Q" cases).
func prattTok(x zygo.Sexp, sb *strings.Builder, depth int) bool {
	if depth > 60 {
		return false
	}
	switch v := x.(type) {
	case *zygo.SexpSymbol:
		dot, colon, _, _ := v.VerifFlags()
		switch {
		case dot:
			sb.WriteString("d:" + prattEnc(v.Name()))
		case colon:
			sb.WriteString("l:" + prattEnc(v.Name()))
		default:
			sb.WriteString("s:" + prattEnc(v.Name()))
		}
	case *zygo.SexpInt:
		sb.WriteString("i")
	case *zygo.SexpFloat:
		sb.WriteString("f")
	case *zygo.SexpBool:
		sb.WriteString("b")
	case *zygo.SexpStr:
		sb.WriteString("q")
	case *zygo.SexpComma:
		sb.WriteString("c")
	case *zygo.SexpSemicolon:
		sb.WriteString("m")
	case *zygo.SexpComment:
		sb.WriteString("k")
	case *zygo.SexpPair:
		if isInfixPair(v) {
			if _, empty := v.Tail.(*zygo.SexpSentinel); empty {
				sb.WriteString("B1")
			} else {
				sb.WriteString("B0")
			}
		} else {
			sb.WriteString("p")
		}
	case *zygo.SexpHash:
		if v.NumKeys == 0 {
			sb.WriteString("H1")
		} else {
			sb.WriteString("H0")
		}
	case *zygo.SexpArray:
		sb.WriteString("a[")
		for _, e := range v.Val {
			sb.WriteByte(' ')
			if !prattTok(e, sb, depth+1) {
				return false
			}
		}
		sb.WriteString(" ]")
	default:
		sb.WriteString("o")
	}
	return true
}

// infixForms collects every pair whose head is the symbol infix or infixExpand (proper argument list).
func infixForms(x zygo.Sexp, out *[]*zygo.SexpPair, depth int) {
	if depth > 60 || len(*out) >= 12 {
		return
	}
	switch v := x.(type) {
	case *zygo.SexpPair:
		if h, ok := v.Head.(*zygo.SexpSymbol); ok && (h.Name() == "infix" || h.Name() == "infixExpand") {
			*out = append(*out, v)
		}
		infixForms(v.Head, out, depth+1)
		infixForms(v.Tail, out, depth+1)
	case *zygo.SexpArray:
		for _, e := range v.Val {
			infixForms(e, out, depth+1)
		}
	}
}

// infixFormCase dumps the arguments of an (infix ...) / (infixExpand ...) form the way InfixArgsToArray
// looks at them and runs the real InfixArgsToArray + InfixExpandArray (what GenerateInfix / InfixBuilder do
// before anything is generated or evaluated).
func (w *worker) infixFormCase(form *zygo.SexpPair) (string, string, bool) {
	name := form.Head.(*zygo.SexpSymbol).Name()
	var args []zygo.Sexp
	t := form.Tail
	for {
		p, ok := t.(*zygo.SexpPair)
		if !ok {
			break
		}
		args = append(args, p.Head)
		t = p.Tail
	}
	if t != zygo.SexpNull || len(args) > 4 {
		return "", "", false
	}
	var sb strings.Builder
	if name == "infixExpand" {
		sb.WriteString("G E")
	} else {
		sb.WriteString("G I")
	}
	for _, a := range args {
		sb.WriteByte(' ')
		switch v := a.(type) {
		case *zygo.SexpArray:
			sb.WriteString("AA ")
			if !prattTok(v, &sb, 0) {
				return "", "", false
			}
		case *zygo.SexpPair:
			switch tl := v.Tail.(type) {
			case *zygo.SexpSentinel:
				sb.WriteString("PS")
			case *zygo.SexpPair:
				if arr, ok := tl.Head.(*zygo.SexpArray); ok {
					sb.WriteString("PA ")
					if !prattTok(arr, &sb, 0) {
						return "", "", false
					}
				} else {
					sb.WriteString("PO")
				}
			default:
				sb.WriteString("PD")
			}
		case *zygo.SexpHash:
			sb.WriteString("H")
		default:
			sb.WriteString("O")
		}
	}
	if sb.Len() > 3000 {
		return "", "", false
	}
	env := w.tieEnv
	class, _ := guard(func() string {
		arr, empty, err := zygo.InfixArgsToArray(name, args)
		if err != nil {
			return "err"
		}
		if empty {
			return "ok:0"
		}
		ys, err := zygo.InfixExpandArray(env, arr)
		if err != nil {
			return "err"
		}
		return fmt.Sprintf("ok:%d", len(ys))
	})
	if class == ObsPanic {
		class = "crash"
		w.tieEnv = newEnv()
	}
	return sb.String(), class, true
}

// infixArrays collects the token array of every (infix [...]) block below x (nested blocks are
// expanded by their own InfixExpandArray call when the generator reaches them).
func infixArrays(x zygo.Sexp, out *[]*zygo.SexpArray, depth int) {
	if depth > 60 || len(*out) >= 12 {
		return
	}
	switch v := x.(type) {
	case *zygo.SexpPair:
		if isInfixPair(v) {
			if t, ok := v.Tail.(*zygo.SexpPair); ok {
				if arr, ok := t.Head.(*zygo.SexpArray); ok {
					*out = append(*out, arr)
				}
			}
		}
		infixArrays(v.Head, out, depth+1)
		infixArrays(v.Tail, out, depth+1)
	case *zygo.SexpArray:
		for _, e := range v.Val {
			infixArrays(e, out, depth+1)
		}
	}
}

// prattObserve returns (shape, class) pairs for the infix blocks of src. bare: also read the text
// the way the REPL does (the line wrapped in an infix block).
func (w *worker) prattObserve(src string, bare bool) [][2]string {
	env := w.tieEnv
	var res [][2]string
	texts := []string{src}
	if bare && !strings.HasPrefix(strings.TrimSpace(src), "{") {
		texts = append(texts, "{"+src+"}")
	}
	for _, text := range texts {
		var xs []zygo.Sexp
		obs, _ := guard(func() string {
			p := env.VerifParser()
			p.ResetAddNewInput(zygo.WholeText(bytes.NewBuffer([]byte(text))))
			var err error
			xs, err = p.ParseTokens()
			if err != nil {
				return ObsError
			}
			return ObsValue
		})
		if obs != ObsValue {
			guard(func() string { env.VerifParser().Reset(); return "" })
			continue
		}
		var arrs []*zygo.SexpArray
		var forms []*zygo.SexpPair
		for _, x := range xs {
			infixArrays(x, &arrs, 0)
			infixForms(x, &forms, 0)
		}
		for _, f := range forms {
			if shape, class, ok := w.infixFormCase(f); ok {
				res = append(res, [2]string{shape, class})
			}
		}
		env = w.tieEnv
		for _, arr := range arrs {
			var sb strings.Builder
			sb.WriteString("Q")
			ok := true
			for _, e := range arr.Val {
				sb.WriteByte(' ')
				if !prattTok(e, &sb, 0) {
					ok = false
					break
				}
			}
			if !ok || sb.Len() > 3000 {
				continue
			}
			class, _ := guard(func() string {
				ys, err := zygo.InfixExpandArray(env, arr)
				if err != nil {
					return "err"
				}
				return fmt.Sprintf("ok:%d", len(ys))
			})
			if class == ObsPanic {
				class = "crash"
				w.tieEnv = newEnv()
				env = w.tieEnv
			}
			res = append(res, [2]string{sb.String(), class})
		}
	}
	return res
}
