package main

import (
	"bufio"
	"fmt"
	"os"
	"path/filepath"
	"sort"
	"strconv"
	"strings"

	"verif/harness/lib"
)

// A stream is a deterministic, indexable family of inputs. Parent and worker
// processes rebuild the same stream from (name, seed, tier), so a job is just
// an index range and a replay is (stream, index) or the text itself.
type Stream interface {
	Name() string
	Count() int
	Input(i int) string
	// Shape returns the shape code of a special-form case ("" when the stream has no model tie).
	Shape(i int) string
	Tag(i int) string
}

// ---- token alphabets ---------------------------------------------------

// coreAlphabet: every delimiter and sigil of the lexer plus one digit, one letter,
// blank and newline. Multi-character entries count as one symbol.
var coreAlphabet = []string{
	"(", ")", "[", "]", "{", "}", "\"", "'", "`", "~", "~@", "^", "%", ":", ";", ",", ".",
	"-", "/", "*", "\\", "#", "1", "a", " ", "\n",
}

// extAlphabet adds operators and multi-character tokens.
var extAlphabet = append(append([]string{}, coreAlphabet...),
	"+", "&", "\"s\"", "'c'", ":=", "//", "/*", "*/", "1.5", "0x", "-1", "a.b", "a:", "$", "=",
	"<", ">", "!", "@", "|", "?", "_", "e", "ULL", "0o", "0b", ".5", "NaN", "Inf", "for", "hash",
	"\t", "\r", "\\n", "''", "true", "quote", "&&", "->", "é")

type tokStream struct {
	name  string
	alpha []string
	maxL  int
	cum   []int // cum[l] = number of strings of length < l+... (prefix sums)
}

func newTokStream(name string, alpha []string, maxL int) *tokStream {
	s := &tokStream{name: name, alpha: alpha, maxL: maxL}
	n, p := 0, 1
	s.cum = append(s.cum, 0)
	for l := 0; l <= maxL; l++ {
		n += p
		s.cum = append(s.cum, n)
		p *= len(alpha)
	}
	return s
}
func (s *tokStream) Name() string { return s.name }
func (s *tokStream) Count() int   { return s.cum[len(s.cum)-1] }
func (s *tokStream) tokens(i int) []string {
	l := 0
	for i >= s.cum[l+1] {
		l++
	}
	k := i - s.cum[l]
	toks := make([]string, l)
	for j := l - 1; j >= 0; j-- {
		toks[j] = s.alpha[k%len(s.alpha)]
		k /= len(s.alpha)
	}
	return toks
}
func (s *tokStream) Input(i int) string { return strings.Join(s.tokens(i), "") }
func (s *tokStream) Shape(i int) string { return "" }
func (s *tokStream) Tag(i int) string {
	l := 0
	for i >= s.cum[l+1] {
		l++
	}
	return fmt.Sprintf("%s:len%d", s.name, l)
}

// ---- materialised streams -------------------------------------------------

type listStream struct {
	name   string
	inputs []string
	shapes []string
	tags   []string
}

func (s *listStream) Name() string       { return s.name }
func (s *listStream) Count() int         { return len(s.inputs) }
func (s *listStream) Input(i int) string { return s.inputs[i] }
func (s *listStream) Shape(i int) string {
	if s.shapes == nil {
		return ""
	}
	return s.shapes[i]
}
func (s *listStream) Tag(i int) string {
	if s.tags == nil {
		return s.name
	}
	return s.tags[i]
}
func (s *listStream) add(in, shape, tag string) {
	s.inputs = append(s.inputs, in)
	if shape != "" || s.shapes != nil {
		for len(s.shapes) < len(s.inputs)-1 {
			s.shapes = append(s.shapes, "")
		}
		s.shapes = append(s.shapes, shape)
	}
	s.tags = append(s.tags, tag)
}

// file stream: one strconv.Quote'd input per line
func newFileStream(path string) (*listStream, error) {
	f, err := os.Open(path)
	if err != nil {
		return nil, err
	}
	defer f.Close()
	s := &listStream{name: "file:" + path}
	sc := bufio.NewScanner(f)
	sc.Buffer(make([]byte, 1<<24), 1<<26)
	for sc.Scan() {
		line := sc.Text()
		if line == "" {
			continue
		}
		parts := strings.SplitN(line, "\t", 2)
		t, err := strconv.Unquote(parts[0])
		if err != nil {
			return nil, fmt.Errorf("bad line in %s: %v", path, err)
		}
		shape := ""
		if len(parts) > 1 {
			shape = parts[1]
		}
		s.add(t, shape, "file")
	}
	return s, nil
}

func writeFileStream(path string, inputs []string) error {
	f, err := os.Create(path)
	if err != nil {
		return err
	}
	w := bufio.NewWriter(f)
	for _, in := range inputs {
		w.WriteString(strconv.Quote(in))
		w.WriteByte('\n')
	}
	w.Flush()
	return f.Close()
}

// ---- special probes (each runs alone in its own child) ----------------------------

type special struct{ name, text string }

func deep(open, close string, n int) string {
	return strings.Repeat(open, n) + strings.Repeat(close, n)
}

func specialProbes(tier string) []special {
	// The quick tier runs these with the Go stack limit lowered to 32 MB (C01_MAXSTACK_MB), so that
	// unbounded Go recursion shows within seconds; the thorough tier uses sizes that overflow the
	// default 1 GB stack as well and replays the failures through cmd/zygo.
	nest, flat, rec := 60000, 300000, 1500
	if tier == "thorough" {
		nest, flat, rec = 500000, 2500000, 30000
	}
	recs := fmt.Sprintf("%d", rec)
	all := []special{
		{"chan-recv-empty", "(<! (makeChan))"},
		{"chan-recv-def", "(def c (makeChan)) (<! c)"},
		{"chan-send-unbuffered", "(def c (makeChan)) (send c 1)"},
		{"deep-recursion-nontail", "(defn f [n] (cond (== n 0) 0 (+ 1 (f (- n 1))))) (f " + recs + ")"},
		{"deep-nesting-parens", deep("(", ")", nest)},
		{"deep-nesting-open-only", strings.Repeat("(", nest)},
		{"deep-nesting-arrays", deep("[", "]", nest)},
		{"deep-nesting-curly", deep("{", "}", nest)},
		{"deep-nesting-quote", strings.Repeat("%", nest) + "a"},
		{"deep-nesting-list-data", "(def x " + deep("(list ", ")", nest/2) + ")"},
		{"long-flat-list", "(quote (" + strings.Repeat("1 ", flat) + "))"},
		{"many-args", "(+ " + strings.Repeat("1 ", flat) + ")"},
		{"deep-array-print", "(def x []) (for [(def i 0) (< i 60000) (set i (+ i 1))] (set x [x])) (str x)"},
		{"self-containing-array", "(def a [1]) (aset a 0 a) (str a)"},
		{"self-containing-hash", "(def h (hash a:1)) (hset h b: h) (str h)"},
		{"self-containing-hash-json", "(def h (hash a:1)) (hset h b: h) (json h)"},
		{"self-expanding-macro", "(defmac m [n] ^(m ~n)) (m 1)"},
		{"huge-alloc-makeArray", "(makeArray 1000000000000)"},
		{"huge-alloc-makeArray-neg", "(makeArray -1)"},
		{"long-atom", strings.Repeat("a", 2000000)},
		{"long-number", strings.Repeat("9", 2000000)},
		{"long-string", "\"" + strings.Repeat("a", 2000000) + "\""},
		{"long-dotsym", "a" + strings.Repeat(".a", 300000)},
		{"infix-deep", "{" + strings.Repeat("1 + ", nest) + "1}"},
		{"infix-deep-parens", "{" + deep("(", ")", nest/2) + "}"},
		{"infix-deep-unary", "{" + strings.Repeat("- ", nest) + "1}"},
		{"infix-deep-pow", "{" + strings.Repeat("2 ** ", 3000) + "1}"},
	}
	if tier == "thorough" {
		return all
	}
	// quick tier: one short probe per class; the heavy ones run in the thorough tier only
	quick := map[string]bool{"chan-recv-empty": true, "chan-recv-def": true, "chan-send-unbuffered": true,
		"deep-nesting-parens": true, "long-flat-list": true, "self-containing-array": true, "self-containing-hash": true,
		"self-containing-hash-json": true, "self-expanding-macro": true, "huge-alloc-makeArray": true,
		"huge-alloc-makeArray-neg": true, "long-atom": true, "long-number": true, "long-string": true, "infix-deep": true}
	var out []special
	for _, p := range all {
		if quick[p.name] {
			out = append(out, p)
		}
	}
	return out
}

// ---- corpus for mutation --------------------------------------------------------

// files that run OS commands, write files or block are left out of the mutation corpus
var corpusSkip = map[string]bool{
	"coroutines.zy": true, "import.zy": true, "include.zy": true, "json2.zy": true, "nsplit.zy": true,
	"owrite.zy": true, "package.zy": true, "setenv.zy": true, "slurp.zy": true, "symbols.zy": true,
	"system.zy": true, "timeit.zy": true,
}

var corpusDanger = []string{"(system", "(sys ", "writef", "(save", "bsave", "bload", "slurpf", "(source", "(req ",
	"(include", "(exit", "(stop", "(import", "setenv", "(<!", "(send", "makeChan", "timeit", "sleep"}

type corpusFile struct {
	name string
	toks []string
}

// scanToks splits a text into coarse tokens: brackets, quotes and sigils alone, runs of
// other non-blank characters, runs of blanks. Joining the tokens gives the text back.
func scanToks(s string) []string {
	var out []string
	cur := strings.Builder{}
	flush := func() {
		if cur.Len() > 0 {
			out = append(out, cur.String())
			cur.Reset()
		}
	}
	mode := 0 // 0 none, 1 word, 2 blank
	for _, r := range s {
		switch {
		case strings.ContainsRune("()[]{}\"'`~^%:;,\\", r):
			flush()
			mode = 0
			out = append(out, string(r))
		case r == ' ' || r == '\n' || r == '\t' || r == '\r':
			if mode != 2 {
				flush()
			}
			mode = 2
			cur.WriteRune(r)
		default:
			if mode != 1 {
				flush()
			}
			mode = 1
			cur.WriteRune(r)
		}
	}
	flush()
	return out
}

func loadCorpus(repo string) ([]corpusFile, []string) {
	files, _ := filepath.Glob(filepath.Join(repo, "tests", "*.zy"))
	sort.Strings(files)
	var out []corpusFile
	var skipped []string
	for _, f := range files {
		base := filepath.Base(f)
		b, err := os.ReadFile(f)
		if err != nil {
			continue
		}
		txt := string(b)
		danger := corpusSkip[base]
		for _, d := range corpusDanger {
			if strings.Contains(txt, d) {
				danger = true
			}
		}
		if danger {
			skipped = append(skipped, base)
			continue
		}
		out = append(out, corpusFile{base, scanToks(txt)})
	}
	return out, skipped
}

type mutStream struct {
	n      int
	seed   uint64
	corpus []corpusFile
}

func (s *mutStream) Name() string       { return "mutants" }
func (s *mutStream) Count() int         { return s.n }
func (s *mutStream) Shape(i int) string { return "" }
func (s *mutStream) Tag(i int) string   { return "mutants" }

var insertable = []string{"(", ")", "[", "]", "{", "}", "\"", "'", "`", "~", "~@", "^", "%", ":", ";", ",", ".", "\\", "#", "-", "/*", "*/", "//", ":=", "=", "&", "$", "a:", "1", "()", "[]", "{}"}

func (s *mutStream) Input(i int) string {
	if len(s.corpus) == 0 {
		return ""
	}
	r := lib.NewRng(s.seed*1000003 + uint64(i)*7919 + 17)
	cf := s.corpus[r.Intn(len(s.corpus))]
	toks := cf.toks
	// work on a window so that single mutants stay cheap to run: whole file for 1 in 4,
	// otherwise a window of up to 120 tokens
	if len(toks) > 120 && r.Intn(4) != 0 {
		start := r.Intn(len(toks) - 120)
		toks = toks[start : start+120]
	}
	t := append([]string{}, toks...)
	nm := 1 + r.Intn(3)
	for k := 0; k < nm && len(t) > 0; k++ {
		p := r.Intn(len(t))
		switch r.Intn(7) {
		case 0: // delete
			t = append(t[:p], t[p+1:]...)
		case 1: // duplicate
			t = append(t[:p+1], t[p:]...)
		case 2: // swap
			q := r.Intn(len(t))
			t[p], t[q] = t[q], t[p]
		case 3, 4: // insert a bracket / sigil
			ins := insertable[r.Intn(len(insertable))]
			t = append(t[:p], append([]string{ins}, t[p:]...)...)
		case 5: // truncate
			t = t[:p]
		case 6: // replace
			t[p] = insertable[r.Intn(len(insertable))]
		}
	}
	out := strings.Join(t, "")
	if r.Intn(16) == 0 && len(out) > 0 { // byte-level truncation (may cut a UTF-8 sequence)
		out = out[:r.Intn(len(out))]
	}
	return out
}
