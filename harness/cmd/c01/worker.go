package main

import (
	"bufio"
	"bytes"
	"encoding/binary"
	"encoding/json"
	"fmt"
	"os"
	"runtime"
	"runtime/debug"
	"strings"
	"sync/atomic"
	"syscall"
	"time"

	"github.com/glycerine/zygomys/v9/zygo"
)

// Observables per input and entry point.
const (
	ObsValue   = "value"
	ObsError   = "error"
	ObsMore    = "more-input"
	ObsPanic   = "PANIC"
	ObsBudget  = "budget"
	ObsTimeout = "TIMEOUT"
	ObsKilled  = "KILLED"
)

// entry points (script-facing ways a text reaches the library)
var entryNames = []string{"EvalString", "LoadString+Run", "ParseTokens", "ParseFile-like", "ReplLine", "macexpand", "Duplicate+EvalString", "EvalString+follow-ups"}

const (
	EEval = iota
	ELoadRun
	EParse
	EParseFile
	ERepl
	EMacexpand
	EApply
	EFollow
	nEntries
)

type panicInfo struct {
	site string
	msg  string
}

// siteOfPanic: first frame inside package zygo below the runtime's panic frames.
func siteOfPanic() string {
	pcs := make([]uintptr, 64)
	n := runtime.Callers(3, pcs)
	frames := runtime.CallersFrames(pcs[:n])
	for {
		fr, more := frames.Next()
		if strings.Contains(fr.Function, "zygomys") && strings.Contains(fr.Function, "/zygo.") {
			fn := fr.Function[strings.LastIndex(fr.Function, "/zygo.")+6:]
			file := fr.File
			if i := strings.LastIndex(file, "/"); i >= 0 {
				file = file[i+1:]
			}
			return fmt.Sprintf("%s:%d:%s", file, fr.Line, fn)
		}
		if !more {
			break
		}
	}
	return "?"
}

// the follow-up battery of EFollow; followStage names the follow-up that was running when a panic hit
var followUps = []string{"(def zz1 1)", "(let [zz2 2] (+ zz1 zz2))", "(defn zz3 [a] (+ a 1)) (zz3 1)", "(str (list 1 [2] (hash a:3)))",
	"#clear", "(def zz4 1)", "(defn zz5 [] (fn [] zz4)) ((zz5))", "(for [(def zi 0) (< zi 2) (set zi (+ zi 1))] zi)", "(gensym)", "((fn [a] a) 1)"}
var followStage string

func guard(f func() string) (obs string, pi *panicInfo) {
	defer func() {
		if r := recover(); r != nil {
			msg := fmt.Sprintf("%v", r)
			if len(msg) > 160 {
				msg = msg[:160]
			}
			msg = strings.ReplaceAll(strings.ReplaceAll(msg, "\n", " "), "\t", " ")
			if followStage != "" {
				msg = "(in the follow-up evaluation " + followStage + " on the same interpreter) " + msg
				followStage = ""
			}
			pi = &panicInfo{site: siteOfPanic(), msg: msg}
			obs = ObsPanic
		}
	}()
	return f(), nil
}

// showValue: what a Go caller does with the result - render the value (SexpString), read the error text.
func showValue(v zygo.Sexp, err error) {
	if err != nil {
		_ = err.Error()
		return
	}
	if v != nil {
		_ = v.SexpString(nil)
	}
}

// replShow: what repl.go Repl does with the outcome of a line: the stack trace text for an error,
// the echo of the value otherwise (dot-symbols and selectors are resolved first).
func replShow(env *zygo.Zlisp, v zygo.Sexp, err error) {
	if err != nil {
		_ = env.GetStackTrace(err)
		return
	}
	if v == nil || v == zygo.SexpNull {
		return
	}
	if sel, ok := v.(zygo.Selector); ok {
		if rhs, e := sel.RHS(env); e == nil && rhs != nil {
			_ = rhs.SexpString(nil)
			return
		}
	}
	_ = v.SexpString(nil)
}

func classifyErr(err error) string {
	if err == nil {
		return ObsValue
	}
	if strings.Contains(err.Error(), zygo.VerifBudgetExhausted) {
		return ObsBudget
	}
	return ObsError
}

var poisonCheck bool

// entry points the parent switched off for this stream after repeated hangs
var skipEntries = map[int]bool{}

type worker struct {
	env     *zygo.Zlisp // shared by the panic-search entry points
	tieEnv  *zygo.Zlisp // compile-only environment of the model tie
	budget  int64
	used    int // inputs since env creation
	refresh int
}

func newEnv() *zygo.Zlisp {
	env := zygo.NewZlisp()
	env.StandardSetup()
	return env
}

// poisoned is called when a NEW interpreter can no longer be created in this process
// (NewZlisp+StandardSetup panics): some earlier input damaged process-global state.
var poisoned func(pi *panicInfo)

func (w *worker) fresh() {
	var env *zygo.Zlisp
	_, pi := guard(func() string { env = newEnv(); return "" })
	if pi != nil {
		poisoned(pi)
	}
	w.env = env
	w.used = 0
}

// runEntry runs one entry point on src in env.
func runEntry(env *zygo.Zlisp, e int, src string, budget int64) (string, *panicInfo) {
	zygo.VerifSetBudget(budget)
	defer zygo.VerifSetBudget(-1)
	obs, pi := guard(func() string {
		switch e {
		case EEval:
			v, err := env.EvalString(src)
			showValue(v, err)
			return classifyErr(err)
		case ELoadRun:
			err := env.LoadString(src)
			if err != nil {
				return ObsError
			}
			var v zygo.Sexp
			v, err = env.Run()
			showValue(v, err)
			return classifyErr(err)
		case EParse:
			p := env.VerifParser()
			p.ResetAddNewInput(bytes.NewBuffer([]byte(src)))
			_, err := p.ParseTokens()
			if err == zygo.ErrMoreInputNeeded {
				return ObsMore
			}
			return classifyErr(err)
		case EParseFile:
			p := env.VerifParser()
			p.Reset()
			p.NewInput(zygo.WholeText(bufio.NewReader(strings.NewReader(src))))
			_, err := p.ParseTokens()
			if err == zygo.ErrMoreInputNeeded {
				return ObsMore
			}
			return classifyErr(err)
		case ERepl:
			return replFeed(env, src)
		case EMacexpand:
			_, err := env.EvalString("(macexpand " + src + "\n)")
			return classifyErr(err)
		case EFollow:
			// the text, then a fixed battery on the SAME interpreter (as the next lines of a session),
			// also after Clear(): a panic or hang of a LATER evaluation belongs to the history
			v, err := env.EvalString(src)
			showValue(v, err)
			first := classifyErr(err)
			if err != nil {
				env.Clear()
			}
			for _, f := range followUps {
				if f == "#clear" {
					env.VerifParser().Reset()
					env.Clear()
					continue
				}
				followStage = f
				if _, e := env.EvalString(f); e != nil {
					env.Clear()
				}
			}
			followStage = ""
			return first
		case EApply:
			// a duplicate interpreter: same globals, brand-new stacks (stale stack slots hide empty-slot bugs)
			d := env.Duplicate()
			v, err := d.EvalString(src)
			showValue(v, err)
			return classifyErr(err)
		}
		return "?"
	})
	// leave the interpreter in a usable state, the way an embedding program would, and USE it once
	// more after a text that ended inside a form / comment / raw string: a hang or panic of the
	// follow-up call (still under this input's watchdog) belongs to this input
	_, pi2 := guard(func() string {
		env.VerifParser().Reset()
		env.Clear()
		if obs == ObsMore || (obs == ObsError && (strings.Contains(src, "/*") || strings.Contains(src, "`"))) {
			zygo.VerifSetBudget(1000)
			env.EvalString("(+ 1 2)")
			env.VerifParser().Reset()
			env.Clear()
		}
		return ""
	})
	if pi == nil && pi2 != nil {
		pi2.msg = "(during Reset/Clear/follow-up evaluation after the call) " + pi2.msg
		return ObsPanic, pi2
	}
	return obs, pi
}

// replFeed follows repl.go getExpressionWithLiner + Repl: the text is a sequence of lines;
// a line is test-parsed, more lines are supplied while the parser asks for more input, then
// the expressions are evaluated wrapped in (infix [...]) exactly as Repl does.
func replFeed(env *zygo.Zlisp, src string) string {
	lines := strings.Split(src, "\n")
	infixSym := env.MakeSymbol("infix")
	last := ObsValue
	li := 0
	for li < len(lines) {
		line := lines[li]
		li++
		got := []string{line}
		var xs []zygo.Sexp
		var err error = zygo.UnexpectedEnd
		p := env.VerifParser()
		p.ResetAddNewInput(bytes.NewBuffer([]byte(line + "\n")))
		starved := false
		done := false
		for reply := range p.ParsingIter() {
			x := reply.Expr
			err = reply.Err
			xs = xs[:0]
			for i := range x {
				if x[i] == zygo.SexpEnd {
					continue
				}
				xs = append(xs, x[i])
			}
			if err == nil {
				done = true
				break
			}
			if err == zygo.ErrMoreInputNeeded || err == zygo.UnexpectedEnd || err == zygo.ResetRequested {
				if li >= len(lines) {
					starved = true
					break
				}
				next := lines[li]
				li++
				got = append(got, next)
				p.NewInput(bytes.NewBuffer([]byte(next + "\n")))
				continue
			}
			break
		}
		if starved {
			return ObsMore
		}
		if !done && err != nil {
			env.Clear()
			last = ObsError
			continue
		}
		text := strings.Join(got, "\n")
		var everr error
		if len(xs) > 0 {
			wrapped := zygo.MakeList([]zygo.Sexp{infixSym, &zygo.SexpArray{Val: append([]zygo.Sexp{}, xs...), Env: env}})
			var v zygo.Sexp
			v, everr = env.EvalExpressions([]zygo.Sexp{wrapped})
			replShow(env, v, everr)
		} else {
			if strings.TrimSpace(text) == "" {
				env.Clear()
				continue
			}
			var v zygo.Sexp
			v, everr = env.EvalString(env.ReplLineInfixWrap(text) + " ")
			replShow(env, v, everr)
		}
		last = classifyErr(everr)
		if everr != nil {
			env.Clear()
		}
	}
	return last
}

// ---- model tie: compile only, on the parsed and filtered expressions ------------------

// tieObserve parses src like LoadStream does, dumps the shape of the expressions that reach
// the generator, and compiles them (LoadExpressions = filters + GenerateBegin). Nothing is run.
func (w *worker) tieObserve(src string) (shape string, class string) {
	env := w.tieEnv
	var xs []zygo.Sexp
	obs, _ := guard(func() string {
		p := env.VerifParser()
		p.ResetAddNewInput(zygo.WholeText(bytes.NewBuffer([]byte(src))))
		var err error
		xs, err = p.ParseTokens()
		if err != nil {
			return ObsError
		}
		return ObsValue
	})
	if obs != ObsValue {
		guard(func() string { env.VerifParser().Reset(); return "" })
		return "", ""
	}
	xs = env.FilterArray(xs, zygo.RemoveCommentsFilter)
	xs = env.FilterArray(xs, zygo.RemoveEndsFilter)
	var sb strings.Builder
	sb.WriteString(fmt.Sprintf("T %d", len(xs)))
	for _, x := range xs {
		sb.WriteByte(' ')
		if !dumpShape(env, x, &sb, 0) {
			return "", ""
		}
	}
	macrosBefore := len(env.VerifMacroNames())
	class, _ = guard(func() string {
		err := env.LoadExpressions(xs)
		if err != nil {
			return "err"
		}
		return "ok"
	})
	if class == ObsPanic {
		class = "crash"
	}
	ld := env.VerifLoopDepth()
	guard(func() string { env.Clear(); return "" })
	if class == "crash" || len(env.VerifMacroNames()) != macrosBefore || ld != 0 {
		w.tieEnv = newEnv()
	}
	return sb.String(), class
}

// dumpShape writes the shape code of x. Symbols carry the attributes the generator consults,
// read from the interpreter's own tables.
func dumpShape(env *zygo.Zlisp, x zygo.Sexp, sb *strings.Builder, depth int) bool {
	if depth > 200 {
		return false
	}
	switch t := x.(type) {
	case *zygo.SexpSentinel:
		if t == zygo.SexpNull {
			sb.WriteString("N")
		} else {
			sb.WriteString("O")
		}
	case *zygo.SexpPair:
		sb.WriteString("P ")
		if !dumpShape(env, t.Head, sb, depth+1) {
			return false
		}
		sb.WriteByte(' ')
		return dumpShape(env, t.Tail, sb, depth+1)
	case *zygo.SexpArray:
		sb.WriteString(fmt.Sprintf("A %d", len(t.Val)))
		for _, e := range t.Val {
			sb.WriteByte(' ')
			if !dumpShape(env, e, sb, depth+1) {
				return false
			}
		}
	case *zygo.SexpSymbol:
		sb.WriteString(symCode(env, t))
	case *zygo.SexpStr:
		sb.WriteString("S")
	case *zygo.SexpInt:
		sb.WriteString("I")
	case *zygo.SexpHash:
		sb.WriteString("H")
	case *zygo.SexpComment:
		sb.WriteString("C")
	default:
		sb.WriteString("O")
	}
	return true
}

var formNames = map[string]bool{"and": true, "or": true, "cond": true, "quote": true, "def": true, "mdef": true, "fn": true,
	"defn": true, "begin": true, "let": true, "letseq": true, "assert": true, "defmac": true, "macexpand": true,
	"syntaxQuote": true, "include": true, "for": true, "set": true, "break": true, "continue": true, "newScope": true,
	"package": true, "return": true, "_ls": true}

var builtinTable map[string]bool

// symCode: Y:<name-class>:<flags>:<number>
//
//	name-class: the special-form name when GenerateCallBySymbol's switch has a case for it,
//	            "unquote", "unquote-splicing", "assign" (= or :=), otherwise "-"
//	flags: b IsBuiltinSym, m HasMacro, d isDot, s evaluates to itself (dot, keyword, ?-sigil),
//	       B bound to a builder, X bound to the infix builder, g bound to anything else
func symCode(env *zygo.Zlisp, s *zygo.SexpSymbol) string {
	name := s.Name()
	cls := "-"
	switch {
	case formNames[name]:
		cls = name
	case name == "unquote" || name == "unquote-splicing":
		cls = name
	case name == "=" || name == ":=":
		cls = "assign"
	}
	flags := ""
	if b, _ := env.IsBuiltinSym(s); b {
		flags += "b"
	}
	if builtinTable == nil {
		builtinTable = map[string]bool{}
		for _, n := range env.VerifBuiltinNames() {
			builtinTable[n] = true
		}
	}
	if builtinTable[name] {
		flags += "f"
	}
	if env.HasMacro(s) {
		flags += "m"
	}
	isDot, colonTail, isSigil, sigil := s.VerifFlags()
	if isDot {
		flags += "d"
	}
	if isDot || colonTail || (isSigil && sigil == "?") {
		flags += "s"
	} else {
		x, err, _ := env.LexicalLookupSymbol(s, nil)
		if err == nil {
			if f, ok := x.(*zygo.SexpFunction); ok && f.VerifIsBuilder() {
				if name == "infix" {
					flags += "X"
				} else {
					flags += "B"
				}
			} else {
				flags += "g"
			}
		}
	}
	if flags == "" {
		flags = "-"
	}
	return fmt.Sprintf("Y:%s:%s:%d", cls, flags, s.Number())
}

// ---- worker main loop --------------------------------------------------------------------

type anomaly struct {
	Idx        int    `json:"idx"`
	Stream     string `json:"stream"`
	Entry      string `json:"entry"`
	Class      string `json:"class"`
	Standalone bool   `json:"standalone"`
	Site       string `json:"site"`
	Msg        string `json:"msg"`
	Input      string `json:"input"`
	EnvStart   int    `json:"env_start"` // first index evaluated in the same interpreter
}

func entriesFor(stream string) []int {
	switch {
	case stream == "builtins":
		return []int{EEval, EApply, EFollow}
	case stream == "programs" || stream == "typed":
		return []int{EEval, ELoadRun, ERepl, EApply, EFollow}
	case strings.HasPrefix(stream, "tok"):
		return []int{EEval, ELoadRun, EParse, EParseFile, ERepl, EMacexpand, EApply}
	case stream == "specials":
		return []int{EEval}
	case stream == "prattseq":
		return []int{EEval, ERepl}
	}
	return []int{EEval, ELoadRun, EParse, EParseFile, ERepl, EMacexpand, EApply, EFollow}
}

func workerMain(st Stream, from, to int, progressPath, resultPath string, budget int64, only int, perInputTimeout time.Duration) {
	// silence the interpreter's printing builtins
	if devnull, err := os.OpenFile("/dev/null", os.O_WRONLY, 0); err == nil {
		syscall.Dup2(int(devnull.Fd()), 1)
	}
	debug.SetMemoryLimit(3 << 30)
	if ms := os.Getenv("C01_MAXSTACK_MB"); ms != "" {
		// unbounded Go recursion shows within seconds instead of after filling the default 1 GB stack
		var mb int
		fmt.Sscanf(ms, "%d", &mb)
		if mb > 0 {
			debug.SetMaxStack(mb << 20)
		}
	}
	var lim syscall.Rlimit
	lim.Cur, lim.Max = 6<<30, 6<<30
	syscall.Setrlimit(syscall.RLIMIT_AS, &lim)
	lim.Cur, lim.Max = 1<<24, 1<<24
	syscall.Setrlimit(syscall.RLIMIT_FSIZE, &lim)

	prog, err := os.OpenFile(progressPath, os.O_CREATE|os.O_WRONLY|os.O_TRUNC, 0644)
	if err != nil {
		fmt.Fprintln(os.Stderr, "worker: cannot open progress file:", err)
		os.Exit(9)
	}
	resf, err := os.OpenFile(resultPath, os.O_CREATE|os.O_WRONLY|os.O_TRUNC, 0644)
	if err != nil {
		fmt.Fprintln(os.Stderr, "worker: cannot open result file:", err)
		os.Exit(9)
	}
	res := bufio.NewWriterSize(resf, 1<<20)

	var curIdx, curEntry, curStart int64
	atomic.StoreInt64(&curIdx, -1)
	setProgress := func(i, e int) {
		atomic.StoreInt64(&curIdx, int64(i))
		atomic.StoreInt64(&curEntry, int64(e))
		atomic.StoreInt64(&curStart, time.Now().UnixNano())
		var b [16]byte
		binary.LittleEndian.PutUint64(b[:8], uint64(i))
		binary.LittleEndian.PutUint64(b[8:], uint64(e))
		prog.WriteAt(b[:], 0)
	}
	// watchdog: an input that does not return within the limit ends this child with status 3
	go func() {
		for {
			time.Sleep(100 * time.Millisecond)
			i := atomic.LoadInt64(&curIdx)
			if i < 0 {
				continue
			}
			if time.Duration(time.Now().UnixNano()-atomic.LoadInt64(&curStart)) > perInputTimeout {
				fmt.Fprintf(os.Stderr, "WATCHDOG idx=%d entry=%d\n", i, atomic.LoadInt64(&curEntry))
				os.Exit(3)
			}
		}
	}()

	envStart := from
	poisoned = func(pi *panicInfo) {
		a := anomaly{Idx: int(atomic.LoadInt64(&curIdx)), Stream: st.Name(), Entry: "NewZlisp+StandardSetup", Class: "POISONED", Site: pi.site, Msg: pi.msg, EnvStart: envStart}
		b, _ := json.Marshal(a)
		fmt.Fprintf(res, "A\t%s\n", b)
		res.Flush()
		os.Exit(5)
	}
	w := &worker{budget: budget, refresh: 600}
	w.fresh()
	w.tieEnv = newEnv()
	hist := map[string]int{}
	tags := map[string]int{}
	entries := entriesFor(st.Name())
	if only >= 0 {
		entries = []int{only}
	} else if len(skipEntries) > 0 {
		var keep []int
		for _, e := range entries {
			if !skipEntries[e] {
				keep = append(keep, e)
			}
		}
		entries = keep
	}
	tie := st.Name() == "forms" || st.Name() == "mutants" || st.Name() == "infix" || strings.HasPrefix(st.Name(), "file:")
	if only >= 0 {
		tie = false
	}
	prattTie := only < 0 && (tie || st.Name() == "prattseq" || st.Name() == "typed" || st.Name() == "programs")
	nTie := 0
	seenPanic := map[string]int{}
	for i := from; i < to; i++ {
		src := st.Input(i)
		tags[st.Tag(i)]++
		if w.used >= w.refresh {
			w.fresh()
			envStart = i
		}
		w.used++
		if tie {
			setProgress(i, nEntries)
			shape, class := w.tieObserve(src)
			if shape != "" && len(shape) < 4000 {
				fmt.Fprintf(res, "C\t%d\t%s\t%s\n", i, shape, class)
				nTie++
			}
		}
		if prattTie && (strings.Contains(src, "{") || strings.Contains(src, "infix")) || prattTie && st.Name() == "infix" {
			setProgress(i, nEntries)
			for _, sc := range w.prattObserve(src, st.Name() == "infix") {
				fmt.Fprintf(res, "C\t%d\t%s\t%s\n", i, sc[0], sc[1])
				nTie++
			}
		}
		if (i-from)%200 == 199 {
			// checkpoint: statistics so far (the parent keeps them when this child dies later)
			hb, _ := json.Marshal(map[string]interface{}{"hist": hist, "tags": tags, "n": 200, "tie": nTie, "upto": i})
			fmt.Fprintf(res, "H\t%s\n", hb)
			res.Flush()
			hist = map[string]int{}
			tags = map[string]int{}
		}
		for _, e := range entries {
			setProgress(i, e)
			obs, pi := runEntry(w.env, e, src, w.budget)
			hist[entryNames[e]+":"+obs]++
			if e == EEval && only < 0 && (strings.HasPrefix(st.Shape(i), "F ") || strings.HasPrefix(st.Shape(i), "D ")) {
				// call-check tie: outcome class of the typed call for the model of check.go
				cls := map[string]string{ObsValue: "ok", ObsError: "err", ObsPanic: "crash"}[obs]
				if cls != "" {
					fmt.Fprintf(res, "C\t%d\t%s\t%s\n", i, st.Shape(i), cls)
					nTie++
				}
			}
			if obs == ObsPanic {
				key := entryNames[e] + "|" + pi.site + "|" + pi.msg
				seenPanic[key]++
				a := anomaly{Idx: i, Stream: st.Name(), Entry: entryNames[e], Class: ObsPanic, Site: pi.site, Msg: pi.msg, Input: src, EnvStart: envStart}
				if seenPanic[key] <= 3 {
					// is the input enough on its own? retry in a fresh interpreter
					fe := newEnv()
					obs2, pi2 := runEntry(fe, e, src, w.budget)
					if obs2 == ObsPanic {
						a.Standalone = true
						a.Site, a.Msg = pi2.site, pi2.msg
					}
					w.fresh()
					envStart = i + 1
				} else {
					// a class already confirmed in this child: keep the interpreter (Clear/Reset done)
					a.Standalone = false
					a.Msg = pi.msg + " (not re-tried in a fresh interpreter)"
				}
				if seenPanic[key] <= 40 {
					b, _ := json.Marshal(a)
					fmt.Fprintf(res, "A\t%s\n", b)
					res.Flush()
				} else {
					hist["more-panics:"+entryNames[e]+"|"+pi.site]++
				}
			}
		}
	}
	if poisonCheck || (to-from) > 1 {
		// can a new interpreter still be created in this process?
		atomic.StoreInt64(&curIdx, int64(to-1))
		w.fresh()
	}
	atomic.StoreInt64(&curIdx, -1)
	hb, _ := json.Marshal(map[string]interface{}{"hist": hist, "tags": tags, "n": (to - from) % 200, "tie": nTie, "upto": to})
	fmt.Fprintf(res, "H\t%s\n", hb)
	res.Flush()
	resf.Close()
	os.Exit(0)
}
