// c02: evaluation matches the reference semantics.  Generates programs of the core language,
// runs them on the real interpreter, prints the canonical observable and the prefix form that
// the extracted reference evaluator (coq/Model/RefSem.v) reads.  See harness/refgen.
package main

import "verif/harness/refgen"

func main() { refgen.Main("C02") }
