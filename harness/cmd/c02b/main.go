// c02b: the DATA builtins of zygomys against the pure Gallina model coq/Model/Builtins.v (property C02).
// Generates nested builtin-call expressions over boundary data (typed generator + sharing probes +
// a small exhaustive stream), evaluates the source through the real EvalString, prints
//   ID <TAB> prefix form for the model runner (ocaml/c02b/run.ml) <TAB> canonical observable <TAB> source
package main

import (
	"encoding/json"
	"fmt"
	"math"
	"os"
	"strconv"
	"strings"
	"sync/atomic"
	"time"

	"github.com/glycerine/zygomys/v9/zygo"
	"verif/harness/lib"
)

// ---------- values ----------
type V struct {
	k  byte // I F C S Y B N P A U(function)
	i  int64
	f  float64
	s  string
	h  *V
	t  *V
	l  []*V
	fn string
}

func vI(i int64) *V    { return &V{k: 'I', i: i} }
func vF(f float64) *V  { return &V{k: 'F', f: f} }
func vC(c int64) *V    { return &V{k: 'C', i: c} }
func vS(s string) *V   { return &V{k: 'S', s: s} }
func vY(s string) *V   { return &V{k: 'Y', s: s} }
func vB(b bool) *V     { x := &V{k: 'B'}; if b { x.i = 1 }; return x }
func vN() *V           { return &V{k: 'N'} }
func vP(h, t *V) *V    { return &V{k: 'P', h: h, t: t} }
func vA(l ...*V) *V    { return &V{k: 'A', l: l} }
func vU(fn string) *V  { return &V{k: 'U', fn: fn} }
func vList(l ...*V) *V {
	r := vN()
	for i := len(l) - 1; i >= 0; i-- {
		r = vP(l[i], r)
	}
	return r
}

func fbits(f float64) string {
	if math.IsNaN(f) {
		return "Fnan"
	}
	return "F" + strconv.FormatUint(math.Float64bits(f), 10)
}

// prefix form of a value (model input); NaN is the canonical quiet NaN
func (v *V) prefix() string {
	switch v.k {
	case 'I':
		return fmt.Sprintf("I%d", v.i)
	case 'F':
		if math.IsNaN(v.f) {
			return "F" + strconv.FormatUint(math.Float64bits(math.NaN()), 10)
		}
		return fbits(v.f)
	case 'C':
		return fmt.Sprintf("C%d", v.i)
	case 'S':
		return fmt.Sprintf("S%x", []byte(v.s))
	case 'Y':
		return fmt.Sprintf("Y%x", []byte(v.s))
	case 'B':
		if v.i != 0 {
			return "Bt"
		}
		return "Bf"
	case 'N':
		return "N"
	case 'P':
		return "(P " + v.h.prefix() + " " + v.t.prefix() + ")"
	case 'A':
		p := make([]string, len(v.l))
		for i, e := range v.l {
			p[i] = e.prefix()
		}
		return "[" + strings.Join(p, " ") + "]"
	}
	return "FN:" + v.fn
}

// ---------- rendering of a value as source ----------
type ctx struct {
	globals map[string]zygo.Sexp // hard atoms are bound as globals g<N>
	order   []string
}

func (c *ctx) global(sx zygo.Sexp) string {
	n := fmt.Sprintf("g%d", len(c.order))
	c.globals[n] = sx
	c.order = append(c.order, n)
	return n
}

func plainStr(s string) bool {
	for i := 0; i < len(s); i++ {
		if s[i] < 32 || s[i] >= 127 || s[i] == '"' || s[i] == '\\' || s[i] == '`' {
			return false
		}
	}
	return true
}

func floatLit(f float64) (string, bool) {
	if math.IsNaN(f) || math.IsInf(f, 0) || (f == 0 && math.Signbit(f)) || math.Abs(f) >= 1e15 || (f != 0 && math.Abs(f) < 1e-6) {
		return "", false
	}
	s := strconv.FormatFloat(f, 'f', -1, 64)
	if !strings.Contains(s, ".") {
		s += ".0"
	}
	return s, true
}

// atom as source text; inQuote: inside a (quote ...) datum
func (c *ctx) atom(v *V) string {
	switch v.k {
	case 'I':
		return strconv.FormatInt(v.i, 10)
	case 'F':
		if s, ok := floatLit(v.f); ok {
			return s
		}
		return c.global(&zygo.SexpFloat{Val: v.f})
	case 'C':
		if (v.i >= '0' && v.i <= '9') || (v.i >= 'a' && v.i <= 'z') || v.i == 233 || v.i == 0x20AC {
			return "'" + string(rune(v.i)) + "'"
		}
		return c.global(&zygo.SexpChar{Val: rune(v.i)})
	case 'S':
		if plainStr(v.s) {
			return "\"" + v.s + "\""
		}
		return c.global(&zygo.SexpStr{S: v.s})
	case 'B':
		if v.i != 0 {
			return "true"
		}
		return "false"
	case 'N':
		return "nil"
	case 'U':
		return v.fn
	}
	panic("atom: " + string(v.k))
}

func isProper(v *V) bool {
	for v.k == 'P' {
		v = v.t
	}
	return v.k == 'N'
}

// can the value be written inside one (quote ..) datum (no globals, no arrays, proper lists only)?
func quotable(v *V) bool {
	switch v.k {
	case 'I', 'B':
		return true
	case 'F':
		_, ok := floatLit(v.f)
		return ok
	case 'C':
		return v.i >= 'a' && v.i <= 'z'
	case 'S':
		return plainStr(v.s)
	case 'Y':
		return true
	case 'P':
		if !isProper(v) {
			return false
		}
		for x := v; x.k == 'P'; x = x.t {
			if !quotable(x.h) {
				return false
			}
		}
		return true
	}
	return false
}

func (c *ctx) datum(v *V) string {
	switch v.k {
	case 'Y':
		return v.s
	case 'P':
		var p []string
		for x := v; x.k == 'P'; x = x.t {
			p = append(p, c.datum(x.h))
		}
		return "(" + strings.Join(p, " ") + ")"
	}
	return c.atom(v)
}

// source text computing the value; quoteOK: may use a (quote ..) literal (a shared parsed object)
func (c *ctx) valSrc(v *V, quoteOK bool) string {
	switch v.k {
	case 'Y':
		return "(quote " + v.s + ")"
	case 'P':
		if quoteOK && quotable(v) {
			return "(quote " + c.datum(v) + ")"
		}
		if isProper(v) {
			p := []string{"list"}
			for x := v; x.k == 'P'; x = x.t {
				p = append(p, c.valSrc(x.h, quoteOK))
			}
			return "(" + strings.Join(p, " ") + ")"
		}
		return "(cons " + c.valSrc(v.h, quoteOK) + " " + c.valSrc(v.t, quoteOK) + ")"
	case 'A':
		p := make([]string, len(v.l))
		for i, e := range v.l {
			p[i] = c.valSrc(e, quoteOK)
		}
		if quoteOK {
			return "[" + strings.Join(p, " ") + "]"
		}
		return "(array " + strings.Join(p, " ") + ")"
	}
	return c.atom(v)
}

// ---------- expressions ----------
type E struct {
	op   string // lit var let if call
	v    *V
	idx  int
	fn   string
	args []*E
	q    bool // lit: may be rendered as a quoted literal
}

func lit(v *V) *E                  { return &E{op: "lit", v: v, q: true} }
func call(fn string, a ...*E) *E   { return &E{op: "call", fn: fn, args: a} }
func let(e, b *E) *E               { return &E{op: "let", args: []*E{e, b}} }
func iff(c, a, b *E) *E            { return &E{op: "if", args: []*E{c, a, b}} }
func vr(i int) *E                  { return &E{op: "var", idx: i} }

func (e *E) prefix() string {
	switch e.op {
	case "lit":
		if e.q {
			return "(Q " + e.v.prefix() + ")" // Q: may be written as a (quote ..) / [..] literal
		}
		return "(L " + e.v.prefix() + ")"
	case "var":
		return fmt.Sprintf("(V %d)", e.idx)
	case "let":
		return "(let " + e.args[0].prefix() + " " + e.args[1].prefix() + ")"
	case "if":
		return "(if " + e.args[0].prefix() + " " + e.args[1].prefix() + " " + e.args[2].prefix() + ")"
	}
	p := []string{"(call", e.fn}
	for _, a := range e.args {
		p = append(p, a.prefix())
	}
	return strings.Join(p, " ") + ")"
}

func (e *E) src(c *ctx, depth int) string {
	switch e.op {
	case "lit":
		return c.valSrc(e.v, e.q)
	case "var":
		return fmt.Sprintf("v%d", depth-1-e.idx)
	case "let":
		return fmt.Sprintf("(let [v%d %s] %s)", depth, e.args[0].src(c, depth), e.args[1].src(c, depth+1))
	case "if":
		return "(cond " + e.args[0].src(c, depth) + " " + e.args[1].src(c, depth) + " " + e.args[2].src(c, depth) + ")"
	}
	p := []string{e.fn}
	for _, a := range e.args {
		p = append(p, a.src(c, depth))
	}
	return "(" + strings.Join(p, " ") + ")"
}

func (e *E) size() int {
	n := 1
	for _, a := range e.args {
		n += a.size()
	}
	return n
}

// ---------- observable of the real interpreter ----------
func render(v zygo.Sexp, d int) string {
	if d <= 0 {
		return "#"
	}
	switch x := v.(type) {
	case nil:
		return "GONIL"
	case *zygo.SexpInt:
		return fmt.Sprintf("I%d", x.Val)
	case *zygo.SexpFloat:
		return fbits(x.Val)
	case *zygo.SexpChar:
		return fmt.Sprintf("C%d", int64(x.Val))
	case *zygo.SexpBool:
		if x.Val {
			return "Bt"
		}
		return "Bf"
	case *zygo.SexpSentinel:
		if x == zygo.SexpNull {
			return "N"
		}
		return "OTHER:sentinel"
	case *zygo.SexpStr:
		return fmt.Sprintf("S%x", []byte(x.S))
	case *zygo.SexpSymbol:
		return fmt.Sprintf("Y%x", []byte(x.Name()))
	case *zygo.SexpPair:
		// the spine of a list is walked iteratively and does not count as nesting (a concat of long
		// lists is a long spine, not a deep value); a spine that comes back to one of its own pairs
		// (a cycle made by a destructive builtin) or exceeds 200000 pairs is cut with "#"
		var sb strings.Builder
		seen := map[*zygo.SexpPair]bool{}
		n := 0
		var cur zygo.Sexp = x
		for {
			pr, ok := cur.(*zygo.SexpPair)
			if !ok {
				sb.WriteString(render(cur, d-1))
				break
			}
			if seen[pr] || n >= 200000 {
				sb.WriteString("#")
				break
			}
			seen[pr] = true
			n++
			sb.WriteString("(P " + render(pr.Head, d-1) + " ")
			cur = pr.Tail
		}
		sb.WriteString(strings.Repeat(")", n))
		return sb.String()
	case *zygo.SexpArray:
		p := make([]string, len(x.Val))
		for i, e := range x.Val {
			p[i] = render(e, d-1)
		}
		return "[" + strings.Join(p, " ") + "]"
	case *zygo.SexpFunction:
		s := x.SexpString(nil)
		if strings.HasPrefix(s, "fn [") && strings.HasSuffix(s, "]") {
			return "FN:" + s[4:len(s)-1]
		}
		return "OTHER:function"
	}
	return fmt.Sprintf("OTHER:%T", v)
}

type runner struct {
	env     *zygo.Zlisp
	used    int
	cur     *os.File // the program being evaluated (prefix TAB source), for the check when the process dies
	started int64    // unix nanoseconds when the current evaluation began; 0 = idle
	onHang  func()
}

// watchdog: an evaluation that does not return within 30 s (a cyclic list built by a destructive
// builtin, say) ends the run with exit code 97 after flushing what was compared so far
func (r *runner) watchdog() {
	for {
		time.Sleep(time.Second)
		st := atomic.LoadInt64(&r.started)
		if st != 0 && time.Now().UnixNano()-st > int64(30*time.Second) {
			if r.onHang != nil {
				r.onHang()
			}
			fmt.Fprintln(os.Stderr, "c02b: evaluation did not return within 30 s; see the .current file")
			os.Exit(97)
		}
	}
}

func (r *runner) fresh() {
	r.env = zygo.NewZlisp()
	r.env.StandardSetup()
	r.used = 0
}

func (r *runner) run(e *E, freshEnv bool) (string, string) {
	if r.env == nil || freshEnv || r.used >= 300 {
		r.fresh()
	}
	r.used++
	c := &ctx{globals: map[string]zygo.Sexp{}}
	src := e.src(c, 0)
	if e.op == "lit" && e.v.k == 'U' {
		src = "(begin " + src + ")" // a text ending in a bare + or - asks for more input (C13 sign-symbol-at-end)
	}
	for _, n := range c.order {
		r.env.AddGlobal(n, c.globals[n])
	}
	if r.cur != nil {
		r.cur.Truncate(0)
		r.cur.Seek(0, 0)
		fmt.Fprintf(r.cur, "%s\t%s\n", e.prefix(), src)
	}
	atomic.StoreInt64(&r.started, time.Now().UnixNano())
	res := lib.Eval(r.env, src, 20000)
	atomic.StoreInt64(&r.started, 0)
	// the source shown in reports names the globals
	shown := src
	for _, n := range c.order {
		shown += fmt.Sprintf("   ; %s=%s", n, c.globals[n].SexpString(nil))
	}
	switch res.Class {
	case lib.OutValue:
		return render(res.Val, 64), shown
	case lib.OutError:
		return "ERR", shown
	case lib.OutPanic:
		r.env = nil
		return "PANIC", shown
	}
	r.env = nil
	return "BUDGET", shown
}

// ---------- generator ----------
type gen struct {
	r *lib.Rng
}

var ints = []int64{0, 1, -1, 2, 3, 4, 7, -7, 10, 64, 97, 255, 1 << 31, 1<<53 + 1, math.MaxInt64, math.MinInt64, math.MaxInt64 - 1, 6, 12}
var floats = []float64{0, math.Copysign(0, -1), math.NaN(), math.Inf(1), math.Inf(-1), 1.5, -2.5, 0.1, 1e300, 3, 9007199254740992, 0.5, -1}
var chars = []int64{'a', 'b', 'z', '0', ' ', 233, 0x20AC, 0x1F600, 0, 0xD800, 0xDFFF, 0x10FFFF, 0x110000, -1, 0x7F, 0x80, 0x7FF, 0x800, 0xFFFF, 0x10000}
var strs = []string{"", "a", "ab", "a b", " ", "a  b ", "h\xc3\xa9llo", "\xff\xfe", "q\"d", "x\\y", "0", "abc def ghi", "\xe2\x82\xac", "nil"}
var syms = []string{"a", "b", "foo", "bar", "zz"}

func (g *gen) pick(n int) int { return g.r.Intn(n) }

func (g *gen) atomOf(kind byte) *V {
	switch kind {
	case 'I':
		if g.pick(3) == 0 {
			return vI(int64(g.pick(7)) - 2)
		}
		return vI(ints[g.pick(len(ints))])
	case 'F':
		return vF(floats[g.pick(len(floats))])
	case 'C':
		return vC(chars[g.pick(len(chars))])
	case 'S':
		return vS(strs[g.pick(len(strs))])
	case 'Y':
		return vY(syms[g.pick(len(syms))])
	case 'B':
		return vB(g.r.Bool())
	}
	return vN()
}

var atomKinds = []byte("IIIFFCCSSYBN")

func (g *gen) anyAtom() *V { return g.atomOf(atomKinds[g.pick(len(atomKinds))]) }

// a value of the wanted kind: I F C S Y B N  L(proper list) P(any pair, maybe improper) A(array) U(function) *(any) n(number) q(sequence)
func (g *gen) value(kind byte, d int) *V {
	switch kind {
	case '*':
		ks := []byte("IIFCSSYBNLLAAPU")
		return g.value(ks[g.pick(len(ks))], d)
	case 'n':
		return g.atomOf([]byte("IIIFFC")[g.pick(6)])
	case 'i': // a small index
		if g.pick(8) == 0 {
			return vI([]int64{-1, 5, 9, math.MinInt64}[g.pick(4)])
		}
		if g.pick(10) == 0 {
			return vC(int64(g.pick(3)))
		}
		return vI(int64(g.pick(4)))
	case 'q':
		return g.value([]byte("LAS")[g.pick(3)], d)
	case 'L', 'A', 'P':
		n := g.pick(5)
		if g.pick(8) == 0 {
			n = 0
		}
		el := make([]*V, n)
		homog := []byte("ISn*LA")[g.pick(6)]
		for i := range el {
			if d <= 0 {
				el[i] = g.anyAtom()
			} else {
				el[i] = g.value(homog, d-1)
			}
		}
		if kind == 'A' {
			return vA(el...)
		}
		l := vList(el...)
		if kind == 'P' && n > 0 && g.pick(2) == 0 {
			// improper: replace the final nil
			x := l
			for x.t.k == 'P' {
				x = x.t
			}
			x.t = g.anyAtom()
		}
		return l
	case 'U':
		return vU(unaryFuns[g.pick(len(unaryFuns))])
	}
	return g.atomOf(kind)
}

var unaryFuns = []string{"not", "first", "rest", "second", "len", "str", "type?", "list", "array", "sym2str", "str2sym",
	"isnan", "+", "-", "/", "concat", "flatten", "null?", "zero?", "empty?", "list?", "number?", "string?", "cons", "append", "map", "apply"}
var allFuns = []string{"first", "rest", "second", "cons", "list", "array", "append", "appendslice", "concat", "flatten", "len",
	"aget", "slice", "not", "+", "-", "*", "/", "<", ">", "<=", ">=", "==", "!=", "mod", "sym2str", "str2sym", "str", "type?",
	"list?", "null?", "array?", "number?", "int?", "float?", "char?", "symbol?", "string?", "zero?", "empty?", "func?", "hash?",
	"isnan", "map", "apply"}

// signature table: result kind -> list of (function, argument kinds; a trailing '+' repeats the previous kind 0..3 times)
type sig struct {
	fn   string
	args string
}

var byResult = map[byte][]sig{
	'*': {{"first", "q"}, {"second", "q"}, {"aget", "Ai"}, {"aget", "Ai*"}, {"apply", "Uq"}, {"first", "L"}, {"first", "A"}},
	'L': {{"rest", "L"}, {"cons", "*L"}, {"list", "*+"}, {"concat", "LL+"}, {"concat", "LLL"}, {"map", "UL"}, {"cons", "**"}, {"rest", "P"}},
	'A': {{"rest", "A"}, {"array", "*+"}, {"append", "A*"}, {"appendslice", "AA"}, {"concat", "AA+"}, {"flatten", "S+"}, {"flatten", "SLY"},
		{"slice", "Aii"}, {"map", "UA"}},
	'S': {{"append", "SC"}, {"append", "SS"}, {"concat", "SS+"}, {"concat", "SCS"}, {"concat", "SC+"}, {"slice", "Sii"}, {"sym2str", "Y"}, {"str", "*"},
		{"type?", "*"}, {"appendslice", "SS"}},
	'I': {{"len", "q"}, {"len", "L"}, {"+", "II+"}, {"-", "II"}, {"*", "II+"}, {"/", "II"}, {"mod", "II"}, {"len", "S"}, {"+", "I"}},
	'n': {{"+", "nn+"}, {"-", "nn"}, {"*", "nn"}, {"/", "nn"}, {"/", "II"}, {"+", "CI"}, {"-", "CC"}, {"*", "Cn"}, {"mod", "nn"}, {"+", "FF+"}},
	'B': {{"not", "*"}, {"<", "nn"}, {"==", "nn"}, {"!=", "nn"}, {">=", "nn"}, {"==", "**"}, {"<", "SS"}, {"==", "LL"}, {"<", "AA"}, {"==", "AA"},
		{"!=", "**"}, {"<=", "LL"}, {">", "CC"}, {"==", "BB"}, {"<", "N*"}, {"list?", "*"}, {"null?", "*"}, {"array?", "*"}, {"number?", "*"},
		{"int?", "*"}, {"float?", "*"}, {"char?", "*"}, {"symbol?", "*"}, {"string?", "*"}, {"zero?", "n"}, {"zero?", "*"}, {"empty?", "*"},
		{"func?", "*"}, {"hash?", "*"}, {"isnan", "n"}, {"isnan", "*"}, {"==", "YY"}},
	'Y': {{"str2sym", "S"}},
	'C': {{"+", "CI"}, {"-", "CI"}, {"*", "CC"}, {"first", "A"}},
	'F': {{"+", "Fn"}, {"/", "II"}, {"*", "nF"}, {"-", "FF"}, {"/", "Fn"}, {"/", "nF"}},
}

type scope struct {
	kinds []byte // kinds of the let-bound values, innermost first
}

func compatible(want, have byte) bool {
	if want == have || want == '*' {
		return true
	}
	switch want {
	case 'n':
		return have == 'I' || have == 'F' || have == 'C'
	case 'q':
		return have == 'L' || have == 'A' || have == 'S'
	case 'P':
		return have == 'L'
	case 'i':
		return have == 'I'
	}
	return false
}

func (g *gen) expr(kind byte, d int, sc scope) *E {
	// a bound variable of a compatible kind
	if len(sc.kinds) > 0 && g.pick(3) == 0 {
		var c []int
		for i, k := range sc.kinds {
			if compatible(kind, k) {
				c = append(c, i)
			}
		}
		if len(c) > 0 {
			return vr(c[g.pick(len(c))])
		}
	}
	if d <= 0 || g.pick(4) == 0 {
		e := lit(g.value(kind, 1+g.pick(2)))
		e.q = g.pick(3) != 0
		return e
	}
	switch g.pick(24) {
	case 0, 3:
		k := []byte("LAS*n")[g.pick(5)]
		return let(g.expr(k, d-1, sc), g.expr(kind, d-1, scope{append([]byte{k}, sc.kinds...)}))
	case 1, 4:
		return iff(g.expr('*', d-1, sc), g.expr(kind, d-1, sc), g.expr(kind, d-1, sc))
	case 2:
		// ill-typed call: any function, any arguments
		fn := allFuns[g.pick(len(allFuns))]
		n := g.pick(4)
		a := make([]*E, n)
		for i := range a {
			a[i] = g.expr('*', d-1, sc)
		}
		return call(fn, a...)
	}
	k := kind
	if k == 'q' {
		k = []byte("LAS")[g.pick(3)]
	}
	if k == 'P' {
		k = 'L'
	}
	sigs := byResult[k]
	if len(sigs) == 0 {
		e := lit(g.value(kind, 1))
		return e
	}
	s := sigs[g.pick(len(sigs))]
	var a []*E
	ks := []byte(s.args)
	for i := 0; i < len(ks); i++ {
		if ks[i] == '+' {
			for j := g.pick(4); j > 0; j-- {
				a = append(a, g.expr(ks[i-1], d-1, sc))
			}
			continue
		}
		ak := ks[i]
		if g.pick(25) == 0 {
			ak = '*'
		}
		a = append(a, g.expr(ak, d-1, sc))
	}
	return call(s.fn, a...)
}

// sharing probe: a sequence bound once, handed to an operation (several times / at several argument
// positions), then BOTH the results and the original inspected: exposes destructive updates and
// shared backing storage
func (g *gen) sharing(d int) *E {
	k := []byte("LLAAS")[g.pick(5)]
	var seq *E
	if g.pick(2) == 0 {
		seq = lit(g.value(k, 1))
		seq.q = g.pick(2) == 0
	} else {
		seq = g.expr(k, d, scope{})
	}
	sc := scope{[]byte{k}}
	other := func() *E {
		if g.pick(3) == 0 {
			return vr(0)
		}
		e := g.expr(k, 1, sc)
		return e
	}
	op := func() *E {
		switch k {
		case 'L':
			switch g.pick(7) {
			case 0:
				return call("concat", vr(0), other())
			case 1:
				return call("concat", vr(0), other(), other())
			case 2:
				return call("concat", other(), vr(0), other(), other())
			case 3:
				return call("cons", g.expr('*', 1, sc), vr(0))
			case 4:
				return call("map", lit(vU(unaryFuns[g.pick(8)])), vr(0))
			case 5:
				return call("rest", vr(0))
			}
			return call("apply", lit(vU("concat")), call("list", vr(0), other(), vr(0)))
		case 'A':
			switch g.pick(8) {
			case 0:
				return call("append", vr(0), g.expr('*', 1, sc))
			case 1:
				return call("concat", vr(0), other())
			case 2:
				return call("concat", vr(0), other(), other())
			case 3:
				return call("appendslice", vr(0), other())
			case 4:
				return call("map", lit(vU(unaryFuns[g.pick(8)])), vr(0))
			case 5:
				return call("rest", vr(0))
			case 6:
				return call("slice", vr(0), lit(vI(int64(g.pick(2)))), call("len", vr(0)))
			}
			return call("append", call("rest", vr(0)), g.expr('*', 1, sc))
		}
		switch g.pick(4) {
		case 0:
			return call("append", vr(0), lit(g.atomOf('C')))
		case 1:
			return call("concat", vr(0), other(), lit(g.atomOf('C')))
		case 2:
			return call("concat", other(), vr(0))
		}
		return call("slice", vr(0), lit(vI(0)), call("len", vr(0)))
	}
	n := 1 + g.pick(3)
	// (let [v0 seq] (let [v1 op] (let [v2 op'] (list v1 v2 v0 (len v0)))))
	body := []*E{}
	var build func(i int) *E
	build = func(i int) *E {
		if i == n {
			for j := 0; j <= n; j++ {
				body = append(body, vr(j))
			}
			return call("list", body...)
		}
		o := op()
		shift(o, i) // the probe's operations refer to v0 = the sequence
		return let(o, build(i+1))
	}
	return let(seq, build(0))
}

// the operations were built against a scope holding only the sequence at index 0; under i more
// binders the index becomes i
func shift(e *E, by int) {
	if e.op == "var" {
		e.idx += by
		return
	}
	if e.op == "let" {
		shift(e.args[0], by)
		shiftUnder(e.args[1], by, 1)
		return
	}
	for _, a := range e.args {
		shift(a, by)
	}
}
func shiftUnder(e *E, by, bound int) {
	if e.op == "var" {
		if e.idx >= bound {
			e.idx += by
		}
		return
	}
	if e.op == "let" {
		shiftUnder(e.args[0], by, bound)
		shiftUnder(e.args[1], by, bound+1)
		return
	}
	for _, a := range e.args {
		shiftUnder(a, by, bound)
	}
}

// exhaustive: every builtin on every pair of a small boundary value set (arity 1 and 2)
func smallValues() []*V {
	return []*V{vI(0), vI(2), vI(-7), vF(0), vF(math.Copysign(0, -1)), vF(math.NaN()), vF(1.5), vC('a'), vC(0), vC(233), vC(0xD800),
		vS(""), vS("a b"), vS("h\xc3\xa9"), vY("a"), vB(true), vB(false), vN(), vList(vI(1)), vList(vI(1), vI(2), vI(3)), vP(vI(1), vI(2)),
		vList(vS("x y"), vY("b")), vA(), vA(vI(1)), vA(vI(1), vI(2), vI(3)), vA(vS("a"), vC('b')), vU("not"), vU("first"), vU("+"),
		vList(vList(vI(1)), vList(vI(2), vI(3))), vA(vA(vI(1)), vA(), vA(vI(2), vI(3)))}
}

func tagOf(e *E) []string {
	t := map[string]bool{}
	var walk func(e *E)
	walk = func(e *E) {
		switch e.op {
		case "call":
			t["fn:"+e.fn] = true
		case "let":
			t["let"] = true
		case "if":
			t["if"] = true
		case "lit":
			t["lit:"+string(e.v.k)] = true
		}
		for _, a := range e.args {
			walk(a)
		}
	}
	walk(e)
	var out []string
	for k := range t {
		out = append(out, k)
	}
	return out
}

func esc(s string) string {
	s = strings.ReplaceAll(s, "\\", "\\\\")
	s = strings.ReplaceAll(s, "\t", "\\t")
	return strings.ReplaceAll(s, "\n", "\\n")
}


func main() {
	a := lib.ParseArgs()
	out := lib.NewOut(a.Out)
	out.Rule = "nontrivial = the real interpreter returned a value or an error for a generated builtin-call tree (not BUDGET/PANIC)"
	g := &gen{r: lib.NewRng(a.Seed*7919 + 13)}
	rn := &runner{}
	rn.cur, _ = os.Create(a.Out + ".current")
	rn.onHang = func() { out.Close(a.Stats) }
	go rn.watchdog()
	emit2 := func(e *E, stream string, fresh bool) {
		obs, src := rn.run(e, fresh)
		tags := append(tagOf(e), "stream:"+stream, "outcome:"+obs[:1])
		out.Case(e.prefix(), obs+"\t"+esc(src), obs != "BUDGET" && obs != "PANIC", tags...)
	}
	if a.Replay != "" {
		b, err := os.ReadFile(a.Replay)
		if err != nil {
			panic(err)
		}
		var rec struct {
			Source  string            `json:"source_plain"`
			Prefix  string            `json:"prefix"`
			Globals map[string]string `json:"globals"`
		}
		if err := json.Unmarshal(b, &rec); err != nil {
			panic(err)
		}
		e, err := parsePrefix(rec.Prefix)
		if err != nil {
			panic(err)
		}
		emit2(e, "replay", true)
		out.Close(a.Stats)
		return
	}
	// --sub FILE : one prefix form per line, each evaluated in a fresh interpreter (used by the shrinker)
	for i := 0; i+1 < len(a.Rest); i++ {
		if a.Rest[i] == "--sub" {
			b, err := os.ReadFile(a.Rest[i+1])
			if err != nil {
				panic(err)
			}
			for _, line := range strings.Split(strings.TrimSpace(string(b)), "\n") {
				if line == "" {
					continue
				}
				e, err := parsePrefix(line)
				if err != nil {
					panic(err)
				}
				emit2(e, "sub", true)
			}
			out.Close(a.Stats)
			return
		}
	}
	nRandom, nShare := 9000, 5000
	if a.Tier == "thorough" {
		nRandom, nShare = 150000, 80000
	}
	// exhaustive small stream
	sv := smallValues()
	for _, fn := range allFuns {
		for _, x := range sv {
			emit2(call(fn, lit(x)), "exh1", false)
		}
	}
	two := []string{"cons", "append", "appendslice", "concat", "aget", "+", "-", "*", "/", "<", "==", "!=", ">=", "mod", "map", "apply", "flatten", "list", "array"}
	for _, fn := range two {
		for _, x := range sv {
			for _, y := range sv {
				emit2(call(fn, lit(x), lit(y)), "exh2", false)
			}
		}
	}
	for _, x := range sv {
		emit2(iff(lit(x), lit(vI(1)), lit(vI(2))), "truthy", false)
		emit2(call("not", call("not", lit(x))), "truthy", false)
	}
	for i := 0; i < nShare; i++ {
		emit2(g.sharing(1+g.pick(2)), "sharing", false)
	}
	kinds := []byte("**LLAASSInnBBYCF")
	for i := 0; i < nRandom; i++ {
		emit2(g.expr(kinds[g.pick(len(kinds))], 2+g.pick(3), scope{}), "random", false)
	}
	out.Close(a.Stats)
}
