package main

import (
	"encoding/hex"
	"fmt"
	"math"
	"strconv"
	"strings"
)

// parser of the prefix form (the model runner's input), for --replay and --sub
type toks struct {
	t []string
	p int
}

func tokenize(s string) *toks {
	for _, c := range []string{"(", ")", "[", "]"} {
		s = strings.ReplaceAll(s, c, " "+c+" ")
	}
	return &toks{t: strings.Fields(s)}
}
func (t *toks) next() string {
	if t.p >= len(t.t) {
		return ""
	}
	t.p++
	return t.t[t.p-1]
}
func (t *toks) peek() string {
	if t.p >= len(t.t) {
		return ""
	}
	return t.t[t.p]
}

func (t *toks) val() (*V, error) {
	x := t.next()
	switch {
	case x == "(":
		if t.next() != "P" {
			return nil, fmt.Errorf("bad pair")
		}
		h, err := t.val()
		if err != nil {
			return nil, err
		}
		tl, err := t.val()
		if err != nil {
			return nil, err
		}
		if t.next() != ")" {
			return nil, fmt.Errorf("bad pair end")
		}
		return vP(h, tl), nil
	case x == "[":
		var l []*V
		for t.peek() != "]" {
			if t.peek() == "" {
				return nil, fmt.Errorf("open array")
			}
			e, err := t.val()
			if err != nil {
				return nil, err
			}
			l = append(l, e)
		}
		t.next()
		return vA(l...), nil
	case x == "":
		return nil, fmt.Errorf("eof")
	case strings.HasPrefix(x, "FN:"):
		return vU(x[3:]), nil
	}
	body := x[1:]
	switch x[0] {
	case 'I':
		i, err := strconv.ParseInt(body, 10, 64)
		return vI(i), err
	case 'F':
		u, err := strconv.ParseUint(body, 10, 64)
		return vF(math.Float64frombits(u)), err
	case 'C':
		i, err := strconv.ParseInt(body, 10, 64)
		return vC(i), err
	case 'S':
		b, err := hex.DecodeString(body)
		return vS(string(b)), err
	case 'Y':
		b, err := hex.DecodeString(body)
		return vY(string(b)), err
	case 'B':
		return vB(body == "t"), nil
	case 'N':
		return vN(), nil
	}
	return nil, fmt.Errorf("bad value %q", x)
}

func (t *toks) exp() (*E, error) {
	if t.next() != "(" {
		return nil, fmt.Errorf("expected (")
	}
	switch t.next() {
	case "L", "Q":
		isQ := t.t[t.p-1] == "Q"
		v, err := t.val()
		if err != nil {
			return nil, err
		}
		if t.next() != ")" {
			return nil, fmt.Errorf("bad L")
		}
		e := lit(v)
		e.q = isQ
		return e, nil
	case "V":
		i, err := strconv.Atoi(t.next())
		if err != nil || t.next() != ")" {
			return nil, fmt.Errorf("bad V")
		}
		return vr(i), nil
	case "let", "if":
		n := 2
		if t.t[t.p-1] == "if" {
			n = 3
		}
		var a []*E
		for i := 0; i < n; i++ {
			e, err := t.exp()
			if err != nil {
				return nil, err
			}
			a = append(a, e)
		}
		if t.next() != ")" {
			return nil, fmt.Errorf("bad let/if")
		}
		if n == 2 {
			return let(a[0], a[1]), nil
		}
		return iff(a[0], a[1], a[2]), nil
	case "call":
		fn := t.next()
		var a []*E
		for t.peek() != ")" {
			if t.peek() == "" {
				return nil, fmt.Errorf("open call")
			}
			e, err := t.exp()
			if err != nil {
				return nil, err
			}
			a = append(a, e)
		}
		t.next()
		return call(fn, a...), nil
	}
	return nil, fmt.Errorf("bad expr")
}

func parsePrefix(s string) (*E, error) {
	t := tokenize(s)
	e, err := t.exp()
	if err != nil {
		return nil, err
	}
	if t.p != len(t.t) {
		return nil, fmt.Errorf("trailing input")
	}
	return e, nil
}
