// c03: lexical scoping.  Scope-focused program stream (nested fn/defn/let/letseq/newScope/for/
// def/set over the names x y f) run on the real interpreter; the extracted reference evaluator
// (coq/Model/RefSem.v, static chains of frames) is the specification.  See harness/refgen.
package main

import "verif/harness/refgen"

func main() { refgen.Main("C03") }
