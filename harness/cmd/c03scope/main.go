// c03scope: correspondence of the scope MECHANISM.  Runs scope-focused programs on the real interpreter
// with the instruction trace hook, records the scope-relevant events (scope pushed / popped, closure
// created, current function changed) and, before every variable lookup, the real lookup structure
// (live scope stack with function-boundary flags, captured stacks along the parent chain of the current
// function; /repo/zygo/verif_c03.go).  The extracted machine coq/Model/ScopeImpl.v replays the events
// (ocaml/refsem/run.ml, option scope=1) and must show the same structure at every lookup.
//
// Identity of functions and scopes = the address of the Go object (the accessors return uintptr, which
// does not keep the object alive).  A callExprEval function or a block scope is garbage as soon as it is
// left, and the allocator hands the address of a swept object out again: a NEW function at the address
// of a dead one was then taken for the old one ("u<old>" instead of "s<new>:<parent>"), the replay
// resumed the stale function and the tie reported a difference that depended on when the collector
// happened to run (GOGC=5 showed it on every seed).  So the collector is switched off while a program
// runs (no sweep = no address is handed out twice within one program) and run by hand between programs,
// when the heap has grown (a full collection per program costs 20 ms, 25 s per quick run).
package main

import (
	"fmt"
	"runtime"
	"runtime/debug"
	"strings"

	"github.com/glycerine/zygomys/v9/zygo"
	"verif/harness/lib"
	"verif/harness/refgen"
)

func renderDump(live []zygo.VerifScope, chain []zygo.VerifFn) string {
	num := map[uintptr]int{}
	n := func(id uintptr) int {
		if _, ok := num[id]; !ok {
			num[id] = len(num) + 1
		}
		return num[id]
	}
	sc := func(s zygo.VerifScope) string {
		out := fmt.Sprintf("%d", n(s.ID))
		if s.IsFunction {
			out += "f"
			ts := make([]string, len(s.Template))
			for i, t := range s.Template {
				ts[i] = fmt.Sprintf("%d", n(t))
			}
			out += "{" + strings.Join(ts, ".") + "}"
		}
		return out
	}
	list := func(ss []zygo.VerifScope) string {
		parts := make([]string, len(ss))
		for i, s := range ss {
			parts[i] = sc(s)
		}
		return strings.Join(parts, ".")
	}
	out := "L:" + list(live) + "|C:"
	for i, f := range chain {
		if i > 0 {
			out += ";"
		}
		if f.HasClosing {
			out += "[" + list(f.Closing) + "]"
		} else {
			out += "-"
		}
	}
	return out
}

func main() {
	a := lib.ParseArgs()
	out := lib.NewOut(a.Out)
	out.Rule = "scope-focused programs (idioms, their mutations, random programs over x y f); per program the scope events of the real VM and the real lookup structure before each instruction that looks a name up or binds one (variable read, call, set, def / parameter binding; at most 80 per program)"
	rng := lib.NewRng(a.Seed ^ 0xC03)
	g := &refgen.Gen{R: rng, MaxNodes: 30, MaxDepth: 7, Scopey: true}
	n := 1200
	if a.Tier == "thorough" {
		n = 40000
	}
	dumps, lookups := 0, 0
	var ms runtime.MemStats
	debug.SetGCPercent(-1)       // see the header comment: addresses are identities while a program runs
	debug.SetMemoryLimit(1 << 62) // a GOMEMLIMIT from the environment would start the collector again
	for i := 0; i < n; i++ {
		if runtime.ReadMemStats(&ms); ms.HeapAlloc > 128<<20 {
			runtime.GC() // between programs, when no identity is remembered
		}
		var p *refgen.Program
		switch i % 3 {
		case 0:
			p = g.Idiom()
		case 1:
			p = g.Mutate(g.Idiom())
		default:
			p = g.Program()
		}
		src := p.Source(refgen.Style{})
		env := zygo.NewZlisp()
		env.StandardSetup()
		env.AddFunction("trace", func(env *zygo.Zlisp, name string, args []zygo.Sexp) (zygo.Sexp, error) {
			if len(args) == 0 {
				return zygo.SexpNull, nil
			}
			return args[0], nil
		})
		env.AddFunction("failk", func(env *zygo.Zlisp, name string, args []zygo.Sexp) (zygo.Sexp, error) {
			if len(args) == 0 {
				return zygo.SexpNull, nil
			}
			return args[0], nil
		})
		var events, real []string
		known := map[uintptr]int{}
		next := 1
		scopeNum := map[uintptr]int{}
		nextScope := 1
		var lastCur uintptr
		first := true
		zygo.VerifTrace = func(env *zygo.Zlisp, phase int, in zygo.Instruction, err error) {
			kind, k := zygo.VerifInstrKind(in)
			if phase == 0 {
				chain := env.VerifCurFuncChain()
				if len(chain) == 0 {
					return
				}
				cur := chain[0].ID
				if first {
					known[cur] = 0
					first = false
					if lv := env.VerifLiveScopes(); len(lv) > 0 {
						scopeNum[lv[len(lv)-1].ID] = 0
					}
				} else if cur != lastCur {
					if id, ok := known[cur]; ok {
						events = append(events, fmt.Sprintf("u%d", id))
					} else {
						// a function not seen before: a callExprEval function; its parent is read off the real chain
						par := 0
						if len(chain) > 1 {
							if id, ok := known[chain[1].ID]; ok {
								par = id
							} else {
								par = 9999
							}
						}
						known[cur] = next
						events = append(events, fmt.Sprintf("s%d:%d", next, par))
						next++
					}
				}
				lastCur = cur
				if (kind == "envtostack" || kind == "callexpr" || kind == "update" || kind == "putenv") && len(real) < 80 {
					events = append(events, "d")
					real = append(real, renderDump(env.VerifLiveScopes(), chain))
				}
				return
			}
			if err != nil {
				return
			}
			switch kind {
			case "addscope":
				events = append(events, "p0")
				if lv := env.VerifLiveScopes(); len(lv) > 0 {
					scopeNum[lv[0].ID] = nextScope
				}
				nextScope++
			case "addfuncscope":
				ev := "p1:"
				if lv := env.VerifLiveScopes(); len(lv) > 0 {
					scopeNum[lv[0].ID] = nextScope
					ts := make([]string, len(lv[0].Template))
					for i, t := range lv[0].Template {
						if k, ok := scopeNum[t]; ok {
							ts[i] = fmt.Sprintf("%d", k)
						} else {
							ts[i] = "9999"
						}
					}
					ev += strings.Join(ts, ".")
				}
				nextScope++
				events = append(events, ev)
			case "remscope", "popscope":
				events = append(events, "o1")
			case "break", "continue":
				if k > 0 {
					events = append(events, fmt.Sprintf("o%d", k))
				}
			case "closure":
				if id, _, ok := zygo.VerifFuncID(env.VerifDataTop()); ok {
					known[id] = next
					events = append(events, fmt.Sprintf("c%d", next))
					next++
				}
			}
		}
		lib.Eval(env, src, 4000)
		zygo.VerifTrace = nil
		env.Close()
		lookups += len(real)
		if len(real) > 0 {
			dumps++
		}
		out.Case("scope=1 "+strings.Join(events, " "), strings.Join(real, " ")+"\t"+strings.ReplaceAll(src, "\n", " "), len(real) > 0, "stream:scope-mechanism")
	}
	out.Extra["programs_with_lookups"] = dumps
	out.Extra["lookup_structures_compared"] = lookups
	out.Close(a.Stats)
}
