package main

import (
	"fmt"
	"strings"

	"github.com/glycerine/zygomys/v9/zygo"
	"verif/harness/lib"
)

// API histories: the embedding entry points in the orders a host program may use them.
// Several Load* calls (LoadString / LoadExpressions / LoadFile) followed by ONE Run(), on
// interpreters in every initial state (new without StandardSetup, sandbox, after Clear(), after a
// run, after an error), then Run() on the idle interpreter and EvalString("").  Observed: the
// value (against evaluating the pieces one at a time), the four depths, nil from the idle runs;
// the chunk that the single Run executes is dumped and goes through check_fn like any top-level chunk.

var apiCtors = []string{"std", "bare", "sandbox"}
var apiPre = []string{"new", "clear", "ran", "err"}
var apiLoaders = []string{"LoadString", "LoadExpressions", "LoadFile"}

var apiPieceSets = [][]string{
	{`(def a 10)`, `(def b (+ a 5))`, `(* a b)`},
	{`7`, `8`},
	{`(def q 1)`, `(for [(def i 0) (< i 2) (set i (+ i 1))] (set q (+ q i)))`, `q`},
	{`(defn f [x] (+ x 1))`, `(f 2)`, `(let [z (f 3)] z)`},
	{`(begin)`, `3`},
	{`"s"`},
}

func apiEnv(ctor, pre string) *zygo.Zlisp {
	var env *zygo.Zlisp
	switch ctor {
	case "std":
		env = zygo.NewZlisp()
		env.StandardSetup()
	case "bare":
		env = zygo.NewZlisp()
	default:
		env = zygo.NewZlispSandbox()
	}
	switch pre {
	case "clear":
		env.Clear()
	case "ran":
		env.EvalString("(+ 1 1)")
	case "err":
		if _, err := env.EvalString("(undefined-function-c04 1)"); err != nil {
			env.Clear()
		}
	}
	return env
}

func apiLoad(env *zygo.Zlisp, loader, piece string) error {
	switch loader {
	case "LoadExpressions":
		p := env.VerifParser()
		p.ResetAddNewInput(strings.NewReader(piece + "\n"))
		xs, err := p.ParseTokens()
		if err != nil {
			return err
		}
		return env.LoadExpressions(xs)
	case "LoadFile":
		return env.LoadFile(strings.NewReader(piece))
	}
	return env.LoadString(piece)
}

// one API history; desc is the replayable description (parsed again by --replay)
func (s *session) apiHistory(ctor, pre string, loaders []string, pieces []string) {
	desc := fmt.Sprintf("#api ctor=%s pre=%s loaders=%s", ctor, pre, strings.Join(loaders, ","))
	for _, p := range pieces {
		desc += "\n#piece\n" + p
	}
	s.fresh()
	s.env = apiEnv(ctor, pre)
	s.budget = 20000
	tags := []string{"stream:api", "api:ctor-" + ctor, "api:pre-" + pre, fmt.Sprintf("api:pieces-%d", len(pieces))}
	r := s.evalWith(desc, func(env *zygo.Zlisp) error {
		for i, p := range pieces {
			if err := apiLoad(env, loaders[i%len(loaders)], p); err != nil {
				return err
			}
		}
		return nil
	}, tags)
	if r.Class != lib.OutValue {
		return
	}
	// reference: the pieces one at a time in an interpreter of the same kind
	ref := apiEnv(ctor, pre)
	var rv lib.Result
	for _, p := range pieces {
		rv = plainEval(ref, p, 20000)
		if rv.Class != lib.OutValue {
			break
		}
	}
	obs := "same"
	if rv.Class != lib.OutValue {
		obs = "diff class value vs " + rv.Class
	} else if showVal(rv.Val) != showVal(r.Val) {
		obs = "diff value " + showVal(r.Val) + " vs " + showVal(rv.Val)
	}
	emit("O api "+fmt.Sprint(totalEvals), obs, desc, "obs:loads-then-run-vs-one-by-one")
	// Run() on the idle interpreter, then empty input
	idle := "nil"
	func() {
		defer func() {
			if rec := recover(); rec != nil {
				idle = "panic"
			}
		}()
		v, err := s.env.Run()
		if err != nil {
			idle = "error"
		} else if v != zygo.SexpNull {
			idle = "stale:" + showVal(v)
		}
	}()
	emit("N idle-run "+fmt.Sprint(totalEvals), idle+" "+depths(s.env), desc, "obs:idle-run")
	s.evalEmpty()
}

func (s *session) apiStream(rng *lib.Rng, thorough bool) {
	for _, ctor := range apiCtors {
		for _, pre := range apiPre {
			for pi, pieces := range apiPieceSets {
				for li := 0; li < 4; li++ {
					if !thorough && (pi+li)%2 == 1 && pi > 1 {
						continue
					}
					var loaders []string
					if li < 3 {
						loaders = []string{apiLoaders[li]}
					} else {
						loaders = []string{apiLoaders[rng.Intn(3)], apiLoaders[rng.Intn(3)], apiLoaders[rng.Intn(3)]}
					}
					for k := 1; k <= len(pieces); k++ {
						if k > 1 && k < len(pieces) && !thorough {
							continue
						}
						s.apiHistory(ctor, pre, loaders, pieces[:k])
					}
				}
			}
		}
	}
	// longer mixed histories on one interpreter: loads, runs, idle runs, clears
	n := 30
	if thorough {
		n = 200
	}
	for h := 0; h < n; h++ {
		ctor, pre := apiCtors[rng.Intn(3)], apiPre[rng.Intn(4)]
		s.fresh()
		s.env = apiEnv(ctor, pre)
		hist := fmt.Sprintf("#api-history ctor=%s pre=%s", ctor, pre)
		for step := 0; step < 6; step++ {
			k := rng.Intn(3) + 1
			var pieces, loaders []string
			for j := 0; j < k; j++ {
				pieces = append(pieces, fmt.Sprintf("(def h%d_%d_%d %d)", h, step, j, rng.Intn(9)))
				loaders = append(loaders, apiLoaders[rng.Intn(3)])
			}
			hist += "\n" + strings.Join(loaders, ",") + ": " + strings.Join(pieces, " | ") + " ; Run"
			r := s.evalWith(hist, func(env *zygo.Zlisp) error {
				for i, p := range pieces {
					if err := apiLoad(env, loaders[i], p); err != nil {
						return err
					}
				}
				return nil
			}, []string{"stream:api-history"})
			if r.Class != lib.OutValue {
				break
			}
			if depths(s.env) != "0,1,0,0" {
				break
			}
			switch rng.Intn(4) {
			case 0:
				s.evalEmpty()
			case 1:
				s.env.Clear()
				hist += "\nClear"
			}
		}
	}
}
