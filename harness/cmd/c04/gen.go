package main

import (
	"fmt"
	"strings"

	"verif/harness/lib"
)

// Program generator for C04: programs of the full surface language whose control paths
// (cond arms, and/or, for with break/continue/labels inside let/newScope, tail calls,
// closures, lazy parameters, syntax-quote, declarations) exercise every place where the
// generator has to keep the stacks balanced.  Every program is self-contained: names are
// unique per program (suffix), so a program behaves the same in a fresh interpreter and at
// the end of a long history.

type fsig struct {
	name  string
	arity int
	lazy  bool
}

type G struct {
	r      *lib.Rng
	sfx    string
	n      int
	vars   []string
	fns    []fsig
	loops  []string // labels of enclosing loops ("" = unlabelled)
	inFn   *fsig    // function being defined (for self tail calls)
	tags   map[string]bool
	budget int
}

func newG(r *lib.Rng, sfx string) *G {
	return &G{r: r, sfx: sfx, tags: map[string]bool{}}
}

func (g *G) fresh(p string) string {
	g.n++
	return fmt.Sprintf("%s%d%s", p, g.n, g.sfx)
}

func (g *G) tag(t string) { g.tags[t] = true }

func (g *G) lit() string {
	switch g.r.Intn(6) {
	case 0:
		return "0"
	case 1:
		return "1"
	default:
		return fmt.Sprintf("%d", g.r.Intn(9))
	}
}

func (g *G) leaf() string {
	if len(g.vars) > 0 && g.r.Intn(3) != 0 {
		return g.vars[g.r.Intn(len(g.vars))]
	}
	return g.lit()
}

func (g *G) pred(d int) string {
	switch g.r.Intn(7) {
	case 0:
		return "true"
	case 1:
		return "false"
	case 2:
		return "(not " + g.pred(d-1) + ")"
	case 3:
		if d > 0 {
			g.tag("and-or")
			return "(and " + g.pred(d-1) + " " + g.pred(d-1) + ")"
		}
	case 4:
		if d > 0 {
			g.tag("and-or")
			return "(or " + g.pred(d-1) + " " + g.pred(d-1) + ")"
		}
	}
	ops := []string{"<", ">", "==", "<=", "!="}
	return "(" + ops[g.r.Intn(len(ops))] + " " + g.expr(d-1) + " " + g.expr(d-1) + ")"
}

func (g *G) withVars(names []string, f func() string) string {
	old := len(g.vars)
	g.vars = append(g.vars, names...)
	s := f()
	g.vars = g.vars[:old]
	return s
}

func (g *G) body(d int, n int) string {
	parts := []string{}
	for i := 0; i < n; i++ {
		parts = append(parts, g.stmt(d))
	}
	parts = append(parts, g.expr(d))
	return strings.Join(parts, " ")
}

// expr: an expression that yields an integer
func (g *G) expr(d int) string {
	if d <= 0 || g.budget <= 0 {
		return g.leaf()
	}
	g.budget--
	switch g.r.Intn(24) {
	case 0, 1:
		ops := []string{"+", "-", "*"}
		return "(" + ops[g.r.Intn(3)] + " " + g.expr(d-1) + " " + g.expr(d-1) + ")"
	case 2:
		g.tag("cond")
		s := "(cond"
		for i := g.r.Intn(3) + 1; i > 0; i-- {
			s += " " + g.pred(d-1) + " " + g.expr(d-1)
		}
		return s + " " + g.expr(d-1) + ")"
	case 3:
		g.tag("and-or")
		op := []string{"and", "or"}[g.r.Intn(2)]
		s := "(" + op
		for i := g.r.Intn(3) + 1; i > 0; i-- {
			s += " " + g.expr(d-1)
		}
		return s + ")"
	case 4:
		g.tag("let")
		kind := []string{"let", "letseq"}[g.r.Intn(2)]
		k := g.r.Intn(3)
		names := []string{}
		binds := []string{}
		for i := 0; i < k; i++ {
			v := g.fresh("v")
			rhs := g.expr(d - 1)
			if len(g.loops) > 0 && g.r.Intn(3) == 0 {
				// a break/continue reached while the bindings are still being computed
				g.tag("break-in-let-init")
				kw := []string{"break", "continue"}[g.r.Intn(2)]
				rhs = "(cond " + g.pred(d-1) + " (" + kw + ") " + rhs + ")"
			}
			if kind == "letseq" {
				g.vars = append(g.vars, v)
			}
			names = append(names, v)
			binds = append(binds, v+" "+rhs)
		}
		if kind == "letseq" {
			g.vars = g.vars[:len(g.vars)-k]
		}
		return "(" + kind + " [" + strings.Join(binds, " ") + "] " + g.withVars(names, func() string { return g.body(d-1, g.r.Intn(3)) }) + ")"
	case 5:
		g.tag("newScope")
		return "(newScope " + g.body(d-1, g.r.Intn(3)) + ")"
	case 6:
		g.tag("begin")
		return "(begin " + g.body(d-1, g.r.Intn(3)) + ")"
	case 7:
		g.tag("for")
		return "(begin " + g.forLoop(d-1) + " " + g.expr(d-1) + ")"
	case 8:
		if len(g.fns) > 0 {
			f := g.fns[g.r.Intn(len(g.fns))]
			g.tag("call")
			args := []string{}
			for i := 0; i < f.arity; i++ {
				args = append(args, g.expr(d-1))
			}
			return "(" + f.name + " " + strings.Join(args, " ") + ")"
		}
		return g.leaf()
	case 9:
		g.tag("closure")
		a := g.fresh("a")
		return "((fn [" + a + "] " + g.withVars([]string{a}, func() string { return g.fnBody(d-1, nil) }) + ") " + g.expr(d-1) + ")"
	case 10:
		g.tag("def-expr")
		v := g.fresh("w")
		s := "(def " + v + " " + g.expr(d-1) + ")"
		g.vars = append(g.vars, v)
		return s
	case 11:
		if len(g.vars) > 0 {
			g.tag("set-expr")
			return "(set " + g.vars[g.r.Intn(len(g.vars))] + " " + g.expr(d-1) + ")"
		}
		return g.leaf()
	case 12:
		g.tag("array")
		return "(len [" + g.expr(d-1) + " " + g.expr(d-1) + " " + g.leaf() + "])"
	case 13:
		g.tag("array")
		return "(aget [" + g.expr(d-1) + " " + g.expr(d-1) + "] " + fmt.Sprint(g.r.Intn(2)) + ")"
	case 14:
		g.tag("syntax-quote")
		return "(len ^(1 ~" + g.expr(d-1) + " ~@(list " + g.expr(d-1) + " " + g.leaf() + ") [2 ~" + g.leaf() + " ~@(list " + g.leaf() + ")] x))"
	case 15:
		g.tag("hash")
		return "(hget (hash a:" + g.expr(d-1) + " b:" + g.leaf() + ") %a)"
	case 16:
		g.tag("infix")
		return "{" + g.leaf() + " + " + g.leaf() + " * (" + "+ 1 " + g.expr(d-1) + ")}"
	case 17:
		g.tag("mdef")
		a, b := g.fresh("m"), g.fresh("m")
		s := "(begin (mdef " + a + " " + b + " (list " + g.expr(d-1) + " " + g.leaf() + ")) (+ " + a + " " + b + "))"
		return s
	case 18:
		g.tag("assert")
		return "(begin (assert " + "(== 1 1)" + ") " + g.expr(d-1) + ")"
	case 19:
		g.tag("first-list")
		return "(first (list " + g.expr(d-1) + " " + g.leaf() + "))"
	case 20:
		g.tag("apply-map")
		a := g.fresh("a")
		return "(len (map (fn [" + a + "] " + g.withVars([]string{a}, func() string { return g.expr(d - 1) }) + ") [1 2 " + g.leaf() + "]))"
	case 21:
		g.tag("eval")
		return "(eval (quote " + g.withVars(nil, func() string { return "(+ 1 " + g.lit() + ")" }) + "))"
	case 22:
		g.tag("hash-syntax-quote")
		return "(len ^{a:~" + g.leaf() + " b:2})"
	default:
		g.tag("infix-assign")
		v := g.fresh("q")
		s := "{" + v + " = " + g.leaf() + " + 2}"
		g.vars = append(g.vars, v)
		return s
	}
}

func (g *G) forLoop(d int) string {
	i := g.fresh("i")
	label := ""
	hdr := "(for "
	if g.r.Intn(3) == 0 {
		label = g.fresh("L")
		hdr += label + ": "
		g.tag("for-label")
	}
	n := g.r.Intn(4) + 1
	hdr += fmt.Sprintf("[(def %s 0) (< %s %d) (set %s (+ %s 1))] ", i, i, n, i, i)
	g.loops = append(g.loops, label)
	body := g.withVars([]string{i}, func() string {
		parts := []string{}
		for k := g.r.Intn(3) + 1; k > 0; k-- {
			parts = append(parts, g.stmt(d))
		}
		return strings.Join(parts, " ")
	})
	g.loops = g.loops[:len(g.loops)-1]
	return hdr + body + ")"
}

// stmt: a form evaluated for effect inside begin/let/for bodies
func (g *G) stmt(d int) string {
	if d <= 0 || g.budget <= 0 {
		return g.leaf()
	}
	g.budget--
	c := g.r.Intn(14)
	if len(g.loops) > 0 && c < 5 {
		// break / continue on some path, possibly through extra scopes
		g.tag("break-continue")
		kw := []string{"break", "continue"}[g.r.Intn(2)]
		lab := ""
		if l := g.loops[g.r.Intn(len(g.loops))]; l != "" && g.r.Bool() {
			lab = " " + l + ":"
			g.tag("break-continue-label")
		}
		jump := "(" + kw + lab + ")"
		switch g.r.Intn(5) {
		case 0:
			return "(cond " + g.pred(d-1) + " " + jump + " " + g.leaf() + ")"
		case 1:
			g.tag("break-in-let")
			v := g.fresh("v")
			return "(let [" + v + " " + g.expr(d-1) + "] (cond " + g.pred(d-1) + " " + jump + " " + v + "))"
		case 2:
			g.tag("break-in-newScope")
			return "(newScope " + g.leaf() + " (cond " + g.pred(d-1) + " (newScope 1 " + jump + ") 2))"
		case 3:
			g.tag("break-under-operands")
			return "(cond " + g.pred(d-1) + " ^(1 ~(begin " + jump + " 2)) 3)"
		default:
			return "(and " + g.pred(d-1) + " " + jump + ")"
		}
	}
	switch c {
	case 5, 6:
		v := g.fresh("s")
		s := "(def " + v + " " + g.expr(d-1) + ")"
		g.vars = append(g.vars, v)
		return s
	case 7:
		if len(g.vars) > 0 {
			return "(set " + g.vars[g.r.Intn(len(g.vars))] + " " + g.expr(d-1) + ")"
		}
	case 8:
		g.tag("for")
		return g.forLoop(d - 1)
	case 9:
		g.tag("nested-defn")
		return g.defn(d-1, false)
	}
	return g.expr(d)
}

// fnBody: body of a function; with self != nil the tail positions may hold a self tail call
func (g *G) fnBody(d int, self *fsig) string {
	old := g.inFn
	g.inFn = self
	defer func() { g.inFn = old }()
	oldLoops := g.loops
	g.loops = nil
	defer func() { g.loops = oldLoops }()
	pre := []string{}
	for k := g.r.Intn(2); k > 0; k-- {
		pre = append(pre, g.stmt(d))
	}
	return strings.Join(append(pre, g.tail(d)), " ")
}

// tail: an expression in tail position
func (g *G) tail(d int) string {
	if d <= 0 || g.budget <= 0 {
		return g.leaf()
	}
	g.budget--
	self := g.inFn
	switch g.r.Intn(8) {
	case 0:
		return "(cond " + g.pred(d-1) + " " + g.tail(d-1) + " " + g.tail(d-1) + ")"
	case 1:
		v := g.fresh("t")
		return "(let [" + v + " " + g.expr(d-1) + "] " + g.withVars([]string{v}, func() string { return g.tail(d - 1) }) + ")"
	case 2:
		return "(newScope " + g.stmt(d-1) + " " + g.tail(d-1) + ")"
	case 3:
		return "(begin " + g.stmt(d-1) + " " + g.tail(d-1) + ")"
	case 4:
		return "(" + []string{"and", "or"}[g.r.Intn(2)] + " " + g.pred(d-1) + " " + g.tail(d-1) + ")"
	case 5:
		g.tag("return-form")
		return "(return " + g.expr(d-1) + ")"
	}
	if self != nil && len(g.vars) > 0 {
		// self tail call on a decreasing first argument
		g.tag("self-tail-call")
		args := []string{"(- " + self.name + "_n 1)"}
		for i := 1; i < self.arity; i++ {
			args = append(args, g.expr(d-1))
		}
		return "(" + self.name + " " + strings.Join(args, " ") + ")"
	}
	return g.expr(d)
}

// defn: a function definition; the first parameter of a recursive one is the counter <name>_n
func (g *G) defn(d int, lazy bool) string {
	name := g.fresh("f")
	ar := g.r.Intn(3) + 1
	sig := fsig{name: name, arity: ar, lazy: lazy}
	params := []string{name + "_n"}
	for i := 1; i < ar; i++ {
		params = append(params, g.fresh("p"))
	}
	varargs := g.r.Intn(5) == 0
	ps := strings.Join(params, " ")
	if varargs {
		g.tag("varargs")
		ps += " & " + g.fresh("rest")
	}
	oldVars := g.vars
	g.vars = append([]string{}, params...)
	body := g.fnBody(d, &sig)
	g.vars = oldVars
	g.fns = append(g.fns, sig)
	// the guard makes every self-recursive function terminate
	return "(defn " + name + " [" + ps + "] (cond (<= " + name + "_n 0) " + g.lit() + " (begin " + body + ")))"
}

// declaration forms (builders, macros, packages ...), each a self-contained snippet
func (g *G) decl() string {
	x := g.fresh("D")
	switch g.r.Intn(14) {
	case 0:
		g.tag("struct")
		return fmt.Sprintf("(struct %s [(field A: int64 e:0) (field B: string e:1)]) (def %sv (%s A: %s)) %sv.A", x, x, x, g.lit(), x)
	case 1:
		g.tag("func-builder")
		return fmt.Sprintf("(func %s [a:int64 b:int64] [n:int64] (+ a b)) (%s a:%s b:2)", x, x, g.lit())
	case 2:
		g.tag("func-decl-only")
		return fmt.Sprintf("(func %s [a:int64] [n:int64])", x)
	case 3:
		g.tag("method")
		return fmt.Sprintf("(struct %s [(field A: int64 e:0)]) (method [p: (* %s)] %sm [a:int64] [n:int64] (+ a 1))", x, x, x)
	case 4:
		g.tag("interface")
		return fmt.Sprintf("(interface %s [(func %sdrive [a:int64 b:string] [n:int64 err:error])])", x, x)
	case 5:
		g.tag("var")
		return fmt.Sprintf("(var %s int64) (%s = %s) %s", x, x, g.lit(), x)
	case 6:
		g.tag("var")
		return fmt.Sprintf("(var %s string)", x)
	case 7:
		g.tag("package")
		return fmt.Sprintf("(def %s (package \"%s\" { World := %s; (defn Fun [x] (+ World x)) })) (%s.Fun 3)", x, x, g.lit(), x)
	case 8:
		g.tag("macro")
		return fmt.Sprintf("(defmac %s [p & body] ^(cond ~p (begin ~@body) 0)) (%s true 1 %s)", x, x, g.expr(2))
	case 9:
		g.tag("range")
		return fmt.Sprintf("(def %s (hash a:1 b:2 c:%s)) (def %ss 0) (range k v %s (set %ss (+ %ss v))) %ss", x, g.lit(), x, x, x, x, x)
	case 10:
		g.tag("infix-block")
		return fmt.Sprintf("{%s = 3 + %s; %s = %s * 2} %s", x, g.lit(), x, x, x)
	case 11:
		g.tag("lazy")
		return fmt.Sprintf("(defn %s [#x y] (cond (> y 0) (force #x) 0)) (%s (+ 1 %s) %s)", x, x, g.expr(2), g.lit())
	case 12:
		g.tag("struct-nested")
		return fmt.Sprintf("(struct %s [(field P: int64 e:0)]) (def %sa [(%s P:1) (%s P:%s)]) (len %sa)", x, x, x, x, g.lit(), x)
	default:
		g.tag("macexpand")
		return fmt.Sprintf("(defmac %s [a] ^(+ 1 ~a)) (macexpand (%s 2))", x, x)
	}
}

// Program: a sequence of top-level forms
func (g *G) Program() []string {
	g.budget = 40 + g.r.Intn(60)
	forms := []string{}
	nf := g.r.Intn(3)
	for i := 0; i < nf; i++ {
		forms = append(forms, g.defn(4, false))
	}
	for k := g.r.Intn(3) + 1; k > 0; k-- {
		switch g.r.Intn(5) {
		case 0:
			forms = append(forms, g.decl())
		case 1:
			forms = append(forms, g.stmt(4))
		default:
			forms = append(forms, g.expr(4))
		}
	}
	return forms
}

func (g *G) Tags() []string {
	out := []string{}
	for t := range g.tags {
		out = append(out, "form:"+t)
	}
	return out
}
