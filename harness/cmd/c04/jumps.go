package main

import (
	"fmt"
	"strings"

	"verif/harness/lib"
)

// Jump-position matrix: a break / continue (plain or to an outer label) reached in EVERY position
// that the generator compiles inline — binding initialisers of let/letseq, bodies, cond predicates
// and arms, and/or operands, def/set right-hand sides, array elements, assert, unquote, return,
// the init/test/increment of an inner for, a package body — under every kind of surrounding extra
// scope.  Exhaustive over contexts x wrappers x jumps x surroundings; every program is two nested
// loops that count their completed iterations, so both the taken and the not-taken path run.

var jumpContexts = []struct{ name, form string }{
	{"let-init", "(let [x %s] x)"},
	{"let-init-2nd", "(let [y 1 x %s] (+ 1 y))"},
	{"letseq-init", "(letseq [x %s] x)"},
	{"letseq-init-mid", "(letseq [y 1 x %s z 2] z)"},
	{"let-body", "(let [y 1] %s)"},
	{"letseq-body", "(letseq [y 1] y %s)"},
	{"newScope-body", "(newScope 1 %s)"},
	{"begin", "(begin %s 1)"},
	{"cond-pred", "(cond %s 1 2)"},
	{"cond-pred-2nd", "(cond false 1 %s 2 3)"},
	{"cond-arm", "(cond true %s 2)"},
	{"cond-default", "(cond false 1 %s)"},
	{"and-first", "(and %s 2)"},
	{"or-first", "(or (not %s) 2)"},
	{"and-last", "(and 1 %s)"},
	{"def-rhs", "(def dj$N %s)"},
	{"set-rhs", "(set acc$N %s)"},
	{"array-elem", "[1 %s 3]"},
	{"assert-arg", "(assert %s)"},
	{"unquote", "^(1 ~%s)"},
	{"return-arg", "(return %s)"},
	{"for-init", "(for [(def j %s) (< j 1) (set j (+ j 1))] 1)"},
	{"for-test", "(for [(def j 0) (cond %s (< j 1) false) (set j (+ j 1))] 1)"},
	{"for-incr", "(for [(def j 0) (< j 1) (begin %s (set j (+ j 1)))] 1)"},
	{"for-body", "(for [(def j 0) (< j 1) (set j (+ j 1))] %s)"},
	{"package-body", "(package \"pj$N\" (def A %s))"},
	{"mdef-rhs", "(mdef ma$N mb$N (begin %s (list 1 2)))"},
	{"infix", "{ %s }"},
}

var jumpWrappers = []struct{ name, form string }{
	{"cond", "(cond (== k 1) %s 7)"},
	{"and", "(and (== k 1) %s)"},
	{"always", "(begin %s 7)"},
}

var jumpKinds = []string{"(break)", "(continue)", "(break outer:)", "(continue outer:)"}

var jumpSurround = []struct{ name, form string }{
	{"none", "%s"},
	{"in-let", "(let [s 1] %s)"},
	{"in-newScope", "(newScope 0 %s)"},
	{"in-letseq-init", "(letseq [s 1 t %s] t)"},
}

func (s *session) jumpMatrix(rng *lib.Rng, thorough bool) {
	n := 0
	s.fresh()
	for ci, ctx := range jumpContexts {
		for wi, w := range jumpWrappers {
			for ji, j := range jumpKinds {
				for si, sur := range jumpSurround {
					// quick tier: every context with every jump and every surrounding, wrappers rotated
					if !thorough && (ci+ji+si)%len(jumpWrappers) != wi {
						continue
					}
					n++
					inner := fmt.Sprintf(sur.form, fmt.Sprintf(ctx.form, fmt.Sprintf(w.form, j)))
					prog := fmt.Sprintf("(def acc$N 0)\n(for outer: [(def i 0) (< i 3) (set i (+ i 1))] (for [(def k 0) (< k 3) (set k (+ k 1))] %s (set acc$N (+ acc$N 1))))\nacc$N", inner)
					prog = strings.ReplaceAll(prog, "$N", fmt.Sprintf("_j%d", n))
					s.budget = 20000
					r := s.eval(prog, []string{"stream:jump-matrix", "jump:ctx-" + ctx.name, "jump:wrap-" + w.name, "jump:surround-" + sur.name})
					if r.Class == lib.OutPanic || depths(s.env) != "0,1,0,0" || n%40 == 0 {
						s.fresh()
					}
				}
			}
		}
	}
}
