// c04: an evaluation that succeeds leaves nothing behind in the interpreter.
//
// For tests/*.zy, generated programs of the full surface language, a declaration stream and
// a corpus of edge forms this harness
//   - dumps the REAL bytecode of every compiled function (F lines; the extracted check_fn
//     decides each one),
//   - records every executed instruction with the data-stack shape and the four depths
//     before/after (T/S/C/R lines; the extracted effect_ok / enter_ok / return_ok decide),
//   - observes the four depths around every successful evaluation in long histories against
//     one long-lived interpreter (D lines), the value of EvalString("") (N lines), and
//     one-at-a-time versus all-together evaluation (O lines).
// Case line: ID \t INPUT \t IMPL \t escaped program (replay).
package main

import (
	"encoding/json"
	"fmt"
	"os"
	"path/filepath"
	"sort"
	"strings"

	"github.com/glycerine/zygomys/v9/zygo"
	"verif/harness/lib"
)

var out *lib.Out
var seen = map[string]bool{}
var kinds = map[string]int{}

func esc(s string) string {
	s = strings.ReplaceAll(s, "\\", "\\\\")
	s = strings.ReplaceAll(s, "\t", "\\t")
	s = strings.ReplaceAll(s, "\n", "\\n")
	if len(s) > 30000 {
		s = s[:30000] + "...(truncated)"
	}
	return s
}

func emit(input, impl, src string, tags ...string) {
	if seen[input] {
		return
	}
	if len(seen) > 1500000 {
		return
	}
	seen[input] = true
	kinds[input[:1]]++
	out.Case(input, esc(impl)+"\t"+esc(src), true, tags...)
}

func newEnv() *zygo.Zlisp {
	env := zygo.NewZlisp()
	env.StandardSetup()
	return env
}

func depths(env *zygo.Zlisp) string {
	d, s, a, l := env.VerifDepths()
	return fmt.Sprintf("%d,%d,%d,%d", d, s, a, l)
}

func showVal(v zygo.Sexp) string {
	if v == nil {
		return "<go-nil>"
	}
	return v.SexpString(nil)
}

type session struct {
	env     *zygo.Zlisp
	c       *collector
	history []string
	trace   bool
	budget  int64
	noClear bool // the host handles an error without calling Clear()
	dSrc    string // replay text of the D line when it differs from the text evaluated (a history)
}

var totalSteps, totalEvals, okEvals, errEvals, panicEvals, budgetEvals int
var panicSamples []string
var errKinds = map[string]int{}
var highWater [4]int

// eval runs one text through LoadString + Run (exactly EvalString), dumping the new main
// chunk and tracing the run.  Returns the result class.
func (s *session) eval(src string, tags []string) lib.Result {
	return s.evalWith(src, func(env *zygo.Zlisp) error { return env.LoadString(src) }, tags)
}

// evalWith: `load` may call any number of Load* entry points; then ONE Run() executes whatever is
// pending.  The chunk that Run executes starts at the current pc of the main function (= its end
// when nothing is pending); it is dumped, checked as one top-level chunk and traced.
func (s *session) evalWith(src string, load func(env *zygo.Zlisp) error, tags []string) lib.Result {
	env := s.env
	s.c.curSrc = src
	totalEvals++
	mainFn := env.VerifMainFunc()
	from := len(mainFn.VerifCode())
	if pc, _ := env.VerifPc(); env.VerifCurFunc() == mainFn && pc >= 0 && pc < from {
		from = pc
	}
	var res lib.Result
	tr := &tracer{c: s.c, env: env}
	func() {
		zygo.VerifSetBudget(s.budget)
		defer zygo.VerifSetBudget(-1)
		defer func() {
			zygo.VerifTrace = nil
			if r := recover(); r != nil {
				res = lib.Result{Class: lib.OutPanic, Panic: r}
			}
		}()
		if s.trace {
			zygo.VerifTrace = tr.hook // macros run (traced) while loading
		}
		err := load(env)
		if err != nil {
			res = lib.Result{Class: lib.OutError, Err: err}
			return
		}
		if env.VerifMainFunc() == mainFn {
			d := zygo.NewVerifDumper()
			if idx := d.Add(mainFn, from); idx >= 0 {
				rec := &fnRec{dump: d.Funcs[idx], src: src}
				rec.id = s.c.register(rec.dump, true)
				tr.mainFn, tr.mainFrom, tr.mainRec = mainFn, from, rec
			}
			s.c.addStatic(env, mainFn, from, true, false)
		}
		v, err := env.Run()
		if err != nil {
			res = lib.Result{Class: lib.OutError, Err: err}
			if strings.Contains(err.Error(), zygo.VerifBudgetExhausted) {
				res.Class = lib.OutBudget
			}
			return
		}
		res = lib.Result{Class: lib.OutValue, Val: v}
	}()
	totalSteps += tr.steps
	for i := range highWater {
		if tr.high[i] > highWater[i] {
			highWater[i] = tr.high[i]
		}
	}
	switch res.Class {
	case lib.OutValue:
		okEvals++
		// static pass over everything the program made reachable, including the argument
		// expressions of CallExpr (compiled here as EvalCallExpression would)
		if env.VerifMainFunc() == mainFn {
			s.c.addStatic(env, mainFn, from, true, true)
		}
		dsrc := src
		if s.dSrc != "" {
			dsrc = s.dSrc
		}
		emit("D "+fmt.Sprint(totalEvals), depths(env), dsrc, append(tags, "obs:depths-after-success")...)
	case lib.OutPanic:
		panicEvals++
		if len(panicSamples) < 8 {
			panicSamples = append(panicSamples, esc(src)+" => "+fmt.Sprint(res.Panic))
		}
	case lib.OutBudget:
		budgetEvals++
		if !s.noClear {
			env.Clear()
		}
	default:
		errEvals++
		if res.Err != nil {
			m := res.Err.Error()
			if i := strings.Index(m, "\n"); i > 0 {
				m = m[:i]
			}
			if len(m) > 70 {
				m = m[:70]
			}
			errKinds[m]++
		}
		if !s.noClear {
			env.Clear()
		}
	}
	return res
}

func (s *session) fresh() {
	s.env = newEnv()
	s.c.marks = map[int]int{}
	s.c.byKey = map[uintptr]*fnRec{}
	s.history = nil
}

// plainEval: no tracing, for the one-by-one / together comparison
func plainEval(env *zygo.Zlisp, src string, budget int64) lib.Result {
	return lib.Eval(env, src, budget)
}

var edgeCorpus = []string{
	`(begin)`, `(newScope)`, `(return)`, `(begin (begin) 3)`, `(let [a 1] (begin))`, `(letseq [a 1] (newScope))`,
	`(defn e1 [] (begin)) (e1)`, `(defn e2 [] (let [a 1] (begin))) (begin (e2) 5)`, `(defn e3 [] (newScope)) (e3) 4`,
	`(defn e4 [] (return)) (e4)`, `(cond true (begin) 2)`, `(and true (begin))`, `(or false (newScope))`,
	`(def x9 (begin))`, `(for [(def i 0) (< i 2) (set i (+ i 1))] (begin))`, `(for [(begin) false (begin)] 1)`,
	`(func e5 [] [a:int64 b:int64]) (e5)`, `(func e6 [] [a:int64]) (e6)`, `(func e7 [a:int64] []) (e7 a:1)`,
	`(func e8 [] [] ) (e8)`, `(defn e9 [a & b] (cond (== a 0) (len b) (e9 (- a 1) 1 2 3))) (e9 3)`,
	`(defn e10 [a & b] (cond (== a 0) (len b) (e10 (- a 1)))) (e10 2 7 7)`,
	`(defn e11 [a b] (cond (== a 0) b (let [c 1] (newScope (e11 (- a 1) (+ b c)))))) (e11 5 0)`,
	`(defn e12 [n] (cond (== n 0) 100 (begin (def e12 (fn [a & b] 7)) (e12 (- n 1))))) (e12 3)`,
	`(defn e13 [a] (for [(def i 0) (< i 3) (set i (+ i 1))] (cond (== i a) (break) (continue))) a) (e13 1)`,
	`(for outer: [(def i 0) (< i 3) (set i (+ i 1))] (for [(def j 0) (< j 3) (set j (+ j 1))] (let [k 1] (newScope (cond (== j 1) (continue outer:) (== i 2) (break outer:) 0)))))`,
	`(package "pk1" (def A 1) (defn F [] A))`, `(def pk2 (package "pk2" { A := 2 })) pk2.A`,
	`^(1 2 ~(+ 1 2) ~@(list 4 5))`, `^[1 ~(+ 1 1) ~@[3 4]]`, `^{a:1 b:~(+ 1 1)}`, `(macexpand (range k v h 1))`,
	`(defmac m1 [] ^(begin))  (m1)`, `(defmac m2 [a] ^(let [t ~a] t)) (+ (m2 3) (m2 4))`,
	`(mdef a1 b1 c1 (list 1 2 3)) (+ a1 b1 c1)`, `(a2 b2 = 1 2)`, `(assert true)`, `(var v1 int64)`, `(var v2 string) v2`,
	`(struct S1 [(field A: int64 e:0)]) (def s1 (S1 A:4)) s1.A`, `(struct S2 []) (S2)`,
	`(interface I1 [(func dr [a:int64] [n:int64])])`, `(method [p: (* S1)] mm [a:int64] [n:int64] a)`,
	`(defn lz [#x] (force #x)) (lz (+ 1 2))`, `(defn lz2 [#x y] y) (lz2 (undefined-fn 1) 2)`,
	`(defn cl [] (let [c 0] (fn [] (set c (+ c 1)) c))) (def k1 (cl)) (k1) (k1)`,
	`(map (fn [x] (+ x 1)) [1 2 3])`, `(eval (quote (+ 1 2)))`, `(eval (quote (begin)))`, `(source "/nonexistent-file-c04")`,
	`{a3 = 1 + 2 * 3}`, `{ }`, `(infix)`, `{a4 = 1; b4 = 2; a4 + b4}`, `(quote)`, `(quote a b)`, `(+ 1 (quote a b))`,
	`(defn q2 [] (quote 1 2)) (q2)`, `(begin (quote 1 2) 3)`, `(let [a (quote)] 1)`, `(def z1 (quote))`,
	`(include)`, `(defn rr [] (return 1 2)) (rr)`, `(defn r1 [] (return 5)) (+ 1 (r1))`,
	`(for [(def i 0) (< i 2) (set i (+ i 1))] ^(1 ~(break)))`, `(for [(def i 0) (< i 2) (set i (+ i 1))] (+ 1 (continue)))`,
	`(cond (begin) 1 2)`, `(+ 5 (cond (begin) 1 2))`, `(defn gg [] (let [a 1] (begin))) (+ 5 (gg))`,
	`(for [(def i 0) (< i 1) (set i (+ i 1))] (or (let [v 1] (continue)) 2))`, `(for [(def i 0) (< i 2) (set i (+ i 1))] (cond (newScope (break)) 1 2))`,
	`(for [(def i 0) (< i 2) (set i (+ i 1))] (and (letseq [w 1] (cond (== i 0) (continue) w)) 3))`,
	`(defn r0 [] (return)) (+ 5 (r0))`, `(defn sq0 [] (set %y 10)) (+ 1 (sq0))`, `(def ar0 [4 5 6]) (defn ai0 [] (set (arrayidx ar0 [1]) 99)) (+ 1 (ai0))`,
	`(for [(def k 0) (< k 3) (set k (+ k 1))] (package "pkx" (def A (cond (== k 1) (break) 7))))`,
	`([] int64)`, `(def a5 5) (a5)`, `((fn [] 3))`, `(int64 2.7)`, `(def n9 (int 9.99)) n9`, `(defn whole [x] (int64 x)) (whole 3.5) (whole 1.5)`, `(let [f 6.5] (uint8 f))`,
	`(func tf1 [a:int64 b:int64] [r:int64] (cond (== a 0) b (tf1 a:(- a 1) b:(+ b 1)))) (tf1 a:3 b:0)`,
	`(func tf2 [a:int64 b:int64] [r:int64] (cond (== a 0) b (tf2 (- a 1) (+ b 1)))) (tf2 a:3 b:0) (tf2 3 0)`,
	`(func tf3 [a:int64 b:int64] [r:int64] (cond (== a 0) b (tf3 a:(- a 1) b:(+ b 1)))) (func tf3 [a:int64 b:int64] [r:int64] (cond (== a 0) b (tf3 a:(- a 1) b:(+ b 1)))) (tf3 a:3 b:0) (tf3 a:2 b:5)`,
	`(func tf4 [a:int64 b:int64] [r:int64] (let [c 1] (cond (== a 0) b (tf4 b:(+ b c) a:(- a 1))))) (tf4 a:3 b:0)`,
	`(func tf5 [a:int64] [r:int64] (cond (== a 0) 9 (begin (tf5 a:(- a 1))))) (tf5 a:2) (tf5 2)`,
	`(hash a:(begin) b:2)`, `[1 (begin) 2]`, `[(newScope)]`, `(len [(begin)])`,
}

func main() {
	args := lib.ParseArgs()
	repo := os.Getenv("VERIF_REPO")
	for i, a := range args.Rest {
		if a == "--repo" && i+1 < len(args.Rest) {
			repo = args.Rest[i+1]
		}
	}
	if repo == "" {
		repo = "/repo"
	}
	devnull, _ := os.OpenFile("/dev/null", os.O_WRONLY, 0)
	os.Stdout = devnull
	out = lib.NewOut(args.Out)
	out.Rule = "F: check_fn(real bytecode, inferred annotation) must accept; T/S/C/R: observed transition must be an aexec step (effect_ok/enter_ok/return_ok); D: depths after a successful evaluation = rest_depths; N: EvalString(\"\") = nil; O: one-by-one = together"
	rng := lib.NewRng(args.Seed)
	c := newCollector(emit)
	s := &session{c: c, trace: true, budget: 60000}

	if args.Replay != "" {
		// replay: evaluate one program (a replay JSON with a "program" field, or plain source text)
		b, err := os.ReadFile(args.Replay)
		if err != nil {
			fmt.Fprintln(os.Stderr, "cannot read replay file:", err)
			os.Exit(2)
		}
		prog := string(b)
		var obj map[string]interface{}
		if json.Unmarshal(b, &obj) == nil {
			if p, ok := obj["program"].(string); ok {
				prog = p
			}
		}
		if strings.HasPrefix(prog, "#api ") {
			lines := strings.SplitN(prog, "\n#piece\n", 2)
			var ctor, pre, lds string
			fmt.Sscanf(lines[0], "#api ctor=%s pre=%s loaders=%s", &ctor, &pre, &lds)
			ctor, pre, lds = strings.TrimPrefix(ctor, ""), pre, lds
			pieces := []string{}
			if len(lines) > 1 {
				pieces = strings.Split(lines[1], "\n#piece\n")
			}
			s.apiHistory(ctor, pre, strings.Split(lds, ","), pieces)
			fmt.Fprintf(os.Stderr, "replay api: depths=%s\n", depths(s.env))
			out.Close(args.Stats)
			return
		}
		if strings.Contains(prog, nextText) {
			s.replayHistory(prog)
			out.Close(args.Stats)
			return
		}
		s.fresh()
		r := s.eval(prog, []string{"stream:replay"})
		fmt.Fprintf(os.Stderr, "replay: class=%s depths=%s\n", r.Class, depths(s.env))
		if r.Class == lib.OutValue {
			s.evalEmpty()
		}
		out.Close(args.Stats)
		return
	}

	// ---- (i) tests/*.zy ----
	files, _ := filepath.Glob(filepath.Join(repo, "tests", "*.zy"))
	sort.Strings(files)
	wd, _ := os.Getwd()
	os.Chdir(repo)
	skip := map[string]bool{"system.zy": true, "coroutines.zy": true, "slurp.zy": true, "owrite.zy": true, "timeit.zy": true, "setenv.zy": true}
	nfiles := 0
	for _, f := range files {
		if skip[filepath.Base(f)] {
			continue
		}
		b, err := os.ReadFile(f)
		if err != nil {
			continue
		}
		nfiles++
		s.fresh()
		s.budget = 150000
		s.eval(string(b), []string{"stream:tests-zy"})
		if res := s.evalEmpty(); res != "" {
			_ = res
		}
	}
	os.Chdir(wd)

	// ---- (iv) edge corpus ----
	for _, p := range edgeCorpus {
		s.fresh()
		s.budget = 20000
		r := s.eval(p, []string{"stream:edge"})
		if r.Class == lib.OutValue {
			s.evalEmpty()
		}
	}

	// ---- (v) API histories: several Load* then one Run, every kind of interpreter ----
	s.apiStream(rng, args.Tier == "thorough")

	// ---- (vi) break/continue in every inline-compiled position ----
	s.jumpMatrix(rng, args.Tier == "thorough")

	// ---- (vii) registered types as callees x argument kinds x positions ----
	s.typeMatrix(rng, args.Tier == "thorough")

	// ---- (viii) set/def targets of every symbol kind; (ix) every path through branching statements;
	//      (x) failed evaluations that the host handles without Clear(), then successful ones ----
	s.symbolKinds()
	s.branchPaths(args.Tier == "thorough")
	s.errorThenSuccess(args.Tier == "thorough")
	// ---- (xi) the self call in every position; (xii) source / include / Go API entry points ----
	s.tailMatrix(args.Tier == "thorough")
	s.apiCalls()
	// ---- (xiii) histories of rejected / failing / successful texts against the resident-state model ----
	s.residentHistories(rng.Fork(), args.Tier == "thorough")

	// ---- (ii)+(iii) generated programs in long histories ----
	nhist, perHist := 12, 60
	if args.Tier == "thorough" {
		nhist, perHist = 60, 150
	}
	prog := 0
	for h := 0; h < nhist; h++ {
		s.fresh()
		declHeavy := h%3 == 2
		for k := 0; k < perHist; k++ {
			prog++
			g := newG(rng.Fork(), fmt.Sprintf("_%d", prog))
			var forms []string
			if declHeavy {
				g.budget = 30
				for j := rng.Intn(3) + 1; j > 0; j-- {
					forms = append(forms, g.decl())
				}
				if rng.Bool() {
					forms = append(forms, g.expr(3))
				}
			} else {
				forms = g.Program()
			}
			tags := g.Tags()
			sort.Strings(tags)
			if declHeavy {
				tags = append(tags, "stream:declarations")
			} else {
				tags = append(tags, "stream:generated")
			}
			src := strings.Join(forms, "\n")
			s.budget = 40000
			s.trace = true
			r := s.eval(src, tags)
			if r.Class == lib.OutPanic || (r.Class == lib.OutValue && depths(s.env) != "0,1,0,0") {
				// a leftover was reported for this program; later programs get a clean interpreter
				s.fresh()
				continue
			}
			if rng.Intn(4) == 0 {
				s.evalEmpty()
			}
			// one at a time versus together, in two fresh interpreters
			if r.Class == lib.OutValue && len(forms) > 1 && rng.Intn(3) == 0 {
				oneByOne(forms, src)
			}
		}
	}

	out.Extra["functions_checked"] = kinds["F"]
	out.Extra["trace_transitions_distinct"] = kinds["T"] + kinds["S"] + kinds["C"] + kinds["R"]
	out.Extra["instructions_traced"] = totalSteps
	out.Extra["evaluations_run"] = totalEvals
	out.Extra["evaluations_ok"] = okEvals
	out.Extra["evaluations_error"] = errEvals
	out.Extra["evaluations_budget"] = budgetEvals
	out.Extra["evaluations_panic"] = panicEvals
	out.Extra["panic_samples"] = panicSamples
	out.Extra["error_kinds"] = errKinds
	out.Extra["tests_zy_files"] = nfiles
	out.Extra["resident_history_fates"] = fateCount
	out.Extra["opcode_histogram"] = c.opcount
	out.Extra["unknown_instruction_types"] = c.unknown
	out.Extra["high_water_depths"] = highWater
	out.Close(args.Stats)
}

// evalEmpty: EvalString("") on the interpreter as it is now must give nil and leave it at rest.
func (s *session) evalEmpty() string {
	hist := s.c.curSrc
	r := plainEval(s.env, "", 1000)
	obs := r.Class
	if r.Class == lib.OutValue {
		if r.Val == zygo.SexpNull {
			obs = "nil"
		} else {
			obs = "stale:" + showVal(r.Val)
		}
	}
	emit("N "+fmt.Sprint(totalEvals), obs+" "+depths(s.env), hist, "obs:empty-input")
	return obs
}

func oneByOne(forms []string, src string) {
	a, b := newEnv(), newEnv()
	ra := plainEval(a, src, 80000)
	var rb lib.Result
	for _, f := range forms {
		rb = plainEval(b, f, 80000)
		if rb.Class != lib.OutValue {
			break
		}
	}
	obs := "same"
	if ra.Class != rb.Class {
		obs = "diff class " + ra.Class + " vs " + rb.Class
	} else if ra.Class == lib.OutValue {
		va, vb := showVal(ra.Val), showVal(rb.Val)
		if va != vb {
			obs = "diff value " + va + " vs " + vb
		} else if depths(a) != depths(b) {
			obs = "diff depths " + depths(a) + " vs " + depths(b)
		}
	}
	emit("O "+fmt.Sprint(totalEvals), obs, src, "obs:one-by-one")
}
