package main

import (
	"fmt"
	"strings"

	"github.com/glycerine/zygomys/v9/zygo"
	"verif/harness/lib"
)

// ---- (viii) assignment targets of every symbol kind ----
// def / set / infix = on a plain symbol, a lazy-formal or question sigil (#x ?x: the assignment is
// ignored by the VM), a dot symbol into a hash, a quoted symbol; as a statement at top level, in a
// begin, in a function body, in a let body; used for its value as well.

func (s *session) symbolKinds() {
	targets := []struct{ name, pre, lhs string }{
		{"plain", "", "p$N"}, {"sigil-hash", "", "#s$N"}, {"sigil-question", "", "?q$N"},
		{"dot", "(def h$N (hash a:1))", "h$N.a"}, {"quoted", "", "%y$N"}, {"defined-plain", "(def p$N 0)", "p$N"},
	}
	ops := []string{"(set %s 7)", "(def %s 7)", "{%s = 7}", "(set %s (+ 3 4))"}
	positions := []string{
		"%s (+ 1 2)", "(begin %s 5)", "(defn f$N [a] %s a) (f$N 1) (f$N 2)", "(let [z 1] %s z)", "(newScope %s 6)",
		"(+ 1 (begin %s 2))", "(cond true (begin %s 3) 4)", "%s", "(defn g$N [a] %s) (g$N 1)",
	}
	n := 0
	s.fresh()
	for _, t := range targets {
		for _, op := range ops {
			for _, pos := range positions {
				n++
				form := fmt.Sprintf(op, t.lhs)
				prog := t.pre + " " + fmt.Sprintf(pos, form)
				prog = strings.TrimSpace(strings.ReplaceAll(prog, "$N", fmt.Sprintf("_k%d", n)))
				s.budget = 5000
				r := s.eval(prog, []string{"stream:symbol-kinds", "target:" + t.name})
				if r.Class == lib.OutPanic || depths(s.env) != "0,1,0,0" || n%50 == 0 {
					s.fresh()
				}
			}
		}
	}
	// lazy formals as assignment targets inside their function
	for _, prog := range []string{
		`(defn keep_k [#x] (set #x 0) (force #x)) (keep_k (+ 40 2)) (keep_k 1)`,
		`(defn keep2_k [#x y] (def #x y) (set ?w 2) y) (keep2_k (+ 1 1) 3)`,
	} {
		s.fresh()
		s.eval(prog, []string{"stream:symbol-kinds", "target:lazy-formal"})
	}
}

// ---- (ix) every control path through a branching form used as a statement ----
// branching forms x what the arms end in x which path is taken x where the statement stands.

func (s *session) branchPaths(thorough bool) {
	tails := []struct{ name, a, b string }{ // two arm bodies of the same kind
		{"set", "(set s$N 1)", "(set s$N 2)"}, {"def", "(def d$N 1)", "(def d$N 2)"}, {"lit", "1", "2"},
		{"call", "(+ s$N 1)", "(+ s$N 2)"}, {"begin-set", "(begin 0 (set s$N 1))", "(begin 0 (set s$N 2))"},
		{"let-set", "(let [q 1] (set s$N q))", "(let [q 2] (set s$N q))"}, {"infix-set", "{s$N = 1}", "{s$N = 2}"},
		{"mixed", "7", "(set s$N 2)"}, {"mixed2", "(set s$N 1)", "8"},
	}
	forms := []struct {
		name, form string
		paths      int
	}{
		{"cond2", "(cond (== c$N 0) %[1]s %[2]s)", 2},
		{"cond3", "(cond (== c$N 0) %[1]s (== c$N 1) %[2]s %[1]s)", 3},
		{"and", "(and (== c$N 0) %[2]s)", 2},
		{"or", "(or (== c$N 0) %[2]s)", 2},
		{"and3", "(and true (== c$N 0) %[1]s %[2]s)", 2},
		{"infix-if", "{if c$N == 0 { %[1]s } else { %[2]s }}", 2},
		{"nested", "(cond (== c$N 0) (cond true %[1]s %[2]s) (and true %[2]s))", 2},
	}
	positions := []string{
		"%s\n(+ 1 2)", "(begin %s 5)", "(defn f$N [a] %s a)\n(f$N 1)", "(let [z 1] %s z)", "(newScope %s 6)",
		"(for [(def i 0) (< i 2) (set i (+ i 1))] %s 0)\n9",
	}
	n := 0
	s.fresh()
	for ti, t := range tails {
		for fi, f := range forms {
			for pi, pos := range positions {
				if !thorough && (ti+fi)%len(positions) != pi && !(t.name == "set" || t.name == "def") {
					continue
				}
				for path := 0; path < f.paths; path++ {
					n++
					st := fmt.Sprintf(f.form, t.a, t.b)
					prog := fmt.Sprintf("(def s$N 0) (def c$N %d)\n", path) + fmt.Sprintf(pos, st)
					prog = strings.ReplaceAll(prog, "$N", fmt.Sprintf("_b%d", n))
					s.budget = 5000
					r := s.eval(prog, []string{"stream:branch-paths", "branch:" + f.name, "tail:" + t.name, fmt.Sprintf("path:%d", path)})
					if r.Class == lib.OutPanic || depths(s.env) != "0,1,0,0" || n%60 == 0 {
						s.fresh()
					}
				}
			}
		}
	}
}

// ---- (x) a failed evaluation handled WITHOUT Clear(), then successful evaluations ----
// The failing form (compile-time or run-time error) sits in every inline-compiled position inside
// two nested loops (contexts of the jump matrix).  Afterwards the same interpreter must serve
// successful evaluations and be at rest after each (all four stacks: a loop record left by the
// failed compilation shows in the fourth depth), and a break/continue outside any loop must be
// refused exactly as a new interpreter refuses it.

var badForms = []struct{ name, src string }{
	{"let-odd", "(let [x] x)"}, {"cond-no-default", "(cond 1 2 3 4)"}, {"for-bad-vector", "(for [1 2] 3)"}, {"def-arity", "(def)"},
	{"fn-malformed", "(fn)"}, {"break-bad-label", "(break nosuchlabel:)"},
	{"rt-unbound", "(undefined_fn_c04 1)"}, {"rt-type", "(+ 1 \"a\")"}, {"rt-assert", "(assert false)"},
}

func probeClasses(env *zygo.Zlisp, sfx string) string {
	var out []string
	for _, p := range []string{"(break)", "(continue)", "(defn pf" + sfx + " [] (break))", "(break outer:)", "5"} {
		r := lib.Eval(env, p, 2000) // lib.Eval clears after an error: each probe is independent
		out = append(out, r.Class)
	}
	return strings.Join(out, ",")
}

func (s *session) errorThenSuccess(thorough bool) {
	ref := probeClasses(newEnv(), "_ref")
	n := 0
	for ci, ctx := range jumpContexts {
		for bi, bad := range badForms {
			if !thorough && (ci+bi)%3 != 0 {
				continue
			}
			n++
			sfx := fmt.Sprintf("_e%d", n)
			inner := fmt.Sprintf(ctx.form, bad.src)
			failing := fmt.Sprintf("(def acc$N 0)\n(for outer: [(def i 0) (< i 3) (set i (+ i 1))] (for [(def k 0) (< k 3) (set k (+ k 1))] %s (set acc$N (+ acc$N 1))))\nacc$N", inner)
			failing = strings.ReplaceAll(failing, "$N", sfx)
			s.fresh()
			s.noClear = true
			s.budget = 20000
			r := s.eval(failing, []string{"stream:error-no-clear", "bad:" + bad.name})
			if r.Class == lib.OutError {
				hist := failing + "\n;; the error is handled without Clear(); then:\n"
				good := fmt.Sprintf("(def g%s 1) (for [(def i 0) (< i 2) (set i (+ i 1))] (set g%s (+ g%s i))) g%s", sfx, sfx, sfx, sfx)
				r2 := s.evalWith(hist+good, func(env *zygo.Zlisp) error { return env.LoadString(good) }, []string{"stream:error-no-clear", "after-error:success"})
				if r2.Class == lib.OutValue {
					s.evalEmpty()
					got := probeClasses(s.env, sfx)
					obs := "same"
					if got != ref {
						obs = "diff outcome classes of (break) / (continue) / defn with break / (break outer:) / 5 outside any loop: " + got + " vs a new interpreter " + ref
					}
					emit("O after-error "+fmt.Sprint(totalEvals), obs, hist+good+"\n;; then each of (break) (continue) (defn pf [] (break)) (break outer:) 5", "obs:after-error-probe")
				}
			}
			s.noClear = false
		}
	}
	s.fresh()
}
