// (xiii) histories of texts against the resident-state model (coq/Model/Resident.v).
//
// A text is generated from a compile tree (the shape of the generator's walk: leaves that compile or
// are rejected, forms that compile their sub-forms in turn, for loops with their body / init / test /
// increment, break / continue with or without a label).  Texts of four fates are mixed in one
// long-lived interpreter that is NEVER cleared: rejected by the parser, rejected by the generator at a
// random position (possibly several loops deep, possibly a jump to a label no enclosing loop has, or a
// jump outside any loop), failing at run time, successful.  After EVERY EvalString the resident state is
// read: the four depths (the fourth is the generator's loop stack), len(mainfunc) - pc, and the parser
// (suspended parse, lexer mode, queued tokens, nesting depth, forms held).  One H line per history; the
// extracted exec_fate folded over the same history must predict every vector.
package main

import (
	"fmt"
	"os"
	"regexp"
	"strings"

	"github.com/glycerine/zygomys/v9/zygo"
	"verif/harness/lib"
)

type ctree struct {
	kind byte // 'L' leaf, 'N' node, 'F' for, 'J' jump
	ok   bool
	lbl  int // -1 = none
	subs []*ctree
	rt   bool // leaf that compiles but fails when executed
	cont bool // jump: continue instead of break
}

func (t *ctree) ser() string {
	switch t.kind {
	case 'L':
		if t.ok {
			return "L1"
		}
		return "L0"
	case 'J':
		return fmt.Sprintf("J%d", t.lbl)
	}
	var parts []string
	for _, c := range t.subs {
		parts = append(parts, c.ser())
	}
	if t.kind == 'F' {
		return fmt.Sprintf("F%d(%s)", t.lbl, strings.Join(parts, " "))
	}
	return "N(" + strings.Join(parts, " ") + ")"
}

type treeGen struct {
	rng    *lib.Rng
	nvar   int
	leaves []*ctree // ordinary leaves (candidates for a defect)
	slots  []*ctree // nodes where a stray jump can be inserted
}

func leaf() *ctree { return &ctree{kind: 'L', ok: true, lbl: -1} }

// a well-formed tree; loops = labels of the enclosing loops, innermost first (-1 = unlabelled)
func (g *treeGen) tree(depth int, loops []int) *ctree {
	r := g.rng.Intn(10)
	switch {
	case depth <= 0 || r < 3:
		l := leaf()
		g.leaves = append(g.leaves, l)
		return l
	case r < 6:
		n := &ctree{kind: 'N', lbl: -1}
		g.slots = append(g.slots, n)
		if len(loops) > 0 && g.rng.Intn(2) == 0 {
			// (cond <leaf> <jump> <leaf>)
			j := &ctree{kind: 'J', lbl: -1, cont: g.rng.Bool()}
			if g.rng.Intn(2) == 0 {
				var labelled []int
				for _, l := range loops {
					if l >= 0 {
						labelled = append(labelled, l)
					}
				}
				if len(labelled) > 0 {
					j.lbl = labelled[g.rng.Intn(len(labelled))]
				}
			}
			a, b := leaf(), leaf()
			g.leaves = append(g.leaves, a, b)
			n.subs = []*ctree{a, j, b}
			return n
		}
		for k := g.rng.Intn(3) + 1; k > 0; k-- {
			n.subs = append(n.subs, g.tree(depth-1, loops))
		}
		return n
	default:
		f := &ctree{kind: 'F', lbl: -1}
		if g.rng.Intn(2) == 0 {
			f.lbl = g.rng.Intn(4)
		}
		inner := append([]int{f.lbl}, loops...)
		for k := g.rng.Intn(2) + 1; k > 0; k-- {
			f.subs = append(f.subs, g.tree(depth-1, inner))
		}
		// init, test, increment
		for k := 0; k < 3; k++ {
			l := leaf()
			g.leaves = append(g.leaves, l)
			f.subs = append(f.subs, l)
		}
		return f
	}
}

var rejectedForms = []string{"(let [x] x)", "(cond 1 2 3 4)", "(for [1 2] 3)", "(def)", "(fn)", "(let 1 2)", "(for)", "(break 1 2)", "(continue 7)"}
var failingForms = []string{"(undefined_fn_c04 1)", "(+ 1 \"a\")", "(assert false)", "(aget [1] 5)", "(hget {a:1} b:)"}

type renderer struct {
	rng  *lib.Rng
	nvar int
	sfx  string
}

func (r *renderer) leafText(t *ctree, loopVar string, pred bool) string {
	if !t.ok {
		return rejectedForms[r.rng.Intn(len(rejectedForms))]
	}
	if t.rt {
		return failingForms[r.rng.Intn(len(failingForms))]
	}
	if pred {
		if loopVar != "" {
			return fmt.Sprintf("(== %s %d)", loopVar, r.rng.Intn(3))
		}
		return []string{"true", "false", "(< 1 2)"}[r.rng.Intn(3)]
	}
	switch r.rng.Intn(6) {
	case 0:
		return fmt.Sprintf("(set acc%s (+ acc%s 1))", r.sfx, r.sfx)
	case 1:
		return "(+ 1 2)"
	case 2:
		return "(let [x 1] x)"
	case 3:
		return "\"s\""
	case 4:
		return fmt.Sprintf("(def w%s 4)", r.sfx)
	}
	return "[1 2]"
}

func (r *renderer) text(t *ctree, loopVar string, pred bool) string {
	switch t.kind {
	case 'L':
		return r.leafText(t, loopVar, pred)
	case 'J':
		w := "break"
		if t.cont {
			w = "continue"
		}
		if t.lbl >= 0 {
			return fmt.Sprintf("(%s la%d:)", w, t.lbl)
		}
		return "(" + w + ")"
	case 'N':
		if len(t.subs) == 3 && t.subs[0].kind == 'L' && t.subs[0].ok && !t.subs[0].rt {
			return fmt.Sprintf("(cond %s %s %s)", r.text(t.subs[0], loopVar, true), r.text(t.subs[1], loopVar, false), r.text(t.subs[2], loopVar, false))
		}
		var parts []string
		for _, c := range t.subs {
			parts = append(parts, r.text(c, loopVar, false))
		}
		body := strings.Join(parts, " ")
		switch r.rng.Intn(3) {
		case 0:
			return "(begin " + body + ")"
		case 1:
			return "(newScope " + body + ")"
		}
		r.nvar++
		return fmt.Sprintf("(let [v%d %s] %s)", r.nvar, parts[0], strings.Join(append(parts[1:], fmt.Sprintf("v%d", r.nvar)), " "))
	}
	// for: subs = body..., init, test, increment
	r.nvar++
	iv := fmt.Sprintf("i%d", r.nvar)
	n := len(t.subs)
	ctl := []string{fmt.Sprintf("(def %s 0)", iv), fmt.Sprintf("(< %s %d)", iv, 2+r.rng.Intn(2)), fmt.Sprintf("(set %s (+ %s 1))", iv, iv)}
	for k := 0; k < 3; k++ {
		c := t.subs[n-3+k]
		if c.kind != 'L' || !c.ok || c.rt {
			ctl[k] = r.text(c, "", false)
		}
	}
	var body []string
	for _, c := range t.subs[:n-3] {
		body = append(body, r.text(c, iv, false))
	}
	lbl := ""
	if t.lbl >= 0 {
		lbl = fmt.Sprintf("la%d: ", t.lbl)
	}
	return fmt.Sprintf("(for %s[%s %s %s] %s)", lbl, ctl[0], ctl[1], ctl[2], strings.Join(body, " "))
}

var reDump = regexp.MustCompile(`state=(\d+) .* tokens=\[(.*)\] \| next_nil=(true|false) .* sendme=(\d+) .* recur=(-?\d+)`)

// residentVec: "d,s,a,l;pend;live,lex,queued,recur,exprs"
func residentVec(env *zygo.Zlisp) (string, string) {
	d, sc, a, l := env.VerifDepths()
	pc, _ := env.VerifPc()
	pend := len(env.VerifMainFunc().VerifCode()) - pc
	if env.VerifCurFunc() != env.VerifMainFunc() {
		pend = -1
	}
	dump := env.VerifParser().VerifDump()
	m := reDump.FindStringSubmatch(dump)
	par := "?,?,?,?,?"
	if m != nil {
		live := 1
		if m[3] == "true" {
			live = 0
		}
		q := 0
		if strings.TrimSpace(m[2]) != "" {
			q = len(strings.Fields(m[2]))
		}
		par = fmt.Sprintf("%d,%s,%d,%s,%s", live, m[1], q, m[5], m[4])
	}
	return fmt.Sprintf("%d,%d,%d,%d;%d;%s", d, sc, a, l, pend, par), par
}

var fateCount = map[string]int{}

const nextText = "\n;;#next-text (the host does not call Clear())\n"

// one text: returns the H item and the observed vector
func (s *session) residentStep(hist, src string, intent byte, nforms int, tree *ctree, tags []string) (string, string) {
	mainFn := s.env.VerifMainFunc()
	before := len(mainFn.VerifCode())
	// the replay of anything observed here is the whole history so far, not the last text alone
	s.dSrc = hist + src
	r := s.evalWith(src, func(env *zygo.Zlisp) error { return env.LoadString(src) }, tags)
	s.dSrc = ""
	vec, par := residentVec(s.env)
	grew := s.env.VerifMainFunc() == mainFn && len(mainFn.VerifCode()) > before
	var item string
	switch {
	case r.Class == lib.OutValue:
		item = fmt.Sprintf("K:%d:%s", nforms, tree.ser())
	case r.Class == lib.OutPanic:
		item = fmt.Sprintf("K:%d:%s", nforms, tree.ser())
		vec = "panic " + vec
	case grew:
		item = fmt.Sprintf("E:%d:%s", nforms, tree.ser())
	case intent == 'P':
		item = "P:" + par
	default:
		item = fmt.Sprintf("C:%d:%s", nforms, tree.ser())
	}
	return item, vec
}

func (s *session) residentHistories(rng *lib.Rng, thorough bool) {
	nhist, per := 36, 24
	if thorough {
		nhist, per = 200, 40
	}
	for h := 0; h < nhist; h++ {
		s.fresh()
		s.noClear = true
		s.budget = 30000
		s.trace = h%4 == 0
		sfx := fmt.Sprintf("_h%d", h)
		var items, vecs, texts []string
		first := fmt.Sprintf("(def acc%s 0)", sfx)
		s.eval(first, []string{"stream:resident-history"})
		texts = append(texts, first)
		items = append(items, "K:1:N(L1)")
		v0, _ := residentVec(s.env)
		vecs = append(vecs, v0)
		for k := 0; k < per; k++ {
			g := &treeGen{rng: rng.Fork()}
			nforms := rng.Intn(3) + 1
			top := &ctree{kind: 'N', lbl: -1}
			g.slots = append(g.slots, top)
			for j := 0; j < nforms; j++ {
				top.subs = append(top.subs, g.tree(3, nil))
			}
			intent := byte('K')
			switch r := rng.Intn(20); {
			case r < 5:
				intent = 'C'
				switch rng.Intn(3) {
				case 0: // a form the generator rejects, anywhere (inside loops, in init / test / increment)
					g.leaves[rng.Intn(len(g.leaves))].ok = false
				case 1: // a jump to a label that no loop has, anywhere
					n := g.slots[rng.Intn(len(g.slots))]
					n.subs = append(n.subs, &ctree{kind: 'J', lbl: 7, cont: rng.Bool()})
				default: // a jump outside any loop
					top.subs = append(top.subs, &ctree{kind: 'J', lbl: -1, cont: rng.Bool()})
					if rng.Bool() {
						top.subs[len(top.subs)-1].lbl = rng.Intn(4)
					}
				}
			case r < 8:
				intent = 'E'
				g.leaves[rng.Intn(len(g.leaves))].rt = true
			case r < 11:
				intent = 'P'
			}
			nforms = len(top.subs)
			rd := &renderer{rng: rng.Fork(), sfx: sfx}
			var forms []string
			for _, c := range top.subs {
				forms = append(forms, rd.text(c, "", false))
			}
			src := strings.Join(forms, "\n")
			if intent == 'P' {
				switch rng.Intn(4) {
				case 0:
					src = src[:len(src)-1] // unfinished
					if !strings.HasSuffix(strings.TrimSpace(strings.Join(forms, "")), ")") {
						src = src + " (+ 1"
					}
				case 1:
					src = src + ")"
				case 2:
					src = src + " \"abc"
				default:
					src = "(+ 1 [2 (" + src
				}
			}
			tags := []string{"stream:resident-history", "intent:" + string(intent), fmt.Sprintf("tree-depth:%d", depthOf(top))}
			hist := ""
			if len(texts) > 0 {
				hist = strings.Join(texts, nextText) + nextText
			}
			item, vec := s.residentStep(hist, src, intent, nforms, top, tags)
			items = append(items, item)
			vecs = append(vecs, vec)
			texts = append(texts, src)
			fateCount[item[:1]]++
		}
		emit(fmt.Sprintf("H %d | %s", h, strings.Join(items, " | ")), strings.Join(vecs, " / "), strings.Join(texts, nextText), "obs:resident-state-after-every-evaluation")
		s.noClear = false
	}
	s.trace = true
	s.fresh()
}

func depthOf(t *ctree) int {
	d := 0
	for _, c := range t.subs {
		if x := depthOf(c); x > d {
			d = x
		}
	}
	if t.kind == 'F' {
		return d + 1
	}
	return d
}

// replay of a history: the texts one after the other, never cleared
func (s *session) replayHistory(prog string) {
	s.fresh()
	s.noClear = true
	for i, t := range strings.Split(prog, nextText) {
		r := s.evalWith(t, func(env *zygo.Zlisp) error { return env.LoadString(t) }, []string{"stream:replay"})
		vec, _ := residentVec(s.env)
		fmt.Fprintf(os.Stderr, "replay text %d: class=%s resident=%s\n", i+1, r.Class, vec)
	}
}
