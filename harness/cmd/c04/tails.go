package main

import (
	"fmt"
	"os"
	"path/filepath"
	"strings"

	"github.com/glycerine/zygomys/v9/zygo"
	"verif/harness/lib"
)

// ---- (xi) the self call of a recursive function in every inline-compiled position ----
// The generator turns a self call in TAIL position into RemoveScope..; PrepareCall; Goto 0.  Whether a
// position is a tail position is decided by a flag that every form has to clear or pass on.  Here the
// self call sits in each position (contexts of the jump matrix + direct, package body, multi-value
// return, first / later let initialisers, array element), the context itself stands in tail position
// of the body behind every tail-preserving wrapper.  A call wrongly compiled as a tail jump leaves
// the operands / scopes / marks that were live at that point (D), and its function is rejected (F).

var tailExtra = []struct{ name, form string }{
	{"tail-direct", "%s"},
	{"package-last", "(package \"pk$N\" %s)"},
	{"package-2nd", "(package \"pk$N\" (def A 1) %s)"},
	{"return-1", "(return %s)"},
	{"return-2nd", "(return 1 %s)"},
	{"return-1st", "(return %s 2)"},
	{"let-init-1st-of-2", "(let [x %s y 2] x)"},
	{"let-init-2nd-of-2", "(let [y 2 x %s] x)"},
	{"let-init-3rd", "(let [a 1 b 2 x %s] (+ a b))"},
	{"letseq-init-2nd", "(letseq [y 2 x %s] x)"},
	{"array-first", "[%s 2]"},
	{"array-last", "[1 2 %s]"},
	{"cond-pred-then", "(cond (== 0 %s) 1 2)"},
	{"and-mid", "(and 1 %s 3)"},
	{"or-mid", "(or false %s 3)"},
	{"begin-mid", "(begin 1 %s 3)"},
	{"newScope-mid", "(newScope 1 %s 3)"},
	{"syntax-quote", "^(1 ~%s 3)"},
	{"mdef", "(mdef ta$N tb$N (list %s 2))"},
	{"infix-rhs", "{ti$N = %s}"},
	{"assert-eq", "(assert (== 0 (* 0 %s)))"},
}

var tailWrappers = []struct{ name, form string }{
	{"none", "%s"}, {"begin-last", "(begin 0 %s)"}, {"let-body", "(let [w 1] %s)"}, {"letseq-body", "(letseq [w 1 v 2] %s)"},
	{"newScope-last", "(newScope 0 %s)"}, {"cond-default", "(cond false 0 %s)"}, {"cond-arm", "(cond true %s 0)"},
	{"and-last", "(and true %s)"}, {"or-last", "(or false %s)"},
}

func (s *session) tailMatrix(thorough bool) {
	type ctx struct{ name, form string }
	var ctxs []ctx
	for _, c := range tailExtra {
		ctxs = append(ctxs, ctx{c.name, c.form})
	}
	for _, c := range jumpContexts {
		ctxs = append(ctxs, ctx{c.name, c.form})
	}
	n := 0
	s.fresh()
	for ci, c := range ctxs {
		for wi, w := range tailWrappers {
			if !thorough && wi != 0 && (ci+wi)%3 != 0 {
				continue
			}
			for variant := 0; variant < 2; variant++ {
				if variant == 1 && !thorough && (ci+wi)%2 == 1 {
					continue
				}
				n++
				sfx := fmt.Sprintf("_r%d", n)
				self := "(t$N (- n 1) (+ acc 1))"
				params := "n acc"
				call := "(t$N 3 0)"
				if variant == 1 { // varargs: PrepareCall wraps the extra arguments
					self = "(t$N (- n 1) acc 1 2)"
					params = "n acc & more"
					call = "(t$N 3 0 9)"
				}
				body := fmt.Sprintf(w.form, fmt.Sprintf(c.form, self))
				prog := fmt.Sprintf("(defn t$N [%s] (cond (<= n 0) acc %s))\n%s\n%s", params, body, call, call)
				prog = strings.ReplaceAll(prog, "$N", sfx)
				s.budget = 20000
				r := s.eval(prog, []string{"stream:tail-matrix", "tailctx:" + c.name, "tailwrap:" + w.name})
				if r.Class == lib.OutPanic || depths(s.env) != "0,1,0,0" || n%50 == 0 {
					s.fresh()
				}
			}
		}
	}
}

// ---- (xii) regression streams for entry points repaired in /repo ----
// Go-API Apply / EvalFunction on an idle interpreter followed by EvalString; source / include with
// several files, with empty lists.

func (s *session) apiCalls() {
	dir, err := os.MkdirTemp("", "c04src")
	if err != nil {
		return
	}
	defer os.RemoveAll(dir)
	fa, fb := filepath.Join(dir, "a.zy"), filepath.Join(dir, "b.zy")
	os.WriteFile(fa, []byte("(def srcA 11)\n(defn fromA [x] (+ x srcA))\n12\n"), 0644)
	os.WriteFile(fb, []byte("(def srcB 21)\n(for [(def i 0) (< i 2) (set i (+ i 1))] (set srcB (+ srcB i)))\n22\n"), 0644)
	q := func(p string) string { return "\"" + p + "\"" }
	progs := []string{
		"(source " + q(fa) + " " + q(fb) + ")", "(source [" + q(fa) + " " + q(fb) + "])", "(source " + q(fa) + ")",
		"(source [])", "(include " + q(fa) + " " + q(fb) + ")", "(include [" + q(fa) + " " + q(fb) + "])", "(include [])",
		"(include " + q(fa) + ") srcA", "(begin (source " + q(fa) + " " + q(fb) + ") 5)", "(+ 1 (source " + q(fa) + " " + q(fb) + "))",
		"(defn sx [] (source " + q(fa) + " " + q(fb) + ")) (sx) (sx)", "(def sy (source " + q(fb) + " " + q(fa) + ")) sy",
		"(let [z (source [" + q(fa) + "])] z)", "(defn ix [] (include " + q(fa) + " " + q(fb) + ")) (ix)",
	}
	for _, p := range progs {
		s.fresh()
		s.budget = 20000
		r := s.eval(p, []string{"stream:source-include"})
		if r.Class == lib.OutValue {
			s.evalEmpty()
			s.eval("(+ 1 2)", []string{"stream:source-include", "after:source"})
		}
	}
	// Go API on an idle interpreter
	for variant := 0; variant < 6; variant++ {
		s.fresh()
		env := s.env
		label := ""
		var obs string
		func() {
			defer func() {
				if r := recover(); r != nil {
					obs = fmt.Sprintf("panic: %v", r)
				}
			}()
			if r := s.eval("(defn apf [x y] (let [z (+ x y)] (cond (> z 100) z (apf (+ x 50) y))))\n(defn apg [] (for [(def i 0) (< i 2) (set i (+ i 1))] i) 7)", []string{"stream:go-api"}); r.Class != lib.OutValue {
				return
			}
			switch variant {
			case 0, 1, 2:
				name := []string{"apf", "apg", "apf"}[variant]
				obj, ok := env.FindObject(name)
				fun, isf := obj.(*zygo.SexpFunction)
				if !ok || !isf {
					return
				}
				args := []zygo.Sexp{&zygo.SexpInt{Val: 1}, &zygo.SexpInt{Val: 2}}
				if name == "apg" {
					args = nil
				}
				label = "env.Apply(" + name + ")"
				if variant == 2 {
					label += " twice"
					env.Apply(fun, args)
				}
				_, err := env.Apply(fun, args)
				if err != nil {
					obs = "error"
				}
			default:
				exprs := []string{"(+ 1 2)", "(apf 1 2)", "(begin (def evq 1) (apg))"}
				src := exprs[variant-3]
				p := env.VerifParser()
				p.ResetAddNewInput(strings.NewReader(src + "\n"))
				xs, err := p.ParseTokens()
				if err != nil {
					return
				}
				label = "zygo.EvalFunction(env, \"eval\", " + src + ")"
				if _, err := zygo.EvalFunction(env, "eval", xs); err != nil {
					obs = "error"
				}
			}
		}()
		if label == "" {
			continue
		}
		hist := "(defn apf ..) (defn apg ..) evaluated; then the Go call " + label + " on the idle interpreter"
		if obs == "" {
			emit("D go-api "+fmt.Sprint(totalEvals)+" "+label, depths(env), hist, "obs:depths-after-go-api")
			s.c.curSrc = hist
			s.evalEmpty()
			r := s.evalWith(hist+"; then EvalString (apf 3 4)", func(e *zygo.Zlisp) error { return e.LoadString("(apf 3 4)") }, []string{"stream:go-api", "after:go-api"})
			v := "class " + r.Class
			if r.Class == lib.OutValue {
				v = showVal(r.Val)
			}
			want := "same"
			if v != "107" {
				want = "diff value " + v + " vs 107"
			}
			emit("O go-api "+fmt.Sprint(totalEvals), want, hist+"; then EvalString (apf 3 4)", "obs:value-after-go-api")
		}
	}
}
