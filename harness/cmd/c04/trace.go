package main

import (
	"fmt"
	"strconv"
	"strings"

	"github.com/glycerine/zygomys/v9/zygo"
)

// ---- function table: every compiled function seen (statically or while tracing) gets an
// id and an "F" line for the model runner; T/S/C/R lines refer to the id.

type fnRec struct {
	id   string
	dump zygo.VerifFunc
	src  string // program that made the function appear
	keep []zygo.Instruction // keeps the code alive so that its address is not reused
}

type collector struct {
	emit    func(input, impl, src string, tags ...string) // writes a case line (deduplicated by input)
	marks   map[int]int                                   // symbol number of a stack mark -> small id
	byKey   map[uintptr]*fnRec
	nfn     int
	seenSig map[string]string // function signature (code text) -> id, to avoid re-checking identical code
	curSrc  string
	unknown map[string]int
	opcount map[string]int
}

func newCollector(emit func(input, impl, src string, tags ...string)) *collector {
	return &collector{emit: emit, marks: map[int]int{}, byKey: map[uintptr]*fnRec{}, seenSig: map[string]string{},
		unknown: map[string]int{}, opcount: map[string]int{}}
}

func (c *collector) markId(sym int) int {
	if id, ok := c.marks[sym]; ok {
		return id
	}
	id := len(c.marks) + 1
	c.marks[sym] = id
	return id
}

func (c *collector) instrText(in zygo.VerifInstr) string {
	a := in.A
	switch in.Op {
	case "PushStackmark", "PopUntilStackmark", "ClearStackmark":
		a = c.markId(in.A)
	case "Unknown":
		c.unknown[in.Go]++
	}
	return fmt.Sprintf("%s,%d,%d,%d", in.Op, a, in.B, in.C)
}

func sanitize(s string) string {
	b := []byte(s)
	for i, ch := range b {
		if !(ch >= 'a' && ch <= 'z' || ch >= 'A' && ch <= 'Z' || ch >= '0' && ch <= '9' || ch == '_') {
			b[i] = '_'
		}
	}
	if len(b) == 0 {
		return "_"
	}
	return string(b)
}

// register emits the F line of one dumped function and returns its id.
func (c *collector) register(vf zygo.VerifFunc, isMain bool) string {
	ops := make([]string, len(vf.Code))
	for i, in := range vf.Code {
		ops[i] = c.instrText(in)
		c.opcount[in.Op]++
	}
	m, va := 0, 0
	if isMain {
		m = 1
	}
	if vf.Varargs {
		va = 1
	}
	if vf.Name == "__source" || vf.Name == "__main_foreign" {
		m = 1 // SourceExpressions runs its chunk to the end like the top level (no Return)
	}
	body := fmt.Sprintf("%d %d %d %d %s | %s", m, vf.NFormals, va, vf.Nargs, sanitize(vf.Name), strings.Join(ops, ";"))
	if id, ok := c.seenSig[body]; ok {
		return id
	}
	c.nfn++
	id := "f" + strconv.Itoa(c.nfn)
	c.seenSig[body] = id
	tag := "fn:body"
	if isMain {
		tag = "fn:main"
	} else if vf.Name == "callExprEval" {
		tag = "fn:arg"
	}
	c.emit("F "+id+" "+body, "compiled", c.curSrc, tag)
	return id
}

// addStatic dumps f (from pc `from`), everything reachable through constants, and the
// argument / callee expressions of every CallExpr (compiled the way EvalCallExpression
// compiles them at run time).  Returns the id of f.
func (c *collector) addStatic(env *zygo.Zlisp, f *zygo.SexpFunction, from int, isMain bool, compileArgs bool) string {
	d := zygo.NewVerifDumper()
	root := d.Add(f, from)
	if root < 0 {
		return ""
	}
	rootId := ""
	done := 0
	for done < len(d.Funcs) && done < 4000 {
		vf := d.Funcs[done]
		id := c.register(vf, isMain && done == root)
		if done == root {
			rootId = id
		}
		if compileArgs {
			for _, exprs := range vf.Exprs {
				for _, e := range exprs {
					g, err := env.VerifCompileExpr(e)
					if err == nil && g != nil {
						d.Add(g, 0)
					}
				}
			}
		}
		done++
	}
	return rootId
}

// dynamic: the function whose code is executing, registered on first sight
func (c *collector) dynamic(f *zygo.SexpFunction, mainFrom int, mainFn *zygo.SexpFunction) *fnRec {
	key := f.VerifFuncKey()
	if key == 0 {
		return nil
	}
	if r, ok := c.byKey[key]; ok {
		return r
	}
	d := zygo.NewVerifDumper()
	idx := d.Add(f, 0)
	if idx < 0 {
		return nil
	}
	r := &fnRec{dump: d.Funcs[idx], src: c.curSrc, keep: f.VerifCode()}
	if r.dump.Name == "__main" {
		// the main function of another interpreter (duplicate made by a builtin): its chunk
		// boundaries are not known here, so only its instructions are used (trace conformance)
		r.dump.Name = "__main_foreign"
	}
	r.id = c.register(r.dump, false)
	c.byKey[key] = r
	return r
}

// ---- trace conformance ----

type snap struct {
	fn    *zygo.SexpFunction
	key   uintptr
	pc    int
	shape []int
	sc    int
	ad    int
	lp    int
}

type frame struct {
	rec  *fnRec
	from int
	pc   int
	ad   int
	st   string
}

type tracer struct {
	c        *collector
	env      *zygo.Zlisp
	pending  []snap
	frames   []frame
	mainFn   *zygo.SexpFunction
	mainFrom int
	mainRec  *fnRec
	steps    int
	maxDepth int
	skipped  int
	high     [4]int
}

const maxShape = 160

func (t *tracer) snapshot(env *zygo.Zlisp) snap {
	pc, _ := env.VerifPc()
	f := env.VerifCurFunc()
	d, s, a, l := env.VerifDepths()
	sn := snap{fn: f, pc: pc, sc: s, ad: a, lp: l}
	if f != nil {
		sn.key = f.VerifFuncKey()
	}
	if d <= maxShape {
		sn.shape = env.VerifDataShape(make([]int, 0, d))
	} else {
		sn.shape = nil
		sn.sc = -1
	}
	if d > t.high[0] {
		t.high[0] = d
	}
	if s > t.high[1] {
		t.high[1] = s
	}
	if a > t.high[2] {
		t.high[2] = a
	}
	if l > t.high[3] {
		t.high[3] = l
	}
	return sn
}

func (t *tracer) stateText(sn snap, pc int) string {
	var b strings.Builder
	b.WriteString(strconv.Itoa(pc))
	b.WriteByte(';')
	for i := len(sn.shape) - 1; i >= 0; i-- {
		x := sn.shape[i]
		switch {
		case x == 0:
			b.WriteByte('v')
		case x == -1:
			b.WriteByte('m')
		case x > 0:
			b.WriteByte('M')
			b.WriteString(strconv.Itoa(t.c.markId(x)))
		default:
			b.WriteByte('v') // an empty slot is reported separately
		}
		if i > 0 {
			b.WriteByte(',')
		}
	}
	fmt.Fprintf(&b, ";%d;%d;%d", sn.sc, sn.ad, sn.lp)
	return b.String()
}

// recOf finds the record and the pc offset of the code a snapshot executes.
func (t *tracer) recOf(sn snap) (*fnRec, int) {
	if sn.fn == nil || sn.key == 0 {
		return nil, 0
	}
	if sn.fn == t.mainFn || (t.mainFn != nil && sn.key == t.mainFn.VerifFuncKey()) {
		return t.mainRec, t.mainFrom
	}
	return t.c.dynamic(sn.fn, 0, nil), 0
}

func (t *tracer) hook(env *zygo.Zlisp, phase int, instr zygo.Instruction, err error) {
	if env != t.env {
		// a duplicate interpreter (macro expansion): same instruction semantics, own stacks
		// (traced as well: fall through)
	}
	if phase == 0 {
		t.pending = append(t.pending, t.snapshot(env))
		return
	}
	if len(t.pending) == 0 {
		return
	}
	before := t.pending[len(t.pending)-1]
	t.pending = t.pending[:len(t.pending)-1]
	t.steps++
	if err != nil {
		return
	}
	after := t.snapshot(env)
	if before.sc < 0 || after.sc < 0 {
		t.skipped++
		return
	}
	rec, from := t.recOf(before)
	if rec == nil {
		return
	}
	pc := before.pc - from
	if pc < 0 || pc >= len(rec.dump.Code) {
		return
	}
	op := rec.dump.Code[pc].Op
	bs := t.stateText(before, pc)
	src := t.c.curSrc
	switch {
	case op == "Return":
		as := t.stateText(after, 0)
		t.c.emit("R - | 0;"+strings.SplitN(bs, ";", 2)[1]+" | "+as, "observed", src, "trace:return")
		// call summary for the frame that this Return leaves
		for len(t.frames) > 0 && t.frames[len(t.frames)-1].ad > after.ad {
			t.frames = t.frames[:len(t.frames)-1]
		}
		if n := len(t.frames); n > 0 {
			fr := t.frames[n-1]
			arec, afrom := t.recOf(after)
			if fr.ad == after.ad && arec == fr.rec && after.pc-afrom == fr.pc+1 {
				t.frames = t.frames[:n-1]
				t.c.emit("S "+fr.rec.id+" | "+fr.st+" | "+t.stateText(after, after.pc-afrom), "observed", src, "trace:call-summary")
			}
		}
	case after.key != before.key || (after.ad == before.ad+1 && after.pc == 0):
		// entered a compiled function
		crec, _ := t.recOf(after)
		if crec == nil {
			return
		}
		t.c.emit(fmt.Sprintf("C %s %d %d | %s | %s", rec.id, pc, crec.dump.NFormals, bs, t.stateText(after, after.pc)), "observed", src, "trace:enter")
		t.frames = append(t.frames, frame{rec: rec, from: from, pc: pc, ad: before.ad, st: bs})
		if len(t.frames) > 10000 {
			t.frames = t.frames[len(t.frames)-5000:]
		}
	default:
		t.c.emit("T "+rec.id+" | "+bs+" | "+t.stateText(after, after.pc-from), "observed", src, "trace:"+op)
	}
}
