package main

import (
	"fmt"

	"github.com/glycerine/zygomys/v9/zygo"
	"verif/harness/lib"
)

// Callee-kind matrix: a call does not only reach functions.  Every global bound to a registered
// type (the base types int .. uint64, float32/64, string, bool, ... used as constructors and
// CONVERTERS, and the registered Go structs) is applied to every kind of argument (none, int,
// float, string, bool, nil, a variable holding a float / int) in every kind of position (statement,
// def initialiser, function body, let body, let initialiser).  Whatever branch the constructor takes
// on the argument's type, a successful evaluation must leave the interpreter at rest and every call
// must be the atomic step "one result pushed" (T/S lines).  Erroring combinations are not successes.

var typeArgs = []struct{ name, src string }{
	{"none", ""}, {"int", "5"}, {"float", "2.7"}, {"string", `"a"`}, {"bool", "true"}, {"nil", "nil"}, {"negfloat", "-0.5"},
}

func (s *session) typeMatrix(rng *lib.Rng, thorough bool) {
	probe := newEnv()
	var types []string
	for _, name := range probe.VerifGlobalNames() {
		obj, ok := probe.FindObject(name)
		if !ok {
			continue
		}
		if _, isType := obj.(*zygo.RegisteredType); isType {
			types = append(types, name)
		}
	}
	out.Extra["registered_types_swept"] = len(types)
	n := 0
	s.fresh()
	for ti, T := range types {
		for ai, a := range typeArgs {
			for pos := 0; pos < 5; pos++ {
				if !thorough && (ti+ai)%5 != pos && !(a.name == "float" && pos < 3) {
					continue
				}
				n++
				sfx := fmt.Sprintf("_t%d", n)
				call := "(" + T + " " + a.src + ")"
				var prog string
				switch pos {
				case 0:
					prog = call
				case 1:
					prog = "(def v" + sfx + " " + call + ") v" + sfx
				case 2:
					if a.src == "" {
						prog = "(defn f" + sfx + " [] (" + T + ")) (f" + sfx + ")"
					} else {
						prog = "(defn f" + sfx + " [x] (" + T + " x)) (f" + sfx + " " + a.src + ")"
					}
				case 3:
					if a.src == "" {
						prog = "(let [q 1] (" + T + "))"
					} else {
						prog = "(let [q " + a.src + "] (" + T + " q))"
					}
				default:
					prog = "(let [r " + call + "] r)"
				}
				s.budget = 5000
				r := s.eval(prog, []string{"stream:type-matrix", "type-arg:" + a.name, fmt.Sprintf("type-pos:%d", pos)})
				if r.Class == lib.OutPanic || depths(s.env) != "0,1,0,0" || n%60 == 0 {
					s.fresh()
				}
			}
		}
	}
}
