package main

import (
	"fmt"
	"github.com/glycerine/zygomys/v9/zygo"
)

func vec(env *zygo.Zlisp) string {
	d, s, a, l := env.VerifDepths()
	pc, fn := env.VerifPc()
	n := len(env.VerifMainFunc().VerifCode())
	return fmt.Sprintf("%d,%d,%d,%d pc=%d/%d fn=%s | %s", d, s, a, l, pc, n, fn, env.VerifParser().VerifDump())
}

func main() {
	env := zygo.NewZlisp()
	env.StandardSetup()
	fmt.Println("new:", vec(env))
	for _, src := range []string{"(+ 1 2)", "(def a 1) (def b 2) [a b]", "(+ 1", "(+ 1 2))", "(let [x] 1)", "(for [(def i 0) (< i 3) (set i (+ i 1))] (for [(def j 0) (< j 2) (set j (+ j 1))] (let [x] 1)))", "(break)", "(for [(def i 0) (< i 3) (set i (+ i 1))] (break zz:))", "(+ 1 nosuch)", "(for [(def i 0) (< i 3) (set i (+ i 1))] (+ i nosuch))", "\"abc", "7", "", "(defmac mm [] (nosuch))", "(mm)", "(for [(def i 0) (< i 3) (set i (+ i 1))] (mm))", "8"} {
		v, err := env.EvalString(src)
		r := "ok"
		if err != nil {
			r = "ERR"
		} else {
			r = "ok " + v.SexpString(nil)
		}
		fmt.Printf("%q -> %s\n   %s\n", src, r, vec(env))
	}
}
