package main

import (
	"fmt"
	"os"
	"sort"
	"strings"

	"verif/harness/lib"
	. "verif/harness/refgen"
)

// Text is one EvalString call of a session.
type Text struct {
	Src    string // real source text
	Prefix string // what the model runner reads for this text ("NOOPERR" = must fail without any effect)
	Role   string // prog | interlude | battery
}

const noopErr = "NOOPERR"

func failk(e *Node) *Node { return CallN("failk", e) }

// sprinkle wraps sub-expressions in (failk e).  failk returns its argument, so the meaning of the
// program without injection is unchanged except that e becomes an argument, i.e. its own compile unit.
func sprinkle(n *Node, r *lib.Rng, pct int) *Node {
	if n == nil {
		return n
	}
	for i, k := range n.Kids {
		n.Kids[i] = sprinkle(k, r, pct)
	}
	switch n.K {
	case KBreak, KCont:
		if r.Intn(100) < 3 {
			return failk(n) // a loop exit inside an argument: compile error of a nested unit at run time
		}
		return n
	case KDefn:
		return n
	case KCall:
		if n.Kids[0].K == KVar && n.Kids[0].Name == "failk" {
			return n
		}
	}
	if r.Intn(100) < pct {
		return failk(n)
	}
	return n
}

func inc(v string) *Node { return Set(v, CallN("+", Var(v), Int(1))) }
func loopTo(v string, n int64, body ...*Node) *Node {
	return For("", Def(v, Int(0)), CallN("<", Var(v), Int(n)), inc(v), body...)
}

// idiom returns one instance of the hand-shaped families for C05: failk at argument positions,
// inside loops, lets, cond arms, closures, inside functions passed to map / apply, at depth.
func idiom(r *lib.Rng) (*Program, string) {
	n := int64(2 + r.Intn(3))
	switch r.Intn(20) {
	case 0: // map over an array; the callback has an effect before each failure point
		return &Program{Forms: []*Node{Def("x", Arr(Int(1), Int(2), Int(3))), Def("y", Int(0)),
			Def("f", Fn([]string{"a"}, "", Set("y", CallN("+", Var("y"), Var("a"))), failk(Var("a")))),
			CallN("map", Var("f"), Var("x")), Var("y")}}, "map-array"
	case 1: // map over a list
		return &Program{Forms: []*Node{Def("y", Arr()),
			CallN("map", Fn([]string{"a"}, "", Set("y", CallN("append", Var("y"), Var("a"))), CallN("+", failk(Var("a")), Int(1))),
				CallN("list", Int(1), Int(2), Int(3))), Var("y")}}, "map-list"
	case 2: // apply
		return &Program{Forms: []*Node{Def("x", Int(0)),
			CallN("apply", Fn([]string{"a", "b"}, "", Set("x", failk(Var("a"))), CallN("+", Var("x"), failk(Var("b")))), Arr(Int(1), Int(2))),
			Var("x")}}, "apply"
	case 3: // failure at the bottom of a non-tail recursion (deep address stack), effects on the way down
		return &Program{Forms: []*Node{Def("y", Int(0)),
			Defn("f", []string{"n"}, "", Set("y", CallN("+", Var("y"), Int(1))),
				Cond(CallN("==", Var("n"), Int(0)), failk(Int(0)), CallN("+", Int(1), failk(CallN("f", CallN("-", Var("n"), Int(1))))))),
			CallN("f", Int(n)), Var("y")}}, "recursion"
	case 4: // loop with a let; assignments accumulate before the failure
		return &Program{Forms: []*Node{Def("y", Int(0)),
			loopTo("i", n, Let(false, []string{"a"}, []*Node{failk(Var("i"))}, Set("y", CallN("+", Var("y"), Var("a"))))),
			Var("y")}}, "loop-let"
	case 5: // nested loops, labelled break, failure in the inner test and body
		return &Program{Forms: []*Node{Def("x", Arr()),
			For("outer", Def("i", Int(0)), CallN("<", Var("i"), Int(n)), inc("i"),
				For("", Def("j", Int(0)), failk(CallN("<", Var("j"), Int(2))), inc("j"),
					Set("x", CallN("append", Var("x"), failk(CallN("+", Var("i"), Var("j"))))),
					Cond(CallN("==", Var("i"), Int(1)), Break("outer"), Nil()))),
			Var("x")}}, "nested-loops"
	case 6: // map inside map: the VM is re-entered twice when the failure happens
		return &Program{Forms: []*Node{Def("y", Int(0)),
			CallN("map", Fn([]string{"a"}, "", CallN("map", Fn([]string{"b"}, "", Set("y", CallN("+", Var("y"), Int(1))), failk(CallN("+", Var("a"), Var("b")))), Arr(Int(1), Int(2)))),
				Arr(Int(10), Int(20))), Var("y")}}, "map-in-map"
	case 7: // closures with private state: counter bumped before the failure stays bumped
		return &Program{Forms: []*Node{
			Defn("mk", nil, "", Def("c", Int(0)), Fn(nil, "", Set("c", CallN("+", Var("c"), Int(1))), failk(Var("c")))),
			Def("f", CallN("mk")), CallN("f"), CallN("f"), Def("x", CallN("f")), CallN("f")}}, "closure-counter"
	case 8: // letseq / let initialisers and short-circuit forms
		return &Program{Forms: []*Node{Def("x", Int(1)),
			Let(true, []string{"a", "b"}, []*Node{failk(Int(2)), failk(CallN("+", Var("a"), Var("x")))},
				Set("x", Var("b")), And(failk(Var("x")), Or(failk(Bool(false)), failk(Var("a"))))),
			Var("x")}}, "let-and-or"
	case 9: // cond: tests and arms
		return &Program{Forms: []*Node{Def("x", Int(n)),
			Defn("f", []string{"a"}, "", Cond(failk(CallN("<", Var("a"), Int(1))), failk(Int(100)), failk(CallN("<", Var("a"), Int(3))), Set("x", failk(Int(200))), failk(Int(300)))),
			CallN("list", CallN("f", Int(0)), CallN("f", Int(2)), CallN("f", Int(5))), Var("x")}}, "cond"
	case 10: // array mutation in place before the failure (aset is not undone)
		return &Program{Forms: []*Node{Def("x", Arr(Int(0), Int(0), Int(0))),
			loopTo("i", 3, CallN("aset", Var("x"), Var("i"), failk(CallN("+", Var("i"), Int(7))))), Var("x")}}, "aset-loop"
	case 11: // function argument positions, left to right, with effects between them
		return &Program{Forms: []*Node{Def("y", Int(0)),
			Defn("f", []string{"a", "b", "c"}, "", CallN("list", Var("a"), Var("b"), Var("c"))),
			CallN("f", failk(Set("y", Int(1))), failk(Set("y", Int(2))), failk(Set("y", Int(3)))), Var("y")}}, "arg-positions"
	case 12: // apply inside map inside a loop inside a function
		return &Program{Forms: []*Node{Def("y", Int(0)),
			Defn("f", []string{"v"}, "", loopTo("i", 2,
				CallN("map", Fn([]string{"a"}, "", CallN("apply", Fn([]string{"p", "q"}, "", Set("y", CallN("+", Var("y"), Var("p"))), failk(Var("q"))), Arr(Var("a"), Var("i")))), Var("v")))),
			CallN("f", Arr(Int(1), Int(2))), Var("y")}}, "apply-in-map-in-loop"
	case 14, 15, 16: // a closure made in a loop body keeps a break / continue whose loop is gone when it is called:
		// the call fails, and must fail the same way every time it is made again
		exit := []*Node{Break(""), Cont(""), Break("outer"), Cont("outer")}[r.Intn(4)]
		lbl := ""
		if exit.Name != "" {
			lbl = "outer"
		}
		body := []*Node{failk(Var("a")), Cond(CallN(">", Var("a"), Int(0)), exit, Var("a"))}
		var mk *Node
		switch r.Intn(3) {
		case 0:
			mk = Set("f", Fn([]string{"a"}, "", body...))
		case 1:
			mk = Begin(Defn("g", []string{"a"}, "", body...), Set("f", Var("g")))
		default:
			mk = Set("f", Fn([]string{"a"}, "", Let(false, []string{"b"}, []*Node{Var("a")}, body...)))
		}
		return &Program{Forms: []*Node{Def("f", Nil()), Def("y", Int(0)),
			For(lbl, Def("i", Int(0)), CallN("<", Var("i"), Int(2)), inc("i"), mk, inc("y")),
			CallN("f", Int(0)), CallN("f", failk(Int(1))), CallN("f", Int(2)), Var("y")}}, "loop-exit-in-escaped-closure"
	case 17, 18, 19: // a closure ESCAPES into a global from a function / let / letseq / for / newScope scope, then the
		// evaluation fails while that scope is still active: the escaped closure keeps its captured variables
		// (parameters, let variables, loop variables) and can be called - and can update them - afterwards
		switch r.Intn(4) {
		case 0:
			return &Program{Forms: []*Node{Def("g", Nil()), Def("y", Int(0)),
				Defn("f", []string{"p"}, "", Let(false, []string{"a"}, []*Node{CallN("+", Var("p"), Int(1))},
					Set("g", Fn(nil, "", CallN("list", Var("p"), Var("a")))), Set("y", failk(Var("a"))), failk(Var("p")))),
				CallN("f", Int(n)), CallN("g"), CallN("g")}}, "escaped-closure-param-let"
		case 1:
			return &Program{Forms: []*Node{Def("g", Arr()), Def("y", Int(0)),
				For("", Def("i", Int(0)), CallN("<", Var("i"), Int(n)), inc("i"),
					Scope(Def("b", CallN("+", Var("i"), Int(10))), Set("g", CallN("append", Var("g"), Fn(nil, "", CallN("+", Var("i"), Var("b"))))), Set("y", failk(Var("b"))))),
				CallN("map", Fn([]string{"h"}, "", CallN("h")), Var("g")), Var("y")}}, "escaped-closure-loop-scope"
		case 2:
			return &Program{Forms: []*Node{Def("g", Nil()),
				Defn("inner", []string{"q"}, "", CallN("+", failk(Var("q")), failk(Int(1)))),
				Defn("f", []string{"p"}, "", Let(true, []string{"a", "b"}, []*Node{Var("p"), CallN("+", Var("a"), Int(1))},
					Set("g", Fn([]string{"d"}, "", Set("a", CallN("+", Var("a"), Var("d"))), CallN("list", Var("a"), Var("b")))),
					CallN("inner", Var("b")))),
				CallN("f", Int(n)), CallN("g", Int(1)), CallN("g", Int(2))}}, "escaped-closure-updates-captured"
		default:
			return &Program{Forms: []*Node{Def("g", Nil()), Def("x", Arr(Nil())),
				Defn("f", []string{"p", "q"}, "", CallN("aset", Var("x"), Int(0), Fn(nil, "", CallN("list", Var("p"), Var("q")))),
					CallN("map", Fn([]string{"e"}, "", Let(false, []string{"c"}, []*Node{CallN("+", Var("e"), Var("p"))},
						Set("g", Fn(nil, "", CallN("list", Var("c"), Var("e"), Var("q")))), failk(Var("c")))), Arr(Int(1), Int(2)))),
				CallN("f", Int(n), Int(7)), Call(CallN("aget", Var("x"), Int(0))), CallN("g")}}, "escaped-closure-in-callback"
		}
	default: // newScope + def of a fresh global in the failing form itself
		return &Program{Forms: []*Node{
			Begin(Def("x", Int(1)), Scope(Def("y", failk(Int(2))), Set("x", failk(CallN("+", Var("x"), Var("y"))))), Def("y", failk(Int(5))), failk(Var("x")))}}, "scope-def"
	}
}

// rawFamilies: constructs outside the reference evaluator (lazy arguments, eval, evaluated hash keys
// and array indices, macros, infix, the documented catcher expectError).  No model: compared with
// the twin, the rest state, the store at failure and the error-reported rule only.
func rawFamily(r *lib.Rng) ([]string, string) {
	n := 2 + r.Intn(3)
	switch r.Intn(15) {
	case 0:
		return []string{"(def y 0) (defn lz [#a b] (set y (+ y b)) (+ (force #a) b))", "(def x (lz (failk 1) (failk 2)))", "(lz (+ 1 (failk 5)) (failk 7))"}, "lazy-force"
	case 1:
		return []string{"(def y 0) (def x (eval (quote (begin (set y 1) (failk 5) (set y 2) (failk 6)))))", "(eval (quote (defn f [a] (+ a (failk y)))))", "(f 1)"}, "eval"
	case 2:
		return []string{"(def h (hash)) (def y 0) (defn k [] (set y (+ y 1)) (failk 3))", "(hset h (quote (k)) 1) (hset h (quote (failk 4)) 2)", "(def x (hget h 3))"}, "hash-key-eval"
	case 3:
		return []string{"(def y [10 20 30])", "(def x (aget y (quote (failk 1))))", "(aget y (quote (+ (failk 0) (failk 1))))"}, "aget-index-eval"
	case 4:
		return []string{"(def y 0) (defmac m1 [a] ^(begin (set y (+ y 1)) (+ ~a (failk 1))))", "(def x (m1 2)) (m1 (failk 3))"}, "macro-run-time"
	case 5:
		return []string{"(def y 0) (defmac m2 [a] (failk a))", "(set y 1) (def x (m2 3)) (set y 2)", "(defn f [] (m2 4))"}, "macro-expansion-time"
	case 6: // (expectError, the documented catcher, evaluates its form in a Duplicate and is not part of the stream)
		return []string{"(def y 0)", "(mdef x f (list (failk 1) (begin (set y 5) (failk 2))))", "(def h (hash a: (failk x) b: (begin (set y 6) (failk f))))"}, "mdef-hash-literal"
	case 7:
		return []string{"(def y 0) (def x 0)", "{x = (failk 1) + 2; y = x * (failk 3)}", "{y = y + (failk x)}"}, "infix"
	case 8:
		return []string{"(def y 0) (defn lz [#a] (map (fn [e] (set y (+ y e)) (+ e (force #a))) [1 2 3]))", "(def x (lz (failk 10)))", "(eval (quote (lz (eval (quote (failk 2))))))"}, "lazy-in-map-in-eval"
	case 9:
		return []string{"(def h (hash a:1 b:2)) (def y 0)", "(range k v h (set y (+ y (failk v))))", "(def x (hget h (quote a)))"}, "range-macro"
	case 10:
		return []string{"(def y 0) (defn f [n] (cond (== n 0) (eval (quote (failk 0))) (begin (set y (+ y 1)) (+ 1 (f (- n 1))))))", fmt.Sprintf("(def x (f %d))", n)}, "eval-at-depth"
	case 12: // builtins that evaluate a key / index FORM and have a default to fall back on: the error of the
		// nested evaluation is the result, not the default
		return []string{"(def h (hash a:1 b:2)) (def y 0) (defn k [] (set y (+ y 1)) (failk (quote a)))",
			"(def x (hget h (quote (k)) 77)) (set y (+ y 10))", "(def x (hget h (quote (failk (quote zz))) 78)) (set y (+ y 10))",
			"(list (hget h (quote (k))) (hget h (quote b) 5) (hget h (quote (failk (quote b))) 6))"}, "hget-default-key-eval"
	case 13:
		return []string{"(def y [10 20 30]) (def x 0)", "(def x (aget y (quote (failk 1)) 99)) (set x (+ x 1))",
			"(list (aget y (quote (+ (failk 5) (failk 1))) 98) (aget y 7 97))"}, "aget-default-index-eval"
	case 14:
		return []string{"(def h (hash a:1 b:2)) (def y 0)", "(hdel h (quote (failk (quote a)))) (set y 1)",
			"(def x (list (:a h 70) (:zq h 71) (hget h (quote (failk (quote a))) 72)))", "(hset h (quote (failk (quote c))) (failk 3)) (set y 2)"}, "hdel-colon-default"
	default:
		return []string{"(def y (list 1 2 3)) (def x 0)", "(def x (apply + (map (fn [a] (failk a)) y)))", "(def f (fn [& r] (map (fn [a] (failk a)) r))) (f 1 2)"}, "apply-map-list"
	}
}

// ---- families with a DESUGARED specification -------------------------------------------------
// Constructs outside the reference evaluator whose meaning can be written in the core language:
//   a lazy formal #a        =  a memo cell [forced value thunk] made at the call site by (mk9 (fn [] EXPR)),
//                              (force #a) = (frc9 a): evaluate the thunk, THEN store value and flag
//                              (a failed force leaves the cell unforced: forcing again evaluates again)
//   a macro ^(.. ~a ..)     =  the function with the same body (arguments used once, no capture)
// The real interpreter evaluates Src, the model evaluates Prefix; a difference is a property failure
// (role "desugar"): the twin shares the heap objects (thunks) and the macro table with the
// interpreter that failed, so only the model can tell.

type specText struct {
	src   string
	forms []*Node
	rej   bool // a text that must be rejected as a whole
}

func lazyLib() []*Node {
	return []*Node{
		Defn("mk9", []string{"th"}, "", Arr(Bool(false), Nil(), Var("th"))),
		Defn("frc9", []string{"c"}, "", Cond(CallN("aget", Var("c"), Int(0)), CallN("aget", Var("c"), Int(1)),
			Let(false, []string{"v"}, []*Node{Call(CallN("aget", Var("c"), Int(2)))},
				CallN("aset", Var("c"), Int(1), Var("v")), CallN("aset", Var("c"), Int(0), Bool(true)), Var("v")))),
	}
}
func thunk(e *Node) *Node { return CallN("mk9", Fn(nil, "", e)) }
func frc(e *Node) *Node   { return CallN("frc9", e) }
func plus(a, b *Node) *Node { return CallN("+", a, b) }

// failed redefinitions of a macro (rejected as a whole; the old macro must stay)
var macroRedefs = []string{
	"(defmac m9 [a] (let [q] 1))",
	"(defmac m9 [a] (and 1 (fn)))",
	"(def zz1 5) (defmac m9 [a] (cond (fn) 1 2))",
	"(defmac m9 [a] (bad9 a))", // a macro used in the new body fails at expansion time
	"(defmac m9 [a] ^(+ ~a 1) (for [1 2] 3))",
	"(defmac m9 [a & b] (let [q 1 r] ^(+ ~a 2)))",
}

func specFamily(r *lib.Rng) ([]specText, string) {
	n := int64(1 + r.Intn(5))
	eff := func(e *Node) *Node { return Begin(Set("y", plus(Var("y"), Int(100))), e) }
	effSrc := func(e string) string { return "(begin (set y (+ y 100)) " + e + ")" }
	forms := func(fs ...*Node) []*Node { return fs }
	switch r.Intn(13) {
	case 0: // the thunk is stored in a global, its force fails inside the call, it is forced again later
		return []specText{
			{src: "(def kp nil) (def y 0) (defn lz [#a] (set kp #a) (let [v (+ 1 (force #a))] (set y v) v))",
				forms: append(append(forms(Def("kp", Nil()), Def("y", Int(0))), lazyLib()...),
					Defn("lz", []string{"a"}, "", Set("kp", Var("a")), Let(false, []string{"v"}, []*Node{plus(Int(1), frc(Var("a")))}, Set("y", Var("v")), Var("v"))))},
			{src: fmt.Sprintf("(def x (lz %s))", effSrc(fmt.Sprintf("(failk %d)", n))), forms: forms(Def("x", CallN("lz", thunk(eff(failk(Int(n)))))))},
			{src: "(force kp)", forms: forms(frc(Var("kp")))},
			{src: "(+ (force kp) (force kp))", forms: forms(plus(frc(Var("kp")), frc(Var("kp"))))},
		}, "lazy-global-reforce"
	case 1: // the thunk is captured by a closure that outlives the call
		return []specText{
			{src: "(def y 0) (defn lz2 [#a] (fn [] (+ 1 (force #a))))",
				forms: append(append(forms(Def("y", Int(0))), lazyLib()...), Defn("lz2", []string{"a"}, "", Fn(nil, "", plus(Int(1), frc(Var("a"))))))},
			{src: fmt.Sprintf("(def f (lz2 %s))", effSrc(fmt.Sprintf("(failk %d)", n))), forms: forms(Def("f", CallN("lz2", thunk(eff(failk(Int(n)))))))},
			{src: "(f)", forms: forms(CallN("f"))},
			{src: "(f)", forms: forms(CallN("f"))},
			{src: "(+ (f) (f))", forms: forms(plus(CallN("f"), CallN("f")))},
		}, "lazy-closure-reforce"
	case 2: // two lazy arguments: the first stays cached, the second failed and is evaluated again (trace counts)
		return []specText{
			{src: "(def kp nil) (def kq nil) (defn lz3 [#a #b] (set kp #a) (set kq #b) (+ (force #a) (force #b)))",
				forms: append(append(forms(Def("kp", Nil()), Def("kq", Nil())), lazyLib()...),
					Defn("lz3", []string{"a", "b"}, "", Set("kp", Var("a")), Set("kq", Var("b")), plus(frc(Var("a")), frc(Var("b")))))},
			{src: "(def x (lz3 (trace (failk 1)) (trace (failk 2))))", forms: forms(Def("x", CallN("lz3", thunk(CallN("trace", failk(Int(1)))), thunk(CallN("trace", failk(Int(2)))))))},
			{src: "(+ (force kp) (force kq))", forms: forms(plus(frc(Var("kp")), frc(Var("kq"))))},
			{src: "(+ (force kq) (force kp))", forms: forms(plus(frc(Var("kq")), frc(Var("kp"))))},
		}, "lazy-two-args"
	case 3: // never forced inside the call; the first force (a later text) fails, then again
		return []specText{
			{src: "(def kp nil) (def y 0) (defn lz4 [#a] (set kp #a) 0)",
				forms: append(append(forms(Def("kp", Nil()), Def("y", Int(0))), lazyLib()...), Defn("lz4", []string{"a"}, "", Set("kp", Var("a")), Int(0)))},
			{src: fmt.Sprintf("(lz4 %s)", effSrc("(+ (failk 1) (failk 2))")), forms: forms(CallN("lz4", thunk(eff(plus(failk(Int(1)), failk(Int(2)))))))},
			{src: "(force kp)", forms: forms(frc(Var("kp")))},
			{src: "(def x (force kp))", forms: forms(Def("x", frc(Var("kp"))))},
			{src: "(force kp)", forms: forms(frc(Var("kp")))},
		}, "lazy-late-force"
	case 4: // a lazy argument whose expression calls another lazy function
		return []specText{
			{src: "(def kp nil) (defn in9 [#b] (+ 1 (force #b))) (defn lz5 [#a] (set kp #a) (force #a))",
				forms: append(append(forms(Def("kp", Nil())), lazyLib()...),
					Defn("in9", []string{"b"}, "", plus(Int(1), frc(Var("b")))), Defn("lz5", []string{"a"}, "", Set("kp", Var("a")), frc(Var("a"))))},
			{src: fmt.Sprintf("(def x (lz5 (in9 (failk %d))))", n), forms: forms(Def("x", CallN("lz5", thunk(CallN("in9", thunk(failk(Int(n))))))))},
			{src: "(force kp)", forms: forms(frc(Var("kp")))},
			{src: "(force kp)", forms: forms(frc(Var("kp")))},
		}, "lazy-nested"
	case 12: // the lazy argument is made at a call site INSIDE a function: its expression refers to that function's
		// parameter and let variable; the force fails while those scopes are active; forcing it later still sees them
		return []specText{
			{src: "(def kp nil) (defn lz [#a] (set kp #a) (+ 1 (force #a))) (defn h [p] (let [q (+ p 1)] (lz (+ p q (failk 1)))))",
				forms: append(append(forms(Def("kp", Nil())), lazyLib()...),
					Defn("lz", []string{"a"}, "", Set("kp", Var("a")), plus(Int(1), frc(Var("a")))),
					Defn("h", []string{"p"}, "", Let(false, []string{"q"}, []*Node{plus(Var("p"), Int(1))},
						CallN("lz", thunk(CallN("+", Var("p"), Var("q"), failk(Int(1))))))))},
			{src: fmt.Sprintf("(def x (h %d))", n), forms: forms(Def("x", CallN("h", Int(n))))},
			{src: "(force kp)", forms: forms(frc(Var("kp")))},
			{src: "(+ (force kp) (h 1))", forms: forms(plus(frc(Var("kp")), CallN("h", Int(1))))},
		}, "lazy-thunk-from-function-scope"
	case 5, 6: // an existing macro survives a redefinition that fails to compile
		i := r.Intn(len(macroRedefs))
		return []specText{
			{src: "(defmac bad9 [a] (first 5)) (defmac m9 [a] ^(+ ~a 1)) (def y (m9 (failk 1)))",
				forms: forms(Defn("m9", []string{"a"}, "", plus(Var("a"), Int(1))), Def("y", CallN("m9", failk(Int(1)))))},
			{src: macroRedefs[i], rej: true},
			{src: "(m9 4)", forms: forms(CallN("m9", Int(4)))},
			{src: "(defn f [b] (m9 b)) (f (failk 7))", forms: forms(Defn("f", []string{"b"}, "", CallN("m9", Var("b"))), CallN("f", failk(Int(7))))},
		}, fmt.Sprintf("macro-failed-redefinition-%d", i)
	case 7: // a successful redefinition, then a failing one: the SECOND definition stays
		i := r.Intn(len(macroRedefs))
		return []specText{
			{src: "(defmac bad9 [a] (first 5)) (defmac m9 [a] ^(+ ~a 1))", forms: forms(Defn("m9", []string{"a"}, "", plus(Var("a"), Int(1))))},
			{src: "(defmac m9 [a] ^(+ ~a 2)) (def y (m9 (failk 1)))", forms: forms(Defn("m9", []string{"a"}, "", plus(Var("a"), Int(2))), Def("y", CallN("m9", failk(Int(1)))))},
			{src: macroRedefs[i], rej: true},
			{src: "(m9 (failk 1))", forms: forms(CallN("m9", failk(Int(1))))},
		}, "macro-redefinition-then-failed"
	case 9: // a macro call site that is compiled at run time (an argument of a call in a function body) and
		// executed again after its expansion failed once: it must be expanded again, not remembered as nil
		return []specText{
			{src: "(def y 0) (defmac mx [a] (failk 0) ^(+ ~a 10)) (defn f [b] (list b (mx b)))",
				forms: forms(Def("y", Int(0)), Defn("mx", []string{"a"}, "", failk(Int(0)), plus(Var("a"), Int(10))),
					Defn("f", []string{"b"}, "", CallN("list", Var("b"), CallN("mx", Var("b")))))},
			{src: fmt.Sprintf("(def x (f %d))", n), forms: forms(Def("x", CallN("f", Int(n))))},
			{src: "(f (failk 6))", forms: forms(CallN("f", failk(Int(6))))},
			{src: "(list (f 1) (f 2))", forms: forms(CallN("list", CallN("f", Int(1)), CallN("f", Int(2))))},
		}, "macro-site-expansion-fails-once"
	case 10: // the same call site inside a loop inside a function
		loop := func() *Node {
			return For("", Def("i", Int(0)), CallN("<", Var("i"), Var("n")), inc("i"), Set("y", plus(Var("y"), CallN("mx", Var("i")))))
		}
		return []specText{
			{src: "(def y 0) (defmac mx [a] (failk 0) ^(+ ~a 10)) (defn f [n] (for [(def i 0) (< i n) (set i (+ i 1))] (set y (+ y (mx i)))) y)",
				forms: forms(Def("y", Int(0)), Defn("mx", []string{"a"}, "", failk(Int(0)), plus(Var("a"), Int(10))),
					Defn("f", []string{"n"}, "", loop(), Var("y")))},
			{src: "(f 2)", forms: forms(CallN("f", Int(2)))},
			{src: "(def x (f 3))", forms: forms(Def("x", CallN("f", Int(3))))},
			{src: "(f 1)", forms: forms(CallN("f", Int(1)))},
		}, "macro-site-in-loop"
	case 11: // the expansion fails because of the global state at that moment, and works once the state changed
		mg := Defn("mg", []string{"a"}, "", Cond(CallN(">", Var("y"), Int(0)), plus(Var("a"), Int(1)), CallN("first", Int(5))))
		return []specText{
			{src: "(def y 0) (defmac mg [a] (cond (> y 0) ^(+ ~a 1) (first 5))) (defn f [b] (list b (mg b)))",
				forms: forms(Def("y", Int(0)), mg, Defn("f", []string{"b"}, "", CallN("list", Var("b"), CallN("mg", Var("b")))))},
			{src: "(f 1)", forms: forms(CallN("f", Int(1)))},
			{src: "(set y (failk 1))", forms: forms(Set("y", failk(Int(1))))},
			{src: "(f (failk 1))", forms: forms(CallN("f", failk(Int(1))))},
			{src: "(def x (f 2))", forms: forms(Def("x", CallN("f", Int(2))))},
		}, "macro-expansion-depends-on-state"
	default: // a first definition that fails, then the real one; and a failing use at expansion time in between
		return []specText{
			{src: "(defmac bad9 [a] (first 5))", forms: forms(Nil())},
			{src: "(defmac m9 [a] (let [q] 1))", rej: true},
			{src: "(def zz1 5) (bad9 1)", rej: true},
			{src: "(defmac m9 [a] ^(+ ~a 3)) (def y (m9 (failk 1)))", forms: forms(Defn("m9", []string{"a"}, "", plus(Var("a"), Int(3))), Def("y", CallN("m9", failk(Int(1)))))},
			{src: "(def zz1 5) (defn f [] (bad9 2))", rej: true},
			{src: "(m9 y)", forms: forms(CallN("m9", Var("y")))},
		}, "macro-first-definition-fails"
	}
}

// definedNames lists every name a program may bind globally, plus the generator's pool.
func definedNames(p *Program) []string {
	set := map[string]bool{"x": true, "y": true, "f": true}
	p.Walk(func(n *Node) {
		switch n.K {
		case KDef, KSet, KDefn:
			if !PrimNames[n.Name] {
				set[n.Name] = true
			}
		}
	})
	out := make([]string, 0, len(set))
	for n := range set {
		out = append(out, n)
	}
	sort.Strings(out)
	if len(out) > 6 {
		out = out[:6]
	}
	return out
}

func progText(p *Program, st Style, role string) Text {
	return Text{Src: p.Source(st), Prefix: p.Prefix(), Role: role}
}

// interludes: texts that must be rejected as a whole (parse error, or compile error of one
// form after well-formed definitions): error reported, nothing of the text may take effect,
// and the next text must not continue the old one.
var interludes = []string{
	"(def zz1 5) (+ 1 2",             // unbalanced: more input needed / parse error
	"(def zz1 5) (+ 1 2))",           // stray )
	"(def zz1 5) \"abc",              // unterminated string
	"(def zz1 5) (let [a] 1)",        // compile error after a well-formed form
	"(def zz1 5) (fn)",               //
	"(def zz1 5) (and 1 (fn))",       // the sub-generator error must propagate (681ed1e)
	"(def zz1 5) (cond (fn) 1 2)",    //
	"(def zz1 5) (or (let [a] 1) 2)", //
	"(def zz1 5) [1 2",               //
	"(def zz1 5) (defn zz1)",         //
	"(def zz1 5) (begin (def zz1 6) (for [1 2] 3))",
	"(def zz1 5) ^(a ~(fn))",
	// a hard lex / parse error in the MIDDLE of the text, complete forms after it: the unread
	// remainder must not survive into the next text (zzAfter must stay unbound, what follows must
	// evaluate as in the twin that never saw the text)
	"(def zz1 5) ) (def zzAfter 7)",        // stray closer
	"(def zz1 5) ] (def zzAfter 7)",        //
	"(def zz1 5) } (def zzAfter 7)",        //
	"(def zz1 5) (+ 1 2] (def zzAfter 7)",  // mismatched closer
	"(def zz1 5) [1 2) (def zzAfter 7)",    //
	"(def zz1 5) 12abc (def zzAfter 7)",    // malformed atom
	"(def zz1 5) 1.2.3 (def zzAfter 7)",    //
	"(def zz1 5) \"a\\qb\" (def zzAfter 7)", // invalid escape in a string
	"(def zz1 5) 'ab' (def zzAfter 7)",     // unexpected quote / malformed char literal
	"(def zz1 5) #' (def zzAfter 7)",       //
	"(def zz1 5) ~ ) (def zzAfter 7)",      // reader prefix before a closer
	"(def zz1 5) \\ (def zzAfter 7)",       // stray backslash
	// a compile error INSIDE a loop (the generator's loop stack must be unwound), also nested and inside a function
	"(def zz1 5) (for [(def i 0) (< i 2) (set i (+ i 1))] (let [q] 1))",
	"(def zz1 5) (for [(def i 0) (< i 2) (set i (+ i 1))] (for [(def j 0) (< j 2) (set j (+ j 1))] (fn)))",
	"(def zz1 5) (defn zzf [] (for [(def i 0) (< i 2) (set i (+ i 1))] (and 1 (fn))))",
	"(def zz1 5) (for [(def i 0) (< i 2) (set i (+ i 1))] (break nosuchlabel:))",
	// a failed REdefinition of a name the program may have bound: the old binding must stay
	"(defn f [a] (let [q] 1))",
	"(def x (fn))",
	"(set y (or (let [q] 1) 2))",
	"(defn f [a] 1) (def x 2) (set y 3) (defn f)",
	// the same through the other routes into the interpreter's parser: read, source
	"(read \"12abc (def zzAfter 7)\")",
	"(read \") (def zzAfter 7)\")",
	"(read \"(a b) ) (def zzAfter 7)\")",
	"(source \"" + midTextFile + "\")",
}

// apiFailures: effect-free texts that fail at RUN time (not at parse / compile time), of different code
// lengths, given to the Go API entry points at rest (interp.go:evalVia): error reported, at rest
// (pc at the end of __main), nothing of it visible afterwards.
var apiFailures = []string{
	"(first 5)",
	"(+ 1 c05nosuch)",
	"(begin 1 2 3 4 5 6 7 8 9 10 11 12 (first 5))",
	"((fn [a] (let [b a] (aget b 9))) [1 2])",
	"(for [(def i9 0) (< i9 3) (set i9 (+ i9 1))] (cond (== i9 2) (first 5) nil))",
	"(let [a 1] (newScope (map (fn [e] (first e)) [1 2])))",
}

func apiFailureText(r *lib.Rng) Text {
	via := viaNames[r.Intn(len(viaNames))]
	body := apiFailures[r.Intn(len(apiFailures))]
	if via == "apply" {
		body = "(fn [] " + body + ")"
	}
	return Text{Src: "//via:" + via + "\n" + body, Prefix: noopErr, Role: "interlude"}
}

// midTextFile is written by every process of the harness (same content): a text with a stray
// closer in the middle, for the source route.
const midTextFile = "/tmp/c05-src-midtext.zy"

func writeMidTextFile() {
	// several processes (workers, concurrent checks) use the same path: never truncate a file that is
	// already right, and replace it atomically otherwise (a reader must not see an empty file)
	const content = "(def zz1 5) ) (def zzAfter 7)\n"
	if b, err := os.ReadFile(midTextFile); err == nil && string(b) == content {
		return
	}
	tmp := fmt.Sprintf("%s.%d", midTextFile, os.Getpid())
	if os.WriteFile(tmp, []byte(content), 0644) == nil {
		os.Rename(tmp, midTextFile)
	}
}

// isRejectedText recognises the interlude texts (used by --replay to give them their role).
func isRejectedText(src string) bool {
	for _, t := range interludes {
		if t == src {
			return true
		}
	}
	for _, t := range macroRedefs {
		if t == src {
			return true
		}
	}
	return strings.HasPrefix(src, "(def zz1 5)") || strings.HasPrefix(src, "//via:")
}

// battery is the fixed sequence of follow-up evaluations.
func battery(names []string) []Text {
	var ts []Text
	add := func(forms ...*Node) {
		ts = append(ts, progText(&Program{Forms: forms}, Style{NoTCO: true}, "battery"))
	}
	for _, n := range names { // read every global the program may have defined
		add(Begin(Var(n)))
	}
	for _, n := range names { // call every function it defined (a non-function is returned / refused)
		add(CallN(n))
		add(CallN(n, Int(1)))
		add(CallN(n, Int(1), Int(2)))
	}
	add(Begin(Var("zz1")))
	add(Begin(Var("zzAfter")))
	add(CallN("+", Int(1), Int(2)))
	add(Defn("nf9", []string{"a"}, "", CallN("+", Var("a"), Int(1))), CallN("nf9", Int(41)))
	add(Def("acc9", Int(0)),
		For("", Def("i9", Int(0)), CallN("<", Var("i9"), Int(5)), inc("i9"),
			Cond(CallN("==", Var("i9"), Int(3)), Break(""), Set("acc9", CallN("+", Var("acc9"), Var("i9"))))),
		Var("acc9"))
	// every call once more: a call that failed must fail the same way when it is made again
	// (compiled code caches run-time lookups: break / continue positions), a call that worked must work
	for _, n := range names {
		add(CallN(n))
		add(CallN(n, Int(1)))
	}
	add() // the empty evaluation
	add(Arr(Var("acc9"), CallN("nf9", Int(1))))
	return ts
}
