package main

import (
	"os"
	"fmt"
	"strings"

	"github.com/glycerine/zygomys/v9/zygo"
	"verif/harness/refgen"
)

// FKind = how the k-th call of the host function failk fails.
type FKind int

const (
	KScript       FKind = iota // the host function returns an error
	KPanic                    // the host function panics (recovered by CallUserFunction)
	KEvalCompile              // the host function evaluates (eval) a malformed special form: compile error at depth
	KEvalRuntime              // ... a form that fails at run time inside a nested Run
	KApplyClosure             // ... applies (env.Apply) a closure whose body fails
	KMacro                    // ... evaluates a macro call whose expansion fails (macro-expansion time)
	KPanicNested              // ... re-enters the VM successfully (eval + Apply), then panics
	KPanicError               // the host function panics with an ERROR value (panic(err), what panicOn(err) does)
	KPanicOther               // ... with a Go run-time error (index out of range, nil map write) or a value that is neither string nor error
	KTwin                     // twin builder: hands over the shell (Duplicate taken at rest), then returns an error
	// host-side catchers: the host function provokes a nested failure through a public re-entry
	// point, handles the error itself and returns normally; the evaluation must go on exactly
	// as in the clean run
	KCatchApply
	KCatchEvalRuntime
	KCatchEvalCompile
	KCatchMacro
	nKinds      = int(KTwin)
	firstCatch  = KCatchApply
	nCatchKinds = 4
)

var kindNames = []string{"script", "panic", "eval-compile", "eval-runtime", "apply-closure", "macro", "panic-nested", "panic-error", "panic-other-value", "twin",
	"catch-apply", "catch-eval-runtime", "catch-eval-compile", "catch-macro"}

func (k FKind) String() string { return kindNames[k] }

const injected = "failk: injected failure"

// Interp is one real interpreter with the host functions of the reference language.
type Interp struct {
	Env     *zygo.Zlisp
	Budget  int64
	failCtr int
	failAt  int
	kind    FKind
	fired   bool
	caught  int
	LoadRun bool // evaluate every text by LoadString + Run instead of EvalString
	trace   []string
	names   []string     // globals whose values are snapshotted at the moment of failure
	Snap    string       // rendering of those globals when failk fired
	Twin    *zygo.Zlisp  // KTwin: the shell, handed over when failk fires
	shell   *zygo.Zlisp  // env.Duplicate() taken at rest, before the session: a second interpreter shell (own stacks, pc, main function) on the SAME global scope object
	badForm [3]zygo.Sexp // pre-built forms for the nested kinds
}

func sym(env *zygo.Zlisp, s string) zygo.Sexp { return env.MakeSymbol(s) }
func list(xs ...zygo.Sexp) zygo.Sexp          { return zygo.MakeList(xs) }

// NewInterp builds a fresh interpreter (NewZlisp + StandardSetup) with trace and failk.
func NewInterp(budget int64, failAt int, kind FKind, names []string) *Interp {
	it := &Interp{Budget: budget, failAt: failAt, kind: kind, names: names}
	env := zygo.NewZlisp()
	env.StandardSetup()
	it.Env = env
	env.AddFunction("trace", func(env *zygo.Zlisp, name string, args []zygo.Sexp) (zygo.Sexp, error) {
		parts := make([]string, len(args))
		for i, a := range args {
			parts[i] = refgen.RenderValue(a, refgen.SnapDepth)
		}
		it.trace = append(it.trace, strings.Join(parts, ","))
		if len(args) == 0 {
			return zygo.SexpNull, nil
		}
		return args[0], nil
	})
	env.AddFunction("failk", it.failk)
	// intern the quoted-symbol pool in the order the model numbers it
	it.evalOn(env, "(quote ("+strings.Join(refgen.QuotedSyms, " ")+"))")
	if kind == KMacro || kind == KCatchMacro {
		it.evalOn(env, "(defmac c05mac [x] (first 5))")
	}
	// Duplicate() must be taken while the interpreter is at rest: MakeFunction snapshots the
	// live scope stack into the new main function's closure (taken inside a call, the shell
	// would see the locals of the interrupted evaluation).
	it.shell = env.Duplicate()
	return it
}

func (it *Interp) failk(env *zygo.Zlisp, name string, args []zygo.Sexp) (zygo.Sexp, error) {
	it.failCtr++
	if it.failCtr != it.failAt {
		if len(args) == 0 {
			return zygo.SexpNull, nil
		}
		return args[0], nil
	}
	if it.kind >= firstCatch {
		return it.catcher(env, args)
	}
	it.fired = true
	// the store at the moment of failure, seen through the shell (global scope only)
	it.Snap = renderGlobals(it.shell, it.names)
	switch it.kind {
	case KTwin:
		it.Twin = it.shell
		return zygo.SexpNull, fmt.Errorf(injected)
	case KScript:
		return zygo.SexpNull, fmt.Errorf(injected)
	case KPanic:
		panic(injected)
	case KEvalCompile:
		// (let [a] 1): odd binding list, rejected by GenerateLet when eval generates it
		bad := list(sym(env, "let"), &zygo.SexpArray{Val: []zygo.Sexp{sym(env, "a")}, Env: env}, &zygo.SexpInt{Val: 1})
		switch it.failAt % 3 {
		case 0:
			bad = list(sym(env, "begin"), &zygo.SexpInt{Val: 1}, list(sym(env, "and"), &zygo.SexpInt{Val: 1}, list(sym(env, "fn"))))
		case 2:
			// the malformed form sits inside a for loop: the generator's loop stack must be unwound
			i := sym(env, "c05i")
			hdr := &zygo.SexpArray{Val: []zygo.Sexp{list(sym(env, "def"), i, &zygo.SexpInt{Val: 0}), list(sym(env, "<"), i, &zygo.SexpInt{Val: 1}),
				list(sym(env, "set"), i, list(sym(env, "+"), i, &zygo.SexpInt{Val: 1}))}, Env: env}
			bad = list(sym(env, "for"), hdr, bad)
		}
		_, err := zygo.EvalFunction(env, "eval", []zygo.Sexp{bad})
		if err == nil {
			return zygo.SexpNull, fmt.Errorf("c05-harness: nested compile error was not reported")
		}
		return zygo.SexpNull, fmt.Errorf(injected+": %v", short(err))
	case KEvalRuntime:
		// ((fn [a] (+ a c05nosuch)) 1): fails two frames deep inside the nested Run
		f := list(sym(env, "fn"), &zygo.SexpArray{Val: []zygo.Sexp{sym(env, "a")}, Env: env},
			list(sym(env, "+"), sym(env, "a"), sym(env, "c05nosuch")))
		_, err := zygo.EvalFunction(env, "eval", []zygo.Sexp{list(f, &zygo.SexpInt{Val: 1})})
		if err == nil {
			return zygo.SexpNull, fmt.Errorf("c05-harness: nested run-time error was not reported")
		}
		return zygo.SexpNull, fmt.Errorf(injected + ": nested")
	case KApplyClosure:
		f := list(sym(env, "fn"), &zygo.SexpArray{Val: []zygo.Sexp{sym(env, "a")}, Env: env},
			list(sym(env, "let"), &zygo.SexpArray{Val: []zygo.Sexp{sym(env, "b"), &zygo.SexpInt{Val: 2}}, Env: env},
				list(sym(env, "first"), sym(env, "a"))))
		fv, err := zygo.EvalFunction(env, "eval", []zygo.Sexp{f})
		if err != nil {
			return zygo.SexpNull, fmt.Errorf("c05-harness: could not build closure: %v", short(err))
		}
		fn, ok := fv.(*zygo.SexpFunction)
		if !ok {
			return zygo.SexpNull, fmt.Errorf("c05-harness: eval of fn gave %T", fv)
		}
		_, err = env.Apply(fn, []zygo.Sexp{&zygo.SexpInt{Val: 5}})
		if err == nil {
			return zygo.SexpNull, fmt.Errorf("c05-harness: applied closure did not fail")
		}
		return zygo.SexpNull, fmt.Errorf(injected + ": apply")
	case KMacro:
		_, err := zygo.EvalFunction(env, "eval", []zygo.Sexp{list(sym(env, "c05mac"), &zygo.SexpInt{Val: 1})})
		if err == nil {
			return zygo.SexpNull, fmt.Errorf("c05-harness: macro expansion error was not reported")
		}
		return zygo.SexpNull, fmt.Errorf(injected + ": macro")
	case KPanicError:
		panic(fmt.Errorf(injected))
	case KPanicOther:
		switch it.failAt % 3 {
		case 0:
			var xs []int
			_ = xs[it.failCtr] // runtime error: index out of range
		case 1:
			var m map[string]int
			m["k"] = 1 // runtime error: assignment to entry in nil map
		}
		panic(12345)
	case KPanicNested:
		f := list(sym(env, "fn"), &zygo.SexpArray{Val: []zygo.Sexp{sym(env, "a")}, Env: env},
			list(sym(env, "+"), sym(env, "a"), &zygo.SexpInt{Val: 1}))
		fv, err := zygo.EvalFunction(env, "eval", []zygo.Sexp{f})
		if err == nil {
			if fn, ok := fv.(*zygo.SexpFunction); ok {
				env.Apply(fn, []zygo.Sexp{&zygo.SexpInt{Val: 5}})
			}
		}
		panic(injected)
	}
	return zygo.SexpNull, fmt.Errorf(injected)
}

// catcher: provoke a nested failure, handle it in Go, return failk's normal result.
func (it *Interp) catcher(env *zygo.Zlisp, args []zygo.Sexp) (zygo.Sexp, error) {
	arr := func(xs ...zygo.Sexp) zygo.Sexp { return &zygo.SexpArray{Val: xs, Env: env} }
	one := &zygo.SexpInt{Val: 1}
	var err error
	switch it.kind {
	case KCatchApply:
		f := list(sym(env, "fn"), arr(sym(env, "a")), list(sym(env, "let"), arr(sym(env, "b"), one), list(sym(env, "first"), sym(env, "a"))))
		var fv zygo.Sexp
		fv, err = zygo.EvalFunction(env, "eval", []zygo.Sexp{f})
		if err != nil {
			return zygo.SexpNull, fmt.Errorf("c05-harness: could not build closure: %v", short(err))
		}
		_, err = env.Apply(fv.(*zygo.SexpFunction), []zygo.Sexp{one})
	case KCatchEvalRuntime:
		f := list(sym(env, "fn"), arr(sym(env, "a")), list(sym(env, "+"), sym(env, "a"), sym(env, "c05nosuch")))
		_, err = zygo.EvalFunction(env, "eval", []zygo.Sexp{list(f, one)})
	case KCatchEvalCompile:
		_, err = zygo.EvalFunction(env, "eval", []zygo.Sexp{list(sym(env, "let"), arr(sym(env, "a")), one)})
	case KCatchMacro:
		_, err = zygo.EvalFunction(env, "eval", []zygo.Sexp{list(sym(env, "c05mac"), one)})
	}
	if err == nil {
		return zygo.SexpNull, fmt.Errorf("c05-harness: the nested evaluation did not fail")
	}
	it.caught++
	if len(args) == 0 {
		return zygo.SexpNull, nil
	}
	return args[0], nil
}

// A text that starts with the comment line "//via:NAME" is not given to EvalString but to another
// entry point of the Go API, called at rest (the comment keeps the text a valid source text).
func splitVia(src string) (via, body string, ok bool) {
	if !strings.HasPrefix(src, "//via:") {
		return "", src, false
	}
	nl := strings.IndexByte(src, '\n')
	if nl < 0 {
		return "", src, false
	}
	return src[len("//via:"):nl], src[nl+1:], true
}

var viaNames = []string{"source-stream", "source-file", "load-stream", "load-file", "apply"}

func (it *Interp) evalVia(env *zygo.Zlisp, via, body string) (zygo.Sexp, error) {
	switch via {
	case "source-stream": // source.go:SourceStream -> SourceExpressions (runs the text as a function __source)
		return zygo.SexpNull, env.SourceStream(strings.NewReader(body))
	case "source-file":
		f, err := os.CreateTemp("", "c05-src-*.zy")
		if err != nil {
			return zygo.SexpNull, fmt.Errorf("c05-harness: %v", err)
		}
		defer os.Remove(f.Name())
		f.WriteString(body)
		f.Seek(0, 0)
		defer f.Close()
		return zygo.SexpNull, env.SourceFile(f)
	case "load-stream":
		if err := env.LoadStream(strings.NewReader(body)); err != nil {
			return zygo.SexpNull, err
		}
		return env.Run()
	case "load-file":
		if err := env.LoadFile(strings.NewReader(body)); err != nil {
			return zygo.SexpNull, err
		}
		return env.Run()
	case "apply": // the host calls a script function directly: the text evaluates to the function
		fv, err := env.EvalString(body)
		if err != nil {
			return zygo.SexpNull, err
		}
		fn, ok := fv.(*zygo.SexpFunction)
		if !ok {
			return zygo.SexpNull, fmt.Errorf("c05-harness: not a function: %T", fv)
		}
		return env.Apply(fn, nil)
	}
	return zygo.SexpNull, fmt.Errorf("c05-harness: unknown entry point %q", via)
}

func short(err error) string {
	s := strings.ReplaceAll(err.Error(), "\n", " ")
	// keep the text free of the phrases refgen.ErrClass keys on
	s = strings.ReplaceAll(s, "not inside a loop", "nil")
	if len(s) > 60 {
		s = s[:60]
	}
	return s
}

func renderGlobals(env *zygo.Zlisp, names []string) string {
	parts := make([]string, len(names))
	for i, n := range names {
		v, ok := env.FindObject(n)
		if !ok {
			parts[i] = n + "=UNBOUND"
		} else {
			parts[i] = n + "=" + refgen.RenderValue(v, refgen.SnapDepth)
		}
	}
	return strings.Join(parts, " ")
}

// Rest is the control state after one evaluation.
type Rest struct {
	D, S, A, L int
	Pc, Len    int
	Fn         string
}

func (r Rest) AtRest() bool {
	return r.D == 0 && r.S == 1 && r.A == 0 && r.L == 0 && r.Fn == "__main" && r.Pc == r.Len
}
func (r Rest) String() string {
	return fmt.Sprintf("(data=%d,scope=%d,addr=%d,loop=%d,pc=%d/%d,fn=%s)", r.D, r.S, r.A, r.L, r.Pc, r.Len, r.Fn)
}

func restOf(env *zygo.Zlisp) Rest {
	var r Rest
	r.D, r.S, r.A, r.L = env.VerifDepths()
	r.Pc, r.Fn = env.VerifPc()
	r.Len = len(env.VerifMainFunc().VerifCode())
	return r
}

// evalOn evaluates one text on env under the step budget.  It never calls env.Clear():
// C05 is about the state the library itself leaves behind.
func (it *Interp) evalOn(env *zygo.Zlisp, src string) (obs string) {
	zygo.VerifSetBudget(it.Budget)
	defer zygo.VerifSetBudget(-1)
	defer func() {
		if r := recover(); r != nil {
			s := fmt.Sprintf("%v", r)
			if len(s) > 80 {
				s = s[:80]
			}
			obs = "PANIC:" + strings.ReplaceAll(strings.ReplaceAll(s, "\n", " "), "\t", " ")
		}
	}()
	var v zygo.Sexp
	var err error
	if via, body, ok := splitVia(src); ok {
		v, err = it.evalVia(env, via, body)
	} else if it.LoadRun {
		// the second entry point: LoadString (parse + compile), then Run
		if err = env.LoadString(src); err == nil {
			v, err = env.Run()
		}
	} else {
		v, err = env.EvalString(src)
	}
	if err != nil {
		if strings.Contains(err.Error(), zygo.VerifBudgetExhausted) {
			return "BUDGET"
		}
		return "E:" + refgen.ErrClass(err)
	}
	return "V:" + refgen.RenderValue(v, refgen.SnapDepth)
}
