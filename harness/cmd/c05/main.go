// c05: errors are contained.  FAULT ENUMERATION on the real interpreter.
//
// For every generated program (core language of coq/Model/RefSem.v, calls of the host function
// failk sprinkled over it) the number N of failk calls of a clean run is counted; then for EVERY
// k in 1..N (cap 30) and every failure kind (interp.go: script error, Go panic, nested compile
// error, nested run-time error, failing applied closure, failing macro expansion, panic after a
// nested re-entry) a fresh interpreter evaluates the session
//
//	program texts (one text, or one text per form)  [interlude: a text that must be rejected]  battery
//
// WITHOUT ever calling env.Clear(), and is compared with
//
//	(b) the TWIN: a second fresh interpreter, of which env.Duplicate() (public API: a new interpreter
//	    shell - own stacks, pc, main function - on the same global scope object) is taken before the
//	    session starts.  It runs the same session up to the text in which failk fires; the rest of
//	    the session runs on the shell: an interpreter that holds exactly the store the failing
//	    evaluation left and whose control state never went through any error path.  (That the store
//	    is the one of the MOMENT of failure is checked separately: anomaly "store".)
//	(c) the extracted model (ocaml/c05/run.ml: ErrCont.eval_session), by the check driver.
//
// Per case line:  ID <TAB> failat=K T1 ;; T2 ;; .. <TAB> obs1 ;; obs2 ;; ..|T:trace <TAB> anomalies <TAB> sources <TAB> roles <TAB> entry point
// anomalies (model-free, each is a violation of the property text):
//
//	swallowed  failk fired but the text's outcome is not that error
//	unrest     stack depths / pc / current function not at rest after a failed text
//	store      a global differs from its value at the moment of failure
//	twin       a later evaluation differs from the twin's
//	panic      a Go panic escaped EvalString
package main

import (
	"bufio"
	"encoding/json"
	"fmt"
	"io"
	"os"
	"os/exec"
	"sort"
	"strings"

	"verif/harness/lib"
	. "verif/harness/refgen"
)

const budget = 6000
const capK = 30

type session struct {
	LoadRun bool // entry point of every text: LoadString + Run instead of EvalString
	P     *Program
	Texts []Text
	Names []string
	Tags  []string
}

type run struct {
	obs   []string
	rest  []Rest
	fire  int // index of the text in which failk fired, -1 = never
	snap  string
	after string // globals right after the failing text
	trace string
	calls int
}

func runSession(s *session, k int, kind FKind) run {
	it := NewInterp(budget, k, kind, s.Names)
	it.LoadRun = s.LoadRun
	env := it.Env
	r := run{fire: -1}
	for i, t := range s.Texts {
		was := it.fired
		if kind == KTwin && t.Role == "interlude" {
			// the twin never sees a text that is rejected as a whole
			r.obs = append(r.obs, "SKIP")
			r.rest = append(r.rest, restOf(env))
			continue
		}
		o := it.evalOn(env, t.Src)
		r.obs = append(r.obs, o)
		r.rest = append(r.rest, restOf(env))
		if !was && it.fired {
			r.fire = i
			r.snap = it.Snap
			if kind == KTwin {
				if it.Twin == nil {
					r.obs[i] = "PANIC:no twin"
					break
				}
				env = it.Twin
				r.rest[i] = restOf(env)
			}
			r.after = renderGlobals(env, s.Names)
		}
		if strings.HasPrefix(o, "PANIC") {
			break
		}
	}
	r.trace = strings.Join(it.trace, ";")
	r.calls = it.failCtr
	it.Env.Close()
	return r
}

// anomalies of one run against the twin run; model-free.
func anomalies(s *session, kind FKind, a, b run) []string {
	var out []string
	add := func(class string, i int, msg string) {
		out = append(out, fmt.Sprintf("%s kind=%s text=%d %s", class, kind, i, msg))
	}
	for i, o := range a.obs {
		if strings.HasPrefix(o, "PANIC") {
			add("panic", i, o)
		}
	}
	if a.fire < 0 {
		if len(out) == 0 {
			add("nofire", 0, "failk never reached its k-th call although the clean run did")
		}
		return out
	}
	// KPanicOther panics with a value that does not carry the injected text: any error class is right
	reported := func(o string) bool { return o == "E:user" || (kind == KPanicOther && strings.HasPrefix(o, "E:")) }
	if o := a.obs[a.fire]; !reported(o) && o != "BUDGET" && !strings.HasPrefix(o, "PANIC") {
		add("swallowed", a.fire, "outcome "+o+" although failk raised")
	}
	prevRest := true
	for i := range a.obs {
		failed := !strings.HasPrefix(a.obs[i], "V:")
		ok := a.rest[i].AtRest()
		if failed && !ok && prevRest {
			add("unrest", i, a.rest[i].String()+" after "+a.obs[i])
		}
		prevRest = ok
	}
	if a.after != a.snap {
		add("store", a.fire, "at failure {"+a.snap+"} afterwards {"+a.after+"}")
	}
	for i := range a.obs {
		if i >= len(b.obs) {
			break
		}
		if a.obs[i] == "BUDGET" || b.obs[i] == "BUDGET" {
			return out // out of steps (the failure kinds use different numbers of steps): inconclusive from here on
		}
		if i == a.fire && kind == KPanicOther && strings.HasPrefix(a.obs[i], "E:") && strings.HasPrefix(b.obs[i], "E:") {
			continue
		}
		if a.obs[i] != b.obs[i] && b.obs[i] != "SKIP" {
			add("twin", i, "impl "+a.obs[i]+" twin "+b.obs[i]+" src "+esc(s.Texts[i].Src))
			break
		}
	}
	if a.trace != b.trace && len(out) == 0 {
		add("twin", len(a.obs), "trace impl "+a.trace+" twin "+b.trace)
	}
	return out
}

// cleanAnomalies: no injected failure, but a rejected text is a failed evaluation too: the session
// is compared with an interpreter that never saw it (twin run with k = 0 skips rejected texts).
func cleanAnomalies(s *session, clean, tw run) []string {
	var cleanAnoms []string
	for i := range clean.obs {
		if i < len(tw.obs) && (clean.obs[i] == "BUDGET" || tw.obs[i] == "BUDGET") {
			break
		}
		if i < len(tw.obs) && tw.obs[i] != "SKIP" && clean.obs[i] != tw.obs[i] {
			cleanAnoms = append(cleanAnoms, fmt.Sprintf("twin kind=rejected-text text=%d impl %s twin %s src %s", i, clean.obs[i], tw.obs[i], esc(s.Texts[i].Src)))
			break
		}
	}
	for i, t := range s.Texts {
		if t.Role == "interlude" && i < len(clean.obs) {
			if strings.HasPrefix(clean.obs[i], "V:") {
				cleanAnoms = append(cleanAnoms, fmt.Sprintf("swallowed kind=rejected-text text=%d outcome %s for a text that must be rejected: %s", i, clean.obs[i], esc(t.Src)))
			} else if !clean.rest[i].AtRest() && (i == 0 || clean.rest[i-1].AtRest()) {
				cleanAnoms = append(cleanAnoms, fmt.Sprintf("unrest kind=rejected-text text=%d %s", i, clean.rest[i]))
			}
		}
	}
	return cleanAnoms
}

// catchAnomalies: the host handled the nested failure, so the session must equal the clean run.
func catchAnomalies(s *session, kind FKind, a, clean run) []string {
	var out []string
	for i, o := range a.obs {
		if o == "BUDGET" || (i < len(clean.obs) && clean.obs[i] == "BUDGET") {
			// the nested evaluation of the catcher consumed steps of the text's budget: a text that runs
			// out of steps stops at a different point than in the clean run; inconclusive from here on
			return out
		}
		if i < len(clean.obs) && o != clean.obs[i] {
			out = append(out, fmt.Sprintf("catch kind=%s text=%d impl %s clean-run %s src %s", kind, i, o, clean.obs[i], esc(s.Texts[i].Src)))
			return out
		}
		if !a.rest[i].AtRest() && clean.rest[i].AtRest() {
			out = append(out, fmt.Sprintf("catch-unrest kind=%s text=%d %s", kind, i, a.rest[i]))
			return out
		}
	}
	if a.trace != clean.trace {
		out = append(out, fmt.Sprintf("catch kind=%s text=%d trace impl %s clean-run %s", kind, len(a.obs), a.trace, clean.trace))
	}
	return out
}

func esc(s string) string {
	return strings.ReplaceAll(strings.ReplaceAll(strings.ReplaceAll(s, "\\", "\\\\"), "\n", "\\n"), "\t", "\\t")
}

func (s *session) input(k int) string {
	parts := make([]string, len(s.Texts))
	for i, t := range s.Texts {
		parts[i] = t.Prefix
	}
	return fmt.Sprintf("failat=%d %s", k, strings.Join(parts, " ;; "))
}

// roles: one letter per text (p = program, i = interlude, b = battery)
func (s *session) roles() string {
	b := make([]byte, len(s.Texts))
	for i, t := range s.Texts {
		b[i] = t.Role[0]
	}
	return string(b)
}

func (s *session) entry() string {
	if s.LoadRun {
		return "LoadString+Run"
	}
	return "EvalString"
}

func (s *session) sources() string {
	parts := make([]string, len(s.Texts))
	for i, t := range s.Texts {
		parts[i] = esc(t.Src)
	}
	return strings.Join(parts, " ;; ")
}

// build a session from a program.
func build(p *Program, rng *lib.Rng, tags []string) *session {
	s := &session{P: p, Names: definedNames(p), Tags: tags}
	st := Style{NoTCO: true}
	switch rng.Intn(3) {
	case 0:
		st.Rng = rng.Fork()
		s.Tags = append(s.Tags, "layout:random")
	case 1:
		st.Infix = true
		s.Tags = append(s.Tags, "layout:infix")
	default:
		s.Tags = append(s.Tags, "layout:plain")
	}
	if len(p.Forms) > 1 && rng.Intn(2) == 0 {
		for _, f := range p.Forms {
			s.Texts = append(s.Texts, progText(&Program{Forms: []*Node{f}}, st, "prog"))
		}
		s.Tags = append(s.Tags, "texts:per-form")
	} else {
		s.Texts = append(s.Texts, progText(p, st, "prog"))
		s.Tags = append(s.Tags, "texts:one")
	}
	if rng.Intn(2) == 0 {
		// a run-time failure through another entry point of the Go API, called at rest
		t := apiFailureText(rng)
		s.Texts = append(s.Texts, t)
		s.Tags = append(s.Tags, "api-entry:"+strings.SplitN(t.Src[len("//via:"):], "\n", 2)[0])
	}
	if rng.Intn(3) != 0 {
		i := rng.Intn(len(interludes))
		s.Texts = append(s.Texts, Text{Src: interludes[i], Prefix: noopErr, Role: "interlude"})
		s.Tags = append(s.Tags, fmt.Sprintf("interlude:%d", i))
	}
	s.Texts = append(s.Texts, battery(s.Names)...)
	if rng.Intn(3) == 0 {
		s.LoadRun = true
		s.Tags = append(s.Tags, "entry:LoadString+Run")
	} else {
		s.Tags = append(s.Tags, "entry:EvalString")
	}
	return s
}

type stats struct {
	programs, sessions, faultRuns, anomalous, kmax, capped int
}

// enumerate runs the fault enumeration of one session; emit is called once per k (0 = clean).
func enumerate(s *session, kinds []FKind, emit func(k int, a run, anoms []string)) (n int) {
	clean := runSession(s, 0, KScript)
	var cleanAnoms []string
	hasInterlude := false
	for _, t := range s.Texts {
		hasInterlude = hasInterlude || t.Role == "interlude"
	}
	if hasInterlude {
		cleanAnoms = cleanAnomalies(s, clean, runSession(s, 0, KTwin))
	}
	emit(0, clean, cleanAnoms)
	n = clean.calls
	if n > capK {
		n = capK
	}
	for k := 1; k <= n; k++ {
		b := runSession(s, k, KTwin)
		var first run
		var anoms []string
		for j, kind := range kinds {
			a := runSession(s, k, kind)
			if j == 0 {
				first = a
			}
			anoms = append(anoms, anomalies(s, kind, a, b)...)
		}
		for c := 0; c < nCatchKinds; c++ {
			kind := firstCatch + FKind(c)
			a := runSession(s, k, kind)
			anoms = append(anoms, catchAnomalies(s, kind, a, clean)...)
		}
		emit(k, first, anoms)
	}
	return n
}

func classOf(anom string) string { return strings.SplitN(anom, " ", 2)[0] }

// caseRec is one case line as produced by a worker.
type caseRec struct {
	Prog    int      `json:"p"`
	K       int      `json:"k"`
	Input   string   `json:"i"`
	Impl    string   `json:"o"`
	Anoms   string   `json:"a"`
	Sources string   `json:"s"`
	Tags    []string `json:"t"`
	Nontriv bool     `json:"n"`
	N       int      `json:"N"` // number of k enumerated for the program (on the k = 0 record)
}

var allKinds = func() []FKind {
	ks := make([]FKind, 0, nKinds)
	for k := 0; k < nKinds; k++ {
		ks = append(ks, FKind(k))
	}
	return ks
}()

// runProgram generates program number i of the stream (own PRNG derived from seed and i) and
// enumerates its faults.
func runProgram(seed uint64, i int, shrunkClasses map[string]bool) []caseRec {
	rng := lib.NewRng(seed*1000003 + uint64(i)*7919 + 17)
	g := &Gen{R: rng, MaxNodes: 40, MaxDepth: 8}
	var p *Program
	var tags []string
	switch {
	case i%10 == 4:
		sts, fam := specFamily(rng)
		s := &session{P: &Program{}, Names: []string{"f", "x", "y"}, Tags: []string{"stream:desugared-spec", "family:" + fam, "texts:per-form"}}
		for _, st := range sts {
			if st.rej {
				s.Texts = append(s.Texts, Text{Src: st.src, Prefix: noopErr, Role: "interlude"})
			} else {
				s.Texts = append(s.Texts, Text{Src: st.src, Prefix: (&Program{Forms: st.forms}).Prefix(), Role: "desugar"})
			}
		}
		if rng.Intn(2) == 0 {
			j := rng.Intn(len(interludes))
			s.Texts = append(s.Texts, Text{Src: interludes[j], Prefix: noopErr, Role: "interlude"})
		}
		s.Texts = append(s.Texts, battery(s.Names)...)
		s.LoadRun = rng.Intn(3) == 0
		s.Tags = append(s.Tags, "entry:"+s.entry())
		return enumRecs(s, i, shrunkClasses, false)
	case i%10 == 9:
		srcs, fam := rawFamily(rng)
		s := &session{P: &Program{}, Names: []string{"f", "h", "x", "y"}, Tags: []string{"stream:raw-extension", "family:" + fam, "texts:per-form"}}
		for _, src := range srcs {
			s.Texts = append(s.Texts, Text{Src: src, Prefix: "RAW", Role: "prog"})
		}
		if rng.Intn(3) == 0 {
			s.Texts = append(s.Texts, apiFailureText(rng))
		}
		if rng.Intn(3) != 0 {
			j := rng.Intn(len(interludes))
			s.Texts = append(s.Texts, Text{Src: interludes[j], Prefix: noopErr, Role: "interlude"})
		}
		s.Texts = append(s.Texts, battery(s.Names)...)
		s.LoadRun = rng.Intn(3) == 0
		s.Tags = append(s.Tags, "entry:"+s.entry())
		return enumRecs(s, i, shrunkClasses, false)
	case i%3 == 0:
		var fam string
		p, fam = idiom(rng)
		if rng.Intn(2) == 0 {
			for j, f := range p.Forms {
				p.Forms[j] = sprinkle(f, rng, 8)
			}
		}
		tags = []string{"stream:c05-idiom", "family:" + fam}
	case i%3 == 1:
		// concat is left to C02: its known finding concat-aliasing (two concats onto the same array share
		// the backing store) would show up here as a difference with the reference semantics
		for p = g.Idiom(); p.ConcatCount() > 0; p = g.Idiom() {
		}
		if rng.Intn(2) == 0 {
			if q := g.Mutate(p); q.ConcatCount() == 0 {
				p = q
			}
		}
		for j, f := range p.Forms {
			p.Forms[j] = sprinkle(f, rng, 20)
		}
		tags = []string{"stream:refgen-idiom"}
	default:
		for p = g.Program(); p.ConcatCount() > 0; p = g.Program() {
		}
		for j, f := range p.Forms {
			p.Forms[j] = sprinkle(f, rng, 25)
		}
		tags = []string{"stream:random"}
	}
	p.FailAt = 0
	return enumRecs(build(p, rng, tags), i, shrunkClasses, true)
}

func enumRecs(s *session, i int, shrunkClasses map[string]bool, shrink bool) []caseRec {
	p := s.P
	var recs []caseRec
	n := enumerate(s, allKinds, func(k int, r run, anoms []string) {
		ctags := append([]string{}, s.Tags...)
		if k == 0 {
			ctags = append(ctags, "k:clean")
		} else {
			ctags = append(ctags, "k:injected")
			if r.fire >= 0 {
				ctags = append(ctags, "failing-text-outcome:"+strings.SplitN(r.obs[r.fire], ":", 2)[0], "failing-text-role:"+s.Texts[r.fire].Role)
			}
		}
		for _, an := range anoms {
			ctags = append(ctags, "anomaly:"+classOf(an))
		}
		recs = append(recs, caseRec{Prog: i, K: k, Input: s.input(k), Impl: strings.Join(r.obs, " ;; ") + "|T:" + r.trace,
			Anoms: esc(strings.Join(anoms, " || ")), Sources: s.sources() + "\t" + s.roles() + "\t" + s.entry(), Tags: ctags, Nontriv: p.Size() >= 3 || !shrink})
		if shrink && len(anoms) > 0 && !shrunkClasses[classOf(anoms[0])] {
			shrunkClasses[classOf(anoms[0])] = true
			if rec := shrunkCase(s, anoms[0], allKinds); rec != nil {
				rec.Prog = i
				rec.K = k
				recs = append(recs, *rec)
			}
		}
	})
	recs[0].N = n
	return recs
}

func main() {
	a := lib.ParseArgs()
	writeMidTextFile()
	if a.Replay != "" {
		replay(a.Replay)
		return
	}
	nprog := 300
	if a.Tier == "thorough" {
		nprog = 30000
	}
	workers := 8
	worker, of := -1, 0
	for i := 0; i < len(a.Rest); i++ {
		switch a.Rest[i] {
		case "--programs":
			i++
			fmt.Sscanf(a.Rest[i], "%d", &nprog)
		case "--workers":
			i++
			fmt.Sscanf(a.Rest[i], "%d", &workers)
		case "--worker":
			i++
			fmt.Sscanf(a.Rest[i], "%d/%d", &worker, &of)
		}
	}
	if worker >= 0 {
		// worker mode: programs worker, worker+of, ..; one JSON record per line on a.Out
		f, err := os.Create(a.Out)
		if err != nil {
			panic(err)
		}
		w := bufio.NewWriterSize(f, 1<<20)
		enc := json.NewEncoder(w)
		shrunk := map[string]bool{}
		for i := worker; i < nprog; i += of {
			for _, rec := range runProgram(a.Seed, i, shrunk) {
				enc.Encode(rec)
			}
		}
		w.Flush()
		f.Close()
		return
	}
	// parent: the step budget of the VM hook is process-global, so parallelism = processes
	if workers < 1 {
		workers = 1
	}
	// the phase stream (phases.go) runs in the parent while the workers run: its texts have no loop that
	// iterates, so it needs no step budget (the budget hook is process-global and stays off here)
	nBasePh := 4
	if a.Tier == "thorough" {
		nBasePh = 400
	}
	phCh := make(chan []caseRec, 1)
	go func() { phCh <- phRecs(a.Seed, nBasePh) }()
	self, _ := os.Executable()
	var cmds []*exec.Cmd
	var files []string
	for w := 0; w < workers; w++ {
		fn := fmt.Sprintf("%s.%d.w%d", a.Out, os.Getpid(), w) // the pid keeps concurrent runs of the check apart
		files = append(files, fn)
		c := exec.Command(self, "--seed", fmt.Sprint(a.Seed), "--tier", a.Tier, "--out", fn,
			"--programs", fmt.Sprint(nprog), "--worker", fmt.Sprintf("%d/%d", w, workers))
		c.Env = append(os.Environ(), "GOMAXPROCS=2", "GOGC=400") // one busy goroutine per worker; fewer collections
		c.Stdout = io.Discard // the interpreter prints debug lines of its own (LenFunction)
		c.Stderr = os.Stderr
		if err := c.Start(); err != nil {
			fmt.Fprintln(os.Stderr, "cannot start worker:", err)
			os.Exit(2)
		}
		cmds = append(cmds, c)
	}
	failed := false
	for _, c := range cmds {
		if err := c.Wait(); err != nil {
			fmt.Fprintln(os.Stderr, "worker failed:", err)
			failed = true
		}
	}
	if failed {
		os.Exit(2)
	}
	var recs []caseRec
	for _, fn := range files {
		f, err := os.Open(fn)
		if err != nil {
			panic(err)
		}
		sc := bufio.NewScanner(f)
		sc.Buffer(make([]byte, 1<<20), 1<<26)
		for sc.Scan() {
			var r caseRec
			if err := json.Unmarshal(sc.Bytes(), &r); err != nil {
				panic(err)
			}
			recs = append(recs, r)
		}
		f.Close()
		os.Remove(fn)
	}
	sort.SliceStable(recs, func(i, j int) bool { return recs[i].Prog < recs[j].Prog })
	out := lib.NewOut(a.Out)
	out.Rule = "fault enumeration: programs of the core language (hand-shaped families for C05, refgen idioms and their mutations, random typed programs; failk sprinkled over sub-expressions) x EVERY k up to the number of failk calls of the clean run (cap 30) x 7 failure kinds, each followed by a text that must be rejected as a whole (2 of 3 sessions) and a fixed battery of follow-up evaluations; one case = one (program, k); non-trivial = the program has at least 3 nodes; distinct = distinct (program, k)"
	var st stats
	for _, r := range recs {
		shrunk := false
		for _, t := range r.Tags {
			if t == "shrunk" {
				shrunk = true
			}
		}
		if !shrunk {
			st.sessions++
			if r.K == 0 {
				st.programs++
				if r.N > st.kmax {
					st.kmax = r.N
				}
				if r.N == capK {
					st.capped++
				}
			} else {
				st.faultRuns += nKinds + 1 + nCatchKinds
			}
			if r.Anoms != "" {
				st.anomalous++
			}
		}
		out.Case(r.Input, r.Impl+"\t"+r.Anoms+"\t"+r.Sources, r.Nontriv, r.Tags...)
	}
	phs := <-phCh
	for _, r := range phs {
		out.Case(r.Input, r.Impl+"\t"+r.Anoms+"\t"+r.Sources, r.Nontriv, r.Tags...)
	}
	out.Extra["phase_stream_sessions"] = len(phs)
	out.Extra["phase_stream_rule"] = "phase stream: base texts of the language of coq/Model/Phases.v (ints, false, names, def, begin, failk, fn, for with a false test and optional label, break/continue with optional label) x read faults at EVERY token position (stray closer, malformed atom inserted; every closer deleted / replaced by the other one) x compile faults at EVERY sub-form (7 malformed special forms) x run faults (failk raising at EVERY k; EVERY sub-form replaced by an unbound name), each followed by a 12-text battery; one case = one session; tags ph:*"
	for i, smp := range out.Samples {
		if len(smp) > 400 {
			out.Samples[i] = smp[:400] + " ..."
		}
	}
	out.Extra["programs"] = st.programs
	out.Extra["sessions_program_x_k"] = st.sessions
	out.Extra["fault_runs_program_x_k_x_kind"] = st.faultRuns
	out.Extra["anomalous_sessions"] = st.anomalous
	out.Extra["max_k"] = st.kmax
	out.Extra["programs_capped_at_30"] = st.capped
	out.Extra["failure_kinds"] = kindNames
	out.Close(a.Stats)
}

// shrunkCase minimises the program of an anomalous session (same anomaly class, any k, any kind)
// and returns the result as an extra case tagged shrunk.
func shrunkCase(s *session, anom string, kinds []FKind) *caseRec {
	class := classOf(anom)
	rebuild := func(p *Program) *session {
		s2 := &session{P: p, Names: s.Names, Tags: []string{"shrunk"}, LoadRun: s.LoadRun}
		s2.Texts = append(s2.Texts, progText(p, Style{NoTCO: true}, "prog"))
		for _, t := range s.Texts {
			if t.Role == "interlude" {
				s2.Texts = append(s2.Texts, t)
			}
		}
		s2.Texts = append(s2.Texts, battery(s.Names)...)
		return s2
	}
	type hit struct {
		k    int
		r    run
		anom []string
	}
	find := func(p *Program) *hit {
		var h *hit
		enumerate(rebuild(p), kinds, func(k int, r run, anoms []string) {
			if h != nil {
				return
			}
			for _, an := range anoms {
				if classOf(an) == class {
					h = &hit{k, r, anoms}
					return
				}
			}
		})
		return h
	}
	if find(s.P) == nil {
		return nil // only reproducible with the original text split / layout: keep the original witness
	}
	small, _ := Shrink(s.P, func(q *Program) bool { return find(q) != nil }, 150)
	h := find(small)
	if h == nil {
		return nil
	}
	s2 := rebuild(small)
	return &caseRec{Input: s2.input(h.k), Impl: strings.Join(h.r.obs, " ;; ") + "|T:" + h.r.trace,
		Anoms: esc(strings.Join(h.anom, " || ")), Sources: s2.sources() + "\t" + s2.roles() + "\t" + s2.entry(), Tags: []string{"shrunk", "anomaly:" + class}}
}

// againstExpected compares the outcomes of one run with the recorded outcomes of the reference semantics.
func againstExpected(obs, expect []string) []string {
	var out []string
	for i, e := range expect {
		if i >= len(obs) || e == "" || e == "FUEL" || e == "UNSPEC" || obs[i] == "BUDGET" {
			if e == "FUEL" || e == "UNSPEC" {
				break
			}
			continue
		}
		if obs[i] == e || (strings.HasPrefix(obs[i], "E:") && strings.HasPrefix(e, "E:") && obs[i] != "E:user" && e != "E:user") {
			continue
		}
		out = append(out, fmt.Sprintf("spec text=%d impl %s reference semantics %s", i, obs[i], e))
		break
	}
	return out
}

// replay re-runs a recorded witness: {"failat": k, "texts": [source, ..]} and prints every kind's observables.
func replay(path string) {
	var w struct {
		Failat int      `json:"failat"`
		Texts  []string `json:"texts"`
		Names  []string `json:"names"`
		Load   bool     `json:"load_run"`
		Expect []string `json:"expected"` // outcomes of the reference semantics per text ("" / FUEL / UNSPEC = not compared)
		Phase  bool     `json:"phase_stream"`
	}
	b, err := os.ReadFile(path)
	if err != nil {
		fmt.Println("replay:", err)
		os.Exit(2)
	}
	if err := json.Unmarshal(b, &w); err != nil || len(w.Texts) == 0 {
		fmt.Println("replay: no texts in", path)
		os.Exit(2)
	}
	if w.Phase {
		// a session of the phase stream: outcome@at-rest,loop depth,data depth per text against Phases.psession_obs
		ps := &phSession{k: w.Failat, loadRun: w.Load}
		for _, t := range w.Texts {
			ps.texts = append(ps.texts, phText{t, "f"})
		}
		obs := runPhSession(ps)
		fmt.Printf("implementation: %s\n", strings.Join(obs, " ;; "))
		fmt.Printf("model         : %s\n", strings.Join(w.Expect, " ;; "))
		bad := 0
		for i, e := range w.Expect {
			if i >= len(obs) || strings.HasPrefix(e, "UNSPEC") || strings.HasPrefix(e, "FUEL") {
				break
			}
			if obs[i] != e {
				fmt.Printf("  ANOMALY phase text=%d %q: implementation %s, model %s\n", i, w.Texts[i], obs[i], e)
				bad++
				break
			}
		}
		if bad > 0 {
			os.Exit(1)
		}
		return
	}
	if len(w.Names) == 0 {
		w.Names = []string{"x", "y", "f"}
	}
	s := &session{Names: w.Names, LoadRun: w.Load}
	for _, t := range w.Texts {
		role := "prog"
		if isRejectedText(t) {
			role = "interlude"
		}
		s.Texts = append(s.Texts, Text{Src: t, Role: role})
	}
	bad := 0
	if w.Failat == 0 {
		clean := runSession(s, 0, KScript)
		tw := runSession(s, 0, KTwin)
		fmt.Printf("entry point   : %s\n", s.entry())
		fmt.Printf("twin          : %s\n", strings.Join(tw.obs, " ;; "))
		fmt.Printf("implementation: %s\n", strings.Join(clean.obs, " ;; "))
		for _, an := range append(cleanAnomalies(s, clean, tw), againstExpected(clean.obs, w.Expect)...) {
			fmt.Println("  ANOMALY", an)
			bad++
		}
		if bad > 0 {
			os.Exit(1)
		}
		return
	}
	tw := runSession(s, w.Failat, KTwin)
	fmt.Printf("twin          : %s\n", strings.Join(tw.obs, " ;; "))
	for k := 0; k < nKinds; k++ {
		r := runSession(s, w.Failat, FKind(k))
		fmt.Printf("%-14s: %s\n", FKind(k), strings.Join(r.obs, " ;; "))
		ans := anomalies(s, FKind(k), r, tw)
		if FKind(k) == KScript {
			ans = append(ans, againstExpected(r.obs, w.Expect)...)
		}
		for _, an := range ans {
			fmt.Println("  ANOMALY", an)
			bad++
		}
	}
	if w.Failat > 0 {
		clean := runSession(s, 0, KScript)
		fmt.Printf("%-18s: %s\n", "clean run", strings.Join(clean.obs, " ;; "))
		for c := 0; c < nCatchKinds; c++ {
			kind := firstCatch + FKind(c)
			r := runSession(s, w.Failat, kind)
			fmt.Printf("%-18s: %s\n", kind, strings.Join(r.obs, " ;; "))
			for _, an := range catchAnomalies(s, kind, r, clean) {
				fmt.Println("  ANOMALY", an)
				bad++
			}
		}
	}
	if bad > 0 {
		os.Exit(1)
	}
}
