// phases.go: the PHASE stream of c05 - fault enumeration over the read, compile and run phases of
// one load, tied to coq/Model/Phases.v (extracted: psession_obs).
//
// Language (exactly the one Phases.classify understands): int literals 0..99, false, the names
// a b c .., (def NAME e), (begin e+), (failk e), (fn [] e+), (for [init false step] e*) with an
// optional label, (break) (continue) (break LABEL).  For every generated base text
//
//	read faults     at EVERY token position: a stray `)`, a malformed atom `12abc` inserted; every
//	                closer deleted (unbalanced / mismatched) or replaced by the other closer
//	compile faults  EVERY sub-form replaced in turn by a malformed special form ((let [q] 1), (fn),
//	                (for [1 2] 3), (def), (break zzl), (continue))
//	run faults      failk raising at its k-th call for EVERY k of the clean run; EVERY sub-form
//	                replaced by an unbound name
//
// the session  prelude ;; faulted text ;; battery  runs on a fresh interpreter (EvalString or
// LoadString+Run, env.Clear() never called).  The battery would notice leftovers: (break) and
// (continue) must be refused by the compiler, every name is read, new definitions, a loop with a break,
// a marker defined AFTER the fault position must stay unbound.  Observable per text:
// phase-tagged outcome (R read error - a separate parser rejects the text; C compile error - the main
// buffer did not grow; X:user / X:other run error; V:value) @ at-rest flag, loop-stack depth, data-stack depth.
package main

import (
	"fmt"
	"strings"

	zygo "github.com/glycerine/zygomys/v9/zygo"
	"verif/harness/lib"
)

type pf struct {
	atom string
	kids []*pf
	arr  bool
}

func pa(s string) *pf      { return &pf{atom: s} }
func pl(kids ...*pf) *pf   { return &pf{kids: kids} }
func parr(kids ...*pf) *pf { return &pf{kids: kids, arr: true} }
func (f *pf) isAtom() bool { return f.kids == nil && f.atom != "" }
func (f *pf) atomOr(d string) *pf {
	if f.isAtom() {
		return f
	}
	return pa(d)
}
func (f *pf) toks(out *[]string) {
	if f.isAtom() {
		*out = append(*out, f.atom)
		return
	}
	o, c := "(", ")"
	if f.arr {
		o, c = "[", "]"
	}
	*out = append(*out, o)
	for _, k := range f.kids {
		k.toks(out)
	}
	*out = append(*out, c)
}

func renderToks(t []string) string {
	var sb strings.Builder
	for i, x := range t {
		if i > 0 && x != ")" && x != "]" && t[i-1] != "(" && t[i-1] != "[" {
			sb.WriteByte(' ')
		}
		sb.WriteString(x)
	}
	return sb.String()
}

func textToks(forms []*pf) []string {
	var t []string
	for _, f := range forms {
		f.toks(&t)
	}
	return t
}

var pnames = []string{"a", "b", "c", "d"}

func genItem(r *lib.Rng, depth int, loops []string, inInit bool) *pf {
	n := r.Intn(100)
	if depth <= 0 {
		switch {
		case n < 50:
			return pa(fmt.Sprint(r.Intn(10)))
		case n < 80:
			return pa(pnames[r.Intn(len(pnames))])
		default:
			return pl(pa("failk"), pa(fmt.Sprint(r.Intn(10))))
		}
	}
	switch {
	case n < 10:
		return pa(fmt.Sprint(r.Intn(10)))
	case n < 20:
		return pa(pnames[r.Intn(len(pnames))])
	case n < 38 && !inInit:
		return pl(pa("def"), pa(pnames[r.Intn(len(pnames))]), genItem(r, depth-1, loops, inInit))
	case n < 50:
		k := []*pf{pa("begin")}
		for i, m := 0, 1+r.Intn(3); i < m; i++ {
			k = append(k, genItem(r, depth-1, loops, inInit))
		}
		return pl(k...)
	case n < 64:
		return pl(pa("failk"), genItem(r, 0, loops, true).atomOr(fmt.Sprint(r.Intn(10))))
	case n < 74:
		k := []*pf{pa("fn"), parr()}
		for i, m := 0, 1+r.Intn(2); i < m; i++ {
			k = append(k, genItem(r, depth-1, loops, false))
		}
		return pl(k...)
	case n < 90 && !inInit:
		k := []*pf{pa("for")}
		inner := loops
		if r.Intn(3) == 0 {
			lbl := []string{"lp", "lq"}[r.Intn(2)]
			k = append(k, pa(lbl))
			inner = append(append([]string{}, loops...), lbl)
		} else {
			inner = append(append([]string{}, loops...), "")
		}
		k = append(k, parr(genItem(r, 0, inner, true), pa("false"), genItem(r, depth-1, inner, false)))
		for i, m := 0, r.Intn(3); i < m; i++ {
			k = append(k, genItem(r, depth-1, inner, false))
		}
		return pl(k...)
	default:
		op := []string{"break", "continue"}[r.Intn(2)]
		// mostly inside a loop, with a visible label; sometimes a label that is not visible / no loop at all
		if len(loops) > 0 && r.Intn(4) > 0 {
			l := loops[r.Intn(len(loops))]
			if l != "" && r.Intn(2) == 0 {
				return pl(pa(op), pa(l))
			}
			return pl(pa(op))
		}
		if r.Intn(3) == 0 {
			return pl(pa(op), pa("lq"))
		}
		if len(loops) == 0 && r.Intn(2) == 0 {
			return pa(fmt.Sprint(r.Intn(10)))
		}
		return pl(pa(op))
	}
}

// every sub-form in expression position, as a path of child indices
func exprPaths(f *pf, path []int, out *[][]int) {
	*out = append(*out, append([]int{}, path...))
	if f.isAtom() || f.arr || len(f.kids) == 0 || !f.kids[0].isAtom() {
		return
	}
	from := 1
	switch f.kids[0].atom {
	case "def":
		from = 2
	case "fn":
		from = 2
	case "for":
		from = 1
		for i := 1; i < len(f.kids); i++ {
			k := f.kids[i]
			if k.arr {
				for j := range k.kids {
					if j == 1 {
						continue // the test stays the literal false: the loops of this stream never iterate
					}
					exprPaths(k.kids[j], append(append([]int{}, path...), i, j), out)
				}
				from = i + 1
				break
			}
		}
	case "break", "continue", "failk":
		return // (the argument forms of a call are compiled at run time: outside the phase model)
	}
	for i := from; i < len(f.kids); i++ {
		exprPaths(f.kids[i], append(append([]int{}, path...), i), out)
	}
}

func replaceAt(f *pf, path []int, by *pf) *pf {
	if len(path) == 0 {
		return by
	}
	c := &pf{atom: f.atom, arr: f.arr, kids: append([]*pf{}, f.kids...)}
	c.kids[path[0]] = replaceAt(f.kids[path[0]], path[1:], by)
	return c
}

var compileFaults = []func() *pf{
	func() *pf { return pl(pa("let"), parr(pa("q")), pa("1")) },
	func() *pf { return pl(pa("fn")) },
	func() *pf { return pl(pa("for"), parr(pa("1"), pa("2")), pa("3")) },
	func() *pf { return pl(pa("def")) },
	func() *pf { return pl(pa("break"), pa("zzl")) },
	func() *pf { return pl(pa("continue")) },
	func() *pf {
		return pl(pa("for"), parr(pa("0"), pa("false"), pa("0")), pl(pa("fn"), parr(), pl(pa("let"), parr(pa("q")), pa("1"))))
	},
}

type phText struct {
	src  string
	role string // p prelude, f faulted, c clean base text, b battery
}

type phSession struct {
	texts   []phText
	k       int
	loadRun bool
	tag     string
}

var phBattery = []string{"(break)", "zzAfter", "a", "(continue)", "b", "(def n9 (failk 5))", "(for lp [0 false 0] (break lp) (fn [] (continue)))",
	"(break lp)", "n9", "(begin c d)", "7", ""}

func (s *phSession) input() string {
	var parts []string
	for _, t := range s.texts {
		parts = append(parts, t.src)
	}
	return fmt.Sprintf("PHASE failat=%d %s", s.k, strings.Join(parts, " ;; "))
}

func phValue(v zygo.Sexp) string {
	switch x := v.(type) {
	case *zygo.SexpInt:
		return fmt.Sprintf("V:%d", x.Val)
	case *zygo.SexpBool:
		if !x.Val {
			return "V:false"
		}
		return "V:other"
	case *zygo.SexpFunction:
		return "V:fn"
	case *zygo.SexpSentinel:
		if x == zygo.SexpNull {
			return "V:nil"
		}
	}
	return "V:other"
}

var phSide *zygo.Zlisp

// readRejects: does a parser that has seen nothing else reject the text?
func readRejects(src string) bool {
	if phSide == nil {
		phSide = zygo.NewZlisp()
	}
	p := phSide.VerifParser()
	p.ResetAddNewInput(zygo.WholeText(strings.NewReader(src)))
	_, err := p.ParseTokens()
	return err != nil
}

func runPhSession(s *phSession) (obs []string) {
	env := zygo.NewZlisp()
	env.StandardSetup()
	ctr := 0
	fired := false
	env.AddFunction("failk", func(env *zygo.Zlisp, name string, args []zygo.Sexp) (zygo.Sexp, error) {
		ctr++
		if ctr == s.k {
			fired = true
			return zygo.SexpNull, fmt.Errorf(injected)
		}
		if len(args) == 0 {
			return zygo.SexpNull, nil
		}
		return args[0], nil
	})
	for _, t := range s.texts {
		o := func() (o string) {
			defer func() {
				if r := recover(); r != nil {
					o = "PANIC"
				}
			}()
			fired = false
			zygo.VerifSetBudget(budget)
			defer zygo.VerifSetBudget(-1)
			before := len(env.VerifMainFunc().VerifCode())
			var v zygo.Sexp
			var err error
			if s.loadRun {
				if err = env.LoadString(t.src); err == nil {
					v, err = env.Run()
				}
			} else {
				v, err = env.EvalString(t.src)
			}
			switch {
			case err == nil:
				return phValue(v)
			case strings.Contains(err.Error(), zygo.VerifBudgetExhausted):
				return "BUDGET"
			case readRejects(t.src):
				return "R"
			case len(env.VerifMainFunc().VerifCode()) == before:
				return "C"
			case fired:
				return "X:user"
			default:
				return "X:other"
			}
		}()
		r := restOf(env)
		rest := 0
		if r.AtRest() {
			rest = 1
		}
		obs = append(obs, fmt.Sprintf("%s@%d,%d,%d", o, rest, r.L, r.D))
	}
	return obs
}

// countFailk: failk calls of the clean run of the session (k = 0)
func phSessions(seed uint64, nBase int) []*phSession {
	r := lib.NewRng(seed*7919 + 17)
	var out []*phSession
	mk := func(forms []*pf, toks []string, k int, tag string) {
		src := ""
		if toks != nil {
			src = renderToks(toks)
		} else {
			src = renderToks(textToks(forms))
		}
		s := &phSession{k: k, tag: tag, loadRun: len(out)%3 == 2}
		s.texts = append(s.texts, phText{"(def a 1) (def b (fn [] 2))", "p"}, phText{src, "f"})
		for _, b := range phBattery {
			s.texts = append(s.texts, phText{b, "b"})
		}
		out = append(out, s)
	}
	for bi := 0; bi < nBase; bi++ {
		var forms []*pf
		for i, m := 0, 2+r.Intn(3); i < m; i++ {
			forms = append(forms, genItem(r, 3, nil, false))
		}
		// a complete definition after everything else: it must not survive a failure before it
		forms = append(forms, pl(pa("def"), pa("zzAfter"), pa("7")))
		toks := textToks(forms)
		mk(forms, nil, 0, "ph:clean")
		// run faults: every k
		nk := 0
		for _, t := range toks {
			if t == "failk" {
				nk++
			}
		}
		for k := 1; k <= nk+1; k++ { // nk+1: the first failk call of the battery
			mk(forms, nil, k, "ph:run-failk")
		}
		// read faults at every token position
		for i := 0; i <= len(toks); i++ {
			for _, ins := range []string{")", "12abc"} {
				t := append(append(append([]string{}, toks[:i]...), ins), toks[i:]...)
				mk(nil, t, 0, "ph:read-insert")
			}
			if i < len(toks) && (toks[i] == ")" || toks[i] == "]") {
				t := append(append([]string{}, toks[:i]...), toks[i+1:]...)
				mk(nil, t, 0, "ph:read-delete-closer")
				other := map[string]string{")": "]", "]": ")"}[toks[i]]
				t2 := append(append(append([]string{}, toks[:i]...), other), toks[i+1:]...)
				mk(nil, t2, 0, "ph:read-wrong-closer")
			}
		}
		// compile faults / unbound names at every sub-form
		for fi, f := range forms {
			var paths [][]int
			exprPaths(f, nil, &paths)
			for pi, p := range paths {
				for ci, cf := range compileFaults {
					if (pi+ci+bi)%2 == 0 && ci > 1 { // the first two at every position, the others at every second
						continue
					}
					nf := append([]*pf{}, forms...)
					nf[fi] = replaceAt(f, p, cf())
					mk(nf, nil, 0, "ph:compile-malformed")
				}
				nf := append([]*pf{}, forms...)
				nf[fi] = replaceAt(f, p, pa("zzu"))
				mk(nf, nil, 0, "ph:run-unbound")
			}
		}
	}
	return out
}

// phRecs runs the phase stream and returns its case records (Prog = -1 keeps them apart)
func phRecs(seed uint64, nBase int) []caseRec {
	var recs []caseRec
	for _, s := range phSessions(seed, nBase) {
		obs := runPhSession(s)
		var srcs, roles []string
		for _, t := range s.texts {
			srcs = append(srcs, esc(t.src))
			roles = append(roles, t.role)
		}
		entry := "EvalString"
		if s.loadRun {
			entry = "LoadString+Run"
		}
		recs = append(recs, caseRec{Prog: 1 << 30, K: s.k, Input: s.input(), Impl: strings.Join(obs, " ;; "),
			Sources: strings.Join(srcs, " ;; ") + "\t" + strings.Join(roles, "") + "\t" + entry,
			Tags:    []string{s.tag, "phase-stream"}, Nontriv: true})
	}
	return recs
}
