package main

import (
	"fmt"
	"testing"
	"time"
)

func TestPhDebug(t *testing.T) {
	ss := phSessions(1, 2)
	fmt.Println("sessions", len(ss))
	t0 := time.Now()
	for i, s := range ss {
		t1 := time.Now()
		obs := runPhSession(s)
		if d := time.Since(t1); d > 200*time.Millisecond {
			fmt.Println("SLOW", i, d, s.input(), obs)
		}
	}
	fmt.Println("total", time.Since(t0))
}
