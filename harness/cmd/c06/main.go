// c06: infix blocks mean what the precedence table says.
//
// Stage 1 (default): generates infix block texts, reads each with the REAL reader
// ((quote {...}) gives the token array of (infix [...])), expands it with the REAL Pratt parser
// ((infixExpand {...})) and writes
//     ID <TAB> TOKENS <TAB> canonical statement list [<TAB> value/effects of evaluating the block]
// TOKENS is what the Coq model and the specification parse (see ocaml/c06/run.ml for the format).
// For the spacing family TOKENS is the INTENDED token list (built token by token) and the
// implementation column also checks that the reader produced exactly those tokens.
//
// Stage 2 (--prefix FILE): FILE has lines "ID<TAB>form ;; form ;; ..." (the prefix forms the
// SPECIFICATION assigns to the block of case ID); each form is evaluated in order in a fresh
// interpreter with the same prelude; output "ID<TAB>forms<TAB>value/effects".
package main

import (
	"bufio"
	"fmt"
	"os"
	"sort"
	"strconv"
	"strings"

	"github.com/glycerine/zygomys/v9/zygo"
	"verif/harness/lib"
)

// ---------------------------------------------------------------- canonical printing

func enc(s string) string {
	r := strings.NewReplacer("\\", "\\\\", " ", "\\s", "\t", "\\t", "\n", "\\n")
	return r.Replace(s)
}

func escFinal(s string) string {
	r := strings.NewReplacer("\\", "\\\\", "\t", "\\t", "\n", "\\n")
	return r.Replace(s)
}

var canonDepth int

func canon(x zygo.Sexp) string {
	canonDepth++
	defer func() { canonDepth-- }()
	if canonDepth > 40 {
		return "<CYCLE>"
	}
	switch v := x.(type) {
	case nil:
		return "<go-nil>"
	case *zygo.SexpSentinel:
		if v == zygo.SexpNull {
			return "nil"
		}
		return "<sentinel>"
	case *zygo.SexpPair:
		var parts []string
		var cur zygo.Sexp = v
		for {
			p, ok := cur.(*zygo.SexpPair)
			if !ok {
				break
			}
			parts = append(parts, canon(p.Head))
			cur = p.Tail
		}
		if cur != zygo.SexpNull {
			parts = append(parts, ".", canon(cur))
		}
		return "(" + strings.Join(parts, " ") + ")"
	case *zygo.SexpSymbol:
		_, colon := zygo.VerifSymbolFlags(v)
		nm := v.Name()
		if strings.HasPrefix(nm, "__range_") {
			nm = strings.TrimRight(nm, "0123456789") // generated symbols of lowerRangeFor
		}
		if colon {
			return nm + ":"
		}
		return nm
	case *zygo.SexpInt:
		return strconv.FormatInt(v.Val, 10)
	case *zygo.SexpFloat:
		f := strconv.FormatFloat(v.Val, 'g', -1, 64)
		if !strings.ContainsAny(f, ".eIN") {
			f += ".0"
		}
		return f
	case *zygo.SexpBool:
		if v.Val {
			return "true"
		}
		return "false"
	case *zygo.SexpStr:
		return strconv.Quote(v.S)
	case *zygo.SexpArray:
		parts := make([]string, len(v.Val))
		for i, e := range v.Val {
			parts[i] = canon(e)
		}
		return "[" + strings.Join(parts, " ") + "]"
	case *zygo.SexpHash:
		if v.NumKeys == 0 {
			return "{}"
		}
		return "{hash:" + v.SexpString(nil) + "}"
	case *zygo.SexpChar:
		return v.SexpString(nil)
	case *zygo.SexpComma:
		return ","
	case *zygo.SexpSemicolon:
		return ";"
	case *zygo.SexpComment:
		return "/*" + v.Comment + "*/"
	}
	return fmt.Sprintf("<%T:%s>", x, x.SexpString(nil))
}

// tokItem serialises one token of the (infix [...]) array for the model runner.
func tokItem(x zygo.Sexp) string {
	switch v := x.(type) {
	case *zygo.SexpSymbol:
		dot, colon := zygo.VerifSymbolFlags(v)
		switch {
		case dot:
			return "d:" + enc(v.Name())
		case colon:
			return "l:" + enc(v.Name())
		}
		return "s:" + enc(v.Name())
	case *zygo.SexpInt:
		return "i:" + enc(canon(x))
	case *zygo.SexpFloat:
		return "f:" + enc(canon(x))
	case *zygo.SexpBool:
		return "b:" + enc(canon(x))
	case *zygo.SexpStr:
		return "q:" + enc(canon(x))
	case *zygo.SexpPair:
		return "p:" + enc(canon(x))
	case *zygo.SexpArray:
		parts := []string{"a["}
		for _, e := range v.Val {
			parts = append(parts, tokItem(e))
		}
		parts = append(parts, "]")
		return strings.Join(parts, " ")
	case *zygo.SexpHash:
		return "h:" + enc(canon(x))
	case *zygo.SexpComma:
		return "c"
	case *zygo.SexpSemicolon:
		return "m"
	case *zygo.SexpComment:
		return "k:" + enc(canon(x))
	}
	return "o:" + enc(canon(x))
}

func tokItems(xs []zygo.Sexp) string {
	parts := make([]string, len(xs))
	for i, x := range xs {
		parts[i] = tokItem(x)
	}
	return strings.Join(parts, " ")
}

// ---------------------------------------------------------------- the real reader / parser

const budget = 200000

// readTokens returns the token array the reader builds for {src}; ok=false when the text is not
// read as one infix block (reader error, or {} read as a hash / empty block).
func readTokens(env *zygo.Zlisp, src string) ([]zygo.Sexp, bool) {
	r := lib.Eval(env, "(quote {"+src+"})", budget)
	if r.Class != lib.OutValue {
		return nil, false
	}
	p, ok := r.Val.(*zygo.SexpPair)
	if !ok {
		return nil, false
	}
	h, ok := p.Head.(*zygo.SexpSymbol)
	if !ok || h.Name() != "infix" {
		return nil, false
	}
	t, ok := p.Tail.(*zygo.SexpPair)
	if !ok {
		return nil, false
	}
	arr, ok := t.Head.(*zygo.SexpArray)
	if !ok || t.Tail != zygo.SexpNull {
		return nil, false
	}
	return arr.Val, true
}

// expandDirect translates a token array with the exported InfixExpandArray (what GenerateInfix and
// the infixExpand builder call), canonical statement list.
func expandDirect(env *zygo.Zlisp, toks []zygo.Sexp) (res string) {
	defer func() {
		if r := recover(); r != nil {
			res = "PANIC"
		}
	}()
	xs, err := zygo.InfixExpandArray(env, &zygo.SexpArray{Val: toks, Env: env})
	if err != nil {
		return "ERR"
	}
	parts := make([]string, len(xs))
	for i, x := range xs {
		parts[i] = canon(x)
	}
	return strings.Join(parts, " ;; ")
}

// retranslate: translating a block is a function of its tokens - it must not change the token
// array (a block that is the argument of a call or the body of a loop is translated every time it
// runs), and translating the same array twice must give the same statement list.
// Returns "" when that holds, else a description used as the implementation's observable.
func retranslate(env *zygo.Zlisp, toks []zygo.Sexp) string {
	before := tokItems(toks)
	x1 := expandDirect(env, toks)
	after := tokItems(toks)
	if after != before {
		return "TOKENS-MUTATED-BY-TRANSLATION first=" + x1 + " tokens-after=" + after
	}
	x2 := expandDirect(env, toks)
	if x1 != x2 {
		return "RETRANSLATION-DIFFERS first=" + x1 + " second=" + x2
	}
	return ""
}

// implExpand: the statement list (infixExpand {src}) returns, canonical.
func implExpand(env *zygo.Zlisp, src string) string {
	r := lib.Eval(env, "(infixExpand {"+src+"})", budget)
	switch r.Class {
	case lib.OutValue:
		p, ok := r.Val.(*zygo.SexpPair)
		if !ok {
			return "OTHER:" + canon(r.Val)
		}
		h, ok := p.Head.(*zygo.SexpSymbol)
		if !ok || h.Name() != "quote" {
			return "OTHER:" + canon(r.Val)
		}
		var parts []string
		cur := p.Tail
		for {
			q, ok := cur.(*zygo.SexpPair)
			if !ok {
				break
			}
			parts = append(parts, canon(q.Head))
			cur = q.Tail
		}
		return strings.Join(parts, " ;; ")
	case lib.OutError:
		return "ERR"
	case lib.OutPanic:
		return "PANIC"
	}
	return strings.ToUpper(r.Class)
}

// compilePanics: does parsing + compiling the block (LoadString, no evaluation) panic?
func compilePanics(env *zygo.Zlisp, src string) (panicked bool) {
	defer func() {
		if r := recover(); r != nil {
			panicked = true
		}
		env.Clear()
	}()
	_ = env.LoadString("{" + src + "}")
	return false
}

// ---------------------------------------------------------------- evaluation with effects

type evalEnv struct {
	env      *zygo.Zlisp
	trace    []string
	nglobals int
}

// One interpreter is reused for the evaluations as long as a case did not add a global binding;
// the watched variables are re-bound before every case (a fresh interpreter per case costs ~5 ms).
var pooled *evalEnv

var preludeForms = []string{"(def a 2)", "(def b 3)", "(def c 5)", "(def d 7)", "(def x 0)", "(def y 0)",
	"(def v [10 20 30 40 50 60])", "(def h (hash k:11 j:(hash m:[7 8 9])))",
	"(def pts [(hash x:3 y:4 ok:true) (hash x:1 y:20 ok:false)])"}

func getEvalEnv() *evalEnv {
	if pooled != nil && len(pooled.env.VerifGlobalNames()) == pooled.nglobals {
		d, sc, ad, lp := pooled.env.VerifDepths()
		cyc := false
		for _, w := range append([]string{"h", "h.j", "h.j.m", "h.k"}, watched...) {
			rv := lib.Eval(pooled.env, w, budget)
			if rv.Class != lib.OutValue {
				cyc = true
				break
			}
			if hh, isHash := rv.Val.(*zygo.SexpHash); isHash {
				if hh.NumKeys != 2 {
					cyc = true
				}
				continue
			}
			if strings.Contains(canon(rv.Val), "<CYCLE>") {
				cyc = true
			}
		}
		if !cyc && d == 0 && sc == 1 && ad == 0 && lp == 0 {
			ok := true
			for _, s := range preludeForms {
				if r := lib.Eval(pooled.env, s, budget); r.Class != lib.OutValue {
					ok = false
				}
			}
			if ok {
				pooled.trace = nil
				return pooled
			}
		}
	}
	pooled = newEvalEnv()
	pooled.nglobals = len(pooled.env.VerifGlobalNames())
	return pooled
}

var watched = []string{"a", "b", "c", "d", "x", "y", "v"}

func newEvalEnv() *evalEnv {
	ee := &evalEnv{}
	env := zygo.NewZlisp()
	env.StandardSetup()
	ee.env = env
	mk := func(name string, ret func(args []zygo.Sexp) zygo.Sexp) {
		env.AddFunction(name, func(env *zygo.Zlisp, nm string, args []zygo.Sexp) (zygo.Sexp, error) {
			var parts []string
			for _, a := range args {
				parts = append(parts, canon(a))
			}
			ee.trace = append(ee.trace, nm+"("+strings.Join(parts, ",")+")")
			return ret(args), nil
		})
	}
	mk("t", func(args []zygo.Sexp) zygo.Sexp { // returns its first argument
		if len(args) > 0 {
			return args[0]
		}
		return zygo.SexpNull
	})
	mk("tt", func(args []zygo.Sexp) zygo.Sexp { return &zygo.SexpBool{Val: true} })
	mk("ff", func(args []zygo.Sexp) zygo.Sexp { return &zygo.SexpBool{Val: false} })
	for _, s := range preludeForms {
		r := lib.Eval(env, s, budget)
		if r.Class != lib.OutValue {
			panic("prelude failed: " + s + ": " + r.Show())
		}
	}
	return ee
}

func (ee *evalEnv) obs(r lib.Result) string {
	switch r.Class {
	case lib.OutError:
		return "ERR"
	case lib.OutPanic:
		return "PANIC"
	case lib.OutBudget:
		return "BUDGET"
	}
	parts := []string{"val=" + canon(r.Val)}
	for _, w := range watched {
		rr := lib.Eval(ee.env, w, budget)
		if rr.Class == lib.OutValue {
			parts = append(parts, w+"="+canon(rr.Val))
		} else {
			parts = append(parts, w+"=?")
		}
	}
	parts = append(parts, "trace="+strings.Join(ee.trace, ","))
	o := escFinal(strings.Join(parts, " "))
	if strings.Contains(o, "<CYCLE>") {
		pooled = nil // a self-containing array: printing it inside the library would not terminate
	}
	return o
}

// a text that may store into an array or hash can build self-containing data, which the library
// cannot print (it does so when a binding is replaced): such an interpreter is not reused
func mayMutateContainer(text string) bool {
	return (strings.Contains(text, "[") || strings.Contains(text, "h.") || strings.Contains(text, "hashidx")) &&
		(strings.Contains(text, "=") || strings.Contains(text, "++") || strings.Contains(text, "--") || strings.Contains(text, "set"))
}

func evalBlock(src string) string {
	ee := getEvalEnv()
	r := lib.Eval(ee.env, "{"+src+"}", budget)
	o := ee.obs(r)
	if mayMutateContainer(src) {
		pooled = nil
	}
	return o
}

func evalForms(forms []string) string {
	ee := getEvalEnv()
	var r lib.Result
	r = lib.Result{Class: lib.OutValue, Val: zygo.SexpNull}
	for _, f := range forms {
		r = lib.Eval(ee.env, f, budget)
		if r.Class != lib.OutValue {
			break
		}
	}
	o := ee.obs(r)
	if mayMutateContainer(strings.Join(forms, " ")) {
		pooled = nil
	}
	return o
}

// ---------------------------------------------------------------- case generation

type gen struct {
	env      *zygo.Zlisp
	env2     *zygo.Zlisp
	out      *lib.Out
	seen     map[string]bool
	unread   int
	itemMemo map[string]string
}

// contexts a block is evaluated in (besides the top level): body is either the block text "{...}" or
// its prefix forms; one is the body as ONE expression.
const fnPre = "(defn w0 [k] k) (defn w1 [k] (cond (> k 0) (w (- k 1)) false)) "

func wrapCtx(ctx, body, one string) string {
	switch ctx {
	case "fn-nontail": // the block is NOT the last expression of a recursive function
		return fnPre + "(def lg []) (defn w [n] " + body + " (set lg (append lg n)) n) [(w 3) lg]"
	case "fn-tail":
		return fnPre + "(def lg []) (defn w [n] (set lg (append lg n)) " + body + ") [(w 3) lg]"
	case "loop": // translated again on every turn
		return "(for [(def i 0) (< i 3) (set i (+ i 1))] " + body + ") [x y]"
	case "arg-twice": // argument of a call inside a function called three times
		return "(defn g [lo hi] (t " + one + ")) [(g 1 3) (g 1 3) (g 2 4)]"
	case "let":
		return "(let [q 1] " + body + ")"
	}
	return body
}

func oneExpr(forms []string) string {
	if len(forms) == 1 {
		return forms[0]
	}
	return "(begin " + strings.Join(forms, " ") + ")"
}

func evalSource(text string, dirty bool) string {
	ee := getEvalEnv()
	r := lib.Eval(ee.env, text, budget)
	o := ee.obs(r)
	pooled = nil // contexts define functions: never reuse
	_ = dirty
	return o
}

// ctxCase: like parseCase, but the block is evaluated inside the context ctx; the check evaluates the
// specification's prefix forms in the SAME context (stage 2).
func (g *gen) ctxCase(ctx, src string) {
	key := "ctx:" + ctx + ":" + src
	if g.seen[key] {
		return
	}
	g.seen[key] = true
	toks, ok := readTokens(g.env, src)
	if !ok {
		g.unread++
		g.out.Dist["unreadable"]++
		return
	}
	input := tokItems(toks)
	impl := escFinal(implExpand(g.env, src))
	if m := retranslate(g.env, toks); m != "" {
		impl = escFinal(m)
	}
	blk := "{" + src + "}"
	val := evalSource(wrapCtx(ctx, blk, blk), true)
	g.out.Case(input, impl+"\t"+val+"\t"+escFinal(src)+"\t"+ctx, true, "ctx-"+ctx)
}

// parseCase: correspondence on the implementation's own token list.
func (g *gen) parseCase(src string, withEval bool, tags ...string) {
	if g.seen[src] {
		return
	}
	g.seen[src] = true
	toks, ok := readTokens(g.env, src)
	if !ok {
		g.unread++
		g.out.Dist["unreadable"]++
		return
	}
	input := tokItems(toks) // before anything is translated: the tokens as the reader built them
	impl := escFinal(implExpand(g.env, src))
	if m := retranslate(g.env, toks); m != "" {
		impl = escFinal(m)
	}
	if impl == "ERR" && compilePanics(g.env2, src) {
		// (infixExpand ..) runs under the VM's recover and reports a panic as an error; compiling
		// the block through LoadString shows whether the expander really panicked
		impl = "PANIC"
	}
	if withEval {
		impl += "\t" + evalBlock(src) + "\t" + escFinal(src)
	} else {
		impl += "\t\t" + escFinal(src)
	}
	g.out.Case(input, impl, true, tags...)
}

// item of a single token text (read alone by the real reader), memoised.
func (g *gen) item(text string) string {
	if it, ok := g.itemMemo[text]; ok {
		return it
	}
	toks, ok := readTokens(g.env, text)
	if !ok || len(toks) != 1 {
		panic("generator token " + strconv.Quote(text) + " is not read as one token")
	}
	it := tokItem(toks[0])
	g.itemMemo[text] = it
	return it
}

func isDigitStart(s string) bool {
	return len(s) > 0 && (s[0] >= '0' && s[0] <= '9' || s[0] == '.')
}

// sliceCase: the VALUE of an index / slice of the 6-element array v against the model of
// SexpArraySelector.RHS / sliceBounds and the Go-slicing specification (runner input "#slice 6 <selector>")
func (g *gen) sliceCase(src, sel string) {
	if g.seen["sl:"+src] {
		return
	}
	g.seen["sl:"+src] = true
	ee := getEvalEnv()
	r := lib.Eval(ee.env, "{"+src+"}", budget)
	var impl string
	switch r.Class {
	case lib.OutValue:
		impl = canon(r.Val)
		if as, ok := r.Val.(*zygo.SexpArraySelector); ok {
			// the block's value is the (lazy) selector: materialise it as any use of the value does
			func() {
				defer func() {
					if rr := recover(); rr != nil {
						impl = "PANIC"
					}
				}()
				if x, err := as.RHS(ee.env); err != nil {
					impl = "ERR"
				} else {
					impl = canon(x)
				}
			}()
		}
	case lib.OutError:
		impl = "ERR"
	case lib.OutPanic:
		impl = "PANIC"
	default:
		impl = strings.ToUpper(r.Class)
	}
	g.out.Case("#slice 6 "+sel, escFinal(impl)+"\t\t"+escFinal(src), true, "slice-values")
}

// lvalueCase: an assignment through an index / field path, observed by reading EVERY leaf of the data
// back with prefix accessors (aget / hget) and counting the keys of every record: the path holds the
// new value, nothing else changed, no key appeared (runner input "#lvalue <path> | <op>").
var lvLeaves = []string{
	"(hget (hget (aget r 0) (quote b)) (quote c))", "(hget (hget (aget r 0) (quote b)) (quote d))", "(hget (aget r 0) (quote e))",
	"(hget (hget (aget r 1) (quote b)) (quote c))", "(hget (hget (aget r 1) (quote b)) (quote d))", "(hget (aget r 1) (quote e))",
	"(hget (hget (hget g (quote p)) (quote q)) (quote s))", "(hget (hget (hget g (quote p)) (quote q)) (quote t))", "(hget (hget g (quote p)) (quote u))",
	"(aget (hget g (quote w)) 0)", "(aget (hget g (quote w)) 1)"}
var lvConts = []string{
	"(len r)", "(len (keys (aget r 0)))", "(len (keys (hget (aget r 0) (quote b))))", "(len (keys (aget r 1)))", "(len (keys (hget (aget r 1) (quote b))))",
	"(len (keys g))", "(len (keys (hget g (quote p))))", "(len (keys (hget (hget g (quote p)) (quote q))))", "(len (hget g (quote w)))"}

func (g *gen) lvalueCase(text, specPath, op, stmt string) {
	src := text + stmt
	if g.seen["lv:"+src] {
		return
	}
	g.seen["lv:"+src] = true
	ee := getEvalEnv()
	defer func() { pooled = nil }()
	for _, d := range []string{"(def r [(hash b:(hash c:1 d:2) e:3) (hash b:(hash c:4 d:5) e:6)])",
		"(def g (hash p:(hash q:(hash s:7 t:8) u:9) w:[10 20]))"} {
		if r := lib.Eval(ee.env, d, budget); r.Class != lib.OutValue {
			panic("lvalue prelude: " + r.Show())
		}
	}
	impl := ""
	if r := lib.Eval(ee.env, "{"+src+"}", budget); r.Class != lib.OutValue {
		impl = "ERR"
		if r.Class == lib.OutPanic {
			impl = "PANIC"
		}
	} else {
		read := func(forms []string) string {
			var parts []string
			for _, f := range forms {
				rr := lib.Eval(ee.env, f, budget)
				if rr.Class == lib.OutValue {
					parts = append(parts, canon(rr.Val))
				} else {
					parts = append(parts, "?")
				}
			}
			return strings.Join(parts, " ")
		}
		impl = read(lvLeaves) + " | " + read(lvConts)
	}
	g.out.Case("#lvalue "+specPath+" | "+op, escFinal(impl)+"\t\t"+escFinal(src), true, "lvalue-roundtrip")
}

// commentCase: the block text with comments inserted must be read as the same tokens as the text
// without them (intended tokens = what the real reader gives for the bare text), and then mean the same.
func (g *gen) commentCase(base string, withEval bool) {
	toks, ok := readTokens(g.env, base)
	if !ok {
		return
	}
	input := tokItems(toks)
	variants := []string{"// note\n" + base, "/* note */ " + base, "\n// note\n\n" + base, base + " // end\n",
		strings.Replace(base, " ", " /* c */ ", 1), "// one\n/* two */ " + base}
	if i := strings.LastIndex(base, " "); i > 0 {
		variants = append(variants, base[:i]+" // c\n"+base[i:])
	}
	for _, src := range variants {
		if g.seen["cm:"+src] {
			continue
		}
		g.seen["cm:"+src] = true
		var impl string
		got, ok := readTokens(g.env, src)
		if !ok {
			impl = "UNREADABLE-AS-INFIX-BLOCK"
		} else if gi := tokItems(got); gi != input {
			impl = "TOKENS-DIFFER read=" + gi
		} else {
			impl = implExpand(g.env, src)
		}
		line := escFinal(impl)
		if withEval && ok {
			line += "\t" + evalBlock(src) + "\t" + escFinal(src)
		} else {
			line += "\t\t" + escFinal(src)
		}
		g.out.Case(input, line, true, "comments")
	}
}

// spacingCase renders the token texts with the given gaps (gaps[i] = text between token i and
// i+1, "" or " ") and checks the reader yields the intended tokens, then compares the parse.
// The documented sign rule (a '-' glued to a following digit and preceded by a blank or an
// operator character starts a negative literal) is applied to the intended tokens.
func (g *gen) spacingCase(texts []string, gaps []string, tag string) {
	g.spacingCasePad("", texts, gaps, tag)
}

// spacingCasePad: the same with blanks (pad) between the opening brace and the first token, so that the
// block's runes fall on every position of the lexer's look-back ring (size 20, wraps).
func (g *gen) spacingCasePad(pad string, texts []string, gaps []string, tag string) {
	var sb strings.Builder
	var intended []string
	sb.WriteString(pad)
	for i, t := range texts {
		sb.WriteString(t)
		if i < len(gaps) {
			sb.WriteString(gaps[i])
		}
	}
	src := sb.String()
	if g.seen["sp:"+src] {
		return
	}
	g.seen["sp:"+src] = true
	for i := 0; i < len(texts); i++ {
		t := texts[i]
		if t == "-" && i+1 < len(texts) && gaps[i] == "" && isDigitStart(texts[i+1]) {
			before := byte(' ')
			if i > 0 && gaps[i-1] == "" {
				before = texts[i-1][len(texts[i-1])-1]
			}
			if strings.IndexByte(" \t\n\r([{,;:+-*/<>=!&|", before) >= 0 {
				intended = append(intended, g.item("-"+texts[i+1]))
				i++
				g.out.Dist["sign-rule-applied"]++
				continue
			}
		}
		intended = append(intended, g.item(t))
	}
	input := strings.Join(intended, " ")
	toks, ok := readTokens(g.env, src)
	var impl string
	if !ok {
		impl = "UNREADABLE " + src
	} else if got := tokItems(toks); got != input {
		impl = "TOKENS-DIFFER text=" + src + " read=" + got
	} else {
		impl = implExpand(g.env, src)
	}
	g.out.Case(input, escFinal(impl)+"\t\t"+escFinal(src), true, tag)
}

// lexObs: the tokens a fresh real lexer (LexNextRune rune by rune) produces for the text.
func lexObs(text string) (res string) {
	defer func() {
		if r := recover(); r != nil {
			res = "PANIC"
		}
	}()
	toks, err := zygo.VerifLex(text)
	parts := make([]string, 0, len(toks)+1)
	for _, t := range toks {
		parts = append(parts, t.Kind+":"+zygo.VerifEsc(t.Text))
	}
	if err != nil {
		parts = append(parts, "!E")
	}
	return strings.Join(parts, " ")
}

// lexCase: a whole text through the real lexer; the model (Lexer.v, with the ring) and the ring-free
// specification lexer (LexerPrev.v) lex the same runes.
func (g *gen) lexCase(text string, tag string) {
	if g.seen["lex:"+text] {
		return
	}
	g.seen["lex:"+text] = true
	var sb strings.Builder
	sb.WriteString("#lex")
	for _, r := range text {
		sb.WriteString(" " + strconv.Itoa(int(r)))
	}
	g.out.Case(sb.String(), escFinal(lexObs(text))+"\t\t"+escFinal(text), true, tag)
}

// padOf: exactly n runes that leave the lexer in normal mode with an empty buffer; kind 0 = spaces,
// 1 = blanks of every kind, 2 = words (the ring is full of letters), 3 = numbers with exponents and
// signs (the ring is full of e / - / digits: a wrong look-back slot then changes the decision)
func padOf(kind, n int) string {
	if n == 0 {
		return ""
	}
	var unit string
	switch kind {
	case 0:
		unit = " "
	case 1:
		unit = " \t\n"
	case 2:
		unit = "xe ye "
	default:
		unit = "1e-5 -e "
	}
	var sb strings.Builder
	for sb.Len() < n-1 {
		sb.WriteByte(unit[sb.Len()%len(unit)])
	}
	sb.WriteByte(' ')
	return sb.String()[sb.Len()-n:]
}

var binOps = []string{"+", "-", "*", "/", "mod", "**", "and", "or", "=", ":=", "+=", "-=", "==", "!=", ">", ">=", "<", "<=", ","}
var symOps = []string{"+", "-", "*", "/", "**", "=", ":=", "+=", "-=", "==", "!=", ">", ">=", "<", "<=", ","}

func (g *gen) opSequences(n int, operands []string, tag string, withEval bool) {
	idx := make([]int, n)
	for {
		var sb strings.Builder
		sb.WriteString(operands[0])
		for i := 0; i < n; i++ {
			sb.WriteString(" " + binOps[idx[i]] + " " + operands[(i+1)%len(operands)])
		}
		g.parseCase(sb.String(), withEval, tag)
		k := n - 1
		for k >= 0 {
			idx[k]++
			if idx[k] < len(binOps) {
				break
			}
			idx[k] = 0
			k--
		}
		if k < 0 {
			return
		}
	}
}

func main() {
	args := lib.ParseArgs()
	prefixFile := ""
	for i := 0; i < len(args.Rest); i++ {
		if args.Rest[i] == "--prefix" && i+1 < len(args.Rest) {
			prefixFile = args.Rest[i+1]
		}
	}
	out := lib.NewOut(args.Out)
	if prefixFile != "" {
		stage2(prefixFile, out, args)
		return
	}
	thorough := args.Tier == "thorough"
	rng := lib.NewRng(args.Seed)
	env := zygo.NewZlisp()
	env.StandardSetup()
	env2 := zygo.NewZlisp()
	env2.StandardSetup()
	g := &gen{env: env, env2: env2, out: out, seen: map[string]bool{}, itemMemo: map[string]string{}}

	// the operator alphabet must cover the implementation's table: any operator registered in
	// env.infixOps that the generator does not know is reported (the check turns it into a failure)
	known := map[string]bool{"not": true, "break": true, "continue": true, "for": true, "++": true, "--": true, ".": true, "if": true, "comma": true}
	for _, o := range binOps {
		known[o] = true
	}
	var unknown []string
	for name := range env.VerifInfixOps() {
		if !known[name] {
			unknown = append(unknown, name)
		}
	}
	sort.Strings(unknown)
	out.Extra["operators_unknown_to_generator"] = unknown
	out.Extra["operators_in_table"] = len(env.VerifInfixOps())

	if args.Replay != "" {
		// replay: evaluate the block text(s) given in the replay file's "text" entries
		b, _ := os.ReadFile(args.Replay)
		for _, line := range strings.Split(string(b), "\n") {
			line = strings.TrimSpace(line)
			if strings.HasPrefix(line, "\"text\":") {
				s, err := strconv.Unquote(strings.TrimSuffix(strings.TrimSpace(strings.TrimPrefix(line, "\"text\":")), ","))
				if err == nil {
					g.parseCase(s, true, "replay")
				}
			}
		}
	}

	// A. exhaustive operator/operand alternations over every binary operator
	abcd := []string{"a", "b", "c", "d", "e"}
	g.opSequences(1, abcd, "alt1", true)
	g.opSequences(2, abcd, "alt2", true)
	g.opSequences(3, abcd, "alt3", false)
	if thorough {
		g.opSequences(4, abcd, "alt4", false)
	} else {
		for i := 0; i < 1200; i++ {
			n := 4 + rng.Intn(4)
			var sb strings.Builder
			sb.WriteString("a")
			for j := 0; j < n; j++ {
				sb.WriteString(" " + binOps[rng.Intn(len(binOps))] + " " + abcd[(j+1)%5])
			}
			g.parseCase(sb.String(), false, "alt-long-random")
		}
	}
	if thorough {
		for i := 0; i < 100000; i++ {
			n := 5 + rng.Intn(8)
			var sb strings.Builder
			sb.WriteString("a")
			for j := 0; j < n; j++ {
				sb.WriteString(" " + binOps[rng.Intn(len(binOps))] + " " + abcd[(j+1)%5])
			}
			g.parseCase(sb.String(), false, "alt-long-random")
		}
	}

	// B. units: prefix not, indexing, slicing, dotted paths, calls, nested blocks, literals
	units := []string{"a", "not a", "not not b", "v[1]", "v[a]", "v[a + 1]", "v[1:3]", "v[a:a + b]", "v[:2]", "v[2:]", "h.k", "h.j.m[1]",
		"not v[0]", "(t 4)", "{b + c}", "{a * {b + c}}", "5", "-1", "2.5", "\"s\"", "[1 2]", "true", "nil", "not (tt 1)", "h.j.m[a - 1:a + 1]", "v[(t 1)]"}
	k := 0
	for _, u1 := range units {
		g.parseCase(u1, true, "unit")
		for _, o1 := range binOps {
			for _, u2 := range units {
				k++
				if !thorough && k%4 != 0 {
					continue
				}
				g.parseCase(u1+" "+o1+" "+u2, thorough || k%20 == 0, "unit-op-unit")
			}
		}
	}
	nU := 1000
	if thorough {
		nU = 60000
	}
	for i := 0; i < nU; i++ {
		n := 2 + rng.Intn(3)
		var sb strings.Builder
		sb.WriteString(units[rng.Intn(len(units))])
		for j := 0; j < n; j++ {
			sb.WriteString(" " + binOps[rng.Intn(len(binOps))] + " " + units[rng.Intn(len(units))])
		}
		g.parseCase(sb.String(), i%8 == 0, "units-random")
	}

	// C. statements: semicolons, newlines, juxtaposition
	stm := []string{"a", "x = a + b", "y = x * 2", "not a", "(t 1)", "v[1]", "x += 1", "{y = 3}", "-1", "h.k", "b ** 2", "x = y = 4", "[1 2]", "a , b", "nil", "'c'"}
	seps := []string{" ; ", "\n", " ", ";", " ;\n", " ; ; "}
	for _, s1 := range stm {
		for _, s2 := range stm {
			for si, sep := range seps {
				g.parseCase(s1+sep+s2, thorough || si < 2, "stmts2")
			}
		}
	}
	nS := 1200
	if thorough {
		nS = 40000
	}
	for i := 0; i < nS; i++ {
		n := 3 + rng.Intn(3)
		var sb strings.Builder
		for j := 0; j < n; j++ {
			if j > 0 {
				sb.WriteString(seps[rng.Intn(len(seps))])
			}
			sb.WriteString(stm[rng.Intn(len(stm))])
		}
		if rng.Intn(4) == 0 {
			sb.WriteString(" ;")
		}
		g.parseCase(sb.String(), i%6 == 0, "stmts-random")
	}

	// D. arbitrary token sequences (also malformed), exhaustive for short lengths
	alpha := []string{"a", "1", "+", "-", "*", "**", "=", "and", "not", "++", ",", ";", "[1]", ".b", "(f)", "if", "else", "{b}", "<", "mod", ":", "b:", "nil", "'c'"}
	maxLen := 3
	if thorough {
		maxLen = 4
	}
	for n := 1; n <= maxLen; n++ {
		idx := make([]int, n)
		for {
			parts := make([]string, n)
			for i := range idx {
				parts[i] = alpha[idx[i]]
			}
			g.parseCase(strings.Join(parts, " "), false, fmt.Sprintf("tokens%d", n))
			k := n - 1
			for k >= 0 {
				idx[k]++
				if idx[k] < len(alpha) {
					break
				}
				idx[k] = 0
				k--
			}
			if k < 0 {
				break
			}
		}
	}
	nT := 2000
	if thorough {
		nT = 300000
	}
	for i := 0; i < nT; i++ {
		n := 4 + rng.Intn(5)
		parts := make([]string, n)
		for j := range parts {
			parts[j] = alpha[rng.Intn(len(alpha))]
		}
		g.parseCase(strings.Join(parts, " "), false, "tokens-random")
	}

	// E. if / else, go-style for (model: if only; for is compared by evaluation of the block
	// against the evaluation of the implementation-independent prefix form in the check)
	ifs := []string{"if a < b x = 1 else x = 2", "if a > b { x = 1 } else { x = 2 }", "x = if a < b c else d", "if a == 2 (t 1)", "if a b else if c d else e",
		"y = 1 + if a < b 10 else 20", "if not a b else c", "if a and b or c x = 1", "if a { x = 5 }; y = 6", "if a < b x = 1 \n y = 2"}
	for _, s := range ifs {
		g.parseCase(s, true, "if")
	}
	fors := []string{"for i := 0; i < 3; i++ { x = x + i }", "for x < 5 { x++ }", "for i = 0; i < 4; i++ { if i == 2 { break }; y += i }",
		"for { x++; if x > 3 { break } }", "for k := range v { x += k }", "for k, e := range v { y += e }", "outer: for i := 0; i < 3; i++ { for j := 0; j < 3; j++ { if j == 1 { continue outer }; x++ } }",
		"for i := 0; i < 2 + 1; i++ { y = y + i * 2 }"}
	for _, s := range fors {
		g.parseCase(s, true, "for")
	}

	// E2. go-style for headers, well-formed and malformed: every header of up to 3 (thorough 4)
	// tokens over a small alphabet, with a body block, plus a few without body / with a label
	falpha := []string{"i", ":=", "=", "range", "v", ",", "k", ";", "<", "3", "++"}
	fmax := 3
	if thorough {
		fmax = 4
	}
	for n := 0; n <= fmax; n++ {
		idx := make([]int, n)
		for {
			parts := make([]string, n)
			for i := range idx {
				parts[i] = falpha[idx[i]]
			}
			h := strings.Join(parts, " ")
			g.parseCase("for "+h+" { x++ }", false, "for-headers")
			if n <= 2 {
				g.parseCase("for "+h, false, "for-headers-nobody")
				g.parseCase("top: for "+h+" { x++ }", false, "for-headers-label")
				g.parseCase("y = 1; for "+h+" { } ; y", false, "for-headers-stmts")
			}
			k := n - 1
			for k >= 0 {
				idx[k]++
				if idx[k] < len(falpha) {
					break
				}
				idx[k] = 0
				k--
			}
			if k < 0 {
				break
			}
		}
	}

	// E3. range headers: = versus := with one and two targets, the targets read after the loop
	for _, src := range []string{
		"a = 100; for a = range v { y += a }; a", "a = 100; for a := range v { y += a }; a",
		"for a = range v { y += a }; y", "for a := range v { y += a }",
		"a = 100; b = 200; for a, b = range v { y += b }; a + b", "a = 100; b = 200; for a, b := range v { y += b }; a + b",
		"for a, b = range v { y += b }; y", "for a, b := range v { x += a; y += b }; x + y",
		"for a = range h { x++ }; x", "for a, b = range h.j.m { y += b }; b",
		"top: for a = range v { if a == 2 { break top }; y += a }; a",
		"for a = range v { }", "for a, b = range v { }; b", "for a := range v { }",
	} {
		g.parseCase(src, true, "for-range-def-set")
	}

	// E3b. comments inside a block (after the brace, between tokens, before the closing brace) do not
	// change how the block is read: labelled and plain for loops, if forms, statement lists, units
	var cbases []string
	cbases = append(cbases, fors...)
	cbases = append(cbases, ifs...)
	cbases = append(cbases, "top: for a = range v { if a == 2 { break top }; y += a }; a", "top: for i := 0; i < 3; i++ { x++ }",
		"a: 1", "x = 1; y = 2", "a + b * c", "not a", "v[1]", "h.k", "x++", "nil", "x = 5; nil", "(t 1); (t 2)", "{a + b}", "-1", "[1 2]", "\"s\"")
	for i, b := range cbases {
		g.commentCase(b, i%2 == 0)
	}

	// E3c. blocks inside other code: not in tail position of a recursive function (self call as the
	// last statement), in tail position, as the body of a loop, as the argument of a call that runs
	// several times, in a let
	for _, src := range []string{"if n > 0 { (w (- n 1)) }", "if n > 0 (w (- n 1))", "x = x + n; if n > 0 { (w (- n 1)) } else { 0 }",
		"if n > 1 { (w (- n 1)) } else if n > 0 { (w (- n 1)) }", "y += n; if n > 0 (w (- n 1)) else 0", "(w0 n)", "x += n", "n > 0 and (w1 n)",
		"if n == 0 0 else n + (w (- n 1))", "x = n * 2; x"} {
		g.ctxCase("fn-nontail", src)
		g.ctxCase("fn-tail", src)
	}
	for _, src := range []string{"x += v[i:][0]", "y = y + i * 2", "x = x + v[i]", "x += v[:i + 1][i]", "if i > 0 x += i else y += 1", "x++; y = x * i", "y += v[i:i + 2][1]"} {
		g.ctxCase("loop", src)
	}
	for _, src := range []string{"v[lo:hi][0]", "v[lo:][1]", "v[:hi]", "lo + hi * 2", "v[lo]", "v[lo: hi]", "v[lo :hi][1]", "v[lo:lo + 1]", "x = lo; v[x:hi][0]", "h.j.m[lo:][0]"} {
		g.ctxCase("arg-twice", src)
	}
	for _, src := range []string{"x = q + 1; x * 2", "v[q:][0]", "if q > 0 x = 1 else x = 2", "y += q"} {
		g.ctxCase("let", src)
	}

	// E3d. what a slice selects (Go slicing: 0 <= lo <= hi <= len, defaults 0 and len) and what an
	// index selects: every bound in -1..7 on the 6-element array v, literal, by variable, computed
	bvals := []int{-1, 0, 1, 2, 3, 5, 6, 7}
	bform := func(k int, style int) (string, string) { // (setup statement, bound text)
		switch style {
		case 1:
			return fmt.Sprintf("x = %d; ", k), "x"
		case 2:
			return "", fmt.Sprintf("a - 2 + %d", k) // a is 2
		}
		return "", strconv.Itoa(k)
	}
	for style := 0; style < 3; style++ {
		for _, lo := range bvals {
			sl, tl := bform(lo, style)
			g.sliceCase(sl+"v["+tl+"]", fmt.Sprintf("%d", lo))
			g.sliceCase(sl+"v["+tl+":]", fmt.Sprintf("%d :", lo))
			g.sliceCase(sl+"v[:"+tl+"]", fmt.Sprintf(": %d", lo))
			for _, hi := range bvals {
				if style == 1 {
					g.sliceCase(fmt.Sprintf("x = %d; y = %d; v[x:y]", lo, hi), fmt.Sprintf("%d : %d", lo, hi))
				} else {
					_, th := bform(hi, style)
					g.sliceCase("v["+tl+":"+th+"]", fmt.Sprintf("%d : %d", lo, hi))
				}
			}
		}
	}
	g.sliceCase("v[:]", ":")

	// E3e. assignments through index / field paths (one, two, three components; glued and spaced;
	// on an indexed value and on a dotted symbol), every assignment operator, all data read back
	type lv struct {
		text, path string
		selector  bool // the target is a selector (index / field applied to a value), not a bare dotted symbol
	}
	var lvs []lv
	for i := 0; i < 2; i++ {
		is := strconv.Itoa(i)
		for _, f := range [][2]string{{".b.c", "fb fc"}, {".b.d", "fb fd"}, {".e", "fe"}} {
			lvs = append(lvs, lv{"r[" + is + "]" + f[0], "fr i" + is + " " + f[1], true})
			lvs = append(lvs, lv{"r[" + is + "] " + strings.ReplaceAll(f[0], ".", " .")[1:], "fr i" + is + " " + f[1], true})
		}
	}
	lvs = append(lvs, lv{"g.p.q.s", "fg fp fq fs", false}, lv{"g.p .q.s", "fg fp fq fs", true}, lv{"g.p.q .s", "fg fp fq fs", true},
		lv{"g .p.q.t", "fg fp fq ft", true}, lv{"g.p.u", "fg fp fu", false}, lv{"g.p .u", "fg fp fu", true}, lv{"g .p.u", "fg fp fu", true},
		lv{"g.w[1]", "fg fw i1", true}, lv{"g.w[0]", "fg fw i0", true}, lv{"g .w[1]", "fg fw i1", true})
	for _, t := range lvs {
		g.lvalueCase(t.text, t.path, "set 5", " = 5")
		g.lvalueCase(t.text, t.path, "set 5", " := 5")
		if t.selector {
			// (on a bare dotted symbol += -= ++ -- fail in the prefix form too: reported, not generated)
			g.lvalueCase(t.text, t.path, "add 2", " += 2")
			g.lvalueCase(t.text, t.path, "sub 3", " -= 3")
			g.lvalueCase(t.text, t.path, "inc", "++")
			g.lvalueCase(t.text, t.path, "dec", "--")
			g.lvalueCase(t.text, t.path, "set 9", " = a + d")
		}
	}

	// E4. index contents of every token length 0..3 (thorough 4) over a small alphabet: v[ ... ]
	salpha := []string{"a", "1", "+", "++", "--", "not", "b", "[0]", "-", ":", "x", "a:"}
	smax := 3
	if thorough {
		smax = 4
	}
	for n := 0; n <= smax; n++ {
		idx := make([]int, n)
		for {
			parts := make([]string, n)
			for i := range idx {
				parts[i] = salpha[idx[i]]
			}
			c := strings.Join(parts, " ")
			g.parseCase("v["+c+"]", n <= 2, fmt.Sprintf("index-content%d", n))
			if n == 2 {
				g.parseCase("y = v["+c+"] ; x", true, "index-content-assign")
			}
			k := n - 1
			for k >= 0 {
				idx[k]++
				if idx[k] < len(salpha) {
					break
				}
				idx[k] = 0
				k--
			}
			if k < 0 {
				break
			}
		}
	}
	if !thorough {
		for i := 0; i < 800; i++ {
			parts := make([]string, 4)
			for j := range parts {
				parts[j] = salpha[rng.Intn(len(salpha))]
			}
			g.parseCase("v["+strings.Join(parts, " ")+"]", false, "index-content4-random")
		}
	}

	// F. spacing around operators, with the lexer's sign rule
	operands := []string{"a", "b", "1", "2", "c", "0xfe", "xe", "0x1E", "2.5"}
	gapsets := [][2]string{{" ", " "}, {"", ""}, {" ", ""}, {"", " "}}
	for _, o1 := range symOps {
		for _, gp := range gapsets {
			for _, r := range []string{"b", "1"} {
				g.spacingCase([]string{"a", o1, r}, []string{gp[0], gp[1]}, "spacing1")
				g.spacingCase([]string{"3", o1, r}, []string{gp[0], gp[1]}, "spacing1")
				// operands that END in e / E: the exponent look-back of the lexer must not take a
				// following sign for part of a number unless the text before the e is a mantissa
				for _, l := range []string{"0xfe", "0x1E", "0xe", "xe", "e", "2.5", "1e5", "0b1"} {
					g.spacingCase([]string{l, o1, r}, []string{gp[0], gp[1]}, "spacing1-e")
				}
			}
		}
		for _, o2 := range symOps {
			for _, gp := range gapsets {
				for gi2, gp2 := range gapsets {
					if !thorough && (gi2 == 2) != (gp[0] == "") {
						continue
					}
					g.spacingCase([]string{"a", o1, "b", o2, "1"}, []string{gp[0], gp[1], gp2[0], gp2[1]}, "spacing2")
					g.spacingCase([]string{"2", o1, "1", o2, "c"}, []string{gp[0], gp[1], gp2[0], gp2[1]}, "spacing2")
				}
			}
		}
	}
	nP := 1000
	if thorough {
		nP = 50000
	}
	for i := 0; i < nP; i++ {
		n := 3 + rng.Intn(3)
		texts := []string{operands[rng.Intn(len(operands))]}
		var gaps []string
		for j := 0; j < n; j++ {
			gp := gapsets[rng.Intn(len(gapsets))]
			texts = append(texts, symOps[rng.Intn(len(symOps))], operands[rng.Intn(len(operands))])
			gaps = append(gaps, gp[0], gp[1])
		}
		g.spacingCase(texts, gaps, "spacing-random")
	}

	// H. postfix chains (index, slice, field access after an index / a call / a field) in NESTED positions:
	// the postfix operators read the token they belong to from the Pratt parser's CnodeStack, whose top
	// must be the innermost Expression's current token at every nesting depth
	chainsEval := []string{"pts[1].x", "pts[0] .y", "pts[a - 1].y", "(t h).k", "(t h) .j.m[1]", "h.j .m[0]", "h.j.m[1]", "(t pts)[1].x",
		"pts[1:2][0].x", "v[1:4][1]", "(t v)[2]", "pts[0].ok", "h .j .m[2]", "pts[pts[1].x].y", "v[pts[1] .x]"}
	chainsParse := []string{"a[b][c].f", "a[b].f.g[2] .q", "(g).f", "(g x)[1] .f[2]", "a .b .c", "a[1][2][3]", "a[b:c].f[d:]"}
	ctxs := []string{"%s", "x = %s", "y = x = %s", "not %s", "not not %s", "a , %s", "%s , a", "if 2 < %s { 7 } else { 8 }", "if %s { 7 }",
		"if a < b { %s } else { 0 }", "v[%s]", "v[%s:]", "v[1:%s]", "a; %s", "a\n%s", "x = 1\n%s", "{1 + %s}", "1 + {%s}", "(t {2 * %s})",
		"for i := 0; i < %s; i++ { x += 1 }", "for i := %s; i < 3; i++ { x += i }", "1 + 2 * %s", "1 * 2 + %s", "b ** a ** %s", "x = 1 + not %s"}
	for _, o := range binOps {
		ctxs = append(ctxs, "1 "+o+" %s", "%s "+o+" 1", "a "+o+" b "+o+" %s")
	}
	for ci, cx := range ctxs {
		for pi, pch := range chainsEval {
			txt := strings.Replace(cx, "%s", pch, 1)
			g.parseCase(txt, thorough || !strings.Contains(cx, ":=") && (ci+pi)%3 == 0 || ci < 12, "postfix-chain-nested")
		}
		for _, pch := range chainsParse {
			g.parseCase(strings.Replace(cx, "%s", pch, 1), false, "postfix-chain-nested")
		}
	}
	for _, p1 := range chainsEval {
		for pi, p2 := range chainsEval {
			g.parseCase(p1+" * "+p2, pi%4 == 0, "postfix-chain-pair")
			g.parseCase(p1+" = "+p2, false, "postfix-chain-pair")
		}
	}

	// G. the lexer's look-back ring (priorRune [20]rune): the sign / exponent decisions at EVERY position
	// of the ring, including the wrap-around, with rings full of blanks, letters, e's and signs
	prevs := []string{" ", "\t", "\n", "(", "[", "{", ",", ";", ":", "+", "-", "*", "/", "<", ">", "=", "!", "&", "|", "^", "~", "@", "%",
		"a", "1", ")", "]", "}", "e", "E", "_", "\"s\"", "é"}
	nexts := []string{"1", ".5", "a", "="}
	if thorough {
		nexts = append(nexts, "-", ">", "0x1", " 1")
	}
	var lexBodies []string
	for _, pv := range prevs {
		for _, nx := range nexts {
			lexBodies = append(lexBodies, "x"+pv+"-"+nx+" ")
		}
	}
	for _, m := range []string{"1", "2.5", "0x1", "x", "", "1_0", "-3"} {
		for _, e := range []string{"e", "E"} {
			for _, sg := range []string{"+", "-"} {
				lexBodies = append(lexBodies, m+e+sg+"5 ")
			}
		}
	}
	maxPad := 44
	if thorough {
		maxPad = 104
	}
	for kind := 0; kind < 4; kind++ {
		for n := 0; n <= maxPad; n++ {
			if !thorough && kind > 0 && !(n%20 >= 14 || n%20 <= 5) {
				continue // quick tier: the other pad kinds only around the wrap-around
			}
			pad := padOf(kind, n)
			for _, b := range lexBodies {
				g.lexCase(pad+b, "lex-ring-offset")
			}
			g.out.Dist[fmt.Sprintf("lex-ring-residue-%02d", n%20)]++
		}
	}
	// the same at the level of whole blocks (reader + Pratt parser): blanks after the brace
	for n := 0; n <= maxPad; n++ {
		pad := padOf(n%2, n)
		for _, o1 := range []string{"-", "+", "*", "==", "=", ","} {
			for _, gp := range gapsets {
				g.spacingCasePad(pad, []string{"a", o1, "1"}, []string{gp[0], gp[1]}, "spacing-ring-offset")
				if gp[1] == "" && (o1 == "-" || o1 == "+" || o1 == "=" || o1 == "*") {
					continue // a--1, a+-1 ... would be the two-rune operators -- += -= etc. or are not documented
				}
				g.spacingCasePad(pad, []string{"a", o1, "-", "1"}, []string{gp[0], gp[1], ""}, "spacing-ring-offset")
			}
		}
		g.spacingCasePad(pad, []string{"3", "+", "b", "-", "4"}, []string{" ", " ", "", ""}, "spacing-ring-offset")
		g.spacingCasePad(pad, []string{"1e5", "-", "1"}, []string{"", ""}, "spacing-ring-offset")
		g.spacingCasePad(pad, []string{"0xfe", "-", "1"}, []string{"", ""}, "spacing-ring-offset")
	}

	out.Rule = "one case per distinct block text: token list read by the real reader (or intended tokens for the spacing family) -> statement list of the real Pratt parser"
	out.Extra["unreadable_texts"] = g.unread
	out.Close(args.Stats)
}

func stage2(path string, out *lib.Out, args lib.Args) {
	f, err := os.Open(path)
	if err != nil {
		panic(err)
	}
	defer f.Close()
	w := bufio.NewWriter(os.Stdout)
	defer w.Flush()
	sc := bufio.NewScanner(f)
	sc.Buffer(make([]byte, 1<<20), 1<<24)
	unesc := strings.NewReplacer("\\\\", "\\", "\\t", "\t", "\\n", "\n")
	for sc.Scan() {
		parts := strings.SplitN(sc.Text(), "\t", 3)
		if len(parts) != 3 {
			continue
		}
		forms := strings.Split(unesc.Replace(parts[2]), " ;; ")
		if parts[1] == "" {
			out.Case(parts[0], evalForms(forms), false, "prefix-eval")
		} else {
			out.Case(parts[0], evalSource(wrapCtx(parts[1], strings.Join(forms, " "), oneExpr(forms)), true), false, "prefix-eval-ctx")
		}
	}
	out.Rule = "stage 2: evaluation of the specification's prefix forms"
	out.Close(args.Stats)
}
