// c07: numbers compare and compute exactly. Generates the boundary grid (exhaustive
// over ordered pairs x operators x type combinations) plus random 64-bit patterns,
// evaluates each through the real interpreter, prints canonical observables.
package main

import (
	"fmt"
	"math"
	"strings"

	"github.com/glycerine/zygomys/v9/zygo"
	"verif/harness/lib"
)

type val struct {
	kind byte // I U C F
	i    int64
	u    uint64
	f    float64
}

func (v val) key() string {
	switch v.kind {
	case 'I':
		return fmt.Sprintf("I%d", v.i)
	case 'U':
		return fmt.Sprintf("U%d", v.u)
	case 'C':
		return fmt.Sprintf("C%d", v.i)
	}
	return fmt.Sprintf("F%d", math.Float64bits(v.f))
}

func (v val) sexp() zygo.Sexp {
	switch v.kind {
	case 'I':
		return &zygo.SexpInt{Val: v.i}
	case 'U':
		return &zygo.SexpUint64{Val: v.u}
	case 'C':
		return &zygo.SexpChar{Val: rune(v.i)}
	}
	return &zygo.SexpFloat{Val: v.f}
}

func render(r lib.Result) string {
	switch r.Class {
	case lib.OutValue:
		switch x := r.Val.(type) {
		case *zygo.SexpBool:
			if x.Val {
				return "Btrue"
			}
			return "Bfalse"
		case *zygo.SexpInt:
			return fmt.Sprintf("I%d", x.Val)
		case *zygo.SexpUint64:
			return fmt.Sprintf("U%d", x.Val)
		case *zygo.SexpChar:
			return fmt.Sprintf("C%d", int64(x.Val))
		case *zygo.SexpFloat:
			if math.IsNaN(x.Val) {
				return "Fnan"
			}
			return fmt.Sprintf("F%d", math.Float64bits(x.Val))
		}
		return "OTHER:" + r.Val.SexpString(nil)
	case lib.OutError:
		return "ERR"
	case lib.OutPanic:
		return "PANIC"
	}
	return strings.ToUpper(r.Class)
}

// scribble overwrites a numeric result object in place; false when the value is not a number
func scribble(v zygo.Sexp) bool {
	switch x := v.(type) {
	case *zygo.SexpInt:
		x.Val = x.Val ^ 0x5a5a5a5a
	case *zygo.SexpUint64:
		x.Val = x.Val ^ 0x5a5a5a5a
	case *zygo.SexpChar:
		x.Val = x.Val ^ 0x5a5a
	case *zygo.SexpFloat:
		x.Val = x.Val*3 + 41.5
	default:
		return false
	}
	return true
}

var cmpOps = [][2]string{{"lt", "<"}, {"gt", ">"}, {"le", "<="}, {"ge", ">="}, {"eq", "=="}, {"ne", "!="}}
var arOps = [][2]string{{"add", "+"}, {"sub", "-"}, {"mul", "*"}, {"div", "/"}}

// integer-only builtins (numerictower.go IntegerDo): shifts and bit operations
var intOps = [][2]string{{"sll", "sll"}, {"sra", "sra"}, {"srl", "srl"}, {"band", "bitAnd"}, {"bor", "bitOr"}, {"bxor", "bitXor"}}

// shift counts and bit masks around the word size, in every integer kind (added to the grid for the integer-only builtins)
func counts() []val {
	var vs []val
	for _, i := range []int64{31, 32, 33, 62, 63, 64, 65, 127, 128, -63, -64, -65, 0x5555555555555555, -0x5555555555555556} {
		vs = append(vs, val{kind: 'I', i: i})
	}
	for _, u := range []uint64{31, 32, 62, 63, 64, 65, 128, 0xAAAAAAAAAAAAAAAA} {
		vs = append(vs, val{kind: 'U', u: u})
	}
	for _, c := range []int64{31, 63, 64, 65, -64} {
		vs = append(vs, val{kind: 'C', i: c})
	}
	return vs
}

// related derives a second operand from x that lies next to x across the int/float boundary:
// the float64 nearest to an integer and its two neighbours, or the integers around a float
func related(r *lib.Rng, x val) val {
	switch x.kind {
	case 'I', 'C', 'U':
		var f float64
		if x.kind == 'U' {
			f = float64(x.u)
		} else {
			f = float64(x.i)
		}
		switch r.Intn(3) {
		case 0:
			f = math.Nextafter(f, math.Inf(1))
		case 1:
			f = math.Nextafter(f, math.Inf(-1))
		}
		return val{kind: 'F', f: f}
	}
	f := x.f
	if f >= -9.2e18 && f <= 9.2e18 {
		return val{kind: 'I', i: int64(f) + int64(r.Intn(3)) - 1}
	}
	if f > 0 && f < 1.8e19 {
		return val{kind: 'U', u: uint64(f) + uint64(r.Intn(3)) - 1}
	}
	return val{kind: 'I', i: int64(r.U64())}
}

func grid() []val {
	var vs []val
	for _, i := range []int64{math.MinInt64, math.MinInt64 + 1, -(1 << 53) - 1, -(1 << 53), -(1 << 53) + 1, -(1 << 31), -2, -1, 0, 1, 2, 3, 97,
		1 << 31, (1 << 53) - 1, 1 << 53, (1 << 53) + 1, (1 << 53) + 2, (1 << 53) + 3, 1 << 62, math.MaxInt64 - 1024, math.MaxInt64 - 1023, math.MaxInt64 - 512, math.MaxInt64 - 511, math.MaxInt64 - 1, math.MaxInt64,
		math.MinInt64 + 512, math.MinInt64 + 513, math.MinInt64 + 1025} {
		vs = append(vs, val{kind: 'I', i: i})
	}
	for _, u := range []uint64{0, 1, 2, 3, 97, (1 << 53) - 1, 1 << 53, (1 << 53) + 1, (1 << 63) - 1, 1 << 63, (1 << 63) + 1, math.MaxUint64 - 2048, math.MaxUint64 - 1024, math.MaxUint64 - 1023, math.MaxUint64 - 1, math.MaxUint64} {
		vs = append(vs, val{kind: 'U', u: u})
	}
	for _, c := range []int64{0, 1, 2, 97, 0x10FFFF, math.MaxInt32, math.MinInt32, -1} {
		vs = append(vs, val{kind: 'C', i: c})
	}
	for _, f := range []float64{0, math.Copysign(0, -1), 1, -1, 2, 3, 0.5, 1.5, -1.5, 97, math.Inf(1), math.Inf(-1), math.NaN(),
		math.SmallestNonzeroFloat64, -math.SmallestNonzeroFloat64, math.Float64frombits(0x000FFFFFFFFFFFFF), math.Float64frombits(0x0010000000000000),
		math.MaxFloat64, -math.MaxFloat64, 1 << 53, (1 << 53) + 2, -(1 << 53), 9007199254740993, 1 << 63, -(1 << 63), 18446744073709551616.0,
		math.Nextafter(1<<63, 0), math.Nextafter(1<<63, math.Inf(1)), math.Nextafter(-(1<<63), 0), math.Nextafter(-(1<<63), math.Inf(-1)), math.Nextafter(18446744073709551616.0, 0), 9007199254740994, 1e308, 2147483648, 1114111} {
		vs = append(vs, val{kind: 'F', f: f})
	}
	return vs
}

func randVal(r *lib.Rng) val {
	bits := r.U64()
	// bias towards the interesting neighbourhoods
	switch r.Intn(6) {
	case 0:
		bits = bits >> uint(r.Intn(64))
	case 1:
		bits = uint64(int64(bits) >> uint(r.Intn(64)))
	case 2:
		bits = (1 << uint(r.Intn(64))) + uint64(r.Intn(5)) - 2
	}
	switch r.Intn(4) {
	case 0:
		return val{kind: 'I', i: int64(bits)}
	case 1:
		return val{kind: 'U', u: bits}
	case 2:
		return val{kind: 'C', i: int64(int32(bits))}
	}
	if r.Intn(3) == 0 {
		// a float that is an exact or nearly exact integer
		return val{kind: 'F', f: float64(int64(bits))}
	}
	return val{kind: 'F', f: math.Float64frombits(bits)}
}

func main() {
	a := lib.ParseArgs()
	out := lib.NewOut(a.Out)
	out.Rule = "boundary grid: all ordered pairs x 6 comparison + 4 arithmetic operators + mod (exhaustive); the grid plus shift counts/masks around the word size x 6 integer-only builtins (sll sra srl bitAnd bitOr bitXor) and bitNot (exhaustive); then random 64-bit patterns biased to powers of two and small magnitudes, 1 in 5 pairs being neighbours across the int/float boundary (float64(i) and its adjacent floats, int64(f)+-1); a case is non-trivial when the two operands differ or are of different kinds; distinct = distinct (op,a,b) inputs"
	env := zygo.NewZlisp()
	env.StandardSetup()
	overwritten := 0
	run := func(kind, opname, opsym string, x, y val) {
		env.AddGlobal("a", x.sexp())
		env.AddGlobal("b", y.sexp())
		r := lib.Eval(env, "("+opsym+" a b)", 100000)
		input := kind + " " + opname + " " + x.key() + " " + y.key()
		obs := render(r)
		if kind != "cmp" && r.Class == lib.OutValue {
			// a result is a value of its own: overwriting the returned object in place (what
			// (derefSet (& r) v) does at script level) must change neither the operands nor
			// what the same operation returns next time (no shared / cached result objects)
			ra0, rb0 := render(lib.Eval(env, "a", 1000)), render(lib.Eval(env, "b", 1000))
			if scribble(r.Val) {
				r2 := render(lib.Eval(env, "("+opsym+" a b)", 100000))
				ra1, rb1 := render(lib.Eval(env, "a", 1000)), render(lib.Eval(env, "b", 1000))
				if r2 != obs || ra1 != ra0 || rb1 != rb0 {
					obs += ";RESULT-OBJECT-SHARED:again=" + r2 + ",a=" + ra1 + ",b=" + rb1
				}
				overwritten++
			}
		}
		out.Case(input, obs, x.key() != y.key(), kind+":"+opname, "types:"+string(x.kind)+string(y.kind))
		if x.key() == y.key() {
			// the very same object on both sides (one variable mentioned twice): an identity
			// shortcut must not bypass the NaN rules or the arithmetic
			r2 := lib.Eval(env, "("+opsym+" a a)", 100000)
			out.Case(input, render(r2), false, kind+":"+opname, "same-object")
		}
	}
	// (bitNot a): functions.go ComplementFunction; the operand is read back afterwards
	runNot := func(x val) {
		env.AddGlobal("a", x.sexp())
		r := lib.Eval(env, "(bitNot a)", 100000)
		obs := render(r)
		if back := render(lib.Eval(env, "a", 1000)); back != x.key() && !(x.kind == 'F' && math.IsNaN(x.f) && back == "Fnan") {
			obs += ";OPERAND-CHANGED:a=" + back
		}
		out.Case("bnot bnot "+x.key(), obs, true, "bnot:bnot", "types:"+string(x.kind))
	}
	// n-ary folds: (op a b c) and (op a b c d); the operands are read back afterwards and must be unchanged
	runFold := func(opname, opsym string, vs []val) {
		names := []string{"a", "b", "c", "d", "e", "f"}
		src := "(" + opsym
		input := "fold " + opname
		for i, v := range vs {
			env.AddGlobal(names[i], v.sexp())
			src += " " + names[i]
			input += " " + v.key()
		}
		src += ")"
		r := lib.Eval(env, src, 100000)
		obs := render(r)
		for i := range vs {
			obs += ";" + render(lib.Eval(env, names[i], 1000))
		}
		out.Case(input, obs, true, "fold:"+opname, fmt.Sprintf("fold-arity:%d", len(vs)))
	}
	g := grid()
	if a.Replay == "" {
		// exhaustive triples over a small value set (zeros, ones, limits, floats) for every operator,
		// plus random triples/quadruples
		small := []val{{kind: 'I', i: 0}, {kind: 'I', i: 1}, {kind: 'I', i: -1}, {kind: 'I', i: 10}, {kind: 'I', i: math.MaxInt64}, {kind: 'I', i: math.MinInt64},
			{kind: 'U', u: 0}, {kind: 'U', u: 7}, {kind: 'U', u: math.MaxUint64}, {kind: 'C', i: 0}, {kind: 'C', i: 97},
			{kind: 'F', f: 0}, {kind: 'F', f: math.Copysign(0, -1)}, {kind: 'F', f: 2.5}, {kind: 'F', f: math.NaN()}, {kind: 'F', f: math.Inf(1)}}
		for _, op := range arOps {
			for _, x := range small {
				for _, y := range small {
					for _, z := range small {
						runFold(op[0], op[1], []val{x, y, z})
					}
				}
			}
		}
		frng := lib.NewRng(a.Seed ^ 0x5eed)
		nf := 3000
		if a.Tier == "thorough" {
			nf = 200000
		}
		for k := 0; k < nf; k++ {
			op := arOps[frng.Intn(len(arOps))]
			n := 3 + frng.Intn(2)
			same := byte(0)
			if frng.Intn(4) == 0 {
				// one kind throughout (int64 or uint64), 1..6 operands: the exact-fold oracle applies
				n = 1 + frng.Intn(6)
				same = "IU"[frng.Intn(2)]
			}
			vs := make([]val, n)
			for i := range vs {
				if same != 0 {
					v := randVal(frng)
					if same == 'I' {
						vs[i] = val{kind: 'I', i: int64(math.Float64bits(v.f)) ^ v.i ^ int64(v.u)}
					} else {
						vs[i] = val{kind: 'U', u: math.Float64bits(v.f) ^ uint64(v.i) ^ v.u}
					}
				} else if frng.Intn(3) == 0 {
					vs[i] = small[frng.Intn(len(small))]
				} else {
					vs[i] = randVal(frng)
				}
			}
			runFold(op[0], op[1], vs)
		}
		for _, x := range g {
			for _, y := range g {
				for _, op := range cmpOps {
					run("cmp", op[0], op[1], x, y)
				}
				for _, op := range arOps {
					run("ar", op[0], op[1], x, y)
				}
				run("mod", "mod", "mod", x, y)
			}
		}
		// integer-only builtins: every grid value against the grid plus shift counts / masks around the word size
		g2 := append(append([]val{}, g...), counts()...)
		for _, x := range g2 {
			runNot(x)
			for _, y := range g2 {
				for _, op := range intOps {
					run("int", op[0], op[1], x, y)
				}
			}
		}
		out.Extra["int_grid_values"] = len(g2)
		out.Extra["results_overwritten_in_place_then_recomputed"] = overwritten
		out.Extra["grid_values"] = len(g)
		out.Extra["grid_exhaustive"] = true
		n := 20000
		if a.Tier == "thorough" {
			n = 2000000
		}
		rng := lib.NewRng(a.Seed)
		for k := 0; k < n; k++ {
			x, y := randVal(rng), randVal(rng)
			if rng.Intn(8) == 0 {
				y = x
			} else if rng.Intn(5) == 0 {
				y = related(rng, x) // neighbours across the int/float boundary, every magnitude
				if rng.Intn(2) == 0 {
					x, y = y, x
				}
			}
			if rng.Intn(6) == 0 {
				// integer-only builtins; half of the time with a count near the word size
				if rng.Intn(2) == 0 {
					c := int64(rng.Intn(140)) - 70
					switch rng.Intn(3) {
					case 0:
						y = val{kind: 'I', i: c}
					case 1:
						y = val{kind: 'U', u: uint64(c)}
					default:
						y = val{kind: 'C', i: c}
					}
				}
				if rng.Intn(12) == 0 {
					runNot(x)
				}
				op := intOps[rng.Intn(len(intOps))]
				run("int", op[0], op[1], x, y)
			} else if rng.Intn(9) == 0 {
				run("mod", "mod", "mod", x, y)
			} else if rng.Intn(3) == 0 {
				op := arOps[rng.Intn(len(arOps))]
				run("ar", op[0], op[1], x, y)
			} else {
				op := cmpOps[rng.Intn(len(cmpOps))]
				run("cmp", op[0], op[1], x, y)
			}
		}
	}
	out.Close(a.Stats)
}
