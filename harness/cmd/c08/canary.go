package main

// Canary world of one worker process: a private directory (under the run's
// os.MkdirTemp root) holding a secret file and a file that must stay unchanged,
// a canary environment variable, and the worker's own working directory.
// Nothing outside the private directory is ever written by the harness.

import (
	"fmt"
	"os"
	"path/filepath"
	"sort"
	"strings"
)

type Canary struct {
	Dir      string // private directory
	Cwd      string // Dir/cwd, working directory of the worker
	Secret   string // Dir/secret.zy : readable zygo text defining c08leak = TokRead
	SecretMP string // Dir/secret.msgpack : the read token as a msgpack string (for decoders that return what they decode)
	SymZy    string // Cwd/c08sym.zy : the secret text again, under the name a resolver would derive from the symbol c08sym
	Tmp      string // Dir/tmp : the workers' and the binary's TMPDIR, so that files made in os.TempDir() are seen
	SymFile  string // Cwd/c08sym : a copy of the secret file reachable by a bare symbol (relative path)
	Existing string // Dir/existing.txt : must keep its content
	Out      string // Dir/out.txt : must stay absent
	Pwned    string // Dir/pwned : created only by the canary shell command
	EnvName  string // canary environment variable, value TokEnv
	NewVar   string // must stay unset
	TokRead  string
	TokEnv   string
	TokKeep  string
	TokStdin string
	envSnap  []string
	clean    string
}

const (
	symFileName = "c08sym"
	envName = "C08_CANARY_ENV"
	newVar  = "C08_CANARY_NEWVAR"
)

// NewCanary derives all names and tokens deterministically from dir and tag.
func NewCanary(dir, tag string) *Canary {
	c := &Canary{Dir: dir, Cwd: filepath.Join(dir, "cwd"),
		Secret: filepath.Join(dir, "secret.zy"), SymFile: filepath.Join(dir, "cwd", symFileName), SymZy: filepath.Join(dir, "cwd", symFileName+".zy"),
		SecretMP: filepath.Join(dir, "secret.msgpack"), Tmp: filepath.Join(dir, "tmp"), Existing: filepath.Join(dir, "existing.txt"),
		Out: filepath.Join(dir, "out.txt"), Pwned: filepath.Join(dir, "pwned"),
		EnvName: envName, NewVar: newVar,
		TokRead: "ZYGREAD" + tag + "Q", TokEnv: "ZYGENVV" + tag + "Q", TokKeep: "ZYGKEEP" + tag + "Q", TokStdin: "ZYGSTDIN" + tag + "Q"}
	return c
}

// The secret file is zygo text: compiling it binds c08leak, running it prints the token (so that a
// read is visible even when the interpreter that compiled it is thrown away, e.g. at macro-expansion time).
func (c *Canary) msgpackText() string { return "\xd9" + string(rune(len(c.TokRead))) + c.TokRead }

// the fixed files of the canary world: path -> content
func (c *Canary) fixed() map[string]string {
	return map[string]string{c.Secret: c.secretText(), c.SymFile: c.secretText(), c.SymZy: c.secretText(),
		c.SecretMP: c.msgpackText(), c.Existing: c.TokKeep}
}

func (c *Canary) secretText() string {
	return "(def c08leak \"" + c.TokRead + "\")\n(println \"" + c.TokRead + "\")\n"
}

// Install (re)creates the canary world. Only paths below c.Dir are touched.
func (c *Canary) Install() error {
	if err := os.MkdirAll(c.Cwd, 0755); err != nil {
		return err
	}
	if err := os.MkdirAll(c.Tmp, 0755); err != nil {
		return err
	}
	ents, err := os.ReadDir(c.Dir)
	if err != nil {
		return err
	}
	for _, e := range ents {
		switch e.Name() {
		case "cwd", "tmp", "secret.zy", "secret.msgpack", "existing.txt":
		default:
			os.RemoveAll(filepath.Join(c.Dir, e.Name()))
		}
	}
	ents, _ = os.ReadDir(c.Cwd)
	for _, e := range ents {
		if e.Name() != symFileName && e.Name() != symFileName+".zy" {
			os.RemoveAll(filepath.Join(c.Cwd, e.Name()))
		}
	}
	ents, _ = os.ReadDir(c.Tmp)
	for _, e := range ents {
		os.RemoveAll(filepath.Join(c.Tmp, e.Name()))
	}
	for p, want := range c.fixed() {
		if b, err := os.ReadFile(p); err != nil || string(b) != want {
			os.RemoveAll(p)
			if err := os.WriteFile(p, []byte(want), 0644); err != nil {
				return err
			}
		}
	}
	return nil
}

// EnterProcess prepares the current process (worker): cwd and environment.
func (c *Canary) EnterProcess() error {
	if err := c.Install(); err != nil {
		return err
	}
	if err := os.Chdir(c.Cwd); err != nil {
		return err
	}
	os.Setenv(c.EnvName, c.TokEnv)
	os.Setenv("TMPDIR", c.Tmp) // os.TempDir() of the interpreter under test
	os.Setenv("HOME", c.Dir)
	os.Unsetenv(c.NewVar)
	c.envSnap = sortedEnv()
	return nil
}

func sortedEnv() []string {
	e := os.Environ()
	sort.Strings(e)
	return e
}

// stamp summarises the canary directory cheaply (5 stat calls): any creation, removal or
// modification below it changes a directory or file modification time or size.
func (c *Canary) stamp() string {
	var sb strings.Builder
	for _, p := range []string{c.Dir, c.Cwd, c.Tmp, c.Secret, c.SecretMP, c.SymFile, c.SymZy, c.Existing, c.Pwned} {
		st, err := os.Lstat(p)
		if err != nil {
			sb.WriteString("absent;")
			continue
		}
		fmt.Fprintf(&sb, "%d,%d,%v;", st.ModTime().UnixNano(), st.Size(), st.Mode())
	}
	return sb.String()
}

// Snapshot records the clean state; ObserveFilesFast only does the full comparison when the
// cheap stamp differs from the snapshot.
func (c *Canary) Snapshot() { c.clean = c.stamp() }

func (c *Canary) ObserveFilesFast() (effects []string, detail []string) {
	if c.clean != "" && c.stamp() == c.clean {
		return nil, nil
	}
	return c.ObserveFiles()
}

// ObserveFiles reports file-system effects inside the canary directory.
func (c *Canary) ObserveFiles() (effects []string, detail []string) {
	add := func(e, d string) {
		for _, x := range effects {
			if x == e {
				detail = append(detail, d)
				return
			}
		}
		effects = append(effects, e)
		detail = append(detail, d)
	}
	if _, err := os.Lstat(c.Pwned); err == nil {
		add("process", "canary shell command ran (pwned file created)")
	}
	for p, want := range c.fixed() {
		if b, err := os.ReadFile(p); err != nil || string(b) != want {
			add("file_write", "canary file "+filepath.Base(p)+" modified or removed")
		}
	}
	ents, _ := os.ReadDir(c.Dir)
	for _, e := range ents {
		switch e.Name() {
		case "cwd", "tmp", "secret.zy", "secret.msgpack", "existing.txt", "pwned":
		default:
			add("file_write", "created "+e.Name())
		}
	}
	ents, _ = os.ReadDir(c.Cwd)
	for _, e := range ents {
		if e.Name() != symFileName && e.Name() != symFileName+".zy" {
			add("file_write", "created cwd/"+e.Name())
		}
	}
	ents, _ = os.ReadDir(c.Tmp)
	for _, e := range ents {
		add("file_write", "created a file in the temporary directory (os.TempDir): "+e.Name())
	}
	return
}

// ObserveProcess reports environment / cwd effects in the current process and restores them.
func (c *Canary) ObserveProcess() (effects []string, detail []string) {
	now := sortedEnv()
	if strings.Join(now, "\x00") != strings.Join(c.envSnap, "\x00") {
		effects = append(effects, "env_write")
		detail = append(detail, fmt.Sprintf("environment changed (%s=%q %s=%q)", c.EnvName, os.Getenv(c.EnvName), c.NewVar, os.Getenv(c.NewVar)))
		os.Clearenv()
		for _, kv := range c.envSnap {
			if i := strings.IndexByte(kv, '='); i > 0 {
				os.Setenv(kv[:i], kv[i+1:])
			}
		}
	}
	if wd, err := os.Getwd(); err != nil || wd != c.Cwd {
		effects = append(effects, "chdir")
		detail = append(detail, "working directory changed to "+wd)
		os.Chdir(c.Cwd)
	}
	return
}

// ObserveText reports tokens visible in text the script obtained.
func (c *Canary) ObserveText(s string) (effects []string) {
	if strings.Contains(s, c.TokRead) || strings.Contains(s, c.TokKeep) {
		effects = append(effects, "file_read")
	}
	if strings.Contains(s, c.TokEnv) {
		effects = append(effects, "env_read")
	}
	if strings.Contains(s, c.TokStdin) {
		effects = append(effects, "stdin_read")
	}
	return
}
