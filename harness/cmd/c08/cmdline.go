package main

// Command lines of the cmd/zygo binary: "run under -sandbox" means that the flag package accepted a
// sandbox flag (-sandbox, --sandbox, -sandbox=true before the first positional argument). Whatever else
// is on the command line -- other flags before the script, in any order, ANY arguments after the script
// name (also ones that look like flags, or like -sandbox=false), the -c mode -- the interpreter that runs
// the script must be the sandboxed one.  For every command-line shape the harness
//   (1) asks the binary which candidate names are defined (one script of (defined? ..) probes) and
//       compares with the names bound in the in-process sandbox + StandardSetup;
//   (2) runs the canary calls of the entries that need no binding (special forms) and of every name that
//       is unexpectedly defined, observing the canary world as for every other binary run.

import (
	"encoding/json"
	"fmt"
	"os"
	"os/exec"
	"path/filepath"
	"sort"
	"strconv"
	"strings"
	"sync/atomic"
	"time"

	"verif/harness/lib"
)

// a shape is an argv template; "@SCRIPT@" is the script file, "@TEXT@" the script text (-c mode).
// tokOf gives the abstract token of each argument for the Coq model of the command line (Model/Cmdline.v).
type cmdShape []string

var boolFlags = map[string]bool{"exitonfail": true, "countcalls": true, "i": true, "quiet": true, "trace": true, "demo": true, "no-liner": true}
var strFlags = map[string]bool{"cpuprofile": true, "memprofile": true, "c": true}

func tokOf(a string) string {
	if len(a) < 2 || a[0] != '-' {
		return "P"
	}
	name := a[1:]
	if name[0] == '-' {
		name = name[1:]
		if name == "" {
			return "D"
		}
	}
	if name == "" || name[0] == '-' || name[0] == '=' {
		return "X"
	}
	val, has := "", false
	if i := strings.IndexByte(name, '='); i >= 0 {
		name, val, has = name[:i], name[i+1:], true
	}
	switch {
	case name == "sandbox":
		if !has {
			return "S"
		}
		switch val {
		case "1", "t", "T", "true", "TRUE", "True":
			return "S=1"
		case "0", "f", "F", "false", "FALSE", "False":
			return "S=0"
		}
		return "X"
	case boolFlags[name]:
		if has {
			if _, err := strconv.ParseBool(val); err != nil {
				return "X"
			}
		}
		return "B"
	case strFlags[name]:
		if has {
			return "VI"
		}
		return "V"
	}
	return "X"
}

func (s cmdShape) Toks() string {
	var t []string
	for _, a := range s {
		if a == "@SCRIPT@" || a == "@TEXT@" {
			t = append(t, "P")
		} else {
			t = append(t, tokOf(a))
		}
	}
	return strings.Join(t, " ")
}

// does the script / text of this command line run at all, according to Go's flag conventions?  (only used to
// know whether a probe can be expected; the verdict sandboxed / open / rejected comes from the Coq model)

func cmdShapes(tier string, rng *lib.Rng) []cmdShape {
	sandboxTok := []string{"-sandbox", "--sandbox", "-sandbox=true"}
	pres := [][]string{{}, {"-quiet"}, {"-quiet", "-no-liner"}, {"-exitonfail", "-quiet"}, {"-countcalls"}}
	posts := [][]string{{}, {"-quiet"}, {"-i"}, {"-exitonfail"}, {"-no-liner", "-quiet"}, {"-sandbox=false"}, {"-sandbox"},
		{"--"}, {"x"}, {"x", "-quiet"}, {"-c", "(println 1)"}, {"-demo"}, {"-quiet", "-exitonfail", "-no-liner"}}
	var out []cmdShape
	add := func(s []string) { out = append(out, cmdShape(append([]string{}, s...))) }
	k := 0
	for _, post := range posts {
		for pi, pre := range pres {
			if tier != "thorough" && len(post) > 0 && pi != k%len(pres) && pi != (k+2)%len(pres) {
				continue // quick tier: every suffix with two of the prefixes, rotating
			}
			tok := sandboxTok[k%len(sandboxTok)]
			// the sandbox flag at every position among the leading flags
			pos := rng.Intn(len(pre) + 1)
			var argv []string
			argv = append(argv, pre[:pos]...)
			argv = append(argv, tok)
			argv = append(argv, pre[pos:]...)
			argv = append(argv, "@SCRIPT@")
			argv = append(argv, post...)
			add(argv)
		}
		k++
	}
	// -c mode: the text is a flag value, further flags may follow it
	add([]string{"-sandbox", "-c", "@TEXT@"})
	add([]string{"-c", "@TEXT@", "-sandbox"})
	add([]string{"-quiet", "-c", "@TEXT@", "-sandbox=true", "-no-liner"})
	add([]string{"--sandbox", "-c", "@TEXT@", "x", "-quiet"})
	// controls: command lines that are NOT run under a sandbox flag (the probe must see the difference),
	// and one the flag package rejects
	add([]string{"-quiet", "-no-liner", "@SCRIPT@"})
	add([]string{"-quiet", "@SCRIPT@", "-sandbox"})
	add([]string{"-sandbox=false", "-quiet", "@SCRIPT@"})
	add([]string{"-sandbox", "-sandbox=false", "@SCRIPT@", "-sandbox"})
	add([]string{"-sandbox=false", "--sandbox", "-quiet", "@SCRIPT@", "-sandbox=false"})
	add([]string{"-c", "@TEXT@"})
	add([]string{"-sandbox", "-nosuchflag", "@SCRIPT@"})
	return out
}

func (s cmdShape) String() string { return strings.Join(s, " ") }

type cmdRunner struct {
	zygoBin string
	dir     string
	can     *Canary
	stats   map[string]int
	n       int
}

func (r *cmdRunner) run(shape cmdShape, text string, limit time.Duration) (string, int, bool) {
	r.n++
	script := filepath.Join(r.dir, "script.zy")
	os.WriteFile(script, []byte(text), 0644)
	oneLine := "(begin " + strings.ReplaceAll(text, "\n", " ") + ")"
	var argv []string
	for _, a := range shape {
		switch a {
		case "@SCRIPT@":
			argv = append(argv, script)
		case "@TEXT@":
			argv = append(argv, oneLine)
		default:
			argv = append(argv, a)
		}
	}
	cmd := exec.Command(r.zygoBin, argv...)
	cmd.Dir = r.can.Cwd
	cmd.Env = append(os.Environ(), r.can.EnvName+"="+r.can.TokEnv)
	cmd.Stdin = strings.NewReader("")
	outPath := filepath.Join(r.dir, "out.txt")
	of, _ := os.Create(outPath)
	cmd.Stdout = of
	cmd.Stderr = of
	if err := cmd.Start(); err != nil {
		panic(err)
	}
	done := make(chan error, 1)
	go func() { done <- cmd.Wait() }()
	timedOut := false
	select {
	case <-done:
	case <-time.After(limit):
		cmd.Process.Kill()
		<-done
		timedOut = true
	}
	of.Close()
	r.stats["binary_processes"]++
	b, _ := os.ReadFile(outPath)
	return string(b), cmd.ProcessState.ExitCode(), timedOut
}

// canary: one script under one command line, observed like every other binary run
func (r *cmdRunner) canary(shape cmdShape, j Job) JobResult {
	var sb strings.Builder
	for _, p := range j.Pre {
		sb.WriteString(subst(p, r.can) + "\n")
	}
	sb.WriteString("(def c08result " + subst(j.Script, r.can) + ")\n(println (str c08result))\n(println \"c08-reached-end\")\n")
	out, code, timedOut := r.run(shape, sb.String(), 20*time.Second)
	o := &obs{effects: map[string]bool{}}
	o.add(r.can.ObserveText(out))
	fe, fd := r.can.ObserveFiles()
	o.add(fe, fd...)
	class := "cmdline"
	if timedOut {
		class = "hang"
	} else if code != 0 && code != 1 && code != 255 && !strings.Contains(out, "c08-reached-end") && !strings.Contains(out, "panic:") && !strings.Contains(out, "goroutine ") {
		// 1 and 255 are the tool's own exit codes after an error (-c mode, -exitonfail)
		o.add([]string{"exit"}, fmt.Sprintf("zygo exited with code %d before the end of the script", code))
		class = "exit:" + strconv.Itoa(code)
	}
	r.can.Install()
	det, _ := json.Marshal(o.detail)
	return JobResult{Effects: o.String(), Class: class, Detail: string(det)}
}

// probe: ONE process per command line. The script first prints, for every candidate name, whether it is
// defined (these lines cannot fail), then runs the canary calls of the entries that need no binding, each
// through eval so that a refusal at compile time ends the script only there.
func (r *cmdRunner) probe(shape cmdShape, candidates []string, canaries []Job) (defined map[string]bool, ok bool, res []JobResult, code int) {
	var sb strings.Builder
	for i, n := range candidates {
		sb.WriteString("(cond (defined? " + quoteZ(n) + ") (println \"c08-name " + strconv.Itoa(i) + " true\") (println \"c08-name " + strconv.Itoa(i) + " false\"))\n")
	}
	for i, j := range canaries {
		sb.WriteString("(println \"c08-canary " + strconv.Itoa(i) + "\")\n")
		sb.WriteString("(println (str (eval (quote " + subst(j.Script, r.can) + "))))\n")
	}
	out, code, timedOut := r.run(shape, sb.String(), 60*time.Second)
	defined = map[string]bool{}
	seen := 0
	for _, ln := range strings.Split(out, "\n") {
		f := strings.Fields(ln)
		if len(f) >= 3 && f[len(f)-3] == "c08-name" {
			i, _ := strconv.Atoi(f[len(f)-2])
			if i >= 0 && i < len(candidates) {
				seen++
				if f[len(f)-1] == "true" {
					defined[candidates[i]] = true
				}
			}
		}
	}
	// the canaries share the process: text effects are attributed to the canary whose marker precedes them,
	// file effects to the whole group (they are all calls of binding-free entries)
	rest := out
	if k := strings.Index(rest, "c08-canary 0"); k >= 0 {
		rest = rest[k:]
	} else {
		rest = ""
	}
	fe, fd := r.can.ObserveFiles()
	for i := range canaries {
		seg := rest
		if k := strings.Index(rest, "c08-canary "+strconv.Itoa(i+1)); k >= 0 {
			seg, rest = rest[:k], rest[k:]
		} else {
			rest = ""
		}
		o := &obs{effects: map[string]bool{}}
		o.add(r.can.ObserveText(seg))
		o.add(fe, fd...)
		class := "cmdline"
		if timedOut {
			class = "hang"
		}
		det, _ := json.Marshal(o.detail)
		res = append(res, JobResult{Effects: o.String(), Class: class, Detail: string(det)})
	}
	r.can.Install()
	return defined, seen == len(candidates) && !timedOut, res, code
}

type cmdlineDiff struct {
	Argv       string   `json:"argv"`
	Toks       string   `json:"toks"`
	Observed   string   `json:"observed"` // sandboxed | open | rejected | mixed
	Unexpected []string `json:"unexpected"` // defined under this command line, not bound in the sandbox + StandardSetup
	Missing    []string `json:"missing"`
	ProbeOK    bool     `json:"probe_ok"`
}

// runCmdlines appends its jobs (with results) to jobs/results and returns the name differences.
func runCmdlines(root, zygoBin, tier string, rng *lib.Rng, candidates, specials []string, expected, open map[string]string, likely map[string]bool,
	jobs *[]Job, results map[int]JobResult, stats map[string]int) (diffs []cmdlineDiff, all []cmdlineDiff) {
	shapes := cmdShapes(tier, rng)
	unsafe := func(n string) bool {
		return strings.ContainsAny(n, " \t\n()[]{}\"';`~^") || n == "" || n == "&" || n == "." || n == ":"
	}
	// canaries of the binding-free entries: include, and every special form the list below does not know
	var canaries []Job
	for _, sf := range specials {
		if !knownPureSpecial[sf] {
			for _, sh := range [][]string{{aSecret}, {aArr}} {
				j := forms("bin", "special", sf, sh, false)[0]
				j.Form = "cmdline-eval"
				j.Abs = "(e " + j.Abs + ")"
				canaries = append(canaries, j)
			}
		}
	}
	type shapeOut struct {
		all    cmdlineDiff
		diff   *cmdlineDiff
		jobs   []Job
		res    []JobResult
		nprocs int
	}
	outs := make([]shapeOut, len(shapes))
	var confirmed int32
	const par = 6
	sem := make(chan int, par)
	for w := 0; w < par; w++ {
		sem <- w
	}
	done := make(chan bool, len(shapes))
	for si := range shapes {
		w := <-sem
		go func(si, w int) {
			defer func() { sem <- w; done <- true }()
			shape := shapes[si]
			dir := filepath.Join(root, "cmdline"+strconv.Itoa(w))
			os.MkdirAll(dir, 0755)
			can := NewCanary(filepath.Join(dir, "world"), "C"+strconv.Itoa(w))
			os.MkdirAll(can.Dir, 0755)
			if err := can.Install(); err != nil {
				panic(err)
			}
			st := map[string]int{}
			r := &cmdRunner{zygoBin: zygoBin, dir: dir, can: can, stats: st}
			def, ok, cres, code := r.probe(shape, candidates, canaries)
			o := &outs[si]
			for i, j := range canaries {
				j.Argv = shape
				j.Cfg = "bin"
				if modelSaysSandboxed(shape) != "yes" {
					// control command line: the canaries are expected to work (checks/c08.py verifies this label
					// against the Coq model's verdict for the same command line)
					j.Cfg = "full"
				}
				j.Script = "(eval (quote " + j.Script + "))"
				j.Tags = append(append([]string{}, j.Tags...), "cmdline")
				o.jobs = append(o.jobs, j)
				o.res = append(o.res, cres[i])
			}
			d := cmdlineDiff{Argv: shape.String(), Toks: shape.Toks(), ProbeOK: ok}
			if ok {
				for _, n := range candidates {
					_, exp := expected[n]
					if def[n] && !exp {
						d.Unexpected = append(d.Unexpected, n)
					}
					if !def[n] && exp && expected[n] != "macro" {
						d.Missing = append(d.Missing, n)
					}
				}
			}
			sort.Strings(d.Unexpected)
			// what kind of interpreter ran the probe?
			switch {
			case !ok && code == 2 && len(def) == 0:
				d.Observed = "rejected"
			case !ok:
				d.Observed = "mixed"
			case len(d.Unexpected) == 0 && len(d.Missing) == 0:
				d.Observed = "sandboxed"
			default:
				d.Observed = "open"
				for n := range open {
					if !def[n] && open[n] != "macro" && !unsafe(n) {
						d.Observed = "mixed"
					}
				}
			}
			o.all = d
			if d.Observed != "sandboxed" && strings.Contains(modelSaysSandboxed(shape), "yes") {
				o.diff = &d
			}
			// names that should not be there are called with canary arguments: the ones the tables consider
			// effectful first, three telling argument shapes each, until one call shows an effect; once 3 command
			// lines have a confirmed script the remaining ones only report their name differences
			order := append([]string{}, d.Unexpected...)
			if modelSaysSandboxed(shape) != "yes" {
				order = nil
			}
			sort.SliceStable(order, func(a, b int) bool { return likely[order[a]] && !likely[order[b]] })
			k := 0
			hit := false
			for _, n := range order {
				if unsafe(n) || k >= 30 || hit || atomic.LoadInt32(&confirmed) >= 3 {
					continue
				}
				k++
				for _, sh := range [][]string{{aSecret}, {aCmd}, {aEnv}} {
					j := forms("bin", "unbound", n, sh, false)[0]
					j.Argv = shape
					j.Tags = append(j.Tags, "cmdline")
					res := r.canary(shape, j)
					o.jobs = append(o.jobs, j)
					o.res = append(o.res, res)
					if res.Effects != "-" {
						hit = true
						atomic.AddInt32(&confirmed, 1)
						break
					}
				}
			}
			o.nprocs = st["binary_processes"]
		}(si, w)
	}
	for range shapes {
		<-done
	}
	for _, o := range outs {
		all = append(all, o.all)
		stats["cmdline_shapes"]++
		stats["binary_processes"] += o.nprocs
		if o.diff != nil {
			diffs = append(diffs, *o.diff)
		}
		for i, j := range o.jobs {
			j.ID = len(*jobs) + 1
			*jobs = append(*jobs, j)
			results[j.ID] = o.res[i]
		}
	}
	return diffs, all
}

// modelSaysSandboxed is only a scheduling hint (which command lines get follow-up canary calls when names that
// should not be there are defined): the flag part leaves the sandbox flag on. The verdict is the Coq model's.
func modelSaysSandboxed(shape cmdShape) string {
	on := false
	toks := strings.Fields(shape.Toks())
	for i := 0; i < len(toks); i++ {
		switch toks[i] {
		case "S", "S=1":
			on = true
		case "S=0":
			on = false
		case "B", "VI":
		case "V":
			i++
		case "X":
			return "rejected"
		default:
			i = len(toks)
		}
	}
	if on {
		return "yes"
	}
	return "no"
}

// special forms that are flow control / definition syntax: calling them with a canary path proves nothing
// and most of them are not even valid with one string argument.  Everything NOT listed here (include, and
// whatever a change adds) is called under every command line.
var knownPureSpecial = map[string]bool{"and": true, "or": true, "cond": true, "quote": true, "def": true, "mdef": true, "fn": true,
	"defn": true, "begin": true, "let": true, "letseq": true, "assert": true, "defmac": true, "macexpand": true, "syntaxQuote": true,
	"for": true, "set": true, "break": true, "continue": true, "newScope": true, "package": true, "return": true, "_ls": true,
	"infix": true, "unquote": true, "unquote-splicing": true}
