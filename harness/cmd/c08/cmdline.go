package main

// Command lines of the cmd/zygo binary: "run under -sandbox" means that the flag package accepted a
// sandbox flag (-sandbox, --sandbox, -sandbox=true before the first positional argument). Whatever else
// is on the command line -- other flags before the script, in any order, ANY arguments after the script
// name (also ones that look like flags, or like -sandbox=false), the -c mode -- the interpreter that runs
// the script must be the sandboxed one.  For every command-line shape the harness
//   (1) asks the binary which candidate names are defined (one script of (defined? ..) probes) and
//       compares with the names bound in the in-process sandbox + StandardSetup;
//   (2) runs the canary calls of the entries that need no binding (special forms) and of every name that
//       is unexpectedly defined, observing the canary world as for every other binary run.

import (
	"encoding/json"
	"fmt"
	"os"
	"os/exec"
	"path/filepath"
	"sort"
	"strconv"
	"strings"
	"sync/atomic"
	"time"

	"verif/harness/lib"
)

// a shape is an argv template; "@SCRIPT@" is the script file, "@TEXT@" the script text (-c mode).
// tokOf gives the abstract token of each argument for the Coq model of the command line (Model/Cmdline.v).
type cmdShape []string

var boolFlags = map[string]bool{"countcalls": true, "quiet": true, "trace": true, "demo": true, "no-liner": true}
var strFlags = map[string]bool{"cpuprofile": true, "memprofile": true}

func tokOf(a string) string {
	if len(a) < 2 || a[0] != '-' {
		return "P"
	}
	name := a[1:]
	if name[0] == '-' {
		name = name[1:]
		if name == "" {
			return "D"
		}
	}
	if name == "" || name[0] == '-' || name[0] == '=' {
		return "X"
	}
	val, has := "", false
	if i := strings.IndexByte(name, '='); i >= 0 {
		name, val, has = name[:i], name[i+1:], true
	}
	switch {
	case name == "sandbox":
		if !has {
			return "S"
		}
		switch val {
		case "1", "t", "T", "true", "TRUE", "True":
			return "S=1"
		case "0", "f", "F", "false", "FALSE", "False":
			return "S=0"
		}
		return "X"
	case name == "i" || name == "exitonfail":
		t := "I"
		if name == "exitonfail" {
			t = "E"
		}
		if !has {
			return t
		}
		b, err := strconv.ParseBool(val)
		if err != nil {
			return "X"
		}
		if b {
			return t + "=1"
		}
		return t + "=0"
	case name == "c":
		if has {
			return "CI"
		}
		return "C"
	case name == "demo":
		// -demo decides what ReplMain registers (RegisterDemoStructs, ImportDemoData): its own token
		if has {
			b, err := strconv.ParseBool(val)
			if err != nil {
				return "X"
			}
			if !b {
				return "Bd=0"
			}
		}
		return "Bd"
	case boolFlags[name]:
		if has {
			if _, err := strconv.ParseBool(val); err != nil {
				return "X"
			}
		}
		return "B"
	case strFlags[name]:
		if has {
			return "VI"
		}
		return "V"
	}
	return "X"
}

func (s cmdShape) Toks() string {
	var t []string
	for _, a := range s {
		if a == "@SCRIPT@" || a == "@TEXT@" {
			t = append(t, "P")
		} else {
			t = append(t, tokOf(a))
		}
	}
	return strings.Join(t, " ")
}

// does the script / text of this command line run at all, according to Go's flag conventions?  (only used to
// know whether a probe can be expected; the verdict sandboxed / open / rejected comes from the Coq model)

func cmdShapes(tier string, rng *lib.Rng) []cmdShape {
	sandboxTok := []string{"-sandbox", "--sandbox", "-sandbox=true"}
	pres := [][]string{{}, {"-quiet"}, {"-quiet", "-no-liner"}, {"-exitonfail", "-quiet"}, {"-countcalls"}}
	posts := [][]string{{}, {"-quiet"}, {"-i"}, {"-exitonfail"}, {"-no-liner", "-quiet"}, {"-sandbox=false"}, {"-sandbox"},
		{"--"}, {"x"}, {"x", "-quiet"}, {"-c", "(println 1)"}, {"-demo"}, {"-quiet", "-exitonfail", "-no-liner"}}
	var out []cmdShape
	add := func(s []string) { out = append(out, cmdShape(append([]string{}, s...))) }
	k := 0
	for _, post := range posts {
		for pi, pre := range pres {
			if tier != "thorough" && len(post) > 0 && pi != k%len(pres) && pi != (k+2)%len(pres) {
				continue // quick tier: every suffix with two of the prefixes, rotating
			}
			tok := sandboxTok[k%len(sandboxTok)]
			// the sandbox flag at every position among the leading flags
			pos := rng.Intn(len(pre) + 1)
			var argv []string
			argv = append(argv, pre[:pos]...)
			argv = append(argv, tok)
			argv = append(argv, pre[pos:]...)
			argv = append(argv, "@SCRIPT@")
			argv = append(argv, post...)
			add(argv)
		}
		k++
	}
	// -demo in the flag part, before and after the sandbox flag, with a script and in -c mode; with its controls
	add([]string{"-demo", "-sandbox", "-quiet", "@SCRIPT@"})
	add([]string{"--sandbox", "-demo", "@SCRIPT@", "-quiet"})
	add([]string{"-sandbox=true", "-demo=true", "-exitonfail", "@SCRIPT@"})
	add([]string{"-sandbox", "-demo=false", "@SCRIPT@"})
	add([]string{"-demo", "-sandbox", "-c", "@TEXT@"})
	add([]string{"-sandbox", "-countcalls", "-demo", "-c", "@TEXT@", "x"})
	add([]string{"-demo", "-quiet", "@SCRIPT@"})
	add([]string{"-demo", "-c", "@TEXT@"})
	// -c mode: the text is a flag value, further flags may follow it
	add([]string{"-sandbox", "-c", "@TEXT@"})
	add([]string{"-c", "@TEXT@", "-sandbox"})
	add([]string{"-quiet", "-c", "@TEXT@", "-sandbox=true", "-no-liner"})
	add([]string{"--sandbox", "-c", "@TEXT@", "x", "-quiet"})
	// controls: command lines that are NOT run under a sandbox flag (the probe must see the difference),
	// and one the flag package rejects
	add([]string{"-quiet", "-no-liner", "@SCRIPT@"})
	add([]string{"-quiet", "@SCRIPT@", "-sandbox"})
	add([]string{"-sandbox=false", "-quiet", "@SCRIPT@"})
	add([]string{"-sandbox", "-sandbox=false", "@SCRIPT@", "-sandbox"})
	add([]string{"-sandbox=false", "--sandbox", "-quiet", "@SCRIPT@", "-sandbox=false"})
	add([]string{"-c", "@TEXT@"})
	add([]string{"-sandbox", "-nosuchflag", "@SCRIPT@"})
	return out
}

func (s cmdShape) String() string { return strings.Join(s, " ") }

type cmdRunner struct {
	stdin   string
	zygoBin string
	dir     string
	can     *Canary
	stats   map[string]int
	n       int
}

func (r *cmdRunner) run(shape cmdShape, text string, limit time.Duration) (string, int, bool) {
	r.n++
	script := filepath.Join(r.dir, "script.zy")
	os.WriteFile(script, []byte(text), 0644)
	oneLine := "(begin " + strings.ReplaceAll(text, "\n", " ") + ")"
	var argv []string
	for _, a := range shape {
		switch a {
		case "@SCRIPT@":
			argv = append(argv, script)
		case "@TEXT@":
			argv = append(argv, oneLine)
		default:
			argv = append(argv, a)
		}
	}
	cmd := exec.Command(r.zygoBin, argv...)
	cmd.Dir = r.can.Cwd
	cmd.Env = append(os.Environ(), r.can.EnvName+"="+r.can.TokEnv, "TMPDIR="+r.can.Tmp, "HOME="+r.can.Dir)
	cmd.Stdin = strings.NewReader(r.stdin)
	outPath := filepath.Join(r.dir, "out.txt")
	of, _ := os.Create(outPath)
	cmd.Stdout = of
	cmd.Stderr = of
	if err := cmd.Start(); err != nil {
		panic(err)
	}
	done := make(chan error, 1)
	go func() { done <- cmd.Wait() }()
	timedOut := false
	select {
	case <-done:
	case <-time.After(limit):
		cmd.Process.Kill()
		<-done
		timedOut = true
	}
	of.Close()
	r.stats["binary_processes"]++
	b, _ := os.ReadFile(outPath)
	return string(b), cmd.ProcessState.ExitCode(), timedOut
}

// canary: one script under one command line, observed like every other binary run
func (r *cmdRunner) canary(shape cmdShape, j Job) JobResult {
	var sb strings.Builder
	for _, p := range j.Pre {
		sb.WriteString(subst(p, r.can) + "\n")
	}
	sb.WriteString("(def c08result " + subst(j.Script, r.can) + ")\n(println (str c08result))\n(println \"c08-reached-end\")\n")
	out, code, timedOut := r.run(shape, sb.String(), 20*time.Second)
	o := &obs{effects: map[string]bool{}}
	o.add(r.can.ObserveText(out))
	fe, fd := r.can.ObserveFiles()
	o.add(fe, fd...)
	class := "cmdline"
	if timedOut {
		class = "hang"
	} else if code != 0 && code != 1 && code != 255 && !strings.Contains(out, "c08-reached-end") && !strings.Contains(out, "panic:") && !strings.Contains(out, "goroutine ") {
		// 1 and 255 are the tool's own exit codes after an error (-c mode, -exitonfail)
		o.add([]string{"exit"}, fmt.Sprintf("zygo exited with code %d before the end of the script", code))
		class = "exit:" + strconv.Itoa(code)
	}
	r.can.Install()
	det, _ := json.Marshal(o.detail)
	return JobResult{Effects: o.String(), Class: class, Detail: string(det)}
}

// probe: ONE process per command line. The script first prints, for every candidate name, whether it is
// defined (these lines cannot fail), then runs the canary calls of the entries that need no binding, each
// through eval so that a refusal at compile time ends the script only there.
func (r *cmdRunner) probe(shape cmdShape, candidates []string, canaries []Job) (defined map[string]bool, ok bool, res []JobResult, code int) {
	var sb strings.Builder
	for i, n := range candidates {
		sb.WriteString("(cond (defined? " + quoteZ(n) + ") (println \"c08-name " + strconv.Itoa(i) + " true\") (println \"c08-name " + strconv.Itoa(i) + " false\"))\n")
	}
	for i, j := range canaries {
		sb.WriteString("(println \"c08-canary " + strconv.Itoa(i) + "\")\n")
		sb.WriteString("(println (str (eval (quote " + subst(j.Script, r.can) + "))))\n")
	}
	out, code, timedOut := r.run(shape, sb.String(), 60*time.Second)
	defined = map[string]bool{}
	seen := 0
	for _, ln := range strings.Split(out, "\n") {
		f := strings.Fields(ln)
		if len(f) >= 3 && f[len(f)-3] == "c08-name" {
			i, _ := strconv.Atoi(f[len(f)-2])
			if i >= 0 && i < len(candidates) {
				seen++
				if f[len(f)-1] == "true" {
					defined[candidates[i]] = true
				}
			}
		}
	}
	// the canaries share the process: text effects are attributed to the canary whose marker precedes them,
	// file effects to the whole group (they are all calls of binding-free entries)
	rest := out
	if k := strings.Index(rest, "c08-canary 0"); k >= 0 {
		rest = rest[k:]
	} else {
		rest = ""
	}
	fe, fd := r.can.ObserveFiles()
	for i := range canaries {
		seg := rest
		if k := strings.Index(rest, "c08-canary "+strconv.Itoa(i+1)); k >= 0 {
			seg, rest = rest[:k], rest[k:]
		} else {
			rest = ""
		}
		o := &obs{effects: map[string]bool{}}
		o.add(r.can.ObserveText(seg))
		o.add(fe, fd...)
		class := "cmdline"
		if timedOut {
			class = "hang"
		}
		det, _ := json.Marshal(o.detail)
		res = append(res, JobResult{Effects: o.String(), Class: class, Detail: string(det)})
	}
	r.can.Install()
	return defined, seen == len(candidates) && !timedOut, res, code
}

type cmdlineDiff struct {
	Argv       string   `json:"argv"`
	Toks       string   `json:"toks"`
	Observed   string   `json:"observed"` // sandboxed | open | rejected | mixed
	Unexpected []string `json:"unexpected"` // defined under this command line, not bound in the sandbox + StandardSetup
	Missing    []string `json:"missing"`
	ProbeOK    bool     `json:"probe_ok"`
	Plan       string   `json:"plan"` // sandboxed | open (constructor) + "+demo" when the names ImportDemoData adds are defined
}

// runCmdlines appends its jobs (with results) to jobs/results and returns the name differences.
func runCmdlines(root, zygoBin, tier string, rng *lib.Rng, candidates, specials []string, expected, open map[string]string, likely map[string]bool,
	jobs *[]Job, results map[int]JobResult, stats map[string]int) (diffs []cmdlineDiff, all []cmdlineDiff) {
	shapes := cmdShapes(tier, rng)
	unsafe := func(n string) bool {
		return strings.ContainsAny(n, " \t\n()[]{}\"';`~^") || n == "" || n == "&" || n == "." || n == ":"
	}
	// canaries of the binding-free entries: include, and every special form the list below does not know
	var canaries []Job
	for _, sf := range specials {
		if !knownPureSpecial[sf] {
			for _, sh := range [][]string{{aSecret}, {aArr}} {
				j := forms("bin", "special", sf, sh, false)[0]
				j.Form = "cmdline-eval"
				j.Abs = "(e " + j.Abs + ")"
				canaries = append(canaries, j)
			}
		}
	}
	type shapeOut struct {
		all    cmdlineDiff
		diff   *cmdlineDiff
		jobs   []Job
		res    []JobResult
		nprocs int
	}
	outs := make([]shapeOut, len(shapes))
	var confirmed int32
	const par = 6
	sem := make(chan int, par)
	for w := 0; w < par; w++ {
		sem <- w
	}
	done := make(chan bool, len(shapes))
	for si := range shapes {
		w := <-sem
		go func(si, w int) {
			defer func() { sem <- w; done <- true }()
			shape := shapes[si]
			dir := filepath.Join(root, "cmdline"+strconv.Itoa(w))
			os.MkdirAll(dir, 0755)
			can := NewCanary(filepath.Join(dir, "world"), "C"+strconv.Itoa(w))
			os.MkdirAll(can.Dir, 0755)
			if err := can.Install(); err != nil {
				panic(err)
			}
			st := map[string]int{}
			r := &cmdRunner{zygoBin: zygoBin, dir: dir, can: can, stats: st}
			def, ok, cres, code := r.probe(shape, candidates, canaries)
			o := &outs[si]
			for i, j := range canaries {
				j.Argv = shape
				j.Cfg = "bin"
				if modelSaysSandboxed(shape) != "yes" {
					// control command line: the canaries are expected to work (checks/c08.py verifies this label
					// against the Coq model's verdict for the same command line)
					j.Cfg = "full"
				}
				j.Script = "(eval (quote " + j.Script + "))"
				j.Tags = append(append([]string{}, j.Tags...), "cmdline")
				o.jobs = append(o.jobs, j)
				o.res = append(o.res, cres[i])
			}
			d := cmdlineDiff{Argv: shape.String(), Toks: shape.Toks(), ProbeOK: ok}
			expected := expected
			if demoOn(shape) {
				expected = withDemo(expected)
			}
			if ok {
				for _, n := range candidates {
					_, exp := expected[n]
					if def[n] && !exp {
						d.Unexpected = append(d.Unexpected, n)
					}
					if !def[n] && exp && expected[n] != "macro" {
						d.Missing = append(d.Missing, n)
					}
				}
			}
			sort.Strings(d.Unexpected)
			// what kind of interpreter ran the probe?
			switch {
			case !ok && code == 2 && len(def) == 0:
				d.Observed = "rejected"
			case !ok:
				d.Observed = "mixed"
			case len(d.Unexpected) == 0 && len(d.Missing) == 0:
				d.Observed = "sandboxed"
			default:
				d.Observed = "open"
				for n := range open {
					if !def[n] && open[n] != "macro" && !unsafe(n) {
						d.Observed = "mixed"
					}
				}
			}
			if d.Observed == "sandboxed" || d.Observed == "open" {
				d.Plan = d.Observed
				nd := 0
				for _, n := range demoNames {
					if def[n] {
						nd++
					}
				}
				if nd > 0 && nd == len(demoNames) {
					d.Plan += "+demo"
				} else if nd > 0 {
					d.Plan += "+somedemo"
				}
			}
			o.all = d
			if d.Observed != "sandboxed" && strings.Contains(modelSaysSandboxed(shape), "yes") {
				o.diff = &d
			}
			// names that should not be there are called with canary arguments: the ones the tables consider
			// effectful first, three telling argument shapes each, until one call shows an effect; once 3 command
			// lines have a confirmed script the remaining ones only report their name differences
			order := append([]string{}, d.Unexpected...)
			if modelSaysSandboxed(shape) != "yes" {
				order = nil
			}
			sort.SliceStable(order, func(a, b int) bool { return likely[order[a]] && !likely[order[b]] })
			k := 0
			hit := false
			for _, n := range order {
				if unsafe(n) || k >= 30 || hit || atomic.LoadInt32(&confirmed) >= 3 {
					continue
				}
				k++
				for _, sh := range [][]string{{aSecret}, {aCmd}, {aEnv}} {
					j := forms("bin", "unbound", n, sh, false)[0]
					j.Argv = shape
					j.Tags = append(j.Tags, "cmdline")
					res := r.canary(shape, j)
					o.jobs = append(o.jobs, j)
					o.res = append(o.res, res)
					if res.Effects != "-" {
						hit = true
						atomic.AddInt32(&confirmed, 1)
						break
					}
				}
			}
			o.nprocs = st["binary_processes"]
		}(si, w)
	}
	for range shapes {
		<-done
	}
	for _, o := range outs {
		all = append(all, o.all)
		stats["cmdline_shapes"]++
		stats["binary_processes"] += o.nprocs
		if o.diff != nil {
			diffs = append(diffs, *o.diff)
		}
		for i, j := range o.jobs {
			j.ID = len(*jobs) + 1
			*jobs = append(*jobs, j)
			results[j.ID] = o.res[i]
		}
	}
	return diffs, all
}

// modelSaysSandboxed is only a scheduling hint (which command lines get follow-up canary calls when names that
// should not be there are defined): the flag part leaves the sandbox flag on. The verdict is the Coq model's.
func modelSaysSandboxed(shape cmdShape) string {
	on := false
	toks := strings.Fields(shape.Toks())
	for i := 0; i < len(toks); i++ {
		switch toks[i] {
		case "S", "S=1":
			on = true
		case "S=0":
			on = false
		case "B", "Bd", "Bd=0", "VI", "CI", "I", "I=1", "I=0", "E", "E=1", "E=0":
		case "V", "C":
			i++
		case "X":
			return "rejected"
		default:
			i = len(toks)
		}
	}
	if on {
		return "yes"
	}
	return "no"
}

// demoOn: the flag part of the command line leaves -demo on (scheduling of the expected name set only; the plan
// ReplMain follows is the Coq model's, from the generated replmain_plans)
func demoOn(shape cmdShape) bool {
	on := false
	toks := strings.Fields(shape.Toks())
	for i := 0; i < len(toks); i++ {
		switch toks[i] {
		case "Bd":
			on = true
		case "Bd=0":
			on = false
		case "S", "S=1", "S=0", "B", "VI", "CI", "I", "I=1", "I=0", "E", "E=1", "E=0":
		case "V", "C":
			i++
		default:
			i = len(toks)
		}
	}
	return on
}

// demoNames: what ImportDemoData adds to a sandbox + StandardSetup, asked of the real code (set by main)
var demoNames []string

func withDemo(expected map[string]string) map[string]string {
	m := map[string]string{}
	for k, v := range expected {
		m[k] = v
	}
	for _, n := range demoNames {
		m[n] = "function"
	}
	return m
}

// special forms that are flow control / definition syntax: calling them with a canary path proves nothing
// and most of them are not even valid with one string argument.  Everything NOT listed here (include, and
// whatever a change adds) is called under every command line.
var knownPureSpecial = map[string]bool{"and": true, "or": true, "cond": true, "quote": true, "def": true, "mdef": true, "fn": true,
	"defn": true, "begin": true, "let": true, "letseq": true, "assert": true, "defmac": true, "macexpand": true, "syntaxQuote": true,
	"for": true, "set": true, "break": true, "continue": true, "newScope": true, "package": true, "return": true, "_ls": true,
	"infix": true, "unquote": true, "unquote-splicing": true}


// ---- sessions: every piece of text cmd/zygo evaluates in one run -------------------------------------------
//
// A session = command line + script (ending in an error or not) + text on standard input. Model/Cmdline.v
// `session` says which phases happen (script; the repl a failed script drops into; the repl after -i; plain repl)
// and on which kind of interpreter. The harness observes, per phase, which names are defined (the script phase
// through the script, the repl phases through lines on stdin, with different markers), and runs canary calls
// on the repl (which survives errors, so one process carries them all).

type sessionShape struct {
	argv  cmdShape
	fails bool
}

func sessionShapes(tier string) []sessionShape {
	var out []sessionShape
	add := func(fails bool, a ...string) { out = append(out, sessionShape{cmdShape(a), fails}) }
	for _, fails := range []bool{true, false} {
		add(fails, "-sandbox", "-quiet", "-no-liner", "@SCRIPT@")
		add(fails, "-no-liner", "--sandbox", "@SCRIPT@", "-sandbox=false")
		add(fails, "-sandbox", "-i", "-no-liner", "-quiet", "@SCRIPT@")
		add(fails, "-i=true", "-sandbox=true", "-no-liner", "@SCRIPT@", "-quiet", "-exitonfail")
		add(fails, "-sandbox", "-exitonfail", "-no-liner", "@SCRIPT@")
		add(fails, "-exitonfail", "-i", "-no-liner", "-quiet", "-sandbox", "@SCRIPT@")
		add(fails, "-sandbox", "-exitonfail=false", "-i=false", "-no-liner", "@SCRIPT@", "-i")
		// controls
		add(fails, "-quiet", "-no-liner", "@SCRIPT@", "-sandbox")
		add(fails, "-sandbox", "-sandbox=false", "-i", "-no-liner", "@SCRIPT@")
	}
	// no script: the plain repl; -c: the command only
	add(false, "-sandbox", "-quiet", "-no-liner")
	add(false, "-no-liner", "-quiet")
	add(false, "-sandbox", "-no-liner", "-c", "@TEXT@", "-i")
	if tier != "thorough" {
		return out
	}
	for _, fails := range []bool{true, false} {
		add(fails, "-sandbox", "-countcalls", "-no-liner", "@SCRIPT@", "x", "y")
		add(fails, "-no-liner", "-sandbox", "-i", "--", "@SCRIPT@")
		add(fails, "-sandbox=false", "-sandbox", "-no-liner", "-quiet", "@SCRIPT@", "-c", "(println 1)")
	}
	return out
}

type sessionObs struct {
	Argv     string `json:"argv"`
	Toks     string `json:"toks"`
	Fails    bool   `json:"fails"`
	Observed string `json:"observed"` // "script:sandboxed,repl:open" | "rejected"
}

func kindOfNames(def map[string]bool, complete bool, candidates []string, expected, open map[string]string) (kind string, unexpected []string) {
	if !complete {
		return "mixed", nil
	}
	missing := 0
	for _, n := range candidates {
		_, exp := expected[n]
		if def[n] && !exp {
			unexpected = append(unexpected, n)
		}
		if !def[n] && exp && expected[n] != "macro" {
			missing++
		}
	}
	sort.Strings(unexpected)
	if len(unexpected) == 0 && missing == 0 {
		return "sandboxed", nil
	}
	for n, k := range open {
		if !def[n] && k != "macro" {
			return "mixed", unexpected
		}
	}
	return "open", unexpected
}

// runSessions: one process per session shape.
func runSessions(root, zygoBin, tier string, candidates, specials []string, expected, open map[string]string, likely map[string]bool,
	jobs *[]Job, results map[int]JobResult, stats map[string]int) (obsAll []sessionObs) {
	shapes := sessionShapes(tier)
	// canary calls sent to the repl: every name the tables consider effectful in the unrestricted interpreter
	// (or, without tables, every candidate the sandbox does not bind), three telling argument shapes each,
	// plus the binding-free entries
	var names []string
	for _, n := range candidates {
		if _, exp := expected[n]; exp {
			continue
		}
		if len(likely) > 0 && !likely[n] {
			continue
		}
		if strings.ContainsAny(n, " \t\n()[]{}\"';`~^") || n == "" || n == "&" || n == "." || n == ":" {
			continue
		}
		names = append(names, n)
	}
	sort.Strings(names)
	type outT struct {
		obs  sessionObs
		jobs []Job
		res  []JobResult
	}
	outs := make([]outT, len(shapes))
	const par = 6
	sem := make(chan int, par)
	for w := 0; w < par; w++ {
		sem <- w
	}
	done := make(chan bool, len(shapes))
	for si := range shapes {
		w := <-sem
		go func(si, w int) {
			defer func() { sem <- w; done <- true }()
			sh := shapes[si]
			dir := filepath.Join(root, "session"+strconv.Itoa(w))
			os.MkdirAll(dir, 0755)
			can := NewCanary(filepath.Join(dir, "world"), "S"+strconv.Itoa(w))
			os.MkdirAll(can.Dir, 0755)
			if err := can.Install(); err != nil {
				panic(err)
			}
			// the script: name probe, then (for a failing script) a run-time error
			var sb strings.Builder
			for i, n := range candidates {
				sb.WriteString("(cond (defined? " + quoteZ(n) + ") (println \"c08-sname " + strconv.Itoa(i) + " true\") (println \"c08-sname " + strconv.Itoa(i) + " false\"))\n")
			}
			sb.WriteString("(println \"c08-script-end\")\n")
			if sh.fails {
				sb.WriteString("(c08-no-such-function 1)\n")
			}
			scriptText := sb.String()
			// standard input: name probe for the repl, then the canaries, each followed by a marker
			var in strings.Builder
			for i, n := range candidates {
				in.WriteString("(cond (defined? " + quoteZ(n) + ") (println \"c08-rname " + strconv.Itoa(i) + " true\") (println \"c08-rname " + strconv.Itoa(i) + " false\"))\n")
			}
			var cj []Job
			addC := func(kind, n string, shp []string) {
				j := forms("bin", kind, n, shp, false)[0]
				j.Form = "session-repl"
				j.Argv = sh.argv
				j.ScriptFile = "(println \"c08-script-end\")\n"
				if sh.fails {
					j.ScriptFile += "(c08-no-such-function 1)\n"
				}
				j.Tags = append(j.Tags, "session")
				cj = append(cj, j)
			}
			for _, sf := range specials {
				if !knownPureSpecial[sf] {
					addC("special", sf, []string{aSecret})
				}
			}
			for _, n := range names {
				for _, shp := range [][]string{{aSecret}, {aCmd}, {aEnv}} {
					addC("unbound", n, shp)
				}
			}
			substS := func(s string, j int) string {
				id := strconv.Itoa(j)
				r := strings.NewReplacer("@OUT@", filepath.Join(can.Dir, "out-"+id+".txt"), "@PWNED@", filepath.Join(can.Dir, "pwned-"+id))
				return subst(r.Replace(s), can)
			}
			in.WriteString("(println \"c08-canary-begin\")\n")
			for i, j := range cj {
				in.WriteString(substS(j.Script, i) + "\n")
				in.WriteString("(println \"c08-smark-" + strconv.Itoa(i) + "\")\n")
			}
			st := map[string]int{}
			r := &cmdRunner{zygoBin: zygoBin, dir: dir, can: can, stats: st}
			out, code, timedOut := r.runIn(sh.argv, scriptText, in.String(), 90*time.Second)
			o := &outs[si]
			o.obs = sessionObs{Argv: sh.argv.String(), Toks: sh.argv.Toks(), Fails: sh.fails}
			// which phases evaluated text, on which kind of interpreter
			collect := func(marker string) (map[string]bool, bool, bool) {
				def := map[string]bool{}
				seen := 0
				for _, ln := range strings.Split(out, "\n") {
					f := strings.Fields(ln)
					for i := 0; i+2 < len(f); i++ {
						if f[i] == marker {
							k, err := strconv.Atoi(f[i+1])
							if err == nil && k >= 0 && k < len(candidates) {
								seen++
								if f[i+2] == "true" {
									def[candidates[k]] = true
								}
							}
							break
						}
					}
				}
				return def, seen > 0, seen >= len(candidates)
			}
			var phases []string
			hasScript := strings.Contains(sh.argv.String(), "@SCRIPT@") || strings.Contains(sh.argv.String(), "@TEXT@")
			sdef, sAny, sAll := collect("c08-sname")
			rdef, rAny, rAll := collect("c08-rname")
			replKind := ""
			if sAny {
				k, _ := kindOfNames(sdef, sAll, candidates, expected, open)
				name := "script"
				if strings.Contains(sh.argv.String(), "@TEXT@") {
					name = "command"
				}
				phases = append(phases, name+":"+k)
			}
			if rAny {
				replKind, _ = kindOfNames(rdef, rAll, candidates, expected, open)
				name := "repl"
				if hasScript && sh.fails {
					name = "repl-after-failed-script"
				} else if hasScript {
					name = "repl-after-script"
				}
				phases = append(phases, name+":"+replKind)
			}
			switch {
			case timedOut:
				o.obs.Observed = "hang"
			case len(phases) == 0 && code == 2:
				o.obs.Observed = "rejected"
			case len(phases) == 0:
				o.obs.Observed = "nothing"
			default:
				o.obs.Observed = strings.Join(phases, ",")
			}
			// canaries on the repl
			rest := out
			if k := strings.Index(rest, "c08-canary-begin"); k >= 0 {
				rest = rest[k:]
			} else {
				rest = ""
			}
			label := "bin"
			if modelSaysSandboxed(sh.argv) != "yes" {
				label = "full"
			}
			for i, j := range cj {
				m := "c08-smark-" + strconv.Itoa(i)
				k := strings.Index(rest, m)
				if k < 0 {
					break // the repl phase did not happen (or ended early): these canaries never ran
				}
				seg := rest[:k]
				rest = rest[k+len(m):]
				ob := &obs{effects: map[string]bool{}}
				ob.add(can.ObserveText(seg))
				if _, err := os.Lstat(filepath.Join(can.Dir, "pwned-"+strconv.Itoa(i))); err == nil {
					ob.add([]string{"process"}, "canary shell command ran (pwned file created)")
				}
				if _, err := os.Lstat(filepath.Join(can.Dir, "out-"+strconv.Itoa(i)+".txt")); err == nil {
					ob.add([]string{"file_write"}, "absent path was created")
				}
				det, _ := json.Marshal(ob.detail)
				j.Cfg = label
				o.jobs = append(o.jobs, j)
				o.res = append(o.res, JobResult{Effects: ob.String(), Class: "session", Detail: string(det)})
			}
			_ = replKind
		}(si, w)
	}
	for range shapes {
		<-done
	}
	for _, o := range outs {
		stats["session_shapes"]++
		stats["binary_processes"]++
		obsAll = append(obsAll, o.obs)
		for i, j := range o.jobs {
			j.ID = len(*jobs) + 1
			*jobs = append(*jobs, j)
			results[j.ID] = o.res[i]
		}
	}
	return obsAll
}

// runIn: like run, with text on standard input
func (r *cmdRunner) runIn(shape cmdShape, text, stdin string, limit time.Duration) (string, int, bool) {
	r.stdin = stdin
	defer func() { r.stdin = "" }()
	return r.run(shape, text, limit)
}

// one canary of a session, alone (replay)
func (r *cmdRunner) sessionOne(j Job) JobResult {
	out, code, timedOut := r.runIn(cmdShape(j.Argv), j.ScriptFile, subst(j.Script, r.can)+"\n", 30*time.Second)
	o := &obs{effects: map[string]bool{}}
	o.add(r.can.ObserveText(out))
	fe, fd := r.can.ObserveFiles()
	o.add(fe, fd...)
	class := "session"
	if timedOut {
		class = "hang"
	}
	_ = code
	r.can.Install()
	det, _ := json.Marshal(o.detail)
	return JobResult{Effects: o.String(), Class: class, Detail: string(det)}
}
