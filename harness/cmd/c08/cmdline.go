package main

// Command lines of the cmd/zygo binary: "run under -sandbox" means that the flag package accepted a
// sandbox flag (-sandbox, --sandbox, -sandbox=true before the first positional argument). Whatever else
// is on the command line -- other flags before the script, in any order, ANY arguments after the script
// name (also ones that look like flags, or like -sandbox=false), the -c mode -- the interpreter that runs
// the script must be the sandboxed one.  For every command-line shape the harness
//   (1) asks the binary which candidate names are defined (one script of (defined? ..) probes) and
//       compares with the names bound in the in-process sandbox + StandardSetup;
//   (2) runs the canary calls of the entries that need no binding (special forms) and of every name that
//       is unexpectedly defined, observing the canary world as for every other binary run.

import (
	"encoding/json"
	"fmt"
	"os"
	"os/exec"
	"path/filepath"
	"sort"
	"strconv"
	"strings"
	"time"

	"verif/harness/lib"
)

// a shape is an argv template; "@SCRIPT@" is the script file, "@TEXT@" the script text (-c mode)
type cmdShape []string

func cmdShapes(tier string, rng *lib.Rng) []cmdShape {
	sandboxTok := []string{"-sandbox", "--sandbox", "-sandbox=true"}
	pres := [][]string{{}, {"-quiet"}, {"-quiet", "-no-liner"}, {"-exitonfail", "-quiet"}, {"-countcalls"}}
	posts := [][]string{{}, {"-quiet"}, {"-i"}, {"-exitonfail"}, {"-no-liner", "-quiet"}, {"-sandbox=false"}, {"-sandbox"},
		{"--"}, {"x"}, {"x", "-quiet"}, {"-c", "(println 1)"}, {"-demo"}, {"-quiet", "-exitonfail", "-no-liner"}}
	var out []cmdShape
	add := func(s []string) { out = append(out, cmdShape(append([]string{}, s...))) }
	k := 0
	for _, post := range posts {
		for pi, pre := range pres {
			if tier != "thorough" && len(post) > 0 && pi != k%len(pres) && pi != (k+2)%len(pres) {
				continue // quick tier: every suffix with two of the prefixes, rotating
			}
			tok := sandboxTok[k%len(sandboxTok)]
			// the sandbox flag at every position among the leading flags
			pos := rng.Intn(len(pre) + 1)
			var argv []string
			argv = append(argv, pre[:pos]...)
			argv = append(argv, tok)
			argv = append(argv, pre[pos:]...)
			argv = append(argv, "@SCRIPT@")
			argv = append(argv, post...)
			add(argv)
		}
		k++
	}
	// -c mode: the text is a flag value, further flags may follow it
	add([]string{"-sandbox", "-c", "@TEXT@"})
	add([]string{"-c", "@TEXT@", "-sandbox"})
	add([]string{"-quiet", "-c", "@TEXT@", "-sandbox=true", "-no-liner"})
	add([]string{"--sandbox", "-c", "@TEXT@", "x", "-quiet"})
	return out
}

func (s cmdShape) String() string { return strings.Join(s, " ") }

type cmdRunner struct {
	zygoBin string
	dir     string
	can     *Canary
	stats   map[string]int
	n       int
}

func (r *cmdRunner) run(shape cmdShape, text string, limit time.Duration) (string, int, bool) {
	r.n++
	script := filepath.Join(r.dir, "script.zy")
	os.WriteFile(script, []byte(text), 0644)
	oneLine := "(begin " + strings.ReplaceAll(text, "\n", " ") + ")"
	var argv []string
	for _, a := range shape {
		switch a {
		case "@SCRIPT@":
			argv = append(argv, script)
		case "@TEXT@":
			argv = append(argv, oneLine)
		default:
			argv = append(argv, a)
		}
	}
	cmd := exec.Command(r.zygoBin, argv...)
	cmd.Dir = r.can.Cwd
	cmd.Env = append(os.Environ(), r.can.EnvName+"="+r.can.TokEnv)
	cmd.Stdin = strings.NewReader("")
	outPath := filepath.Join(r.dir, "out.txt")
	of, _ := os.Create(outPath)
	cmd.Stdout = of
	cmd.Stderr = of
	if err := cmd.Start(); err != nil {
		panic(err)
	}
	done := make(chan error, 1)
	go func() { done <- cmd.Wait() }()
	timedOut := false
	select {
	case <-done:
	case <-time.After(limit):
		cmd.Process.Kill()
		<-done
		timedOut = true
	}
	of.Close()
	r.stats["binary_processes"]++
	b, _ := os.ReadFile(outPath)
	return string(b), cmd.ProcessState.ExitCode(), timedOut
}

// canary: one script under one command line, observed like every other binary run
func (r *cmdRunner) canary(shape cmdShape, j Job) JobResult {
	var sb strings.Builder
	for _, p := range j.Pre {
		sb.WriteString(subst(p, r.can) + "\n")
	}
	sb.WriteString("(def c08result " + subst(j.Script, r.can) + ")\n(println (str c08result))\n(println \"c08-reached-end\")\n")
	out, code, timedOut := r.run(shape, sb.String(), 20*time.Second)
	o := &obs{effects: map[string]bool{}}
	o.add(r.can.ObserveText(out))
	fe, fd := r.can.ObserveFiles()
	o.add(fe, fd...)
	class := "cmdline"
	if timedOut {
		class = "hang"
	} else if code != 0 && code != 1 && code != 255 && !strings.Contains(out, "c08-reached-end") && !strings.Contains(out, "panic:") && !strings.Contains(out, "goroutine ") {
		// 1 and 255 are the tool's own exit codes after an error (-c mode, -exitonfail)
		o.add([]string{"exit"}, fmt.Sprintf("zygo exited with code %d before the end of the script", code))
		class = "exit:" + strconv.Itoa(code)
	}
	r.can.Install()
	det, _ := json.Marshal(o.detail)
	return JobResult{Effects: o.String(), Class: class, Detail: string(det)}
}

func (r *cmdRunner) names(shape cmdShape, candidates []string) (defined map[string]bool, ok bool) {
	var sb strings.Builder
	for i, n := range candidates {
		sb.WriteString("(cond (defined? " + quoteZ(n) + ") (println \"c08-name " + strconv.Itoa(i) + " true\") (println \"c08-name " + strconv.Itoa(i) + " false\"))\n")
	}
	out, _, _ := r.run(shape, sb.String(), 60*time.Second)
	defined = map[string]bool{}
	seen := 0
	for _, ln := range strings.Split(out, "\n") {
		f := strings.Fields(ln)
		if len(f) >= 3 && f[len(f)-3] == "c08-name" {
			i, _ := strconv.Atoi(f[len(f)-2])
			if i >= 0 && i < len(candidates) {
				seen++
				if f[len(f)-1] == "true" {
					defined[candidates[i]] = true
				}
			}
		}
	}
	return defined, seen == len(candidates)
}

type cmdlineDiff struct {
	Argv       string   `json:"argv"`
	Unexpected []string `json:"unexpected"` // defined under this command line, not bound in the sandbox + StandardSetup
	Missing    []string `json:"missing"`
	ProbeOK    bool     `json:"probe_ok"`
}

// runCmdlines appends its jobs (with results) to jobs/results and returns the name differences.
func runCmdlines(root, zygoBin, tier string, rng *lib.Rng, candidates, specials []string, expected map[string]string,
	jobs *[]Job, results map[int]JobResult, stats map[string]int) []cmdlineDiff {
	dir := filepath.Join(root, "cmdline")
	os.MkdirAll(dir, 0755)
	can := NewCanary(filepath.Join(dir, "world"), "C1")
	os.MkdirAll(can.Dir, 0755)
	if err := can.Install(); err != nil {
		panic(err)
	}
	r := &cmdRunner{zygoBin: zygoBin, dir: dir, can: can, stats: stats}
	var diffs []cmdlineDiff
	addJob := func(shape cmdShape, j Job) {
		j.ID = len(*jobs) + 1
		j.Cfg = "bin"
		j.Argv = shape
		j.Tags = append(j.Tags, "cmdline")
		res := r.canary(shape, j)
		*jobs = append(*jobs, j)
		results[j.ID] = res
	}
	unsafe := func(n string) bool {
		return strings.ContainsAny(n, " \t\n()[]{}\"';`~^") || n == "" || n == "&" || n == "." || n == ":"
	}
	for _, shape := range cmdShapes(tier, rng) {
		stats["cmdline_shapes"]++
		// (1) names
		def, ok := r.names(shape, candidates)
		d := cmdlineDiff{Argv: shape.String(), ProbeOK: ok}
		if ok {
			for _, n := range candidates {
				_, exp := expected[n]
				if def[n] && !exp {
					d.Unexpected = append(d.Unexpected, n)
				}
				if !def[n] && exp && expected[n] != "macro" {
					d.Missing = append(d.Missing, n)
				}
			}
		}
		sort.Strings(d.Unexpected)
		if !ok || len(d.Unexpected) > 0 || len(d.Missing) > 0 {
			diffs = append(diffs, d)
		}
		// (2) canaries: the entries that need no binding, with the shapes that matter ...
		for _, sf := range specials {
			if sf == "include" || !knownPureSpecial[sf] {
				for _, sh := range [][]string{{aSecret}, {aArr}} {
					addJob(shape, forms("bin", "special", sf, sh, false)[0])
				}
			}
		}
		// ... and every name that should not be there (at most 8 per command line)
		k := 0
		for _, n := range d.Unexpected {
			if unsafe(n) || k >= 8 {
				continue
			}
			k++
			for _, sh := range quickShapes() {
				addJob(shape, forms("bin", "unbound", n, sh, false)[0])
			}
		}
	}
	return diffs
}

// special forms that are flow control / definition syntax: calling them with a canary path proves nothing
// and most of them are not even valid with one string argument.  Everything NOT listed here (include, and
// whatever a change adds) is called under every command line.
var knownPureSpecial = map[string]bool{"and": true, "or": true, "cond": true, "quote": true, "def": true, "mdef": true, "fn": true,
	"defn": true, "begin": true, "let": true, "letseq": true, "assert": true, "defmac": true, "macexpand": true, "syntaxQuote": true,
	"for": true, "set": true, "break": true, "continue": true, "newScope": true, "package": true, "return": true, "_ls": true,
	"infix": true, "unquote": true, "unquote-splicing": true}
