package main

// The interpreter FAMILY (coq/Model/Family.v): histories of constructor / setup / Duplicate / Clone / script-level
// definition operations executed in ONE process against the real interpreters; for a target member the harness
// observes (a) which names have a non-value binding (compared with names_of of the extracted model) and (b) the
// canary effects of scripts run on it (compared with family_predicted; none allowed when the member descends
// from NewZlispSandbox -- origin_of, the specification).
//
// History text: ops joined by ','  --  S NewZlispSandbox, F NewZlisp, U<i> StandardSetup on member i,
// M<i> ImportDemoData, D<i> Duplicate, C<i> Clone, V<i>:<name> script (def name 0), A<i>:<n>:<m> script (def n m);
// then '@' and the index of the target member.

import (
	"sort"
	"strconv"
	"strings"

	"github.com/glycerine/zygomys/v9/zygo"
	"verif/harness/lib"
)

// buildFamily executes a history; returns the members and the root interpreters (to close).
func buildFamily(hist string) (members []*zygo.Zlisp, roots []*zygo.Zlisp) {
	h := hist
	if i := strings.LastIndexByte(h, '@'); i >= 0 {
		h = h[:i]
	}
	for _, op := range strings.Split(h, ",") {
		if op == "" {
			continue
		}
		idx := func(s string) (*zygo.Zlisp, bool) {
			k, err := strconv.Atoi(s)
			if err != nil || k < 0 || k >= len(members) {
				return nil, false
			}
			return members[k], true
		}
		switch op[0] {
		case 'S':
			e := zygo.NewZlispSandbox()
			members, roots = append(members, e), append(roots, e)
		case 'F':
			e := zygo.NewZlisp()
			members, roots = append(members, e), append(roots, e)
		case 'U':
			if e, ok := idx(op[1:]); ok {
				e.StandardSetup()
			}
		case 'M':
			if e, ok := idx(op[1:]); ok {
				e.ImportDemoData()
			}
		case 'D':
			if e, ok := idx(op[1:]); ok {
				members = append(members, e.Duplicate())
			}
		case 'C':
			if e, ok := idx(op[1:]); ok {
				members = append(members, e.Clone())
			}
		case 'V':
			p := strings.SplitN(op[1:], ":", 2)
			if e, ok := idx(p[0]); ok && len(p) == 2 {
				lib.Eval(e, "(def "+p[1]+" 0)", 100000)
			}
		case 'A':
			p := strings.SplitN(op[1:], ":", 3)
			if e, ok := idx(p[0]); ok && len(p) == 3 {
				lib.Eval(e, "(def "+p[1]+" "+p[2]+")", 100000)
			}
		default:
			panic("family history: unknown op " + op)
		}
	}
	return
}

func familyTarget(hist string) int {
	if i := strings.LastIndexByte(hist, '@'); i >= 0 {
		k, _ := strconv.Atoi(hist[i+1:])
		return k
	}
	return 0
}

// familyNames: names with a non-value, non-type binding in any table of the member, sorted, unique.
func familyNames(e *zygo.Zlisp) string {
	seen := map[string]bool{}
	types := map[string]bool{}
	for _, b := range e.VerifBindings() {
		if b.Kind == "type" {
			// a registered Go struct type bound under this name (StandardSetup binds every entry of the process-global
			// GoStructRegistry): it REPLACES whatever the name was bound to in the global scope
			types[b.Name] = true
			continue
		}
		if strings.HasPrefix(b.Kind, "value:") {
			continue
		}
		seen[b.Name] = true
	}
	var ns, ts []string
	odd := func(n string) bool { return n == "" || strings.ContainsAny(n, " \t\n\r,;") }
	for n := range seen {
		if odd(n) {
			n = "<odd name>" // cannot be written in this list; the model has no such name, so it shows up as a difference
		}
		ns = append(ns, n)
	}
	for n := range types {
		// type names are arbitrary strings (earlier scripts of this process may have registered "echo ZYGPWN > ..." through defmap)
		if !seen[n] && !odd(n) {
			ts = append(ts, n)
		}
	}
	sort.Strings(ns)
	sort.Strings(ts)
	return "names:" + strings.Join(ns, ",") + ";types:" + strings.Join(ts, ",")
}

type famHist struct {
	Hist    string
	Sandbox bool // the target descends from NewZlispSandbox (scheduling only; the verdict is the model's origin_of)
	Std     bool // some StandardSetup reached the target's world
}

// familyHistories: a systematic part (every operation applied to / through a duplicate, setup through a duplicate,
// an unrestricted interpreter made and set up BEFORE the sandbox in the same process, demo data, script-level
// definitions of names the unrestricted tables bind) and a random part.
func familyHistories(tier string, rng *lib.Rng, foreign []string) []famHist {
	var out []famHist
	add := func(h string, sb, std bool) { out = append(out, famHist{h, sb, std}) }
	add("S@0", true, false)
	add("S,D0@1", true, false)
	add("S,C0@1", true, false)
	add("S,U0@0", true, true)
	add("S,U0,D0@1", true, true)
	add("S,U0,C0@1", true, true)
	add("S,D0,U1@0", true, true)
	add("S,D0,U1@1", true, true)
	add("S,C0,U1@1", true, true)
	add("S,U0,D0,D1@2", true, true)
	add("S,U0,C0,D1@2", true, true)
	add("S,U0,D0,C1@2", true, true)
	add("F,U0,S,U1@1", true, true)
	add("F,U0,S,U1,D1@2", true, true)
	add("F,U0,D0,S,D2,U3@3", true, true)
	add("S,U0,F,U1@0", true, true)
	add("S,U0,M0@0", true, true)
	add("S,U0,M0,D0@1", true, true)
	add("S,M0,U0,C0@1", true, true)
	add("S,U0,A0:c08al:println,D0@1", true, true)
	if len(foreign) > 0 {
		var vs []string
		for _, n := range foreign {
			vs = append(vs, "V0:"+n)
		}
		add("S,U0,"+strings.Join(vs, ",")+"@0", true, true)
		add("S,"+strings.Join(vs, ",")+",U0,D0@1", true, true)
		k := 10
		if tier == "thorough" {
			k = len(foreign)
		}
		// a rotating window of single names (the whole list in the thorough tier)
		off := rng.Intn(len(foreign))
		for i := 0; i < k && i < len(foreign); i++ {
			n := foreign[(off+i)%len(foreign)]
			add("S,U0,V0:"+n+"@0", true, true)
		}
	}
	// controls: the unrestricted family (the canaries must fire through duplicates as well)
	add("F,U0@0", false, true)
	add("F,U0,D0@1", false, true)
	add("F,U0,C0@1", false, true)
	add("S,U0,F,U1,D1@2", false, true)
	nRand := 30
	if tier == "thorough" {
		nRand = 300
	}
	for r := 0; r < nRand; r++ {
		var ops []string
		var origin []bool // per member
		var world []int
		var wstd []bool
		demo := false
		n := 3 + rng.Intn(6)
		for len(ops) < n {
			if len(origin) == 0 || rng.Intn(5) == 0 {
				sb := rng.Intn(3) != 0
				if sb {
					ops = append(ops, "S")
				} else {
					ops = append(ops, "F")
				}
				origin = append(origin, sb)
				world = append(world, len(wstd))
				wstd = append(wstd, false)
				continue
			}
			i := rng.Intn(len(origin))
			is := strconv.Itoa(i)
			switch rng.Intn(7) {
			case 0, 1:
				ops = append(ops, "U"+is)
				wstd[world[i]] = true
			case 2, 3:
				ops = append(ops, "D"+is)
				origin = append(origin, origin[i])
				world = append(world, world[i])
			case 4:
				ops = append(ops, "C"+is)
				origin = append(origin, origin[i])
				world = append(world, world[i])
			case 5:
				if !demo {
					demo = true
					ops = append(ops, "M"+is)
				}
			case 6:
				if origin[i] && len(foreign) > 0 {
					ops = append(ops, "V"+is+":"+foreign[rng.Intn(len(foreign))])
				} else {
					ops = append(ops, "V"+is+":c08fresh"+strconv.Itoa(r))
				}
			}
		}
		t := rng.Intn(len(origin))
		add(strings.Join(ops, ",")+"@"+strconv.Itoa(t), origin[t], wstd[world[t]])
	}
	return out
}

// familyJobs: for every history a names job and canary scripts on the target: the binding-free entries (special forms
// that are not flow control: include and whatever a change adds) through the forms that compile in the member itself,
// in a duplicate made by macro expansion, in the duplicate expectError makes, through eval; and direct calls of every
// name the unrestricted tables bind to an effectful function (unbound in a sandbox: controls there, canaries when a
// change lets them in).
func familyJobs(tier string, rng *lib.Rng, specials []string, foreign []string) []Job {
	var js []Job
	for _, fh := range familyHistories(tier, rng, foreign) {
		mk := func(entry, kind, form string, pre []string, script, abs string, tags ...string) {
			js = append(js, Job{Cfg: "fam", Hist: fh.Hist, Entry: entry, Kind: kind, Form: form, Pre: pre, Script: script, Abs: abs,
				Tags: append([]string{"form:" + form, "kind:" + kind, "family"}, tags...)})
		}
		if fh.Sandbox {
			mk("<names>", "names", "names", nil, "", "names", "fam-sandbox")
		} else {
			mk("<names>", "names", "names", nil, "", "names")
		}
		for _, sf := range specials {
			if knownPureSpecial[sf] {
				continue
			}
			for _, sh := range [][]string{{aSecret}, {aArr}, {aSymFile}} {
				for _, j := range forms("fam", "special", sf, sh, true) {
					switch j.Form {
					case "direct", "eval-quote", "macro-time-eval", "macro-time-call", "expect-error", "begin-nested", "user-macro":
						mk(sf, "special", j.Form, j.Pre, j.Script, j.Abs, shapeTag(sh))
					}
				}
			}
		}
		for _, n := range foreign {
			for _, sh := range [][]string{{aSecret}, {aCmd}, {aEnv}} {
				j := forms("fam", "function", n, sh, false)[0]
				kind := "unbound"
				if !fh.Sandbox {
					kind = "function"
				}
				mk(n, kind, "direct", nil, j.Script, j.Abs, shapeTag(sh))
			}
		}
	}
	return js
}

// familyFollowUps: names that a names case found bound (non-value) in a member descending from a sandbox although the
// sandbox + StandardSetup of this process (+ demo data) does not bind them are called with canary arguments in the same
// history, in a fresh worker process (so that histories beginning with an unrestricted interpreter replay faithfully).
func familyFollowUps(jobs []Job, results map[int]JobResult, expected map[string]string, unsafeName func(string) bool) []Job {
	demo := map[string]bool{}
	for _, n := range demoNames {
		demo[n] = true
	}
	type cand struct {
		hist  string
		names []string
	}
	var cs []cand
	for _, j := range jobs {
		if j.Cfg != "fam" || j.Kind != "names" {
			continue
		}
		sb := false
		for _, t := range j.Tags {
			if t == "fam-sandbox" {
				sb = true
			}
		}
		r, ok := results[j.ID]
		if !sb || !ok || !strings.HasPrefix(r.Effects, "names:") {
			continue
		}
		body := strings.SplitN(r.Effects[len("names:"):], ";types:", 2)[0]
		var extra []string
		for _, n := range strings.Split(body, ",") {
			if _, exp := expected[n]; exp || n == "" || demo[n] || unsafeName(n) || strings.HasPrefix(n, "c08") || strings.HasPrefix(n, "<") {
				continue
			}
			extra = append(extra, n)
		}
		if len(extra) > 0 {
			cs = append(cs, cand{j.Hist, extra})
		}
	}
	// histories that begin with an unrestricted interpreter first (they reproduce in a fresh process), short ones first
	sort.SliceStable(cs, func(a, b int) bool {
		fa, fb := strings.HasPrefix(cs[a].hist, "F"), strings.HasPrefix(cs[b].hist, "F")
		if fa != fb {
			return fa
		}
		return len(cs[a].hist) < len(cs[b].hist)
	})
	var out []Job
	for i, c := range cs {
		if i >= 6 || (i > 0 && strings.HasPrefix(cs[0].hist, "F") && !strings.HasPrefix(c.hist, "F")) {
			break // only histories that replay in a fresh process when there are such
		}
		for k, n := range c.names {
			if k >= 40 {
				break
			}
			for _, sh := range [][]string{{aSecret}, {aCmd}, {aEnv}, {aOut, aVal}} {
				j := forms("fam", "function", n, sh, false)[0]
				j.Hist = c.hist
				j.Form = "family-follow-up"
				j.Tags = []string{"form:family-follow-up", "kind:function", "family", shapeTag(sh)}
				out = append(out, j)
			}
		}
	}
	return out
}
