package main

// Script generation: every entry (bound name, special form, macro) x argument
// shapes x call forms, plus grammar-generated programs combining entries.
// Scripts use placeholders (@SECRET@ ...) that each worker replaces by the paths
// of its private canary directory; the recorded input keeps the placeholders.

import (
	"fmt"
	"strings"

	"verif/harness/lib"
)

type Job struct {
	ID     int      `json:"id"`
	Cfg    string   `json:"cfg"`
	Entry  string   `json:"entry"`
	Kind   string   `json:"kind"` // function builder macro special type value unbound
	Form   string   `json:"form"`
	Pre    []string `json:"pre,omitempty"`
	Script string   `json:"script"`
	Abs    string   `json:"abs"`
	Tags   []string `json:"tags,omitempty"`
	ScriptFile string `json:"script_file,omitempty"` // session jobs: the script file; Script is then the line sent to the repl
	Argv   []string `json:"argv,omitempty"` // command line template of the binary (@SCRIPT@ / @TEXT@), when not the default
	Hist   string   `json:"hist,omitempty"` // cfg "fam": the family history and the target member (family.go)
}

// Key: jobs with the same key may share one interpreter (family) in a worker.
func (j *Job) Key() string { return j.Cfg + "\x00" + j.Hist + "\x00" + j.Entry }

// Input is the tab-free case input: "<cfg> <abstract program> :: <script>".
func (j *Job) Input() string {
	s := strings.Join(append(append([]string{}, j.Pre...), j.Script), " ;; ")
	s = strings.ReplaceAll(strings.ReplaceAll(s, "\t", " "), "\n", " ")
	if j.ScriptFile != "" {
		s = "script file: " + strings.ReplaceAll(strings.TrimSpace(j.ScriptFile), "\n", " ") + " ;; stdin: " + s
	}
	if len(j.Argv) > 0 {
		s = "zygo " + strings.Join(j.Argv, " ") + " ;; " + s
	}
	if j.Cfg == "fam" {
		return "fam " + j.Hist + " " + j.Abs + " :: [" + j.Hist + "] " + s
	}
	return j.Cfg + " " + j.Abs + " :: " + s
}

const (
	aSecret   = `"@SECRET@"`
	aOut      = `"@OUT@"`
	aExisting = `"@EXISTING@"`
	aCmd      = `"echo ZYGPWN > @PWNED@"`
	aEnv      = `"` + envName + `"`
	aNewVar   = `"` + newVar + `"`
	aVal      = `"c08value"`
	aInt      = `43`
	aArr      = `["@SECRET@"]`
	aSym      = `(quote ` + envName + `)`
	aBuilt    = `(str "@DIR@" "/secret.zy")`
	// a path spelled as a SYMBOL: the secret file also exists as ./c08sym in the working directory, so entries
	// that receive their arguments unevaluated (macros, builders, special forms) or accept symbols see a file name
	aSecretMP = `"@SECRETMP@"`
	// data arguments: bytes that are NOT a well-formed msgpack value (0xc1 is never used; a 5-byte string cut short)
	aRawBad   = `(unbase64 "wQ==")`
	aRawTrunc = `(unbase64 "pWE=")`
	aSymFile  = symFileName
	aQSymFile = `(quote ` + symFileName + `)`
	// structured data (per-arity branches: a value to encode + a path to put it)
	aHash   = `(hash a: 1)`
	aArrInt = `[1 2]`
	// names / paths with the decorations a shell or a template engine expands: as symbol and as string
	aDollarSym = `(quote $` + envName + `)`
	aDollarStr = `"$` + envName + `"`
	aBraceStr  = `"${` + envName + `}"`
	aDollarArr = `[(quote $` + envName + `)]`
)

var pool1 = []string{aSecret, aOut, aExisting, aCmd, aEnv, aNewVar, aVal, aInt, aArr, aSym, aBuilt, aSymFile, aQSymFile, aSecretMP, aRawBad, aRawTrunc,
	aHash, aDollarSym, aDollarStr, aBraceStr, aDollarArr}

var pool2 = [][]string{
	{aSecret, aOut}, {aOut, aSecret}, {aOut, aVal}, {aExisting, aVal}, {aEnv, aVal}, {aNewVar, aVal},
	{aVal, aOut}, {aVal, aExisting}, {aCmd, aVal}, {aSecret, aSecret}, {aInt, aInt}, {aVal, aSecret},
	// (value, path) and (path, value) for every kind of value: arity-dependent branches that reach a file
	{aHash, aOut}, {aHash, aExisting}, {aHash, aSecret}, {aOut, aHash}, {aArrInt, aOut}, {aInt, aOut}, {aRawBad, aOut}, {aOut, aArrInt},
}

var pool3 = [][]string{
	{aOut, aVal, aVal}, {aVal, aOut, aVal}, {aNewVar, aVal, aVal}, {aSecret, aOut, aVal}, {aVal, aVal, aSecret}, {aExisting, aVal, aInt},
	{aHash, aOut, aVal}, {aOut, aHash, aVal}, {aHash, aVal, aOut},
}

func allShapes() [][]string {
	sh := [][]string{{}}
	for _, a := range pool1 {
		sh = append(sh, []string{a})
	}
	sh = append(sh, pool2...)
	sh = append(sh, pool3...)
	return sh
}

// the unrestricted control configuration: the shapes of the earlier rounds plus one of each new class
func controlShapes() [][]string {
	sh := [][]string{{}}
	for _, a := range pool1 {
		if a == aDollarStr || a == aBraceStr || a == aDollarArr {
			continue
		}
		sh = append(sh, []string{a})
	}
	sh = append(sh, pool2[:12]...)
	sh = append(sh, []string{aHash, aOut})
	sh = append(sh, pool3[:6]...)
	return sh
}

func smallShapes() [][]string {
	sh := [][]string{}
	for _, a := range pool1 {
		if a == aDollarStr || a == aBraceStr || a == aDollarArr {
			continue
		}
		sh = append(sh, []string{a})
	}
	sh = append(sh, []string{aOut, aVal}, []string{aNewVar, aVal}, []string{aHash, aOut})
	return sh
}

// the shapes used with the indirect call forms in the quick tier
func quickShapes() [][]string {
	return [][]string{{aSecret}, {aOut}, {aCmd}, {aEnv}, {aArr}, {aSymFile}, {aOut, aVal}, {aNewVar, aVal}}
}

func shapeTag(args []string) string {
	n := map[string]string{aSecret: "secret", aOut: "out", aExisting: "existing", aCmd: "cmd", aEnv: "env", aNewVar: "newvar",
		aVal: "val", aInt: "int", aArr: "arr", aSym: "sym", aBuilt: "built", aSymFile: "symfile", aQSymFile: "qsymfile", aSecretMP: "secretmp", aRawBad: "rawbad", aRawTrunc: "rawtrunc",
		aHash: "hash", aArrInt: "arrint", aDollarSym: "dollarsym", aDollarStr: "dollarstr", aBraceStr: "bracestr", aDollarArr: "dollararr"}
	var p []string
	for _, a := range args {
		p = append(p, n[a])
	}
	return "shape:" + strings.Join(p, ",")
}

func ks(n int) string { return strings.Repeat(" k", n) }

// abstract head of an entry
func absHead(kind, name string) (open string) {
	switch kind {
	case "special":
		return "(s " + name
	case "macro":
		return "(x " + name
	}
	return "(c r:" + name
}

func quoteZ(s string) string {
	return `"` + strings.ReplaceAll(strings.ReplaceAll(s, `\`, `\\`), `"`, `\"`) + `"`
}

// Forms returns the call forms of one entry with one argument shape.
// Aliasing forms are produced only for bound names (a special form / macro has no value to alias).
func forms(cfg, kind, name string, args []string, all bool) []Job {
	a := strings.Join(args, " ")
	n := len(args)
	call := "(" + name + " " + a + ")"
	if n == 0 {
		call = "(" + name + ")"
	}
	absCall := absHead(kind, name) + ks(n) + ")"
	mk := func(form string, pre []string, script, abs string) Job {
		return Job{Cfg: cfg, Entry: name, Kind: kind, Form: form, Pre: pre, Script: script, Abs: abs, Tags: []string{"form:" + form, "kind:" + kind, shapeTag(args)}}
	}
	js := []Job{mk("direct", nil, call, absCall)}
	if !all {
		return js
	}
	js = append(js,
		mk("infix", nil, "{"+call+"}", "(s infix "+absCall+")"),
		mk("eval-quote", nil, "(eval (quote "+call+"))", "(e "+absCall+")"),
		mk("eval-read", nil, "(eval (read "+quoteZ(call)+"))", "(e (q (c r:read k) "+absCall+"))"),
		mk("eval-str2sym", nil, "(eval (cons (str2sym "+quoteZ(name)+") (quote ("+a+"))))", "(e (q (c r:cons (c r:str2sym k) k) "+absCall+"))"),
		mk("user-macro", []string{"(defmac c08m [& r] ^(" + name + " ~@r))"}, "(c08m "+a+")",
			"(q (d c08m (s defmac (s syntaxQuote "+absCall+"))) (c r:c08m"+ks(n)+"))"),
		// code running at macro-expansion time (in the duplicated interpreter the compiler expands macros in)
		mk("macro-time-eval", []string{"(defmac c08t [] (eval (quote " + call + ")))"}, "(c08t)",
			"(q (d c08t (s defmac (e "+absCall+"))) (c r:c08t))"),
		mk("macro-time-call", []string{"(defmac c08u [] (begin " + call + " nil))"}, "(macexpand (c08u))",
			"(q (d c08u (s defmac (s begin "+absCall+"))) (s macexpand (c r:c08u)))"),
		// compiled and run in the duplicate the expectError builder makes (builders.go ExpectErrorBuilder)
		mk("expect-error", nil, "(expectError \"c08\" "+call+")", "(c r:expectError k "+absCall+")"),
		mk("begin-nested", nil, "(begin (let [c08x 1] (cond true "+call+" 0)))", "(s begin (s let (s cond "+absCall+")))"),
	)
	if kind == "special" || kind == "macro" {
		return js
	}
	ref := "r:" + name
	js = append(js,
		mk("alias", []string{"(def c08g " + name + ")"}, "(c08g "+a+")", "(q (d c08g "+ref+") (c r:c08g"+ks(n)+"))"),
		mk("let-alias", nil, "(let [c08g "+name+"] (c08g "+a+"))", "(s let (d c08g "+ref+") (c r:c08g"+ks(n)+"))"),
		mk("apply", nil, "(apply "+name+" ["+a+"])", "(c r:apply "+ref+" (c r:array"+ks(n)+"))"),
		mk("hash-held", []string{"(def c08h (hash f: " + name + "))"}, "((hget c08h f:) "+a+")",
			"(q (d c08h (c r:hash k "+ref+")) (c (c r:hget r:c08h k)"+ks(n)+"))"),
		mk("closure", []string{"(defn c08w [& r] (apply " + name + " r))"}, "(c08w "+a+")",
			"(q (d c08w (s defn (c r:apply "+ref+" k))) (c r:c08w"+ks(n)+"))"),
		mk("symbol-indirect", []string{"(def c08s (quote " + name + "))"}, "(c08s "+a+")",
			"(q (d c08s (s quote "+ref+")) (c r:c08s"+ks(n)+"))"),
		mk("dot-call", nil, "(."+name+" "+a+")", absCall),
	)
	if n >= 1 {
		js = append(js, mk("map", nil, "(map "+name+" ["+a+"])", "(c r:map "+ref+" (c r:array"+ks(n)+"))"))
	}
	return js
}

type Entry struct{ Kind, Name string }

// entryJobs: the systematic part of the search for one entry.
func entryJobs(cfg string, e Entry, tier string, control bool) []Job {
	var js []Job
	shs := allShapes()
	if control && tier != "thorough" {
		shs = controlShapes()
	}
	for _, sh := range shs {
		js = append(js, forms(cfg, e.Kind, e.Name, sh, false)...)
	}
	if control {
		return js
	}
	shapes := quickShapes()
	if tier == "thorough" {
		shapes = allShapes()
	}
	for _, sh := range shapes {
		js = append(js, forms(cfg, e.Kind, e.Name, sh, true)[1:]...)
	}
	return js
}

// grammar-generated programs: nested calls, several entries per program, arguments built
// by other entries, values stored and fetched, everything inside function bodies or loops.
func grammarJobs(cfg string, entries []Entry, n int, rng *lib.Rng) []Job {
	var js []Job
	if len(entries) == 0 {
		return js
	}
	pick := func() Entry { return entries[rng.Intn(len(entries))] }
	atom := func() string {
		if rng.Intn(24) == 0 {
			return symFileName + ".Secret"
		}
		return pool1[rng.Intn(len(pool1))]
	}
	var expr func(depth int) (string, string, []string)
	expr = func(depth int) (src, abs string, used []string) {
		if depth <= 0 || rng.Intn(4) == 0 {
			return atom(), "k", nil
		}
		e := pick()
		k := rng.Intn(4)
		var as, aa []string
		used = append(used, e.Name)
		for i := 0; i < k; i++ {
			s, a, u := expr(depth - 1)
			as = append(as, s)
			aa = append(aa, a)
			used = append(used, u...)
		}
		src = "(" + e.Name
		if len(as) > 0 {
			src += " " + strings.Join(as, " ")
		}
		src += ")"
		abs = absHead(e.Kind, e.Name)
		if len(aa) > 0 {
			abs += " " + strings.Join(aa, " ")
		}
		abs += ")"
		// pass a bound entry as a function value now and then
		if rng.Intn(5) == 0 {
			f := pick()
			if f.Kind != "special" && f.Kind != "macro" {
				src = "(" + e.Name + " " + f.Name + " " + strings.Join(as, " ") + ")"
				abs = absHead(e.Kind, e.Name) + " r:" + f.Name + " " + strings.Join(aa, " ") + ")"
				used = append(used, f.Name)
			}
		}
		return
	}
	for i := 0; i < n; i++ {
		s, a, used := expr(1 + rng.Intn(3))
		form := "grammar"
		switch rng.Intn(6) {
		case 0:
			s, a = "(begin (defn c08f [] "+s+") (c08f))", "(q (d c08f (s defn "+a+")) (c r:c08f))"
			form = "grammar-fn"
		case 1:
			s, a = "(for [(def c08i 0) (< c08i 2) (set c08i (+ c08i 1))] "+s+")", "(s for "+a+")"
			form = "grammar-loop"
		case 2:
			s, a = "(eval (quote "+s+"))", "(e "+a+")"
			form = "grammar-eval"
		case 3:
			s, a = "{c08v = "+s+"}", "(s infix "+a+")"
			form = "grammar-infix"
		}
		if len(used) == 0 {
			continue
		}
		js = append(js, Job{Cfg: cfg, Entry: strings.Join(used, " "), Kind: "program", Form: form, Script: s, Abs: a,
			Tags: []string{"form:" + form, fmt.Sprintf("entries:%d", len(used))}})
	}
	return js
}


// foreignNameJobs: the VM hands a builtin the NAME it was called under, and several builtins dispatch on it
// (regexpFind / regexpMatch, send / <!, = / :=). For a call through a symbol value that name is the symbol's,
// not the function's own: (def M F) (def c08v (quote M)) (c08v args) runs F's code under the name M.
// Every representative function object F of the configuration is run under every foreign name M.
func foreignNameJobs(cfg string, f Entry, foreign []string) []Job {
	var js []Job
	for _, m := range foreign {
		if m == f.Name {
			continue
		}
		for _, sh := range [][]string{{aSecret}, {aSecretMP}, {aCmd}, {aEnv}} {
			a := strings.Join(sh, " ")
			js = append(js, Job{Cfg: cfg, Entry: f.Name, Kind: f.Kind, Form: "foreign-name",
				Pre:    []string{"(def " + m + " " + f.Name + ")", "(def c08v (quote " + m + "))"},
				Script: "(c08v " + a + ")",
				Abs:    "(q (d " + m + " r:" + f.Name + ") (d c08v (s quote r:" + m + ")) (c r:c08v" + ks(len(sh)) + "))",
				Tags:   []string{"form:foreign-name", "kind:" + f.Kind, shapeTag(sh)}})
		}
	}
	return js
}

// mentionJobs: programs that merely MENTION names nothing binds -- plain, dotted, called, assigned from --
// while files with names a resolver could derive from them (./c08sym, ./c08sym.zy) exist in the working directory.
func mentionJobs(cfg string) []Job {
	n := symFileName
	texts := [][2]string{
		{n, "r:" + n},
		{n + ".Secret", "r:" + n + ".Secret"},
		{"(" + n + ".Get)", "(c r:" + n + ".Get)"},
		{"(" + n + ".Get 1 " + aVal + ")", "(c r:" + n + ".Get k k)"},
		{"(def c08x " + n + ".Secret)", "(d c08x r:" + n + ".Secret)"},
		{"(println " + n + ".Secret)", "(c r:println r:" + n + ".Secret)"},
		{"(" + n + " 1)", "(c r:" + n + " k)"},
		{"(" + n + ".zy)", "(c r:" + n + ".zy)"},
		{n + ".zy", "r:" + n + ".zy"},
		{"(." + n + ")", "(c r:" + n + ")"},
		{"(set " + n + ".Secret 1)", "(s set r:" + n + ".Secret k)"},
		{"{c08y = " + n + ".Secret}", "(s infix r:" + n + ".Secret)"},
		{"(fn [] " + n + ".Secret)", "(s fn r:" + n + ".Secret)"},
		{"((fn [] (" + n + ".Get)))", "(c (s fn (c r:" + n + ".Get)))"},
		{"(eval (quote " + n + ".Secret))", "(e r:" + n + ".Secret)"},
		{"(defined? (quote " + n + ".Secret))", "(c r:defined? k)"},
		{"(defined? \"" + n + ".Secret\")", "(c r:defined? k)"},
		{"(-> " + n + " Secret:)", "(c r:-> r:" + n + " k)"},
		{"(hget " + n + " Secret:)", "(c r:hget r:" + n + " k)"},
		{"$" + n, "k"},
	}
	var js []Job
	for _, t := range texts {
		js = append(js, Job{Cfg: cfg, Entry: n, Kind: "mention", Form: "mention", Script: t[0], Abs: t[1],
			Tags: []string{"form:mention", "kind:mention"}})
	}
	return js
}
