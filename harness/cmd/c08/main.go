// c08: a sandboxed interpreter cannot reach the outside world.
//
// The harness builds the REAL interpreters (bare sandbox, sandbox + StandardSetup, the
// unrestricted interpreter as a control, and the cmd/zygo binary under -sandbox), dumps what
// is bound in them (compared with the translator's tables by checks/c08.py), and calls every
// entry with canary arguments through many call forms, observing the canary world:
// secret token visible to the script (file read / env read), canary files created or changed,
// canary shell command executed, environment changed, working directory changed, process exit.
//
// Risky calls run in worker subprocesses of this harness (so os.Exit is observable and harmless);
// every subprocess has a timeout; all files live under one os.MkdirTemp directory that is removed.
package main

import (
	"encoding/json"
	"fmt"
	"os"
	"os/exec"
	"path/filepath"
	"runtime/pprof"
	"sort"
	"strconv"
	"strings"
	"time"

	"github.com/glycerine/zygomys/v9/zygo"
	"verif/harness/lib"
)

// ---------- tables handed over by the translator (names only; used to know what to call) -------

type Tables struct {
	SpecialForms [][2]string            `json:"special_forms"`
	AllNames     []string               `json:"all_names"` // every script name of every table in the source
	Effects      map[string][]string    `json:"effects"`
	Configs      map[string]struct {
		Bindings []struct {
			Name string `json:"name"`
			Kind string `json:"kind"`
			Fn   string `json:"fn"`
		} `json:"bindings"`
	} `json:"configs"`
}

func newEnv(cfg string) *zygo.Zlisp {
	switch cfg {
	case "bare":
		return zygo.NewZlispSandbox()
	case "std":
		e := zygo.NewZlispSandbox()
		e.StandardSetup()
		return e
	case "full":
		e := zygo.NewZlisp()
		e.StandardSetup()
		return e
	}
	panic("unknown cfg " + cfg)
}

// ---------- worker -----------------------------------------------------------------------------

func subst(s string, c *Canary) string {
	r := strings.NewReplacer("@SECRETMP@", c.SecretMP, "@SECRET@", c.Secret, "@OUT@", c.Out, "@EXISTING@", c.Existing, "@PWNED@", c.Pwned, "@DIR@", c.Dir)
	return r.Replace(s)
}

func textOf(r lib.Result) (s string) {
	defer func() {
		if x := recover(); x != nil {
			s = fmt.Sprintf("unprintable:%v", x)
		}
	}()
	switch r.Class {
	case lib.OutValue:
		if r.Val == nil {
			return ""
		}
		return r.Val.SexpString(nil)
	case lib.OutError:
		return r.Err.Error()
	case lib.OutPanic:
		return fmt.Sprint(r.Panic)
	}
	return ""
}

type obs struct {
	effects map[string]bool
	detail  []string
}

func (o *obs) add(effs []string, det ...string) {
	for _, e := range effs {
		o.effects[e] = true
	}
	o.detail = append(o.detail, det...)
}

func (o *obs) String() string {
	if len(o.effects) == 0 {
		return "-"
	}
	var k []string
	for e := range o.effects {
		k = append(k, e)
	}
	sort.Strings(k)
	return strings.Join(k, ",")
}

func worker(jobsPath string, from int, dir, tag, logPath, stdoutPath string) {
	var jobs []Job
	b, err := os.ReadFile(jobsPath)
	if err != nil {
		panic(err)
	}
	if err := json.Unmarshal(b, &jobs); err != nil {
		panic(err)
	}
	can := NewCanary(dir, tag)
	if err := can.EnterProcess(); err != nil {
		panic(err)
	}
	can.Snapshot()
	logf, err := os.OpenFile(logPath, os.O_APPEND|os.O_WRONLY|os.O_CREATE, 0644)
	if err != nil {
		panic(err)
	}
	var outOff int64
	if st, err := os.Stat(stdoutPath); err == nil {
		outOff = st.Size()
	}
	current := make(chan int, 1)
	go func() { // watchdog: one job may not take longer than 8 s
		id := -1
		t := time.NewTimer(time.Hour)
		for {
			select {
			case id = <-current:
				t.Reset(8 * time.Second)
			case <-t.C:
				fmt.Fprintf(logf, "H %d\n", id)
				os.Exit(97)
			}
		}
	}()
	if pf := os.Getenv("C08_PROF"); pf != "" {
		f, _ := os.Create(pf + "." + tag)
		pprof.StartCPUProfile(f)
		defer pprof.StopCPUProfile()
	}
	var env *zygo.Zlisp
	var roots []*zygo.Zlisp // what to close: the interpreter itself, or the root interpreters of a family
	closeEnv := func() {
		for _, r := range roots {
			r.Close()
		}
		roots, env = nil, nil
	}
	envKey := ""
	for i := from; i < len(jobs); i++ {
		j := jobs[i]
		key := j.Key()
		if env == nil || key != envKey {
			closeEnv()
			if j.Cfg == "fam" {
				var members []*zygo.Zlisp
				members, roots = buildFamily(j.Hist)
				t := familyTarget(j.Hist)
				if t < 0 || t >= len(members) {
					panic("family history without its target: " + j.Hist)
				}
				env = members[t]
			} else {
				env = newEnv(j.Cfg)
				roots = []*zygo.Zlisp{env}
			}
			envKey = key
		}
		if j.Kind == "names" {
			fmt.Fprintf(logf, "B %d\n", j.ID)
			fmt.Fprintf(logf, "E %d %s %s %s\n", j.ID, familyNames(env), "names", "[]")
			continue
		}
		current <- j.ID
		fmt.Fprintf(logf, "B %d\n", j.ID)
		o := &obs{effects: map[string]bool{}}
		class := ""
		for _, p := range j.Pre {
			r := lib.Eval(env, subst(p, can), 200000)
			o.add(can.ObserveText(textOf(r)))
		}
		r := lib.Eval(env, subst(j.Script, can), 200000)
		class = r.Class
		o.add(can.ObserveText(textOf(r)))
		// content of the secret file compiled into the interpreter?
		r2 := lib.Eval(env, "c08leak", 1000)
		if r2.Class == lib.OutValue {
			if e := can.ObserveText(textOf(r2)); len(e) > 0 {
				o.add(e, "secret file was compiled: c08leak is bound")
			}
		}
		fe, fd := can.ObserveFilesFast()
		o.add(fe, fd...)
		pe, pd := can.ObserveProcess()
		o.add(pe, pd...)
		// what the script printed
		if st, err := os.Stat(stdoutPath); err == nil && st.Size() > outOff {
			if f, err := os.Open(stdoutPath); err == nil {
				buf := make([]byte, st.Size()-outOff)
				f.ReadAt(buf, outOff)
				f.Close()
				outOff = st.Size()
				if e := can.ObserveText(string(buf)); len(e) > 0 {
					o.add(e, "token printed on stdout")
				}
			}
		}
		if len(o.effects) > 0 {
			can.Install()
			can.Snapshot()
			closeEnv()
		}
		det, _ := json.Marshal(o.detail)
		fmt.Fprintf(logf, "E %d %s %s %s\n", j.ID, o.String(), class, det)
	}
	closeEnv()
	logf.Close()
	pprof.StopCPUProfile()
	os.Exit(0)
}

// ---------- parent: run a job list through workers ----------------------------------------------

type JobResult struct {
	Effects string // "-" or comma list
	Class   string // value error panic budget | exit:<code> crash hang
	Detail  string
}

func runJobs(root string, jobs []Job, tag string, stats map[string]int) map[int]JobResult {
	res := map[int]JobResult{}
	if len(jobs) == 0 {
		return res
	}
	dir := filepath.Join(root, "w"+tag)
	os.MkdirAll(dir, 0755)
	can := NewCanary(filepath.Join(dir, "world"), tag)
	os.MkdirAll(can.Dir, 0755)
	if err := can.Install(); err != nil {
		panic(err)
	}
	jobsPath := filepath.Join(dir, "jobs.json")
	b, _ := json.Marshal(jobs)
	os.WriteFile(jobsPath, b, 0644)
	logPath := filepath.Join(dir, "log")
	stdoutPath := filepath.Join(dir, "stdout")
	stderrPath := filepath.Join(dir, "stderr")
	self, _ := os.Executable()
	idx := map[int]int{}
	for i, j := range jobs {
		idx[j.ID] = i
	}
	from := 0
	hangs := map[string]int{}
	for from < len(jobs) {
		os.Remove(logPath)
		so, _ := os.Create(stdoutPath)
		se, _ := os.Create(stderrPath)
		cmd := exec.Command(self, "--worker", jobsPath, "--from", strconv.Itoa(from), "--dir", can.Dir, "--tag", tag, "--log", logPath, "--wstdout", stdoutPath)
		cmd.Stdout = so
		cmd.Stderr = se
		cmd.Stdin = strings.NewReader(can.TokStdin + "\n" + can.TokStdin + "\n")
		cmd.Dir = dir
		done := make(chan error, 1)
		if err := cmd.Start(); err != nil {
			panic(err)
		}
		go func() { done <- cmd.Wait() }()
		limit := time.Duration(120+len(jobs)/50) * time.Second
		var werr error
		timedOut := false
		select {
		case werr = <-done:
		case <-time.After(limit):
			cmd.Process.Kill()
			<-done
			timedOut = true
		}
		so.Close()
		se.Close()
		stats["worker_processes"]++
		logb, _ := os.ReadFile(logPath)
		began := -1
		for _, ln := range strings.Split(string(logb), "\n") {
			f := strings.SplitN(ln, " ", 5)
			switch {
			case len(f) >= 2 && f[0] == "B":
				began, _ = strconv.Atoi(f[1])
			case len(f) >= 4 && f[0] == "E":
				id, _ := strconv.Atoi(f[1])
				r := JobResult{Effects: f[2], Class: f[3]}
				if len(f) == 5 {
					r.Detail = f[4]
				}
				res[id] = r
				began = -1
			case len(f) >= 2 && f[0] == "H":
				began, _ = strconv.Atoi(f[1])
			}
		}
		if werr == nil && !timedOut && began == -1 {
			break // worker finished the list
		}
		// the worker died inside job `began`
		code := -1
		if cmd.ProcessState != nil {
			code = cmd.ProcessState.ExitCode()
		}
		if began == -1 {
			panic(fmt.Sprintf("worker died outside a job (exit %d, timeout %v): %s", code, timedOut, tail(stderrPath)))
		}
		o := &obs{effects: map[string]bool{}}
		fe, fd := can.ObserveFiles()
		o.add(fe, fd...)
		stderrTxt := tail(stderrPath)
		class := ""
		switch {
		case timedOut || code == 97:
			class = "hang"
			stats["hang"]++
		case strings.Contains(stderrTxt, "fatal error:") || strings.Contains(stderrTxt, "panic:") || strings.Contains(stderrTxt, "goroutine "):
			class = "crash"
			stats["crash"]++
			o.detail = append(o.detail, "host crashed: "+firstLine(stderrTxt))
		default:
			class = "exit:" + strconv.Itoa(code)
			o.add([]string{"exit"}, fmt.Sprintf("host process exited with code %d", code))
		}
		det, _ := json.Marshal(o.detail)
		res[began] = JobResult{Effects: o.String(), Class: class, Detail: string(det)}
		can.Install()
		from = idx[began] + 1
		if class == "hang" {
			// an entry that hangs twice is not called again in this configuration
			k := jobs[idx[began]].Key()
			hangs[k]++
			if hangs[k] >= 2 {
				for from < len(jobs) && jobs[from].Key() == k {
					res[jobs[from].ID] = JobResult{Effects: "-", Class: "skipped-after-hang"}
					stats["skipped_after_hang"]++
					from++
				}
			}
		}
	}
	return res
}

func tail(path string) string {
	b, _ := os.ReadFile(path)
	if len(b) > 1500 {
		b = b[len(b)-1500:]
	}
	return string(b)
}

func firstLine(s string) string {
	for _, l := range strings.Split(s, "\n") {
		if strings.Contains(l, "fatal error:") || strings.Contains(l, "panic:") {
			return l
		}
	}
	return strings.SplitN(s, "\n", 2)[0]
}

// ---------- parent: the cmd/zygo binary under -sandbox -------------------------------------------

// The binary is driven in two ways: (a) `zygo -sandbox <script file>` for single scripts,
// (b) `zygo -sandbox -quiet -no-liner` reading one script per line from stdin, with marker
// lines in between, for the bulk of the canary calls.
func runBinary(root, zygoBin string, jobs []Job, stats map[string]int) map[int]JobResult {
	res := map[int]JobResult{}
	dir := filepath.Join(root, "bin")
	os.MkdirAll(dir, 0755)
	tag := "B1"
	can := NewCanary(filepath.Join(dir, "world"), tag)
	os.MkdirAll(can.Dir, 0755)
	if err := can.Install(); err != nil {
		panic(err)
	}
	run := func(args []string, stdin string, limit time.Duration) (string, int, bool) {
		cmd := exec.Command(zygoBin, args...)
		cmd.Dir = can.Cwd
		cmd.Env = append(os.Environ(), can.EnvName+"="+can.TokEnv, "TMPDIR="+can.Tmp, "HOME="+can.Dir)
		cmd.Stdin = strings.NewReader(stdin)
		outPath := filepath.Join(dir, "out.txt")
		of, _ := os.Create(outPath)
		cmd.Stdout = of
		cmd.Stderr = of
		if err := cmd.Start(); err != nil {
			panic(err)
		}
		done := make(chan error, 1)
		go func() { done <- cmd.Wait() }()
		timedOut := false
		select {
		case <-done:
		case <-time.After(limit):
			cmd.Process.Kill()
			<-done
			timedOut = true
		}
		of.Close()
		stats["binary_processes"]++
		b, _ := os.ReadFile(outPath)
		return string(b), cmd.ProcessState.ExitCode(), timedOut
	}
	// (b) batches through the REPL
	const mark = "c08-marker-"
	// Each job of a batch gets its own absent-path and pwned-path names, so files created in a
	// batch are attributed to the job by name; anything not attributable (secret/existing file
	// touched, unknown file created, missing markers = the process ended early) makes the
	// affected jobs run again one by one as script files.
	substJob := func(s string, j Job) string {
		id := strconv.Itoa(j.ID)
		r := strings.NewReplacer("@OUT@", filepath.Join(can.Dir, "out-"+id+".txt"), "@PWNED@", filepath.Join(can.Dir, "pwned-"+id))
		return subst(r.Replace(s), can)
	}
	pending := jobs
	for len(pending) > 0 {
		batch := pending
		if len(batch) > 300 {
			batch = batch[:300]
		}
		var sb strings.Builder
		for _, j := range batch {
			for _, p := range j.Pre {
				sb.WriteString(substJob(p, j) + "\n")
			}
			sb.WriteString(substJob(j.Script, j) + "\n")
			sb.WriteString("(println \"" + mark + strconv.Itoa(j.ID) + "\")\n")
		}
		out, _, _ := run([]string{"-sandbox", "-quiet", "-no-liner"}, sb.String(), 90*time.Second)
		// split the output at the markers
		doneN := 0
		rest := out
		for _, j := range batch {
			m := mark + strconv.Itoa(j.ID) + "\n"
			k := strings.Index(rest, m)
			if k < 0 {
				break
			}
			seg := rest[:k]
			rest = rest[k+len(m):]
			o := &obs{effects: map[string]bool{}}
			o.add(can.ObserveText(seg))
			if _, err := os.Lstat(filepath.Join(can.Dir, "pwned-"+strconv.Itoa(j.ID))); err == nil {
				o.add([]string{"process"}, "canary shell command ran (pwned file created)")
			}
			if _, err := os.Lstat(filepath.Join(can.Dir, "out-"+strconv.Itoa(j.ID)+".txt")); err == nil {
				o.add([]string{"file_write"}, "absent path was created")
			}
			det, _ := json.Marshal(o.detail)
			res[j.ID] = JobResult{Effects: o.String(), Class: "repl", Detail: string(det)}
			doneN++
		}
		// remove the attributed files, then look for anything else
		ents, _ := os.ReadDir(can.Dir)
		for _, e := range ents {
			if strings.HasPrefix(e.Name(), "pwned-") || strings.HasPrefix(e.Name(), "out-") {
				os.RemoveAll(filepath.Join(can.Dir, e.Name()))
			}
		}
		fe, _ := can.ObserveFiles()
		if len(fe) > 0 {
			// not attributable: every job of the batch again, alone
			can.Install()
			for _, j := range batch[:doneN] {
				res[j.ID] = runBinaryOne(can, run, dir, j)
			}
		}
		if doneN < len(batch) {
			// the process ended before this job's marker: run it alone
			can.Install()
			res[batch[doneN].ID] = runBinaryOne(can, run, dir, batch[doneN])
			doneN++
		}
		pending = pending[doneN:]
	}
	return res
}

func runBinaryOne(can *Canary, run func([]string, string, time.Duration) (string, int, bool), dir string, j Job) JobResult {
	script := filepath.Join(dir, "script.zy")
	var sb strings.Builder
	for _, p := range j.Pre {
		sb.WriteString(subst(p, can) + "\n")
	}
	sb.WriteString("(def c08result " + subst(j.Script, can) + ")\n(println (str c08result))\n(println \"c08-reached-end\")\n")
	os.WriteFile(script, []byte(sb.String()), 0644)
	out, code, timedOut := run([]string{"-sandbox", "-quiet", "-no-liner", script}, "c08leak\n", 20*time.Second)
	o := &obs{effects: map[string]bool{}}
	o.add(can.ObserveText(out))
	fe, fd := can.ObserveFiles()
	o.add(fe, fd...)
	class := "script"
	if timedOut {
		class = "hang"
	} else if code != 0 && !strings.Contains(out, "c08-reached-end") && !strings.Contains(out, "fatal error:") && !strings.Contains(out, "panic:") && !strings.Contains(out, "goroutine ") {
		o.add([]string{"exit"}, fmt.Sprintf("zygo -sandbox exited with code %d before the end of the script", code))
		class = "exit:" + strconv.Itoa(code)
	}
	can.Install()
	det, _ := json.Marshal(o.detail)
	return JobResult{Effects: o.String(), Class: class, Detail: string(det)}
}

// names defined in the binary: one script printing (defined? name) for every candidate
func binaryNames(root, zygoBin string, candidates []string) (defined []string, raw string) {
	dir := filepath.Join(root, "binnames")
	os.MkdirAll(dir, 0755)
	var sb strings.Builder
	for i, n := range candidates {
		sb.WriteString("(cond (defined? " + quoteZ(n) + ") (println \"c08-name " + strconv.Itoa(i) + " true\") (println \"c08-name " + strconv.Itoa(i) + " false\"))\n")
	}
	script := filepath.Join(dir, "names.zy")
	os.WriteFile(script, []byte(sb.String()), 0644)
	cmd := exec.Command(zygoBin, "-sandbox", "-quiet", "-no-liner", script)
	cmd.Dir = dir
	cmd.Stdin = strings.NewReader("")
	done := make(chan struct{})
	var out []byte
	go func() { out, _ = cmd.CombinedOutput(); close(done) }()
	select {
	case <-done:
	case <-time.After(60 * time.Second):
		if cmd.Process != nil {
			cmd.Process.Kill()
		}
		<-done
	}
	for _, ln := range strings.Split(string(out), "\n") {
		f := strings.Fields(ln)
		if len(f) == 3 && f[0] == "c08-name" && f[2] == "true" {
			i, _ := strconv.Atoi(f[1])
			if i >= 0 && i < len(candidates) {
				defined = append(defined, candidates[i])
			}
		}
	}
	sort.Strings(defined)
	return defined, string(out)
}

// ---------- main ---------------------------------------------------------------------------------

func flagVal(rest []string, name string) string {
	for i := 0; i+1 < len(rest); i++ {
		if rest[i] == name {
			return rest[i+1]
		}
	}
	return ""
}

func main() {
	a := lib.ParseArgs()
	if w := flagVal(a.Rest, "--worker"); w != "" {
		from, _ := strconv.Atoi(flagVal(a.Rest, "--from"))
		worker(w, from, flagVal(a.Rest, "--dir"), flagVal(a.Rest, "--tag"), flagVal(a.Rest, "--log"), flagVal(a.Rest, "--wstdout"))
		return
	}
	zygoBin := flagVal(a.Rest, "--zygo")
	tablesPath := flagVal(a.Rest, "--tables")
	bindingsOut := flagVal(a.Rest, "--bindings")
	var tabs Tables
	if tablesPath != "" {
		b, err := os.ReadFile(tablesPath)
		if err != nil {
			panic(err)
		}
		if err := json.Unmarshal(b, &tabs); err != nil {
			panic(err)
		}
	}
	root, err := os.MkdirTemp("", "c08-")
	if err != nil {
		panic(err)
	}
	defer os.RemoveAll(root)
	out := lib.NewOut(a.Out)
	out.Rule = "every entry (each name bound in the real interpreter of the configuration, each special form and macro of the translator's tables, each name of any function table in the source) x 30 canary argument shapes (0-3 arguments: secret file path, absent path, existing file path, shell command string, environment names, int, array, symbol, computed path) as a direct call, and x 13 shapes through 16 further call forms (alias, let, apply, map, eval of quote/read/str2sym, infix, user macro, code run at macro-expansion time, closure, hash-held value, symbol indirection, dot call, nested flow control); then grammar-generated programs combining entries; a case is non-trivial when the entry is bound / special / macro in that configuration (calls of unbound names are controls); distinct = distinct (configuration, script)"
	stats := map[string]int{}

	// 1. what is bound at run time
	type cfgDump struct {
		Cfg      string              `json:"cfg"`
		Bindings []zygo.VerifBinding `json:"bindings"`
	}
	var dumps []cfgDump
	bound := map[string]map[string]string{} // cfg -> name -> kind
	for _, cfg := range []string{"bare", "std", "full"} {
		env := newEnv(cfg)
		bs := env.VerifBindings()
		env.Close()
		dumps = append(dumps, cfgDump{cfg, bs})
		m := map[string]string{}
		for _, b := range bs {
			k := b.Kind
			if b.Table == "macro" {
				k = "macro"
			} else if strings.HasPrefix(k, "value:") {
				k = "value"
			}
			if old, ok := m[b.Name]; !ok || old == "function" || b.Table == "macro" {
				if !(ok && b.Table == "builtin") {
					m[b.Name] = k
				}
			}
		}
		bound[cfg] = m
	}
	{
		// what ImportDemoData adds to a sandbox + StandardSetup (cmd/zygo -sandbox -demo)
		e := zygo.NewZlispSandbox()
		e.StandardSetup()
		before := map[string]bool{}
		for _, b := range e.VerifBindings() {
			before[b.Table+"\x00"+b.Name] = true
		}
		e.ImportDemoData()
		seen := map[string]bool{}
		for _, b := range e.VerifBindings() {
			if !before[b.Table+"\x00"+b.Name] && !seen[b.Name] && b.Kind != "type" {
				seen[b.Name] = true
				demoNames = append(demoNames, b.Name)
			}
		}
		sort.Strings(demoNames)
		e.Close()
	}
	special := map[string]bool{}
	for _, sf := range tabs.SpecialForms {
		special[sf[0]] = true
	}
	// candidate names: everything any table of the source binds, whatever any configuration binds
	candSet := map[string]bool{}
	for _, n := range tabs.AllNames {
		candSet[n] = true
	}
	for _, m := range bound {
		for n := range m {
			candSet[n] = true
		}
	}
	for _, n := range demoNames {
		candSet[n] = true
	}
	var cands []string
	for n := range candSet {
		if !special[n] {
			cands = append(cands, n)
		}
	}
	sort.Strings(cands)
	var specials []string
	for n := range special {
		specials = append(specials, n)
	}
	sort.Strings(specials)

	entriesOf := func(cfg string) (es []Entry, live []Entry) {
		for _, n := range specials {
			es = append(es, Entry{"special", n})
			live = append(live, Entry{"special", n})
		}
		for _, n := range cands {
			k, ok := bound[cfg][n]
			if !ok {
				es = append(es, Entry{"unbound", n})
				continue
			}
			es = append(es, Entry{k, n})
			live = append(live, Entry{k, n})
		}
		return
	}
	// one representative bound name per distinct Go function (quick tier) for the foreign-name calls
	representative := map[string]map[string]bool{}
	for _, d := range dumps {
		seen := map[string]bool{}
		representative[d.Cfg] = map[string]bool{}
		for _, b := range d.Bindings {
			if b.Table != "global" || b.GoFunc == "" {
				continue
			}
			key := b.GoFunc
			if i := strings.LastIndex(key, ".func"); i >= 0 { // closures of one factory: CoreFunctions.CompareFunction.func1
				key = key[:i]
			}
			if k := strings.LastIndex(key, "."); k >= 0 {
				key = key[k+1:]
			}
			if !seen[key] {
				seen[key] = true
				representative[d.Cfg][b.Name] = true
			}
		}
	}
	likelyNames := effectfulNames(tabs)
	// foreign names: names of the source's tables that this configuration does not bind (the effectful ones when
	// the tables are available), spelled so that (def NAME ..) is legal
	foreignNames := func(cfg string) []string {
		var out []string
		for _, n := range cands {
			if _, ok := bound[cfg][n]; ok {
				continue
			}
			if len(likelyNames) > 0 && !likelyNames[n] {
				continue
			}
			ok := n != ""
			for _, r := range n {
				if !(r == '_' || r >= 'a' && r <= 'z' || r >= 'A' && r <= 'Z' || r >= '0' && r <= '9') {
					ok = false
				}
			}
			if ok && !(n[0] >= '0' && n[0] <= '9') {
				out = append(out, n)
			}
		}
		return out
	}
	unsafeName := func(n string) bool { // names that cannot be written as a call head in script text
		return strings.ContainsAny(n, " \t\n()[]{}\"';`~^") || n == "" || n == "&" || n == "." || n == ":"
	}

	rng := lib.NewRng(a.Seed)
	nGrammar := 1500
	if a.Tier == "thorough" {
		nGrammar = 20000
	}
	var jobs []Job
	if a.Replay != "" {
		// replay file: JSON with cfg, pre, script, abs
		b, err := os.ReadFile(a.Replay)
		if err != nil {
			panic(err)
		}
		var rj struct {
			Cfg    string   `json:"cfg"`
			Entry  string   `json:"entry"`
			Pre    []string `json:"pre"`
			Script string   `json:"script"`
			Abs    string   `json:"abs"`
			Argv   []string `json:"argv"`
			ScriptFile string `json:"script_file"`
			Hist   string   `json:"hist"`
		}
		if err := json.Unmarshal(b, &rj); err != nil {
			panic(err)
		}
		jobs = append(jobs, Job{Cfg: rj.Cfg, Entry: rj.Entry, Kind: "replay", Form: "replay", Pre: rj.Pre, Script: rj.Script, Abs: rj.Abs, Argv: rj.Argv, ScriptFile: rj.ScriptFile, Hist: rj.Hist})
	} else {
		for _, cfg := range []string{"bare", "std", "full"} {
			es, live := entriesOf(cfg)
			for _, e := range es {
				if unsafeName(e.Name) {
					stats["skipped_unwritable_names"]++
					continue
				}
				if e.Kind == "unbound" {
					// control: one direct call per 1-argument shape
					for _, sh := range smallShapes() {
						jobs = append(jobs, forms(cfg, "unbound", e.Name, sh, false)...)
					}
					continue
				}
				if cfg == "full" && (e.Name == "dump" || e.Name == "_closdump") {
					continue // control configuration only: goon.Dump of interpreter structures takes minutes
				}
				jobs = append(jobs, entryJobs(cfg, e, a.Tier, cfg == "full")...)
				if cfg != "full" && (e.Kind == "function" || e.Kind == "builder") && (a.Tier == "thorough" || representative[cfg][e.Name]) {
					jobs = append(jobs, foreignNameJobs(cfg, e, foreignNames(cfg))...)
				}
			}
			jobs = append(jobs, mentionJobs(cfg)...)
			if cfg != "full" {
				var w []Entry
				for _, e := range live {
					if !unsafeName(e.Name) {
						w = append(w, e)
					}
				}
				jobs = append(jobs, grammarJobs(cfg, w, nGrammar, rng.Fork())...)
			}
		}
		{
			// the interpreter family: names the unrestricted tables bind to effectful functions and a sandbox does not bind
			var nonFlow []string
			for _, sf := range specials {
				if !unsafeName(sf) {
					nonFlow = append(nonFlow, sf)
				}
			}
			jobs = append(jobs, familyJobs(a.Tier, rng.Fork(), nonFlow, foreignNames("std"))...)
		}
		if zygoBin != "" {
			es, _ := entriesOf("std")
			for _, e := range es {
				if unsafeName(e.Name) {
					continue
				}
				k := e.Kind
				for _, sh := range smallShapes() {
					js := forms("bin", k, e.Name, sh, false)
					jobs = append(jobs, js...)
				}
			}
			jobs = append(jobs, mentionJobs("bin")...)
		}
	}
	for i := range jobs {
		jobs[i].ID = i + 1
	}

	// 2. run
	var inproc, binjobs []Job
	for _, j := range jobs {
		if j.Cfg == "bin" {
			binjobs = append(binjobs, j)
		} else {
			inproc = append(inproc, j)
		}
	}
	results := map[int]JobResult{}
	// split the in-process jobs over a few workers running in parallel
	nw := 6
	type part struct {
		jobs []Job
		res  map[int]JobResult
		st   map[string]int
	}
	parts := make([]*part, nw+1)
	for i := range parts {
		parts[i] = &part{st: map[string]int{}}
	}
	// keep the jobs of one (cfg, entry) together.  Family histories that BEGIN with an unrestricted interpreter get a
	// worker process of their own (the last part): there the first constructor / first StandardSetup of the PROCESS is the
	// unrestricted one (process-global state: registries, once-initialised tables), in the other workers it is a sandbox's.
	pi := 0
	for i, j := range inproc {
		if j.Cfg == "fam" && strings.HasPrefix(j.Hist, "F") {
			parts[nw].jobs = append(parts[nw].jobs, j)
			continue
		}
		if i > 0 && inproc[i-1].Key() != j.Key() {
			pi = (pi + 1) % nw
		}
		parts[pi].jobs = append(parts[pi].jobs, j)
	}
	doneCh := make(chan int, nw+1)
	for i := range parts {
		go func(i int) {
			defer func() {
				if r := recover(); r != nil {
					fmt.Fprintf(os.Stderr, "worker group %d failed: %v\n", i, r)
					os.RemoveAll(root)
					os.Exit(3)
				}
			}()
			parts[i].res = runJobs(root, parts[i].jobs, "W"+strconv.Itoa(i), parts[i].st)
			doneCh <- i
		}(i)
	}
	for range parts {
		<-doneCh
	}
	for _, p := range parts {
		for k, v := range p.res {
			results[k] = v
		}
		for k, v := range p.st {
			stats[k] += v
		}
	}
	if a.Replay == "" {
		if fu := familyFollowUps(jobs, results, bound["std"], unsafeName); len(fu) > 0 {
			for i := range fu {
				fu[i].ID = len(jobs) + 1
				jobs = append(jobs, fu[i])
			}
			st := map[string]int{}
			for k, v := range runJobs(root, jobs[len(jobs)-len(fu):], "WG", st) {
				results[k] = v
			}
			for k, v := range st {
				stats[k] += v
			}
			stats["family_follow_up_jobs"] += len(fu)
		}
	}
	var binDefined []string
	var cmdDiffs, cmdAll []cmdlineDiff
	var sessAll []sessionObs
	if zygoBin != "" && a.Replay == "" {
		for k, v := range runBinary(root, zygoBin, binjobs, stats) {
			results[k] = v
		}
		all := append(append([]string{}, cands...), specials...)
		binDefined, _ = binaryNames(root, zygoBin, all)
		sessAll = runSessions(root, zygoBin, a.Tier, all, specials, bound["std"], bound["full"], effectfulNames(tabs), &jobs, results, stats)
		cmdDiffs, cmdAll = runCmdlines(root, zygoBin, a.Tier, rng.Fork(), all, specials, bound["std"], bound["full"], effectfulNames(tabs), &jobs, results, stats)
	} else if zygoBin != "" {
		// replay against the binary as well when the configuration asks for it
		var plain []Job
		for _, j := range binjobs {
			if len(j.Argv) == 0 {
				plain = append(plain, j)
				continue
			}
			dir := filepath.Join(root, "cmdline")
			os.MkdirAll(dir, 0755)
			can := NewCanary(filepath.Join(dir, "world"), "C1")
			os.MkdirAll(can.Dir, 0755)
			if err := can.Install(); err != nil {
				panic(err)
			}
			r := &cmdRunner{zygoBin: zygoBin, dir: dir, can: can, stats: stats}
			if j.ScriptFile != "" {
				results[j.ID] = r.sessionOne(j)
			} else {
				results[j.ID] = r.canary(cmdShape(j.Argv), j)
			}
		}
		for k, v := range runBinary(root, zygoBin, plain, stats) {
			results[k] = v
		}
	}

	// 3. report
	effectSeen := map[string]map[string]int{}
	var findings, anomalies []map[string]interface{}
	for _, j := range jobs {
		r, ok := results[j.ID]
		if !ok {
			r = JobResult{Effects: "-", Class: "not-run"}
			stats["not_run"]++
		}
		nontrivial := j.Kind != "unbound"
		tags := append([]string{"cfg:" + j.Cfg, "class:" + strings.SplitN(r.Class, ":", 2)[0]}, j.Tags...)
		out.Case(j.Input(), r.Effects, nontrivial, tags...)
		if r.Class == "hang" || r.Class == "crash" {
			anomalies = append(anomalies, map[string]interface{}{"cfg": j.Cfg, "entry": j.Entry, "pre": j.Pre, "script": j.Script, "class": r.Class, "detail": r.Detail})
		}
		if r.Effects != "-" && j.Kind != "names" {
			if effectSeen[j.Cfg] == nil {
				effectSeen[j.Cfg] = map[string]int{}
			}
			for _, e := range strings.Split(r.Effects, ",") {
				effectSeen[j.Cfg][e]++
			}
			if len(findings) < 4000 {
				findings = append(findings, map[string]interface{}{"id": j.ID, "cfg": j.Cfg, "entry": j.Entry, "kind": j.Kind, "form": j.Form,
					"pre": j.Pre, "script": j.Script, "abs": j.Abs, "argv": j.Argv, "script_file": j.ScriptFile, "hist": j.Hist, "effects": r.Effects, "class": r.Class, "detail": r.Detail})
			}
		}
	}
	// the command lines themselves: observed kind of interpreter vs the Coq model of the command line
	for _, d := range cmdAll {
		out.Case("cmdline "+d.Toks+" :: zygo "+d.Argv, d.Observed, true, "cfg:cmdline", "cmdline-observed:"+d.Observed)
	}
	for _, d := range cmdAll {
		if d.Plan != "" {
			out.Case("plan "+d.Toks+" :: zygo "+d.Argv, d.Plan, true, "cfg:plan", "plan-observed:"+d.Plan)
		}
	}
	for _, d := range sessAll {
		fk := "K"
		if d.Fails {
			fk = "F"
		}
		out.Case("session "+d.Toks+" "+fk+" :: zygo "+d.Argv, d.Observed, true, "cfg:session", "session-observed")
	}
	out.Extra["effects_observed_by_cfg"] = effectSeen
	out.Extra["run_stats"] = stats
	out.Extra["entries_special"] = len(specials)
	out.Extra["entries_candidate_names"] = len(cands)
	if bindingsOut != "" {
		b, _ := json.MarshalIndent(map[string]interface{}{"configs": dumps, "binary_defined": binDefined, "binary_probed": zygoBin != "" && a.Replay == "",
			"effect_cases": findings, "anomalies": anomalies, "cmdline_name_diffs": cmdDiffs}, "", " ")
		os.WriteFile(bindingsOut, b, 0644)
	}
	out.Close(a.Stats)
}

// names the translator's tables consider effectful in the unrestricted configuration (called first when a
// command line unexpectedly defines them)
func effectfulNames(t Tables) map[string]bool {
	m := map[string]bool{}
	for _, b := range t.Configs["full"].Bindings {
		if b.Fn != "" && len(t.Effects[b.Fn]) > 0 {
			m[b.Name] = true
		}
	}
	return m
}
