package main

import (
	"fmt"
	"time"

	"github.com/glycerine/zygomys/v9/zygo"
	"verif/harness/lib"
)

func main() {
	t0 := time.Now()
	for i := 0; i < 200; i++ {
		e := zygo.NewZlispSandbox()
		e.StandardSetup()
		e.Close()
	}
	fmt.Println("env create", time.Since(t0)/200)
	e := zygo.NewZlispSandbox()
	e.StandardSetup()
	t0 = time.Now()
	for i := 0; i < 2000; i++ {
		lib.Eval(e, `(foo "x")`, 1000)
	}
	fmt.Println("eval err", time.Since(t0)/2000)
	t0 = time.Now()
	for i := 0; i < 2000; i++ {
		lib.Eval(e, `(str "x")`, 1000)
	}
	fmt.Println("eval ok", time.Since(t0)/2000)
}
