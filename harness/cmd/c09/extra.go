package main

import (
	"fmt"
	"strings"

	"verif/harness/lib"
	r "verif/harness/refgen"
)

// ---- tail positions reached only THROUGH user macros ----

const macroDefs = "(defmac c9if [c t e] ^(cond ~c ~t ~e)) " +
	"(defmac c9when [c & body] ^(cond ~c (begin ~@body) nil)) " +
	"(defmac c9let [name val & body] ^(let [~name ~val] ~@body)) " +
	"(defmac c9do [& body] ^(begin ~@body)) " +
	"(defmac c9and [a b] ^(and ~a ~b)) " +
	"(defmac c9or [a b] ^(or ~a ~b)) " +
	"(defmac c9scope [& body] ^(newScope ~@body)) "

// MacroShape: body of (defn f [n a s] ..) with the placeholders BASE and SELF.
type MacroShape struct{ Name, Body string }

var MacroShapes = []MacroShape{
	{"if", "(c9if (== n 0) BASE SELF)"},
	{"when", "(cond (== n 0) BASE (c9when (> n 0) (def k 1) SELF))"},
	{"with-local", "(cond (== n 0) BASE (c9let k (+ n 1) SELF))"},
	{"do", "(cond (== n 0) BASE (c9do 1 2 SELF))"},
	{"and", "(cond (== n 0) BASE (c9and true SELF))"},
	{"or", "(cond (== n 0) BASE (c9or false SELF))"},
	{"scope", "(cond (== n 0) BASE (c9scope (def q n) SELF))"},
	{"if-do-let-if", "(c9if (== n 0) BASE (c9do 1 (c9let k n (c9if (> k 0) SELF -1))))"},
	{"let-do-scope-if", "(cond (== n 0) BASE (let [k 1] (c9do (newScope (c9if true SELF 0)))))"},
	{"when-in-and-in-let", "(c9if (== n 0) BASE (c9let j 2 (c9and j (c9when true 1 SELF))))"},
	{"empty-scope-from-macro", "(cond (== n 0) BASE (c9do (c9scope) SELF))"},
	{"empty-scope-from-macro-in-let", "(c9if (== n 0) BASE (c9let k n (c9scope) (c9do) (c9scope (c9scope)) SELF))"},
	{"if-if-if", "(c9if (== n 0) BASE (c9if (< n 0) -1 (c9if (> n 0) SELF -2)))"},
}

func (m MacroShape) Source(depth int, twin bool) string {
	self := "(f (- n 1) (cond (< n 3) (append a (fn [] n)) a) (+ s n))"
	if twin {
		self = "((begin f) (- n 1) (cond (< n 3) (append a (fn [] n)) a) (+ s n))"
	}
	body := strings.ReplaceAll(m.Body, "BASE", "(begin (trace (quote sa) s) a)")
	body = strings.ReplaceAll(body, "SELF", self)
	return fmt.Sprintf("%s(defn f [n a s] %s) (def r (f %d [] 0)) (trace (quote sb) (map (fn [c] (c)) r)) r", macroDefs, body, depth)
}

func (h *Harness) macros(deep []int) {
	for _, m := range MacroShapes {
		name := "macro:" + m.Name
		var obs10 string
		var hw10 hw
		for _, d := range []int{0, 1, 2, 3, 10} {
			src := m.Source(d, false)
			obs, mk := h.measure(src, budgetFor(d))
			tw := h.eval(m.Source(d, true), budgetFor(d))
			h.counts["macro-runs"]++
			h.out.Dist["macro-shape"]++
			if strings.HasPrefix(obs, "PANIC") || !r.SameObs(obs, tw) {
				h.fail(Failure{Kind: "macro-twin", Shape: name, Depth: d, Source: src, Impl: obs, Expected: tw,
					Note: "self call in tail position through user macros: the twin with ((begin f) ..) gives another observable", Size: 8 + d})
			}
			if d == 10 {
				obs10, hw10 = obs, mk
			}
		}
		for _, d := range deep {
			src := m.Source(d, false)
			obs, mk := h.measure(src, budgetFor(d))
			h.counts["macro-deep-runs"]++
			if want := scale(obs10, 10, d); obs != want {
				h.fail(Failure{Kind: "macro-deep-value", Shape: name, Depth: d, Source: src, Impl: obs, Expected: want,
					Note: "deep run through user macros: incomplete or another observable than depth 10 scaled", Size: 30})
			}
			if mk != hw10 {
				h.fail(Failure{Kind: "macro-space", Shape: name, Depth: d, Source: src,
					Impl: "high-water marks data,scope,addr,loop = " + mk.String(), Expected: "as at depth 10 = " + hw10.String(),
					Note: "a self call that is in tail position through user macros is not optimised: the stacks grow with the depth", Size: 30})
			}
			h.counts["space-comparisons"]++
		}
	}
}

// ---- histories: the name of the function was defined before, in an EARLIER evaluation, with
// another arity / body / kind of value ----

var Preludes = []string{
	"(defn f [n] (+ n 1))",
	"(defn f [a b c d] 0)",
	"(defn f [n & r] r)",
	"(defn f [x y z] 42)",
	"(def f 5)",
	"(defn f [n] (+ n 1)) (f 3) (defn f [a b] (f a))",
}

func (h *Harness) histories(shapes []Shape, deep []int) {
	for _, sh := range shapes {
		ref10, refhw := h.measure(sh.Program(10).Source(r.Style{}), budgetFor(10))
		for pi, pre := range Preludes {
			name := fmt.Sprintf("history%d:%s", pi, sh.String())
			for _, d := range append([]int{10}, deep...) {
				run := r.NewRunner(budgetFor(d))
				res := lib.Eval(run.Env, pre, 100000)
				src := sh.Program(d).Source(r.Style{})
				save := h.run
				h.run = run
				obs, mk := h.measure(src, budgetFor(d))
				h.run = save
				run.Env.Close()
				h.counts["history-runs"]++
				h.out.Dist["history-prelude"]++
				_ = res
				if want := scale(ref10, 10, d); obs != want {
					h.fail(Failure{Kind: "history-value", Shape: name, Depth: d, Source: src, Prelude: pre, Impl: obs, Expected: want,
						Note: "after the earlier evaluation of the prelude (which bound the name f) the function gives another observable", Size: 12 + d/100})
				}
				if mk != refhw {
					h.fail(Failure{Kind: "history-space", Shape: name, Depth: d, Source: src, Prelude: pre,
						Impl: "high-water marks data,scope,addr,loop = " + mk.String(), Expected: "as at depth 10 without the prelude = " + refhw.String(),
						Note: "after an earlier definition of the same name (other arity / body) the self tail call is no longer a jump: the stacks grow with the depth", Size: 12 + d/100})
				}
				h.counts["space-comparisons"]++
			}
		}
	}
}

// ---- where the defn itself sits: inside a let, inside another function, inside a loop, after
// a same-arity redefinition in the same text.  Each returns 0 at every depth. ----

type PlaceShape struct{ Name, Fmt string }

var PlaceShapes = []PlaceShape{
	{"defn-in-let", "(let [z 1] (defn g [n] (cond (== n 0) 0 (g (- n 1)))) (g %d))"},
	{"defn-in-function", "(defn outer [d] (defn g [n] (cond (== n 0) 0 (g (- n 1)))) (g d)) (outer %d)"},
	{"defn-in-function-closing-over-parameter", "(defn outer [d k] (defn g [n] (cond (== n 0) (- k k) (let [q k] (g (- n 1))))) (g d)) (outer %d 7)"},
	{"defn-in-for", "(def r 9) (for [(def i 0) (< i 2) (set i (+ i 1))] (defn g [n] (cond (== n 0) 0 (g (- n 1)))) (set r (g %d))) r"},
	{"redefined-same-text-other-arity", "(defn g [n] (+ n 1)) (defn g [n acc] (cond (== n 0) acc (g (- n 1) acc))) (g %d 0)"},
	{"defn-in-newscope", "(newScope (defn g [n] (cond (== n 0) 0 (and true (g (- n 1))))) (g %d))"},
}

func (h *Harness) places(deep []int) {
	for _, p := range PlaceShapes {
		src10 := fmt.Sprintf(p.Fmt, 10)
		obs10, hw10 := h.measure(src10, budgetFor(10))
		for _, d := range deep {
			src := fmt.Sprintf(p.Fmt, d)
			obs, mk := h.measure(src, budgetFor(d))
			h.counts["place-runs"]++
			h.out.Dist["place-shape"]++
			if obs != obs10 || obs != "V:I0|T:" {
				h.fail(Failure{Kind: "place-value", Shape: "place:" + p.Name, Depth: d, Source: src, Impl: obs, Expected: "V:I0|T: (depth 10: " + obs10 + ")", Size: 25})
			}
			if mk != hw10 {
				h.fail(Failure{Kind: "place-space", Shape: "place:" + p.Name, Depth: d, Source: src,
					Impl: "high-water marks data,scope,addr,loop = " + mk.String(), Expected: "as at depth 10 = " + hw10.String(),
					Note: "the self tail call of a defn in this place is not a jump: the stacks grow with the depth", Size: 25})
			}
			h.counts["space-comparisons"]++
		}
	}
}
