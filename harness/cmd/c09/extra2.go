package main

import (
	"fmt"
	"strings"

	r "verif/harness/refgen"
)

// ---- tail-recursive functions that are NOT bound at top level: created by a defn inside another
// function (or a let), escaped, and called after the defining function has returned.  The run-time
// half of the jump (PrepareCallInstr) must find the name in the running closure's captured scopes.
// These are programs of the modelled core: they go to both extracted evaluators too. ----

var EscapeKinds = []string{"direct", "in-let", "from-function", "two-instances", "via-array", "via-map",
	"let-escape", "scope-escape", "nested-makers", "escaped-from-tail-called-maker"}

func walkDefn(step *r.Node) *r.Node {
	return r.Defn("walk", []string{"n", "acc"}, "",
		r.Cond(call("==", r.Var("n"), r.Int(0)), r.Var("acc"),
			call("walk", call("-", r.Var("n"), r.Int(1)), call("+", r.Var("acc"), step))))
}

func EscapeProgram(kind string, d int) *r.Program {
	D := r.Int(int64(d))
	mk := r.Defn("mk", []string{"step"}, "", walkDefn(r.Var("step")), r.Var("walk"))
	defh := r.Def("h", call("mk", r.Int(3)))
	var forms []*r.Node
	switch kind {
	case "direct":
		forms = []*r.Node{mk, defh, call("h", D, r.Int(0))}
	case "in-let":
		forms = []*r.Node{r.Defn("mk", []string{"step"}, "",
			r.Let(false, []string{"k"}, []*r.Node{call("*", r.Var("step"), r.Int(2))}, walkDefn(r.Var("k")), r.Var("walk"))),
			defh, call("h", D, r.Int(1))}
	case "from-function":
		forms = []*r.Node{mk, defh, r.Defn("use", []string{"g", "d"}, "", r.Let(false, []string{"z"}, []*r.Node{r.Int(9)}, r.Call(r.Var("g"), r.Var("d"), r.Var("z")))),
			call("use", r.Var("h"), D)}
	case "two-instances":
		forms = []*r.Node{mk, r.Def("h1", call("mk", r.Int(3))), r.Def("h2", call("mk", r.Int(5))),
			call("list", call("h1", D, r.Int(0)), call("h2", D, r.Int(0)), call("h1", r.Int(2), r.Int(0)))}
	case "via-array":
		forms = []*r.Node{mk, r.Def("arr", r.Arr(call("mk", r.Int(3)), call("mk", r.Int(4)))),
			r.Call(call("aget", r.Var("arr"), r.Int(1)), D, r.Int(0))}
	case "via-map":
		forms = []*r.Node{mk, defh, call("map", r.Fn([]string{"d"}, "", call("h", r.Var("d"), r.Int(0))), r.Arr(D, r.Int(1), r.Int(0)))}
	case "let-escape":
		forms = []*r.Node{r.Def("h", r.Let(false, []string{"z"}, []*r.Node{r.Int(4)}, walkDefn(r.Var("z")), r.Var("walk"))), call("h", D, r.Int(0))}
	case "scope-escape":
		forms = []*r.Node{r.Def("h", r.Scope(r.Def("z", r.Int(6)), walkDefn(r.Var("z")), r.Var("walk"))), call("h", D, r.Int(0))}
	case "nested-makers":
		forms = []*r.Node{r.Defn("mk2", []string{"a"}, "",
			r.Defn("mk", []string{"b"}, "", walkDefn(call("+", r.Var("a"), r.Var("b"))), r.Var("walk")), r.Var("mk")),
			r.Def("h", r.Call(call("mk2", r.Int(1)), r.Int(2))), call("h", D, r.Int(0))}
	case "escaped-from-tail-called-maker":
		// the maker itself loops with self tail calls before it creates the closure
		forms = []*r.Node{r.Defn("mk", []string{"i", "step"}, "",
			r.Cond(call(">", r.Var("i"), r.Int(0)), call("mk", call("-", r.Var("i"), r.Int(1)), call("+", r.Var("step"), r.Int(1))),
				r.Begin(walkDefn(r.Var("step")), r.Var("walk")))),
			r.Def("h", call("mk", r.Int(3), r.Int(0))), call("h", D, r.Int(0))}
	default:
		panic("unknown escape kind " + kind)
	}
	return &r.Program{Forms: forms}
}

func (h *Harness) escapes(deep []int) {
	for _, k := range EscapeKinds {
		name := "escape:" + k
		var hw10 hw
		for _, d := range append([]int{0, 1, 2, 3, 10}, deep...) {
			p := EscapeProgram(k, d)
			src := p.Source(r.Style{})
			obs, mk := h.measure(src, budgetFor(d))
			h.counts["escape-runs"]++
			h.out.Case(fmt.Sprintf("fuel=%d rfuel=%d shape=%s depth=%d %s", d+150, (d+2)*12+300, name, d, p.Prefix()), obs, true, "escape:"+k, fmt.Sprintf("depth:%d", d))
			tw := obs
			if d <= 10 {
				tw = h.eval(Twin(p).Source(r.Style{}), budgetFor(d)*3)
				h.counts["twin-comparisons"]++
			}
			if !r.SameObs(obs, tw) {
				h.fail(Failure{Kind: "escape-twin", Shape: name, Depth: d, Source: src, Impl: obs, Expected: tw,
					Note: "a tail-recursive function that escaped from the function / let that defined it: the never-jumping twin gives another observable", Size: 6 + d/50})
			}
			if d == 10 {
				hw10 = mk
			}
			if d > 10 {
				if mk != hw10 {
					h.fail(Failure{Kind: "escape-space", Shape: name, Depth: d, Source: src,
						Impl: "high-water marks data,scope,addr,loop = " + mk.String(), Expected: "as at depth 10 = " + hw10.String(),
						Note: "escaped tail-recursive function: the stacks grow with the depth", Size: 30})
				}
				h.counts["space-comparisons"]++
			}
		}
	}
}

// ---- lazy formals (#x): the inline argument code of the jump pushes a thunk that must see the
// scopes of the iteration that PASSED it.  Outside the modelled core (C16 models thunks): compared
// with the twin, which takes the ordinary call path. HEAD is f or (begin f). ----

type LazyShape struct{ Name, Fmt string } // Fmt: HEAD placeholder, %d depth

var LazyShapes = []LazyShape{
	{"force-next-iteration", "(defn f [n #x seen] (cond (== n 0) (append seen (force #x)) (HEAD (- n 1) (+ (* n 100) 1) (append seen (force #x))))) (f %d 2 [])"},
	{"let-local-in-thunk", "(defn f [n #x seen] (cond (== n 0) (append seen (force #x)) (let [k (* n 7)] (HEAD (- n 1) (+ k 1) (append seen (force #x)))))) (f %d 2 [])"},
	{"thunks-collected-forced-at-the-end", "(defn f [n #x acc] (cond (== n 0) (map (fn [t] (force t)) (append acc #x)) (HEAD (- n 1) (* n n) (append acc #x)))) (f %d 1 [])"},
	{"forced-twice-effect-once", "(defn f [n #x s] (cond (== n 0) s (HEAD (- n 1) (trace n) (+ s (force #x) (force #x))))) (f %d (trace 50) 0)"},
	{"never-forced", "(defn f [n #x] (cond (== n 0) 0 (HEAD (- n 1) (trace n)))) (f %d (trace 9))"},
	{"in-scope-and", "(defn f [n #x s] (cond (== n 0) (+ s (force #x)) (newScope (def q (* 2 n)) (and true (HEAD (- n 1) (+ q 1) (+ s (force #x))))))) (f %d 5 0)"},
	{"two-lazy-one-strict", "(defn f [#a n #b s] (cond (== n 0) (list s (force #a) (force #b)) (letseq [u n v (+ u 1)] (HEAD (* u 10) (- n 1) (* v 100) (+ s (force #a) (force #b)))))) (f 1 %d 2 0)"},
	{"thunk-of-closure-over-local", "(defn f [n #x acc] (cond (== n 0) (map (fn [c] (c)) (append acc (force #x))) (let [k (+ n 50)] (HEAD (- n 1) (fn [] (+ k n)) (append acc (force #x)))))) (f %d (fn [] 0) [])"},
}

func (l LazyShape) Source(d int, twin bool) string {
	head := "f"
	if twin {
		head = "(begin f)"
	}
	return fmt.Sprintf(strings.ReplaceAll(l.Fmt, "HEAD", head), d)
}

func (h *Harness) lazies(deep []int) {
	for _, l := range LazyShapes {
		name := "lazy:" + l.Name
		var hw10 hw
		for _, d := range append([]int{0, 1, 2, 3, 4, 10}, deep...) {
			src := l.Source(d, false)
			obs, mk := h.measure(src, budgetFor(d))
			h.counts["lazy-runs"]++
			h.out.Dist["lazy-shape"]++
			if d <= 10 {
				tw := h.eval(l.Source(d, true), budgetFor(d)*3)
				h.counts["twin-comparisons"]++
				if strings.HasPrefix(obs, "PANIC") || !r.SameObs(obs, tw) {
					h.fail(Failure{Kind: "lazy-twin", Shape: name, Depth: d, Source: src, Impl: obs, Expected: tw,
						Note: "self tail call passing a lazy (#) argument: the never-jumping twin (ordinary call path) gives another observable", Size: 6 + d})
				}
			}
			if d == 10 {
				hw10 = mk
			}
			if d > 10 {
				if !strings.HasPrefix(obs, "V:") {
					h.fail(Failure{Kind: "lazy-deep-incomplete", Shape: name, Depth: d, Source: src, Impl: obs, Expected: "a value", Size: 30})
				}
				if mk != hw10 {
					h.fail(Failure{Kind: "lazy-space", Shape: name, Depth: d, Source: src,
						Impl: "high-water marks data,scope,addr,loop = " + mk.String(), Expected: "as at depth 10 = " + hw10.String(),
						Note: "self tail call with lazy formals: the stacks grow with the depth", Size: 30})
				}
				h.counts["space-comparisons"]++
			}
		}
	}
}

// ---- the forms that DEFINE a named function: defn, the typed (func name [in] [out] body)
// declaration (func.go: its own copy of the function prologue), a func that replaces an earlier
// func / defn of another arity.  Bodies add 1 per iteration: (NAME D 0) = D. ----

var DefBodies = []struct{ Name, Body string }{
	{"direct", "(cond (== n 0) acc (HEAD (- n 1) (+ acc 1)))"},
	{"let-and", "(cond (== n 0) acc (let [k 1] (and true (HEAD (- n 1) (+ acc k)))))"},
	{"let-or-and", "(let [m (- n 1)] (or (and (< m 0) acc) (HEAD m (+ acc 1))))"},
	{"scope-begin", "(cond (== n 0) acc (newScope (def q 1) (begin 0 (HEAD (- n 1) (+ acc q)))))"},
	{"infix", "(cond (== n 0) acc {k = n - 1; (HEAD k {acc + 1})})"},
	{"return-free-multi-form", "(def z 1) (cond (== n 0) acc (HEAD (- n 1) (+ acc z)))"},
}

var DefForms = []struct{ Name, Fmt string }{ // %s = body
	{"defn", "(defn g [n acc] %s)"},
	{"func", "(func g [n:int64 acc:int64] [r:int64] %s)"},
	{"func-after-func-of-same-arity", "(func g [n:int64 acc:int64] [r:int64] 0) (func g [n:int64 acc:int64] [r:int64] %s)"},
	{"defn-after-func", "(func g [n:int64] [r:int64] n) (defn g [n acc] %s)"},
	// repaired in a18ec20 (FuncBuilder registers the function being built before compiling the body)
	{"func-after-func-of-other-arity", "(func g [n:int64] [r:int64] n) (func g [n:int64 acc:int64] [r:int64] %s)"},
	{"func-after-defn-of-other-arity", "(defn g [n] n) (func g [n:int64 acc:int64] [r:int64] %s)"},
}

// ByNameForms: typed declarations whose self tail call passes its arguments BY NAME (a: b:): such
// calls are ordinary calls (a18ec20), so no constant-space expectation: value comparison only.
var ByNameForms = []struct{ Name, Src string }{
	{"func-by-name-direct", "(func tf [a:int64 b:int64] [r:int64] (cond (== a 0) b (HEAD a:(- a 1) b:(+ b 1)))) (tf a:%d b:0)"},
	{"func-by-name-in-let-and", "(func tf [a:int64 b:int64] [r:int64] (cond (== a 0) b (let [k 1] (and true (HEAD a:(- a 1) b:(+ b k)))))) (tf a:%d b:0)"},
	{"func-by-name-swapped-order", "(func tf [a:int64 b:int64] [r:int64] (cond (== a 0) b (HEAD b:(+ b 1) a:(- a 1)))) (tf b:0 a:%d)"},
}

func (h *Harness) defforms(deep []int) {
	for _, df := range DefForms {
		for _, b := range DefBodies {
			name := "defform:" + df.Name + "/" + b.Name
			src := func(d int, twin bool) string {
				head := "g"
				if twin {
					head = "(begin g)"
				}
				return fmt.Sprintf(df.Fmt, strings.ReplaceAll(b.Body, "HEAD", head)) + fmt.Sprintf(" (g %d 0)", d)
			}
			var hw10 hw
			for _, d := range append([]int{0, 1, 2, 3, 10}, deep...) {
				obs, mk := h.measure(src(d, false), budgetFor(d))
				h.counts["defform-runs"]++
				h.out.Dist["defform:"+df.Name]++
				want := fmt.Sprintf("V:I%d|T:", d)
				if d <= 10 {
					tw := h.eval(src(d, true), budgetFor(d)*3)
					h.counts["twin-comparisons"]++
					if tw != want {
						want = tw + " (twin) / " + want
					}
					if obs != tw {
						h.fail(Failure{Kind: "defform-twin", Shape: name, Depth: d, Source: src(d, false), Impl: obs, Expected: tw, Size: 8 + d})
					}
				}
				if !strings.HasPrefix(want, obs) && obs != fmt.Sprintf("V:I%d|T:", d) {
					h.fail(Failure{Kind: "defform-value", Shape: name, Depth: d, Source: src(d, false), Impl: obs, Expected: want, Size: 8 + d/50})
				}
				if d == 10 {
					hw10 = mk
				}
				if d > 10 {
					if mk != hw10 {
						h.fail(Failure{Kind: "defform-space", Shape: name, Depth: d, Source: src(d, false),
							Impl: "high-water marks data,scope,addr,loop = " + mk.String(), Expected: "as at depth 10 = " + hw10.String(),
							Note: "a self tail call in a function defined by this form is not a jump: the stacks grow with the depth", Size: 30})
					}
					h.counts["space-comparisons"]++
				}
			}
		}
	}
}

func (h *Harness) bynames() {
	for _, bn := range ByNameForms {
		for _, d := range []int{0, 1, 2, 3, 10, 60} {
			src := fmt.Sprintf(strings.ReplaceAll(bn.Src, "HEAD", "tf"), d)
			obs := h.eval(src, budgetFor(d))
			tw := h.eval(fmt.Sprintf(strings.ReplaceAll(bn.Src, "HEAD", "(begin tf)"), d), budgetFor(d)*3)
			h.counts["byname-runs"]++
			h.out.Dist["defform:by-name"]++
			want := fmt.Sprintf("V:I%d|T:", d)
			if obs != want || obs != tw {
				h.fail(Failure{Kind: "byname-value", Shape: "defform:" + bn.Name, Depth: d, Source: src, Impl: obs, Expected: want + " (twin: " + tw + ")",
					Note: "typed declaration whose self tail call passes its arguments by name", Size: 8 + d})
			}
		}
	}
}
