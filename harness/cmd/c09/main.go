// c09: tail calls are free and invisible.
//
// Generates self-recursive function shapes over all tail contexts (shapes.go), runs them on the real
// interpreter at several recursion depths and writes, for the extracted model (coq/Model/RefSemTco.v:
// eval_tco = the optimisation, eval = the reference semantics without it),
//
//	ID <TAB> fuel=.. rfuel=.. PREFIX-PROGRAM <TAB> IMPL-OBSERVABLE
//
// Comparisons that need the interpreter twice are made here and reported in the stats file
// (key "failures"): the same function rendered so that it can never take the jump (twin), the
// high-water marks of the four VM stacks at depth 10 against deeper runs, the scaling oracle for
// the depths the model cannot reach, and the raw templates outside the modelled core.
package main

import (
	"encoding/json"
	"fmt"
	"os"
	"sort"
	"strings"
	"time"

	"github.com/glycerine/zygomys/v9/zygo"
	"verif/harness/lib"
	r "verif/harness/refgen"
)

type Failure struct {
	Kind     string `json:"kind"`
	Shape    string `json:"shape"`
	Depth    int    `json:"depth"`
	Source   string `json:"source,omitempty"`
	Impl     string `json:"implementation"`
	Expected string `json:"expected"`
	Note     string `json:"note,omitempty"`
	Size     int    `json:"size"`
	Prelude  string `json:"prelude,omitempty"`
}

type hw [4]int // data, scope, addr, loop

func (h hw) String() string { return fmt.Sprintf("%d,%d,%d,%d", h[0], h[1], h[2], h[3]) }

type Harness struct {
	run      *r.Runner
	out      *lib.Out
	failures []Failure
	info     map[string]interface{}
	counts   map[string]int
}

// measure evaluates src and returns the observable and the high-water marks of the four stacks.
func (h *Harness) measure(src string, budget int64) (string, hw) {
	var m hw
	h.run.Budget = budget
	zygo.VerifTrace = func(env *zygo.Zlisp, phase int, instr zygo.Instruction, err error) {
		d, s, a, l := env.VerifDepths()
		if d > m[0] {
			m[0] = d
		}
		if s > m[1] {
			m[1] = s
		}
		if a > m[2] {
			m[2] = a
		}
		if l > m[3] {
			m[3] = l
		}
	}
	obs := h.run.RunSource(src, 0)
	zygo.VerifTrace = nil
	return obs, m
}

func (h *Harness) eval(src string, budget int64) string {
	h.run.Budget = budget
	return h.run.RunSource(src, 0)
}

func (h *Harness) fail(f Failure) {
	h.failures = append(h.failures, f)
}

func budgetFor(depth int) int64 { return int64(depth)*700 + 200000 }

func sumTo(d int) int64 { return int64(d) * int64(d+1) / 2 }

// scale rewrites the observable of depth `from` into what depth `to` must give: only the traced
// sum differs (closures are collected while n < 3, the other effects do not depend on the depth).
func scale(obs string, from, to int) string {
	return strings.ReplaceAll(obs, fmt.Sprintf("Ysa,I%d", sumTo(from)), fmt.Sprintf("Ysa,I%d", sumTo(to)))
}

// shape runs one shape over the small depths (model cases + twin), and over the deep ones.
func (h *Harness) shape(sh Shape, small []int, deep []int, twinDeep int, modelDeep bool) {
	name := sh.String()
	size := len(sh.Ctx)*10 + 1
	if sh.Pre != "none" {
		size += 3
	}
	if sh.Base != "val" {
		size += 2
	}
	var obs10 string
	var hw10 hw
	have10 := false
	for _, d := range small {
		p := sh.Program(d)
		src := p.Source(r.Style{})
		obs, m := h.measure(src, budgetFor(d))
		h.counts["shape-runs"]++
		h.out.Case(fmt.Sprintf("fuel=%d rfuel=%d shape=%s depth=%d %s", sh.TcoFuel(d), sh.RefFuel(d), name, d, p.Prefix()), obs,
			true, "ctx-nest:"+fmt.Sprint(len(sh.Ctx)), "pre:"+sh.Pre, "base:"+sh.Base, fmt.Sprintf("depth:%d", d))
		tw := h.eval(Twin(p).Source(r.Style{}), budgetFor(d))
		h.counts["twin-comparisons"]++
		if !r.SameObs(obs, tw) {
			h.fail(Failure{"twin", name, d, src, obs, tw, "the function rendered with ((begin f) ..) for the self call (never a jump) gives another observable", size + d, ""})
		}
		if d == 10 {
			obs10, hw10, have10 = obs, m, true
		}
	}
	if !have10 {
		return
	}
	for _, d := range deep {
		p := sh.Program(d)
		src := p.Source(r.Style{})
		obs, m := h.measure(src, budgetFor(d))
		h.counts["deep-runs"]++
		h.out.Dist[fmt.Sprintf("deep-depth:%d", d)]++
		if modelDeep && d <= 1000 {
			h.out.Case(fmt.Sprintf("fuel=%d rfuel=%d shape=%s depth=%d %s", sh.TcoFuel(d), sh.RefFuel(d), name, d, p.Prefix()), obs,
				true, "ctx-nest:"+fmt.Sprint(len(sh.Ctx)), "pre:"+sh.Pre, "base:"+sh.Base, fmt.Sprintf("depth:%d", d))
		}
		if obs == "BUDGET" || strings.HasPrefix(obs, "PANIC") {
			h.fail(Failure{"deep-incomplete", name, d, src, obs, scale(obs10, 10, d), "deep tail recursion did not complete", size + 20, ""})
			continue
		}
		if want := scale(obs10, 10, d); obs != want {
			h.fail(Failure{"deep-value", name, d, src, obs, want, "observable at this depth differs from the depth-10 observable with the traced sum replaced by D(D+1)/2", size + 20, ""})
		}
		if m != hw10 {
			h.fail(Failure{"space", name, d, src, "high-water marks data,scope,addr,loop = " + m.String(), "as at depth 10 = " + hw10.String(),
				"the stacks grow with the recursion depth", size + 20, ""})
		}
		h.counts["space-comparisons"]++
		if twinDeep > 0 && d == deep[0] {
			pt := sh.Program(twinDeep)
			o1 := h.eval(pt.Source(r.Style{}), budgetFor(twinDeep))
			o2 := h.eval(Twin(pt).Source(r.Style{}), budgetFor(twinDeep)*3)
			h.counts["twin-comparisons"]++
			if !r.SameObs(o1, o2) {
				h.fail(Failure{"twin", name, twinDeep, pt.Source(r.Style{}), o1, o2, "twin differs", size + 15, ""})
			}
		}
	}
}

func (h *Harness) templates(depths []int) {
	for _, t := range Templates {
		for _, d := range depths {
			src := t.Source(d, false)
			o1 := h.eval(src, 300000)
			o2 := h.eval(t.Source(d, true), 300000)
			h.counts["template-comparisons"]++
			tag := "template:nontail"
			if t.Tail {
				tag = "template:tail"
			}
			h.out.Dist[tag]++
			if strings.HasPrefix(o1, "PANIC") || !r.SameObs(o1, o2) {
				h.fail(Failure{"template", t.Name, d, src, o1, o2, "the same function with the self call written ((begin f) ..) gives another observable", 5 + d, ""})
			}
			if d == 3 {
				h.info["template "+t.Name] = o1
			}
		}
		if t.Tail {
			// a template whose self call IS in tail position: same marks at depth 10 and 1000
			o10, m10 := h.measure(t.Source(10, false), budgetFor(10))
			o1k, m1k := h.measure(t.Source(1000, false), budgetFor(1000))
			h.counts["space-comparisons"]++
			if o10 != o1k {
				h.fail(Failure{"template-deep-value", t.Name, 1000, t.Source(1000, false), o1k, o10, "a tail template returns the same value at every depth", 30, ""})
			}
			if m10 != m1k {
				h.fail(Failure{"template-space", t.Name, 1000, t.Source(1000, false), "high-water marks data,scope,addr,loop = " + m1k.String(), "as at depth 10 = " + m10.String(),
					"the self call of this template is in tail position (surface syntax outside the modelled core) but the stacks grow with the depth", 30, ""})
			}
		}
	}
}

// sanity: the probe sees growth where there is growth (the twin), and records (not a violation)
// that mutual tail calls and calls through an alias are not optimised.
func (h *Harness) sanity() {
	sh := Shape{Pre: "none", Base: "val"}
	_, a := h.measure(Twin(sh.Program(10)).Source(r.Style{}), budgetFor(10))
	_, b := h.measure(Twin(sh.Program(60)).Source(r.Style{}), budgetFor(60))
	h.info["twin_hwm_depth10"] = a.String()
	h.info["twin_hwm_depth60"] = b.String()
	if !(b[1] > a[1] && b[2] > a[2]) {
		h.fail(Failure{"probe-blind", sh.String(), 60, "", b.String(), "> " + a.String(), "the non-optimised twin shows no stack growth: the space probe is blind", 1000, ""})
	}
	mut := func(d int) string {
		return fmt.Sprintf("(defn ev [n] (cond (== n 0) true (od (- n 1)))) (defn od [n] (cond (== n 0) false (ev (- n 1)))) (ev %d)", d)
	}
	_, a = h.measure(mut(10), budgetFor(10))
	_, b = h.measure(mut(60), budgetFor(60))
	h.info["mutual_tail_calls_grow"] = b[2] > a[2]
	alias := func(d int) string {
		return fmt.Sprintf("(defn g [n] (cond (== n 0) 7 (h (- n 1)))) (def h g) (g %d)", d)
	}
	_, a = h.measure(alias(10), budgetFor(10))
	_, b = h.measure(alias(60), budgetFor(60))
	h.info["alias_tail_calls_grow"] = b[2] > a[2]
	deffn := func(d int) string {
		return fmt.Sprintf("(def g (fn [n] (cond (== n 0) 7 (g (- n 1))))) (g %d)", d)
	}
	_, a = h.measure(deffn(10), budgetFor(10))
	_, b = h.measure(deffn(60), budgetFor(60))
	h.info["def_of_anonymous_fn_tail_calls_grow"] = b[2] > a[2]
}

// shadow programs: the function's own name is rebound (finding tco-by-name); they go to the model,
// whose strict run names the deviation.
var shadowPrograms = []func(d int) *r.Program{
	func(d int) *r.Program { // let-bound f
		return &r.Program{Forms: []*r.Node{
			r.Defn("f", []string{"x"}, "", r.Let(false, []string{"f"}, []*r.Node{r.Fn([]string{"y"}, "", r.Int(42))},
				r.Cond(call(">", r.Var("x"), r.Int(0)), call("f", r.Int(0)), r.Int(5)))),
			call("f", r.Int(int64(d)))}}
	},
	func(d int) *r.Program { // def inside the body
		return &r.Program{Forms: []*r.Node{
			r.Defn("f", []string{"n"}, "", r.Cond(call("==", r.Var("n"), r.Int(0)), r.Int(100),
				r.Begin(r.Def("f", r.Fn([]string{"a"}, "", r.Int(7))), call("f", call("-", r.Var("n"), r.Int(1)))))),
			call("f", r.Int(int64(d)))}}
	},
	func(d int) *r.Program { // redefined at top level while an alias runs the old body
		return &r.Program{Forms: []*r.Node{
			r.Defn("f", []string{"n"}, "", r.Cond(call("==", r.Var("n"), r.Int(0)), r.Int(1), call("f", call("-", r.Var("n"), r.Int(1))))),
			r.Def("g", r.Var("f")),
			r.Defn("f", []string{"n"}, "", r.Int(42)),
			call("g", r.Int(int64(d)))}}
	},
	func(d int) *r.Program { // parameter named like the function
		return &r.Program{Forms: []*r.Node{
			r.Defn("f", []string{"f"}, "", r.Cond(call("==", r.Var("f"), r.Int(0)), r.Int(1), call("f", r.Int(0)))),
			call("f", r.Int(int64(d)))}}
	},
}

func main() {
	if len(os.Args) > 1 && os.Args[1] == "--probe" {
		b := int64(200000)
		if len(os.Args) > 2 {
			fmt.Sscan(os.Args[2], &b)
		}
		probeMode(b)
		return
	}
	args := lib.ParseArgs()
	h := &Harness{run: r.NewRunner(200000), out: lib.NewOut(args.Out), info: map[string]interface{}{}, counts: map[string]int{}}
	r.WatchdogSeconds = 120
	rng := lib.NewRng(args.Seed)
	thorough := args.Tier == "thorough"
	small := []int{0, 1, 2, 3, 10}

	if args.Replay != "" {
		replay(h, args.Replay)
		return
	}

	t0 := time.Now()
	lap := func(name string) { h.info["seconds_"+name] = int(time.Since(t0).Seconds()); t0 = time.Now() }
	h.sanity()

	// 1. every context list of nesting 0..2 (3 in thorough; a sample of 3 in quick) x pre x base
	var shapes []Shape
	for nest := 0; nest <= 3; nest++ {
		for _, ctx := range AllCtx(nest) {
			if nest <= 1 {
				for _, pre := range PreKinds {
					for _, base := range BaseKinds {
						shapes = append(shapes, Shape{ctx, pre, base})
					}
				}
				for _, pre := range ExtraPreKinds {
					shapes = append(shapes, Shape{ctx, pre, "val"})
				}
				continue
			}
			if nest == 3 && !thorough && rng.Intn(8) != 0 {
				continue
			}
			allPre := append(append([]string{}, PreKinds...), ExtraPreKinds...)
			pre := allPre[rng.Intn(len(allPre))]
			base := "val"
			if rng.Intn(5) == 0 {
				base = BaseKinds[rng.Intn(len(BaseKinds))]
			}
			shapes = append(shapes, Shape{ctx, pre, base})
			if thorough {
				shapes = append(shapes, Shape{ctx, allPre[rng.Intn(len(allPre))], "val"})
			}
		}
	}
	// data-dependent exits below every context list of nesting 0..1, and below a sample of the deeper ones
	for nest := 0; nest <= 2; nest++ {
		for _, ctx := range AllCtx(nest) {
			for _, x := range ExitKinds {
				if nest == 2 && !thorough && rng.Intn(6) != 0 {
					continue
				}
				shapes = append(shapes, Shape{append(append([]string{}, ctx...), x), "none", "val"})
			}
		}
	}
	for i, sh := range shapes {
		var deep []int
		twinDeep := 0
		modelDeep := false
		switch {
		case len(sh.Ctx) <= 1 && sh.Base == "val":
			deep = []int{1000}
			twinDeep = 150
			modelDeep = sh.Pre == "none" || (len(sh.Ctx) == 0 && (sh.Pre == "def" || sh.Pre == "trace" || sh.Pre == "varargs" || sh.Pre == "varargs0"))
		case thorough || i%5 == 0:
			deep = []int{1000}
			twinDeep = 150
		}
		h.shape(sh, small, deep, twinDeep, modelDeep)
	}
	h.out.Extra["shapes"] = len(shapes)
	lap("shapes")

	// 2. very deep runs: complete, same observable (scaled), same high-water marks
	very := []Shape{{nil, "none", "val"}}
	pick := func() Shape {
		nest := 1 + rng.Intn(3)
		ctx := make([]string, nest)
		for i := range ctx {
			ctx[i] = CtxKinds[rng.Intn(len(CtxKinds))]
		}
		allPre := append(append([]string{}, PreKinds...), ExtraPreKinds...)
		return Shape{ctx, allPre[rng.Intn(len(allPre))], "val"}
	}
	very = append(very, pick())
	if thorough {
		for i := 0; i < 10; i++ {
			very = append(very, pick())
		}
	}
	// (skipped when the cheaper runs already failed: with a leak the deep runs take very long
	// and add nothing to the replay)
	if len(h.failures) > 0 {
		very = nil
		h.info["very_deep_runs"] = "skipped: failures at smaller depths"
	}
	r.WatchdogSeconds = 150
	for _, sh := range very {
		h.shape(sh, []int{10}, []int{100000}, 0, false)
	}
	if thorough && len(h.failures) == 0 {
		r.WatchdogSeconds = 1500
		h.shape(Shape{[]string{"let", "and"}, "def", "val"}, []int{10}, []int{1000000}, 0, false)
	}

	// 2b. tail positions reached through user macros; histories in which the name was defined before
	mdeep := []int{1000}
	hshapes := []Shape{{nil, "none", "val"}, {[]string{"let"}, "def", "val"}, {[]string{"cond1", "and"}, "none", "val"}}
	hdeep := []int{1000}
	if thorough {
		mdeep = []int{1000, 100000}
		hshapes = append(hshapes, Shape{[]string{"scope", "letseq", "or"}, "for", "val"}, Shape{[]string{"begin"}, "varargs", "val"})
		hdeep = []int{1000, 100000}
	}
	lap("very-deep")
	h.macros(mdeep)
	lap("macros")
	h.histories(hshapes, hdeep)
	lap("histories")
	h.places(mdeep)
	h.escapes(hdeep)
	lap("places-escapes")
	h.defforms(mdeep)
	h.bynames()
	h.lazies([]int{150}) // thunks capture the growing accumulators: closure creation is quadratic in their size
	lap("lazies")
	if !thorough && len(h.failures) == 0 {
		// one very deep run of each family in the quick tier
		m := MacroShapes[rng.Intn(len(MacroShapes))]
		save := MacroShapes
		MacroShapes = []MacroShape{m}
		h.macros([]int{100000})
		MacroShapes = save
	}

	// 3. templates outside the modelled core / non-tail contexts
	lap("macro-very-deep")
	h.templates([]int{0, 1, 2, 3, 4, 10})
	lap("templates")

	// 3b. the tail flag over all forms of the generator: every position, every pair, a sample of triples
	h.sites(rng, thorough)
	lap("sites")

	// 4. the function's own name rebound (known finding tco-by-name): the model names the deviation
	for i, mk := range shadowPrograms {
		for _, d := range []int{0, 1, 2, 3} {
			p := mk(d)
			obs := h.eval(p.Source(r.Style{}), 200000)
			h.out.Case(fmt.Sprintf("fuel=200 rfuel=200 shape=shadow%d depth=%d %s", i, d, p.Prefix()), obs, true, "shadow-program")
		}
	}

	// failures of the `site` family on paths through a position listed as a known leak are kept apart
	// (the check decides whether the generated table explains them), so that they cannot crowd out others
	var leakFailures, other []Failure
	for _, f := range h.failures {
		if strings.HasPrefix(f.Shape, "site:") && siteThroughKnownLeak(f.Shape) {
			leakFailures = append(leakFailures, f)
		} else {
			other = append(other, f)
		}
	}
	h.failures = other
	h.out.Extra["leak_failures"] = leakFailures
	sort.SliceStable(h.failures, func(i, j int) bool { return h.failures[i].Size < h.failures[j].Size })
	if len(h.failures) > 40 {
		h.info["failures_total"] = len(h.failures)
		h.failures = h.failures[:40]
	}
	h.out.Extra["failures"] = h.failures
	h.out.Extra["info"] = h.info
	h.out.Extra["counts"] = h.counts
	h.out.Rule = "a case is non-trivial when its (shape, depth) program text is new; every shape contains a self tail call under the named contexts"
	h.out.Close(args.Stats)
}

// replay re-runs one (shape, depth) or template from a replay file written by the check.
func replay(h *Harness, path string) {
	b, err := os.ReadFile(path)
	if err != nil {
		fmt.Println(err)
		os.Exit(2)
	}
	var f struct {
		Failure Failure `json:"failure"`
		Input   string  `json:"input"`
	}
	json.Unmarshal(b, &f)
	if f.Failure.Shape == "" && f.Input != "" {
		for _, tok := range strings.Fields(f.Input) {
			if strings.HasPrefix(tok, "shape=") {
				f.Failure.Shape = tok[6:]
			}
			if strings.HasPrefix(tok, "depth=") {
				fmt.Sscan(tok[6:], &f.Failure.Depth)
			}
		}
	}
	src := f.Failure.Source
	if strings.HasPrefix(f.Failure.Shape, "site:") {
		siteSource(strings.Split(f.Failure.Shape[5:], "/"), false) // writes the include files again
	}
	if src == "" && strings.HasPrefix(f.Failure.Shape, "site:") {
		d, _ := siteSource(strings.Split(f.Failure.Shape[5:], "/"), false)
		k, _ := countGotos(h.run.Env, d)
		fmt.Printf("goto 0 instructions in the bytecode of f: %d\n", k)
		src = d + fmt.Sprintf(" (f %d 0 0)", f.Failure.Depth)
	}
	if src == "" {
		if strings.HasPrefix(f.Failure.Shape, "escape:") {
			src = EscapeProgram(f.Failure.Shape[7:], f.Failure.Depth).Source(r.Style{})
		} else {
			sh, _ := ParseShape(f.Failure.Shape)
			src = sh.Program(f.Failure.Depth).Source(r.Style{})
		}
	}
	if f.Failure.Prelude != "" {
		res := lib.Eval(h.run.Env, f.Failure.Prelude, 100000)
		fmt.Printf("earlier evaluation: %s => %s\n", f.Failure.Prelude, res.Show())
	}
	obs, m := h.measure(src, budgetFor(f.Failure.Depth))
	fmt.Printf("source: %s\nobservable: %s\nhigh-water marks (data,scope,addr,loop): %s\nrecorded: impl=%s expected=%s\n", src, obs, m, f.Failure.Impl, f.Failure.Expected)
	h.out.Close("/dev/null")
}
