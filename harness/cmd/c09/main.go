package main

import (
	"fmt"
	"os"
)

func main() {
	if len(os.Args) > 1 && os.Args[1] == "--probe" {
		b := int64(200000)
		if len(os.Args) > 2 {
			fmt.Sscan(os.Args[2], &b)
		}
		probeMode(b)
		return
	}
}
