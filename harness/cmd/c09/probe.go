package main

import (
	"bufio"
	"fmt"
	"os"

	"verif/harness/refgen"
)

// probeMode: one source text per stdin line, each in a fresh interpreter; prints the canonical
// observable and the four stack depths afterwards (a debugging aid, not used by the check).
func probeMode(budget int64) {
	sc := bufio.NewScanner(os.Stdin)
	sc.Buffer(make([]byte, 1<<20), 1<<20)
	for sc.Scan() {
		r := refgen.NewRunner(budget)
		r.Fresh = true
		obs, detail := r.RunSourceVerbose(sc.Text(), 0)
		d, s, a, l := r.Env.VerifDepths()
		if len(detail) > 160 {
			detail = detail[:160]
		}
		fmt.Printf("%s   depths=%d,%d,%d,%d   %s\n", obs, d, s, a, l, detail)
	}
}
