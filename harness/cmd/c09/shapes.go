package main

import (
	"fmt"
	"strings"

	r "verif/harness/refgen"
)

// A Shape is one self-recursive function f over the parameters [n a s] (varargs: [n a s & r]):
//
//	(defn f [n a s] (cond (== n 0) BASE PRE.. CTX[ (f (- n 1) A' (+ s n)) ]))
//
// Ctx lists the tail contexts from the outside in; Pre is what the body does before the tail call;
// Base is what the function does at n = 0.  a collects closures made while n < 3 (they close over
// n and over every local that is visible at the call); s sums n (closed form D(D+1)/2, traced at
// the base case as "Ysa,I<sum>").
type Shape struct {
	Ctx  []string // cond1 condd begin let letseq scope and or
	Pre  string   // none def for trace varargs
	Base string   // val unbound other
}

var CtxKinds = []string{"cond1", "condd", "begin", "let", "letseq", "scope", "and", "or"}
// ExitKinds are extra context kinds (not part of the exhaustive enumeration AllCtx): see wrap.
var ExitKinds = []string{"andx", "orx", "condx", "cond2x"}

var PreKinds = []string{"none", "def", "for", "trace", "varargs"}

// ExtraPreKinds (run with Base = val only): the arity boundary of variadic functions (self call with
// exactly the required arguments / one optional argument) and forms that touch the generator's
// scope bookkeeping before the tail call (empty newScope, nested empty scopes, let without
// bindings, empty begin, a loop left by break / continue out of an inner let).
var ExtraPreKinds = []string{"varargs0", "varargs1", "emptyscope", "nestedemptyscope", "emptylet", "emptybegin", "forbreak", "forcontinue"}
var BaseKinds = []string{"val", "unbound", "other"}

func (sh Shape) String() string {
	c := strings.Join(sh.Ctx, ",")
	if c == "" {
		c = "direct"
	}
	return "ctx=" + c + ";pre=" + sh.Pre + ";base=" + sh.Base
}

func ParseShape(s string) (Shape, error) {
	sh := Shape{Pre: "none", Base: "val"}
	for _, part := range strings.Split(s, ";") {
		kv := strings.SplitN(part, "=", 2)
		if len(kv) != 2 {
			return sh, fmt.Errorf("bad shape %q", s)
		}
		switch kv[0] {
		case "ctx":
			if kv[1] != "direct" && kv[1] != "" {
				sh.Ctx = strings.Split(kv[1], ",")
			}
		case "pre":
			sh.Pre = kv[1]
		case "base":
			sh.Base = kv[1]
		}
	}
	return sh, nil
}

func call(f string, a ...*r.Node) *r.Node { return r.CallN(f, a...) }

// selfCall builds (f (- n 1) A' (+ s n) ..) where A' appends a closure over the visible locals
// while n < 3.
func (sh Shape) selfCall(vis []string) *r.Node {
	sum := []*r.Node{r.Var("n")}
	for _, v := range vis {
		sum = append(sum, r.Var(v))
	}
	var clo *r.Node
	if len(sum) == 1 {
		clo = r.Fn(nil, "", r.Var("n"))
	} else {
		clo = r.Fn(nil, "", call("+", sum...))
	}
	acc := r.Cond(call("<", r.Var("n"), r.Int(3)), call("append", r.Var("a"), clo), r.Var("a"))
	args := []*r.Node{call("-", r.Var("n"), r.Int(1)), acc, call("+", r.Var("s"), r.Var("n"))}
	switch sh.Pre {
	case "varargs":
		args = append(args, r.Var("n"), r.Int(7))
	case "varargs1":
		args = append(args, r.Var("n"))
	}
	return call("f", args...)
}

func (sh Shape) wrap(i int, vis []string) *r.Node {
	if i == len(sh.Ctx) {
		return sh.selfCall(vis)
	}
	k := fmt.Sprintf("k%d", i)
	lv := r.Int(int64(i + 1))
	switch sh.Ctx[i] {
	case "cond1":
		return r.Cond(call(">", r.Var("n"), r.Int(0)), sh.wrap(i+1, vis), r.Int(-1))
	case "condd":
		return r.Cond(call("<", r.Var("n"), r.Int(0)), r.Int(-1), call("==", r.Var("n"), r.Int(-5)), r.Int(-2), sh.wrap(i+1, vis))
	case "begin":
		return r.Begin(lv, sh.wrap(i+1, vis))
	case "let":
		return r.Let(false, []string{k}, []*r.Node{call("+", r.Var("n"), lv)}, r.Def(k+"b", r.Int(5)), sh.wrap(i+1, append(append([]string{}, vis...), k, k+"b")))
	case "letseq":
		return r.Let(true, []string{k, k + "j"}, []*r.Node{call("+", r.Var("n"), lv), call("+", r.Var(k), r.Int(1))}, sh.wrap(i+1, append(append([]string{}, vis...), k, k+"j")))
	case "scope":
		return r.Scope(r.Def(k, call("*", r.Var("n"), lv)), sh.wrap(i+1, append(append([]string{}, vis...), k)))
	// tail contexts with a data-dependent EXIT that does not reach the tail call (at n = 2): the
	// short-circuit / the inner arm leaves through the slot behind the code of the tail call
	case "andx":
		return r.And(call("!=", r.Var("n"), r.Int(2)), sh.wrap(i+1, vis))
	case "orx":
		return r.Or(call("==", r.Var("n"), r.Int(2)), sh.wrap(i+1, vis))
	case "condx":
		return r.Cond(call("==", r.Var("n"), r.Int(2)), r.Int(77), sh.wrap(i+1, vis))
	case "cond2x":
		return r.Cond(call("==", r.Var("n"), r.Int(2)), r.Int(78), call(">", r.Var("n"), r.Int(0)), sh.wrap(i+1, vis), r.Int(-2))
	case "and":
		return r.And(r.Bool(true), lv, sh.wrap(i+1, vis))
	case "or":
		return r.Or(r.Bool(false), r.Nil(), sh.wrap(i+1, vis))
	}
	panic("unknown context " + sh.Ctx[i])
}

// Defn builds the function.
func (sh Shape) Defn() *r.Node {
	var base *r.Node
	tr := call("trace", r.QuoteSym("sa"), r.Var("s"))
	switch sh.Base {
	case "unbound":
		base = r.Begin(tr, r.Var("zz"))
	case "other":
		base = r.Begin(tr, call("aget", r.Var("a"), r.Int(99)))
	default:
		base = r.Begin(tr, r.Var("a"))
	}
	var pre []*r.Node
	var vis []string
	switch sh.Pre {
	case "def":
		pre = []*r.Node{r.Def("d", call("+", r.Var("n"), r.Int(100)))}
		vis = []string{"d"}
	case "for":
		pre = []*r.Node{r.Def("w", r.Int(0)),
			r.For("", r.Def("i", r.Int(0)), call("<", r.Var("i"), r.Int(2)), r.Set("i", call("+", r.Var("i"), r.Int(1))),
				r.Set("w", call("+", r.Var("w"), r.Var("i"), r.Var("n"))))}
		vis = []string{"w"}
	case "emptyscope":
		pre = []*r.Node{r.Scope()}
	case "nestedemptyscope":
		pre = []*r.Node{r.Scope(r.Scope(), r.Scope(r.Scope()))}
	case "emptylet":
		pre = []*r.Node{r.Let(false, nil, nil, r.Int(1)), r.Let(true, nil, nil, r.Scope())}
	case "emptybegin":
		pre = []*r.Node{r.Begin(), r.Scope(r.Begin())}
	case "forbreak":
		pre = []*r.Node{r.Def("w", r.Int(0)),
			r.For("", r.Def("i", r.Int(0)), call("<", r.Var("i"), r.Int(5)), r.Set("i", call("+", r.Var("i"), r.Int(1))),
				r.Let(false, []string{"q"}, []*r.Node{r.Var("i")}, r.Scope(r.Set("w", call("+", r.Var("w"), r.Var("q"))), r.Cond(call(">", r.Var("q"), r.Int(1)), r.Break(""), r.Nil()))))}
		vis = []string{"w"}
	case "forcontinue":
		pre = []*r.Node{r.Def("w", r.Int(0)),
			r.For("", r.Def("i", r.Int(0)), call("<", r.Var("i"), r.Int(3)), r.Set("i", call("+", r.Var("i"), r.Int(1))),
				r.Let(false, []string{"q"}, []*r.Node{r.Var("i")}, r.Scope(), r.Cond(call("==", r.Var("q"), r.Int(1)), r.Cont(""), r.Nil()), r.Set("w", call("+", r.Var("w"), r.Var("q")))))}
		vis = []string{"w"}
	case "trace":
		pre = []*r.Node{r.Cond(call("<", r.Var("n"), r.Int(3)), call("trace", r.Var("n")), r.Nil())}
	}
	rec := sh.wrap(0, vis)
	if len(pre) > 0 {
		rec = r.Begin(append(pre, rec)...)
	}
	params := []string{"n", "a", "s"}
	rest := ""
	if strings.HasPrefix(sh.Pre, "varargs") {
		rest = "r"
	}
	return r.Defn("f", params, rest, r.Cond(call("==", r.Var("n"), r.Int(0)), base, rec))
}

// Program: define f, run it to the given depth, then call every collected closure.
func (sh Shape) Program(depth int) *r.Program {
	return &r.Program{Forms: []*r.Node{
		sh.Defn(),
		r.Def("r", call("f", r.Int(int64(depth)), r.Arr(), r.Int(0))),
		call("trace", r.QuoteSym("sc"), r.Var("r")), // the result itself, before it is used as an array of closures
		call("trace", r.QuoteSym("sb"), call("map", r.Fn([]string{"c"}, "", r.Call(r.Var("c"))), r.Var("r"))),
		r.Var("r"),
	}}
}

// Twin marks every call of f inside the defn of f so that it is rendered ((begin f) ..): the same
// function, never compiled as a jump.
func Twin(p *r.Program) *r.Program {
	q := p.Clone()
	for _, f := range q.Forms {
		if f.K == r.KDefn {
			name := f.Name
			f.Walk(func(n *r.Node) {
				if n.K == r.KCall && n.Kids[0].K == r.KVar && n.Kids[0].Name == name {
					n.NoTCO = true
				}
			})
		}
	}
	return q
}

// CtxDepthFuel: fuel the reference evaluator needs (it nests one activation per iteration).
func (sh Shape) RefFuel(depth int) int { return (depth+2)*(2*len(sh.Ctx)+8) + 200 }
func (sh Shape) TcoFuel(depth int) int { return depth + 2*len(sh.Ctx) + 120 }

// AllCtx enumerates the context lists of exactly the given nesting.
func AllCtx(nest int) [][]string {
	if nest == 0 {
		return [][]string{nil}
	}
	var out [][]string
	for _, rest := range AllCtx(nest - 1) {
		for _, k := range CtxKinds {
			out = append(out, append([]string{k}, rest...))
		}
	}
	return out
}

// ---- raw templates: contexts outside the modelled core, and non-tail contexts ----

// A Template is source text with the placeholder CALL for the self call (f (- n 1) a).
// Tail says whether CALL is in tail position (documentation only: the comparison against the
// twin is the same).
type Template struct {
	Name string
	Src  string // body of (defn f [n a] ..)
	Tail bool
}

var Templates = []Template{
	{"infix-block-last", "(cond (== n 0) a {k = n + 1; CALL})", true},
	{"cond-in-infix", "(cond (== n 0) a {(cond (> n 0) CALL 9)})", true},
	{"infix-single-statement", "(cond (== n 0) a {CALL})", true},
	{"infix-def-then-call", "(cond (== n 0) a {(def k 1); CALL})", true},
	{"infix-two-assignments-then-call", "(cond (== n 0) a {k = n - 1; j = k + 1; (f k a)})", true},
	{"infix-call-statement-then-call", "(cond (== n 0) a {(+ n 1); CALL})", true},
	{"infix-nested-blocks", "(cond (== n 0) a {k = 1; {j = 2; CALL}})", true},
	{"infix-block-in-let", "(cond (== n 0) a (let [q n] {k = q - 1; (f k a)}))", true},
	{"infix-block-in-and", "(cond (== n 0) a (and true {k = 7; CALL}))", true},
	{"infix-whole-body", "{m = n; (cond (== m 0) a {k = m - 1; (f k a)})}", true},
	{"infix-expression-arguments", "(cond (== n 0) a (f {n - 1} a))", true},
	{"infix-nonlast-call-statement", "(cond (== n 0) 0 {(f (- n 1) a); 7})", false},
	{"infix-nonlast-call-after-assignment", "(cond (== n 0) 0 {k = 3; (f (- n 1) a); k})", false},
	{"infix-assignment-of-call", "(cond (== n 0) 0 {k = 1; k = (f (- n 1) a); k + 1})", false},
	{"assert-arg", "(cond (== n 0) true (assert CALL))", false},
	{"syntax-quote-unquote", "(cond (== n 0) (quote (z)) ^(x ~CALL))", false},
	{"syntax-quote-splice", "(cond (== n 0) (quote (z)) ^(x ~@CALL))", false},
	{"hash-literal-value", "(cond (== n 0) 5 (hget (hash k: CALL) (quote k)))", false},
	{"let-init", "(cond (== n 0) 0 (let [v CALL] (+ v 1)))", false},
	{"letseq-init", "(cond (== n 0) 0 (letseq [u 1 v CALL] (+ v u)))", false},
	{"array-elem", "(cond (== n 0) 0 [CALL 7])", false},
	{"def-rhs", "(cond (== n 0) 0 (begin (def v CALL) (+ v 1)))", false},
	{"def-rhs-last", "(cond (== n 0) 0 (def v CALL))", false},
	{"set-rhs-last", "(cond (== n 0) 0 (begin (def v 1) (set v CALL)))", false},
	{"assign-infix", "(cond (== n 0) 0 {v = CALL})", false},
	{"call-arg", "(cond (== n 0) 0 (+ 1 CALL))", false},
	{"self-call-arg", "(cond (== n 0) a (> n 5) 0 (f (- n 1) CALL))", false},
	{"cond-test", "(cond (== n 0) 0 (cond CALL 3 4))", false},
	{"and-first", "(cond (== n 0) 0 (and CALL 2))", false},
	{"or-first", "(cond (== n 0) false (or CALL 2))", false},
	{"begin-first", "(cond (== n 0) 0 (begin CALL 2))", false},
	{"for-init", "(cond (== n 0) 0 (begin (for [(def i CALL) (< i 1) (set i (+ i 1))] 0) n))", false},
	{"for-test", "(cond (== n 0) false (begin (def c 0) (for [(def i 0) (and (< i 1) (not CALL)) (set i (+ i 1))] (set c (+ c 1))) c))", false},
	{"for-step", "(cond (== n 0) 0 (begin (def c 0) (for [(def i 0) (< i 1) (set i (+ 1 CALL))] (set c (+ c 1))) c))", false},
	{"for-body-last", "(cond (== n 0) 0 (begin (def c 0) (for [(def i 0) (< i 2) (set i (+ i 1))] (set c (+ c 1)) CALL) c))", false},
	{"for-body-last-for-in-tail-position", "(cond (== n 0) 0 (for [(def i 0) (< i 2) (set i (+ i 1))] (trace n i) CALL))", false},
	{"for-init-for-in-tail-position", "(cond (== n 0) 0 (for [(def i CALL) (< i 1) (set i (+ i 1))] (trace n i)))", false},
	{"for-test-for-in-tail-position", "(cond (== n 0) false (for [(def i 0) (and (< i 1) (not CALL)) (set i (+ i 1))] (trace n i)))", false},
	{"for-step-for-in-tail-position", "(cond (== n 0) 0 (for [(def i 0) (< i 1) (set i (+ 1 CALL))] (trace n i)))", false},
	{"for-in-let-in-tail-position", "(cond (== n 0) 0 (let [q n] (for [(def i 0) (< i 2) (set i (+ i 1))] (trace q i) CALL)))", false},
	{"fn-body", "(cond (== n 0) 0 ((fn [] CALL)))", false},
	{"wrong-arity", "(cond (== n 0) 0 (f (- n 1) a 99))", false},
	{"too-few-args", "(cond (== n 0) 0 (f (- n 1)))", false},
	{"return-arg", "(cond (== n 0) 1 (return (+ 1 CALL)))", false},
	{"mdef-rhs", "(cond (== n 0) 1 (begin (mdef p q (list CALL 2)) (+ p q)))", false},
}

// EarlierForms: forms compiled BEFORE a non-tail self call in the same initialiser list / element
// list / argument list of the function's own compile unit; whatever they do to the generator's
// tail flag must not reach the self call.
var EarlierForms = []struct{ Name, Src string }{
	{"syntax-quote", "^(s ~n)"},
	{"syntax-quote-splice", "^(s ~@(list n 1))"},
	{"syntax-quote-array", "^[1 ~n]"},
	{"quote", "(quote (s t))"},
	{"fn-literal", "(fn [z] (+ z n))"},
	{"nested-let", "(let [u 1] (+ u n))"},
	{"cond", "(cond (> n 1) 1 2)"},
	{"and-or", "(or false (and true n))"},
	{"newscope", "(newScope (def u n) u)"},
	{"for-loop", "(begin (def u 0) (for [(def i 0) (< i 2) (set i (+ i 1))] (set u (+ u i))) u)"},
	{"infix-block", "{u = n + 1; u * 2}"},
	{"hash-literal", "(hash k: n)"},
	{"array-literal", "[n 1]"},
	{"assert", "(assert true)"},
	{"macro-call", "(c9t n)"},
	{"string-and-call", "(str n)"},
}

func init() {
	for _, e := range EarlierForms {
		pre := ""
		if e.Name == "macro-call" {
			pre = "MACRO"
		}
		Templates = append(Templates,
			Template{"earlier-" + e.Name + "-then-let-init", pre + "(cond (== n 0) 0 (let [e " + e.Src + " more CALL] (+ 1 more)))", false},
			Template{"earlier-" + e.Name + "-then-letseq-init", pre + "(cond (== n 0) 0 (letseq [e " + e.Src + " more CALL] (+ 1 more)))", false},
			Template{"earlier-" + e.Name + "-then-array-element", pre + "(cond (== n 0) 0 (let [v [" + e.Src + " CALL]] (+ 1 (aget v 1))))", false},
			Template{"earlier-" + e.Name + "-then-self-call-argument", pre + "(cond (== n 0) a (> n 5) 0 (f (begin " + e.Src + " (- n 1)) CALL))", false},
		)
	}
}

func (t Template) Source(depth int, twin bool) string {
	c := "(f (- n 1) a)"
	body := t.Src
	if twin {
		c = "((begin f) (- n 1) a)"
		body = strings.ReplaceAll(body, "(f (- n 1) a 99)", "((begin f) (- n 1) a 99)")
		body = strings.ReplaceAll(body, "(f (- n 1))", "((begin f) (- n 1))")
		body = strings.ReplaceAll(body, "(f (- n 1) CALL)", "((begin f) (- n 1) CALL)")
		body = strings.ReplaceAll(body, "(f k a)", "((begin f) k a)")
		body = strings.ReplaceAll(body, "(f (begin ", "((begin f) (begin ")
		body = strings.ReplaceAll(body, "(f {n - 1} a)", "((begin f) {n - 1} a)")
	}
	body = strings.ReplaceAll(body, "CALL", c)
	defs := ""
	if strings.HasPrefix(body, "MACRO") {
		body = body[5:]
		defs = "(defmac c9t [x] ^(+ ~x 1)) "
	}
	return fmt.Sprintf("%s(defn f [n a] %s) (f %d 4)", defs, body, depth)
}
