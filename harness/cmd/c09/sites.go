package main

// Family `site`: the tail flag over ALL forms of the generator (coq/Model/TailSites.v).
//
// A position is (special form, which sub-form).  For every position, and every ordered pair of
// positions, a function is built whose only innermost self call sits at the end of that path:
//
//	(defn f [n a k] (cond (<= n 0) a  W1[ W2[ (f (- n 1) (+ a n) k) ] ]))
//
// Observables: (1) the number of `goto 0` instructions in the REAL bytecode of f (compile time: the
// self call is a jump iff the flag arrives) — written as a case for the extracted model, which
// computes the same number from the table the translator generated out of generator.go (`jumps`) and
// from the property's own list of tail positions (`spec_jumps`); (2) value and effects against the
// twin (every self call written ((begin f) ..): never a jump) at depths 0..3; (3) for paths the
// specification calls tail: the four high-water marks at depth 10 and 300 must be equal.

import (
	"crypto/sha1"
	"fmt"
	"os"
	"path/filepath"
	"strings"

	"github.com/glycerine/zygomys/v9/zygo"
	"verif/harness/lib"
)

type SitePos struct {
	Name string
	// W renders the form with the child x at this position; self is the text of the head of an
	// enclosing self call ("f" or "(begin f)"); dir is where include files go
	W    func(x, self, dir string) string
	Tail bool // the property's list (informative: the verdict comes from the extracted specification)
}

func lit(pat string) func(x, self, dir string) string {
	return func(x, self, dir string) string { return strings.ReplaceAll(pat, "X", x) }
}

func includeFile(dir, content string) string {
	sum := sha1.Sum([]byte(content))
	p := filepath.Join(dir, fmt.Sprintf("inc%x.zy", sum[:8]))
	if _, err := os.Stat(p); err != nil {
		os.MkdirAll(dir, 0o755)
		os.WriteFile(p, []byte(content+"\n"), 0o644)
	}
	return p
}

const forHead = "(for [(set k 0) (< k 1) (set k (+ k 1))] "

var SitePositions = []SitePos{
	{"PBeginNonLast", lit("(begin X 5)"), false},
	{"PBeginLast", lit("(begin 5 X)"), true},
	{"PAndNonLast", lit("(and X 5)"), false},
	{"PAndLast", lit("(and true X)"), true},
	{"POrNonLast", lit("(or X 5)"), false},
	{"POrLast", lit("(or false X)"), true},
	{"PCondTest", lit("(cond X 1 2)"), false},
	{"PCondArm", lit("(cond (> n 0) X 2)"), true},
	{"PCondDefault", lit("(cond (< n 0) 1 X)"), true},
	{"PLetInit", lit("(let [j X] j)"), false},
	{"PLetBodyNonLast", lit("(let [j 1] X j)"), false},
	{"PLetBodyLast", lit("(let [j 1] X)"), true},
	{"PLetseqInit", lit("(letseq [i 1 j X] j)"), false},
	{"PLetseqBodyNonLast", lit("(letseq [j 1] X j)"), false},
	{"PLetseqBodyLast", lit("(letseq [j 1] j X)"), true},
	{"PScopeNonLast", lit("(newScope X 5)"), false},
	{"PScopeLast", lit("(newScope 5 X)"), true},
	{"PPkgNonLast", lit("(package pk X 5)"), false},
	{"PPkgLast", lit("(package pk 5 X)"), false},
	{"PDefRhs", lit("(def j X)"), false},
	{"PSetRhs", lit("(set k X)"), false},
	{"PMdefRhs", lit("(mdef j1 j2 X)"), false},
	{"PAssignRhs", lit("(j = X)"), false},
	{"PDefLhs", lit("(def X 5)"), false},
	{"PSetLhs", lit("(set X 5)"), false},
	{"PAssert", lit("(assert X)"), false},
	{"PForInit", lit("(for [X (< k 0) (set k 1)] 1)"), false},
	{"PForTest", lit("(for [(set k 0) X (set k 1)] (break))"), false},
	{"PForStep", lit("(for [(set k 0) (< k 1) X] (set k (+ k 1)))"), false},
	{"PForBodyNonLast", lit(forHead + "X 5)"), false},
	{"PForBodyLast", lit(forHead + "5 X)"), false},
	{"PSqUnquote", lit("^~X"), false},
	{"PSqUnquoteInList", lit("^(x ~X)"), false},
	{"PSqSpliceInList", lit("^(x ~@X)"), false},
	{"PSqUnquoteInArray", lit("^[1 ~X]"), false},
	{"PArrayElem", lit("[1 X]"), false},
	{"PInfixNonLast", lit("{X; 5}"), false},
	{"PInfixLast", lit("{5; X}"), true},
	{"PCallArg", lit("(+ 0 X)"), false},
	{"PSelfArg", func(x, self, dir string) string { return "(" + self + " (- n 1) " + x + " k)" }, false},
	{"PFnBody", lit("(fn [] X)"), false},
	{"PMacroExpansion", lit("(c9idm X)"), true},
	{"PIncludeLastFile", func(x, self, dir string) string {
		return fmt.Sprintf("(include %q %q)", includeFile(dir, "5"), includeFile(dir, x))
	}, false},
	{"PIncludeNonLastFile", func(x, self, dir string) string {
		return fmt.Sprintf("(include %q %q)", includeFile(dir, x), includeFile(dir, "5"))
	}, false},
}

func sitePos(name string) *SitePos {
	for i := range SitePositions {
		if SitePositions[i].Name == name {
			return &SitePositions[i]
		}
	}
	return nil
}

func sitePathNames(path []string) []string { return path }

var siteDir = filepath.Join(os.TempDir(), "c09-include")

// siteSource renders the function for a path; twin = no self call can be a jump.
func siteSource(path []string, twin bool) (string, bool) {
	self := "f"
	if twin {
		self = "(begin f)"
	}
	x := "(" + self + " (- n 1) (+ a n) k)"
	for i := len(path) - 1; i >= 0; i-- {
		p := sitePos(path[i])
		if p == nil {
			return "", false
		}
		if strings.HasPrefix(path[i], "PInfix") && strings.HasPrefix(x, "^") {
			return "", false // ^ is an operator inside an infix block
		}
		x = p.W(x, self, siteDir)
	}
	return "(defmac c9idm [x] x) (defn f [n a k] (cond (<= n 0) a " + x + "))", true
}

func countGotos(env *zygo.Zlisp, src string) (int, string) {
	res := lib.Eval(env, src+" f", 100000)
	fn, ok := res.Val.(*zygo.SexpFunction)
	if res.Class != lib.OutValue || !ok {
		return -1, res.Class
	}
	k := 0
	for _, in := range fn.VerifCode() {
		if in.InstrString() == "goto 0" {
			k++
		}
	}
	return k, ""
}

func (h *Harness) site(path []string, run bool, deep int) {
	name := "site:" + strings.Join(path, "/")
	src, ok := siteSource(path, false)
	if !ok {
		return
	}
	tw, _ := siteSource(path, true)
	k, why := countGotos(h.run.Env, src)
	h.run.RunSource("0", 0) // removes f again
	obs := fmt.Sprintf("J%d", k)
	if k < 0 {
		obs = "NOCOMPILE:" + why
	}
	if k < 0 {
		h.counts["site-does-not-compile"]++ // e.g. (def [1 X] 5): nothing to observe
		return
	}
	h.counts["site-bytecode-cases"]++
	h.out.Case("site path=PBodyLast/PCondDefault/"+strings.Join(sitePathNames(path), "/")+" raw="+strings.Join(path, "/"), obs, true, fmt.Sprintf("site-nest:%d", len(path)), "site-first:"+path[0])
	if kt, _ := countGotos(h.run.Env, tw); kt > 0 {
		h.fail(Failure{"site-twin-jumps", name, 0, tw, fmt.Sprintf("J%d", kt), "J0", "the twin must not contain a jump: the comparison would be blind", 4, ""})
	}
	h.run.RunSource("0", 0)
	if !run {
		return
	}
	for _, d := range []int{0, 1, 2, 3} {
		call := fmt.Sprintf(" (f %d 0 0)", d)
		o1 := h.eval(src+call, 300000)
		o2 := h.eval(tw+call, 300000)
		h.counts["site-twin-comparisons"]++
		if strings.HasPrefix(o1, "PANIC") || !sameSiteObs(o1, o2) {
			h.fail(Failure{"site-twin", name, d, src + call, o1, o2, "the same function with every self call written ((begin f) ..) gives another observable", 3 + 2*len(path) + d, ""})
			break
		}
	}
	if deep > 0 && k > 0 {
		// the self call is a jump and the path is a tail path: space must not depend on the depth
		allTail := true
		for _, q := range path {
			if !sitePos(q).Tail {
				allTail = false
			}
		}
		if allTail {
			o10, m10 := h.measure(src+" (f 10 0 0)", budgetFor(10))
			oD, mD := h.measure(src+fmt.Sprintf(" (f %d 0 0)", deep), budgetFor(deep))
			h.counts["space-comparisons"]++
			if m10 != mD && !strings.HasPrefix(o10, "E:") {
				h.fail(Failure{"site-space", name, deep, src + fmt.Sprintf(" (f %d 0 0)", deep), "high-water marks data,scope,addr,loop = " + mD.String() + " value " + oD,
					"as at depth 10 = " + m10.String(), "every step of this path is a tail position but the stacks grow with the depth", 20 + len(path), ""})
			}
		}
	}
}

// two runs agree when the observables are equal; a package value prints its own address-free name
func sameSiteObs(a, b string) bool {
	if a == b {
		return true
	}
	if strings.HasPrefix(a, "E:") && strings.HasPrefix(b, "E:") {
		// the class of an error is coarse: same trace is what matters (as refgen.SameObs)
		ia, ib := strings.Index(a, "|"), strings.Index(b, "|")
		return ia >= 0 && ib >= 0 && a[ia:] == b[ib:] && !strings.HasPrefix(a, "E:user") && !strings.HasPrefix(b, "E:user")
	}
	return false
}

func (h *Harness) sites(rng *lib.Rng, thorough bool) {
	os.RemoveAll(siteDir)
	for _, p := range SitePositions {
		h.site([]string{p.Name}, true, 300)
	}
	for _, p := range SitePositions {
		for _, q := range SitePositions {
			run := thorough || p.Tail || rng.Intn(6) == 0
			deep := 0
			if p.Tail && q.Tail && (thorough || rng.Intn(4) == 0) {
				deep = 300
			}
			h.site([]string{p.Name, q.Name}, run, deep)
		}
	}
	n3 := 150
	if thorough {
		n3 = 3000
	}
	for i := 0; i < n3; i++ {
		path := make([]string, 3)
		for j := range path {
			path[j] = SitePositions[rng.Intn(len(SitePositions))].Name
		}
		h.site(path, i%3 == 0, 0)
	}
}

// KnownLeakPositions: positions listed as open findings (coq/Model/TailSites.v known_leaks); none now.
var KnownLeakPositions = []string{}

func siteThroughKnownLeak(shape string) bool {
	for _, q := range KnownLeakPositions {
		if strings.Contains(shape, q) {
			return true
		}
	}
	return false
}
