// Abstract record trees, their generation (type directed, with sharing), serialisation for
// the model runner and emission as zygomys script text.
package main

import (
	"encoding/hex"
	"fmt"
	"math"
	"strconv"
	"strings"

	"verif/harness/lib"
)

func itoa(i int) string { return strconv.Itoa(i) }

type val struct {
	k     byte // I F S Q B Y T Z U C A R H
	i     int64
	u     uint64
	s     string
	elems []*val
	rec   *rnode
}

type rnode struct {
	id     int
	tn     string // registered type name; "hash" for plain hashes
	plain  bool
	keys   []string
	vals   []*val
	slotTy string // type of the slot it was first generated for (uniform sharing)
}

type gen struct {
	u       *universe
	r       *lib.Rng
	nextID  int
	pool    map[string][]*rnode // goName -> finished records
	maxD    int
	share   int  // percent
	noWhole bool // histories: never address an embedded struct by its own key (later hsets use promoted names)
}

func newGen(u *universe, r *lib.Rng) *gen {
	return &gen{u: u, r: r, pool: map[string][]*rnode{}, maxD: 1 + r.Intn(4), share: 20 + r.Intn(50)}
}

var intPool = []int64{0, 1, -1, 2, 7, 255, 256, -129, 65536, 1 << 31, -(1 << 31), (1 << 53) - 1, 1 << 53, -(1 << 53), math.MaxInt64, math.MinInt64, math.MaxInt64 - 1}
var fltPool = []float64{0, 1, -1, 0.5, 2.5, -2.5, 1e10, 1e300, math.SmallestNonzeroFloat64, math.MaxFloat64, math.Inf(1), math.Inf(-1), 3, 1 << 53, 1 << 62, -9.25}
var strPool = []string{"", "a", "hello", "with space", "quote\"d", "new\nline", "tab\t", "ünï", "\x00\x01", "(leaf n:1)", "nil", "日本"}

func (g *gen) vInt() *val {
	if g.r.Intn(3) == 0 {
		return &val{k: 'I', i: int64(g.r.U64())}
	}
	if g.r.Intn(2) == 0 {
		return &val{k: 'I', i: int64(g.r.Intn(2000)) - 1000}
	}
	return &val{k: 'I', i: intPool[g.r.Intn(len(intPool))]}
}
func (g *gen) vSmallInt() *val {
	return &val{k: 'I', i: int64(g.r.U64()>>uint(11+g.r.Intn(53))) * int64(1-2*g.r.Intn(2))}
}
func (g *gen) vFloat() *val {
	var f float64
	switch g.r.Intn(3) {
	case 0:
		f = math.Float64frombits(g.r.U64())
		if math.IsNaN(f) {
			f = 1.25
		}
	case 1:
		f = fltPool[g.r.Intn(len(fltPool))]
	default:
		f = float64(g.r.Intn(100000))/8 - 5000
	}
	return &val{k: 'F', u: math.Float64bits(f)}
}
func (g *gen) vStrBytes() string {
	if g.r.Intn(2) == 0 {
		return strPool[g.r.Intn(len(strPool))]
	}
	n := g.r.Intn(12)
	b := make([]byte, n)
	for i := range b {
		if g.r.Intn(4) == 0 {
			b[i] = byte(g.r.Intn(256))
		} else {
			b[i] = byte(32 + g.r.Intn(95))
		}
	}
	return string(b)
}
func (g *gen) vTime() *val {
	// nanoseconds since the epoch, within the range UnixNano can represent; never the zero time
	return &val{k: 'T', i: int64(g.r.U64()>>2) - (1 << 60)}
}

var identPool = []string{"zzz", "q", "nope", "extra", "field9", "N", "Raw", "nAME", "X", "id2"}

func (g *gen) ident() string {
	if g.r.Intn(2) == 0 {
		return identPool[g.r.Intn(len(identPool))]
	}
	n := 1 + g.r.Intn(6)
	b := make([]byte, n)
	for i := range b {
		b[i] = byte('a' + g.r.Intn(26))
		if i == 0 && g.r.Intn(4) == 0 {
			b[i] = byte('A' + g.r.Intn(26))
		}
	}
	return string(b)
}

func lowerFirst(s string) string {
	if s == "" || s[0] < 'A' || s[0] > 'Z' {
		return s
	}
	return string(s[0]+32) + s[1:]
}

// value generates a value fitting type ty (valid by construction).
func (g *gen) value(ty string, depth int) *val {
	switch ty[0] {
	case 'i', 'j':
		return g.vInt()
	case 'f':
		if g.r.Intn(4) == 0 {
			if g.r.Intn(4) == 0 {
				return g.vInt() // any int64: rounded to the nearest double (specification silent beyond 2^53)
			}
			return g.vSmallInt() // int into float64: exact for |n| <= 2^53
		}
		return g.vFloat()
	case 's':
		if g.r.Intn(6) == 0 {
			return &val{k: 'Q', s: g.symName()}
		}
		return &val{k: 'S', s: g.vStrBytes()}
	case 'b':
		return &val{k: 'B', i: int64(g.r.Intn(2))}
	case 'y':
		return &val{k: 'Y', s: g.vStrBytes()}
	case 't':
		return g.vTime()
	case 'L':
		n := g.r.Intn(4)
		if g.r.Intn(6) == 0 {
			n = 4 + g.r.Intn(4)
		}
		if depth >= g.maxD && strings.ContainsAny(ty[1:2], "PNV") {
			n = 0
		}
		v := &val{k: 'A'}
		for i := 0; i < n; i++ {
			v.elems = append(v.elems, g.value(ty[1:], depth))
		}
		return v
	case 'P':
		if depth >= g.maxD || g.r.Intn(5) == 0 {
			return &val{k: 'Z'}
		}
		return &val{k: 'R', rec: g.recordFor(g.u.structs[ty[2:]], ty, depth+1)}
	case 'V':
		// a by-value struct slot (plain struct field, element of []T): sometimes a record used before in such a
		// slot of the same type — it converts to a copy
		if p := g.pool["V|"+ty]; len(p) > 0 && g.r.Intn(200) < g.share {
			return &val{k: 'R', rec: p[g.r.Intn(len(p))]}
		}
		rec := g.record(g.u.structs[ty[2:]], ty, depth+1)
		if rec.tn != "" {
			g.pool["V|"+ty] = append(g.pool["V|"+ty], rec)
		}
		return &val{k: 'R', rec: rec}
	case 'N':
		impls := g.u.impls[ty[2:]]
		if depth >= g.maxD || len(impls) == 0 || g.r.Intn(5) == 0 {
			return &val{k: 'Z'}
		}
		return &val{k: 'R', rec: g.recordFor(g.u.structs[impls[g.r.Intn(len(impls))]], ty, depth+1)}
	case 'M':
		h := &rnode{id: g.newID(), tn: "hash", plain: true, slotTy: ty}
		n := g.r.Intn(4)
		for i := 0; i < n; i++ {
			k := fmt.Sprintf("k%d", g.r.Intn(6))
			dup := false
			for _, x := range h.keys {
				dup = dup || x == k
			}
			if dup {
				continue
			}
			h.keys = append(h.keys, k)
			h.vals = append(h.vals, g.value(ty[1:], depth))
		}
		return &val{k: 'H', rec: h}
	}
	return &val{k: 'Z'}
}

func (g *gen) symName() string {
	return []string{"sym", "abc", "x1", "Foo"}[g.r.Intn(4)]
}

func (g *gen) newID() int { g.nextID++; return g.nextID - 1 }

// recordFor: a record for a pointer/interface slot: possibly a shared (already generated) one,
// only when its first slot had the same type (uniform sharing).
func (g *gen) recordFor(s *sinfo, slotTy string, depth int) *rnode {
	if p := g.pool[s.goName]; len(p) > 0 && g.r.Intn(100) < g.share {
		c := p[g.r.Intn(len(p))]
		if c.slotTy == slotTy {
			return c
		}
	}
	return g.record(s, slotTy, depth)
}

func (g *gen) record(s *sinfo, slotTy string, depth int) *rnode {
	n := &rnode{id: g.newID(), tn: s.reg, slotTy: slotTy}
	mode := g.r.Intn(4) // 0: all fields, 1: few, else half
	cand := []det{}
	for _, d := range s.dets {
		if d.emb || strings.Contains(d.ty, "?") {
			continue
		}
		// a key names ONE field: with a name clash, the shallowest field (Go's selector rule)
		dup := -1
		for i, c := range cand {
			if c.key == d.key {
				dup = i
			}
		}
		if dup >= 0 {
			if d.depth < cand[dup].depth {
				cand[dup] = d
			}
			continue
		}
		cand = append(cand, d)
	}
	// shuffle
	for i := len(cand) - 1; i > 0; i-- {
		j := g.r.Intn(i + 1)
		cand[i], cand[j] = cand[j], cand[i]
	}
	for _, d := range cand {
		if mode == 1 && g.r.Intn(4) != 0 || mode >= 2 && g.r.Intn(2) == 0 {
			continue
		}
		key := d.key
		if lf := lowerFirst(key); lf != key && g.r.Intn(2) == 0 {
			clash := false
			for _, o := range s.dets {
				clash = clash || o.key == lf
			}
			if !clash {
				key = lf
			}
		}
		n.keys = append(n.keys, key)
		n.vals = append(n.vals, g.value(d.ty, depth))
	}
	g.wholeEmbedded(s, n, depth)
	if s.reg != "" && slotTy[0] != 'V' {
		g.pool[s.goName] = append(g.pool[s.goName], n)
	}
	return n
}

// wholeEmbedded: sometimes address an embedded struct BOTH through promoted field names and through the embedded
// struct's own key: some of the promoted entries move into a record of the embedded struct's type given under that
// key, e.g. (snoopy id:3 spanCm:7 plane:(plane speed:5)).  The two ways name disjoint fields.
func (g *gen) wholeEmbedded(s *sinfo, n *rnode, depth int) bool {
	did := false
	if g.noWhole {
		return false
	}
	for _, e := range s.dets {
		if !e.emb || len(e.path) != 1 || e.ty[0] != 'V' || g.r.Intn(4) != 0 {
			continue
		}
		es := g.u.structs[e.ty[2:]]
		if es == nil || es.reg == "" {
			continue
		}
		clash := false
		for _, k := range n.keys {
			clash = clash || k == e.key
		}
		if clash {
			continue
		}
		child := &rnode{id: g.newID(), tn: es.reg, slotTy: e.ty}
		var keys []string
		var vals []*val
		for i, k := range n.keys {
			moved := false
			for _, d := range s.dets { // the det this key was generated from: direct field of the embedded struct
				if !d.emb && len(d.path) == 2 && d.path[0] == e.path[0] && (d.key == k || lowerFirst(d.key) == k) && g.r.Intn(2) == 0 {
					// only if the outer struct's own resolution of k is that field (no clash with an outer field)
					own := false
					for _, o := range s.dets {
						own = own || (len(o.path) == 1 && o.key == d.key)
					}
					if !own {
						child.keys = append(child.keys, d.key)
						child.vals = append(child.vals, n.vals[i])
						moved = true
					}
					break
				}
			}
			if !moved {
				keys = append(keys, k)
				vals = append(vals, n.vals[i])
			}
		}
		pos := g.r.Intn(len(keys) + 1)
		n.keys = append(append(append([]string{}, keys[:pos]...), e.key), keys[pos:]...)
		n.vals = append(append(append([]*val{}, vals[:pos]...), &val{k: 'R', rec: child}), vals[pos:]...)
		did = true
	}
	return did
}

// anyValue: a value of an arbitrary kind (for the wrong-kind stream and the kind x field matrix).
func (g *gen) anyValue(depth int) *val {
	switch g.r.Intn(14) {
	case 0:
		return g.vInt()
	case 1:
		return g.vFloat()
	case 2:
		return &val{k: 'S', s: g.vStrBytes()}
	case 3:
		return &val{k: 'Q', s: g.symName()}
	case 4:
		return &val{k: 'B', i: int64(g.r.Intn(2))}
	case 5:
		return &val{k: 'Y', s: g.vStrBytes()}
	case 6:
		return g.vTime()
	case 7:
		return &val{k: 'U', u: g.r.U64() >> uint(g.r.Intn(64))}
	case 8:
		return &val{k: 'C', i: int64(g.r.Intn(0x10FFFF))}
	case 9:
		v := &val{k: 'A'}
		for i := g.r.Intn(3); i > 0; i-- {
			v.elems = append(v.elems, g.anyValue(depth+1))
		}
		return v
	case 10, 11:
		regs := g.regStructs()
		return &val{k: 'R', rec: g.record(regs[g.r.Intn(len(regs))], "P:?", g.maxD)}
	case 12:
		return g.value([]string{"Ms", "Mf"}[g.r.Intn(2)], depth)
	}
	return &val{k: 'Z'}
}

func (g *gen) regStructs() []*sinfo {
	var out []*sinfo
	for _, gn := range g.u.order {
		if g.u.structs[gn].reg != "" {
			out = append(out, g.u.structs[gn])
		}
	}
	return out
}

// ---- traversal helpers ----------------------------------------------------

func collect(n *rnode, seen map[int]bool, out *[]*rnode) {
	if seen[n.id] {
		return
	}
	seen[n.id] = true
	for _, v := range n.vals {
		collectV(v, seen, out)
	}
	*out = append(*out, n) // post-order: children first
}
func collectV(v *val, seen map[int]bool, out *[]*rnode) {
	switch v.k {
	case 'A':
		for _, e := range v.elems {
			collectV(e, seen, out)
		}
	case 'R', 'H':
		collect(v.rec, seen, out)
	}
}

// ---- serialisation for the model runner ------------------------------------

func serV(v *val, seen map[int]bool, b *strings.Builder) {
	switch v.k {
	case 'I', 'T', 'C':
		fmt.Fprintf(b, " %c%d", v.k, v.i)
	case 'F', 'U':
		fmt.Fprintf(b, " %c%d", v.k, v.u)
	case 'S', 'Q', 'Y':
		fmt.Fprintf(b, " %c%s", v.k, hex.EncodeToString([]byte(v.s)))
	case 'B':
		fmt.Fprintf(b, " B%d", v.i)
	case 'Z':
		b.WriteString(" Z")
	case 'A':
		fmt.Fprintf(b, " A %d", len(v.elems))
		for _, e := range v.elems {
			serV(e, seen, b)
		}
	case 'R', 'H':
		serR(v.rec, seen, b)
	}
}
func serR(n *rnode, seen map[int]bool, b *strings.Builder) {
	if seen[n.id] {
		fmt.Fprintf(b, " X%d", n.id)
		return
	}
	seen[n.id] = true
	if n.plain {
		fmt.Fprintf(b, " H %d %d", n.id, len(n.keys))
	} else {
		fmt.Fprintf(b, " R %d %s %d", n.id, n.tn, len(n.keys))
	}
	for i, k := range n.keys {
		b.WriteString(" " + k)
		serV(n.vals[i], seen, b)
	}
}
func serialise(n *rnode) string {
	var b strings.Builder
	serR(n, map[int]bool{}, &b)
	return strings.TrimSpace(b.String())
}

// ---- emission as script text -------------------------------------------------

type emitter struct {
	atoms  []*val
	lines  []string
	prefix string
}

func (e *emitter) v(v *val) string {
	switch v.k {
	case 'Z':
		return "nil"
	case 'B':
		if v.i == 1 {
			return "true"
		}
		return "false"
	case 'A':
		parts := make([]string, len(v.elems))
		for i, x := range v.elems {
			parts[i] = e.v(x)
		}
		return "[" + strings.Join(parts, " ") + "]"
	case 'R', 'H':
		return fmt.Sprintf("%s%d", e.prefix, v.rec.id)
	}
	e.atoms = append(e.atoms, v)
	return fmt.Sprintf("a%d", len(e.atoms)-1)
}

// keyVal: the Go-side value of a record key that is not a plain symbol: "$name" = string key, "#I5" int key,
// "#C97" char key, "#A" the array key [1 2]
func keyVal(k string) *val {
	switch {
	case strings.HasPrefix(k, "$"):
		return &val{k: 'S', s: k[1:]}
	case strings.HasPrefix(k, "#I"):
		n, _ := strconv.ParseInt(k[2:], 10, 64)
		return &val{k: 'I', i: n}
	case strings.HasPrefix(k, "#C"):
		n, _ := strconv.ParseInt(k[2:], 10, 64)
		return &val{k: 'C', i: n}
	}
	return &val{k: 'A', elems: []*val{{k: 'I', i: 1}, {k: 'I', i: 2}}}
}

func plainKey(k string) bool { return !strings.HasPrefix(k, "#") && !strings.HasPrefix(k, "$") }

// defLines: (def rN (tn k:v ...)) followed by (hset rN key v) for the entries whose key is not a symbol
func (e *emitter) defLines(n *rnode) {
	var b strings.Builder
	fmt.Fprintf(&b, "(def %s%d (%s", e.prefix, n.id, n.tn)
	for i, k := range n.keys {
		if plainKey(k) {
			b.WriteString(" " + k + ":" + e.v(n.vals[i]))
		}
	}
	b.WriteString("))")
	e.lines = append(e.lines, b.String())
	for i, k := range n.keys {
		if !plainKey(k) {
			e.lines = append(e.lines, fmt.Sprintf("(hset %s%d %s %s)", e.prefix, n.id, e.v(keyVal(k)), e.v(n.vals[i])))
		}
	}
}

// emit returns the script lines defining every record (children first) and the atoms to bind.
func emit(root *rnode, prefix string) *emitter {
	e := &emitter{prefix: prefix}
	var nodes []*rnode
	collect(root, map[int]bool{}, &nodes)
	for _, n := range nodes {
		e.defLines(n)
	}
	return e
}
