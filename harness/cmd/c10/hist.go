// Histories on one record tree: convert, change a record with (hset r key v), convert again.
// The Go side must see the record's CURRENT fields after every conversion.
package main

import (
	"fmt"
	"reflect"
	"strings"

	"github.com/glycerine/zygomys/v9/zygo"
	"verif/harness/lib"
)

type hstep struct {
	op byte // G: (togo r)   P: r passed to a Go method   M: a Go method called ON r   S: (hset r key v)
	//            E: a Go method on r returns a pointer its Go object owns (Me / Get<Field>): a NEW record
	rec    *rnode // the record the step acts on
	key    string
	v      *val
	path   []int  // E: [] = the receiver, [i] = the struct pointer in field i
	method string // E
	newRec *rnode // E: placeholder for the returned record (id, type name)
}

type retMethod struct {
	name string
	path []int
	ret  *sinfo
}

// returnMethods: methods Me() *S and Get<Field>() *F of a registered type, found by reflection
func (rn *runner) returnMethods(s *sinfo) []retMethod {
	var out []retMethod
	pt := reflect.PtrTo(s.typ)
	if m, ok := pt.MethodByName("Me"); ok && m.Type.NumIn() == 1 && m.Type.NumOut() == 1 && m.Type.Out(0) == pt {
		out = append(out, retMethod{"Me", nil, s})
	}
	for i, f := range s.fields {
		if m, ok := pt.MethodByName("Get" + f.name); ok && f.ty[0] == 'P' && m.Type.NumIn() == 1 && m.Type.NumOut() == 1 && m.Type.Out(0) == f.rt {
			out = append(out, retMethod{"Get" + f.name, []int{i}, rn.u.structs[f.ty[2:]]})
		}
	}
	return out
}

// genAlias: a record is converted, a Go method hands back a pointer its Go object owns (a new record), the script
// changes and converts THAT record; the original, unchanged record's Go object must still hold the original values
// (observed by a method called on the original record, which converts nothing because an object is attached).
func (rn *runner) genAlias(g *gen, s *sinfo) (*rnode, []hstep) {
	g.noWhole = true
	root := g.record(s, "top", 0)
	// every struct pointer a Get method returns must be set
	for _, rm := range rn.returnMethods(s) {
		if len(rm.path) == 1 {
			d := s.dets[0]
			for _, x := range s.dets {
				if len(x.path) == 1 && x.path[0] == rm.path[0] {
					d = x
				}
			}
			have := false
			for i, k := range root.keys {
				if k == d.key {
					have = root.vals[i].k == 'R'
					if !have {
						root.vals[i] = &val{k: 'R', rec: g.record(rm.ret, d.ty, 1)}
						have = true
					}
				}
			}
			if !have {
				root.keys = append(root.keys, d.key)
				root.vals = append(root.vals, &val{k: 'R', rec: g.record(rm.ret, d.ty, 1)})
			}
		}
	}
	initial := cloneNode(root, map[*rnode]*rnode{})
	steps := []hstep{{op: []byte{'G', 'M'}[g.r.Intn(2)], rec: root}}
	rms := rn.returnMethods(s)
	for round := 1 + g.r.Intn(2); round > 0; round-- {
		rm := rms[g.r.Intn(len(rms))]
		nr := &rnode{id: g.nextID, tn: rm.ret.reg}
		g.nextID += 64 // the returned tree's records are numbered from nr.id on
		steps = append(steps, hstep{op: 'E', rec: root, path: rm.path, method: rm.name, newRec: nr})
		var ds []det
		for _, d := range rm.ret.dets {
			if !d.emb && !strings.Contains(d.ty, "?") && strings.ContainsAny(d.ty[:1], "ijfsby") {
				ds = append(ds, d)
			}
		}
		for k := 1 + g.r.Intn(2); k > 0 && len(ds) > 0; k-- {
			d := ds[g.r.Intn(len(ds))]
			steps = append(steps, hstep{op: 'S', rec: nr, key: d.key, v: g.value(d.ty, g.maxD)})
		}
		op := byte('G')
		if _, ok := rn.see[rm.ret.goName]; ok && g.r.Intn(4) == 0 {
			op = 'P'
		}
		steps = append(steps, hstep{op: op, rec: nr})
		steps = append(steps, hstep{op: 'M', rec: root})
	}
	return initial, steps
}

func typedNodes(root *rnode) []*rnode {
	var nodes, out []*rnode
	collect(root, map[int]bool{}, &nodes)
	for _, n := range nodes {
		if !n.plain {
			out = append(out, n)
		}
	}
	return out
}

// wrongKind: a value that certainly does not fit a field of type ty (an error by the specification and in the code)
func wrongKind(ty string) *val {
	switch ty[0] {
	case 's':
		return &val{k: 'I', i: 5}
	case 'i', 'j', 'f', 'b', 't', 'y':
		return &val{k: 'S', s: "bad"}
	}
	return &val{k: 'I', i: 5} // slices, pointers, interfaces, maps
}

func (rn *runner) hasSelf(n *rnode) bool {
	_, ok := reflect.PtrTo(rn.regOf[n.tn].typ).MethodByName("Self")
	return ok
}

// genHistory: root + steps.  Mutations only add or overwrite fields (never a struct-valued field).
// Half of the histories start with a FAULT (a wrong-kind value somewhere in the tree): the first conversions fail,
// the script repairs the record with hset, later conversions (explicit, as argument, or implicit as receiver of a
// method) must succeed and show the current fields — a failed conversion leaves nothing behind.
func (rn *runner) genHistory(g *gen, s *sinfo) (*rnode, []hstep) {
	g.noWhole = true
	root := g.record(s, "top", 0)
	usable := func(n *rnode) []det {
		var ds []det
		for _, d := range rn.regOf[n.tn].dets {
			if !d.emb && !strings.Contains(d.ty, "?") && d.ty[0] != 'V' {
				ds = append(ds, d)
			}
		}
		return ds
	}
	keyFor := func(t *rnode, d det) string {
		key := d.key
		for _, have := range t.keys { // keep the spelling the record already uses for this field
			if have == d.key || (lowerFirst(d.key) == have && lowerFirst(d.key) != d.key) {
				key = have
			}
		}
		return key
	}
	set := func(t *rnode, key string, v *val) {
		for i, k0 := range t.keys {
			if k0 == key {
				t.vals[i] = v
				return
			}
		}
		t.keys = append(t.keys, key)
		t.vals = append(t.vals, v)
	}
	// optional fault, placed before the snapshot of the initial tree
	var faultRec *rnode
	var faultDet det
	faultKey := ""
	if g.r.Intn(2) == 0 {
		cands := typedNodes(root)
		t := cands[g.r.Intn(len(cands))]
		if g.r.Intn(2) == 0 {
			t = root
		}
		if ds := usable(t); len(ds) > 0 {
			faultRec, faultDet = t, ds[g.r.Intn(len(ds))]
			faultKey = keyFor(t, faultDet)
			set(t, faultKey, wrongKind(faultDet.ty))
		}
	}
	initial := cloneNode(root, map[*rnode]*rnode{})
	var steps []hstep
	attached := false // the root has a Go object attached (a successful G or M step)
	_, canSee := rn.see[s.goName]
	canSelf := rn.hasSelf(root)
	convert := func(c *rnode) {
		isRoot := c == root
		ops := []byte{'G', 'G'}
		if _, ok := rn.see[rn.regOf[c.tn].goName]; ok {
			ops = append(ops, 'P')
		}
		if isRoot && canSelf && !attached {
			ops = append(ops, 'M', 'M', 'M')
		}
		op := ops[g.r.Intn(len(ops))]
		steps = append(steps, hstep{op: op, rec: c})
		if isRoot && faultRec == nil && (op == 'G' || op == 'M') {
			attached = true
		}
	}
	_ = canSee
	convert(root)
	if faultRec != nil {
		if g.r.Intn(3) == 0 {
			convert(root) // fails again
		}
		g.pool = map[string][]*rnode{}
		v := g.value(faultDet.ty, g.maxD-1)
		steps = append(steps, hstep{op: 'S', rec: faultRec, key: faultKey, v: cloneVal(v, map[*rnode]*rnode{})})
		set(faultRec, faultKey, v)
		faultRec = nil
		convert(root)
	}
	nmut := g.r.Intn(3)
	if len(steps) == 1 {
		nmut++
	}
	for m := 0; m < nmut; m++ {
		cands := typedNodes(root) // records attached to the tree now (new values included)
		t := cands[g.r.Intn(len(cands))]
		if g.r.Intn(3) == 0 {
			t = root
		}
		ds := usable(t)
		if len(ds) == 0 {
			continue
		}
		for k := 1 + g.r.Intn(2); k > 0; k-- {
			d := ds[g.r.Intn(len(ds))]
			key := keyFor(t, d)
			g.pool = map[string][]*rnode{} // new values contain new records only
			v := g.value(d.ty, g.maxD-1)
			steps = append(steps, hstep{op: 'S', rec: t, key: key, v: cloneVal(v, map[*rnode]*rnode{})}) // snapshot: later steps may change records inside v
			set(t, key, v)
		}
		// convert again: the root, or the changed record itself
		if g.r.Intn(3) == 0 && t != root {
			convert(t)
		} else {
			convert(root)
		}
	}
	return initial, steps
}

// the history is run on the INITIAL tree (a deep copy taken before the mutations were applied to the
// generator's working tree).

func cloneNode(n *rnode, m map[*rnode]*rnode) *rnode {
	if c, ok := m[n]; ok {
		return c
	}
	c := &rnode{id: n.id, tn: n.tn, plain: n.plain, slotTy: n.slotTy}
	m[n] = c
	c.keys = append([]string{}, n.keys...)
	for _, v := range n.vals {
		c.vals = append(c.vals, cloneVal(v, m))
	}
	return c
}
func cloneVal(v *val, m map[*rnode]*rnode) *val {
	c := *v
	c.elems = nil
	for _, e := range v.elems {
		c.elems = append(c.elems, cloneVal(e, m))
	}
	if v.rec != nil {
		c.rec = cloneNode(v.rec, m)
	}
	return &c
}

// runHistory executes the steps on the real interpreter; initial = tree before any mutation.
func (rn *runner) runHistory(initial *rnode, steps []hstep) (input string, obs string) {
	var in strings.Builder
	seenSer := map[int]bool{}
	in.WriteString("hist " + rn.regOf[initial.tn].goName)
	serR(initial, seenSer, &in)
	if ok, why := rn.define(initial); !ok {
		obs = "DEFERR:" + why
	}
	prefix := fmt.Sprintf("r%d_", rn.epoch)
	defined := map[int]bool{}
	var nodes []*rnode
	collect(initial, defined, &nodes)
	var outs []string
	for _, st := range steps {
		name := fmt.Sprintf("%s%d", prefix, st.rec.id)
		switch st.op {
		case 'G', 'P', 'M':
			fmt.Fprintf(&in, " %c %d", st.op, st.rec.id)
			if obs != "" {
				continue
			}
			if st.op == 'G' {
				r := lib.Eval(rn.env, "(togo "+name+")", 2000000)
				if r.Class != lib.OutValue {
					outs = append(outs, "ERR")
					continue
				}
				x, _ := rn.get(name).(*zygo.SexpHash)
				if x == nil || !x.ShadowSet {
					outs = append(outs, "NOSHADOW")
					continue
				}
				outs = append(outs, "OK "+renderGo(x.GoShadowStruct))
			} else {
				src := ""
				if st.op == 'M' {
					src = fmt.Sprintf("(_method %s Self:)", name)
				} else {
					m := rn.see[rn.regOf[st.rec.tn].goName]
					src = fmt.Sprintf("(_method %s %s: %s)", m[0], m[1], name)
				}
				r := lib.Eval(rn.env, src, 2000000)
				if r.Class != lib.OutValue {
					outs = append(outs, "ERR")
					continue
				}
				arr, isArr := r.Val.(*zygo.SexpArray)
				if !isArr || len(arr.Val) != 1 {
					outs = append(outs, "?shape")
					continue
				}
				if str, ok := arr.Val[0].(*zygo.SexpStr); ok {
					outs = append(outs, "OK "+str.S)
				} else {
					outs = append(outs, "?notstring")
				}
			}
		case 'E':
			fmt.Fprintf(&in, " E %d %d", st.rec.id, len(st.path))
			for _, p := range st.path {
				fmt.Fprintf(&in, " %d", p)
			}
			fmt.Fprintf(&in, " %d", st.newRec.id)
			if obs != "" {
				continue
			}
			nn := fmt.Sprintf("%s%d", prefix, st.newRec.id)
			defined[st.newRec.id] = true
			r := lib.Eval(rn.env, fmt.Sprintf("(def %s (first (_method %s %s:)))", nn, name, st.method), 2000000)
			if r.Class != lib.OutValue {
				outs = append(outs, "ERR")
				continue
			}
			outs = append(outs, "OK "+renderSexp(rn.env, r.Val, 0))
		case 'S':
			fmt.Fprintf(&in, " S %d %s", st.rec.id, st.key)
			serV(st.v, seenSer, &in)
			if obs != "" {
				continue
			}
			// define the new records of the value, then (hset r %key v)
			e := &emitter{prefix: prefix}
			var fresh []*rnode
			collectV(st.v, defined, &fresh)
			for _, n := range fresh {
				e.defLines(n)
			}
			e.lines = append(e.lines, fmt.Sprintf("(hset %s %%%s %s)", name, st.key, e.v(st.v)))
			for i, a := range e.atoms {
				rn.env.AddGlobal(fmt.Sprintf("a%d", i), a.sexp(rn.env))
			}
			for _, l := range e.lines {
				if r := lib.Eval(rn.env, l, 2000000); r.Class != lib.OutValue {
					obs = "DEFERR:hset"
					break
				}
			}
		}
	}
	if obs == "" {
		obs = strings.Join(outs, ";")
	}
	return strings.TrimSpace(in.String()), obs
}
