// Histories on one record tree: convert, change a record with (hset r key v), convert again.
// The Go side must see the record's CURRENT fields after every conversion.
package main

import (
	"fmt"
	"strings"

	"github.com/glycerine/zygomys/v9/zygo"
	"verif/harness/lib"
)

type hstep struct {
	op  byte   // G: (togo r)   P: r passed to a Go method   S: (hset r key v)
	rec *rnode // the record the step acts on
	key string
	v   *val
}

func typedNodes(root *rnode) []*rnode {
	var nodes, out []*rnode
	collect(root, map[int]bool{}, &nodes)
	for _, n := range nodes {
		if !n.plain {
			out = append(out, n)
		}
	}
	return out
}

// genHistory: root + steps; mutations only add or overwrite fields (never a struct-valued field).
func (rn *runner) genHistory(g *gen, s *sinfo) (*rnode, []hstep) {
	root := g.record(s, "top", 0)
	initial := cloneNode(root, map[*rnode]*rnode{})
	steps := []hstep{{op: 'G', rec: root}}
	if g.r.Intn(3) == 0 {
		steps[0].op = 'P'
	}
	nmut := 1 + g.r.Intn(3)
	for m := 0; m < nmut; m++ {
		cands := typedNodes(root) // records attached to the tree now (new values included)
		t := cands[g.r.Intn(len(cands))]
		if g.r.Intn(3) == 0 {
			t = root
		}
		ts := rn.regOf[t.tn]
		var ds []det
		for _, d := range ts.dets {
			if !d.emb && !strings.Contains(d.ty, "?") && d.ty[0] != 'V' {
				ds = append(ds, d)
			}
		}
		if len(ds) == 0 {
			continue
		}
		for k := 1 + g.r.Intn(2); k > 0; k-- {
			d := ds[g.r.Intn(len(ds))]
			key := d.key
			for _, have := range t.keys { // keep the spelling the record already uses for this field
				if have == d.key || (lowerFirst(d.key) == have && lowerFirst(d.key) != d.key) {
					key = have
				}
			}
			g.pool = map[string][]*rnode{} // new values contain new records only
			v := g.value(d.ty, g.maxD-1)
			steps = append(steps, hstep{op: 'S', rec: t, key: key, v: cloneVal(v, map[*rnode]*rnode{})}) // snapshot: later steps may change records inside v
			// apply to the tree (hash set: an existing key keeps its position)
			found := false
			for i, k0 := range t.keys {
				if k0 == key {
					t.vals[i] = v
					found = true
				}
			}
			if !found {
				t.keys = append(t.keys, key)
				t.vals = append(t.vals, v)
			}
		}
		// convert again: the root, or the changed record itself
		c := root
		if g.r.Intn(3) == 0 {
			c = t
		}
		op := byte('G')
		if _, ok := rn.see[rn.regOf[c.tn].goName]; ok && g.r.Intn(3) == 0 {
			op = 'P'
		}
		steps = append(steps, hstep{op: op, rec: c})
	}
	if steps[0].op == 'P' {
		if _, ok := rn.see[s.goName]; !ok {
			steps[0].op = 'G'
		}
	}
	return initial, steps
}

// the history is run on the INITIAL tree (a deep copy taken before the mutations were applied to the
// generator's working tree).

func cloneNode(n *rnode, m map[*rnode]*rnode) *rnode {
	if c, ok := m[n]; ok {
		return c
	}
	c := &rnode{id: n.id, tn: n.tn, plain: n.plain, slotTy: n.slotTy}
	m[n] = c
	c.keys = append([]string{}, n.keys...)
	for _, v := range n.vals {
		c.vals = append(c.vals, cloneVal(v, m))
	}
	return c
}
func cloneVal(v *val, m map[*rnode]*rnode) *val {
	c := *v
	c.elems = nil
	for _, e := range v.elems {
		c.elems = append(c.elems, cloneVal(e, m))
	}
	if v.rec != nil {
		c.rec = cloneNode(v.rec, m)
	}
	return &c
}

// runHistory executes the steps on the real interpreter; initial = tree before any mutation.
func (rn *runner) runHistory(initial *rnode, steps []hstep) (input string, obs string) {
	var in strings.Builder
	seenSer := map[int]bool{}
	in.WriteString("hist " + rn.regOf[initial.tn].goName)
	serR(initial, seenSer, &in)
	if ok, why := rn.define(initial); !ok {
		obs = "DEFERR:" + why
	}
	prefix := fmt.Sprintf("r%d_", rn.epoch)
	defined := map[int]bool{}
	var nodes []*rnode
	collect(initial, defined, &nodes)
	var outs []string
	for _, st := range steps {
		name := fmt.Sprintf("%s%d", prefix, st.rec.id)
		switch st.op {
		case 'G', 'P':
			fmt.Fprintf(&in, " %c %d", st.op, st.rec.id)
			if obs != "" {
				continue
			}
			if st.op == 'G' {
				r := lib.Eval(rn.env, "(togo "+name+")", 2000000)
				if r.Class != lib.OutValue {
					outs = append(outs, "ERR")
					continue
				}
				x, _ := rn.get(name).(*zygo.SexpHash)
				if x == nil || !x.ShadowSet {
					outs = append(outs, "NOSHADOW")
					continue
				}
				outs = append(outs, "OK "+renderGo(x.GoShadowStruct))
			} else {
				m := rn.see[rn.regOf[st.rec.tn].goName]
				r := lib.Eval(rn.env, fmt.Sprintf("(_method %s %s: %s)", m[0], m[1], name), 2000000)
				if r.Class != lib.OutValue {
					outs = append(outs, "ERR")
					continue
				}
				arr, isArr := r.Val.(*zygo.SexpArray)
				if !isArr || len(arr.Val) != 1 {
					outs = append(outs, "?shape")
					continue
				}
				if str, ok := arr.Val[0].(*zygo.SexpStr); ok {
					outs = append(outs, "OK "+str.S)
				} else {
					outs = append(outs, "?notstring")
				}
			}
		case 'S':
			fmt.Fprintf(&in, " S %d %s", st.rec.id, st.key)
			serV(st.v, seenSer, &in)
			if obs != "" {
				continue
			}
			// define the new records of the value, then (hset r %key v)
			e := &emitter{prefix: prefix}
			var fresh []*rnode
			collectV(st.v, defined, &fresh)
			for _, n := range fresh {
				var b strings.Builder
				fmt.Fprintf(&b, "(def %s%d (%s", prefix, n.id, n.tn)
				for i, k := range n.keys {
					b.WriteString(" " + k + ":" + e.v(n.vals[i]))
				}
				b.WriteString("))")
				e.lines = append(e.lines, b.String())
			}
			e.lines = append(e.lines, fmt.Sprintf("(hset %s %%%s %s)", name, st.key, e.v(st.v)))
			for i, a := range e.atoms {
				rn.env.AddGlobal(fmt.Sprintf("a%d", i), a.sexp(rn.env))
			}
			for _, l := range e.lines {
				if r := lib.Eval(rn.env, l, 2000000); r.Class != lib.OutValue {
					obs = "DEFERR:hset"
					break
				}
			}
		}
	}
	if obs == "" {
		obs = strings.Join(outs, ";")
	}
	return strings.TrimSpace(in.String()), obs
}
