// c10: records convert to Go structs and back without loss.
// The harness registers its own struct types (types.go) next to the demo types, describes them
// by its own reflection walk (typeinfo.go), generates record trees with sharing (gen.go), runs
// the real conversions (SexpToGoStructs, (togo r), (_method obj Echo..: r)) and prints canonical
// observables: the Go value with pointer identity classes, the returned record, or ERR.
package main

import (
	"encoding/hex"
	"fmt"
	"math"
	"os"
	"reflect"
	"sort"
	"strings"
	"time"
	"unsafe"

	"github.com/glycerine/zygomys/v9/zygo"
	"verif/harness/lib"
)

// ---- rendering of Go values ---------------------------------------------------

type goRender struct {
	seen map[uintptr]int
}

func (r *goRender) val(v reflect.Value) string {
	switch v.Kind() {
	case reflect.Int, reflect.Int64, reflect.Int32:
		return fmt.Sprintf("I%d", v.Int())
	case reflect.Float64:
		return fmt.Sprintf("F%d", math.Float64bits(v.Float()))
	case reflect.String:
		return "S" + hex.EncodeToString([]byte(v.String()))
	case reflect.Bool:
		if v.Bool() {
			return "B1"
		}
		return "B0"
	case reflect.Slice:
		if v.Type().Elem().Kind() == reflect.Uint8 {
			return "Y" + hex.EncodeToString(v.Bytes())
		}
		parts := make([]string, v.Len())
		for i := range parts {
			parts[i] = r.val(v.Index(i))
		}
		return "L[" + strings.Join(parts, ",") + "]"
	case reflect.Struct:
		if v.Type() == timeType {
			if !v.CanInterface() { // reached through an unexported field: read it in place
				if !v.CanAddr() {
					return "T?"
				}
				v = reflect.NewAt(v.Type(), unsafe.Pointer(v.UnsafeAddr())).Elem()
			}
			t := v.Interface().(time.Time)
			if t.IsZero() {
				return "Tz"
			}
			return fmt.Sprintf("T%d", t.UnixNano())
		}
		parts := make([]string, v.NumField())
		for i := range parts {
			parts[i] = r.val(v.Field(i))
		}
		return "{" + v.Type().String() + " " + strings.Join(parts, " ") + "}"
	case reflect.Ptr:
		if v.IsNil() {
			return "Pn"
		}
		if k, ok := r.seen[v.Pointer()]; ok {
			return fmt.Sprintf("P#%d", k)
		}
		k := len(r.seen)
		r.seen[v.Pointer()] = k
		return fmt.Sprintf("P#%d=%s", k, r.val(v.Elem()))
	case reflect.Interface:
		if v.IsNil() {
			return "Nn"
		}
		return "N" + r.val(v.Elem())
	case reflect.Map:
		keys := v.MapKeys()
		sort.Slice(keys, func(i, j int) bool { return keys[i].String() < keys[j].String() })
		parts := make([]string, len(keys))
		for i, k := range keys {
			parts[i] = hex.EncodeToString([]byte(k.String())) + "=" + r.val(v.MapIndex(k))
		}
		return "M[" + strings.Join(parts, ",") + "]"
	}
	return "?" + v.Kind().String()
}

func renderGo(x interface{}) string {
	r := &goRender{seen: map[uintptr]int{}}
	return r.val(reflect.ValueOf(x))
}

// ---- rendering of records (Sexp) ----------------------------------------------

// how often a returned record carried the registered name / the Go type name of its type
// (fillHashHelper takes the first registry key whose factory matches while ranging over a Go map)
var typeNameRegistered, typeNameGo int

func canonType(tn string) string {
	if rt := zygo.GoStructRegistry.Lookup(tn); rt != nil && rt.ReflectName != "" {
		if tn == rt.ReflectName {
			typeNameGo++
		} else {
			typeNameRegistered++
		}
		return rt.ReflectName // the alias pair (registered name, Go type name) is one class
	}
	return tn
}

func renderSexp(env *zygo.Zlisp, x zygo.Sexp, depth int) string {
	if depth > 40 {
		return "?deep"
	}
	switch e := x.(type) {
	case *zygo.SexpInt:
		return fmt.Sprintf("I%d", e.Val)
	case *zygo.SexpFloat:
		return fmt.Sprintf("F%d", math.Float64bits(e.Val))
	case *zygo.SexpStr:
		return "S" + hex.EncodeToString([]byte(e.S))
	case *zygo.SexpBool:
		if e.Val {
			return "B1"
		}
		return "B0"
	case *zygo.SexpRaw:
		return "Y" + hex.EncodeToString(e.Val)
	case *zygo.SexpTime:
		if e.Tm.IsZero() {
			return "Tz"
		}
		return fmt.Sprintf("T%d", e.Tm.UnixNano())
	case *zygo.SexpSentinel:
		if e == zygo.SexpNull {
			return "Z"
		}
		return "?sentinel"
	case *zygo.SexpSymbol:
		return "Q" + hex.EncodeToString([]byte(e.SexpString(nil)))
	case *zygo.SexpArray:
		parts := make([]string, len(e.Val))
		for i := range parts {
			parts[i] = renderSexp(env, e.Val[i], depth+1)
		}
		return "A[" + strings.Join(parts, ",") + "]"
	case *zygo.SexpHash:
		parts := []string{}
		for _, k := range e.KeyOrder {
			v, err := e.HashGet(env, k)
			ks := k.SexpString(nil)
			if s, ok := k.(*zygo.SexpStr); ok {
				ks = s.S
			}
			if err != nil {
				parts = append(parts, ks+"=?missing")
				continue
			}
			parts = append(parts, ks+"="+renderSexp(env, v, depth+1))
		}
		return "R" + canonType(e.TypeName) + "{" + strings.Join(parts, ",") + "}"
	}
	return fmt.Sprintf("?%T", x)
}

// ---- running the real conversions ------------------------------------------------

type runner struct {
	epoch int
	recvs [][2]string // (variable, type name) of the method receivers
	env   *zygo.Zlisp
	u     *universe
	out   *lib.Out
	echo  map[string][2]string // goName of S -> (receiver variable, method name)
	see   map[string][2]string // goName of S -> (receiver variable, See method name)
	regOf map[string]*sinfo
}

func (v *val) sexp(env *zygo.Zlisp) zygo.Sexp {
	switch v.k {
	case 'I':
		return &zygo.SexpInt{Val: v.i}
	case 'F':
		return &zygo.SexpFloat{Val: math.Float64frombits(v.u)}
	case 'S':
		return &zygo.SexpStr{S: v.s}
	case 'Q':
		return env.MakeSymbol(v.s)
	case 'Y':
		return &zygo.SexpRaw{Val: []byte(v.s)}
	case 'T':
		return &zygo.SexpTime{Tm: time.Unix(0, v.i).UTC()}
	case 'U':
		return &zygo.SexpUint64{Val: v.u}
	case 'C':
		return &zygo.SexpChar{Val: rune(v.i)}
	}
	return zygo.SexpNull
}

// define evaluates the record definitions (fresh record objects every time); false on failure.
func (rn *runner) define(root *rnode) (ok bool, why string) {
	rn.epoch++
	if rn.epoch%400 == 0 {
		rn.freshEnv()
	}
	e := emit(root, fmt.Sprintf("r%d_", rn.epoch))
	for i, a := range e.atoms {
		rn.env.AddGlobal(fmt.Sprintf("a%d", i), a.sexp(rn.env))
	}
	for _, l := range e.lines {
		r := lib.Eval(rn.env, l, 2000000)
		if r.Class != lib.OutValue {
			if os.Getenv("C10_DEBUG") != "" {
				fmt.Fprintln(os.Stderr, "DEFERR", l, r.Show())
			}
			return false, r.Class
		}
	}
	return true, ""
}

func (rn *runner) name(root *rnode) string { return fmt.Sprintf("r%d_%d", rn.epoch, root.id) }

// freshEnv: a new interpreter (variables are typed by their first definition, and the global
// scope would grow without bound otherwise).
func (rn *runner) freshEnv() {
	rn.env = zygo.NewZlisp()
	rn.env.StandardSetup()
	for _, rv := range rn.recvs {
		if r := lib.Eval(rn.env, "(def "+rv[0]+" ("+rv[1]+"))", 100000); r.Class != lib.OutValue {
			fmt.Fprintln(os.Stderr, "cannot create receiver", rv[1], r.Show())
			os.Exit(3)
		}
	}
}

func (rn *runner) get(name string) zygo.Sexp {
	r := lib.Eval(rn.env, name, 100000)
	if r.Class != lib.OutValue {
		return nil
	}
	return r.Val
}

// togoDirect: SexpToGoStructs(record, &T{}, env, nil, 0, &T{}) as the tests call it.
func (rn *runner) togoDirect(root *rnode, target *sinfo) (obs string) {
	if ok, why := rn.define(root); !ok {
		return "DEFERR:" + why
	}
	x := rn.get(rn.name(root))
	if x == nil {
		return "DEFERR:get"
	}
	top := reflect.New(target.typ).Interface()
	defer func() {
		if r := recover(); r != nil {
			obs = "ERR"
		}
	}()
	_, err := zygo.SexpToGoStructs(x, top, rn.env, nil, 0, top)
	if err != nil {
		return "ERR"
	}
	return "OK " + renderGo(top)
}

// togoScript: (togo r) evaluated by the interpreter, then the attached Go value is read.
func (rn *runner) togoScript(root *rnode) string {
	if ok, why := rn.define(root); !ok {
		return "DEFERR:" + why
	}
	name := rn.name(root)
	r := lib.Eval(rn.env, "(togo "+name+")", 2000000)
	if r.Class == lib.OutError {
		return "ERR"
	}
	if r.Class != lib.OutValue {
		return strings.ToUpper(r.Class)
	}
	x, _ := rn.get(name).(*zygo.SexpHash)
	if x == nil || !x.ShadowSet {
		return "NOSHADOW"
	}
	return "OK " + renderGo(x.GoShadowStruct)
}

// echoScript: (_method recv EchoX: r) -> [record]
func (rn *runner) echoScript(root *rnode, target *sinfo) string {
	m, ok := rn.echo[target.goName]
	if !ok {
		return "NOMETHOD"
	}
	if ok, why := rn.define(root); !ok {
		return "DEFERR:" + why
	}
	r := lib.Eval(rn.env, fmt.Sprintf("(_method %s %s: %s)", m[0], m[1], rn.name(root)), 2000000)
	if r.Class == lib.OutError {
		return "ERR"
	}
	if r.Class != lib.OutValue {
		return strings.ToUpper(r.Class)
	}
	arr, isArr := r.Val.(*zygo.SexpArray)
	if !isArr || len(arr.Val) != 1 {
		return "?shape"
	}
	return "OK " + renderSexp(rn.env, arr.Val[0], 0)
}

func (rn *runner) caseTogo(root *rnode, target *sinfo, tags ...string) {
	a := rn.togoDirect(root, target)
	if rs := rn.regOf[root.tn]; rs == target {
		if b := rn.togoScript(root); a != b {
			a = "ROUTES-DIFFER direct=" + a + " script=" + b
		}
	}
	in := "togo " + target.goName + " " + serialise(root)
	rn.out.Case(in, a, len(root.keys) > 0, append(tags, "op:togo", "target:"+target.goName)...)
}

func (rn *runner) caseEcho(root *rnode, target *sinfo, tags ...string) {
	a := rn.echoScript(root, target)
	in := "echo " + target.goName + " " + serialise(root)
	rn.out.Case(in, a, len(root.keys) > 0, append(tags, "op:echo", "target:"+target.goName)...)
}

// caseMix: the same conversion repeated on fresh records; observable all-ok / mixed / all-err
// (the fill order of SexpToGoStructs follows Go map iteration).
func (rn *runner) caseMix(root *rnode, target *sinfo, reps int, tags ...string) {
	seen := map[string]int{}
	for i := 0; i < reps; i++ {
		seen[rn.togoDirect(root, target)]++
	}
	nerr := seen["ERR"]
	obs := ""
	switch {
	case nerr == 0 && len(seen) == 1:
		for k := range seen {
			obs = "ALL " + k
		}
	case nerr == reps:
		obs = "ALL ERR"
	case nerr > 0 && len(seen) == 2:
		for k := range seen {
			if k != "ERR" {
				obs = "SOME-ERR " + k
			}
		}
	default:
		obs = fmt.Sprintf("UNSTABLE %d outcomes", len(seen))
	}
	in := "mix " + target.goName + " " + serialise(root)
	rn.out.Case(in, obs, true, append(tags, "op:mix", "target:"+target.goName)...)
}

// ---- streams ---------------------------------------------------------------

func kindSamples(g *gen) []*val {
	vs := []*val{
		{k: 'I', i: 5}, {k: 'I', i: math.MinInt64}, {k: 'F', u: math.Float64bits(2.5)}, {k: 'F', u: math.Float64bits(3)},
		{k: 'F', u: math.Float64bits(-1e300)},
		{k: 'S', s: "str"}, {k: 'S', s: ""}, {k: 'Q', s: "sym"}, {k: 'B', i: 1}, {k: 'Y', s: "raw"}, {k: 'Y', s: ""},
		{k: 'T', i: 1600000000123456789}, {k: 'Z'}, {k: 'U', u: 5}, {k: 'C', i: 97},
		{k: 'A'}, {k: 'A', elems: []*val{{k: 'I', i: 1}, {k: 'I', i: 2}}}, {k: 'A', elems: []*val{{k: 'S', s: "x"}}},
		{k: 'A', elems: []*val{{k: 'F', u: math.Float64bits(1.5)}}}, {k: 'A', elems: []*val{{k: 'Z'}}},
	}
	return vs
}

func (rn *runner) matrix(g *gen) {
	regs := g.regStructs()
	for _, s := range regs {
		for _, d := range s.dets {
			if strings.Contains(d.ty, "?") {
				continue
			}
			one := func(v *val, tag string) {
				root := &rnode{id: g.newID(), tn: s.reg, keys: []string{d.key}, vals: []*val{v}}
				rn.caseTogo(root, s, "stream:matrix", "kind:"+tag+"->"+d.ty[:1])
			}
			for _, v := range kindSamples(g) {
				one(v, string(v.k))
			}
			for _, o := range regs {
				child := &rnode{id: g.newID(), tn: o.reg}
				one(&val{k: 'R', rec: child}, "R")
				one(&val{k: 'A', elems: []*val{{k: 'R', rec: child}}}, "AR")
			}
			one(&val{k: 'H', rec: &rnode{id: g.newID(), tn: "hash", plain: true}}, "H")
			one(&val{k: 'H', rec: &rnode{id: g.newID(), tn: "hash", plain: true, keys: []string{"k"}, vals: []*val{{k: 'S', s: "v"}}}}, "H")
			one(&val{k: 'H', rec: &rnode{id: g.newID(), tn: "hash", plain: true, keys: []string{"k"}, vals: []*val{{k: 'F', u: math.Float64bits(0.5)}}}}, "H")
			one(&val{k: 'H', rec: &rnode{id: g.newID(), tn: "hash", plain: true, keys: []string{"k", "j"}, vals: []*val{{k: 'I', i: 3}, {k: 'Z'}}}}, "H")
		}
		// keys that are not symbols: a string key names the field like the symbol does; int / char / array keys name nothing
		for _, d := range s.dets {
			if d.emb || strings.Contains(d.ty, "?") {
				continue
			}
			root := &rnode{id: g.newID(), tn: s.reg, keys: []string{"$" + d.key}, vals: []*val{g.value(d.ty, g.maxD)}}
			rn.caseTogo(root, s, "stream:matrix", "key:string")
		}
		for _, k := range []string{"#I5", "#C120", "#A"} {
			root := &rnode{id: g.newID(), tn: s.reg, keys: []string{k}, vals: []*val{{k: 'I', i: 1}}}
			rn.caseTogo(root, s, "stream:matrix", "key:nonname")
			if len(s.dets) > 0 && !s.dets[0].emb && !strings.Contains(s.dets[0].ty, "?") {
				root = &rnode{id: g.newID(), tn: s.reg, keys: []string{s.dets[0].key, k}, vals: []*val{g.value(s.dets[0].ty, g.maxD), {k: 'I', i: 1}}}
				rn.caseTogo(root, s, "stream:matrix", "key:nonname")
			}
		}
	}
}

// mutate: insert one fault somewhere in the tree (any depth).
func mutate(g *gen, root *rnode, unknown bool) string {
	var nodes []*rnode
	collect(root, map[int]bool{}, &nodes)
	var typed []*rnode
	for _, n := range nodes {
		if !n.plain {
			typed = append(typed, n)
		}
	}
	n := typed[g.r.Intn(len(typed))]
	if unknown && g.r.Intn(3) == 0 {
		// an entry whose key is not a symbol or string (put there with hset): names no field
		k := []string{fmt.Sprintf("#I%d", g.r.Intn(100)), fmt.Sprintf("#C%d", 97+g.r.Intn(26)), "#A"}[g.r.Intn(3)]
		n.keys = append(n.keys, k)
		n.vals = append(n.vals, g.vInt())
		return "mut:nonname-key"
	}
	if unknown || len(n.keys) == 0 {
		k := g.ident()
		for _, x := range n.keys {
			if x == k {
				k = k + "q"
			}
		}
		pos := g.r.Intn(len(n.keys) + 1)
		n.keys = append(n.keys[:pos], append([]string{k}, n.keys[pos:]...)...)
		n.vals = append(n.vals[:pos], append([]*val{g.vInt()}, n.vals[pos:]...)...)
		return "mut:unknown-field"
	}
	i := g.r.Intn(len(n.keys))
	v := g.anyValue(0)
	n.vals[i] = v
	return "mut:kind-" + string(v.k)
}

func main() {
	a := lib.ParseArgs()
	out := lib.NewOut(a.Out)
	out.Rule = "types line; field table (DetOrder, JsonTagMap) of every registered struct; bare value x bare slot conversions (every slot type occurring in the described structs x 20 value samples, records of every type, hashes, valid values); arrays with repeated elements (a b a), elements shared between two arrays, elements omitting fields, by value and by pointer / interface; kind x field matrix (every field of every registered struct x one sample of every value kind, exhaustive); random type-directed record trees (depth <= 4, sharing 20-70%) for togo (two routes) and echo; the same with one unknown field or one value of a random kind inserted at a random node; records of one type converted into another type (top level); records shared between a pointer field and an interface field (repeated, order of filling is random); non-trivial = the top record has at least one field; distinct = distinct (op,target,record) inputs"
	// registration through the public API, before the interpreter is built
	registerTypes()
	zygo.RegisterDemoStructs()
	for _, e := range []regEntry{{"nestouter", func() interface{} { return &zygo.NestOuter{} }}, {"nestinner", func() interface{} { return &zygo.NestInner{} }}} {
		mk := e.mk
		zygo.GoStructRegistry.RegisterUserdef(&zygo.RegisteredType{GenDefMap: true,
			Factory: func(env *zygo.Zlisp, h *zygo.SexpHash) (interface{}, error) { return mk(), nil }}, true, e.name)
	}
	regs := map[string]interface{}{}
	for _, e := range regTable {
		regs[e.name] = e.mk()
	}
	for n, x := range map[string]interface{}{"eventdemo": &zygo.Event{}, "persondemo": &zygo.Person{}, "snoopy": &zygo.Snoopy{}, "hornet": &zygo.Hornet{},
		"hellcat": &zygo.Hellcat{}, "weather": &zygo.Weather{}, "plane": &zygo.Plane{}, "setOfPlanes": &zygo.SetOfPlanes{},
		"nestouter": &zygo.NestOuter{}, "nestinner": &zygo.NestInner{}} {
		regs[n] = x
	}
	u := newUniverse(regs)
	rn := &runner{see: map[string][2]string{}, u: u, out: out, echo: map[string][2]string{}, regOf: u.byReg}
	// receivers of the identity methods: every registered type with a method Echo*(*S) *S
	names := make([]string, 0)
	for n := range regs {
		names = append(names, n)
	}
	sort.Strings(names)
	for _, n := range names {
		pt := reflect.TypeOf(regs[n])
		for i := 0; i < pt.NumMethod(); i++ {
			m := pt.Method(i)
			if strings.HasPrefix(m.Name, "See") && m.Type.NumIn() == 2 && m.Type.NumOut() == 1 && m.Type.Out(0).Kind() == reflect.String && m.Type.In(1).Kind() == reflect.Ptr {
				recv := "recv_" + n
				if len(rn.recvs) == 0 || rn.recvs[len(rn.recvs)-1][0] != recv {
					rn.recvs = append(rn.recvs, [2]string{recv, n})
				}
				rn.see[m.Type.In(1).Elem().String()] = [2]string{recv, m.Name}
			}
			if strings.HasPrefix(m.Name, "Echo") && m.Type.NumIn() == 2 && m.Type.NumOut() == 1 && m.Type.In(1) == m.Type.Out(0) && m.Type.In(1).Kind() == reflect.Ptr {
				recv := "recv_" + n
				if len(rn.recvs) == 0 || rn.recvs[len(rn.recvs)-1][0] != recv {
					rn.recvs = append(rn.recvs, [2]string{recv, n})
				}
				rn.echo[m.Type.In(1).Elem().String()] = [2]string{recv, m.Name}
			}
		}
	}
	rn.freshEnv()
	out.Case(u.line(), "ok", false, "op:types")
	out.Extra["registered_types"] = len(regs)
	out.Extra["struct_types_described"] = len(u.order)
	out.Extra["echo_methods"] = len(rn.echo)

	if a.Replay != "" {
		rn.replay(a.Replay)
		out.Close(a.Stats)
		return
	}
	rng := lib.NewRng(a.Seed)
	g0 := newGen(u, rng.Fork())
	rn.matrix(g0)
	out.Extra["matrix_exhaustive"] = true
	rn.paths()
	rn.slots(g0)
	// arrays: repeated elements, elements shared between two arrays, elements omitting fields
	var withArrays []*sinfo
	for _, s := range g0.regStructs() {
		if _, ok := newGen(u, lib.NewRng(1)).arrayRecord(s); ok {
			withArrays = append(withArrays, s)
		}
	}
	na := 300
	if a.Tier == "thorough" {
		na = 4000
	}
	for k := 0; k < na; k++ {
		g := newGen(u, rng.Fork())
		s := withArrays[g.r.Intn(len(withArrays))]
		root, _ := g.arrayRecord(s)
		if _, ok := rn.echo[s.goName]; ok && k%4 == 3 {
			rn.caseEcho(root, s, "stream:arrays")
		} else {
			rn.caseTogo(root, s, "stream:arrays")
		}
	}

	n := 2500
	if a.Tier == "thorough" {
		n = 60000
	}
	regsList := g0.regStructs()
	var echoable []*sinfo
	for _, s := range regsList {
		if _, ok := rn.echo[s.goName]; ok {
			echoable = append(echoable, s)
		}
	}
	for k := 0; k < n; k++ {
		g := newGen(u, rng.Fork())
		s := regsList[g.r.Intn(len(regsList))]
		switch k % 12 {
		case 10, 11: // history: convert, hset, convert again
			var initial *rnode
			var steps []hstep
			if k%24 == 10 { // a Go method hands back a pointer owned by the record's Go object
				var own []*sinfo
				for _, x := range regsList {
					if len(rn.returnMethods(x)) > 0 && rn.hasSelf(&rnode{tn: x.reg}) {
						own = append(own, x)
					}
				}
				initial, steps = rn.genAlias(g, own[g.r.Intn(len(own))])
			} else {
				initial, steps = rn.genHistory(g, s)
			}
			in, obs := rn.runHistory(initial, steps)
			out.Case(in, obs, true, "stream:history", "op:hist", fmt.Sprintf("hist-steps:%d", len(steps)))
		case 0, 1, 2: // valid, forward
			root := g.record(s, "top", 0)
			whole := false
			for i, k := range root.keys {
				for _, e := range s.dets {
					whole = whole || (e.emb && e.key == k && root.vals[i].k == 'R')
				}
			}
			if whole && len(root.keys) > 1 {
				// an embedded struct addressed by its own key and through promoted names: every order of filling
				// must give the same struct (repeated conversions of fresh records)
				rn.caseMix(root, s, 24, "stream:whole-embedded")
			} else {
				rn.caseTogo(root, s, "stream:valid")
			}
		case 3, 4: // valid, round trip
			s = echoable[g.r.Intn(len(echoable))]
			rn.caseEcho(g.record(s, "top", 0), s, "stream:valid")
		case 5: // unknown field
			root := g.record(s, "top", 0)
			tag := mutate(g, root, true)
			rn.caseTogo(root, s, "stream:fault", tag)
		case 6: // wrong kind
			root := g.record(s, "top", 0)
			tag := mutate(g, root, false)
			rn.caseTogo(root, s, "stream:fault", tag)
		case 7: // fault through a method call
			s = echoable[g.r.Intn(len(echoable))]
			root := g.record(s, "top", 0)
			tag := mutate(g, root, g.r.Intn(2) == 0)
			rn.caseEcho(root, s, "stream:fault", tag)
		case 8: // record of another type at top level
			o := regsList[g.r.Intn(len(regsList))]
			if g.r.Intn(2) == 0 {
				rn.caseTogo(g.record(o, "top", 0), s, "stream:toptype")
			} else {
				s = echoable[g.r.Intn(len(echoable))]
				rn.caseEcho(g.record(o, "top", 0), s, "stream:toptype")
			}
		case 9: // the same record in a pointer field and in an interface field
			var pd, nd []det
			for _, d := range s.dets {
				if d.emb {
					continue
				}
				if d.ty[0] == 'P' {
					pd = append(pd, d)
				}
				if d.ty[0] == 'N' {
					nd = append(nd, d)
				}
			}
			if len(pd) == 0 || len(nd) == 0 {
				rn.caseTogo(g.record(s, "top", 0), s, "stream:valid")
				continue
			}
			p := pd[g.r.Intn(len(pd))]
			q := nd[g.r.Intn(len(nd))]
			cs := u.structs[p.ty[2:]]
			implements := false
			for _, x := range u.impls[q.ty[2:]] {
				implements = implements || x == cs.goName
			}
			if !implements {
				rn.caseTogo(g.record(s, "top", 0), s, "stream:valid")
				continue
			}
			g.maxD = 1
			child := g.record(cs, p.ty, 1)
			root := &rnode{id: g.newID(), tn: s.reg, keys: []string{p.key, q.key}, vals: []*val{{k: 'R', rec: child}, {k: 'R', rec: child}}}
			if g.r.Intn(2) == 0 {
				root.keys[0], root.keys[1] = root.keys[1], root.keys[0]
			}
			rn.caseMix(root, s, 40, "stream:mixshare")
		}
	}
	out.Extra["returned_type_name_registered"] = typeNameRegistered
	out.Extra["returned_type_name_go_alias"] = typeNameGo
	out.Close(a.Stats)
}
