// Replay: parse the INPUT text of a case ("<op> <Target> <record>") back into a record tree.
package main

import (
	"encoding/hex"
	"encoding/json"
	"fmt"
	"os"
	"strconv"
	"strings"
)

type tokStream struct {
	t    []string
	defs map[int]*rnode
}

func (s *tokStream) next() string {
	if len(s.t) == 0 {
		panic("replay: input too short")
	}
	x := s.t[0]
	s.t = s.t[1:]
	return x
}

func (s *tokStream) fields(n *rnode, cnt int) {
	for i := 0; i < cnt; i++ {
		n.keys = append(n.keys, s.next())
		n.vals = append(n.vals, s.value())
	}
}

func (s *tokStream) value() *val {
	t := s.next()
	atoi := func(x string) int { n, _ := strconv.Atoi(x); return n }
	switch t {
	case "Z":
		return &val{k: 'Z'}
	case "A":
		v := &val{k: 'A'}
		for n := atoi(s.next()); n > 0; n-- {
			v.elems = append(v.elems, s.value())
		}
		return v
	case "R":
		n := &rnode{id: atoi(s.next()), tn: s.next()}
		s.defs[n.id] = n
		s.fields(n, atoi(s.next()))
		return &val{k: 'R', rec: n}
	case "H":
		n := &rnode{id: atoi(s.next()), tn: "hash", plain: true}
		s.defs[n.id] = n
		s.fields(n, atoi(s.next()))
		return &val{k: 'H', rec: n}
	}
	body := t[1:]
	switch t[0] {
	case 'I', 'T', 'C':
		n, _ := strconv.ParseInt(body, 10, 64)
		return &val{k: t[0], i: n}
	case 'F', 'U':
		n, _ := strconv.ParseUint(body, 10, 64)
		return &val{k: t[0], u: n}
	case 'S', 'Q', 'Y':
		b, _ := hex.DecodeString(body)
		return &val{k: t[0], s: string(b)}
	case 'B':
		n, _ := strconv.ParseInt(body, 10, 64)
		return &val{k: 'B', i: n}
	case 'X':
		n := s.defs[atoi(body)]
		if n == nil {
			panic("replay: dangling X")
		}
		k := byte('R')
		if n.plain {
			k = 'H'
		}
		return &val{k: k, rec: n}
	}
	panic("replay: bad token " + t)
}

// replayInputs: the "input" of a replay file (or of each entry of its "cases" list)
func replayInputs(path string) []string {
	b, err := os.ReadFile(path)
	if err != nil {
		panic(err)
	}
	var d map[string]interface{}
	if err := json.Unmarshal(b, &d); err != nil {
		panic(err)
	}
	var out []string
	if s, ok := d["input"].(string); ok {
		out = append(out, s)
	}
	if cs, ok := d["cases"].([]interface{}); ok {
		for _, c := range cs {
			if m, ok := c.(map[string]interface{}); ok {
				if s, ok := m["input"].(string); ok {
					out = append(out, s)
				}
			}
		}
	}
	return out
}

func (rn *runner) replay(path string) {
	for _, in := range replayInputs(path) {
		toks := strings.Fields(in)
		if len(toks) < 2 || len(toks) < 3 && toks[0] != "paths" {
			continue
		}
		if toks[0] == "paths" {
			rn.paths()
			continue
		}
		if toks[0] == "slot" {
			_, byDesc := rn.slotTypes()
			if rt, ok := byDesc[toks[1]]; ok {
				s := &tokStream{t: toks[2:], defs: map[int]*rnode{}}
				rn.slotCase(toks[1], rt, s.value(), "stream:replay")
			} else {
				fmt.Fprintln(os.Stderr, "replay: unknown slot type", toks[1])
			}
			continue
		}
		target := rn.u.structs[toks[1]]
		if target == nil {
			fmt.Fprintln(os.Stderr, "replay: unknown target", toks[1])
			continue
		}
		s := &tokStream{t: toks[2:], defs: map[int]*rnode{}}
		v := s.value()
		if v.rec == nil {
			continue
		}
		if toks[0] == "hist" {
			var steps []hstep
			for len(s.t) > 0 {
				op := s.next()
				id, _ := strconv.Atoi(s.next())
				rec := s.defs[id]
				if rec == nil {
					panic("replay: hist step on unknown record")
				}
				if op == "E" {
					np, _ := strconv.Atoi(s.next())
					var path []int
					for ; np > 0; np-- {
						x, _ := strconv.Atoi(s.next())
						path = append(path, x)
					}
					newid, _ := strconv.Atoi(s.next())
					rs := rn.regOf[rec.tn]
					method, ret := "Me", rs
					if len(path) == 1 && rs != nil && path[0] < len(rs.fields) {
						method = "Get" + rs.fields[path[0]].name
						ret = rn.u.structs[rs.fields[path[0]].ty[2:]]
					}
					nr := &rnode{id: newid, tn: ret.reg}
					s.defs[newid] = nr
					steps = append(steps, hstep{op: 'E', rec: rec, path: path, method: method, newRec: nr})
				} else if op == "S" {
					key := s.next()
					steps = append(steps, hstep{op: 'S', rec: rec, key: key, v: s.value()})
				} else {
					steps = append(steps, hstep{op: op[0], rec: rec})
				}
			}
			in, obs := rn.runHistory(v.rec, steps)
			rn.out.Case(in, obs, true, "stream:replay", "op:hist")
			continue
		}
		switch toks[0] {
		case "togo":
			rn.caseTogo(v.rec, target, "stream:replay")
			rn.caseMix(v.rec, target, 24, "stream:replay") // the order of filling is random: repeat on fresh records
		case "echo":
			rn.caseEcho(v.rec, target, "stream:replay")
		case "mix":
			rn.caseMix(v.rec, target, 40, "stream:replay")
		}
	}
}
