// Sixth round: the field table itself (paths), bare value x bare slot conversions (slot), arrays with repeated
// and shared elements (arr), and the harness type Fleet (slices of by-value structs, two slices of one pointer /
// interface type, slice of slices, two struct-valued fields of one type).
package main

import (
	"fmt"
	"reflect"
	"sort"
	"strconv"
	"strings"

	"github.com/glycerine/zygomys/v9/zygo"
	"verif/harness/lib"
)

type Fleet struct {
	Name  string    `json:"name"`
	Vals  []Clash   `json:"vals"`
	Bases []Base    `json:"bases"`
	A     []*Leaf   `json:"a"`
	B     []*Leaf   `json:"b"`
	S1    []Shape   `json:"s1"`
	S2    []Shape   `json:"s2"`
	Grid  [][]int64 `json:"grid"`
	One   Clash     `json:"one"`
	Two   Clash     `json:"two"`
	Deeps []Deep4   `json:"deeps"`
}

func (x *Fleet) Self() string               { return renderGo(x) }
func (x *Fleet) ShapeName() string          { return "fleet" }
func (e *Echoer) SeeFleet(x *Fleet) string  { return renderGo(x) }
func (e *Echoer) EchoFleet(x *Fleet) *Fleet { return x }

func init() {
	regTable = append(regTable, regEntry{"fleet", func() interface{} { return &Fleet{} }})
}

func pathStr(p []int) string {
	parts := make([]string, len(p))
	for i, x := range p {
		parts[i] = strconv.Itoa(x)
	}
	return strings.Join(parts, ".")
}

// paths: the field table zygo builds for a record of every registered type (SexpHash.DetOrder, SexpHash.JsonTagMap,
// filled by hashutils.go:fillJsonMap), rendered as D:key=path,..;M:key=path,.. (M sorted by key).
func (rn *runner) paths() {
	names := make([]string, 0, len(rn.regOf))
	for n := range rn.regOf {
		names = append(names, n)
	}
	sort.Strings(names)
	for _, n := range names {
		s := rn.regOf[n]
		in := "paths " + s.goName
		r := lib.Eval(rn.env, "("+n+")", 200000)
		h, ok := r.Val.(*zygo.SexpHash)
		if r.Class != lib.OutValue || !ok {
			rn.out.Case(in, "NORECORD", true, "stream:paths", "op:paths")
			continue
		}
		var d, m []string
		for _, det := range h.DetOrder {
			p := make([]int, len(det.EmbedPath))
			for i, e := range det.EmbedPath {
				p[i] = e.ChildFieldNum
			}
			d = append(d, det.FieldJsonTag+"="+pathStr(p))
		}
		for k, det := range h.JsonTagMap {
			p := make([]int, len(det.EmbedPath))
			for i, e := range det.EmbedPath {
				p[i] = e.ChildFieldNum
			}
			m = append(m, k+"="+pathStr(p))
		}
		sort.Strings(m)
		maxDepth := 0
		for _, x := range s.dets {
			if len(x.path) > maxDepth {
				maxDepth = len(x.path)
			}
		}
		rn.out.Case(in, "D:"+strings.Join(d, ",")+";M:"+strings.Join(m, ","), len(d) > 0, "stream:paths", "op:paths", fmt.Sprintf("embed-depth:%d", maxDepth))
	}
}

// slotTypes: every slot type occurring in the described structs (fields, slice elements), by type description.
func (rn *runner) slotTypes() (descs []string, byDesc map[string]reflect.Type) {
	byDesc = map[string]reflect.Type{}
	var add func(ty string, rt reflect.Type)
	add = func(ty string, rt reflect.Type) {
		if strings.Contains(ty, "?") {
			return
		}
		if _, ok := byDesc[ty]; ok {
			return
		}
		byDesc[ty] = rt
		descs = append(descs, ty)
		if ty[0] == 'L' {
			add(ty[1:], rt.Elem())
		}
	}
	for _, gn := range rn.u.order {
		for _, f := range rn.u.structs[gn].fields {
			add(f.ty, f.rt)
		}
	}
	sort.Strings(descs)
	return
}

// slotCase: SexpToGoStructs(v, new(T), env, nil, 1, _): one bare value into one bare slot (calldepth 1: the way
// every field, element and map value is converted).
func (rn *runner) slotCase(ty string, rt reflect.Type, v *val, tags ...string) {
	wrap := &rnode{id: 1 << 20, tn: "hash", plain: true, keys: []string{"v"}, vals: []*val{v}}
	var b strings.Builder
	serV(v, map[int]bool{}, &b)
	in := "slot " + ty + " " + strings.TrimSpace(b.String())
	obs := func() (obs string) {
		if ok, why := rn.define(wrap); !ok {
			return "DEFERR:" + why
		}
		h, _ := rn.get(rn.name(wrap)).(*zygo.SexpHash)
		if h == nil {
			return "DEFERR:get"
		}
		x, err := h.HashGet(rn.env, rn.env.MakeSymbol("v"))
		if err != nil {
			return "DEFERR:hget"
		}
		slot := reflect.New(rt)
		defer func() {
			if r := recover(); r != nil {
				obs = "ERR"
			}
		}()
		if _, err := zygo.SexpToGoStructs(x, slot.Interface(), rn.env, nil, 1, slot.Interface()); err != nil {
			return "ERR"
		}
		r := &goRender{seen: map[uintptr]int{}}
		return "OK " + r.val(slot.Elem())
	}()
	rn.out.Case(in, obs, true, append(tags, "op:slot", "slot:"+ty[:1], "kind:"+string(v.k)+"->"+ty[:1])...)
}

func (rn *runner) slots(g *gen) {
	descs, byDesc := rn.slotTypes()
	regs := g.regStructs()
	for _, ty := range descs {
		rt := byDesc[ty]
		for _, v := range kindSamples(g) {
			rn.slotCase(ty, rt, v, "stream:slot")
		}
		for _, o := range regs {
			rn.slotCase(ty, rt, &val{k: 'R', rec: &rnode{id: g.newID(), tn: o.reg}}, "stream:slot")
		}
		rn.slotCase(ty, rt, &val{k: 'H', rec: &rnode{id: g.newID(), tn: "hash", plain: true}}, "stream:slot")
		rn.slotCase(ty, rt, &val{k: 'H', rec: &rnode{id: g.newID(), tn: "hash", plain: true, keys: []string{"k"}, vals: []*val{{k: 'S', s: "v"}}}}, "stream:slot")
		rn.slotCase(ty, rt, &val{k: 'H', rec: &rnode{id: g.newID(), tn: "hash", plain: true, keys: []string{"k"}, vals: []*val{{k: 'I', i: 3}}}}, "stream:slot")
		// a well-typed value of the slot's own type, three times (random contents)
		for i := 0; i < 3; i++ {
			v := g.value(ty, g.maxD-1)
			var nodes []*rnode
			collectV(v, map[int]bool{}, &nodes)
			unreg := false
			for _, x := range nodes {
				unreg = unreg || x.tn == ""
			}
			if !unreg {
				rn.slotCase(ty, rt, v, "stream:slot", "slot-valid")
			}
		}
	}
	rn.out.Extra["slot_types"] = len(descs)
}

// arrayRecord: a record of type s in which every slice-of-records field gets an explicit pattern: fresh elements
// (all fields / few fields / no fields, so that later elements omit fields earlier ones set), an earlier element
// of the SAME array again (a b a), an element of ANOTHER array of the same element type (records shared between two
// arrays), nil.  By-value elements ([]T) repeat as copies, pointer / interface elements as one object.
func (g *gen) arrayRecord(s *sinfo) (*rnode, bool) {
	n := &rnode{id: g.newID(), tn: s.reg, slotTy: "top"}
	pools := map[string][]*val{} // element type -> elements used so far in any array of this record
	did := false
	for _, d := range s.dets {
		if d.emb || len(d.ty) < 2 || d.ty[0] != 'L' || !strings.ContainsAny(d.ty[1:2], "PNV") || strings.Contains(d.ty, "?") {
			continue
		}
		if _, clash := indexOf(n.keys, d.key); clash {
			continue
		}
		et := d.ty[1:]
		cnt := 2 + g.r.Intn(5)
		arr := &val{k: 'A'}
		for i := 0; i < cnt; i++ {
			p := pools[et]
			switch c := g.r.Intn(10); {
			case c < 4 && len(p) > 0:
				arr.elems = append(arr.elems, p[g.r.Intn(len(p))])
			case c == 4 && et[0] != 'V':
				arr.elems = append(arr.elems, &val{k: 'Z'})
			default:
				save := g.share
				g.share = 0
				e := g.value(et, g.maxD-1)
				g.share = save
				if e.k == 'R' && g.r.Intn(3) == 0 && len(e.rec.keys) > 1 { // an element that omits most fields
					k := g.r.Intn(len(e.rec.keys))
					e.rec.keys, e.rec.vals = e.rec.keys[k:k+1], e.rec.vals[k:k+1]
				}
				arr.elems = append(arr.elems, e)
				if e.k == 'R' {
					pools[et] = append(pools[et], e)
				}
			}
		}
		n.keys = append(n.keys, d.key)
		n.vals = append(n.vals, arr)
		did = true
	}
	return n, did
}

func indexOf(l []string, x string) (int, bool) {
	for i, y := range l {
		if y == x {
			return i, true
		}
	}
	return -1, false
}
