// Reflection-derived description of the Go struct types (the harness's own walk over
// reflect.Type, independent of zygo's fillJsonMap) in the line format the model runner parses.
package main

import (
	"reflect"
	"sort"
	"strings"
	"time"
)

type finfo struct {
	name string
	tag  string // "" = none
	emb  bool
	ty   string // type grammar: i(int64) j(int) f s b y t L<ty> P:<struct> V:<struct> N:<iface> M<ty> ?
	rt   reflect.Type
}

type sinfo struct {
	goName string // reflect name, e.g. main.Leaf
	reg    string // registered record type name, "" if not registered
	typ    reflect.Type
	fields []finfo
	dets   []det // flattened
}

// det: one entry of the flattened field table (depth-first, embedded structs expanded)
type det struct {
	key   string // json tag or Go field name
	name  string
	path  []int
	ty    string
	rt    reflect.Type
	emb   bool // the embedded struct entry itself
	depth int
}

type universe struct {
	structs map[string]*sinfo
	order   []string
	ifaces  map[string]reflect.Type
	impls   map[string][]string // iface name -> go names of registered structs whose pointer implements it
	byReg   map[string]*sinfo
}

var timeType = reflect.TypeOf(time.Time{})

func (u *universe) tdesc(t reflect.Type) string {
	switch t.Kind() {
	case reflect.Int64:
		return "i"
	case reflect.Int:
		return "j"
	case reflect.Float64:
		return "f"
	case reflect.String:
		return "s"
	case reflect.Bool:
		return "b"
	case reflect.Slice:
		if t.Elem().Kind() == reflect.Uint8 {
			return "y"
		}
		e := u.tdesc(t.Elem())
		if strings.Contains(e, "?") {
			return "?"
		}
		return "L" + e
	case reflect.Struct:
		if t == timeType {
			return "t"
		}
		u.addStruct(t)
		return "V:" + t.String()
	case reflect.Ptr:
		if t.Elem().Kind() == reflect.Struct && t.Elem() != timeType {
			u.addStruct(t.Elem())
			return "P:" + t.Elem().String()
		}
		return "?"
	case reflect.Interface:
		if t.NumMethod() == 0 {
			return "?"
		}
		u.ifaces[t.String()] = t
		return "N:" + t.String()
	case reflect.Map:
		if t.Key().Kind() != reflect.String {
			return "?"
		}
		e := u.tdesc(t.Elem())
		if e == "s" || e == "f" || strings.HasPrefix(e, "N:") {
			return "M" + e
		}
		return "?"
	}
	return "?"
}

func (u *universe) addStruct(t reflect.Type) *sinfo {
	if s, ok := u.structs[t.String()]; ok {
		return s
	}
	s := &sinfo{goName: t.String(), typ: t}
	u.structs[s.goName] = s
	u.order = append(u.order, s.goName)
	for i := 0; i < t.NumField(); i++ {
		f := t.Field(i)
		s.fields = append(s.fields, finfo{name: f.Name, tag: f.Tag.Get("json"), emb: f.Anonymous, ty: u.tdesc(f.Type), rt: f.Type})
	}
	return s
}

func (u *universe) flatten(s *sinfo, prefix []int, depth int, out *[]det) {
	for i, f := range s.fields {
		p := append(append([]int{}, prefix...), i)
		k := f.name
		if f.tag != "" {
			k = f.tag
		}
		*out = append(*out, det{key: k, name: f.name, path: p, ty: f.ty, rt: f.rt, emb: f.emb, depth: depth + 1})
		if f.emb && strings.HasPrefix(f.ty, "V:") {
			u.flatten(u.structs[f.ty[2:]], p, depth+1, out)
		}
	}
}

// newUniverse: regs maps registered name -> pointer-to-struct sample
func newUniverse(regs map[string]interface{}) *universe {
	u := &universe{structs: map[string]*sinfo{}, ifaces: map[string]reflect.Type{}, impls: map[string][]string{}, byReg: map[string]*sinfo{}}
	names := make([]string, 0, len(regs))
	for n := range regs {
		names = append(names, n)
	}
	sort.Strings(names)
	for _, n := range names {
		t := reflect.TypeOf(regs[n]).Elem()
		s := u.addStruct(t)
		if s.reg == "" {
			s.reg = n
		}
		u.byReg[n] = s
	}
	for _, gn := range u.order {
		s := u.structs[gn]
		u.flatten(s, nil, 0, &s.dets)
	}
	inames := make([]string, 0)
	for n := range u.ifaces {
		inames = append(inames, n)
	}
	sort.Strings(inames)
	for _, in := range inames {
		for _, gn := range u.order {
			s := u.structs[gn]
			if s.reg != "" && reflect.PtrTo(s.typ).Implements(u.ifaces[in]) {
				u.impls[in] = append(u.impls[in], gn)
			}
		}
	}
	return u
}

// line: "types <nstructs> {struct goName reg|- nfields {name tag|- emb ty}} <nifaces> {iface name k impls..}"
func (u *universe) line() string {
	var b strings.Builder
	b.WriteString("types ")
	b.WriteString(itoa(len(u.order)))
	for _, gn := range u.order {
		s := u.structs[gn]
		reg := s.reg
		if reg == "" {
			reg = "-"
		}
		b.WriteString(" struct " + s.goName + " " + reg + " " + itoa(len(s.fields)))
		for _, f := range s.fields {
			tag := f.tag
			if tag == "" {
				tag = "-"
			}
			e := "0"
			if f.emb {
				e = "1"
			}
			b.WriteString(" " + f.name + " " + tag + " " + e + " " + f.ty)
		}
	}
	inames := make([]string, 0)
	for n := range u.ifaces {
		inames = append(inames, n)
	}
	sort.Strings(inames)
	b.WriteString(" " + itoa(len(inames)))
	for _, in := range inames {
		b.WriteString(" iface " + in + " " + itoa(len(u.impls[in])))
		for _, x := range u.impls[in] {
			b.WriteString(" " + x)
		}
	}
	return b.String()
}
