// Struct types the C10 harness registers through the public registry API
// (zygo.GoStructRegistry.RegisterUserdef), covering every field kind of the model's
// universe and the nestings named in the property (embedded struct inside pointer
// inside slice of interface ...).  Each type implements Shape so that it can sit in
// interface-typed fields; Echoer carries the identity methods.
package main

import (
	"time"

	"github.com/glycerine/zygomys/v9/zygo"
)

// Shape is the interface type of the universe (TIface "main.Shape").
type Shape interface{ ShapeName() string }

// Leaf: every scalar kind, tag resolution and capitalised-name resolution.
type Leaf struct {
	N        int64     `json:"n"`
	F        float64   `json:"f"`
	S        string    `json:"s"`
	B        bool      `json:"b"`
	Raw      []byte    `json:"raw"`
	T        time.Time `json:"t"`
	Untagged int64
}

// Flat: only kinds that fillHashHelper knows (scalars, bytes, struct pointers, interface).
type Flat struct {
	A    int64   `json:"a"`
	X    float64 `json:"x"`
	Msg  string  `json:"msg"`
	Ok   bool    `json:"ok"`
	Blob []byte  `json:"blob"`
	Bare string
	L1   *Leaf `json:"l1"`
	L2   *Leaf `json:"l2"`
	Next *Flat `json:"next"`
	Sh   Shape `json:"sh"`
}

// Deep / Base: two levels of embedding.
type Deep struct {
	DeepName string `json:"deepname"`
	Depth    int64
}

type Base struct {
	Deep
	BaseID int64 `json:"baseid"`
	Note   string
}

// Clash: json tag "y" on X while an untagged field Y exists: key y must go to X, key Y to Y.
type Clash struct {
	X int64 `json:"y"`
	Y int64
	Z int64 `json:"z"`
}

// Mid: embedding + pointers + interface + slices + maps.
type Mid struct {
	Base
	Name   string    `json:"name"`
	Ptr    *Leaf     `json:"ptr"`
	Other  *Leaf     `json:"other"`
	Any    Shape     `json:"any"`
	Ints   []int64   `json:"ints"`
	Strs   []string  `json:"strs"`
	Floats []float64 `json:"floats"`
	Leaves []*Leaf   `json:"leaves"`
	Shapes []Shape   `json:"shapes"`
	Val    Clash     `json:"val"`
	Tags   map[string]string
	Nums   map[string]float64 `json:"nums"`
	ByName map[string]Shape   `json:"byname"`
}

// Top: embedded struct inside pointer inside slice of interface: Shapes holds *Mid (embeds Base embeds Deep).
type Top struct {
	Title  string  `json:"title"`
	Left   *Mid    `json:"left"`
	Right  *Mid    `json:"right"`
	Kids   []*Top  `json:"kids"`
	Shapes []Shape `json:"shapes"`
	First  Shape   `json:"first"`
	When   time.Time
}

// Deep4: THREE levels of embedding (In2 > In3 > In4), the innermost struct has four fields: the embed paths of
// p4/q4/R4/s4 have length 4.  Chain: seven levels, two or three fields at every level (embed paths up to length 7).
type In4 struct {
	P4 int64  `json:"p4"`
	Q4 string `json:"q4"`
	R4 float64
	S4 bool `json:"s4"`
}
type In3 struct {
	In4
	C3 int64 `json:"c3"`
	D3 string
}
type In2 struct {
	In3
	C2 string `json:"c2"`
}
type Deep4 struct {
	In2
	C1    int64 `json:"c1"`
	Leafp *Leaf `json:"leafp"`
}
type Ch7 struct {
	A7 int64  `json:"a7"`
	B7 string `json:"b7"`
	C7 int64
}
type Ch6 struct {
	Ch7
	A6 int64  `json:"a6"`
	B6 string `json:"b6"`
}
type Ch5 struct {
	Ch6
	A5 int64  `json:"a5"`
	B5 string `json:"b5"`
}
type Ch4 struct {
	Ch5
	A4 int64  `json:"a4"`
	B4 string `json:"b4"`
}
type Ch3 struct {
	Ch4
	A3 int64  `json:"a3"`
	B3 string `json:"b3"`
}
type Ch2 struct {
	Ch3
	A2 int64  `json:"a2"`
	B2 string `json:"b2"`
}
type Chain struct {
	Ch2
	A1 int64  `json:"a1"`
	B1 string `json:"b1"`
}

func (*Deep4) ShapeName() string { return "deep4" }
func (*Chain) ShapeName() string { return "chain" }
func (*Leaf) ShapeName() string  { return "leaf" }
func (*Flat) ShapeName() string  { return "flat" }
func (*Mid) ShapeName() string   { return "mid" }
func (*Top) ShapeName() string   { return "top" }
func (*Clash) ShapeName() string { return "clash" }

// Echoer: identity methods; (_method e EchoLeaf: r) converts r to *Leaf, calls, converts back.
type Echoer struct {
	Count int64 `json:"count"`
}

func (e *Echoer) EchoLeaf(x *Leaf) *Leaf    { return x }
func (e *Echoer) EchoFlat(x *Flat) *Flat    { return x }
func (e *Echoer) EchoMid(x *Mid) *Mid       { return x }
func (e *Echoer) EchoTop(x *Top) *Top       { return x }
func (e *Echoer) EchoClash(x *Clash) *Clash { return x }
func (e *Echoer) EchoBase(x *Base) *Base    { return x }

func (e *Echoer) EchoDeep4(x *Deep4) *Deep4 { return x }
func (e *Echoer) EchoChain(x *Chain) *Chain { return x }

// See*: what a Go method sees of its argument (canonical rendering), for the history stream.
func (e *Echoer) SeeLeaf(x *Leaf) string   { return renderGo(x) }
func (e *Echoer) SeeFlat(x *Flat) string   { return renderGo(x) }
func (e *Echoer) SeeMid(x *Mid) string     { return renderGo(x) }
func (e *Echoer) SeeTop(x *Top) string     { return renderGo(x) }
func (e *Echoer) SeeClash(x *Clash) string { return renderGo(x) }
func (e *Echoer) SeeBase(x *Base) string   { return renderGo(x) }
func (e *Echoer) SeeDeep4(x *Deep4) string { return renderGo(x) }
func (e *Echoer) SeeChain(x *Chain) string { return renderGo(x) }

// Self: a method called ON a record (the record is the receiver and is converted implicitly).
func (x *Leaf) Self() string  { return renderGo(x) }
func (x *Flat) Self() string  { return renderGo(x) }
func (x *Mid) Self() string   { return renderGo(x) }
func (x *Top) Self() string   { return renderGo(x) }
func (x *Clash) Self() string { return renderGo(x) }
func (x *Base) Self() string  { return renderGo(x) }
func (x *Deep4) Self() string { return renderGo(x) }
func (x *Chain) Self() string { return renderGo(x) }

// Car / Engine: methods that hand back a pointer the receiver's Go object owns (the receiver itself, a nested struct).
type Engine struct {
	Model string `json:"model"`
	Power int64  `json:"power"`
}
type Car struct {
	Name   string  `json:"name"`
	Engine *Engine `json:"engine"`
	Spare  *Engine `json:"spare"`
	Miles  int64
}

func (c *Car) Me() *Car                      { return c }
func (c *Car) GetEngine() *Engine            { return c.Engine }
func (c *Car) GetSpare() *Engine             { return c.Spare }
func (c *Car) Self() string                  { return renderGo(c) }
func (e *Engine) Me() *Engine                { return e }
func (e *Engine) Self() string               { return renderGo(e) }
func (x *Leaf) Me() *Leaf                    { return x }
func (x *Clash) Me() *Clash                  { return x }
func (e *Echoer) SeeCar(x *Car) string       { return renderGo(x) }
func (e *Echoer) SeeEngine(x *Engine) string { return renderGo(x) }

// Priv: state kept in UNEXPORTED fields of every kind (SexpToGoStructs reaches them through unexportHelper).
type Priv struct {
	Owner   string `json:"owner"`
	balance int64
	note    string
	ratio   float64
	on      bool
	raw     []byte
	tags    []string
	nums    []int64
	limits  *Leaf
	shape   Shape
	kids    []*Leaf
	names   map[string]string
	Last    int64 `json:"last"`
}

func (x *Priv) Self() string             { return renderGo(x) }
func (e *Echoer) SeePriv(x *Priv) string { return renderGo(x) }

// Doc: a field of the struct itself has the same json name as a field promoted from an embedded struct declared
// before it (Go selectors and encoding/json pick the outer field); Rev/author have no clash.
type DocBase struct {
	Name   string `json:"name"`
	Author string `json:"author"`
	Size   int64
}
type Doc struct {
	DocBase
	Name string `json:"name"`
	Size int64
	Rev  int64 `json:"rev"`
}

func (x *Doc) Self() string            { return renderGo(x) }
func (e *Echoer) SeeDoc(x *Doc) string { return renderGo(x) }

type regEntry struct {
	name string
	mk   func() interface{}
}

var regTable = []regEntry{
	{"leaf", func() interface{} { return &Leaf{} }},
	{"flat", func() interface{} { return &Flat{} }},
	{"deep", func() interface{} { return &Deep{} }},
	{"base", func() interface{} { return &Base{} }},
	{"clash", func() interface{} { return &Clash{} }},
	{"mid", func() interface{} { return &Mid{} }},
	{"top", func() interface{} { return &Top{} }},
	{"echoer", func() interface{} { return &Echoer{} }},
	{"deep4", func() interface{} { return &Deep4{} }},
	{"chain", func() interface{} { return &Chain{} }},
	{"engine", func() interface{} { return &Engine{} }},
	{"car", func() interface{} { return &Car{} }},
	{"priv", func() interface{} { return &Priv{} }},
	{"docbase", func() interface{} { return &DocBase{} }},
	{"doc", func() interface{} { return &Doc{} }},
}

func registerTypes() {
	for _, e := range regTable {
		mk := e.mk
		zygo.GoStructRegistry.RegisterUserdef(&zygo.RegisteredType{GenDefMap: true,
			Factory: func(env *zygo.Zlisp, h *zygo.SexpHash) (interface{}, error) { return mk(), nil }}, true, e.name)
	}
}
