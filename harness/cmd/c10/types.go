// Struct types the C10 harness registers through the public registry API
// (zygo.GoStructRegistry.RegisterUserdef), covering every field kind of the model's
// universe and the nestings named in the property (embedded struct inside pointer
// inside slice of interface ...).  Each type implements Shape so that it can sit in
// interface-typed fields; Echoer carries the identity methods.
package main

import (
	"time"

	"github.com/glycerine/zygomys/v9/zygo"
)

// Shape is the interface type of the universe (TIface "main.Shape").
type Shape interface{ ShapeName() string }

// Leaf: every scalar kind, tag resolution and capitalised-name resolution.
type Leaf struct {
	N        int64     `json:"n"`
	F        float64   `json:"f"`
	S        string    `json:"s"`
	B        bool      `json:"b"`
	Raw      []byte    `json:"raw"`
	T        time.Time `json:"t"`
	Untagged int64
}

// Flat: only kinds that fillHashHelper knows (scalars, bytes, struct pointers, interface).
type Flat struct {
	A    int64   `json:"a"`
	X    float64 `json:"x"`
	Msg  string  `json:"msg"`
	Ok   bool    `json:"ok"`
	Blob []byte  `json:"blob"`
	Bare string
	L1   *Leaf `json:"l1"`
	L2   *Leaf `json:"l2"`
	Next *Flat `json:"next"`
	Sh   Shape `json:"sh"`
}

// Deep / Base: two levels of embedding.
type Deep struct {
	DeepName string `json:"deepname"`
	Depth    int64
}

type Base struct {
	Deep
	BaseID int64 `json:"baseid"`
	Note   string
}

// Clash: json tag "y" on X while an untagged field Y exists: key y must go to X, key Y to Y.
type Clash struct {
	X int64 `json:"y"`
	Y int64
	Z int64 `json:"z"`
}

// Mid: embedding + pointers + interface + slices + maps.
type Mid struct {
	Base
	Name   string    `json:"name"`
	Ptr    *Leaf     `json:"ptr"`
	Other  *Leaf     `json:"other"`
	Any    Shape     `json:"any"`
	Ints   []int64   `json:"ints"`
	Strs   []string  `json:"strs"`
	Floats []float64 `json:"floats"`
	Leaves []*Leaf   `json:"leaves"`
	Shapes []Shape   `json:"shapes"`
	Val    Clash     `json:"val"`
	Tags   map[string]string
	Nums   map[string]float64 `json:"nums"`
	ByName map[string]Shape   `json:"byname"`
}

// Top: embedded struct inside pointer inside slice of interface: Shapes holds *Mid (embeds Base embeds Deep).
type Top struct {
	Title  string  `json:"title"`
	Left   *Mid    `json:"left"`
	Right  *Mid    `json:"right"`
	Kids   []*Top  `json:"kids"`
	Shapes []Shape `json:"shapes"`
	First  Shape   `json:"first"`
	When   time.Time
}

func (*Leaf) ShapeName() string  { return "leaf" }
func (*Flat) ShapeName() string  { return "flat" }
func (*Mid) ShapeName() string   { return "mid" }
func (*Top) ShapeName() string   { return "top" }
func (*Clash) ShapeName() string { return "clash" }

// Echoer: identity methods; (_method e EchoLeaf: r) converts r to *Leaf, calls, converts back.
type Echoer struct {
	Count int64 `json:"count"`
}

func (e *Echoer) EchoLeaf(x *Leaf) *Leaf    { return x }
func (e *Echoer) EchoFlat(x *Flat) *Flat    { return x }
func (e *Echoer) EchoMid(x *Mid) *Mid       { return x }
func (e *Echoer) EchoTop(x *Top) *Top       { return x }
func (e *Echoer) EchoClash(x *Clash) *Clash { return x }
func (e *Echoer) EchoBase(x *Base) *Base    { return x }

type regEntry struct {
	name string
	mk   func() interface{}
}

var regTable = []regEntry{
	{"leaf", func() interface{} { return &Leaf{} }},
	{"flat", func() interface{} { return &Flat{} }},
	{"deep", func() interface{} { return &Deep{} }},
	{"base", func() interface{} { return &Base{} }},
	{"clash", func() interface{} { return &Clash{} }},
	{"mid", func() interface{} { return &Mid{} }},
	{"top", func() interface{} { return &Top{} }},
	{"echoer", func() interface{} { return &Echoer{} }},
}

func registerTypes() {
	for _, e := range regTable {
		mk := e.mk
		zygo.GoStructRegistry.RegisterUserdef(&zygo.RegisteredType{GenDefMap: true,
			Factory: func(env *zygo.Zlisp, h *zygo.SexpHash) (interface{}, error) { return mk(), nil }}, true, e.name)
	}
}
