package main

import (
	"bytes"
	"encoding/json"
	"fmt"
	"io"
	"math"
	"math/big"
	"strconv"
	"strings"

	"verif/harness/lib"
)

type gen struct{ rng *lib.Rng }

var advRunes = []string{
	`"`, `\`, `/`, "\b", "\f", "\n", "\r", "\t", "\x00", "\x01", "\x07", "\x0b", "\x0e", "\x1b", "\x1f", " ", "\x7f",
	"\u0080", "\u009f", "\u00a0", "é", "\u07ff", "\u0800", "\u2027", "\u2028", "\u2029", "\u202a", "\ud7ff", "\ue000",
	"\ufeff", "\ufffd", "\ufffe", "\uffff", "\U00010000", "\U0001F600", "\U000E0001", "\U0010FFFF",
	"<", ">", "&", "'", "a", "Z", "0", "u", "\\u0041", "\\n", `\"`, "</script>", "{", "}", "[", "]", ":", ",", "null", "zKeyOrder", "Atype",
	// bytes that are not UTF-8: lone continuation, overlong, surrogates written as text, truncated, out of range
	"\x80", "\xff", "\xc0\x80", "\xc3", "\xe2\x80", "\xed\xa0\x80", "\xed\xbf\xbf", "\xf0\x9f\x98", "\xf4\x90\x80\x80", "\xf8",
}

func (g *gen) str() string {
	r := g.rng
	n := r.Intn(7)
	if r.Intn(10) == 0 {
		n = 8 + r.Intn(40)
	}
	if r.Intn(200) == 0 {
		n = 200 + r.Intn(120) // around the str8 | str16 boundary (in bytes) of msgpack
	}
	var sb strings.Builder
	for i := 0; i < n; i++ {
		switch r.Intn(10) {
		case 0, 1, 2, 3:
			sb.WriteString(advRunes[r.Intn(len(advRunes))])
		case 4, 5:
			sb.WriteByte(byte(0x20 + r.Intn(0x5f)))
		case 6:
			sb.WriteRune(rune(r.Intn(0x800)))
		case 7:
			c := rune(r.Intn(0x10000))
			if c >= 0xd800 && c < 0xe000 {
				c = 0xfffd
			}
			sb.WriteRune(c)
		case 8:
			sb.WriteRune(rune(0x10000 + r.Intn(0x100000)))
		case 9:
			sb.WriteByte(byte(r.Intn(256)))
		}
	}
	return sb.String()
}

// validStrGen gives a string that is valid UTF-8 (for symbol keys and type names).
func (g *gen) validStrGen() string {
	for {
		s := g.str()
		if validStr(s) {
			return s
		}
	}
}

var intGrid = []int64{0, 1, -1, 2, -2, 7, 10, 97, 1 << 31, -(1 << 31), (1 << 53) - 1, 1 << 53, (1 << 53) + 1, -(1 << 53) - 1, -(1 << 53), -(1 << 53) + 1,
	1 << 62, math.MaxInt64 - 1, math.MaxInt64, math.MinInt64, math.MinInt64 + 1, 1000000000000000000, -999999999999999999,
	// the boundaries between the integer formats of msgpack (fixint, int8/16/32/64, uint8/16/32)
	-33, -32, -31, 126, 127, 128, 129, -127, -128, -129, 254, 255, 256, 32767, 32768, -32768, -32769, 65535, 65536,
	(1 << 31) - 1, -(1 << 31) - 1, (1 << 32) - 1, 1 << 32, (1 << 32) + 1, -(1 << 32)}

var floatGrid = []float64{0, math.Copysign(0, -1), 1, -1, 3, 0.5, 1.5, -2.25, 0.1, 1e-7, 123456.789, 1e15, 1e20, 1e21, 1e22, -1e21, 1e300, 5e-324, -5e-324,
	2.2250738585072014e-308, math.MaxFloat64, -math.MaxFloat64, 1 << 53, (1 << 53) + 2, -(1 << 53), 4611686018427387904, 9223372036854775807, 9223372036854775808,
	-9223372036854775808, 1e19, -1e19, 18446744073709551615, 18446744073709551616, 36893488147419103232, 123456789012345678, 0.30000000000000004, 1e-320,
	math.Inf(1), math.Inf(-1), math.NaN()}

func (g *gen) scalarGrid() []*gv {
	out := []*gv{{kind: 'N'}, {kind: 'B', b: true}, {kind: 'B', b: false}}
	for _, i := range intGrid {
		out = append(out, &gv{kind: 'I', i: i})
	}
	for _, f := range floatGrid {
		out = append(out, &gv{kind: 'D', f: f}, &gv{kind: 'D', f: f, sci: true})
	}
	out = append(out, &gv{kind: 'S', s: ""})
	for _, s := range advRunes {
		out = append(out, &gv{kind: 'S', s: s}, &gv{kind: 'S', s: "a" + s + "b"})
	}
	for c := 0; c < 0x20; c++ {
		out = append(out, &gv{kind: 'S', s: string(rune(c))})
	}
	// the same contents as raw (backtick) literals, where the reader can deliver them
	for _, s := range advRunes {
		if validStr(s) {
			out = append(out, &gv{kind: 'S', raw: true, s: s}, &gv{kind: 'S', raw: true, s: "a" + s + "b"})
		}
	}
	for _, s := range []string{`C:\new`, `^\d+$`, "two\nlines", "tab\there", `\u0041`, `say "hi"`, `back\\slash\`, "\x01\x1f", "é\\😀"} {
		out = append(out, &gv{kind: 'S', raw: true, s: s})
	}
	for c := 1; c < 0x20; c++ {
		out = append(out, &gv{kind: 'S', raw: true, s: string(rune(c))})
	}
	return out
}

// sized gives values whose sizes sit on the boundaries of the length-prefixed formats of msgpack
// (fixstr 31|32, str8 255|256, str16 65535|65536; fixarray 15|16, array16 65535|65536; fixmap 15|16
// entries = 13|14 fields + Atype + zKeyOrder) and around them: strings by BYTE length (with
// multi-byte code points so that the byte length is not the rune count), as values, keys and
// type names; arrays; hashes by field count.
func (g *gen) sized(tier string) []*gv {
	var out []*gv
	mk := func(n int, unit string) string {
		var sb strings.Builder
		for sb.Len()+len(unit) <= n {
			sb.WriteString(unit)
		}
		for sb.Len() < n {
			sb.WriteByte('x')
		}
		return sb.String()
	}
	one := &gv{kind: 'I', i: 1}
	lens := []int{30, 31, 32, 33, 254, 255, 256, 257, 65536}
	if tier == "thorough" {
		lens = append(lens, 65535, 65537, 70000)
	}
	for _, n := range lens {
		for _, unit := range []string{"a", "é", "日", "😀", "\"", "\n"} {
			if n > 1000 && unit != "é" && !(tier == "thorough" && unit == "a") {
				continue // quick tier: the str16 | str32 boundary once, with a two-byte code point
			}
			s := mk(n, unit)
			out = append(out, &gv{kind: 'S', s: s})
			if n < 1000 {
				out = append(out, &gv{kind: 'A', arr: []*gv{{kind: 'S', s: s}, one}},
					&gv{kind: 'H', tn: "hash", keys: []gkey{{false, s}, {false, "b"}}, vals: []*gv{one, {kind: 'S', s: s}}},
					&gv{kind: 'H', tn: "hash", keys: []gkey{{true, s}}, vals: []*gv{one}},
					&gv{kind: 'H', tn: s, keys: []gkey{{false, "a"}}, vals: []*gv{one}})
			}
		}
	}
	arrLens := []int{14, 15, 16, 17, 31, 32, 100} // arrays and maps have no 8-bit length format
	if tier == "thorough" {
		arrLens = append(arrLens, 65535, 65536, 65537)
	}
	for _, n := range arrLens {
		a := &gv{kind: 'A'}
		for i := 0; i < n; i++ {
			if n < 1000 {
				a.arr = append(a.arr, &gv{kind: 'I', i: int64(i)})
			} else {
				a.arr = append(a.arr, &gv{kind: 'N'})
			}
		}
		out = append(out, a)
		if n < 1000 {
			out = append(out, &gv{kind: 'H', tn: "hash", keys: []gkey{{false, "a"}}, vals: []*gv{a}})
		}
	}
	hashLens := []int{12, 13, 14, 15, 16, 17, 18, 33, 100}
	if tier == "thorough" {
		hashLens = append(hashLens, 254, 255, 256, 300, 1000)
	}
	for _, n := range hashLens {
		for _, tn := range []string{"hash", "ranch"} {
			h := &gv{kind: 'H', tn: tn}
			for i := 0; i < n; i++ {
				// names in an order that is not the sorted one
				h.keys = append(h.keys, gkey{false, fmt.Sprintf("f%d", (i*7+3)%n)})
				h.vals = append(h.vals, &gv{kind: 'I', i: int64(i)})
			}
			seen := map[string]bool{}
			ok := true
			for _, k := range h.keys {
				if seen[k.text] {
					ok = false
				}
				seen[k.text] = true
			}
			if !ok { // 7 divides n: fall back to the plain order reversed
				for i := range h.keys {
					h.keys[i].text = fmt.Sprintf("f%d", n-1-i)
				}
			}
			out = append(out, h, &gv{kind: 'A', arr: []*gv{h, h}})
		}
	}
	return out
}

func (g *gen) int() *gv {
	r := g.rng
	switch r.Intn(4) {
	case 0:
		return &gv{kind: 'I', i: intGrid[r.Intn(len(intGrid))]}
	case 1:
		return &gv{kind: 'I', i: int64(r.Intn(2000)) - 1000}
	case 2:
		return &gv{kind: 'I', i: int64(r.U64()) >> uint(r.Intn(64))}
	}
	return &gv{kind: 'I', i: int64(1)<<uint(r.Intn(63)) + int64(r.Intn(3)) - 1}
}

func (g *gen) float() *gv {
	r := g.rng
	sci := r.Intn(4) == 0
	switch r.Intn(5) {
	case 0:
		return &gv{kind: 'D', f: floatGrid[r.Intn(len(floatGrid))], sci: sci}
	case 1:
		return &gv{kind: 'D', f: float64(r.Intn(4000)-2000) / 8, sci: sci}
	case 2:
		return &gv{kind: 'D', f: math.Float64frombits(r.U64()), sci: sci}
	case 3: // integral floats around the int64/uint64 boundaries
		e := 50 + r.Intn(20)
		return &gv{kind: 'D', f: math.Ldexp(float64(1+r.Intn(7)), e) * float64(1-2*r.Intn(2)), sci: sci}
	}
	return &gv{kind: 'D', f: float64(int64(r.U64()) >> uint(r.Intn(64))), sci: sci}
}

var symPool = []string{"a", "b", "c", "id", "name", "x", "y", "zz", "long_name", "k1", "Ünï", "q?", "z", "A", "B", "atype", "Atyp", "AtypeX", "zKeyOrde", "zKeyOrder2", "zkeyorder", "zzKeyOrder", "é", "日本"}

func (g *gen) symKey() string {
	r := g.rng
	switch r.Intn(40) {
	case 0:
		return "zKeyOrder"
	case 1:
		return "Atype"
	case 2, 3:
		return g.validStrGen()
	}
	return symPool[r.Intn(len(symPool))]
}

var tnPool = []string{"hash", "hash", "hash", "ranch", "zork", "é", "T1", "a b", "<t>", "Hash", "field"}
var tnBad = []string{"a\"b", "a\x01b", "a\\", "\n", "q\\\"", "\x1f"}

func (g *gen) scalar() *gv {
	r := g.rng
	switch r.Intn(10) {
	case 0:
		return &gv{kind: 'N'}
	case 1:
		return &gv{kind: 'B', b: r.Bool()}
	case 2, 3:
		return g.int()
	case 4, 5:
		return g.float()
	}
	s := g.str()
	return &gv{kind: 'S', s: s, raw: r.Intn(4) == 0 && validStr(s)}
}

// typed gives a value for a declared field type.
func (g *gen) typed(ty string, depth int) *gv {
	r := g.rng
	if r.Intn(12) == 0 {
		return &gv{kind: 'N'}
	}
	switch ty[0] {
	case 'i':
		return g.int()
	case 'f':
		f := g.float()
		for !finite(f.f) && r.Intn(4) != 0 {
			f = g.float()
		}
		return f
	case 's':
		s := g.str()
		return &gv{kind: 'S', s: s, raw: r.Intn(4) == 0 && validStr(s)}
	case 'b':
		return &gv{kind: 'B', b: r.Bool()}
	}
	return g.record(ty[1:], depth-1)
}

func (g *gen) record(tn string, depth int) *gv {
	r := g.rng
	d := declOf(tn)
	v := &gv{kind: 'H', tn: tn}
	perm := make([]int, len(d.fields))
	for i := range perm {
		perm[i] = i
	}
	for i := len(perm) - 1; i > 0; i-- {
		j := r.Intn(i + 1)
		perm[i], perm[j] = perm[j], perm[i]
	}
	for _, i := range perm {
		f := d.fields[i]
		if r.Intn(4) == 0 || (f.ty[0] == 'r' && depth <= 1) {
			continue
		}
		v.keys = append(v.keys, gkey{false, f.name})
		v.vals = append(v.vals, g.typed(f.ty, depth))
	}
	return v
}

// value generates nested data of at most the given depth.
func (g *gen) value(depth int, _ string) *gv {
	r := g.rng
	if depth <= 1 {
		switch r.Intn(8) {
		case 0:
			return &gv{kind: 'A'}
		case 1:
			return &gv{kind: 'H', tn: tnPool[r.Intn(len(tnPool))]}
		}
		return g.scalar()
	}
	switch r.Intn(10) {
	case 0, 1:
		return g.scalar()
	case 2, 3, 4:
		n := r.Intn(4)
		if r.Intn(40) == 0 {
			n = 13 + r.Intn(6) // around the fixarray | array16 boundary
		}
		v := &gv{kind: 'A'}
		for i := 0; i < n; i++ {
			v.arr = append(v.arr, g.value(depth-1, ""))
		}
		return v
	case 5:
		if r.Bool() {
			return g.record("Rec", depth)
		}
		return g.record("Pt", depth)
	}
	v := &gv{kind: 'H', tn: tnPool[r.Intn(len(tnPool))]}
	if r.Intn(60) == 0 {
		v.tn = tnBad[r.Intn(len(tnBad))]
	} else if r.Intn(30) == 0 {
		v.tn = g.validStrGen()
	}
	strKeys := v.tn == "hash" && r.Intn(5) == 0
	n := r.Intn(5)
	if r.Intn(8) == 0 {
		n = 5 + r.Intn(4)
	}
	wide := r.Intn(50) == 0
	if wide {
		n = 11 + r.Intn(8) // around the fixmap | map16 boundary (fields + Atype + zKeyOrder)
	}
	used := map[string]bool{}
	for i := 0; i < n; i++ {
		var k gkey
		if strKeys {
			k = gkey{true, g.str()}
		} else {
			k = gkey{false, g.symKey()}
			if wide && r.Intn(3) != 0 {
				k.text = fmt.Sprintf("w%d", r.Intn(40))
			}
		}
		if used[k.text] {
			continue
		}
		used[k.text] = true
		v.keys = append(v.keys, k)
		v.vals = append(v.vals, g.value(depth-1, ""))
	}
	return v
}

func (g *gen) shapes() []*gv {
	one := &gv{kind: 'I', i: 1}
	two := &gv{kind: 'S', s: "two"}
	h := func(tn string, kv ...interface{}) *gv {
		v := &gv{kind: 'H', tn: tn}
		for i := 0; i+1 < len(kv); i += 2 {
			switch k := kv[i].(type) {
			case string:
				v.keys = append(v.keys, gkey{false, k})
			case gkey:
				v.keys = append(v.keys, k)
			}
			v.vals = append(v.vals, kv[i+1].(*gv))
		}
		return v
	}
	out := []*gv{
		{kind: 'A'}, h("hash"), h("ranch"), h("Pt"), h("Rec"), h("zork"),
		{kind: 'A', arr: []*gv{{kind: 'A'}, h("hash"), {kind: 'A', arr: []*gv{{kind: 'A'}}}}},
		h("hash", "b", one, "a", two), h("hash", "a", one, "b", two), h("hash", "z", one, "y", two, "x", one, "B", two, "A", one),
		h("hash", "zKeyOrder", one), h("hash", "zKeyOrder", one, "a", two), h("hash", "a", two, "zKeyOrder", one), h("hash", "Atype", two, "a", one),
		h("hash", "Atype", one), h("ranch", "Atype", two), h("hash", "zKeyOrder", &gv{kind: 'A', arr: []*gv{{kind: 'S', s: "a"}}}, "a", one),
		h("hash", "zKeyOrder2", one, "Atyp", two, "atype", one, "zzKeyOrder", two, "AtypeX", one),
		h("hash", gkey{true, "zKeyOrder"}, one), h("hash", gkey{true, "Atype"}, two),
		h("hash", gkey{true, "a"}, one, "a", two), h("hash", gkey{true, ""}, one), h("hash", "", one),
		h("hash", gkey{true, "b"}, one, gkey{true, "a"}, two),
		h("Rec", "p", h("Pt", "x", &gv{kind: 'D', f: 1.5}, "name", two), "id", one),
		h("Rec", "w", &gv{kind: 'D', f: 2.5}, "ok", &gv{kind: 'B', b: true}, "s", two, "id", one, "p", h("Pt")),
		h("Pt", "x", &gv{kind: 'D', f: 3}, "name", two), h("Pt", "name", two, "x", &gv{kind: 'D', f: 3}), h("Pt", "x", &gv{kind: 'D', f: 3, sci: true}),
		h("ranch", "x", &gv{kind: 'D', f: 3}), h("hash", "outer", h("ranch", "inner", h("zork", "in2", h("hash", "leaf", one)))),
	}
	for _, tn := range append(append([]string{}, tnPool...), tnBad...) {
		out = append(out, h(tn, "x", one), h(tn), &gv{kind: 'A', arr: []*gv{h(tn, "k", h(tn, "x", one))}})
	}
	return out
}

var sourceTexts = []string{
	`{"a":1}`, `{"a":1 "b c":[1 2 {"z":null}]}`, `{"k":"v" "n":null "t":true "f":false "x":1.5}`, `{"":0}`,
	`{"a":{"b":{"c":{"d":[]}}}}`, `{"zKeyOrder":1}`, `{"Atype":"x" "b":2}`, `{"q":"a\"b\\c\nd"}`,
	`(hash a:1 b:"x" c:[1 2.5 "s"])`, `{a:1 b:{c:2}}`, `(hash)`, `[]`, `[1 2 [3 [4 [5]]]]`, `(ranch cowboy:"Jim" cows:["Zelda" "Bart"])`,
	`(Rec id:1 s:"x" p:(Pt x:1.5 y:2.5 name:"n") ok:true w:0.5)`, `(Pt x:3.0)`, `(Pt y:1e3 x:0.5)`, `(Rec p:(Pt))`,
	`{a:1e19}`, `{a:10000000000000000000.0}`, `{a:-0.0}`, `[9223372036854775807 -9223372036854775808]`, `[1.0 2.50 1e21 1e-7]`,
	"`C:\\new`", "{a:`^\\d+$` b:[`x\\ty` \"q\"]}", "(Pt name:`raw \\ \"quoted\"\nsecond line`)", "{`raw key`:1 `k\\2`:`v\\n`}", "(hash a:`\x01`)",
	`"plain"`, `12`, `1.25`, `true`, `nil`, `{a:nil b:true}`,
}

var litWords = []string{"a", "b", "key", "long key", "x1", "Z", "zKeyOrder2", "né", "q-r"}

// literal gives a random JSON-style source literal (ASCII strings without escapes; the reader's
// own escape handling is C12's subject).
func (g *gen) literal(depth int) string {
	r := g.rng
	if depth <= 0 || r.Intn(3) == 0 {
		switch r.Intn(6) {
		case 0:
			return "null"
		case 1:
			return "true"
		case 2:
			return fmt.Sprintf("%d", r.Intn(2000)-1000)
		case 3:
			return fmt.Sprintf("%d.%d", r.Intn(100), 1+r.Intn(99))
		}
		return `"` + litWords[r.Intn(len(litWords))] + `"`
	}
	if r.Intn(3) == 0 {
		n := r.Intn(4)
		parts := []string{}
		for i := 0; i < n; i++ {
			parts = append(parts, g.literal(depth-1))
		}
		return "[" + strings.Join(parts, " ") + "]"
	}
	n := 1 + r.Intn(3)
	parts := []string{}
	used := map[string]bool{}
	for i := 0; i < n; i++ {
		k := litWords[r.Intn(len(litWords))]
		if used[k] {
			continue
		}
		used[k] = true
		parts = append(parts, `"`+k+`":`+g.literal(depth-1))
	}
	return "{" + strings.Join(parts, " ") + "}"
}

// quoteStream: the string quoting alone. Code points in blocks (every block below U+3000 and
// around the specials; the rest of the range sampled in the quick tier, complete in the
// thorough tier), every single byte, and two-byte combinations around the UTF-8 lead bytes.
func quoteStream(r *runner, tier string) int {
	n := 0
	block := func(lo, hi int) {
		var sb strings.Builder
		for c := lo; c < hi; c++ {
			if c >= 0xd800 && c < 0xe000 {
				// a surrogate cannot be in a Go string as a rune; its three-byte form is not UTF-8
				sb.Write([]byte{0xe0 | byte(c>>12), 0x80 | byte(c>>6)&0x3f, 0x80 | byte(c)&0x3f})
			} else {
				sb.WriteRune(rune(c))
			}
		}
		r.quote(sb.String(), "quote:block")
		n++
	}
	for c := 0; c < 0x100; c++ {
		r.quote(string(rune(c)), "quote:cp")
		r.quote(string([]byte{byte(c)}), "quote:byte")
		n += 2
	}
	for lo := 0; lo < 0x3000; lo += 32 {
		block(lo, lo+32)
	}
	stride := 0x40 * 37
	if tier == "thorough" {
		stride = 0x40
	}
	for lo := 0x3000; lo < 0x110000; lo += stride {
		block(lo, lo+0x40)
	}
	for _, lo := range []int{0xd7c0, 0xd800, 0xdbc0, 0xdc00, 0xdfc0, 0xe000, 0xffc0, 0x10000, 0x10ffc0} {
		block(lo, lo+0x40)
	}
	for _, a := range []byte{0x7f, 0x80, 0xbf, 0xc0, 0xc1, 0xc2, 0xdf, 0xe0, 0xed, 0xef, 0xf0, 0xf4, 0xf5, 0xff} {
		for _, b := range []byte{0x00, 0x22, 0x5c, 0x7f, 0x80, 0x8f, 0x90, 0x9f, 0xa0, 0xbf, 0xc0, 0xff} {
			r.quote(string([]byte{a, b}), "quote:bytes2")
			r.quote(string([]byte{a, b, 0x80}), "quote:bytes3")
			r.quote(string([]byte{a, b, 0x80, 0x80, 'x'}), "quote:bytes5")
			n += 3
		}
	}
	return n
}

// stdTree reads the text with Go's encoding/json (token stream, numbers kept as text, member
// order kept) and renders the tree twice: with the number tokens as written (#hex) and with the
// numbers by value (I<integer> for a token of digits, D<bits of strconv.ParseFloat> otherwise);
// "ERR" when the text is not accepted.
func stdTree(b []byte) (raw, byValue string) {
	if !json.Valid(b) {
		return "ERR", "ERR"
	}
	dec := json.NewDecoder(bytes.NewReader(b))
	dec.UseNumber()
	s, sv, err := stdVal(dec)
	if err != nil {
		return "ERR", "ERR"
	}
	if _, err := dec.Token(); err != io.EOF {
		return "ERR", "ERR"
	}
	return s, sv
}

func numByValue(t string) string {
	d := t
	if strings.HasPrefix(d, "-") {
		d = d[1:]
	}
	allDigits := d != ""
	for _, c := range d {
		if c < '0' || c > '9' {
			allDigits = false
		}
	}
	if allDigits {
		n, ok := new(big.Int).SetString(t, 10)
		if ok {
			return "I" + n.String()
		}
	}
	f, err := strconv.ParseFloat(t, 64)
	if err != nil {
		return "?num"
	}
	return fmt.Sprintf("D%d", math.Float64bits(f))
}

func stdVal(dec *json.Decoder) (string, string, error) {
	t, err := dec.Token()
	if err != nil {
		return "", "", err
	}
	switch x := t.(type) {
	case nil:
		return "N", "N", nil
	case bool:
		if x {
			return "T", "T", nil
		}
		return "F", "F", nil
	case json.Number:
		return "#" + hexs([]byte(string(x))), numByValue(string(x)), nil
	case string:
		return "S" + cps(x), "S" + cps(x), nil
	case json.Delim:
		var parts, vparts []string
		n := 0
		if x == '[' {
			for dec.More() {
				s, sv, err := stdVal(dec)
				if err != nil {
					return "", "", err
				}
				parts = append(parts, s)
				vparts = append(vparts, sv)
				n++
			}
			if _, err := dec.Token(); err != nil {
				return "", "", err
			}
			return strings.TrimSpace(fmt.Sprintf("A%d %s", n, strings.Join(parts, " "))),
				strings.TrimSpace(fmt.Sprintf("A%d %s", n, strings.Join(vparts, " "))), nil
		}
		if x == '{' {
			for dec.More() {
				k, err := dec.Token()
				if err != nil {
					return "", "", err
				}
				ks, ok := k.(string)
				if !ok {
					return "", "", fmt.Errorf("key")
				}
				s, sv, err := stdVal(dec)
				if err != nil {
					return "", "", err
				}
				parts = append(parts, "S"+cps(ks), s)
				vparts = append(vparts, "S"+cps(ks), sv)
				n++
			}
			if _, err := dec.Token(); err != nil {
				return "", "", err
			}
			return strings.TrimSpace(fmt.Sprintf("O%d %s", n, strings.Join(parts, " "))),
				strings.TrimSpace(fmt.Sprintf("O%d %s", n, strings.Join(vparts, " "))), nil
		}
	}
	return "", "", fmt.Errorf("unexpected token %v", t)
}
