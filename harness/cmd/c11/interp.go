// Several interpreters in one process: decoding is a function of the text, not of which
// interpreter ran before.
//
// Two fresh interpreters are created; the field names of the values to come are interned in
// opposite orders (so the same name has different symbol numbers in the two), then every value
// is round-tripped in the first and then in the second interpreter. Case line "T <n> <value>"
// (n = 1 or 2: which interpreter observed it); model and specification are those of the value.
package main

import (
	"fmt"
	"os"
	"sort"

	"github.com/glycerine/zygomys/v9/zygo"
	"verif/harness/lib"
)

func keyNames(v *gv, acc map[string]bool) {
	for _, e := range v.arr {
		keyNames(e, acc)
	}
	for i, k := range v.keys {
		if !k.str {
			acc[k.text] = true
		}
		keyNames(v.vals[i], acc)
	}
}

func freshEnv(names []string, reversed bool) *zygo.Zlisp {
	env := zygo.NewZlisp()
	env.StandardSetup()
	if res := lib.Eval(env, declSrc, budget); res.Class != lib.OutValue {
		fmt.Fprintln(os.Stderr, "declaring the record types in a further interpreter failed:", res.Show())
		os.Exit(2)
	}
	if reversed {
		// shift the numbering so that EVERY new name gets a number it has in no interpreter
		// that interned the names in forward order
		for i := 0; i <= len(names); i++ {
			env.MakeSymbol(fmt.Sprintf("c11-pad-%d", i))
		}
		for i := len(names) - 1; i >= 0; i-- {
			env.MakeSymbol(names[i])
		}
	} else {
		for _, n := range names {
			env.MakeSymbol(n)
		}
	}
	return env
}

// twoInterpreters observes every value in a first and then in a second fresh interpreter;
// returns the first failure signature.
func (r *runner) twoInterpreters(vs []*gv, record bool, tags ...string) string {
	acc := map[string]bool{}
	for _, v := range vs {
		keyNames(v, acc)
	}
	names := make([]string, 0, len(acc))
	for n := range acc {
		names = append(names, n)
	}
	sort.Strings(names)
	main := r.env
	defer func() { r.env = main }()
	envs := []*zygo.Zlisp{freshEnv(names, false), freshEnv(names, true)}
	sig := ""
	for _, v := range vs {
		for which, env := range envs {
			r.env = env
			x, ok := r.build(v)
			if !ok {
				continue
			}
			actual, ok := fromSexp(x)
			if !ok {
				continue
			}
			ob := observe(env, x)
			s := failure(actual, ob)
			if s != "" && sig == "" && !knownShape(actual) {
				sig = s
			}
			if record {
				input := fmt.Sprintf("T %d %s", which+1, actual.String())
				if r.seen[input] {
					continue
				}
				r.seen[input] = true
				t := append([]string{fmt.Sprintf("interpreter:%d", which+1)}, tags...)
				if s != "" {
					t = append(t, "harness-sees:"+s)
				}
				r.out.Case(input, ob.String(), true, t...)
			}
		}
	}
	return sig
}

func (r *runner) interpreterCase(vs []*gv) {
	sig := r.twoInterpreters(vs, true)
	if sig == "" || r.fail["interpreters"] >= 3 {
		return
	}
	for _, v := range vs {
		r.env.Clear()
		if r.aloneFails(v) {
			return // not a matter of the interpreter
		}
	}
	r.fail["interpreters"]++
	fails := func(c []*gv) bool { return r.twoInterpreters(c, false) != "" }
	cur := vs
	for i := 0; i < len(cur) && len(cur) > 1; {
		c := append(append([]*gv{}, cur[:i]...), cur[i+1:]...)
		if fails(c) {
			cur = c
		} else {
			i++
		}
	}
	for round := 0; round < 60; round++ {
		improved := false
	outer:
		for i := range cur {
			for _, s := range candidates(cur[i]) {
				if s.size() >= cur[i].size() || knownShape(s) {
					continue
				}
				c := append([]*gv{}, cur...)
				c[i] = s
				if fails(c) {
					cur, improved = c, true
					break outer
				}
			}
		}
		if !improved {
			break
		}
	}
	r.twoInterpreters(cur, true, "shrunk")
}

func interpreterStream(r *runner, g *gen, rng *lib.Rng, n int) {
	one := &gv{kind: 'I', i: 1}
	two := &gv{kind: 'I', i: 2}
	ab := &gv{kind: 'H', tn: "hash", keys: []gkey{{false, "A"}, {false, "B"}}, vals: []*gv{one, two}}
	r.interpreterCase([]*gv{ab})
	r.interpreterCase([]*gv{{kind: 'H', tn: "Pt", keys: []gkey{{false, "y"}, {false, "x"}}, vals: []*gv{{kind: 'D', f: 1.5}, {kind: 'D', f: 2.5}}}})
	r.interpreterCase([]*gv{{kind: 'H', tn: "ranch", keys: []gkey{{false, "y"}, {false, "x"}}, vals: []*gv{{kind: 'D', f: 1.5}, ab}}})
	for k := 0; k < n; k++ {
		size := 2 + rng.Intn(3)
		vs := make([]*gv, 0, size)
		for i := 0; i < size; i++ {
			v := g.value(2+rng.Intn(3), "")
			if v.kind != 'H' && v.kind != 'A' {
				v = &gv{kind: 'H', tn: "hash", keys: []gkey{{false, symPool[rng.Intn(len(symPool))]}, {false, "w" + symPool[rng.Intn(len(symPool))]}}, vals: []*gv{v, one}}
			}
			vs = append(vs, v)
		}
		r.interpreterCase(vs)
	}
}
