// c11: JSON and msgpack encodings round-trip and are well-formed.
//
// Generates nested data (scalars from boundary grids, strings from an adversarial alphabet over
// the whole Unicode range plus bytes that are not UTF-8, arrays, plain hashes with symbol or
// string keys, declared records), builds each value through the Go API (or from source text for
// the literal stream), calls the REAL builtins json / unjson / msgpack / unmsgpack and records
//
//	json=<hex of (json v)>            compared with the model's to_json           (correspondence)
//	std=<tree read by encoding/json>  number tokens as written; compared with the model's json_parse
//	stdv=<the same, numbers by value> compared with the specification's tree_of v (property)
//	unjson=<value|CRASH|CORRUPT>      compared with of_tree (model) and norm v    (property)
//	unmsgpack=<...>                   same, through msgpack
//	codec=<1|0>                       the Go tree read from the msgpack bytes equals the one read from the JSON
//	mp=<hex of (msgpack v)>           compared with the model's mp_bytes (correspondence); read by the extracted
//	                                  msgpack reader mp_decode and compared with the specification's Go tree (property)
//
// Case lines: "V <value>" (see value.go), "W <k> <i> <schedule seed> <value>*k" (the i-th value of an
// interleaved history: stable=<1|0> says whether its encodings kept their bytes), "T <n> <value>" (interp.go: observed in the n-th of two fresh interpreters),
// "E <initial value> ~ <changes>" (mutate.go: the object after
// in-place changes, encoded before and after), "Q <cps>" (string quoting alone).
package main

import (
	"bytes"
	"encoding/json"
	"fmt"
	"math"
	"os"
	"reflect"
	"strings"

	"github.com/glycerine/zygomys/v9/zygo"
	"verif/harness/lib"
)

const budget = 2000000

// ---- declared record types -------------------------------------------------

type fdecl struct{ name, ty string } // ty: i f s b r<Type>
type rdecl struct {
	name   string
	fields []fdecl
}

var decls = []rdecl{
	{"Pt", []fdecl{{"x", "f"}, {"y", "f"}, {"name", "s"}}},
	{"Rec", []fdecl{{"id", "i"}, {"ok", "b"}, {"s", "s"}, {"p", "rPt"}, {"w", "f"}}},
}

const declSrc = `(struct Pt [(field x:float64) (field y:float64) (field name:string)])
(struct Rec [(field id:int64) (field ok:bool) (field s:string) (field p:Pt) (field w:float64)])
(defmap ranch)`

func declOf(tn string) *rdecl {
	for i := range decls {
		if decls[i].name == tn {
			return &decls[i]
		}
	}
	return nil
}

// ---- observation -------------------------------------------------------------

type obs struct {
	json      []byte
	jsonOK    bool
	std       string
	stdv      string
	unjson    string
	unmsgpack string
	codec     string
	mp        []byte // the bytes of (msgpack v); nil when the builtin failed
	stable    string // W cases: the bytes of this encoding did not change while later values were encoded/decoded
}

func (o obs) String() string {
	j := "ERR"
	if o.jsonOK {
		j = hexs(o.json)
	}
	m := "ERR"
	if o.mp != nil {
		m = hexs(o.mp)
	}
	return "json=" + j + ";std=" + o.std + ";stdv=" + o.stdv + ";unjson=" + o.unjson + ";unmsgpack=" + o.unmsgpack + ";codec=" + o.codec + ";stable=" + o.stable + ";mp=" + m
}

func observedValue(r lib.Result) string {
	switch r.Class {
	case lib.OutValue:
		var sb strings.Builder
		if canon(r.Val, &sb) {
			return "CORRUPT"
		}
		return sb.String()
	case lib.OutError:
		return "CRASH"
	case lib.OutPanic:
		return "PANIC"
	}
	return strings.ToUpper(r.Class)
}

func observe(env *zygo.Zlisp, x zygo.Sexp) obs {
	o := obs{std: "-", stdv: "-", unjson: "-", unmsgpack: "-", codec: "-", stable: "-"}
	env.AddGlobal("v", x)
	r := lib.Eval(env, "(json v)", budget)
	raw, isRaw := r.Val.(*zygo.SexpRaw)
	if r.Class != lib.OutValue || !isRaw {
		return o
	}
	o.jsonOK = true
	o.json = []byte(raw.Val)
	o.std, o.stdv = stdTree(o.json)
	env.AddGlobal("j", raw)
	o.unjson = observedValue(lib.Eval(env, "(unjson j)", budget))
	m := lib.Eval(env, "(msgpack v)", budget)
	mraw, isRaw := m.Val.(*zygo.SexpRaw)
	if m.Class != lib.OutValue || !isRaw {
		o.unmsgpack = "CRASH"
		return o
	}
	env.AddGlobal("m", mraw)
	o.mp = append([]byte{}, mraw.Val...)
	o.unmsgpack = observedValue(lib.Eval(env, "(unmsgpack m)", budget))
	o.codec = codecIdentity(o.json, []byte(mraw.Val))
	return o
}

// codecIdentity: the Go tree decoded from the msgpack bytes equals the Go tree decoded from the JSON text.
func codecIdentity(js, mp []byte) (res string) {
	defer func() {
		if r := recover(); r != nil {
			res = "0"
		}
	}()
	a, err := zygo.JsonToGo(js)
	if err != nil {
		return "0"
	}
	b, err := zygo.MsgpackToGo(mp)
	if err != nil {
		return "0"
	}
	if reflect.DeepEqual(a, b) {
		return "1"
	}
	return "0"
}

// ---- the harness's own reading of the property (drives tags and shrinking only;
//      the verdict is taken by the check against the extracted specification) ----------

func finite(f float64) bool { return !math.IsNaN(f) && !math.IsInf(f, 0) }

func validStr(s string) bool { return !strings.Contains(cps(s), "!") }

// inDomain: the value belongs to the round-trip domain of the property text.
func inDomain(v *gv) bool {
	switch v.kind {
	case 'D':
		return finite(v.f)
	case 'S':
		return validStr(v.s)
	case 'A':
		for _, e := range v.arr {
			if !inDomain(e) {
				return false
			}
		}
	case 'H':
		seen := map[string]bool{}
		if !validStr(v.tn) {
			return false
		}
		for i, k := range v.keys {
			if k.str || seen[k.text] || !validStr(k.text) || !inDomain(v.vals[i]) {
				return false
			}
			seen[k.text] = true
		}
	}
	return true
}

// knownShape: the listed defect applies to the value (KNOWN_FINDINGS.txt, property C11:
// a field literally named Atype or zKeyOrder).
func knownShape(v *gv) bool {
	for _, e := range v.arr {
		if knownShape(e) {
			return true
		}
	}
	for i, k := range v.keys {
		if k.text == "Atype" || k.text == "zKeyOrder" || knownShape(v.vals[i]) {
			return true
		}
	}
	return false
}

// expectTree: the JSON tree the value must denote (same rendering as stdTree).
func expectTree(v *gv, sb *strings.Builder) {
	switch v.kind {
	case 'N':
		sb.WriteString("N")
	case 'B':
		if v.b {
			sb.WriteString("T")
		} else {
			sb.WriteString("F")
		}
	case 'I':
		fmt.Fprintf(sb, "I%d", v.i)
	case 'D':
		if finite(v.f) {
			fmt.Fprintf(sb, "D%d", math.Float64bits(v.f))
		} else {
			sb.WriteString("N")
		}
	case 'S':
		sb.WriteString("S" + strings.ReplaceAll(cps(v.s), "!", "fffd"))
	case 'A':
		fmt.Fprintf(sb, "A%d", len(v.arr))
		for _, e := range v.arr {
			sb.WriteByte(' ')
			expectTree(e, sb)
		}
	case 'H':
		fix := func(s string) string { return strings.ReplaceAll(cps(s), "!", "fffd") }
		n := len(v.keys)
		if n == 0 {
			fmt.Fprintf(sb, "O1 S%s S%s", cps("Atype"), fix(v.tn))
			return
		}
		fmt.Fprintf(sb, "O%d S%s S%s", n+2, cps("Atype"), fix(v.tn))
		for i, k := range v.keys {
			sb.WriteString(" S" + fix(k.text) + " ")
			expectTree(v.vals[i], sb)
		}
		fmt.Fprintf(sb, " S%s A%d", cps("zKeyOrder"), n)
		for _, k := range v.keys {
			sb.WriteString(" S" + fix(k.text))
		}
	}
}

// expectBack: the value a round trip must give (string keys would come back as symbols).
func expectBack(v *gv, sb *strings.Builder) {
	switch v.kind {
	case 'D':
		fmt.Fprintf(sb, "D%d", math.Float64bits(v.f))
	case 'A':
		fmt.Fprintf(sb, "A%d", len(v.arr))
		for _, e := range v.arr {
			sb.WriteByte(' ')
			expectBack(e, sb)
		}
	case 'H':
		fmt.Fprintf(sb, "H%s %d", cps(v.tn), len(v.keys))
		for i, k := range v.keys {
			sb.WriteString(" k" + cps(k.text) + " ")
			expectBack(v.vals[i], sb)
		}
	case 'S':
		sb.WriteString("S" + cps(v.s)) // the raw-literal flag is not data
	default:
		v.input(sb)
	}
}

// failure gives a short signature of how the observation violates the property ("" = holds).
func failure(v *gv, o obs) string {
	if !o.jsonOK {
		return "json:ERR"
	}
	if o.stable == "0" {
		return "encoding-changed"
	}
	var sb strings.Builder
	expectTree(v, &sb)
	if o.stdv != sb.String() {
		if o.stdv == "ERR" {
			return "std:ERR"
		}
		return "std:differs"
	}
	if !inDomain(v) {
		return ""
	}
	sb.Reset()
	expectBack(v, &sb)
	want := sb.String()
	for _, p := range [][2]string{{"unjson", o.unjson}, {"unmsgpack", o.unmsgpack}} {
		if p[1] != want {
			if p[1] == "CRASH" || p[1] == "CORRUPT" || p[1] == "PANIC" {
				return p[0] + ":" + p[1]
			}
			return p[0] + ":differs"
		}
	}
	if o.codec != "1" {
		return "codec"
	}
	return ""
}

// ---- driver --------------------------------------------------------------------

type runner struct {
	env  *zygo.Zlisp
	out  *lib.Out
	seen map[string]bool
	fail map[string]int // failure signature -> shrink attempts spent
}

func (r *runner) build(v *gv) (x zygo.Sexp, ok bool) {
	defer func() {
		if rec := recover(); rec != nil {
			ok = false
			r.env.Clear()
		}
	}()
	x, err := v.sexp(r.env)
	if err != nil {
		return nil, false
	}
	return x, true
}

// run observes one value; returns its failure signature.
func (r *runner) run(v *gv, x zygo.Sexp, tags ...string) string {
	// the case line describes the value that was actually built (read off the real object)
	if actual, ok := fromSexp(x); ok {
		v = actual
	} else {
		r.out.Dist["built-value-outside-model"]++
		return ""
	}
	input := "V " + v.String()
	if r.seen[input] {
		return ""
	}
	r.seen[input] = true
	o := observe(r.env, x)
	sig := failure(v, o)
	tags = append(tags, fmt.Sprintf("depth:%d", v.depth()))
	if sig != "" {
		tags = append(tags, "harness-sees:"+sig)
	}
	if !inDomain(v) {
		tags = append(tags, "outside-roundtrip-domain")
	}
	r.out.Case(input, o.String(), v.size() > 1, tags...)
	return sig
}

func (r *runner) value(v *gv, tags ...string) {
	x, ok := r.build(v)
	if !ok {
		r.out.Dist["rejected-at-construction"]++
		return
	}
	sig := r.run(v, x, tags...)
	if sig != "" && r.fail[sig] < 6 {
		r.fail[sig]++
		r.shrink(v, sig)
	}
}

// shrink: greedy structural reduction keeping the same failure signature and moving away from
// the shapes of the listed defects whenever a smaller failing value without them exists.
func (r *runner) shrink(v *gv, sig string) {
	cur := v
	still := func(c *gv) bool {
		x, ok := r.build(c)
		if !ok {
			return false
		}
		actual, ok := fromSexp(x)
		if !ok || actual.String() != c.String() {
			return false
		}
		o := observe(r.env, x)
		return failure(c, o) == sig
	}
	for round := 0; round < 200; round++ {
		improved := false
		for _, c := range candidates(cur) {
			if c.size() >= cur.size() && !(knownShape(cur) && !knownShape(c)) {
				continue
			}
			if knownShape(c) && !knownShape(cur) {
				continue
			}
			if still(c) {
				cur = c
				improved = true
				break
			}
		}
		if !improved {
			break
		}
	}
	if cur != v {
		if x, ok := r.build(cur); ok {
			r.run(cur, x, "shrunk")
		}
	}
}

// ---- interleaved histories: encodings are values -------------------------------------------
//
// Several values are encoded (json and msgpack) and decoded in a random interleaving in which
// each value's encodings precede its decodings; every result stays alive (the SexpRaw objects
// the builtins returned, bound to globals exactly as (def ma (msgpack a)) would keep them).
// Observed per value: the bytes of its two encodings at the END of the history (they must
// still be what they were when they were produced), and the decodings of those very objects.

type histItem struct {
	v          *gv
	x          zygo.Sexp
	j, m       *zygo.SexpRaw
	snapJ      []byte
	snapM      []byte
	unj, unm   lib.Result
	encOK      bool
	decJ, decM bool
}

func (r *runner) observeHistory(vs []*gv, order *lib.Rng) ([]*gv, []obs, bool) {
	env := r.env
	items := make([]*histItem, 0, len(vs))
	for _, v := range vs {
		x, ok := r.build(v)
		if !ok {
			return nil, nil, false
		}
		actual, ok := fromSexp(x)
		if !ok {
			return nil, nil, false
		}
		items = append(items, &histItem{v: actual, x: x})
	}
	// events: 2*i = encode item i, 2*i+1 = decode item i; an item is decoded after it was encoded
	pendingEnc := make([]int, len(items))
	for i := range pendingEnc {
		pendingEnc[i] = i
	}
	var pendingDec []int
	for len(pendingEnc)+len(pendingDec) > 0 {
		doEnc := len(pendingDec) == 0 || (len(pendingEnc) > 0 && order.Intn(3) != 0)
		if doEnc {
			k := order.Intn(len(pendingEnc))
			i := pendingEnc[k]
			pendingEnc = append(pendingEnc[:k], pendingEnc[k+1:]...)
			it := items[i]
			env.AddGlobal("v", it.x)
			rj := lib.Eval(env, "(json v)", budget)
			rm := lib.Eval(env, "(msgpack v)", budget)
			jr, ok1 := rj.Val.(*zygo.SexpRaw)
			mr, ok2 := rm.Val.(*zygo.SexpRaw)
			if rj.Class == lib.OutValue && ok1 {
				it.j = jr
				it.snapJ = append([]byte(nil), jr.Val...)
			}
			if rm.Class == lib.OutValue && ok2 {
				it.m = mr
				it.snapM = append([]byte(nil), mr.Val...)
			}
			it.encOK = it.j != nil
			pendingDec = append(pendingDec, i)
		} else {
			k := order.Intn(len(pendingDec))
			i := pendingDec[k]
			pendingDec = append(pendingDec[:k], pendingDec[k+1:]...)
			it := items[i]
			if it.j != nil {
				env.AddGlobal("j", it.j)
				it.unj = lib.Eval(env, "(unjson j)", budget)
				it.decJ = true
			}
			if it.m != nil {
				env.AddGlobal("m", it.m)
				it.unm = lib.Eval(env, "(unmsgpack m)", budget)
				it.decM = true
			}
		}
	}
	// everything is read at the end of the history
	out := make([]obs, len(items))
	actuals := make([]*gv, len(items))
	for i, it := range items {
		actuals[i] = it.v
		o := obs{std: "-", stdv: "-", unjson: "-", unmsgpack: "-", codec: "-", stable: "1"}
		if it.j != nil {
			o.jsonOK = true
			o.json = []byte(it.j.Val)
			o.std, o.stdv = stdTree(o.json)
			if !bytes.Equal(it.j.Val, it.snapJ) {
				o.stable = "0"
			}
			if it.decJ {
				o.unjson = observedValue(it.unj)
			}
		}
		if it.m != nil {
			if !bytes.Equal(it.m.Val, it.snapM) {
				o.stable = "0"
			}
			o.mp = append([]byte{}, it.m.Val...)
			if it.decM {
				o.unmsgpack = observedValue(it.unm)
			}
			if it.j != nil {
				o.codec = codecIdentity(o.json, []byte(it.m.Val))
			}
		} else if it.j != nil {
			o.unmsgpack = "CRASH"
		}
		out[i] = o
	}
	return actuals, out, true
}

func histInput(vs []*gv, i int, seed uint64) string {
	var sb strings.Builder
	fmt.Fprintf(&sb, "W %d %d %d", len(vs), i, seed)
	for _, v := range vs {
		sb.WriteByte(' ')
		v.input(&sb)
	}
	return sb.String()
}

// history runs one interleaved history (schedule derived from seed) and records one case per value;
// returns the failure signatures per position.
func (r *runner) history(vs []*gv, seed uint64, record bool, tags ...string) []string {
	actuals, os, ok := r.observeHistory(vs, lib.NewRng(seed))
	if !ok {
		r.out.Dist["rejected-at-construction"]++
		return nil
	}
	sigs := make([]string, len(actuals))
	for i := range actuals {
		sigs[i] = failure(actuals[i], os[i])
	}
	if record {
		for i := range actuals {
			input := histInput(actuals, i, seed)
			if r.seen[input] {
				continue
			}
			r.seen[input] = true
			t := append([]string{fmt.Sprintf("history:%d", len(actuals))}, tags...)
			if sigs[i] != "" {
				t = append(t, "harness-sees:"+sigs[i])
			}
			r.out.Case(input, os[i].String(), true, t...)
		}
	}
	return sigs
}

// aloneFails: the value fails the property already on its own (then the history is not to blame).
func (r *runner) aloneFails(v *gv) bool {
	x, ok := r.build(v)
	if !ok {
		return true
	}
	a, ok := fromSexp(x)
	if !ok {
		return true
	}
	return failure(a, observe(r.env, x)) != ""
}

func anySig(sigs []string) string {
	for _, s := range sigs {
		if s != "" {
			return s
		}
	}
	return ""
}

// historyCase: run, and when a value fails only in company, reduce the history (fewer values,
// then smaller values) keeping a failure that no value shows alone.
func (r *runner) historyCase(vs []*gv, seed uint64) {
	sigs := r.history(vs, seed, true)
	if anySig(sigs) == "" || r.fail["history"] >= 4 {
		return
	}
	for _, v := range vs {
		if r.aloneFails(v) {
			return
		}
	}
	r.fail["history"]++
	cur := vs
	fails := func(c []*gv) bool {
		for _, v := range c {
			if knownShape(v) || r.aloneFails(v) {
				return false
			}
		}
		for s := uint64(0); s < 3; s++ {
			if anySig(r.history(c, seed+s, false)) != "" {
				return true
			}
		}
		return false
	}
	for round := 0; round < 60; round++ {
		improved := false
		for i := 0; i < len(cur) && len(cur) > 2; i++ {
			c := append(append([]*gv{}, cur[:i]...), cur[i+1:]...)
			if fails(c) {
				cur, improved = c, true
				break
			}
		}
		if improved {
			continue
		}
	outer:
		for i := range cur {
			for _, s := range candidates(cur[i]) {
				if s.size() >= cur[i].size() {
					continue
				}
				c := append([]*gv{}, cur...)
				c[i] = s
				if fails(c) {
					cur, improved = c, true
					break outer
				}
			}
		}
		if !improved {
			break
		}
	}
	for s := uint64(0); s < 3; s++ {
		if anySig(r.history(cur, seed+s, false)) != "" {
			r.history(cur, seed+s, true, "shrunk")
			break
		}
	}
}

func clone(v *gv) *gv {
	c := *v
	c.arr = append([]*gv(nil), v.arr...)
	c.keys = append([]gkey(nil), v.keys...)
	c.vals = append([]*gv(nil), v.vals...)
	return &c
}

// candidates: smaller variants of v (children, element/field removal, simpler scalars, recursive).
func candidates(v *gv) []*gv {
	var out []*gv
	switch v.kind {
	case 'A':
		for _, e := range v.arr {
			out = append(out, e)
		}
		for i := range v.arr {
			c := clone(v)
			c.arr = append(c.arr[:i:i], c.arr[i+1:]...)
			out = append(out, c)
		}
		for i, e := range v.arr {
			for _, s := range candidates(e) {
				c := clone(v)
				c.arr[i] = s
				out = append(out, c)
			}
		}
	case 'H':
		for _, e := range v.vals {
			out = append(out, e)
		}
		for i := range v.keys {
			c := clone(v)
			c.keys = append(c.keys[:i:i], c.keys[i+1:]...)
			c.vals = append(c.vals[:i:i], c.vals[i+1:]...)
			out = append(out, c)
		}
		if v.tn != "hash" && declOf(v.tn) == nil {
			c := clone(v)
			c.tn = "hash"
			out = append(out, c)
		}
		hasA := false
		for _, k := range v.keys {
			if k.text == "a" {
				hasA = true
			}
		}
		for i, k := range v.keys {
			if len(k.text) > 1 && !hasA {
				c := clone(v)
				c.keys[i].text = "a"
				out = append(out, c)
			}
		}
		for i, e := range v.vals {
			for _, s := range candidates(e) {
				c := clone(v)
				c.vals[i] = s
				out = append(out, c)
			}
		}
	case 'S':
		rs := []rune(v.s)
		if validStr(v.s) {
			for i := range rs {
				out = append(out, &gv{kind: 'S', raw: v.raw, s: string(rs[:i]) + string(rs[i+1:])})
			}
		} else {
			for i := 0; i < len(v.s); i++ {
				out = append(out, &gv{kind: 'S', s: v.s[:i] + v.s[i+1:]})
			}
		}
	case 'I':
		if v.i != 0 {
			out = append(out, &gv{kind: 'I', i: 0}, &gv{kind: 'I', i: v.i / 2})
		}
	case 'D':
		if v.f != 0.5 {
			out = append(out, &gv{kind: 'D', f: 0.5})
		}
		if v.sci {
			out = append(out, &gv{kind: 'D', f: v.f})
		}
	}
	if v.kind != 'N' && v.kind != 'A' && v.kind != 'H' {
		out = append(out, &gv{kind: 'N'})
	}
	return out
}

func (r *runner) quote(s string, tags ...string) {
	input := "Q " + cps(s) + " " + hexs([]byte(s))
	if r.seen[input] {
		return
	}
	r.seen[input] = true
	q := zygo.SexpToJson(&zygo.SexpStr{S: s})
	std, _ := stdTree([]byte(q))
	r.out.Case(input, "q="+hexs([]byte(q))+";std="+std, true, tags...)
}

func (r *runner) source(src string) {
	res := lib.Eval(r.env, src, budget)
	if res.Class != lib.OutValue {
		r.out.Dist["source-rejected"]++
		return
	}
	v, ok := fromSexp(res.Val)
	if !ok {
		r.out.Dist["source-outside-model"]++
		return
	}
	sig := r.run(v, res.Val, "from-source")
	_ = sig
}

func main() {
	a := lib.ParseArgs()
	out := lib.NewOut(a.Out)
	out.Rule = "values: every scalar of the boundary grids alone and inside [x], {a:x}, a declared record field and a depth-5 chain; adversarial strings one code point at a time and in random words (quotes, backslash, controls, DEL, U+2028/9, U+FFFD, surrogate bytes, emoji, < > &, bytes that are not UTF-8); random nested data to depth 5 over plain hashes (symbol keys, string keys), defmap records, declared structs, arrays; JSON-style source literals; string quoting alone over code-point blocks of the whole range and every single byte. A case is non-trivial when the value is not a bare nil/bool. distinct = distinct case lines"
	env := zygo.NewZlisp()
	env.StandardSetup()
	if res := lib.Eval(env, declSrc, budget); res.Class != lib.OutValue {
		fmt.Fprintln(os.Stderr, "declaring the record types failed:", res.Show())
		os.Exit(2)
	}
	r := &runner{env: env, out: out, seen: map[string]bool{}, fail: map[string]int{}}
	if a.Replay != "" {
		replay(r, a.Replay)
		out.Close(a.Stats)
		return
	}
	rng := lib.NewRng(a.Seed)
	g := &gen{rng: rng}
	// 1. grids, one scalar at a time in several contexts
	for _, s := range g.scalarGrid() {
		r.value(s, "grid:bare")
		r.value(&gv{kind: 'A', arr: []*gv{s}}, "grid:array")
		r.value(&gv{kind: 'A', arr: []*gv{s, s}}, "grid:array2")
		r.value(&gv{kind: 'H', tn: "hash", keys: []gkey{{false, "a"}}, vals: []*gv{s}}, "grid:hash")
		r.value(&gv{kind: 'H', tn: "hash", keys: []gkey{{true, "a b"}}, vals: []*gv{s}}, "grid:strkey")
		r.value(&gv{kind: 'H', tn: "ranch", keys: []gkey{{false, "b"}, {false, "a"}}, vals: []*gv{s, s}}, "grid:defmap")
		// fields whose names sort before Atype and after zKeyOrder in the decoder's sorted walk
		r.value(&gv{kind: 'H', tn: "hash", keys: []gkey{{false, "zz"}, {false, "A"}, {false, "zKeyOrdes"}}, vals: []*gv{s, s, {kind: 'A', arr: []*gv{s}}}}, "grid:around-reserved")
		chain := s
		for d := 0; d < 4; d++ {
			if d%2 == 0 {
				chain = &gv{kind: 'H', tn: "hash", keys: []gkey{{false, "n"}, {false, "c"}}, vals: []*gv{{kind: 'I', i: int64(d)}, chain}}
			} else {
				chain = &gv{kind: 'A', arr: []*gv{chain, {kind: 'N'}}}
			}
		}
		r.value(chain, "grid:chain5")
		switch s.kind {
		case 'D':
			r.value(&gv{kind: 'H', tn: "Pt", keys: []gkey{{false, "y"}, {false, "x"}}, vals: []*gv{s, {kind: 'D', f: 0.25}}}, "grid:record")
		case 'I':
			r.value(&gv{kind: 'H', tn: "Rec", keys: []gkey{{false, "s"}, {false, "id"}}, vals: []*gv{{kind: 'S', s: "q"}, s}}, "grid:record")
		case 'S':
			r.value(&gv{kind: 'H', tn: "Pt", keys: []gkey{{false, "name"}}, vals: []*gv{s}}, "grid:record")
			if validStr(s.s) {
				r.value(&gv{kind: 'H', tn: "hash", keys: []gkey{{false, s.s}}, vals: []*gv{{kind: 'I', i: 1}}}, "grid:symkey")
			}
			r.value(&gv{kind: 'H', tn: "hash", keys: []gkey{{true, s.s}, {true, "z"}}, vals: []*gv{{kind: 'I', i: 1}, {kind: 'N'}}}, "grid:strkey")
		}
	}
	// 2. shapes: empty containers, reserved and near-reserved names, type names
	for _, v := range g.shapes() {
		r.value(v, "shape")
	}
	// 2b. sizes on the boundaries of msgpack's length-prefixed formats
	for _, v := range g.sized(a.Tier) {
		r.value(v, "size-boundary")
	}
	// 3. source literals
	for _, s := range sourceTexts {
		r.source(s)
	}
	// 4. string quoting alone
	nq := quoteStream(r, a.Tier)
	out.Extra["quote_cases"] = nq
	// 5. random nested data
	n := 6000
	if a.Tier == "thorough" {
		n = 300000
	}
	for k := 0; k < n; k++ {
		v := g.value(1+rng.Intn(5), "")
		r.value(v, "random")
	}
	for k := 0; k < n/20; k++ {
		r.source(g.literal(3))
	}
	// 6. interleaved histories: several encodings alive at once
	grid := g.scalarGrid()
	nh := n / 10
	for k := 0; k < nh; k++ {
		size := 2 + rng.Intn(3)
		vs := make([]*gv, 0, size)
		for i := 0; i < size; i++ {
			switch rng.Intn(4) {
			case 0:
				vs = append(vs, grid[rng.Intn(len(grid))])
			case 1:
				vs = append(vs, &gv{kind: 'A', arr: []*gv{grid[rng.Intn(len(grid))]}})
			default:
				vs = append(vs, g.value(1+rng.Intn(3), ""))
			}
		}
		if rng.Intn(6) == 0 {
			vs[len(vs)-1] = vs[0] // the same value twice
		}
		r.historyCase(vs, rng.U64())
	}
	out.Extra["histories"] = nh
	// 7. mutation histories: encode, change a nested container in place, encode again
	nm := n / 15
	mutationStream(r, g, rng, nm)
	out.Extra["mutation_histories"] = nm
	// 8. further interpreters in the same process
	ni := n / 150
	interpreterStream(r, g, rng, ni)
	out.Extra["interpreter_pairs"] = ni + 2
	out.Extra["max_depth"] = 5
	out.Close(a.Stats)
}

// replay: the file is the JSON object written by the check; its "input" is a case line.
func replay(r *runner, path string) {
	b, err := os.ReadFile(path)
	if err != nil {
		fmt.Fprintln(os.Stderr, err)
		os.Exit(2)
	}
	var obj map[string]interface{}
	if err := json.Unmarshal(b, &obj); err != nil {
		fmt.Fprintln(os.Stderr, err)
		os.Exit(2)
	}
	in, _ := obj["input"].(string)
	toks := strings.Split(in, " ")
	if len(toks) >= 1 && toks[0] == "Q" {
		s := ""
		if len(toks) > 1 {
			s, _ = parseCps(toks[1])
		}
		r.quote(s, "replay")
		return
	}
	if len(toks) >= 3 && toks[0] == "T" {
		p := 2
		v, err := parseValue(toks, &p)
		if err != nil {
			fmt.Fprintln(os.Stderr, "replay: cannot read the value:", err)
			os.Exit(2)
		}
		r.twoInterpreters([]*gv{v}, true, "replay")
		return
	}
	if len(toks) >= 2 && toks[0] == "E" {
		// E <initial> ~ <ops>: rebuild the initial value and redo the changes
		p := 1
		v0, err := parseValue(toks, &p)
		if err != nil || p >= len(toks) || toks[p] != "~" {
			fmt.Fprintln(os.Stderr, "replay: cannot read the initial value of the mutation history")
			os.Exit(2)
		}
		p++
		ops, err := parseOps(toks, &p)
		if err != nil {
			fmt.Fprintln(os.Stderr, "replay: cannot read the changes:", err)
			os.Exit(2)
		}
		r.mutation(v0, ops, true, "replay")
		return
	}
	if len(toks) >= 4 && toks[0] == "W" {
		var k int
		var seed uint64
		fmt.Sscanf(toks[1], "%d", &k)
		fmt.Sscanf(toks[3], "%d", &seed)
		pos := 4
		var vs []*gv
		for i := 0; i < k; i++ {
			v, err := parseValue(toks, &pos)
			if err != nil {
				fmt.Fprintln(os.Stderr, "replay: cannot read the history:", err)
				os.Exit(2)
			}
			vs = append(vs, v)
		}
		r.history(vs, seed, true, "replay")
		return
	}
	pos := 1
	v, err := parseValue(toks, &pos)
	if err != nil {
		fmt.Fprintln(os.Stderr, "replay: cannot read the input:", err)
		os.Exit(2)
	}
	x, ok := r.build(v)
	if !ok {
		fmt.Fprintln(os.Stderr, "replay: the value is rejected at construction")
		os.Exit(2)
	}
	r.run(v, x, "replay")
}
