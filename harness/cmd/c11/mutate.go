// Mutation histories: the encoding depends on the value as it is NOW, not on what was encoded before.
//
// A value is built and encoded (json and msgpack, decoded again), then a nested hash or array of
// it is changed IN PLACE through the real builtins (hset / hdel on a hash, aset on an array, at
// any depth, also at the top), and the same object is encoded again; this is repeated. After
// each change the value the object must now have is computed from the initial value and the
// changes by the model (Coq run_ops: an existing key keeps its place, a new key goes last), so
// model and specification are those of that value:
//
//	E <initial value> ~ <op>*        (the current value is computed by the model of the changes)
//	op   := P<n> step*n ( s key value | d key | a<idx> value )
//	step := key (k<cps> | q<cps>) | i<idx>
package main

import (
	"fmt"
	"strconv"
	"strings"

	"github.com/glycerine/zygomys/v9/zygo"
	"verif/harness/lib"
)

type pstep struct {
	isKey bool
	key   gkey
	idx   int
}

type mop struct {
	path []pstep
	kind byte // s d a
	key  gkey
	idx  int
	val  *gv
}

func keyTok(k gkey) string {
	if k.str {
		return "q" + cps(k.text)
	}
	return "k" + cps(k.text)
}

func (o mop) write(sb *strings.Builder) {
	fmt.Fprintf(sb, " P%d", len(o.path))
	for _, s := range o.path {
		if s.isKey {
			sb.WriteString(" " + keyTok(s.key))
		} else {
			fmt.Fprintf(sb, " i%d", s.idx)
		}
	}
	switch o.kind {
	case 's':
		sb.WriteString(" s " + keyTok(o.key) + " ")
		o.val.input(sb)
	case 'd':
		sb.WriteString(" d " + keyTok(o.key))
	case 'a':
		fmt.Fprintf(sb, " a%d ", o.idx)
		o.val.input(sb)
	}
}

func parseKeyTok(t string) (gkey, error) {
	if t == "" || (t[0] != 'k' && t[0] != 'q') {
		return gkey{}, fmt.Errorf("bad key token %q", t)
	}
	text, err := parseCps(t[1:])
	return gkey{t[0] == 'q', text}, err
}

func parseOps(toks []string, pos *int) ([]mop, error) {
	var ops []mop
	for *pos < len(toks) {
		t := toks[*pos]
		*pos++
		if t == "" {
			continue
		}
		if t[0] != 'P' {
			return nil, fmt.Errorf("bad op header %q", t)
		}
		n, err := strconv.Atoi(t[1:])
		if err != nil {
			return nil, err
		}
		var o mop
		for i := 0; i < n; i++ {
			if *pos >= len(toks) {
				return nil, fmt.Errorf("truncated path")
			}
			st := toks[*pos]
			*pos++
			if st != "" && st[0] == 'i' {
				ix, err := strconv.Atoi(st[1:])
				if err != nil {
					return nil, err
				}
				o.path = append(o.path, pstep{idx: ix})
			} else {
				k, err := parseKeyTok(st)
				if err != nil {
					return nil, err
				}
				o.path = append(o.path, pstep{isKey: true, key: k})
			}
		}
		if *pos >= len(toks) || toks[*pos] == "" {
			return nil, fmt.Errorf("truncated op")
		}
		kt := toks[*pos]
		*pos++
		o.kind = kt[0]
		switch o.kind {
		case 's', 'd':
			if *pos >= len(toks) {
				return nil, fmt.Errorf("truncated op")
			}
			k, err := parseKeyTok(toks[*pos])
			*pos++
			if err != nil {
				return nil, err
			}
			o.key = k
		case 'a':
			ix, err := strconv.Atoi(kt[1:])
			if err != nil {
				return nil, err
			}
			o.idx = ix
		default:
			return nil, fmt.Errorf("bad op kind %q", kt)
		}
		if o.kind != 'd' {
			v, err := parseValue(toks, pos)
			if err != nil {
				return nil, err
			}
			o.val = v
		}
		ops = append(ops, o)
	}
	return ops, nil
}

func findKey(h *zygo.SexpHash, k gkey) zygo.Sexp {
	for _, x := range h.KeyOrder {
		switch kk := x.(type) {
		case *zygo.SexpSymbol:
			if !k.str && kk.SexpString(nil) == k.text {
				return x
			}
		case *zygo.SexpStr:
			if k.str && kk.S == k.text {
				return x
			}
		}
	}
	return nil
}

func resolve(x zygo.Sexp, path []pstep) (zygo.Sexp, bool) {
	for _, s := range path {
		switch e := x.(type) {
		case *zygo.SexpHash:
			if !s.isKey {
				return nil, false
			}
			k := findKey(e, s.key)
			if k == nil {
				return nil, false
			}
			v, err := safeGet(e, k)
			if err != nil {
				return nil, false
			}
			x = v
		case *zygo.SexpArray:
			if s.isKey || s.idx < 0 || s.idx >= len(e.Val) {
				return nil, false
			}
			x = e.Val[s.idx]
		default:
			return nil, false
		}
	}
	return x, true
}

// apply performs the change on the real object through the real builtins.
func (r *runner) apply(top zygo.Sexp, o mop) bool {
	target, ok := resolve(top, o.path)
	if !ok {
		return false
	}
	env := r.env
	var vv zygo.Sexp = zygo.SexpNull
	if o.val != nil {
		x, ok := r.build(o.val)
		if !ok {
			return false
		}
		vv = x
	}
	env.AddGlobal("vv", vv)
	switch o.kind {
	case 's', 'd':
		h, isHash := target.(*zygo.SexpHash)
		if !isHash {
			return false
		}
		var kk zygo.Sexp
		if existing := findKey(h, o.key); existing != nil {
			kk = existing
		} else if o.key.str {
			kk = &zygo.SexpStr{S: o.key.text}
		} else {
			kk = env.MakeSymbol(o.key.text)
		}
		env.AddGlobal("hh", h)
		env.AddGlobal("kk", kk)
		src := "(hset hh kk vv)"
		if o.kind == 'd' {
			src = "(hdel hh kk)"
		}
		return lib.Eval(env, src, budget).Class == lib.OutValue
	case 'a':
		a, isArr := target.(*zygo.SexpArray)
		if !isArr || o.idx < 0 || o.idx >= len(a.Val) {
			return false
		}
		env.AddGlobal("aa", a)
		return lib.Eval(env, fmt.Sprintf("(aset aa %d vv)", o.idx), budget).Class == lib.OutValue
	}
	return false
}

// containers lists the paths of the hashes (not declared structs) and non-empty arrays of v.
func containers(v *gv, path []pstep, out *[][]pstep, kinds *[]byte) {
	switch v.kind {
	case 'A':
		if len(v.arr) > 0 {
			*out = append(*out, append([]pstep(nil), path...))
			*kinds = append(*kinds, 'A')
		}
		for i, e := range v.arr {
			containers(e, append(path, pstep{idx: i}), out, kinds)
		}
	case 'H':
		if declOf(v.tn) == nil {
			*out = append(*out, append([]pstep(nil), path...))
			*kinds = append(*kinds, 'H')
		}
		for i, e := range v.vals {
			containers(e, append(path, pstep{isKey: true, key: v.keys[i]}), out, kinds)
		}
	}
}

func at(v *gv, path []pstep) *gv {
	for _, s := range path {
		if s.isKey {
			found := false
			for i, k := range v.keys {
				if k == s.key {
					v = v.vals[i]
					found = true
					break
				}
			}
			if !found {
				return nil
			}
		} else {
			if s.idx >= len(v.arr) {
				return nil
			}
			v = v.arr[s.idx]
		}
	}
	return v
}

var mutKeys = []string{"a", "b", "c", "x", "y", "n1", "n2", "é", "zz"}

// randomOp picks a change of the current value, preferring nested containers.
func (g *gen) randomOp(cur *gv) (mop, bool) {
	var paths [][]pstep
	var kinds []byte
	containers(cur, nil, &paths, &kinds)
	if len(paths) == 0 {
		return mop{}, false
	}
	r := g.rng
	pick := r.Intn(len(paths))
	for try := 0; try < 3 && len(paths[pick]) == 0; try++ {
		pick = r.Intn(len(paths)) // nested ones are the interesting ones
	}
	path := paths[pick]
	t := at(cur, path)
	if t == nil {
		return mop{}, false
	}
	newVal := func() *gv {
		switch r.Intn(4) {
		case 0:
			return g.value(2, "")
		}
		return g.scalar()
	}
	if kinds[pick] == 'A' {
		return mop{path: path, kind: 'a', idx: r.Intn(len(t.arr)), val: newVal()}, true
	}
	if len(t.keys) > 0 && r.Intn(3) == 0 {
		return mop{path: path, kind: 'd', key: t.keys[r.Intn(len(t.keys))]}, true
	}
	if len(t.keys) > 0 && r.Bool() {
		return mop{path: path, kind: 's', key: t.keys[r.Intn(len(t.keys))], val: newVal()}, true
	}
	strKeys := len(t.keys) > 0 && t.keys[0].str
	return mop{path: path, kind: 's', key: gkey{strKeys, mutKeys[r.Intn(len(mutKeys))]}, val: newVal()}, true
}

func mutInput(v0 *gv, ops []mop) string {
	var sb strings.Builder
	sb.WriteString("E ")
	v0.input(&sb)
	sb.WriteString(" ~")
	for _, o := range ops {
		o.write(&sb)
	}
	return sb.String()
}

// applyGv: what the change means for the data (the harness's own reading, for tags and shrinking;
// the verdict uses the extracted run_ops): an existing key keeps its place, a new key goes last.
func applyGv(v *gv, o mop, depth int) (*gv, bool) {
	if depth < len(o.path) {
		s := o.path[depth]
		c := clone(v)
		if s.isKey {
			if v.kind != 'H' {
				return nil, false
			}
			for i, k := range v.keys {
				if k == s.key {
					sub, ok := applyGv(v.vals[i], o, depth+1)
					if !ok {
						return nil, false
					}
					c.vals[i] = sub
					return c, true
				}
			}
			return nil, false
		}
		if v.kind != 'A' || s.idx >= len(v.arr) {
			return nil, false
		}
		sub, ok := applyGv(v.arr[s.idx], o, depth+1)
		if !ok {
			return nil, false
		}
		c.arr[s.idx] = sub
		return c, true
	}
	c := clone(v)
	switch o.kind {
	case 's':
		if v.kind != 'H' {
			return nil, false
		}
		for i, k := range v.keys {
			if k == o.key {
				c.vals[i] = o.val
				return c, true
			}
		}
		c.keys = append(c.keys, o.key)
		c.vals = append(c.vals, o.val)
		return c, true
	case 'd':
		if v.kind != 'H' {
			return nil, false
		}
		for i, k := range v.keys {
			if k == o.key {
				c.keys = append(c.keys[:i:i], c.keys[i+1:]...)
				c.vals = append(c.vals[:i:i], c.vals[i+1:]...)
				return c, true
			}
		}
		return c, true
	case 'a':
		if v.kind != 'A' || o.idx >= len(v.arr) {
			return nil, false
		}
		c.arr[o.idx] = o.val
		return c, true
	}
	return nil, false
}

// mutation runs one history: observe, then (change, observe)*; returns the first failure signature
// that the current value does not show when it is built afresh.
func (r *runner) mutation(v0 *gv, ops []mop, record bool, tags ...string) (sig string, applied int) {
	top, ok := r.build(v0)
	if !ok {
		return "", 0
	}
	start, ok := fromSexp(top)
	if !ok {
		return "", 0
	}
	observe(r.env, top) // the encodings made before any change
	cur := start
	for i, o := range ops {
		if !r.apply(top, o) {
			return sig, applied
		}
		next, ok := applyGv(cur, o, 0)
		if !ok {
			return sig, applied
		}
		// the op values as actually built (floats, invalid bytes) are read back the same way
		cur = next
		applied = i + 1
		ob := observe(r.env, top)
		s := failure(cur, ob)
		if real, ok := fromSexp(top); !ok || real.String() != cur.String() {
			if s == "" {
				s = "object-is-not-the-updated-value"
			}
		}
		if record {
			input := mutInput(start, ops[:i+1])
			if !r.seen[input] {
				r.seen[input] = true
				t := append([]string{"mutation-history", fmt.Sprintf("mutation:%c:depth%d", o.kind, len(o.path))}, tags...)
				if s != "" {
					t = append(t, "harness-sees:"+s)
				}
				r.out.Case(input, ob.String(), true, t...)
			}
		}
		if s != "" && sig == "" && !knownShape(cur) && !r.aloneFails(cur) {
			sig = s
		}
	}
	return sig, applied
}

// mutationCase: run a history; when a value fails only because of what was encoded before the
// change, reduce it (one change, then a smaller initial value).
func (r *runner) mutationCase(v0 *gv, ops []mop) {
	sig, _ := r.mutation(v0, ops, true)
	if sig == "" || r.fail["mutation"] >= 4 {
		return
	}
	r.fail["mutation"]++
	fails := func(v *gv, os []mop) bool {
		s, n := r.mutation(v, os, false)
		return s != "" && n == len(os)
	}
	curV, curOps := v0, ops
	for i := range ops {
		if fails(v0, ops[i:i+1]) {
			curOps = ops[i : i+1]
			break
		}
	}
	for k := len(curOps) - 1; k >= 1 && len(curOps) > 1; k-- {
		if fails(curV, curOps[:k]) {
			curOps = curOps[:k]
		}
	}
	for round := 0; round < 80; round++ {
		improved := false
		for _, c := range candidates(curV) {
			if c.size() >= curV.size() || knownShape(c) {
				continue
			}
			if fails(c, curOps) {
				curV, improved = c, true
				break
			}
		}
		if !improved && len(curOps) == 1 && curOps[0].val != nil {
			for _, c := range candidates(curOps[0].val) {
				if c.size() >= curOps[0].val.size() {
					continue
				}
				o := curOps[0]
				o.val = c
				if fails(curV, []mop{o}) {
					curOps, improved = []mop{o}, true
					break
				}
			}
		}
		if !improved {
			break
		}
	}
	r.mutation(curV, curOps, true, "shrunk")
}

// mutationStream: n histories of 1-4 changes over random nested values and fixed shapes.
func mutationStream(r *runner, g *gen, rng *lib.Rng, n int) {
	one := &gv{kind: 'I', i: 1}
	two := &gv{kind: 'I', i: 2}
	h := func(tn string, k string, v *gv) *gv {
		return &gv{kind: 'H', tn: tn, keys: []gkey{{false, k}}, vals: []*gv{v}}
	}
	inner := func() *gv { return h("hash", "x", one) }
	fixed := []struct {
		v  *gv
		op mop
	}{
		{h("hash", "in", inner()), mop{path: []pstep{{isKey: true, key: gkey{false, "in"}}}, kind: 's', key: gkey{false, "x"}, val: two}},
		{h("hash", "in", inner()), mop{path: []pstep{{isKey: true, key: gkey{false, "in"}}}, kind: 's', key: gkey{false, "y"}, val: two}},
		{h("hash", "in", inner()), mop{path: []pstep{{isKey: true, key: gkey{false, "in"}}}, kind: 'd', key: gkey{false, "x"}}},
		{h("ranch", "in", h("ranch", "x", one)), mop{path: []pstep{{isKey: true, key: gkey{false, "in"}}}, kind: 's', key: gkey{false, "x"}, val: two}},
		{h("hash", "arr", &gv{kind: 'A', arr: []*gv{one, one}}), mop{path: []pstep{{isKey: true, key: gkey{false, "arr"}}}, kind: 'a', idx: 1, val: two}},
		{&gv{kind: 'A', arr: []*gv{inner()}}, mop{path: []pstep{{idx: 0}}, kind: 's', key: gkey{false, "x"}, val: two}},
		{h("hash", "a", &gv{kind: 'A', arr: []*gv{inner()}}), mop{path: []pstep{{isKey: true, key: gkey{false, "a"}}, {idx: 0}}, kind: 's', key: gkey{false, "x"}, val: two}},
		{h("Rec", "p", &gv{kind: 'H', tn: "Pt"}), mop{kind: 's', key: gkey{false, "id"}, val: two}},
		{inner(), mop{kind: 's', key: gkey{false, "x"}, val: two}},
		{&gv{kind: 'A', arr: []*gv{one}}, mop{kind: 'a', idx: 0, val: two}},
	}
	for _, f := range fixed {
		r.mutationCase(f.v, []mop{f.op})
	}
	for k := 0; k < n; k++ {
		v0 := g.value(2+rng.Intn(3), "")
		if v0.kind != 'A' && v0.kind != 'H' {
			v0 = &gv{kind: 'H', tn: "hash", keys: []gkey{{false, "in"}}, vals: []*gv{h("hash", "x", v0)}}
		}
		// generate the changes against the evolving description
		top, ok := r.build(v0)
		if !ok {
			continue
		}
		cur, ok := fromSexp(top)
		if !ok {
			continue
		}
		var ops []mop
		nops := 1 + rng.Intn(4)
		for i := 0; i < nops; i++ {
			o, ok := g.randomOp(cur)
			if !ok || !r.apply(top, o) {
				break
			}
			ops = append(ops, o)
			if cur, ok = fromSexp(top); !ok {
				break
			}
		}
		if len(ops) > 0 {
			r.mutationCase(v0, ops)
		}
	}
}

var _ = zygo.SexpNull
