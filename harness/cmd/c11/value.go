// Value descriptions shared by the generator, the replay reader and the canonical renderer.
//
// Case-line grammar (tokens separated by single spaces, prefix notation):
//
//	value := N | T | F | I<dec> | D<sci 0/1>:<float64 bits, dec>:<hex of the printed token>:<hex of the token printed with Scientific=true>
//	       | S<cps> | R<cps> (a string from a raw backtick literal) | A<n> value*n | H<cps of the type name> <n> (key value)*n
//	key   := k<cps> (symbol key) | q<cps> (string key)
//	cps   := "" | cp(,cp)*      cp = hex code point, or "!" for one byte that is not valid UTF-8
//
// Observed values (after a round trip) use the same grammar with floats as D<bits>,
// symbol values as Y<cps> and anything else as ?<go type>.
package main

import (
	"fmt"
	"math"
	"strconv"
	"strings"
	"unicode/utf8"

	"github.com/glycerine/zygomys/v9/zygo"
)

type gkey struct {
	str  bool // string key (JSON-style literal) instead of a symbol key
	text string
}

type gv struct {
	kind byte // N B I D S A H
	b    bool
	i    int64
	f    float64
	sci  bool
	s    string
	raw  bool // the string came from a raw (backtick) source literal: SexpStr.backtick
	arr  []*gv
	tn   string
	keys []gkey
	vals []*gv
}

func cps(s string) string {
	var sb strings.Builder
	first := true
	for i := 0; i < len(s); {
		r, size := utf8.DecodeRuneInString(s[i:])
		if !first {
			sb.WriteByte(',')
		}
		first = false
		if r == utf8.RuneError && size == 1 {
			sb.WriteByte('!')
		} else {
			sb.WriteString(strconv.FormatInt(int64(r), 16))
		}
		i += size
	}
	return sb.String()
}

func hexs(b []byte) string {
	const d = "0123456789abcdef"
	out := make([]byte, 0, 2*len(b))
	for _, c := range b {
		out = append(out, d[c>>4], d[c&15])
	}
	return string(out)
}

// floatTok is the text the real printer gives for the float (strconv.FormatFloat behind
// SexpFloat.SexpString): the formatter is an oracle of the model.
func floatTok(f float64, sci bool) string {
	return (&zygo.SexpFloat{Val: f, Scientific: sci}).SexpString(nil)
}

func (v *gv) input(sb *strings.Builder) {
	switch v.kind {
	case 'N':
		sb.WriteString("N")
	case 'B':
		if v.b {
			sb.WriteString("T")
		} else {
			sb.WriteString("F")
		}
	case 'I':
		fmt.Fprintf(sb, "I%d", v.i)
	case 'D':
		s := 0
		if v.sci {
			s = 1
		}
		fmt.Fprintf(sb, "D%d:%d:%s:%s", s, math.Float64bits(v.f), hexs([]byte(floatTok(v.f, v.sci))), hexs([]byte(floatTok(v.f, true))))
	case 'S':
		if v.raw {
			sb.WriteString("R" + cps(v.s))
		} else {
			sb.WriteString("S" + cps(v.s))
		}
	case 'A':
		fmt.Fprintf(sb, "A%d", len(v.arr))
		for _, e := range v.arr {
			sb.WriteByte(' ')
			e.input(sb)
		}
	case 'H':
		fmt.Fprintf(sb, "H%s %d", cps(v.tn), len(v.keys))
		for i, k := range v.keys {
			if k.str {
				sb.WriteString(" q" + cps(k.text) + " ")
			} else {
				sb.WriteString(" k" + cps(k.text) + " ")
			}
			v.vals[i].input(sb)
		}
	}
}

func (v *gv) String() string {
	var sb strings.Builder
	v.input(&sb)
	return sb.String()
}

func (v *gv) size() int {
	n := 1 + len(v.s) + len(v.tn)
	for _, e := range v.arr {
		n += e.size()
	}
	for i, e := range v.vals {
		n += e.size() + len(v.keys[i].text) + 1
	}
	return n
}

func (v *gv) depth() int {
	d := 0
	for _, e := range v.arr {
		if x := e.depth(); x > d {
			d = x
		}
	}
	for _, e := range v.vals {
		if x := e.depth(); x > d {
			d = x
		}
	}
	return d + 1
}

// sexp builds the interpreter value through the Go API (not through the reader).
func (v *gv) sexp(env *zygo.Zlisp) (zygo.Sexp, error) {
	switch v.kind {
	case 'N':
		return zygo.SexpNull, nil
	case 'B':
		return &zygo.SexpBool{Val: v.b}, nil
	case 'I':
		return &zygo.SexpInt{Val: v.i}, nil
	case 'D':
		return &zygo.SexpFloat{Val: v.f, Scientific: v.sci}, nil
	case 'S':
		if v.raw {
			return rawString(env, v.s)
		}
		return &zygo.SexpStr{S: v.s}, nil
	case 'A':
		a := make([]zygo.Sexp, 0, len(v.arr))
		for _, e := range v.arr {
			x, err := e.sexp(env)
			if err != nil {
				return nil, err
			}
			a = append(a, x)
		}
		return &zygo.SexpArray{Val: a, Env: env}, nil
	case 'H':
		pairs := make([]zygo.Sexp, 0, 2*len(v.keys))
		for i, k := range v.keys {
			x, err := v.vals[i].sexp(env)
			if err != nil {
				return nil, err
			}
			if k.str {
				pairs = append(pairs, &zygo.SexpStr{S: k.text}, x)
			} else {
				pairs = append(pairs, env.MakeSymbol(k.text), x)
			}
		}
		return zygo.MakeHash(pairs, v.tn, env)
	}
	return nil, fmt.Errorf("bad kind %c", v.kind)
}

// isRaw: the string carries the parser's raw-literal flag (unexported; the printer shows it:
// a raw string prints between backticks, any other between double quotes).
func isRaw(s *zygo.SexpStr) bool {
	return strings.HasPrefix(s.SexpString(nil), "`")
}

// rawString makes a string the only way a raw one can be made: by reading a backtick literal.
func rawString(env *zygo.Zlisp, s string) (zygo.Sexp, error) {
	if strings.Contains(s, "`") {
		return nil, fmt.Errorf("a raw literal cannot contain a backtick")
	}
	x, err := env.EvalString("`" + s + "`")
	if err != nil {
		env.Clear()
		return nil, err
	}
	str, ok := x.(*zygo.SexpStr)
	if !ok || !isRaw(str) {
		return nil, fmt.Errorf("the literal did not read as a raw string")
	}
	return str, nil
}

// fromSexp reads a description off a real value (used for values built from source text).
// ok=false when the value holds something outside the modelled data (chars, symbols, int keys ...).
func fromSexp(x zygo.Sexp) (*gv, bool) {
	switch e := x.(type) {
	case *zygo.SexpSentinel:
		if e == zygo.SexpNull {
			return &gv{kind: 'N'}, true
		}
	case *zygo.SexpBool:
		return &gv{kind: 'B', b: e.Val}, true
	case *zygo.SexpInt:
		return &gv{kind: 'I', i: e.Val}, true
	case *zygo.SexpFloat:
		return &gv{kind: 'D', f: e.Val, sci: e.Scientific}, true
	case *zygo.SexpStr:
		return &gv{kind: 'S', s: e.S, raw: isRaw(e)}, true
	case *zygo.SexpArray:
		r := &gv{kind: 'A'}
		for _, y := range e.Val {
			g, ok := fromSexp(y)
			if !ok {
				return nil, false
			}
			r.arr = append(r.arr, g)
		}
		return r, true
	case *zygo.SexpHash:
		r := &gv{kind: 'H', tn: e.TypeName}
		if len(e.KeyOrder) != e.NumKeys {
			return nil, false
		}
		for _, k := range e.KeyOrder {
			val, err := e.HashGet(nil, k)
			if err != nil {
				return nil, false
			}
			g, ok := fromSexp(val)
			if !ok {
				return nil, false
			}
			switch kk := k.(type) {
			case *zygo.SexpSymbol:
				r.keys = append(r.keys, gkey{false, kk.SexpString(nil)})
			case *zygo.SexpStr:
				r.keys = append(r.keys, gkey{true, kk.S})
			default:
				return nil, false
			}
			r.vals = append(r.vals, g)
		}
		return r, true
	}
	return nil, false
}

// canon renders an observed value; corrupt=true when a hash lists a key it cannot deliver.
func canon(x zygo.Sexp, sb *strings.Builder) (corrupt bool) {
	switch e := x.(type) {
	case nil:
		sb.WriteString("?gonil")
	case *zygo.SexpSentinel:
		if e == zygo.SexpNull {
			sb.WriteString("N")
		} else {
			sb.WriteString("?sentinel")
		}
	case *zygo.SexpBool:
		if e.Val {
			sb.WriteString("T")
		} else {
			sb.WriteString("F")
		}
	case *zygo.SexpInt:
		fmt.Fprintf(sb, "I%d", e.Val)
	case *zygo.SexpFloat:
		if math.IsNaN(e.Val) {
			sb.WriteString("Dnan")
		} else {
			fmt.Fprintf(sb, "D%d", math.Float64bits(e.Val))
		}
	case *zygo.SexpStr:
		sb.WriteString("S" + cps(e.S))
	case *zygo.SexpSymbol:
		sb.WriteString("Y" + cps(e.SexpString(nil)))
	case *zygo.SexpArray:
		fmt.Fprintf(sb, "A%d", len(e.Val))
		for _, y := range e.Val {
			sb.WriteByte(' ')
			if canon(y, sb) {
				corrupt = true
			}
		}
	case *zygo.SexpHash:
		if len(e.KeyOrder) != e.NumKeys {
			corrupt = true
		}
		fmt.Fprintf(sb, "H%s %d", cps(e.TypeName), len(e.KeyOrder))
		for _, k := range e.KeyOrder {
			switch kk := k.(type) {
			case *zygo.SexpSymbol:
				sb.WriteString(" k" + cps(kk.SexpString(nil)) + " ")
			case *zygo.SexpStr:
				sb.WriteString(" q" + cps(kk.S) + " ")
			default:
				sb.WriteString(" ?key ")
			}
			val, err := safeGet(e, k)
			if err != nil {
				corrupt = true
				sb.WriteString("?missing")
			} else if canon(val, sb) {
				corrupt = true
			}
		}
	default:
		fmt.Fprintf(sb, "?%T", x)
	}
	return corrupt
}

func safeGet(h *zygo.SexpHash, k zygo.Sexp) (v zygo.Sexp, err error) {
	defer func() {
		if r := recover(); r != nil {
			err = fmt.Errorf("panic: %v", r)
		}
	}()
	return h.HashGet(nil, k)
}

// ---- reading the case-line grammar back (replay, shrinking works on gv directly) ----

func parseCps(s string) (string, error) {
	if s == "" {
		return "", nil
	}
	var out []byte
	for _, p := range strings.Split(s, ",") {
		if p == "!" {
			out = append(out, 0xff)
			continue
		}
		n, err := strconv.ParseInt(p, 16, 32)
		if err != nil {
			return "", err
		}
		out = utf8.AppendRune(out, rune(n))
	}
	return string(out), nil
}

func parseValue(toks []string, pos *int) (*gv, error) {
	if *pos >= len(toks) {
		return nil, fmt.Errorf("truncated")
	}
	t := toks[*pos]
	*pos++
	if t == "" {
		return nil, fmt.Errorf("empty token")
	}
	body := t[1:]
	switch t[0] {
	case 'N':
		return &gv{kind: 'N'}, nil
	case 'T':
		return &gv{kind: 'B', b: true}, nil
	case 'F':
		return &gv{kind: 'B', b: false}, nil
	case 'I':
		n, err := strconv.ParseInt(body, 10, 64)
		return &gv{kind: 'I', i: n}, err
	case 'D':
		p := strings.Split(body, ":")
		if len(p) < 2 {
			return nil, fmt.Errorf("bad float %q", t)
		}
		bits, err := strconv.ParseUint(p[1], 10, 64)
		return &gv{kind: 'D', sci: p[0] == "1", f: math.Float64frombits(bits)}, err
	case 'S', 'R':
		s, err := parseCps(body)
		return &gv{kind: 'S', s: s, raw: t[0] == 'R'}, err
	case 'A':
		n, err := strconv.Atoi(body)
		if err != nil {
			return nil, err
		}
		r := &gv{kind: 'A'}
		for i := 0; i < n; i++ {
			e, err := parseValue(toks, pos)
			if err != nil {
				return nil, err
			}
			r.arr = append(r.arr, e)
		}
		return r, nil
	case 'H':
		tn, err := parseCps(body)
		if err != nil || *pos >= len(toks) {
			return nil, fmt.Errorf("bad hash header")
		}
		n, err := strconv.Atoi(toks[*pos])
		*pos++
		if err != nil {
			return nil, err
		}
		r := &gv{kind: 'H', tn: tn}
		for i := 0; i < n; i++ {
			if *pos >= len(toks) || toks[*pos] == "" {
				return nil, fmt.Errorf("truncated hash")
			}
			kt := toks[*pos]
			*pos++
			text, err := parseCps(kt[1:])
			if err != nil {
				return nil, err
			}
			r.keys = append(r.keys, gkey{kt[0] == 'q', text})
			e, err := parseValue(toks, pos)
			if err != nil {
				return nil, err
			}
			r.vals = append(r.vals, e)
		}
		return r, nil
	}
	return nil, fmt.Errorf("bad token %q", t)
}
