// Value type, generator and canonical encodings for the C12 harness.
package main

import (
	"fmt"
	"math"
	"strconv"
	"strings"
	"unicode/utf8"

	"github.com/glycerine/zygomys/v9/zygo"
	"verif/harness/lib"
)

// V is a data value built through the Go API (never through source text).
type V struct {
	K     byte // I U F B N C S Y L A H
	I     int64
	U     uint64
	F     float64
	Sci   bool
	B     bool
	C     rune
	S     string // S: raw bytes (may be invalid UTF-8); Y: symbol name
	BT    bool   // S: the string carries the backtick flag (only values observed from scripts; not settable through the API)
	Items []*V   // L heads, A elements, H values
	Tail  *V     // L: tail (K=='N' for a proper list)
	Keys  []*V   // H: keys (S or Y)
	NoEnv bool   // A: the array does not carry its environment (SexpArray.Env == nil): it ignores env.Pretty
}

// ---------- to Sexp -----------------------------------------------------------

func (v *V) sexp(env *zygo.Zlisp) zygo.Sexp {
	switch v.K {
	case 'I':
		return &zygo.SexpInt{Val: v.I}
	case 'U':
		return &zygo.SexpUint64{Val: v.U}
	case 'F':
		return &zygo.SexpFloat{Val: v.F, Scientific: v.Sci}
	case 'B':
		return &zygo.SexpBool{Val: v.B}
	case 'N':
		return zygo.SexpNull
	case 'C':
		return &zygo.SexpChar{Val: v.C}
	case 'S':
		return &zygo.SexpStr{S: v.S}
	case 'Y':
		return env.MakeSymbol(v.S)
	case 'L':
		var tail zygo.Sexp = v.Tail.sexp(env)
		for i := len(v.Items) - 1; i >= 0; i-- {
			tail = zygo.Cons(v.Items[i].sexp(env), tail)
		}
		return tail
	case 'A':
		xs := make([]zygo.Sexp, len(v.Items))
		for i, x := range v.Items {
			xs[i] = x.sexp(env)
		}
		if v.NoEnv {
			return &zygo.SexpArray{Val: xs} // what a Go host program writing &SexpArray{} gets
		}
		return &zygo.SexpArray{Val: xs, Env: env}
	case 'H':
		var args []zygo.Sexp
		for i := range v.Keys {
			args = append(args, v.Keys[i].sexp(env), v.Items[i].sexp(env))
		}
		h, err := zygo.MakeHash(args, "hash", env)
		if err != nil {
			panic(err)
		}
		return h
	}
	panic("bad V")
}

// ---------- encodings ----------------------------------------------------------

// strItems renders the bytes of s: a valid rune as its code point, an invalid byte as -(byte).
func strItems(s string) []string {
	var out []string
	for i := 0; i < len(s); {
		r, w := utf8.DecodeRuneInString(s[i:])
		if r == utf8.RuneError && w <= 1 {
			out = append(out, strconv.Itoa(-int(s[i])))
			i++
			continue
		}
		out = append(out, strconv.Itoa(int(r)))
		i += w
	}
	return out
}

func encStr(tag string, s string) string {
	it := strItems(s)
	if len(it) == 0 {
		return tag + " 0"
	}
	return tag + " " + strconv.Itoa(len(it)) + " " + strings.Join(it, " ")
}

func floatCanon(f float64, sci bool) string {
	if math.IsNaN(f) {
		return "F nan 0"
	}
	if math.IsInf(f, 0) {
		return fmt.Sprintf("F %d 0", math.Float64bits(f))
	}
	return fmt.Sprintf("F %d %d", math.Float64bits(f), b2i(sci))
}

func b2i(b bool) int {
	if b {
		return 1
	}
	return 0
}

// fmtTok is the formatter oracle: the token strconv.FormatFloat produces for the value.
func fmtTok(f float64, sci bool) string {
	if sci {
		return strconv.FormatFloat(f, 'e', -1, 64)
	}
	return strconv.FormatFloat(f, 'f', -1, 64)
}

func parseBits(s string) string {
	f, err := strconv.ParseFloat(s, 64)
	if err != nil {
		return "err"
	}
	if math.IsNaN(f) {
		return "nan"
	}
	return strconv.FormatUint(math.Float64bits(f), 10)
}

// canon: the canonical form of the value (what the property compares).
// input=true adds the float oracle data the model runner needs:
//
//	F bits sci  n tok.. pbits     tok = the strconv.FormatFloat token, pbits = strconv.ParseFloat of the
//	                              text the REAL printer wrote for this float (bits | nan | err)
func (v *V) canon(input bool) string {
	switch v.K {
	case 'I':
		return "I " + strconv.FormatInt(v.I, 10)
	case 'U':
		return "U " + strconv.FormatUint(v.U, 10)
	case 'F':
		if !input {
			return floatCanon(v.F, v.Sci)
		}
		bits := strconv.FormatUint(math.Float64bits(v.F), 10)
		real := (&zygo.SexpFloat{Val: v.F, Scientific: v.Sci}).SexpString(nil)
		return fmt.Sprintf("F %s %d %s %s", bits, b2i(v.Sci), encStr("", fmtTok(v.F, v.Sci))[1:], parseBits(real))
	case 'B':
		return "B " + strconv.Itoa(b2i(v.B))
	case 'N':
		return "N"
	case 'C':
		return "C " + strconv.Itoa(int(v.C))
	case 'S':
		if v.BT && input {
			return encStr("T", v.S)
		}
		return encStr("S", v.S)
	case 'Y':
		return encStr("Y", v.S)
	case 'L':
		var sb strings.Builder
		fmt.Fprintf(&sb, "L %d", len(v.Items))
		for _, x := range v.Items {
			sb.WriteString(" " + x.canon(input))
		}
		sb.WriteString(" " + v.Tail.canon(input))
		return sb.String()
	case 'A':
		var sb strings.Builder
		if v.NoEnv && input {
			fmt.Fprintf(&sb, "a %d", len(v.Items))
		} else {
			fmt.Fprintf(&sb, "A %d", len(v.Items))
		}
		for _, x := range v.Items {
			sb.WriteString(" " + x.canon(input))
		}
		return sb.String()
	case 'H':
		var sb strings.Builder
		fmt.Fprintf(&sb, "H %d", len(v.Items))
		for i := range v.Items {
			sb.WriteString(" " + v.Keys[i].canon(input) + " " + v.Items[i].canon(input))
		}
		return sb.String()
	}
	return "X"
}

// canonSexp: the same canonical form for a value of the real interpreter.
func canonSexp(x zygo.Sexp, depth int) string {
	if depth > 200 {
		return "X deep"
	}
	switch t := x.(type) {
	case nil:
		return "X gonil"
	case *zygo.SexpInt:
		return "I " + strconv.FormatInt(t.Val, 10)
	case *zygo.SexpUint64:
		return "U " + strconv.FormatUint(t.Val, 10)
	case *zygo.SexpFloat:
		return floatCanon(t.Val, t.Scientific)
	case *zygo.SexpBool:
		return "B " + strconv.Itoa(b2i(t.Val))
	case *zygo.SexpSentinel:
		if t == zygo.SexpNull {
			return "N"
		}
		return "X sentinel"
	case *zygo.SexpChar:
		return "C " + strconv.Itoa(int(t.Val))
	case *zygo.SexpStr:
		return encStr("S", t.S)
	case *zygo.SexpSymbol:
		return encStr("Y", t.Name())
	case *zygo.SexpPair:
		var items []string
		var cur zygo.Sexp = t
		for {
			p, ok := cur.(*zygo.SexpPair)
			if !ok {
				break
			}
			items = append(items, canonSexp(p.Head, depth+1))
			cur = p.Tail
		}
		return fmt.Sprintf("L %d %s %s", len(items), strings.Join(items, " "), canonSexp(cur, depth+1))
	case *zygo.SexpArray:
		var sb strings.Builder
		fmt.Fprintf(&sb, "A %d", len(t.Val))
		for _, e := range t.Val {
			sb.WriteString(" " + canonSexp(e, depth+1))
		}
		return sb.String()
	case *zygo.SexpHash:
		if t.TypeName != "hash" {
			return "X record"
		}
		var sb strings.Builder
		n := 0
		for _, k := range t.KeyOrder {
			val, err := t.HashGet(nil, k)
			if err != nil {
				continue
			}
			n++
			sb.WriteString(" " + canonSexp(k, depth+1) + " " + canonSexp(val, depth+1))
		}
		return fmt.Sprintf("H %d%s", n, sb.String())
	}
	return fmt.Sprintf("X %T", x)
}

// printedItems renders printed bytes for the correspondence with the model's print.
func printedItems(s string) string {
	it := strItems(s)
	if len(it) == 0 {
		return "-"
	}
	return strings.Join(it, ",")
}

// ---------- generator ------------------------------------------------------------

var advRunes = []rune{'"', '\\', '\'', '`', '\n', '\t', '\r', 0, 1, 7, 8, 11, 12, 0x1b, 0x1f, 0x7f, 0x80, 0x85, 0xa0, 0xad,
	0x2028, 0x2029, 0xfeff, 0xfffd, 0xfffe, 0xffff, 0x301, 0x200d, 0x1f600, 0x1f468, 0xe9, 0x3bb, 0x4e2d, 0x10ffff, 0xe000, 0xd7ff,
	'#', ':', ';', '%', '^', '~', '@', '(', ')', '[', ']', '{', '}', ' ', '/', '*', '-', '+', '.', ',', '&', '|', '$', '?', '!', '=', '<', '>'}

func genRune(r *lib.Rng) rune {
	switch r.Intn(10) {
	case 0, 1, 2:
		return advRunes[r.Intn(len(advRunes))]
	case 3, 4, 5:
		return rune(32 + r.Intn(95))
	case 6:
		return rune(r.Intn(0x100))
	case 7:
		return rune(r.Intn(0x3000))
	}
	for {
		c := rune(r.Intn(0x110000))
		if c < 0xd800 || c > 0xdfff {
			return c
		}
	}
}

func genString(r *lib.Rng) string {
	n := r.Intn(7)
	if r.Intn(8) == 0 {
		n = 8 + r.Intn(16)
	}
	var sb strings.Builder
	for i := 0; i < n; i++ {
		if r.Intn(14) == 0 { // an invalid byte
			sb.WriteByte(byte(0x80 + r.Intn(0x80)))
			continue
		}
		sb.WriteRune(genRune(r))
	}
	return sb.String()
}

// symbol alphabets
const symFirst = "abcxyzABCZ_$"
const symBody = "abcxyzABCZ_$019"

var symOdd = []rune{'.', '!', '?', '<', '>', '=', '+', '/', 0xe9, 0x3bb, 0x1f600, '$', '-', '*', 0xa0, 0x2028}

// genSymbol: mode 0 = plain identifier; 1 = over the characters SymbolRegex allows (may contain
// operator characters that the lexer splits); 2 = any name (no printed syntax can protect it)
var symAffixes = []string{"true", "false", "nil", "NaN", "nan", "Inf", "inf", "for", "hash", "e", "x"}

func genSymbol(r *lib.Rng, mode int) string {
	s := genSymbolPlain(r, mode)
	if r.Intn(12) == 0 { // a reserved word as prefix or suffix of a longer name
		a := symAffixes[r.Intn(len(symAffixes))]
		if r.Bool() {
			return a + s
		}
		return s + a
	}
	return s
}

func genSymbolPlain(r *lib.Rng, mode int) string {
	var sb strings.Builder
	sb.WriteByte(symFirst[r.Intn(len(symFirst))])
	n := r.Intn(5)
	for i := 0; i < n; i++ {
		switch {
		case mode >= 1 && r.Intn(3) == 0:
			sb.WriteRune(symOdd[r.Intn(len(symOdd))])
		case mode == 2 && r.Intn(3) == 0:
			sb.WriteRune(genRune(r))
		default:
			sb.WriteByte(symBody[r.Intn(len(symBody))])
		}
	}
	return sb.String()
}

var floatSpecials = []float64{0, math.Copysign(0, -1), 1, -1, 0.1 + 0.2, 1.0 / 3, 2.0 / 3, 1e21, 1e20, 1e22, 123456789012345678, 5e-324, -5e-324,
	math.MaxFloat64, -math.MaxFloat64, math.SmallestNonzeroFloat64, 2.2250738585072014e-308, 2.225073858507201e-308, math.Inf(1), math.Inf(-1), math.NaN(),
	1e15, 1e16, 1e17, 9007199254740992, 9007199254740993, 0.5, -0.5, 1e-7, 1e-5, 100, 1e6, 3, -3, 4.35, 0.000001, 1e23, 8.41e21, 1.7976931348623157e308,
	4.9e-324, 1e-320, 3 * 1e25, 7 * 1e-9, 2 * 1e300, 4 * 1e-300, 6e21, 9e-7, 1e100, 5e-5, float64(math.MaxInt64), -float64(math.MaxInt64), 1 << 53, 0.30000000000000004, 2.5e-10}

func genFloat(r *lib.Rng) float64 {
	switch r.Intn(8) {
	case 0, 1:
		return floatSpecials[r.Intn(len(floatSpecials))]
	case 2: // arithmetic results
		a := float64(r.Intn(1000)) / float64(1+r.Intn(1000))
		b := float64(r.Intn(100000)) * math.Pow(10, float64(r.Intn(40)-20))
		switch r.Intn(4) {
		case 0:
			return a + b
		case 1:
			return a * b
		case 2:
			return a - b
		}
		return a / (b + 1)
	case 3: // integral
		return float64(int64(r.U64()) >> uint(r.Intn(64)))
	case 4: // decimal-looking
		return float64(r.Intn(100000)) / math.Pow(10, float64(r.Intn(8)))
	}
	for { // any bit pattern
		f := math.Float64frombits(r.U64())
		if !math.IsNaN(f) {
			return f
		}
	}
}

var intSpecials = []int64{0, 1, -1, 9, 10, -10, 255, 256, math.MaxInt64, math.MinInt64, math.MaxInt64 - 1, math.MinInt64 + 1, math.MaxInt32, math.MinInt32, 1 << 53, -(1 << 53), 1000000, 99999999999}
var uintSpecials = []uint64{0, 1, 9, 10, 255, math.MaxUint64, math.MaxUint64 - 1, 1 << 63, 1<<63 - 1, 1 << 32, 18446744073709551615, 10000000000000000000}

type genOpt struct {
	jsonlike bool // numbers, strings, booleans, nil, arrays, hashes only
	symMode  int
	noNil    bool
	hashes   bool // hashes may occur (always with jsonlike)
}

// isJSONLike: built from numbers, strings, booleans, nil, arrays and hashes only
func (v *V) isJSONLike() bool {
	ok := true
	v.walk(func(x *V) {
		switch x.K {
		case 'C', 'L':
			ok = false
		}
	})
	if !ok {
		return false
	}
	var rec func(x *V) bool
	rec = func(x *V) bool {
		switch x.K {
		case 'Y', 'C', 'L':
			return false
		}
		for _, e := range x.Items {
			if !rec(e) {
				return false
			}
		}
		return true
	}
	return rec(v)
}

func (v *V) hasHash() bool {
	h := false
	v.walk(func(x *V) {
		if x.K == 'H' {
			h = true
		}
	})
	return h
}

func genAtom(r *lib.Rng, o genOpt) *V {
	k := r.Intn(12)
	if o.jsonlike {
		k = []int{0, 0, 2, 2, 4, 5, 7, 7, 7, 1, 4, 5}[k]
	}
	switch k {
	case 0:
		if r.Intn(3) == 0 {
			return &V{K: 'I', I: intSpecials[r.Intn(len(intSpecials))]}
		}
		return &V{K: 'I', I: int64(r.U64()) >> uint(r.Intn(64))}
	case 1:
		if r.Intn(3) == 0 {
			return &V{K: 'U', U: uintSpecials[r.Intn(len(uintSpecials))]}
		}
		return &V{K: 'U', U: r.U64() >> uint(r.Intn(64))}
	case 2, 3:
		return &V{K: 'F', F: genFloat(r), Sci: r.Intn(4) == 0}
	case 4:
		return &V{K: 'B', B: r.Bool()}
	case 5:
		if o.noNil {
			return &V{K: 'I', I: 0}
		}
		return &V{K: 'N'}
	case 6:
		return &V{K: 'C', C: genRune(r)}
	case 7, 8:
		return &V{K: 'S', S: genString(r)}
	}
	return &V{K: 'Y', S: genSymbol(r, o.symMode)}
}

func genValue(r *lib.Rng, depth int, o genOpt) *V {
	if depth <= 0 || r.Intn(3) == 0 {
		return genAtom(r, o)
	}
	n := r.Intn(5)
	kind := r.Intn(3)
	if o.jsonlike && kind == 0 {
		kind = 1
	}
	if kind == 2 && !o.jsonlike && !o.hashes {
		kind = r.Intn(2)
	}
	switch kind {
	case 0:
		if n == 0 {
			n = 1
		}
		v := &V{K: 'L', Tail: &V{K: 'N'}}
		for i := 0; i < n; i++ {
			v.Items = append(v.Items, genValue(r, depth-1, o))
		}
		if r.Intn(6) == 0 {
			t := genAtom(r, o)
			if t.K == 'N' {
				t = &V{K: 'I', I: 7}
			}
			v.Tail = t
		}
		return v
	case 1:
		v := &V{K: 'A'}
		for i := 0; i < n; i++ {
			v.Items = append(v.Items, genValue(r, depth-1, o))
		}
		return v
	}
	v := &V{K: 'H'}
	seen := map[string]bool{}
	for i := 0; i < n; i++ {
		var k *V
		if r.Intn(2) == 0 {
			k = &V{K: 'Y', S: genSymbol(r, 0)}
		} else if r.Intn(4) == 0 {
			k = &V{K: 'S', S: genString(r)}
		} else {
			k = &V{K: 'S', S: genSymbol(r, 0) + []string{"", " x", "-y", "1", "\\", "\\n", "a\\\\b", "\"q"}[r.Intn(8)]}
		}
		if seen[k.S] {
			continue
		}
		seen[k.S] = true
		v.Keys = append(v.Keys, k)
		v.Items = append(v.Items, genValue(r, depth-1, o))
	}
	return v
}

// features of a value, for classification of failures and for the distribution
func (v *V) walk(f func(*V)) {
	f(v)
	for _, x := range v.Items {
		x.walk(f)
	}
	for _, x := range v.Keys {
		x.walk(f)
	}
	if v.Tail != nil {
		v.Tail.walk(f)
	}
}

func (v *V) size() int {
	n := 0
	v.walk(func(*V) { n++ })
	return n
}

func (v *V) depth() int {
	d := 0
	for _, x := range v.Items {
		if e := x.depth(); e > d {
			d = e
		}
	}
	if v.K == 'L' || v.K == 'A' || v.K == 'H' {
		return d + 1
	}
	return 0
}
