// Hashes built by a HISTORY of hset / hdel (not by a literal): the printed text must still denote the
// live hash. Includes string keys whose 32-bit FNV-1 codes collide (the bucket index of SexpHash).
package main

import (
	"fmt"
	"hash/fnv"
	"sort"
	"strings"

	"github.com/glycerine/zygomys/v9/zygo"
	"verif/harness/lib"
)

func fnv1(s string) uint32 {
	h := fnv.New32()
	h.Write([]byte(s))
	return h.Sum32()
}

// collidingPairs finds pairs of short plain strings with the same FNV-1/32 code (deterministic).
func collidingPairs(want int) [][2]string {
	seen := map[uint32]string{}
	var out [][2]string
	for i := 0; i < 400000 && len(out) < want; i++ {
		for _, pre := range []string{"item", "key"} {
			s := fmt.Sprintf("%s%d", pre, i)
			c := fnv1(s)
			if o, ok := seen[c]; ok && o != s {
				out = append(out, [2]string{o, s})
			} else {
				seen[c] = s
			}
		}
	}
	return out
}

type hop struct {
	del bool
	k   *V
	v   *V
}

func (o hop) enc() string {
	if o.del {
		return "D " + o.k.canon(true)
	}
	return "P " + o.k.canon(true) + " " + o.v.canon(true)
}

// the abstract map of a history: keys in order of first insertion
func applyHistory(ops []hop) *V {
	h := &V{K: 'H'}
	find := func(k *V) int {
		for i, x := range h.Keys {
			if x.K == k.K && x.S == k.S {
				return i
			}
		}
		return -1
	}
	for _, o := range ops {
		i := find(o.k)
		switch {
		case o.del && i >= 0:
			h.Keys = append(h.Keys[:i:i], h.Keys[i+1:]...)
			h.Items = append(h.Items[:i:i], h.Items[i+1:]...)
		case !o.del && i >= 0:
			h.Items[i] = o.v
		case !o.del:
			h.Keys = append(h.Keys, o.k)
			h.Items = append(h.Items, o.v)
		}
	}
	return h
}

// content of a hash as a set: sorted "key value" pairs and the number of keys
func sortedContent(x zygo.Sexp) string {
	h, ok := x.(*zygo.SexpHash)
	if !ok {
		return "NOTHASH " + canonSexp(x, 0)
	}
	var kv []string
	for _, k := range h.KeyOrder {
		v, err := h.HashGet(nil, k)
		if err != nil {
			continue
		}
		kv = append(kv, canonSexp(k, 0)+" = "+canonSexp(v, 0))
	}
	sort.Strings(kv)
	return fmt.Sprintf("n=%d len=%d {%s}", len(kv), h.NumKeys, strings.Join(kv, " ; "))
}

func abstractContent(a *V) string {
	var kv []string
	for i := range a.Keys {
		kv = append(kv, a.Keys[i].canon(false)+" = "+a.Items[i].canon(false))
	}
	sort.Strings(kv)
	return fmt.Sprintf("n=%d len=%d {%s}", len(kv), len(kv), strings.Join(kv, " ; "))
}

// liveContent looks every key of the abstract map up in the live hash (independent of KeyOrder)
func liveContent(h *zygo.SexpHash, a *V, env *zygo.Zlisp) string {
	var kv []string
	for i := range a.Keys {
		v, err := h.HashGet(nil, a.Keys[i].sexp(env))
		if err != nil {
			kv = append(kv, a.Keys[i].canon(false)+" = MISSING")
			continue
		}
		kv = append(kv, a.Keys[i].canon(false)+" = "+canonSexp(v, 0))
	}
	sort.Strings(kv)
	return fmt.Sprintf("n=%d len=%d {%s}", len(kv), h.NumKeys, strings.Join(kv, " ; "))
}

func histCase(env *zygo.Zlisp, ops []hop, tags ...string) {
	abs := applyHistory(ops)
	var live *zygo.SexpHash
	res := guard(func() string {
		h, err := zygo.MakeHash(nil, "hash", env)
		if err != nil {
			return "ERR"
		}
		for _, o := range ops {
			if o.del {
				h.HashDelete(o.k.sexp(env)) // deleting an absent key is an error we ignore, like (hdel h k) in a script would report
			} else if err := h.HashSet(o.k.sexp(env), o.v.sexp(env)); err != nil {
				return "ERR"
			}
		}
		live = h
		return "ok"
	})
	enc := make([]string, len(ops))
	for i, o := range ops {
		enc[i] = o.enc()
	}
	input := fmt.Sprintf("hist %d %s", len(ops), strings.Join(enc, " "))
	if res != "ok" {
		out.Case(input, "B="+res, true, tags...)
		return
	}
	printed := ""
	p := guard(func() string {
		r, err := zygo.StringifyFunction(env, "str", []zygo.Sexp{live})
		if err != nil {
			return "ERR"
		}
		printed = r.(*zygo.SexpStr).S
		return printedItems(printed)
	})
	lv := guard(func() string { return liveContent(live, abs, env) })
	ev := guard(func() string {
		r := lib.Eval(env, printed, 200000)
		if r.Class != lib.OutValue {
			return strings.ToUpper(r.Class)
		}
		return sortedContent(r.Val)
	})
	env.Clear()
	out.Case(input, "P="+p+" ;; LV="+lv+" ;; E="+ev+" ;; W="+abstractContent(abs), true, tags...)
}

func histStream(rng *lib.Rng, n int) {
	env := zygo.NewZlisp()
	env.StandardSetup()
	pairs := collidingPairs(12)
	out.Extra["fnv_colliding_pairs"] = len(pairs)
	str := func(s string) *V { return &V{K: 'S', S: s} }
	val := func(i int) *V { return &V{K: 'I', I: int64(i)} }
	// every order of inserting / deleting the two keys of a colliding pair, with a bystander key
	for _, pr := range pairs {
		a, b, c := str(pr[0]), str(pr[1]), str("other")
		for _, ops := range [][]hop{
			{{k: a, v: val(1)}, {k: b, v: val(2)}, {del: true, k: b}},
			{{k: a, v: val(1)}, {k: b, v: val(2)}, {del: true, k: a}},
			{{k: c, v: val(0)}, {k: a, v: val(1)}, {k: b, v: val(2)}, {del: true, k: b}, {k: b, v: val(3)}},
			{{k: a, v: val(1)}, {k: c, v: val(0)}, {k: b, v: val(2)}, {del: true, k: a}, {del: true, k: c}},
			{{k: a, v: val(1)}, {k: b, v: val(2)}, {del: true, k: a}, {del: true, k: b}},
			{{k: a, v: val(1)}, {k: b, v: val(2)}, {k: a, v: val(5)}, {del: true, k: b}, {k: b, v: str("x")}, {del: true, k: a}},
		} {
			histCase(env, ops, "stream:hist", "hist:colliding-grid")
		}
	}
	// random histories over a small key pool that contains colliding keys, plain strings and symbols
	for i := 0; i < n; i++ {
		var pool []*V
		for j := 0; j < 1+rng.Intn(3) && len(pairs) > 0; j++ {
			pr := pairs[rng.Intn(len(pairs))]
			pool = append(pool, str(pr[0]), str(pr[1]))
		}
		for j := 0; j < 1+rng.Intn(4); j++ {
			if rng.Bool() {
				pool = append(pool, str(genSymbol(rng, 0)))
			} else {
				pool = append(pool, &V{K: 'Y', S: genSymbol(rng, 0)})
			}
		}
		var ops []hop
		for j := 0; j < 2+rng.Intn(10); j++ {
			k := pool[rng.Intn(len(pool))]
			if rng.Intn(3) == 0 {
				ops = append(ops, hop{del: true, k: k})
			} else {
				var v *V
				switch rng.Intn(4) {
				case 0:
					v = str(genSymbol(rng, 0))
				case 1:
					v = &V{K: 'A', Items: []*V{val(j), {K: 'B', B: rng.Bool()}}}
				default:
					v = val(rng.Intn(1000))
				}
				ops = append(ops, hop{k: k, v: v})
			}
		}
		histCase(env, ops, "stream:hist", "hist:random")
	}
}
