// c12: printed data reads back as the same data.
//
// Case kinds written to the cases file (ID<TAB>INPUT<TAB>IMPL):
//
//	isprint R               strconv.IsPrint as ranges lo-hi,... (sets the oracle table of the model runner)
//	qr LO HI                md5 over strconv.Quote(string(r)) and strconv.QuoteRune(r) for every scalar value r in [LO,HI]
//	qs STR                  strconv.Quote of a string (items: code point | -(invalid byte))
//	val J VALUE             J=1 JSON-like. the value is built through the Go API; IMPL:
//	                        P=<printed bytes> ;; R=<status + canonical forms of the parse of P> ;; E=<canonical form of
//	                        EvalString(P) | -> ;; S=<canonical form of (source file-with-P) | ->
//	lit SPELLING PF         a numeric-literal spelling; PF = strconv.ParseFloat of the spelling without underscores
//	                        (bits | nan | err: the float-parsing oracle); IMPL: V=<what the real reader makes of it> ;; REF=<math/big value>
//	hist N OPS              a hash built by N operations (P key value | D key) through HashSet / HashDelete; IMPL: P=<printed> ;;
//	                        LV=<every key of the abstract map looked up in the live hash> ;; E=<content of EvalString(P)> ;; W=<abstract map>
//	scr J N EXPR VALUE      the value of the script expression EXPR (N runes), observed as VALUE (T = a string with the backtick flag); IMPL as for val
//	orc TEXT                a contract of the trusted strconv oracles checked here: IMPL ok | bad
package main

import (
	"crypto/md5"
	"fmt"
	"io"
	"sort"
	"math"
	"math/big"
	"os"
	"path/filepath"
	"strconv"
	"strings"
	"time"
	"unicode/utf8"

	"github.com/glycerine/zygomys/v9/zygo"
	"verif/harness/lib"
)

var out *lib.Out

// ---------- strconv.Quote / IsPrint validation -------------------------------------

func isPrintRanges() string {
	var sb strings.Builder
	start := -1
	for c := 0; c <= 0x110000; c++ {
		p := c < 0x110000 && strconv.IsPrint(rune(c))
		if p && start < 0 {
			start = c
		}
		if !p && start >= 0 {
			if sb.Len() > 0 {
				sb.WriteByte(',')
			}
			fmt.Fprintf(&sb, "%d-%d", start, c-1)
			start = -1
		}
	}
	return sb.String()
}

func quoteStream(rng *lib.Rng, nStrings int, all bool, seed uint64) {
	out.Case("isprint "+isPrintRanges(), "ok", false, "quote:isprint-table")
	const chunk = 8192
	for lo := 0; lo < 0x110000; lo += chunk {
		hi := lo + chunk - 1
		// quick tier: the planes with assigned characters exhaustively, the rest sampled (one chunk in eight, chosen by the seed)
		if !all && lo >= 0x40000 && lo != 0xe0000 && uint64(lo/chunk)%8 != seed%8 {
			continue
		}
		h := md5.New()
		for c := lo; c <= hi; c++ {
			if c >= 0xd800 && c <= 0xdfff {
				continue
			}
			h.Write([]byte(strconv.Quote(string(rune(c)))))
			h.Write([]byte{10})
			h.Write([]byte(strconv.QuoteRune(rune(c))))
			h.Write([]byte{10})
		}
		out.Case(fmt.Sprintf("qr %d %d", lo, hi), fmt.Sprintf("%x", h.Sum(nil)), lo < 0x3000, "quote:rune-chunk")
	}
	for i := 0; i < nStrings; i++ {
		s := genString(rng)
		out.Case(encStr("qs", s), printedItems(strconv.Quote(s)), true, "quote:string")
	}
	for b := 0x80; b < 0x100; b++ {
		s := string([]byte{byte(b)})
		out.Case(encStr("qs", s), printedItems(strconv.Quote(s)), true, "quote:invalid-byte")
	}
}

// ---------- values --------------------------------------------------------------------

func guard(f func() string) (res string) {
	defer func() {
		if r := recover(); r != nil {
			res = "PANIC"
		}
	}()
	return f()
}

var tmpdir string

func valCase(env *zygo.Zlisp, v *V, jsonlike bool, withSource bool, tags ...string) {
	valCaseSexp(env, v, v.sexp(env), "val", "", jsonlike, withSource, tags...)
}

// ptyCase: the value printed under env.Pretty = true (the builtin (pretty true)): one element / pair per line
func ptyCase(env *zygo.Zlisp, v *V, jsonlike bool, withSource bool, tags ...string) {
	valCaseSexp(env, v, v.sexp(env), "pty", "", jsonlike, withSource, tags...)
}

// cuts of the next case: set by replay, otherwise drawn from cutRng
var cutRng *lib.Rng
var forcedCuts []int
var haveForcedCuts bool

func cutsString(c []int) string {
	if len(c) == 0 {
		return "-"
	}
	p := make([]string, len(c))
	for i, x := range c {
		p[i] = strconv.Itoa(x)
	}
	return strings.Join(p, ",")
}

// piecesRoute: the printed text handed to the parser in pieces through the Go API
// (ResetAddNewInput, NewInput ..., the last piece marked WholeText), cut at the given rune offsets
func piecesRoute(env *zygo.Zlisp, printed string, cuts []int) string {
	rs := []rune(printed)
	var pieces []string
	prev := 0
	for _, c := range cuts {
		if c < prev {
			c = prev
		}
		if c > len(rs) {
			c = len(rs)
		}
		pieces = append(pieces, string(rs[prev:c]))
		prev = c
	}
	pieces = append(pieces, string(rs[prev:]))
	return guard(func() string {
		ps := env.VerifParser()
		var ex []zygo.Sexp
		var err error
		for i, pc := range pieces {
			var in interface {
				ReadRune() (rune, int, error)
				UnreadRune() error
			} = strings.NewReader(pc)
			if i == len(pieces)-1 {
				in = zygo.WholeText(strings.NewReader(pc))
			}
			if i == 0 {
				ps.ResetAddNewInput(in)
			} else {
				ps.NewInput(in)
			}
			ex, err = ps.ParseTokens()
			if err != nil && err != zygo.ErrMoreInputNeeded {
				break
			}
		}
		st := "D"
		if err == zygo.ErrMoreInputNeeded {
			st = "M"
		} else if err != nil {
			st = "E"
		}
		var sb strings.Builder
		sb.WriteString(st)
		for _, x := range ex {
			sb.WriteString(" | " + canonSexp(x, 0))
		}
		return sb.String()
	})
}

// valCaseSexp: v describes sx (sx may be a live value computed by a script, e.g. with the backtick flag)
func valCaseSexp(env *zygo.Zlisp, v *V, sx zygo.Sexp, prefix, extra string, jsonlike bool, withSource bool, tags ...string) {
	if jsonlike && !v.isJSONLike() {
		jsonlike = false
	}
	if prefix == "pty" || prefix == "pts" {
		env.Pretty = true // what SetPrettyPrintFlag does for (pretty true)
		defer func() { env.Pretty = false }()
	}
	printed := ""
	p := guard(func() string {
		r, err := zygo.StringifyFunction(env, "str", []zygo.Sexp{sx})
		if err != nil {
			return "ERR"
		}
		printed = r.(*zygo.SexpStr).S
		return printedItems(printed)
	})
	rd := guard(func() string {
		ps := env.VerifParser()
		ps.ResetAddNewInput(zygo.WholeText(strings.NewReader(printed)))
		ex, err := ps.ParseTokens()
		st := "D"
		if err == zygo.ErrMoreInputNeeded {
			st = "M"
		} else if err != nil {
			st = "E"
		}
		var sb strings.Builder
		sb.WriteString(st)
		for _, x := range ex {
			sb.WriteString(" | " + canonSexp(x, 0))
		}
		return sb.String()
	})
	// the printed text delivered in pieces cut anywhere (also inside atoms)
	var cuts []int
	if haveForcedCuts {
		cuts = forcedCuts
	} else if n := len([]rune(printed)); n >= 2 && cutRng != nil {
		k := 1 + cutRng.Intn(3)
		seen := map[int]bool{}
		for i := 0; i < k; i++ {
			c := 1 + cutRng.Intn(n-1)
			if !seen[c] {
				seen[c] = true
				cuts = append(cuts, c)
			}
		}
		sort.Ints(cuts)
	}
	pcs := piecesRoute(env, printed, cuts)
	// the REPL front end: the printed text typed at the prompt, line by line
	rp := guard(func() string {
		savedOut := os.Stdout
		if null, err := os.OpenFile(os.DevNull, os.O_WRONLY, 0); err == nil {
			os.Stdout = null // the reader prints prompts
			defer func() { os.Stdout = savedOut; null.Close() }()
		}
		_, ex, err := zygo.VerifReplEntry(env, printed+"\n")
		st := "D"
		if err == zygo.ErrMoreInputNeeded || err == io.EOF {
			st = "M"
		} else if err != nil {
			st = "E"
		}
		var sb strings.Builder
		sb.WriteString(st)
		for _, x := range ex {
			sb.WriteString(" | " + canonSexp(x, 0))
		}
		return sb.String()
	})
	ev, src, saved, wfile := "-", "-", "-", "-"
	if jsonlike {
		ev = guard(func() string {
			r := lib.Eval(env, printed, 200000)
			if r.Class != lib.OutValue {
				return strings.ToUpper(r.Class)
			}
			return canonSexp(r.Val, 0)
		})
		if withSource {
			src = guard(func() string {
				fn := filepath.Join(tmpdir, "v.zy")
				if err := os.WriteFile(fn, []byte(printed), 0644); err != nil {
					return "IOERR"
				}
				env.AddGlobal("c12file", &zygo.SexpStr{S: fn})
				r := lib.Eval(env, "(source c12file)", 200000)
				if r.Class != lib.OutValue {
					return strings.ToUpper(r.Class)
				}
				return canonSexp(r.Val, 0)
			})
			// the script-level save: (owritef v path) then (source path); strings and arrays are written
			// as their content / as lines by design, so only other values are saved whole
			if v.K != 'S' && v.K != 'A' {
				saved = guard(func() string {
					fn := filepath.Join(tmpdir, "w.zy")
					if _, err := zygo.WriteToFileFunction("owritef")(env, "owritef", []zygo.Sexp{sx, &zygo.SexpStr{S: fn}}); err != nil {
						return "WRITEERR"
					}
					b, err := os.ReadFile(fn)
					if err != nil {
						return "IOERR"
					}
					wfile = printedItems(string(b))
					env.AddGlobal("c12file", &zygo.SexpStr{S: fn})
					r := lib.Eval(env, "(source c12file)", 200000)
					if r.Class != lib.OutValue {
						return strings.ToUpper(r.Class)
					}
					return canonSexp(r.Val, 0)
				})
			}
		}
	}
	env.Clear()
	j := "0"
	if jsonlike {
		j = "1"
	} else if v.hasHash() {
		j = "2" // a hash outside the JSON-like fragment: the property is silent, correspondence only
	}
	impl := "P=" + p + " ;; R=" + rd + " ;; RP=" + rp + " ;; PC=" + pcs + " ;; E=" + ev + " ;; S=" + src + " ;; SV=" + saved + " ;; W=" + wfile
	out.Case(prefix+" "+j+" "+cutsString(cuts)+" "+extra+v.canon(true), impl, true, tags...)
}

func valTags(v *V, prefix string) []string {
	set := map[string]bool{}
	v.walk(func(x *V) {
		switch x.K {
		case 'I':
			set["int"] = true
		case 'U':
			set["uint64"] = true
		case 'F':
			set["float"] = true
			if x.Sci {
				set["float-sci"] = true
			}
		case 'C':
			set["char"] = true
		case 'S':
			set["string"] = true
			if !utf8.ValidString(x.S) {
				set["string-invalid-utf8"] = true
			}
		case 'Y':
			set["symbol"] = true
		case 'L':
			set["list"] = true
			if x.Tail.K != 'N' {
				set["dotted"] = true
			}
		case 'A':
			set["array"] = true
		case 'H':
			set["hash"] = true
		case 'N':
			set["nil"] = true
		case 'B':
			set["bool"] = true
		}
	})
	tags := []string{prefix + fmt.Sprintf(":depth%d", v.depth())}
	for k := range set {
		tags = append(tags, prefix+":has-"+k)
	}
	return tags
}

func checkFloatOracle(f float64, bad *int) {
	if math.IsNaN(f) {
		return
	}
	for _, fm := range []byte{'f', 'e'} {
		s := strconv.FormatFloat(f, fm, -1, 64)
		g, err := strconv.ParseFloat(s, 64)
		ok := err == nil && math.Float64bits(g) == math.Float64bits(f)
		if ok && fm == 'f' && !math.IsInf(f, 0) && !strings.Contains(s, ".") {
			g, err = strconv.ParseFloat(s+".0", 64)
			ok = err == nil && math.Float64bits(g) == math.Float64bits(f)
		}
		if !ok {
			*bad++
			out.Case(encStr("orc", fmt.Sprintf("ParseFloat(FormatFloat(%d,%c))", math.Float64bits(f), fm)), "bad", true, "oracle:float-contract")
		}
	}
}

func valueStream(rng *lib.Rng, nData, nJSON int) {
	env := zygo.NewZlisp()
	env.StandardSetup()
	bad := 0
	nfl := 0
	// a fixed grid of atoms first
	var grid []*V
	for _, i := range intSpecials {
		grid = append(grid, &V{K: 'I', I: i})
	}
	for _, u := range uintSpecials {
		grid = append(grid, &V{K: 'U', U: u})
	}
	for _, f := range floatSpecials {
		grid = append(grid, &V{K: 'F', F: f}, &V{K: 'F', F: f, Sci: true})
	}
	for _, c := range advRunes {
		grid = append(grid, &V{K: 'C', C: c}, &V{K: 'S', S: string(c)}, &V{K: 'S', S: "a" + string(c) + "b"})
	}
	for c := rune(0); c < 0x180; c++ {
		grid = append(grid, &V{K: 'C', C: c})
	}
	grid = append(grid, &V{K: 'N'}, &V{K: 'B', B: true}, &V{K: 'B'}, &V{K: 'S'}, &V{K: 'A'},
		&V{K: 'L', Items: []*V{{K: 'I', I: 1}}, Tail: &V{K: 'I', I: 2}},
		&V{K: 'L', Items: []*V{{K: 'Y', S: "+"}, {K: 'F', F: math.Inf(1)}, {K: 'I', I: 1}}, Tail: &V{K: 'N'}},
		&V{K: 'L', Items: []*V{{K: 'Y', S: "-"}, {K: 'F', F: math.Inf(1)}}, Tail: &V{K: 'N'}},
		&V{K: 'A', Items: []*V{{K: 'S', S: "a"}, {K: 'S', S: "b"}}},
		&V{K: 'A', Items: []*V{{K: 'I', I: 1}, {K: 'I', I: -1}, {K: 'F', F: -0.5}, {K: 'Y', S: "a"}, {K: 'I', I: -2}}},
		&V{K: 'H'}, &V{K: 'H', Keys: []*V{{K: 'S', S: "a b"}}, Items: []*V{{K: 'I', I: 1}}},
		&V{K: 'H', Keys: []*V{{K: 'S', S: "a\"b"}}, Items: []*V{{K: 'I', I: 1}}},
		&V{K: 'H', Keys: []*V{{K: 'Y', S: "k"}}, Items: []*V{{K: 'H', Keys: []*V{{K: 'S', S: "n"}}, Items: []*V{{K: 'A'}}}}})
	// an exponent sign at every offset of the lexer's 20-rune look-back ring, after padding symbols of every length
	for k := 0; k < 44; k++ {
		for _, f := range []float64{1e21, -5e-324, 2.5e-10} {
			items := []*V{}
			if k > 0 {
				items = append(items, &V{K: 'Y', S: strings.Repeat("a", k)})
			}
			items = append(items, &V{K: 'F', F: f, Sci: true}, &V{K: 'I', I: -int64(k)})
			grid = append(grid, &V{K: 'A', Items: items})
		}
	}
	// symbols whose spelling begins or ends with a reserved word (true false nil NaN Inf ...) are still symbols
	for _, nm := range []string{"truex", "trueish", "true1", "xtrue", "xfalse", "isfalse", "falsey", "false_", "nilx", "xnil", "nil0", "NaNx", "xNaN", "nanx", "Infx", "xInf", "infx", "xinf",
		"forx", "hashx", "quotex", "e5", "x1e5", "ULLx", "xULL", "x0x1", "b0b1"} {
		y := &V{K: 'Y', S: nm}
		grid = append(grid, y, &V{K: 'L', Items: []*V{y, {K: 'I', I: 1}}, Tail: &V{K: 'N'}}, &V{K: 'A', Items: []*V{{K: 'B', B: true}, y, {K: 'B'}}},
			&V{K: 'H', Keys: []*V{y}, Items: []*V{y}})
	}
	// percent signs in saved data (the save path must not treat the text as a format string)
	for _, txt := range []string{"50% done", "%d %s %v %%", "%", "100%!", "%!d(MISSING)", "a%20b"} {
		grid = append(grid, &V{K: 'H', Keys: []*V{{K: 'S', S: "note"}}, Items: []*V{{K: 'S', S: txt}}},
			&V{K: 'H', Keys: []*V{{K: 'S', S: txt}}, Items: []*V{{K: 'A', Items: []*V{{K: 'S', S: txt}, {K: 'I', I: 5}}}}})
	}
	for _, key := range []string{"a\\b", "\\", "x\\n", "q\"r", "tab\there", "nl\nx", "a b", "é", ":", "k:"} {
		grid = append(grid, &V{K: 'H', Keys: []*V{{K: 'S', S: key}}, Items: []*V{{K: 'I', I: 1}}})
	}
	for _, v := range grid {
		js := true
		if v.K == 'F' {
			checkFloatOracle(v.F, &bad)
			nfl++
		}
		valCase(env, v, js, js, append(valTags(v, "grid"), "stream:grid")...)
		ptyMaybe(env, nil, v, js, js, "ptyofgrid")
	}
	for i := 0; i < nData; i++ {
		o := genOpt{symMode: 0}
		if i%10 == 7 {
			o.symMode = 1
		}
		if i%50 == 33 {
			o.symMode = 2
		}
		if i%12 == 5 {
			o.hashes = true
		}
		v := genValue(rng, 1+rng.Intn(5), o)
		v.walk(func(x *V) {
			if x.K == 'F' {
				checkFloatOracle(x.F, &bad)
				nfl++
			}
		})
		valCase(env, v, false, false, append(valTags(v, "data"), "stream:data")...)
		if i%4 == 1 {
			ptyMaybe(env, rng, v, false, false, "ptyofdata")
		}
	}
	for i := 0; i < nJSON; i++ {
		v := genValue(rng, 1+rng.Intn(5), genOpt{jsonlike: true})
		v.walk(func(x *V) {
			if x.K == 'F' {
				checkFloatOracle(x.F, &bad)
				nfl++
			}
		})
		valCase(env, v, true, i%4 == 0, append(valTags(v, "json"), "stream:json")...)
	}
	// the formatter contract on many more floats (no interpreter involved)
	for i := 0; i < 20*(nData+nJSON); i++ {
		checkFloatOracle(genFloat(rng), &bad)
		nfl++
	}
	out.Case(encStr("orc", "float formatter contract"), map[bool]string{true: "ok", false: "bad"}[bad == 0], false, "oracle:float-contract-summary")
	out.Extra["float_contract_checked"] = nfl
}

// ---------- numeric literal spellings ------------------------------------------------

const litAlphabet = "0179_.eE+-xobafAFUL"

func isNumKind(k string) bool {
	switch k {
	case "Decimal", "Hex", "Oct", "Binary", "Float", "Uint64":
		return true
	}
	return false
}

// refLiteral: the mathematical value of a spelling in one of the notations the property names,
// computed with math/big only (no strconv parsing). Underscores are separators without value.
// Returns "" when the spelling is none of the notations.
func refLiteral(sp string) string {
	s := strings.ReplaceAll(sp, "_", "")
	if s == "" {
		return ""
	}
	for i := 0; i < len(sp); i++ { // an underscore separates digits: it follows a digit or another underscore
		if sp[i] == '_' && (i == 0 || !(sp[i-1] == '_' || (sp[i-1] >= '0' && sp[i-1] <= '9') || (sp[i-1] >= 'a' && sp[i-1] <= 'f') || (sp[i-1] >= 'A' && sp[i-1] <= 'F'))) {
			return ""
		}
	}
	digits := func(t string, base int) (*big.Int, bool) {
		if t == "" {
			return nil, false
		}
		v := new(big.Int)
		b := big.NewInt(int64(base))
		for _, c := range t {
			d := -1
			switch {
			case c >= '0' && c <= '9':
				d = int(c - '0')
			case c >= 'a' && c <= 'f':
				d = int(c-'a') + 10
			case c >= 'A' && c <= 'F':
				d = int(c-'A') + 10
			}
			if d < 0 || d >= base {
				return nil, false
			}
			v.Mul(v, b)
			v.Add(v, big.NewInt(int64(d)))
		}
		return v, true
	}
	if strings.HasSuffix(s, "ULL") {
		t := s[:len(s)-3]
		base := 10
		if strings.HasPrefix(t, "0x") {
			base, t = 16, t[2:]
		} else if strings.HasPrefix(t, "0o") {
			base, t = 8, t[2:]
		}
		v, ok := digits(t, base)
		if !ok {
			return ""
		}
		if v.BitLen() > 64 {
			return "RANGE"
		}
		return "U " + v.String()
	}
	for _, pb := range []struct {
		p string
		b int
	}{{"0x", 16}, {"0o", 8}, {"0b", 2}} {
		if strings.HasPrefix(s, pb.p) {
			v, ok := digits(s[2:], pb.b)
			if !ok {
				return ""
			}
			if v.BitLen() > 63 {
				return "RANGE"
			}
			return "I " + v.String()
		}
	}
	neg := false
	t := s
	if strings.HasPrefix(t, "-") {
		neg, t = true, t[1:]
	}
	if v, ok := digits(t, 10); ok {
		if neg {
			v.Neg(v)
		}
		if v.Cmp(big.NewInt(math.MaxInt64)) > 0 || v.Cmp(big.NewInt(math.MinInt64)) < 0 {
			return "RANGE"
		}
		return "I " + v.String()
	}
	// float: int-part [. frac] [e|E [+|-] exp], at least one mantissa digit, a point or an exponent
	mant := t
	ex := ""
	hasE := false
	if i := strings.IndexAny(t, "eE"); i >= 0 {
		mant, ex, hasE = t[:i], t[i+1:], true
	}
	ip, fp := mant, ""
	hasDot := false
	if i := strings.IndexByte(mant, '.'); i >= 0 {
		ip, fp, hasDot = mant[:i], mant[i+1:], true
	}
	if !hasDot && !hasE {
		return ""
	}
	if ip == "" && fp == "" {
		return ""
	}
	if hasE && ip == "" {
		return "" // .5e3 is not in FloatRegex's exponent form; treated as not a notation
	}
	m, ok := digits(ip+fp, 10)
	if !ok {
		return ""
	}
	e10 := int64(0)
	if hasE {
		et := ex
		eneg := false
		if strings.HasPrefix(et, "-") {
			eneg, et = true, et[1:]
		} else if strings.HasPrefix(et, "+") {
			et = et[1:]
		}
		ev, ok := digits(et, 10)
		if !ok || ev.BitLen() > 40 {
			return ""
		}
		e10 = ev.Int64()
		if eneg {
			e10 = -e10
		}
	}
	e10 -= int64(len(fp))
	var f float64
	switch {
	case m.Sign() == 0:
		f = 0
	case e10 > 400:
		return "RANGE"
	case e10 < -1200:
		f = 0
	default:
		r := new(big.Rat).SetInt(m)
		p := new(big.Int).Exp(big.NewInt(10), big.NewInt(abs64(e10)), nil)
		if e10 >= 0 {
			r.Mul(r, new(big.Rat).SetInt(p))
		} else {
			r.Quo(r, new(big.Rat).SetInt(p))
		}
		f, _ = r.Float64()
		if math.IsInf(f, 0) {
			return "RANGE"
		}
	}
	if neg {
		f = -f
	}
	return "F " + strconv.FormatUint(math.Float64bits(f), 10)
}

func abs64(x int64) int64 {
	if x < 0 {
		return -x
	}
	return x
}

func litObs(env *zygo.Zlisp, sp string) (string, bool) {
	toks, err := zygo.VerifLex(sp + "\n")
	if err != nil {
		return "LEXERR", false
	}
	if len(toks) != 1 || !isNumKind(toks[0].Kind) {
		ks := make([]string, len(toks))
		for i, t := range toks {
			ks[i] = t.Kind
		}
		return "T " + strings.Join(ks, ","), false
	}
	return guard(func() string {
		sx, err := zygo.ReadFunction(env, "read", []zygo.Sexp{&zygo.SexpStr{S: sp}})
		if err != nil {
			return "ERR"
		}
		switch t := sx.(type) {
		case *zygo.SexpInt:
			return "I " + strconv.FormatInt(t.Val, 10)
		case *zygo.SexpUint64:
			return "U " + strconv.FormatUint(t.Val, 10)
		case *zygo.SexpFloat:
			if math.IsNaN(t.Val) {
				return "F nan"
			}
			return "F " + strconv.FormatUint(math.Float64bits(t.Val), 10)
		}
		return "X " + canonSexp(sx, 0)
	}), true
}

func litCase(env *zygo.Zlisp, sp string, always bool, n *int, tag string) {
	obs, num := litObs(env, sp)
	ref := refLiteral(sp)
	if !num && ref == "" {
		// neither the reader nor the reference takes it for a number: keep a sample for the model
		*n++
		if !always && *n%97 != 0 {
			return
		}
	}
	pf := parseBits(strings.ReplaceAll(sp, "_", ""))
	if ref == "" {
		ref = "-"
	}
	kind := "lit:other"
	if num {
		kind = "lit:" + strings.SplitN(obs, " ", 2)[0]
	}
	out.Case(encStr("lit", sp)+" "+pf, "V="+obs+" ;; REF="+ref, num, kind, tag)
}

func litStream(rng *lib.Rng, maxLen int, nRandom int) {
	env := zygo.NewZlisp()
	env.StandardSetup()
	skipped := 0
	total := 0
	buf := make([]byte, 0, 16)
	var rec func(l int)
	rec = func(l int) {
		if len(buf) > 0 {
			total++
			litCase(env, string(buf), false, &skipped, "lit:exhaustive")
		}
		if l == 0 {
			return
		}
		for i := 0; i < len(litAlphabet); i++ {
			buf = append(buf, litAlphabet[i])
			rec(l - 1)
			buf = buf[:len(buf)-1]
		}
	}
	rec(maxLen)
	out.Extra["literal_spellings_enumerated"] = total
	out.Extra["literal_alphabet"] = litAlphabet
	out.Extra["literal_max_len"] = maxLen
	// longer structured spellings: every digit, limits, many underscores, long fractions/exponents
	fixed := []string{"9223372036854775807", "9223372036854775808", "-9223372036854775808", "-9223372036854775809", "18446744073709551615ULL",
		"18446744073709551616ULL", "0xffffffffffffffffULL", "0x7fffffffffffffff", "0x8000000000000000", "0o777777777777777777777", "0o1777777777777777777777ULL",
		"0b111111111111111111111111111111111111111111111111111111111111111", "1_000_000", "1__0", "1_", "-1_0", "0x1_f", "1.7976931348623157e308", "1.7976931348623159e308",
		"1e309", "4.9e-324", "2.4703282292062327e-324", "2.4703282292062328e-324", "1e-400", "0.1", "0.30000000000000004", "123456789.123456789", "1_0.5_0", "1._5", "1_.5", "1.5_",
		"1e1_0", "1e_1", "1E5", "1e+5", "1e-5", "-.5", ".5", "-0.0", "-0", "0.", "-0.", "00", "007", "0x", "0o8", "0b2", "12ULL", "0x1FULL", "0o17ULL", "0x0ULL", "0x00ULL", "0o0ULL", "0o000ULL", "0ULL", "00ULL", "0x00ffULL", "0o0017ULL", "0xffffffffffffffffULL", "0x0", "0x00", "0o0", "0o00", "0b0", "0b00", "0x00ff", "0o0017", "0b0011", "000", "-000", "0.0", "00.5", "0e0", "0x0xULL", "0o0oULL", "ffULL", "0b1ULL", "1e5ULL",
		"9007199254740993.0", "9007199254740993", "0.000001", "1e23", "8.41e21", "179769313486231570000000000000000000000000000000000000000000000000000000000000000000000000000000000000000000000000000000000000000000000000000000000000000000000000000000000000000000000000000000000000000000000000000000000000000000000000000000000000000000000000000000000000000000000000000000000000000000000000000000000000000000000000000000000000.0"}
	for _, s := range fixed {
		litCase(env, s, true, &skipped, "lit:fixed")
	}
	digits := "0123456789"
	for i := 0; i < nRandom; i++ {
		var sb strings.Builder
		if rng.Intn(4) == 0 {
			sb.WriteByte('-')
		}
		switch rng.Intn(8) {
		case 0:
			sb.WriteString("0x")
			for j := rng.Intn(4); j > 0 && rng.Intn(2) == 0; j-- { // leading zeros, also an all-zero literal
				sb.WriteByte('0')
			}
			for j := 0; j < rng.Intn(18); j++ {
				sb.WriteByte("0123456789abcdefABCDEF"[rng.Intn(22)])
			}
		case 1:
			sb.WriteString("0o")
			for j := rng.Intn(4); j > 0 && rng.Intn(2) == 0; j-- {
				sb.WriteByte('0')
			}
			for j := 0; j < rng.Intn(24); j++ {
				sb.WriteByte(digits[rng.Intn(8)])
			}
		case 2:
			sb.WriteString("0b")
			for j := 0; j < 1+rng.Intn(65); j++ {
				sb.WriteByte(digits[rng.Intn(2)])
			}
		case 3:
			for j := 0; j < 1+rng.Intn(21); j++ {
				sb.WriteByte(digits[rng.Intn(10)])
				if rng.Intn(6) == 0 {
					sb.WriteByte('_')
				}
			}
		default:
			for j := 0; j < 1+rng.Intn(20); j++ {
				sb.WriteByte(digits[rng.Intn(10)])
				if rng.Intn(9) == 0 {
					sb.WriteByte('_')
				}
			}
			if rng.Intn(4) != 0 {
				sb.WriteByte('.')
				for j := 0; j < rng.Intn(20); j++ {
					sb.WriteByte(digits[rng.Intn(10)])
				}
			}
			if rng.Intn(2) == 0 {
				sb.WriteByte("eE"[rng.Intn(2)])
				sb.WriteString([]string{"", "-", "+"}[rng.Intn(3)])
				for j := 0; j < 1+rng.Intn(3); j++ {
					sb.WriteByte(digits[rng.Intn(10)])
				}
			}
		}
		if rng.Intn(6) == 0 {
			sb.WriteString("ULL")
		}
		litCase(env, sb.String(), true, &skipped, "lit:random")
	}
}

// ---------- main --------------------------------------------------------------------------

func main() {
	args := lib.ParseArgs()
	t0 := time.Now()
	out = lib.NewOut(args.Out)
	out.Rule = "a value case counts when its input encoding is new; a literal case counts when the real reader takes the spelling for one number; quote chunks below U+3000 and every quoted string count"
	var err error
	tmpdir, err = os.MkdirTemp("", "c12")
	if err != nil {
		panic(err)
	}
	defer os.RemoveAll(tmpdir)
	rng := lib.NewRng(args.Seed)
	cutRng = lib.NewRng(args.Seed ^ 0x5eed)
	nData, nJSON, nQS, litLen, nLit, nHist, nScr, nPty, nSlit := 2000, 900, 1500, 4, 3000, 400, 500, 400, 600
	if args.Tier == "thorough" {
		nData, nJSON, nQS, litLen, nLit, nHist, nScr, nPty, nSlit = 40000, 15000, 30000, 5, 60000, 8000, 10000, 8000, 20000
	}
	if args.Replay != "" {
		replay(args.Replay)
	} else {
		quoteStream(rng.Fork(), nQS, args.Tier == "thorough", args.Seed)
		valueStream(rng.Fork(), nData, nJSON)
		litStream(rng.Fork(), litLen, nLit)
		histStream(rng.Fork(), nHist)
		scriptStream(rng.Fork(), nScr)
		prettyStream(rng.Fork(), nPty)
		strlitStream(rng.Fork(), nSlit)
	}
	out.Extra["harness_wall_s"] = time.Since(t0).Seconds()
	out.Close(args.Stats)
}
