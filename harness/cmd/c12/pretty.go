// Values printed under the PRETTY mode ((pretty true) sets env.Pretty): SexpArray.SexpString / SexpHash.SexpString then
// write one element / pair per line with indentation. The pretty text must read back / evaluate / source back like
// the plain one (case prefixes "pty" = value built through the Go API, "pts" = value computed by a script); the
// model is Model/PrinterPretty.v [pprint true]. An array obeys the flag only when it carries its environment
// (V.NoEnv = a bare &SexpArray{}).
package main

import (
	"math"

	"github.com/glycerine/zygomys/v9/zygo"
	"verif/harness/lib"
)

func (v *V) hasArrOrHash() bool {
	r := false
	v.walk(func(x *V) {
		if x.K == 'A' || x.K == 'H' {
			r = true
		}
	})
	return r
}

func (v *V) clone() *V {
	if v == nil {
		return nil
	}
	c := *v
	c.Items = nil
	c.Keys = nil
	for _, x := range v.Items {
		c.Items = append(c.Items, x.clone())
	}
	for _, x := range v.Keys {
		c.Keys = append(c.Keys, x.clone())
	}
	c.Tail = v.Tail.clone()
	return &c
}

func prettyTags(v *V, prefix string) []string {
	t := append(valTags(v, prefix), "stream:pretty")
	noenv, d := false, 0
	v.walk(func(x *V) {
		if x.K == 'A' && x.NoEnv {
			noenv = true
		}
	})
	d = v.depth()
	if noenv {
		t = append(t, "pretty:array-without-env")
	}
	if d >= 4 {
		t = append(t, "pretty:depth>=4")
	}
	return t
}

// ptyMaybe: called by the value stream for values it has just run plainly
func ptyMaybe(env *zygo.Zlisp, rng *lib.Rng, v *V, jsonlike, withSource bool, prefix string) {
	if !v.hasArrOrHash() {
		return
	}
	w := v.clone()
	if rng != nil && rng.Intn(4) == 0 {
		w.walk(func(x *V) {
			if x.K == 'A' && rng.Intn(3) == 0 {
				x.NoEnv = true
			}
		})
	}
	ptyCase(env, w, jsonlike, withSource, prettyTags(w, prefix)...)
}

func prettyStream(rng *lib.Rng, n int) {
	env := zygo.NewZlisp()
	env.StandardSetup()
	I := func(i int64) *V { return &V{K: 'I', I: i} }
	Y := func(s string) *V { return &V{K: 'Y', S: s} }
	S := func(s string) *V { return &V{K: 'S', S: s} }
	A := func(xs ...*V) *V { return &V{K: 'A', Items: xs} }
	a := func(xs ...*V) *V { return &V{K: 'A', Items: xs, NoEnv: true} }
	L := func(tail *V, xs ...*V) *V { return &V{K: 'L', Items: xs, Tail: tail} }
	N := &V{K: 'N'}
	H := func(kv ...*V) *V {
		h := &V{K: 'H'}
		for i := 0; i+1 < len(kv); i += 2 {
			h.Keys = append(h.Keys, kv[i])
			h.Items = append(h.Items, kv[i+1])
		}
		return h
	}
	elems := []*V{I(1), I(-1), {K: 'F', F: -0.5}, {K: 'F', F: 1e-7, Sci: true}, {K: 'F', F: -2.5e21, Sci: true}, {K: 'F', F: math.Inf(1)}, {K: 'F', F: math.Inf(-1)}, {K: 'F', F: math.NaN()},
		{K: 'U', U: 7}, {K: 'B', B: true}, N, S(""), S(" "), S("a b"), S("x\ny"), S("\n"), S("   \n   "), S("}"), S("]"), S("{a:1"), S("// c"), S("a:"),
		{K: 'C', C: ' '}, {K: 'C', C: '\n'}, {K: 'C', C: ']'}, A(), H(), a(), A(I(2)), a(I(2)), H(Y("z"), I(-3)), H(S("q r"), S("v"))}
	dataElems := []*V{Y("sym"), Y("-"), L(N, I(1), I(2)), L(I(2), I(1)), L(N, Y("a"), A(I(1), I(2))), L(A(I(3)), I(1)), L(H(Y("k"), I(1)), I(1)), L(N, A(), H())}
	var grid []*V
	for _, e := range elems {
		grid = append(grid, A(e), A(e, e), A(I(0), e, I(9)), a(e, A(e)), H(Y("k"), e), H(S("s t"), e), H(Y("k"), e, Y("k2"), e), H(Y("k"), A(e), S("m"), H(Y("n"), e)),
			A(H(Y("k"), A(e))), A(A(A(e)), e), H(Y("p"), H(Y("q"), H(Y("r"), e))))
	}
	for _, e := range dataElems {
		grid = append(grid, A(e), A(e, e), a(e, A(e)), A(A(e), e), L(N, e, A(e)), L(A(e), e), H(Y("k"), e), H(Y("k"), A(e, e)))
	}
	// depth: arrays and hashes nested 1..7 deep, alternating
	for d := 1; d <= 7; d++ {
		var v, w, m *V = I(int64(-d)), I(int64(d)), S("leaf")
		for i := 0; i < d; i++ {
			v = A(v)
			w = H(Y("k"), w)
			if i%2 == 0 {
				m = A(I(int64(i)), m, H())
			} else {
				m = H(S("m"), m, Y("e"), A())
			}
		}
		grid = append(grid, v, w, m)
	}
	for _, v := range grid {
		ptyCase(env, v, true, true, append(prettyTags(v, "ptygrid"), "pretty:grid")...)
	}
	for i := 0; i < n; i++ {
		o := genOpt{jsonlike: i%2 == 0, hashes: true}
		if i%7 == 3 {
			o.symMode = 1
		}
		v := genValue(rng, 2+rng.Intn(4), o)
		if !v.hasArrOrHash() {
			v = A(v, H(Y("k"), v))
		}
		if rng.Intn(4) == 0 {
			v.walk(func(x *V) {
				if x.K == 'A' && rng.Intn(3) == 0 {
					x.NoEnv = true
				}
			})
		}
		ptyCase(env, v, o.jsonlike, i%4 == 0, append(prettyTags(v, "pty"), "pretty:random")...)
	}
	// values computed by scripts (arrays made by the reader / builders; strings carrying the backtick flag with newlines inside)
	for _, c := range scrContents {
		for _, first := range []string{backtickLit(c), quotedLit(c)} {
			for _, e := range []string{"[1 " + first + " -2]", "(quote (a [" + first + "] \\ " + first + "))", "[(concat " + first + " \"`\") " + first + "]",
				"(hash k: (concat " + first + " \"` `\") \"s\" [" + first + "])", "[[" + first + "] (hash a: [" + first + " (hash)])]"} {
				scrCaseP(env, e, "pts", "stream:pretty", "pretty:script")
			}
		}
	}
	for _, e := range []string{"(append [1 2] 3)", "(slice [1 2 3 4] 1 3)", "(flatten [1 [2 [3]]])", "(array 3)", "(keys (hash a: 1 b: 2))", "(list 1 [2 3] (hash a: [4]))",
		"(cons 1 [2])", "(concat [1] [2 [3]])", "(map (fn [x] [x]) [1 2])", "(hpair (hash a: [1 2]) 0)", "(quote (1 \\ [2 3]))", "(first [[1 2] 3])", "(rest [1 [2] 3])"} {
		scrCaseP(env, e, "pts", "stream:pretty", "pretty:script-builtins")
	}
}
