// Replay: re-run the case inputs named in a replay file (JSON with "input" or "inputs").
package main

import (
	"encoding/json"
	"math"
	"os"
	"strconv"
	"strings"

	"github.com/glycerine/zygomys/v9/zygo"
)

type tokStream struct {
	t []string
	i int
}

func (s *tokStream) next() string {
	if s.i >= len(s.t) {
		panic("replay: truncated input")
	}
	s.i++
	return s.t[s.i-1]
}

func (s *tokStream) num() int64 {
	n, err := strconv.ParseInt(s.next(), 10, 64)
	if err != nil {
		panic(err)
	}
	return n
}

func (s *tokStream) str() string {
	n := int(s.num())
	var sb strings.Builder
	for i := 0; i < n; i++ {
		c := s.num()
		if c < 0 {
			sb.WriteByte(byte(-c))
		} else {
			sb.WriteRune(rune(c))
		}
	}
	return sb.String()
}

func (s *tokStream) value() *V {
	switch k := s.next(); k {
	case "I":
		return &V{K: 'I', I: s.num()}
	case "U":
		u, _ := strconv.ParseUint(s.next(), 10, 64)
		return &V{K: 'U', U: u}
	case "F":
		bits, _ := strconv.ParseUint(s.next(), 10, 64)
		sci := s.num() == 1
		_ = s.str() // formatter token
		s.next()    // parse oracle
		return &V{K: 'F', F: math.Float64frombits(bits), Sci: sci}
	case "B":
		return &V{K: 'B', B: s.num() == 1}
	case "N":
		return &V{K: 'N'}
	case "C":
		return &V{K: 'C', C: rune(s.num())}
	case "S":
		return &V{K: 'S', S: s.str()}
	case "T":
		return &V{K: 'S', S: s.str(), BT: true}
	case "Y":
		return &V{K: 'Y', S: s.str()}
	case "L":
		n := int(s.num())
		v := &V{K: 'L'}
		for i := 0; i < n; i++ {
			v.Items = append(v.Items, s.value())
		}
		v.Tail = s.value()
		return v
	case "A", "a":
		n := int(s.num())
		v := &V{K: 'A', NoEnv: k == "a"}
		for i := 0; i < n; i++ {
			v.Items = append(v.Items, s.value())
		}
		return v
	case "H":
		n := int(s.num())
		v := &V{K: 'H'}
		for i := 0; i < n; i++ {
			v.Keys = append(v.Keys, s.value())
			v.Items = append(v.Items, s.value())
		}
		return v
	default:
		panic("replay: bad value tag " + k)
	}
}

func setCuts(c string) {
	haveForcedCuts = true
	forcedCuts = nil
	if c == "-" {
		return
	}
	for _, p := range strings.Split(c, ",") {
		n, _ := strconv.Atoi(p)
		forcedCuts = append(forcedCuts, n)
	}
}

func replay(path string) {
	b, err := os.ReadFile(path)
	if err != nil {
		panic(err)
	}
	var obj map[string]interface{}
	if err := json.Unmarshal(b, &obj); err != nil {
		panic(err)
	}
	var inputs []string
	if s, ok := obj["input"].(string); ok {
		inputs = append(inputs, s)
	}
	if l, ok := obj["inputs"].([]interface{}); ok {
		for _, x := range l {
			if s, ok := x.(string); ok {
				inputs = append(inputs, s)
			}
		}
	}
	out.Case("isprint "+isPrintRanges(), "ok", false, "quote:isprint-table")
	env := zygo.NewZlisp()
	env.StandardSetup()
	skipped := 0
	for _, in := range inputs {
		ts := &tokStream{t: strings.Fields(in)}
		switch ts.next() {
		case "val":
			js := ts.next() == "1"
			setCuts(ts.next())
			valCase(env, ts.value(), js, js, "replay")
		case "pty":
			js := ts.next() == "1"
			setCuts(ts.next())
			ptyCase(env, ts.value(), js, js, "replay")
		case "scr":
			ts.next()
			setCuts(ts.next())
			scrCase(env, ts.str(), "replay")
		case "pts":
			ts.next()
			setCuts(ts.next())
			scrCaseP(env, ts.str(), "pts", "replay")
		case "hist":
			n := int(ts.num())
			var ops []hop
			for i := 0; i < n; i++ {
				if ts.next() == "D" {
					ops = append(ops, hop{del: true, k: ts.value()})
				} else {
					k := ts.value()
					ops = append(ops, hop{k: k, v: ts.value()})
				}
			}
			histCase(env, ops, "replay")
		case "lit":
			litCase(env, ts.str(), true, &skipped, "replay")
		case "slit":
			form := ts.next()
			n := int(ts.num())
			var its []litItem
			for i := 0; i < n; i++ {
				e := ts.next() == "e"
				its = append(its, litItem{esc: e, r: rune(ts.num())})
			}
			slitCase(env, form, its, "replay")
		case "qs":
			s := ts.str()
			out.Case(encStr("qs", s), printedItems(strconv.Quote(s)), true, "replay")
		}
	}
}
