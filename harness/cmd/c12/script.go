// Values COMPUTED by scripts (string builtins on literals written with quotes or with backticks): the printed
// form of the result must read back / evaluate to the result. Strings read from a backtick literal carry a
// private flag and print verbatim between backticks; computed strings must not inherit it.
package main

import (
	"strings"

	"github.com/glycerine/zygomys/v9/zygo"
	"verif/harness/lib"
)

// liveToV describes a live value; a string is marked BT when it prints between backticks
func liveToV(x zygo.Sexp, depth int) *V {
	if depth > 50 {
		return nil
	}
	switch t := x.(type) {
	case *zygo.SexpInt:
		return &V{K: 'I', I: t.Val}
	case *zygo.SexpBool:
		return &V{K: 'B', B: t.Val}
	case *zygo.SexpSentinel:
		if t == zygo.SexpNull {
			return &V{K: 'N'}
		}
	case *zygo.SexpStr:
		p := t.SexpString(nil)
		return &V{K: 'S', S: t.S, BT: strings.HasPrefix(p, "`")}
	case *zygo.SexpSymbol:
		return &V{K: 'Y', S: t.Name()}
	case *zygo.SexpPair:
		v := &V{K: 'L'}
		var cur zygo.Sexp = t
		for {
			p, ok := cur.(*zygo.SexpPair)
			if !ok {
				break
			}
			c := liveToV(p.Head, depth+1)
			if c == nil {
				return nil
			}
			v.Items = append(v.Items, c)
			cur = p.Tail
		}
		v.Tail = liveToV(cur, depth+1)
		if v.Tail == nil {
			return nil
		}
		return v
	case *zygo.SexpArray:
		v := &V{K: 'A', NoEnv: t.Env == nil}
		for _, e := range t.Val {
			c := liveToV(e, depth+1)
			if c == nil {
				return nil
			}
			v.Items = append(v.Items, c)
		}
		return v
	case *zygo.SexpHash:
		if t.TypeName != "hash" {
			return nil
		}
		v := &V{K: 'H'}
		for _, k := range t.KeyOrder {
			val, err := t.HashGet(nil, k)
			if err != nil {
				continue
			}
			kc, vc := liveToV(k, depth+1), liveToV(val, depth+1)
			if kc == nil || vc == nil {
				return nil
			}
			v.Keys = append(v.Keys, kc)
			v.Items = append(v.Items, vc)
		}
		return v
	}
	return nil
}

func scrCase(env *zygo.Zlisp, expr string, tags ...string) {
	scrCaseP(env, expr, "scr", tags...)
}

// scrCaseP: prefix "scr" = printed plainly, "pts" = printed under (pretty true)
func scrCaseP(env *zygo.Zlisp, expr string, prefix string, tags ...string) {
	r := lib.Eval(env, expr, 200000)
	if r.Class != lib.OutValue {
		env.Clear()
		return // the expression itself is not in the domain (generator slip): nothing to round-trip
	}
	v := liveToV(r.Val, 0)
	if v == nil {
		return
	}
	valCaseSexp(env, v, r.Val, prefix, encStr("", expr)[1:]+" ", true, true, tags...)
}

var scrContents = []string{"a", "b c", "%", "50% done", "%d", "x`y", "`", "``", "tick ` tock", "q\"r", "back\\slash", "tab\tx", "é", "λ😀", "", " ", "a:b", "{k:1}", "[1 2]", "(+ 1 2)", "// no", "/* c */", "#", "~@", "nl\nx", "a\n\nb", "a\n   \nb", "\n\nlead", "trail\n\n", "\n", "p1\n\t\np2 `", "x\n \n\n y"}

// quoted literal with only the escapes the reader knows; backtick literal: content verbatim, no backtick inside
func quotedLit(s string) string {
	var sb strings.Builder
	sb.WriteByte('"')
	for _, c := range s {
		switch c {
		case '"':
			sb.WriteString(`\"`)
		case '\\':
			sb.WriteString(`\\`)
		case '\n':
			sb.WriteString(`\n`)
		case '\t':
			sb.WriteString(`\t`)
		default:
			sb.WriteRune(c)
		}
	}
	sb.WriteByte('"')
	return sb.String()
}

func backtickLit(s string) string { return "`" + strings.ReplaceAll(s, "`", "") + "`" }

func scriptStream(rng *lib.Rng, n int) {
	env := zygo.NewZlisp()
	env.StandardSetup()
	lit := func() string {
		s := scrContents[rng.Intn(len(scrContents))]
		if rng.Intn(4) == 0 {
			s = genSymbol(rng, 0) + s
		}
		if rng.Intn(2) == 0 {
			return backtickLit(s)
		}
		return quotedLit(s)
	}
	chars := []string{"'`'", "'x'", "'%'", "'\\''", "' '", "'\"'"}
	// a fixed grid: every content as backtick / quoted first argument, with a later argument that brings a backtick
	for _, c := range scrContents {
		for _, first := range []string{backtickLit(c), quotedLit(c)} {
			for _, e := range []string{first, "[1 " + first + " -2]", "(quote (a [" + first + "] \\ " + first + "))", "(concat " + first + " \"`\")", "(concat " + first + " \"x\" \"`ls`\")", "(append " + first + " '`')",
				"(concat " + first + " " + first + ")", "[(concat " + first + " \"`\") " + first + "]", "(hash k: (concat " + first + " \"` `\"))"} {
				scrCase(env, e, "stream:script", "script:grid")
			}
		}
	}
	for i := 0; i < n; i++ {
		var e string
		switch rng.Intn(8) {
		case 0:
			e = lit()
		case 1, 2:
			e = "(concat " + lit() + " " + lit() + ")"
		case 3:
			e = "(concat " + lit() + " " + lit() + " " + lit() + ")"
		case 4:
			e = "(append " + lit() + " " + chars[rng.Intn(len(chars))] + ")"
		case 5:
			e = "(" + []string{"chomp", "trim"}[rng.Intn(2)] + " (concat " + lit() + " " + lit() + "))"
		case 6:
			e = "[(concat " + lit() + " " + lit() + ") " + lit() + " (append " + lit() + " " + chars[rng.Intn(len(chars))] + ")]"
		default:
			e = "(hash " + genSymbol(rng, 0) + ": (concat " + lit() + " " + lit() + ") \"s\" " + lit() + ")"
		}
		scrCase(env, e, "stream:script", "script:random")
	}
}
