// String, backtick-string and character LITERAL spellings ("character and string literals denote exactly the runes
// written"): a body is a list of items, a rune written as itself (also raw newline, carriage return, tab, NUL, any
// scalar value) or a backslash escape. The harness writes the source text itself; the real reader's result is
// compared with the runes denoted (Coq Model/StrLit.v denote over the hand-written table std_escape) and with the
// model reader on the model's own spelling. Case input: slit FORM N (r RUNE | e RUNE)...   FORM = q | b | c
package main

import (
	"fmt"
	"strings"

	"github.com/glycerine/zygomys/v9/zygo"
	"verif/harness/lib"
)

type litItem struct {
	esc bool
	r   rune
}

var stdEsc = map[rune]rune{'\n': 'n', '\r': 'r', 7: 'a', '\t': 't', '\\': '\\', '"': '"', '\'': '\'', '#': '#'}

func slitSpelling(form string, its []litItem) string {
	var sb strings.Builder
	q := map[string]rune{"q": '"', "b": '`', "c": '\''}[form]
	sb.WriteRune(q)
	for _, it := range its {
		if it.esc {
			sb.WriteRune('\\')
		}
		sb.WriteRune(it.r)
	}
	sb.WriteRune(q)
	return sb.String()
}

func slitCase(env *zygo.Zlisp, form string, its []litItem, tags ...string) {
	text := slitSpelling(form, its)
	rd := guard(func() string {
		ps := env.VerifParser()
		ps.ResetAddNewInput(zygo.WholeText(strings.NewReader(text)))
		ex, err := ps.ParseTokens()
		st := "D"
		if err == zygo.ErrMoreInputNeeded {
			st = "M"
		} else if err != nil {
			st = "E"
		}
		var sb strings.Builder
		sb.WriteString(st)
		for _, x := range ex {
			sb.WriteString(" | " + canonSexp(x, 0))
		}
		return sb.String()
	})
	ev := guard(func() string {
		r := lib.Eval(env, text, 200000)
		if r.Class != lib.OutValue {
			return strings.ToUpper(r.Class)
		}
		return canonSexp(r.Val, 0)
	})
	env.Clear()
	var sb strings.Builder
	fmt.Fprintf(&sb, "slit %s %d", form, len(its))
	for _, it := range its {
		if it.esc {
			fmt.Fprintf(&sb, " e %d", it.r)
		} else {
			fmt.Fprintf(&sb, " r %d", it.r)
		}
	}
	out.Case(sb.String(), "T="+printedItems(text)+" ;; R="+rd+" ;; E="+ev, true, tags...)
}

// item for a rune: written raw when the form allows it (or by choice), else by its escape
func itemFor(form string, r rune, preferEsc bool) (litItem, bool) {
	q := map[string]rune{"q": '"', "b": '`', "c": '\''}[form]
	if form == "b" {
		return litItem{r: r}, r != '`'
	}
	e, has := stdEsc[r]
	if r == q || r == '\\' || (preferEsc && has) {
		return litItem{esc: true, r: e}, has
	}
	return litItem{r: r}, true
}

func strlitStream(rng *lib.Rng, n int) {
	env := zygo.NewZlisp()
	env.StandardSetup()
	var runes []rune
	for r := rune(0); r < 0x300; r++ {
		runes = append(runes, r)
	}
	runes = append(runes, 0x2028, 0x2029, 0xFEFF, 0xFFFD, 0xFFFE, 0xD7FF, 0xE000, 0x10000, 0x1F600, 0xE0001, 0x10FFFF, 0x3000, 0x200B)
	for _, r := range runes {
		for _, form := range []string{"q", "b", "c"} {
			for _, pe := range []bool{false, true} {
				it, ok := itemFor(form, r, pe)
				if !ok || (pe && !it.esc) {
					continue
				}
				cls := "raw"
				if it.esc {
					cls = "escape"
				}
				if form == "c" {
					slitCase(env, form, []litItem{it}, "stream:strlit", "strlit:char-"+cls)
				} else {
					slitCase(env, form, []litItem{{r: 'a'}, it, {r: 'b'}}, "stream:strlit", "strlit:"+form+"-"+cls)
					slitCase(env, form, []litItem{it}, "stream:strlit", "strlit:"+form+"-alone-"+cls)
				}
			}
		}
	}
	// every backslash + ASCII rune (the escapes the language does not have: the property is silent, the model must agree)
	for x := rune(32); x < 127; x++ {
		slitCase(env, "q", []litItem{{r: 'a'}, {esc: true, r: x}}, "stream:strlit", "strlit:every-escape")
		slitCase(env, "c", []litItem{{esc: true, r: x}}, "stream:strlit", "strlit:every-escape")
	}
	// line ends of every convention inside a literal
	for _, body := range []string{"a\r\nb", "\r\n", "\r", "a\rb\rc", "\r\r\n\n", "x\n\ry", "end\r", "\rstart", "l1\r\nl2\r\nl3", "tab\there", "\x00", "a\x00b", " ", "", "//", "/* */", "a ; b", "%s"} {
		for _, form := range []string{"q", "b"} {
			var its []litItem
			for _, r := range body {
				it, ok := itemFor(form, r, false)
				if ok {
					its = append(its, it)
				}
			}
			slitCase(env, form, its, "stream:strlit", "strlit:line-ends")
		}
	}
	for i := 0; i < n; i++ {
		form := []string{"q", "q", "b"}[rng.Intn(3)]
		k := rng.Intn(13)
		var its []litItem
		for j := 0; j < k; j++ {
			var r rune
			switch rng.Intn(4) {
			case 0:
				r = []rune{'\r', '\n', '\t', 0, 7, '"', '\\', '\'', '#', '`', ' ', 0x7f, 0x85, 0x2028}[rng.Intn(14)]
			default:
				r = genRune(rng)
			}
			if r >= 0xD800 && r <= 0xDFFF || r > 0x10FFFF || r < 0 {
				r = 'z'
			}
			it, ok := itemFor(form, r, rng.Intn(2) == 0)
			if ok {
				its = append(its, it)
			}
		}
		slitCase(env, form, its, "stream:strlit", "strlit:random")
	}
}
