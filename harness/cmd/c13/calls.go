// calls: arbitrary sequences of parser calls (Model/ReaderSession.v do_call), also outside the delivery
// protocol: ParseTokens twice, NewInput without ParseTokens, Parser.Stop / Parser.Reset / ResetAddNewInput while
// the coroutine is suspended inside a form (in every class of suspended state), then the target text by either
// reading route. Case line:
//
//	calls =TEXT V {OP ARG}*     OP: n =S NewInput | r =S ResetAddNewInput | R - Parser.Reset | s - Parser.Stop | p - ParseTokens
//	                            V: 0 target through ResetAddNewInput, 1 through Reset + NewInput
//
// Observable: F = the target on a new parser, H = the target after the calls, S = field dump after a final Reset vs
// the dump of a reset new parser, C = the reply of every ParseTokens call of the sequence ("?" after a Stop or a
// hard error until the next reset: the model leaves open what a stopped coroutine writes into its reply record).
package main

import (
	"strings"
)

type pcall struct {
	op  byte // n r R s p
	arg string
}

// prefixes that leave the coroutine suspended in each kind of place it can wait for input
var suspTexts = []string{
	"%(", "%[1 2", "^(", "~@[", "%{", "^%(", "(a %(", "[^[", "(", "(a", "(a b", "((a) ", "[", "[1", "[1, ", "[[1] ", "{", "{a", "{a ", "{a:", "{a: ", "{a: 1", "{a: for", "{\"a\"", "{\"a\" ", "{\"a\":", "{`a`", "{`a`:",
	"{ /* c */", "{ // c\n", "{ /* c */ // d\n", "{ /* c */ a:", "{ /* c", "(%", "(^", "(~", "(~@", "(% ", "[%", "{%", "{a %", "(% // c\n", "(~ /* c */", "(a ~@ /* c",
	"%", "^", "~", "~@", "% // c\n", "(a \\", "(a \\ ", "(a \\ b", "(a \\ b ", "(a \\ %", "(-", "(+", "(- ", "[+", "{a -", "-", "+", "(a -", "(- I",
	"`abc", "(a `abc", "{a `", "\"abc", "(a \"abc", "(a \"b\\", "'a", "('", "'\\", "/* c", "(a /* c", "(a /* c *", "(a /", "(a // c", "((((((((", "[{([{(", "(a (b [c {d ",
	"(a b) (c", "1 2 [3", "(a)) (b", "(def x %\n", "(a:", "(a.b.", "(1e", "(1e-", "(0x", "(a\n\n", "(hash a:", "(fn [a", "^(a ~", "^(a ~@(b",
}

var abandonAlphabet = []string{"%", "^", "~@", "(", "[", "{", "a ", ")"}

func (h *harness) callsImpl(text string, via bool, cs []pcall) (string, bool) {
	fresh := h.env.NewParser()
	f := whole(fresh, text)
	fresh.Reset()
	fdump := fresh.VerifDump()
	fresh.Stop()
	p := h.env.NewParser()
	defer p.Stop()
	var replies []string
	tainted, panicked := false, false
	for _, c := range cs {
		c := c
		r := guarded(func() string {
			switch c.op {
			case 'n':
				p.NewInput(strings.NewReader(c.arg))
			case 'r':
				p.ResetAddNewInput(strings.NewReader(c.arg))
			case 'R':
				p.Reset()
			case 's':
				p.Stop()
			case 'p':
				return obs(p.ParseTokens())
			}
			return ""
		})
		switch c.op {
		case 'r', 'R':
			tainted = false
		case 's':
			tainted = true
		case 'p':
			if tainted {
				replies = append(replies, "?")
			} else {
				replies = append(replies, r)
				if r[0] == 'E' || r[0] == 'P' {
					tainted = true
				}
			}
		}
		if r == "P" {
			panicked = true
		}
	}
	out, _ := run(p, []string{text}, nil, true, via)
	g := out[len(out)-1]
	s := guarded(func() string {
		p.Reset()
		if p.VerifDump() != fdump {
			return "diff"
		}
		return "same"
	})
	if panicked {
		s = "panic"
	}
	h.nCalls++
	return "F=" + f + " ;; H=" + g + " ;; S=" + s + " ;; C=" + strings.Join(replies, " | "), f == g && s == "same"
}

func callsInput(text string, via bool, cs []pcall) string {
	var sb strings.Builder
	sb.WriteString("calls " + enc(text))
	if via {
		sb.WriteString(" 1")
	} else {
		sb.WriteString(" 0")
	}
	for _, c := range cs {
		sb.WriteByte(' ')
		sb.WriteByte(c.op)
		sb.WriteByte(' ')
		if c.op == 'n' || c.op == 'r' {
			sb.WriteString(enc(c.arg))
		} else {
			sb.WriteByte('-')
		}
	}
	return sb.String()
}

func parseCalls(f []string) (text string, via bool, cs []pcall) {
	text = dec(f[1])
	via = len(f) > 2 && f[2] == "1"
	for i := 3; i+1 < len(f); i += 2 {
		c := pcall{op: f[i][0]}
		if c.op == 'n' || c.op == 'r' {
			c.arg = dec(f[i+1])
		}
		cs = append(cs, c)
	}
	return
}

func (h *harness) calls(text string, via bool, cs []pcall, emit bool, tags ...string) bool {
	impl, ok := h.callsImpl(text, via, cs)
	if !ok {
		h.failH++
	}
	input := callsInput(text, via, cs)
	if (emit || !ok) && !h.emitted[input] && (ok || h.failH <= 200) {
		h.emitted[input] = true
		h.out.Case(input, impl, true, tags...)
	}
	return ok
}

// genCalls: 1..3 earlier texts, each handed over in pieces with ParseTokens after some of them, sometimes cut short
// (abandoned inside a form), with Stop / Reset / extra ParseTokens / stray NewInput calls in between.
func (h *harness) genCalls(pool []string) []pcall {
	var cs []pcall
	for j, m := 0, 1+h.rng.Intn(3); j < m; j++ {
		var x string
		switch h.rng.Intn(3) {
		case 0:
			x = suspTexts[h.rng.Intn(len(suspTexts))]
		case 1:
			x = pool[h.rng.Intn(len(pool))]
			rs := []rune(x)
			x = string(rs[:h.rng.Intn(len(rs)+1)])
		default:
			x = pool[h.rng.Intn(len(pool))]
		}
		var cuts []int
		if h.rng.Intn(2) == 0 && len(x) > 1 {
			cuts = h.randCuts(x, 1+h.rng.Intn(2))
		}
		for i, piece := range pieces(x, cuts) {
			switch {
			case i == 0 && h.rng.Intn(3) == 0:
				cs = append(cs, pcall{op: 'R'}, pcall{op: 'n', arg: piece})
			case i == 0 && (j == 0 || h.rng.Intn(4) != 0):
				cs = append(cs, pcall{op: 'r', arg: piece})
			default:
				cs = append(cs, pcall{op: 'n', arg: piece})
			}
			if h.rng.Intn(4) != 0 {
				cs = append(cs, pcall{op: 'p'})
			}
			if h.rng.Intn(6) == 0 {
				cs = append(cs, pcall{op: 'p'})
			}
		}
		switch h.rng.Intn(6) {
		case 0:
			cs = append(cs, pcall{op: 's'})
		case 1:
			cs = append(cs, pcall{op: 'R'})
		case 2:
			cs = append(cs, pcall{op: 's'}, pcall{op: 'p'})
		}
	}
	return cs
}

func (h *harness) callsPhase(targets, pool []string, n int) {
	// every class of suspended state x {ResetAddNewInput, Reset, Stop then either} x both reading routes
	for i, s := range suspTexts {
		t := targets[(i*7+int(h.rng.Intn(len(targets))))%len(targets)]
		for k := 0; k < 6; k++ {
			cs := []pcall{{op: 'r', arg: s}, {op: 'p'}}
			switch k / 2 {
			case 1:
				cs = append(cs, pcall{op: 's'})
			case 2:
				cs = append(cs, pcall{op: 'n', arg: "(queued"}, pcall{op: 's'}, pcall{op: 'n', arg: " more"})
			}
			h.calls(t, k%2 == 1, cs, k == i%6, "calls:suspended")
		}
	}
	// every sequence of <= 4 tokens over reader prefixes, bracket openers, an atom and a closer, abandoned where the
	// parser stopped (suspended at a yield site of ParseList/ParseArray/ParseInfix or at a look-ahead, below any
	// chain of reader prefixes and brackets), then the target by either route
	k := 0
	enumerate(abandonAlphabet, 4, func(s string) {
		k++
		t := targets[(k*13)%len(targets)]
		h.calls(t, k%3 == 0, []pcall{{op: 'r', arg: s}, {op: 'p'}}, k%40 == 0, "calls:abandoned-enum")
	})
	for i := 0; i < n; i++ {
		t := targets[h.rng.Intn(len(targets))]
		h.calls(t, h.rng.Intn(2) == 0, h.genCalls(pool), i%4 == 0, "calls:random")
	}
}
