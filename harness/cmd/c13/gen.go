package main

import (
	"strings"

	"verif/harness/lib"
)

// the token alphabet (one representative per lexer case)
var tokAlphabet = []string{"(", ")", "[", "]", "{", "}", "\"", "'", "`", "~", "^", "%", ":", ";", ",", ".", "-", "+",
	"1", "0", "a", "e", " ", "\n", "/", "*", "\\", "=", "@", "#", "<", "&", "|", "!", "$", "?", "_", "x", "n", "é"}

// characters that matter to DecodeAtom's regex cascade
var atomAlphabet = []string{"0", "1", "7", "9", "a", "b", "e", "E", "f", "x", "o", "i", "n", "I", "N", "U", "L", "_", ".", "-", "+",
	":", "'", "\\", "#", "?", "*", "&", "/", "=", "<", ">", "!", "|", "$", "t", "\n", " ", "é", "@"}

var shortAlphabet = []string{"(", ")", "\"", "`", "%", "~", "\\", "-", "1", "a", " ", "/", "*", ":", "{", "}"}
var shortAlphabetQuick = []string{"(", ")", "\"", "`", "%", "\\", "-", "a", " ", "/", "*", ":"}

// hand-written texts around every lexer/parser mode switch
var edgeTexts = []string{
	"", " ", "a", "-1 ", "-1", "(- 1)", "(-1)", "a-1", "(a -1)", "1e-5", "1e+5 2E-3", "1.5e10", "(+ 1e-5 x)", "-", "+", "(+ 1 2) -", "(- a) +",
	"(+ Inf 1)", "-Inf", "+Inf", "(- Inf)", "- Inf", "-inf", "NaN nan", "-.5", ".5", "1_000", "0x1F 0o17 0b101", "12ULL 0x1fULL 0o7ULL", "0b1ULL", "99999999999999999999",
	"1e999", "1_0.5", "1._5", "\"abc\"", "\"abc", "\"a\\nb\\\"c\"", "\"a\\qb\"", "\"(((\"", "(defn hello [] \"greetings!(((\")",
	"`raw\n\nstring`", "{a=`\n\n`}", "`abc", "(a `b` c)", "'a'", "'\\n'", "'\\''", "'('", "'ab'", "'ab' c: d", "'a", "'é'", "'\\\\a'",
	"%a", "%(a b)", "^(a ~b ~@c)", "~(f x)", "~@ x", "(a %", "(a % b)", "% ", "^", "~", "~@", "(a \\ b)", "(a \\", "(a \\ b c)", "(a \\ b]", "(\\ a)", "\\",
	"// line comment\n(a)", "(a // c\n b)", "/* block */ a", "(a /* b\nc\nd */ e)", "/* open", "/* a * b */", "/* a **/ x", "/**/", "/***/", "a/b", "a / b", "(/ 6 3)", "a//b", "a/*b*/c", "/",
	"a:b", "a: b", ":a", "a:=b", "a := b", "a :", "x[1:2]", "x[-1:]", "x[1:=2]", "(hash a:1 b:2)", "{a:1}", "{a: 1 b: 2}", "{\"a\":1}", "{\"a\" :1}", "{\"a\"x\"",
	"{`a`:1}", "{`a` 1}", "{}", "{ }", "{ /*c*/ }", "{ /* c */ a:1}", "{ // c\n a:1}", "{for: 1}", "{a:for}", "{a: for}", "{a + b}", "{a = 1; b = 2}", "{", "{a", "{a:", "{\"a\"", "{`a`", "{ /* c",
	"(", ")", "(]", "[)", "[1, 2, 3]", "[1 2", "[", "]", "(a (b (c)))", "((", "(a))", "(a b) c", "a b c", "a\nb\n", "(a\n", "a;b", "a,b", ";", ",",
	"a.b.c", ".a.b", ".", "..", "a.", ".5.", "#a", "?a", "a#", "$x", "a$b", "@", "a@b", "&", "&&", "||", "a && b", "a&b", "|", "!", "!=", "<!", "<-", "->", "**", "*=", "/=", "a**b", "a*b", "++", "--", "a++", "-a", "+a", "a+b", "a-b", "a -b", "a - b", "e-1", "1e-", "1e-x", "e+", "1e1e-1",
	"true false", "truefalse", "true:", "nil", "(a:b:c)", "a::b", "::", ":=", ":==", "=:", "a=b", "a==b", "<=", ">=", "a<=b", "a<b>c",
	"é", "(é \"é\" 'é')", "a\tb", "a\rb", "\x00", "a\x00b", "x y\n", "(a . b)", "0x", "0xg", "1a", "1.", "1.e5", "1e5.", "1__2", "_1", "-_1", "--1", "- 1", "-1-1", "1-1", "(1)-1", "[1]-1", "a,-1", "a;-1", "a:-1", "\"s\"-1", "`s`-1", "'c'-1", "}-1", "{-1}", "=-1", "!-1",
	"{ { // c\n }", "{ //c\n}", "{ /* c */ }", "({ // c\n} x)", "{ { /* c */ } a }", "{ { // c\n } }",
	"% /* c */ a", "%// c\na", "^(a ~ /* c */ x)", "(a ~@ // c\n b)", "~ /* c */", "% // c", "%/* c */", "(a % /* c */)", "^ /* a */ /* b */ // c\n x", "(% /* c\nd */ a)",
	"[~ // c\n]", "{% /* c */ a}", "% /* c */ /* d", "~@/**/x", "%/***/x", "^//\nx", "(a \\ % /* c */ b)",
	"(quote a)", "%%a", "%~a", "^^a", "~~a", "~@~a", "%", "(%)", "[%]", "{%}", "[a %", "{a %", "(a ^", "(a ~@", "(a ~", "(a %\n b)", "(def x %\n  (1 2 3))",
}

// earlier inputs that leave the lexer or parser in the middle of something
var badTexts = []string{
	"(+ 1 2)", "(a \"b", "\"abc", "`abc", "/* open", "// line", "'a", "'ab'", "(a", "[1 2", "{a", "{a:", "{\"a\"", "a:", "a", "~", "~@", "-", "+", "1e", "1e-", "/", "*", "a\\",
	")", "(]", "\"a\\q", "a\"b", "a`b", "a%b", "a^b", "a~b", "(a \\ b c)", "0xg", "1a", "99999999999999999999", "(a b c", "x y", "(((((", "%", "{ /* c", "=", "<", "a'",
	"abcdefghijklmnopqrstuvwxyz0123456789", "(e", "E", "1E", "(1e", "e e e e e e e e e e e e e e e e e e e e e",
}

var atoms = []string{"a", "b", "foo", "x1", "bar:", "k:", "1", "0", "-1", "42", "1_000", "0x1F", "0o17", "0b101", "7ULL", "0xffULL", "1.5", "-2.5", ".5", "1e5", "1e-5", "2E+3", "1.5e-3", "-1e-1",
	"Inf", "-Inf", "+Inf", "NaN", "true", "false", "nil", "\"s\"", "\"a b\"", "\"a\\nb\"", "\"(\"", "\"\\\"\"", "\"\"", "`r`", "`a\nb`", "`(`", "'c'", "'\\n'", "'('", "a.b", ".a", "a.b.c", "#s", "?q", "$d",
	"+", "-", "*", "/", "<", ">", "=", "==", "!=", "<=", ">=", ":=", "->", "<-", "**", "&&", "||", "!", "++", "--", "+=", "-=", "*=", "/=", ":", ",", ";", "&", "é", "\"é\"", "def", "fn", "for", "hash"}

var seps = []string{" ", " ", " ", "\n", "  ", "\t", " // c\n", " /* c */ ", "\n\n", " /* a\nb */ ", ", ", "; "}

func pick(r *lib.Rng, xs []string) string { return xs[r.Intn(len(xs))] }

// genProgram: a sequence of nested expressions using every bracket kind, quote sugar,
// dotted pairs, JSON-like hashes, infix blocks and comments.
func genProgram(r *lib.Rng, n int) string {
	var sb strings.Builder
	for i := 0; i < n; i++ {
		if i > 0 || r.Intn(4) == 0 {
			sb.WriteString(pick(r, seps))
		}
		sb.WriteString(genExpr(r, 3))
	}
	if r.Intn(3) == 0 {
		sb.WriteString(pick(r, seps))
	}
	return sb.String()
}

func genSeq(r *lib.Rng, depth, max int) string {
	var sb strings.Builder
	n := r.Intn(max + 1)
	for i := 0; i < n; i++ {
		if i > 0 {
			sb.WriteString(pick(r, seps))
		} else if r.Intn(5) == 0 {
			sb.WriteString(" ")
		}
		sb.WriteString(genExpr(r, depth))
	}
	if r.Intn(5) == 0 {
		sb.WriteString(" ")
	}
	return sb.String()
}

func genExpr(r *lib.Rng, depth int) string {
	if depth <= 0 {
		return pick(r, atoms)
	}
	switch r.Intn(16) {
	case 0, 1, 2:
		return "(" + genSeq(r, depth-1, 4) + ")"
	case 3, 4:
		return "[" + genSeq(r, depth-1, 4) + "]"
	case 5:
		return "{" + genSeq(r, depth-1, 4) + "}"
	case 6:
		// JSON-like hash
		var sb strings.Builder
		sb.WriteString("{")
		if r.Intn(4) == 0 {
			sb.WriteString(pick(r, []string{" ", " /* c */ ", " // c\n", "\n"}))
		}
		m := 1 + r.Intn(3)
		for i := 0; i < m; i++ {
			switch r.Intn(3) {
			case 0:
				sb.WriteString(pick(r, []string{"a", "b", "key", "for"}) + ":")
			case 1:
				sb.WriteString("\"" + pick(r, []string{"a", "b c", "k"}) + "\"" + pick(r, []string{":", " :", ": "}))
			default:
				sb.WriteString("`" + pick(r, []string{"a", "b c"}) + "`" + pick(r, []string{":", " :"}))
			}
			sb.WriteString(pick(r, []string{"", " "}))
			sb.WriteString(genExpr(r, depth-1))
			sb.WriteString(pick(r, []string{" ", ", ", "\n"}))
		}
		sb.WriteString("}")
		return sb.String()
	case 7:
		pre := pick(r, []string{"%", "^", "~", "~@", "% ", "~ "})
		if r.Intn(3) == 0 {
			// comments between the prefix and its form are skipped
			pre += pick(r, []string{"/* c */", " /* c */ ", "// c\n", " /* a\nb */ ", "/**/", " // c\n // d\n", "/* a *//* b */"})
		}
		return pre + genExpr(r, depth-1)
	case 8:
		return "(" + genExpr(r, depth-1) + " \\ " + genExpr(r, depth-1) + ")"
	case 9:
		return "(" + pick(r, []string{"def", "defn", "fn", "+", "-", "let", "cond"}) + " " + genSeq(r, depth-1, 3) + ")"
	case 10:
		return "{" + pick(r, atoms) + " " + pick(r, []string{"+", "-", "*", "/", "=", ":=", "==", "<", "**", "&&"}) + " " + genExpr(r, depth-1) + "}"
	case 11:
		return pick(r, atoms) + "[" + pick(r, []string{"1", "-1", "a", ""}) + ":" + pick(r, []string{"2", "", "b"}) + "]"
	case 12:
		return pick(r, []string{"/* c */", "// c\n", "/* a\n b\n c */", "/**/", "/* * / */"})
	}
	return pick(r, atoms)
}

// tokenSoup: random tokens (including unbalanced brackets and stray sugar) joined with or without separators.
func tokenSoup(r *lib.Rng, n int) string {
	toks := []string{"(", ")", "[", "]", "{", "}", "%", "^", "~", "~@", "\\", ":", ":=", ",", ";", "\"", "`", "'", "/*", "*/", "//", "\n"}
	var sb strings.Builder
	for i := 0; i < n; i++ {
		if r.Intn(3) == 0 {
			sb.WriteString(pick(r, toks))
		} else {
			sb.WriteString(pick(r, atoms))
		}
		if r.Intn(3) != 0 {
			sb.WriteString(pick(r, seps))
		}
	}
	return sb.String()
}

// charSoup: random characters of the token alphabet.
func charSoup(r *lib.Rng, n int) string {
	var sb strings.Builder
	for i := 0; i < n; i++ {
		sb.WriteString(pick(r, tokAlphabet))
	}
	return sb.String()
}

// atomSamples: longer strings for the atom classifier (mutations of the atoms above and random strings).
func atomSamples(r *lib.Rng, thorough bool) []string {
	n := 4000
	if thorough {
		n = 200000
	}
	var out []string
	for _, a := range atoms {
		out = append(out, a, a+":", "-"+a, a+"ULL", "0x"+a, a+".", "."+a, a+"e5", a+"_", a+"i")
	}
	for i := 0; i < n; i++ {
		var s string
		switch r.Intn(3) {
		case 0:
			s = pick(r, atoms)
			rs := []rune(s)
			if len(rs) > 0 {
				k := r.Intn(len(rs))
				s = string(rs[:k]) + pick(r, atomAlphabet) + string(rs[k+r.Intn(2):])
			}
		case 1:
			m := 4 + r.Intn(6)
			var sb strings.Builder
			for j := 0; j < m; j++ {
				sb.WriteString(pick(r, atomAlphabet))
			}
			s = sb.String()
		default:
			// numeric-looking
			m := 3 + r.Intn(8)
			var sb strings.Builder
			num := []string{"0", "1", "7", "9", "_", ".", "e", "E", "-", "+", "x", "o", "b", "f", "U", "L", "a"}
			for j := 0; j < m; j++ {
				sb.WriteString(pick(r, num))
			}
			s = sb.String()
		}
		if s != "" {
			out = append(out, s)
		}
	}
	return out
}

// multi-line REPL entries (one form, or a form started on the first line)
var replEntries = []string{
	"(def a 1)", "a", "(def b\n  [1 2\n   3])", "(def s `one\n\nthree`)", "(def s `one\n   \nthree` 7)", "(def q \"x\n\ny\")",
	"(def q \"x\n \t \ny\" 1)", "(f /* c1\n\n c3 */ 8)", "(f /* c1\n   \n c3 */ 8)", "`alpha\n\n\nomega`", "\"a\n\nb\"", "/* a\n\n b */",
	"(a\n\nb)", "(a\n   \nb)", "[1\n\n2\n\n\n3]", "{a:1\n\nb:2}", "{x +\n\n y}", "(a %\n b)", "(a %\n\n b)", "(a \\\n\n b)", "(a\n\\ b)", "(a \\ b\n)",
	"(def x %\n  (1 2 3))", "%\n\na", "^\n(a ~\n\nb)", "(a // c\n\n b)", "(\n\n\n)", "(a `x\n`\n\n)", "(a \"\n\")", "(`\n\n`)", "(\"\n\n\")",
	"(a -\n\nInf)", "(- \n 1)", "(a '\\n'\n\n)", "(a\n", "(a \"b\n\n", ")", "(]", "a \"b", "(+ 1 2) -", "-", "(a\n\n\n\n\n\n\nb)", "(a `b\n\n\n\n\n\n\nc`)",
	"(x /* \n * doc\n *\n **/ y)", "(a \"b\\\n\nc\")", "(a\n;\n\nb)", "(a,\n\n,b)", "(a:\n\n1)", "(a :=\n\n1)", "(1e\n-5)", "(ab\ncd)", "(a \"b\n   c\" `d\n   e`)",
}

var replItems = []string{"% /* c */ a", "~ // c\n b", "^/* c\n\n d */x", "a", "b1", "42", "-1", "1.5", "\"s\"", "\"p\n\nq\"", "\"p\n  \nq\"", "\"\n\"", "`r`", "`x\n\ny`", "`x\n \t\ny`", "`\n\n`",
	"/* c */", "/* c\n\n d */", "/* c\n   \n d */", "// c\n", "%a", "~b", "^(q ~r)", "(a b)", "[1 2]", "{k:1}", "{x + 1}", "'c'", "k:", ":=", "-", "+", "(a \\ b)", "nil", "true"}
var replSeps = []string{" ", " ", "\n", "\n", "\n\n", "\n  \n", "\n\t\n", "\n\n\n", "  ", " \n "}

// genReplEntry: one bracketed form spread over several lines, with blank and whitespace-only lines
// between and inside its elements; sometimes preceded by a complete first line or left unfinished.
func genReplEntry(r *lib.Rng) string {
	open, close := "(", ")"
	switch r.Intn(5) {
	case 0:
		open, close = "[", "]"
	case 1:
		open, close = "{", "}"
	}
	var sb strings.Builder
	sb.WriteString(open)
	n := 1 + r.Intn(6)
	for i := 0; i < n; i++ {
		if i > 0 || r.Intn(3) == 0 {
			sb.WriteString(pick(r, replSeps))
		}
		if r.Intn(6) == 0 {
			sb.WriteString(genExpr(r, 2))
		} else {
			sb.WriteString(pick(r, replItems))
		}
	}
	if r.Intn(3) == 0 {
		sb.WriteString(pick(r, replSeps))
	}
	if r.Intn(12) != 0 {
		sb.WriteString(close)
	}
	s := sb.String()
	s = strings.ReplaceAll(s, "\r", " ")
	return strings.TrimRight(s, "\n")
}

// ---- REPL entries with very long lines -------------------------------------------------------
// The REPL's no-liner reader (getLine) assembles a line from the parts bufio.Reader.ReadLine returns;
// a line longer than the reader's buffer (4096 bytes) arrives in several parts. Entries whose lines
// straddle the multiples of that size, in every construct that can make a line long.

// filler of exactly n bytes whose content depends on the position (no period that divides 4096)
func filler(n int, sep string) string {
	var sb strings.Builder
	for i := 0; sb.Len() < n; i++ {
		sb.WriteString("w")
		sb.WriteString(strconvItoa(i*7 + 3))
		sb.WriteString(sep)
	}
	return sb.String()[:n]
}

func strconvItoa(i int) string {
	if i == 0 {
		return "0"
	}
	var b []byte
	for i > 0 {
		b = append([]byte{byte('0' + i%10)}, b...)
		i /= 10
	}
	return string(b)
}

// longLine builds one line of exactly n bytes (n >= 40) of the given shape.
func longLine(shape, n int) string {
	switch shape % 6 {
	case 0: // a long string literal
		pre, post := "(def s \"", "\")"
		return pre + filler(n-len(pre)-len(post), "_") + post
	case 1: // a long list of short atoms
		pre, post := "(list ", ")"
		body := strings.TrimRight(filler(n-len(pre)-len(post), " "), " ")
		for len(pre)+len(body)+len(post) < n {
			body += "z"
		}
		return pre + body + post
	case 2: // a long block comment inside a form
		pre, post := "(f /* ", " */ 8)"
		return pre + filler(n-len(pre)-len(post), " ") + post
	case 3: // a long raw string
		pre, post := "(def r `", "`)"
		return pre + filler(n-len(pre)-len(post), " ") + post
	case 4: // a long array of numbers with commas
		pre, post := "[", "]"
		var sb strings.Builder
		for i := 0; sb.Len() < n-len(pre)-len(post)-8; i++ {
			sb.WriteString(strconvItoa(i*13+1) + ", ")
		}
		body := sb.String()
		for len(pre)+len(body)+len(post) < n {
			body += "7"
		}
		return pre + body + post
	default: // a long infix block
		pre, post := "{x = ", "}"
		var sb strings.Builder
		for i := 0; sb.Len() < n-len(pre)-len(post)-10; i++ {
			sb.WriteString("v" + strconvItoa(i) + " + ")
		}
		body := sb.String() + "1"
		for len(pre)+len(body)+len(post) < n {
			body += "1"
		}
		return pre + body + post
	}
}

type longEntry struct {
	text string
	emit bool // also a case line for the model
	tag  string
}

// longReplEntries: lines around every multiple of the bufio buffer size up to 4 buffers, a few much longer ones,
// as the only line, as the first line of a multi-line form and as a continuation line.
func longReplEntries(r *lib.Rng, thorough bool) []longEntry {
	var out []longEntry
	const buf = 4096
	k := 0
	for mult := 1; mult <= 4; mult++ {
		span := 3
		if thorough {
			span = 12
		}
		for delta := -span; delta <= span; delta++ {
			n := mult*buf + delta
			shape := k
			k++
			line := longLine(shape, n)
			// sample for the model: lists and arrays are cheap for it at any length, strings only near one buffer
			emit := (delta == 1 || delta == -1) && (mult == 1 || shape%6 == 1 || shape%6 == 4)
			out = append(out, longEntry{line, emit, "repl:long-single"})
			if delta >= 0 && delta <= 1 {
				// the long line as continuation line, and followed by a continuation line
				out = append(out, longEntry{"(begin\n" + longLine(shape+1, n) + "\n)", mult == 1 && delta == 1, "repl:long-continuation"})
				out = append(out, longEntry{"(begin " + longLine(shape+2, n-7) + "\n  1\n\n 2)", false, "repl:long-first"})
			}
		}
	}
	for _, n := range []int{20000, 70000} {
		out = append(out, longEntry{longLine(1, n), false, "repl:long-single"})
		out = append(out, longEntry{longLine(0, n), false, "repl:long-single"})
		out = append(out, longEntry{"(a\n" + longLine(2, n) + "\n b)", false, "repl:long-continuation"})
	}
	// random lengths and shapes
	m := 40
	if thorough {
		m = 600
	}
	for i := 0; i < m; i++ {
		n := 3000 + r.Intn(14000)
		out = append(out, longEntry{longLine(r.Intn(6), n), false, "repl:long-random"})
	}
	return out
}

// ---- every short sequence of tokens as a complete text ---------------------------------------
// One spelling per token kind the parser's look-aheads distinguish ('{' look-ahead: string, raw string, symbol
// with colon, comments, '}', "for"; -Inf look-ahead: sign and Inf; dotted pair: backslash; reader prefixes).
// A look-ahead that asks for one token too many (or too few) shows at the END of a text, so these sequences are
// parsed as whole texts (and cut everywhere when short).
var tokenSpellings = []string{"{", "}", "(", ")", "[", "]", "\"s\"", "`r`", "k:", "a", ":", "/* c */", "// c\n", "for", "%", "-", "Inf", "\\", "1", ","}
var tokenSpellingsBrace = []string{"{", "}", "\"s\"", "`r`", "k:", ":", "/* c */", "// c\n", "for", "a", "("}

func tokenSequences(alpha []string, maxLen int, f func(string)) {
	var rec func(prefix string, left int)
	rec = func(prefix string, left int) {
		if prefix != "" {
			f(prefix)
		}
		if left == 0 {
			return
		}
		for _, t := range alpha {
			sep := " "
			if prefix == "" {
				sep = ""
			}
			rec(prefix+sep+t, left-1)
			if prefix != "" && left == 1 {
				// also without the blank (adjacent tokens), once per pair at the last position
				rec(prefix+t, left-1)
			}
		}
	}
	rec("", maxLen)
}
